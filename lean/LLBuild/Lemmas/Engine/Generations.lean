/-
Program generations: histories of the abstract engine in which the CLIENT PROGRAM changes between
engine lifetimes (a build description is edited and the tool is started again on the same database).

A history is a list of `GEvent`s: ordinary engine events, judged by the program of the current
generation, and `reprogram g'` — a new engine (`restart`: memory := database, every rule
unregistered) whose client is the program of generation `g'`.  The invariant of Lemmas/Engine
(`Inv`, `InvC`) is about ONE program; its only clauses that tie stored records to the program
(`good`, `dbGood`) are restricted to records whose signature the program can give the rule
(`SigOf`).  Here the generation-independent part is added (`GoodAll`: a stored record is a completed
execution of EVERY generation that can give the rule the stored signature) and shown to be preserved
under the client obligation `SigCoversValid` (equal signatures mean equal task definitions, for rules
that can accept a stored value at all; `SigCovers` is the stronger form without that proviso) and
`SelfStable` (an input rule reads the external state the same way in every generation).
-/
import LLBuild.Lemmas.Engine.Run
import LLBuild.Lemmas.Engine.Settle

set_option linter.unusedVariables false

namespace LLBuild.Engine

/-! ### Histories over program generations -/

inductive GEvent
  | ev (e : Event)
  /-- the tool is started again (new engine on the same database) with the description of generation `g` -/
  | reprogram (g : Nat)
  deriving Repr, Inhabited

/-- state of a history: the engine state and the generation of the client program in use -/
def stepG (PP : Nat → Program) (sg : St × Nat) : GEvent → Option (St × Nat)
  | .ev e => (step (PP sg.2) sg.1 e).map (fun s' => (s', sg.2))
  | .reprogram g' => (step (PP sg.2) sg.1 .restart).map (fun s' => (s', g'))

def runG (PP : Nat → Program) : St × Nat → List GEvent → Option (St × Nat)
  | sg, [] => some sg
  | sg, e :: es => (stepG PP sg e).bind (fun sg' => runG PP sg' es)

/-! ### Client obligations -/

/-- **The signature covers the definition**: whenever two generations give a rule the same signature
(in whatever external states), the rule's task is the same function in both: same requests, same
discovered dependencies, same result.  (`valid`, `force`, `self` and the signature function itself
need NOT be covered: the engine consults them afresh, in the current generation, on every scan /
completion; nothing stored depends on them.)  Every generation satisfies `Program.WF`. -/
structure SigCovers (PP : Nat → Program) : Prop where
  wf : ∀ g, (PP g).WF
  covers : ∀ g g' k env env', (PP g).sig env k = (PP g').sig env' k →
      (PP g).next k = (PP g').next k ∧ (PP g).disc k = (PP g').disc k ∧
      (∀ e r, (PP g).out k e r = (PP g').out k e r)

/-- the obligation as one would state it without looking at the proof (everything about the rule is
covered); it implies `SigCovers` -/
def SigCoversAll (PP : Nat → Program) : Prop :=
  (∀ g, (PP g).WF) ∧
  ∀ g g' k env env', (PP g).sig env k = (PP g').sig env' k →
    (PP g).next k = (PP g').next k ∧ (PP g).disc k = (PP g').disc k ∧
    (∀ e r, (PP g).out k e r = (PP g').out k e r) ∧ (PP g).self k = (PP g').self k ∧
    (PP g).force k = (PP g').force k ∧ (∀ e v, (PP g).valid e k v = (PP g').valid e k v)

theorem SigCoversAll.toSigCovers {PP : Nat → Program} (h : SigCoversAll PP) : SigCovers PP :=
  ⟨h.1, fun g g' k env env' e => ⟨(h.2 g g' k env env' e).1, (h.2 g g' k env env' e).2.1, (h.2 g g' k env env' e).2.2.1⟩⟩

/-- a changed definition has a changed signature (the contrapositive reading of `SigCovers`) -/
theorem SigCovers.changed {PP : Nat → Program} (hC : SigCovers PP) {g g' : Nat} {k : Key}
    (hne : (PP g).next k ≠ (PP g').next k ∨ (PP g).disc k ≠ (PP g').disc k ∨
      ∃ e r, (PP g).out k e r ≠ (PP g').out k e r) (env env' : Env) :
    (PP g).sig env k ≠ (PP g').sig env' k := by
  intro h
  obtain ⟨a, b, c⟩ := hC.covers g g' k env env' h
  rcases hne with h1 | h1 | ⟨e, r, h1⟩
  · exact h1 a
  · exact h1 b
  · exact h1 (c e r)

/-- **The signature covers the definition of every rule whose stored result can be reused.**  The
obligation of `SigCovers` restricted to pairs of generations (`g` the one that produced a record, `g'`
the one that may consume it) such that the rule of the CONSUMING generation can accept a stored value
at all (`CanValid (PP g') k`: `valid env k v = true` for some `env`, `v`).  A rule that never accepts
its stored value (e.g. a BuildSystem target: no signature, `isResultValid = false`) is re-run in every
build (reason 2), its stored record is never reused, and its definition may change freely under a
constant signature.  (As `g`, `g'` range over all generations, the obligation binds a pair as soon as
ONE of the two generations can accept a value.) -/
structure SigCoversValid (PP : Nat → Program) : Prop where
  wf : ∀ g, (PP g).WF
  covers : ∀ g g' k env env', CanValid (PP g') k → (PP g).sig env k = (PP g').sig env' k →
      (PP g).next k = (PP g').next k ∧ (PP g).disc k = (PP g').disc k ∧
      (∀ e r, (PP g).out k e r = (PP g').out k e r)

theorem SigCovers.toWeak {PP : Nat → Program} (h : SigCovers PP) : SigCoversValid PP :=
  ⟨h.wf, fun g g' k env env' _ e => h.covers g g' k env env' e⟩

/-- a changed definition of a rule that can accept a stored value has a changed signature -/
theorem SigCoversValid.changed {PP : Nat → Program} (hC : SigCoversValid PP) {g g' : Nat} {k : Key}
    (hv : CanValid (PP g') k)
    (hne : (PP g).next k ≠ (PP g').next k ∨ (PP g).disc k ≠ (PP g').disc k ∨
      ∃ e r, (PP g).out k e r ≠ (PP g').out k e r) (env env' : Env) :
    (PP g).sig env k ≠ (PP g').sig env' k := by
  intro h
  obtain ⟨a, b, c⟩ := hC.covers g g' k env env' hv h
  rcases hne with h1 | h1 | ⟨e, r, h1⟩
  · exact h1 a
  · exact h1 b
  · exact h1 (c e r)

/-- **Input rules are stable**: a rule that reads the external state at its own key (`self`) in two
generations reads it the same way.  (Needed: a discovered dependency is recorded as the VALUE its
input rule had; the engine decides "this input is unchanged" by comparing values produced by the
input rule, possibly of different generations.) -/
def SelfStable (PP : Nat → Program) : Prop :=
  ∀ g g' d env, (PP g).self d = true → (PP g').self d = true → (PP g).out d env [] = (PP g').out d env []

/-! ### A ghost record depends on the program only through the task of its rule -/

theorem issuedAfter_congr {P P' : Program} {k : Key} (h : P.next k = P'.next k) :
    ∀ seq, issuedAfter P k seq = issuedAfter P' k seq
  | [] => by simp only [issuedAfter, h]
  | (q, v) :: rest => by simp only [issuedAfter, h, issuedAfter_congr h rest]

theorem validSeq_congr {P P' : Program} {k : Key} (h : P.next k = P'.next k) :
    ∀ seq, validSeq P k seq = validSeq P' k seq
  | [] => rfl
  | (q, v) :: rest => by simp only [validSeq, validSeq_congr h rest, issuedAfter_congr h rest]

theorem completeSeq_congr {P P' : Program} {k : Key} (h : P.next k = P'.next k) (seq : Seq) :
    completeSeq P k seq = completeSeq P' k seq := by
  simp only [completeSeq, issuedAfter_congr h seq]

theorem GoodRec.transfer {P P' : Program} {σ : Store} {k : Key}
    (hn : P.next k = P'.next k) (hd : P.disc k = P'.disc k) (ho : ∀ e r, P.out k e r = P'.out k e r)
    (hs : ∀ d ∈ P.disc k (recvOf (σ.seq k)), P.out d (σ.env k) [] = P'.out d (σ.env k) [])
    (h : GoodRec P σ k) : GoodRec P' σ k where
  valid := by rw [← validSeq_congr hn]; exact h.valid
  complete := by rw [← completeSeq_congr hn]; exact h.complete
  value := by rw [← ho]; exact h.value
  disc := by
    rw [h.disc, ← hd]
    exact List.map_congr_left (fun d hd' => by rw [hs d hd'])
  depsSeq := h.depsSeq
  depsDisc := h.depsDisc

/-- a record that is an execution of generation `g` and that generation `g'` may reuse (it can give the
rule the same signature and its rule can accept a stored value) is an execution of generation `g'` -/
theorem GoodRec.transferGen {PP : Nat → Program} (hC : SigCoversValid PP) (hS : SelfStable PP) {σ : Store} {k : Key}
    {g g' : Nat} {sg : Nat} (h1 : SigOf (PP g) k sg) (h2 : Reusable (PP g') k sg)
    (h : GoodRec (PP g) σ k) : GoodRec (PP g') σ k := by
  obtain ⟨env, he⟩ := h1
  obtain ⟨⟨env', he'⟩, hv⟩ := h2
  obtain ⟨hn, hd, ho⟩ := hC.covers g g' k env env' hv (he.trans he'.symm)
  refine GoodRec.transfer hn hd ho ?_ h
  intro d hdm
  have s1 := (hC.wf g).disc_self k _ d hdm
  have s2 := (hC.wf g').disc_self k _ d (by rw [← hd]; exact hdm)
  exact hS g g' d _ s1 s2

/-! ### The generation-independent invariant -/

/-- every row of the store is a completed execution of every generation that may reuse it (it can give
the rule the stored signature and its rule can accept a stored value) -/
def GoodDb (PP : Nat → Program) (σ : Store) : Prop :=
  ∀ k, (σ.res k).builtAt ≠ 0 → ∀ g, Reusable (PP g) k (σ.res k).sig → GoodRec (PP g) σ k

/-- ... for the database and for its last committed snapshot (what a new engine, after a regular end
or after a crash, starts from; the memory of the old engine is discarded by a reprogram) -/
def GoodAll (PP : Nat → Program) (s : St) : Prop := GoodDb PP s.db ∧ GoodDb PP s.cdb

theorem GoodDb.empty (PP : Nat → Program) : GoodDb PP ({} : Store) := by
  intro k hb; exact absurd rfl hb

theorem GoodAll.init (PP : Nat → Program) : GoodAll PP ({} : St) := ⟨GoodDb.empty PP, GoodDb.empty PP⟩

theorem GoodDb.put {PP : Nat → Program} {σ : Store} {k : Key} {r' : Res} {seq : Seq} {gd : List (Key × Val)} {env : Env}
    (hg : GoodDb PP σ)
    (hk : r'.builtAt ≠ 0 → ∀ g', Reusable (PP g') k r'.sig → GoodRec (PP g') (putRec σ k r' seq gd env) k) :
    GoodDb PP (putRec σ k r' seq gd env) := by
  intro x hb g' hso
  by_cases e : x = k
  · subst e
    have e1 : (putRec σ x r' seq gd env).res x = r' := by simp [putRec]
    rw [e1] at hb hso
    exact hk hb g' hso
  · have e1 : (putRec σ k r' seq gd env).res x = σ.res x := by simp [putRec, upd, e]
    rw [e1] at hb hso
    exact GoodRec.frame (σ := σ) (by simp [putRec, upd, e]) (by simp [putRec, upd, e]) (by simp [putRec, upd, e])
      (by rw [e1]) (by intro y hy; rw [e1]; exact hy) (hg x hb g' hso)

/-- the database changes only when a finished task is recorded, at a crash (rollback) or a wipe -/
theorem step_db_cases {P : Program} {s s' : St} {e : Event} (h : step P s e = some s') :
    s'.db = s.db ∨ (∃ k row, e = .finished k row) ∨ e = .crash ∨ e = .wipe := by
  cases e <;> simp only [step] at h
  case finished k row => right; left; exact ⟨k, row, rfl⟩
  case crash => right; right; left; rfl
  case wipe => right; right; right; rfl
  case ret v =>
    split at h
    · cases h
    · split at h
      · cases h
      · split at h
        · cases h; left; rfl
        · split at h
          · cases h; left; rfl
          · cases h
  case provide k id key v reqs =>
    split at h
    · split at h
      · cases h
      · split at h
        · cases h; left; rfl
        · cases h
    · cases h
  case cycle ks =>
    split at h
    · split at h
      · cases h; left; rfl
      · cases h
    · cases h
  all_goals first
    | (cases h; left; rfl)
    | (split at h
       · cases h; left; rfl
       · cases h)

/-- the committed snapshot changes only at a commit or a wipe -/
theorem step_cdb_cases {P : Program} {s s' : St} {e : Event} (h : step P s e = some s') :
    s'.cdb = s.cdb ∨ e = .dbEnd ∨ e = .wipe := by
  cases e <;> simp only [step] at h
  case dbEnd => right; left; rfl
  case wipe => right; right; rfl
  case ret v =>
    split at h
    · cases h
    · split at h
      · cases h
      · split at h
        · cases h; left; rfl
        · split at h
          · cases h; left; rfl
          · cases h
  case provide k id key v reqs =>
    split at h
    · split at h
      · cases h
      · split at h
        · cases h; left; rfl
        · cases h
    · cases h
  case cycle ks =>
    split at h
    · split at h
      · cases h; left; rfl
      · cases h
    · cases h
  all_goals first
    | (cases h; left; rfl)
    | (split at h
       · cases h; left; rfl
       · cases h)

/-- the record `finished` writes is a completed execution of the current program (whatever its
signature and whether or not its rule ever accepts a value) -/
theorem finished_rec_good {P : Program} {s : St} {k : Key} {row : Res} (hi : Inv P s)
    (hs : s.status k = .computing) (hts : (s.task k).started = true) (htc : (s.task k).completed = true)
    (hperm : isPerm (row.deps.take (s.task k).issued.length) ((s.task k).issued.map Req.toDep) = true)
    (hdrop : row.deps.drop (s.task k).issued.length = discDeps (s.task k).discs) (σ : Store) :
    GoodRec P (putRec σ k { s.mem.res k with builtAt := s.epoch, deps := row.deps } (s.task k).seq
      ((s.task k).discs.map (fun d => (d, P.out d s.env []))) s.env) k := by
  have hfk : inflight s k = true := by simp [inflight, hs]
  have tk := hi.taskOk k hfk hts
  obtain ⟨c1, c2, c3⟩ := tk.computing hs
  have c3 := c3 htc
  constructor
  · simp only [putRec, upd_same]; exact tk.valid
  · simp only [putRec, upd_same]; exact c1
  · simp only [putRec, upd_same]; exact c3
  · simp only [putRec, upd_same]; rw [c2]
  · intro q v hq hk
    simp only [putRec, upd_same] at hq ⊢
    have hm : q.toDep ∈ row.deps.take (s.task k).issued.length :=
      isPerm_mem _ _ hperm _ (List.mem_map.2 ⟨q, by rw [tk.issued]; exact validSeq_issued P k _ tk.valid q v hq, rfl⟩)
    rw [toDep_plain q hk] at hm
    exact List.mem_of_mem_take hm
  · intro d v hd
    simp only [putRec, upd_same] at hd ⊢
    obtain ⟨d', hd', e⟩ := List.mem_map.1 hd
    cases e
    have hm : (⟨d, false, false⟩ : Dep) ∈ row.deps.drop (s.task k).issued.length := by
      rw [hdrop]; exact List.mem_map.2 ⟨d, hd', rfl⟩
    exact List.mem_of_mem_drop hm

/-- `GoodAll` is preserved by every accepted event of the current generation: only `finished` writes a
row; it is an execution of the current generation (`finished_rec_good`) and its signature is the
current rule's (`Inv2.sigComp`), hence — by transfer — an execution of every generation that may reuse it. -/
theorem GoodAll.preserved {PP : Nat → Program} (hC : SigCoversValid PP) (hS : SelfStable PP) {s s' : St} {g : Nat} {e : Event}
    (h : step (PP g) s e = some s') (hi : Inv (PP g) s) (h2 : Inv2 s)
    (hg : GoodAll PP s) : GoodAll PP s' := by
  constructor
  · rcases step_db_cases h with hdb | ⟨k, row, rfl⟩ | rfl | rfl
    · rw [hdb]; exact hg.1
    · -- finished
      simp only [step] at h
      split at h
      · rename_i hc
        cases h
        simp only [Bool.and_eq_true, beq_iff_eq] at hc
        obtain ⟨⟨⟨⟨⟨⟨⟨⟨⟨hcomp, hts⟩, hdone⟩, _⟩, _⟩, _⟩, _⟩, _⟩, hperm⟩, hdrop⟩ := hc
        have hsig : (s.mem.res k).sig = s.sigAt k := h2.sigComp k hcomp hdone
        have hreg : s.registered k = true := h2.reg k (by rw [hcomp]; simp)
        have hso : SigOf (PP g) k (s.mem.res k).sig := by rw [hsig]; exact hi.sigAtOk k hreg
        refine GoodDb.put (σ := s.db) (k := k)
          (r' := { s.mem.res k with builtAt := s.epoch, deps := row.deps }) (seq := (s.task k).seq)
          (gd := (s.task k).discs.map (fun d => (d, (PP g).out d s.env []))) (env := s.env) hg.1 ?_
        intro hb g' hso'
        exact GoodRec.transferGen hC hS hso hso' (finished_rec_good hi hcomp hts hdone hperm hdrop s.db)
      · cases h
    · -- crash: the database is the committed snapshot
      simp only [step] at h
      split at h
      · cases h; exact hg.2
      · cases h
    · simp only [step] at h
      split at h
      · cases h; exact GoodDb.empty PP
      · cases h
  · rcases step_cdb_cases h with hdb | rfl | rfl
    · rw [hdb]; exact hg.2
    · simp only [step] at h
      split at h
      · cases h; exact hg.1
      · cases h
    · simp only [step] at h
      split at h
      · cases h; exact GoodDb.empty PP
      · cases h

/-! ### Changing the program of a quiescent engine -/

/-- On a state in which every rule is idle and unregistered and nothing is pending, the clauses of
`Inv` that mention the program are `good` / `dbGood` only; with them supplied for `P'`, the invariant
for `P` is the invariant for `P'`. -/
theorem Inv.reprogram {P P' : Program} {s : St} (hidle : ∀ k, s.status k = .idle)
    (hreg : ∀ k, s.registered k = false) (hpe : s.pending = [])
    (hmem : ∀ k, (s.mem.res k).builtAt ≠ 0 → Reusable P' k (s.mem.res k).sig → GoodRec P' s.mem k)
    (hdb : ∀ k, (s.db.res k).builtAt ≠ 0 → Reusable P' k (s.db.res k).sig → GoodRec P' s.db k)
    (hi : Inv P s) : Inv P' s := by
  have hnf : ∀ x, inflight s x = false := by intro x; simp [inflight, hidle x]
  constructor
  · exact hi.memE
  · exact hi.dbE
  · exact hi.iterLe
  · exact hi.iterEq
  · exact hi.pendIdle
  · exact hi.startedPos
  · exact hi.startedTarget
  · exact hi.notStarted
  · exact hi.stIdle
  · exact hi.stDone
  · exact hi.builtNow
  · exact hi.dbBuiltNow
  · exact hi.seqDone
  · intro k hb hf; exact ⟨hmem k hb, (hi.good k hb hf).2⟩
  · intro k hb; exact ⟨hdb k hb, (hi.dbGood k hb).2⟩
  · exact hi.dbCross
  · exact hi.memDb
  · intro k hk; rw [hidle k] at hk; cases hk
  · intro d v hd; rw [hpe] at hd; cases hd
  · intro k hfl; rw [hnf k] at hfl; cases hfl
  · exact hi.inflightActive
  · intro k hk; rw [hidle k] at hk; cases hk
  · exact hi.validIdle
  · intro k hk; rw [hreg k] at hk; cases hk
  · exact hi.scanReg

/-! ### The invariant of histories over generations -/

def InvG (PP : Nat → Program) (sg : St × Nat) : Prop :=
  Inv (PP sg.2) sg.1 ∧ InvC (PP sg.2) sg.1 ∧ GoodAll PP sg.1

theorem InvG.init (PP : Nat → Program) (g : Nat) : InvG PP ({}, g) :=
  ⟨Inv.init _, Inv.init _, GoodAll.init PP⟩

theorem stepG_inv2 {PP : Nat → Program} {sg sg' : St × Nat} {e : GEvent}
    (h : stepG PP sg e = some sg') (h2 : Inv2 sg.1) : Inv2 sg'.1 := by
  cases e with
  | ev e =>
    simp only [stepG] at h
    cases hs : step (PP sg.2) sg.1 e with
    | none => rw [hs] at h; cases h
    | some s1 => rw [hs] at h; cases h; exact h2.preserved hs
  | reprogram g' =>
    simp only [stepG] at h
    cases hs : step (PP sg.2) sg.1 .restart with
    | none => rw [hs] at h; cases h
    | some s1 => rw [hs] at h; cases h; exact h2.preserved hs

/-- every event of a history over generations preserves the invariant (unless the F22 ghost flag is set) -/
theorem stepG_inv {PP : Nat → Program} (hC : SigCoversValid PP) (hS : SelfStable PP) {sg sg' : St × Nat} {e : GEvent}
    (h : stepG PP sg e = some sg') (h2 : Inv2 sg.1) (hi : InvG PP sg)
    (hd : sg'.1.pendingDropped = false) : InvG PP sg' := by
  obtain ⟨s, g⟩ := sg
  obtain ⟨hI, hIC, hG⟩ := hi
  cases e with
  | ev e =>
    simp only [stepG] at h
    cases hs : step (PP g) s e with
    | none => rw [hs] at h; cases h
    | some s1 =>
      rw [hs] at h; cases h
      have hP := hC.wf g
      have hI1 := step_inv hP hs hI hIC hd
      exact ⟨hI1, step_invC hP hs hI hIC hd, GoodAll.preserved hC hS hs hI h2 hG⟩
  | reprogram g' =>
    simp only [stepG] at h
    cases hs : step (PP g) s .restart with
    | none => rw [hs] at h; cases h
    | some s1 =>
      rw [hs] at h; cases h
      have hP := hC.wf g
      -- first: a new engine of the SAME generation on the database
      have hI1 : Inv (PP g) s1 := step_inv hP hs hI hIC hd
      have hC1 : InvC (PP g) s1 := step_invC hP hs hI hIC hd
      have hG1 : GoodAll PP s1 := GoodAll.preserved hC hS hs hI h2 hG
      -- the restarted state is quiescent
      simp only [step] at hs
      split at hs
      · rename_i hc
        cases hs
        have ht : s.target = none := by simpa using hc
        have hpe : s.pending = [] := hI.pendIdle ht
        refine ⟨?_, ?_, hG1⟩
        · exact Inv.reprogram (P := PP g) (P' := PP g') (fun _ => rfl) (fun _ => rfl) hpe
            (fun k hb hso => hG1.1 k hb g' hso) (fun k hb hso => hG1.1 k hb g' hso) hI1
        · exact Inv.reprogram (P := PP g) (P' := PP g') (fun _ => rfl) (fun _ => rfl) rfl
            (fun k hb hso => hG1.2 k hb g' hso) (fun k hb hso => hG1.2 k hb g' hso) hC1
      · cases hs

/-- the ghost flag is sticky: only wiping the database clears it -/
theorem step_dropped_or_wiped {P : Program} {s s' : St} {e : Event} (h : step P s e = some s')
    (hd : s.pendingDropped = true) : s'.pendingDropped = true ∨ s' = {} := by
  cases e <;> simp only [step] at h
  case wipe =>
    split at h
    · cases h; right; rfl
    · cases h
  case dbEnd =>
    split at h
    · cases h; left; simp [hd]
    · cases h
  case ret v =>
    split at h
    · cases h
    · split at h
      · cases h
      · split at h
        · cases h; left; exact hd
        · split at h
          · cases h; left; simp [hd]
          · cases h
  case provide k id key v reqs =>
    split at h
    · split at h
      · cases h
      · split at h
        · cases h; left; exact hd
        · cases h
    · cases h
  case cycle ks =>
    split at h
    · split at h
      · cases h; left; exact hd
      · cases h
    · cases h
  all_goals first
    | (cases h; left; exact hd)
    | (split at h
       · cases h; left; exact hd
       · cases h)

theorem stepG_dropped {PP : Nat → Program} {sg sg' : St × Nat} {e : GEvent}
    (h : stepG PP sg e = some sg') (hd : sg.1.pendingDropped = true) :
    sg'.1.pendingDropped = true ∨ InvG PP sg' := by
  cases e with
  | ev e =>
    simp only [stepG] at h
    cases hs : step (PP sg.2) sg.1 e with
    | none => rw [hs] at h; cases h
    | some s1 =>
      rw [hs] at h; cases h
      rcases step_dropped_or_wiped hs hd with a | a
      · left; exact a
      · right; subst a; exact InvG.init PP _
  | reprogram g' =>
    simp only [stepG] at h
    cases hs : step (PP sg.2) sg.1 .restart with
    | none => rw [hs] at h; cases h
    | some s1 =>
      rw [hs] at h; cases h
      rcases step_dropped_or_wiped hs hd with a | a
      · left; exact a
      · right; subst a; exact InvG.init PP _

theorem runG_inv2 {PP : Nat → Program} : ∀ (evs : List GEvent) (sg sg' : St × Nat),
    runG PP sg evs = some sg' → Inv2 sg.1 → Inv2 sg'.1
  | [], sg, sg', h, h2 => by simp only [runG, Option.some.injEq] at h; subst h; exact h2
  | e :: es, sg, sg', h, h2 => by
    simp only [runG] at h
    cases hs : stepG PP sg e with
    | none => rw [hs] at h; simp at h
    | some s1 =>
      rw [hs] at h
      simp only [Option.bind] at h
      exact runG_inv2 es s1 sg' h (stepG_inv2 hs h2)

theorem runG_inv {PP : Nat → Program} (hC : SigCoversValid PP) (hS : SelfStable PP) :
    ∀ (evs : List GEvent) (sg sg' : St × Nat), runG PP sg evs = some sg' → Inv2 sg.1 →
      (sg.1.pendingDropped = true ∨ InvG PP sg) → (sg'.1.pendingDropped = true ∨ InvG PP sg')
  | [], sg, sg', h, _, hi => by simp only [runG, Option.some.injEq] at h; subst h; exact hi
  | e :: es, sg, sg', h, h2, hi => by
    simp only [runG] at h
    cases hs : stepG PP sg e with
    | none => rw [hs] at h; simp at h
    | some s1 =>
      rw [hs] at h
      simp only [Option.bind] at h
      apply runG_inv hC hS es s1 sg' h (stepG_inv2 hs h2)
      rcases hi with hd | hi
      · exact stepG_dropped hs hd
      · cases hd1 : s1.1.pendingDropped
        · right; exact stepG_inv hC hS hs h2 hi hd1
        · left; rfl

/-- the invariant of the CURRENT generation holds in every state reachable through accepted events
and reprograms (from an empty database, any first generation) -/
theorem reachG_inv {PP : Nat → Program} (hC : SigCoversValid PP) (hS : SelfStable PP) {evs : List GEvent} {g0 : Nat}
    {s : St} {g : Nat} (h : runG PP ({}, g0) evs = some (s, g)) (hd : s.pendingDropped = false) :
    InvG PP (s, g) := by
  rcases runG_inv hC hS evs ({}, g0) (s, g) h Inv2.init (Or.inr (InvG.init PP g0)) with h1 | h1
  · rw [show (s, g).1.pendingDropped = s.pendingDropped from rfl, hd] at h1; cases h1
  · exact h1

theorem reachG_inv2 {PP : Nat → Program} {evs : List GEvent} {g0 : Nat} {s : St} {g : Nat}
    (h : runG PP ({}, g0) evs = some (s, g)) : Inv2 s :=
  runG_inv2 evs ({}, g0) (s, g) h Inv2.init

/-- a history without reprograms is a history of one program -/
theorem runG_ev (PP : Nat → Program) (g : Nat) : ∀ (evs : List Event) (s : St),
    runG PP (s, g) (evs.map .ev) = (run (PP g) s evs).map (fun s' => (s', g))
  | [], s => rfl
  | e :: es, s => by
    simp only [List.map_cons, runG, run, stepG]
    cases hs : step (PP g) s e with
    | none => rfl
    | some s1 => simp only [Option.map, Option.bind]; exact runG_ev PP g es s1

end LLBuild.Engine
