/-
Monitor-level frames for the token lifts of C02 / C06 (Props/EngineImplSched5.lean):
* `step_mem_frame`: an event of the middle of a build changes the in-memory result of at most ONE rule, the one it is about,
  and only in the status its guard demands (`Touch`);
* `RInv σ s`: a rule whose task is running still has the `builtAt` and the signature the build started with (`step_rinv`):
  what `priorDue` — "offer the prior value" — looks at.
-/
import LLBuild.Lemmas.Engine.Exec6

set_option linter.unusedVariables false

namespace LLBuild.Engine

/-- the event edits the in-memory result of `k`, which is in the status the guard demands -/
def Touch (s : St) (e : Event) (k : Key) : Prop :=
  (e = .scanning k ∧ s.status k = .idle) ∨ (e = .upToDate k ∧ s.status k = .scanning) ∨
  (e = .create k ∧ s.status k = .needsRun) ∨ (∃ v f, e = .complete k v f ∧ s.status k = .computing) ∨
  (∃ row, e = .finished k row ∧ s.status k = .computing)

theorem step_mem_frame {P : Program} {s s' : St} {e : Event} (h : step P s e = some s') (hmid : Event.isMidX e = true)
    (k : Key) : s'.mem.res k = s.mem.res k ∨ Touch s e k := by
  cases e with
  | scanning k0 =>
    simp only [step] at h
    split at h
    · rename_i hc
      cases h
      simp only [Bool.and_eq_true, beq_iff_eq] at hc
      by_cases e : k = k0
      · subst e; right; left; exact ⟨rfl, hc.1.1.2⟩
      · left; exact setRes_res_other _ _ _ _ e
    · cases h
  | upToDate k0 =>
    simp only [step] at h
    split at h
    · rename_i hc
      cases h
      simp only [Bool.and_eq_true, beq_iff_eq] at hc
      by_cases e : k = k0
      · subst e; right; right; left; exact ⟨rfl, hc.1.1⟩
      · left; exact setRes_res_other _ _ _ _ e
    · cases h
  | create k0 =>
    simp only [step] at h
    split at h
    · rename_i hc
      cases h
      simp only [Bool.and_eq_true, beq_iff_eq] at hc
      by_cases e : k = k0
      · subst e; right; right; right; left; exact ⟨rfl, hc.1⟩
      · left; exact setRes_res_other _ _ _ _ e
    · cases h
  | complete k0 v f =>
    simp only [step] at h
    split at h
    · rename_i hc
      cases h
      simp only [Bool.and_eq_true, beq_iff_eq] at hc
      by_cases e : k = k0
      · subst e; right; right; right; right; left; exact ⟨v, f, rfl, hc.1.1.1.1⟩
      · left; exact setRes_res_other _ _ _ _ e
    · cases h
  | finished k0 row =>
    simp only [step] at h
    split at h
    · rename_i hc
      cases h
      simp only [Bool.and_eq_true, beq_iff_eq] at hc
      by_cases e : k = k0
      · subst e; right; right; right; right; right; exact ⟨row, rfl, hc.1.1.1.1.1.1.1.1.1⟩
      · left; show upd s.mem.res k0 _ k = _; exact upd_other _ _ _ _ e
    · cases h
  | _ => first
    | (exact Bool.noConfusion hmid)
    | (simp only [step] at h
       repeat' split at h
       all_goals (first | cases h | skip)
       all_goals (left; rfl))

/-- a rule whose task is collecting inputs still has the `builtAt` and signature the build started with -/
def RInv (σ : Snap) (s : St) : Prop :=
  ∀ k, s.status k = .running → (s.mem.res k).builtAt = (σ.res k).builtAt ∧ (s.mem.res k).sig = (σ.res k).sig

/-- where a running status comes from -/
theorem step_running {P : Program} {s s' : St} {e : Event} (h : step P s e = some s') (hmid : Event.isMidX e = true)
    (k : Key) (hk : s'.status k = .running) : s.status k = .running ∨ e = .create k := by
  cases e with
  | scanning k0 =>
    simp only [step] at h
    split at h
    · cases h
      by_cases e : k = k0
      · subst e; simp [upd] at hk
      · left; simpa [upd, e] using hk
    · cases h
  | needs k0 r i =>
    simp only [step] at h
    split at h
    · cases h
      by_cases e : k = k0
      · subst e; simp [upd] at hk
      · left; simpa [upd, e] using hk
    · cases h
  | upToDate k0 =>
    simp only [step] at h
    split at h
    · cases h
      by_cases e : k = k0
      · subst e; simp [upd] at hk
      · left; simpa [upd, e] using hk
    · cases h
  | create k0 =>
    simp only [step] at h
    split at h
    · cases h
      by_cases e : k = k0
      · subst e; right; rfl
      · left; simpa [upd, e] using hk
    · cases h
  | inputsAvail k0 ds =>
    simp only [step] at h
    split at h
    · cases h
      by_cases e : k = k0
      · subst e; simp [upd] at hk
      · left; simpa [upd, e] using hk
    · cases h
  | finished k0 row =>
    simp only [step] at h
    split at h
    · cases h
      by_cases e : k = k0
      · subst e; simp [upd] at hk
      · left; simpa [upd, e] using hk
    · cases h
  | _ => first
    | (exact Bool.noConfusion hmid)
    | (simp only [step] at h
       repeat' split at h
       all_goals (first | cases h | skip)
       all_goals (left; exact hk))

theorem step_rinv {P : Program} {σ : Snap} {root : Key} {s s' : St} {e : Event} (hx : XInv P σ root s) (hr : RInv σ s)
    (h : step P s e = some s') (hmid : Event.isMidX e = true) : RInv σ s' := by
  intro k hk
  rcases step_running h hmid k hk with a | a
  · rcases step_mem_frame h hmid k with e | ⟨e, hs⟩ | ⟨e, hs⟩ | ⟨e, hs⟩ | ⟨v, f, e, hs⟩ | ⟨row, e, hs⟩
    · rw [e]; exact hr k a
    all_goals (rw [a] at hs; cases hs)
  · subst a
    simp only [step] at h
    split at h
    · rename_i hc
      cases h
      simp only [Bool.and_eq_true, beq_iff_eq] at hc
      have hmem := (hx.key k).scan (Or.inr hc.1)
      show ((s.mem.setRes k _).res k).builtAt = _ ∧ ((s.mem.setRes k _).res k).sig = _
      rw [setRes_res_same, hmem]
      exact ⟨rfl, rfl⟩
    · cases h

end LLBuild.Engine
