/-
C06 "the same set of executed rules": THE EQUIVALENCE at the end of a successful build.

In a state `s` with `XInv P σ root s` (Exec2/3: reached from `buildStart root` through accepted events that pass the
in-order guards) in which the requested rule is complete and nothing is pending (what the success-shaped `ret` checks):
* `dem_done`: every rule the reference DEMANDS is complete (induction on `Dem`: a rule found up to date has all its recorded
  dependencies complete; a rule that ran because of its `i`-th dependency has the dependencies up to `i` complete, and the
  reference cannot demand one behind it, because it would have to find the `i`-th fresh; a rule that ran issued — along
  ANY valid sequence with reference answers — only requests that its actual, complete sequence issued as well);
* `executed_iff_mustRun`: `k ∈ s.ran ↔ MustRun P σ root k`.
`step_ranX`: `ran` grows by `create` only.
-/
import LLBuild.Lemmas.Engine.Exec3

set_option linter.unusedVariables false

namespace LLBuild.Engine

variable {P : Program} {σ : Snap} {root : Key} {s : St}

/-- answers that agree on kind-0 requests agree after masking -/
theorem maskVal_agree {P : Program} (hD : P.Det) (k : Key) (s1 : Seq) (hv1 : validSeq P k s1 = true) {q : Req} {w w' : Val}
    (h1 : (q, w) ∈ s1) (hag : q.kind = 0 → w = w') : maskVal q w = maskVal q w' := by
  have hkind : q.kind ≤ 2 := by
    obtain ⟨r, hr⟩ := issuedAfter_from_next P k s1 q (validSeq_issued P k s1 hv1 q w h1)
    exact hD.kinds k r q hr
  by_cases hk0 : q.kind = 0
  · simp [maskVal, hk0, hag hk0]
  · by_cases hk1 : q.kind = 1
    · simp [maskVal, hk1]
    · have hk2 : q.kind = 2 := by omega
      exact absurd hk2 (validSeq_kind P k s1 hv1 q w h1)

/-- two splits of one list at the elements `x` and `y` -/
theorem split_cmp {α : Type} {pre post pre' post' : List α} {x y : α} (h : pre ++ x :: post = pre' ++ y :: post') :
    x ∈ pre' ∨ (pre = pre' ∧ x = y) ∨ y ∈ pre := by
  rcases List.append_eq_append_iff.1 h with ⟨a', h1, h2⟩ | ⟨c', h1, h2⟩
  · cases a' with
    | nil =>
      simp only [List.nil_append, List.cons.injEq] at h2
      right; left
      exact ⟨by simpa using h1.symm, h2.1⟩
    | cons z zs =>
      simp only [List.cons_append, List.cons.injEq] at h2
      left; rw [h1, h2.1]; simp
  · cases c' with
    | nil =>
      simp only [List.nil_append, List.cons.injEq] at h2
      right; left
      exact ⟨by simpa using h1, h2.1.symm⟩
    | cons z zs =>
      simp only [List.cons_append, List.cons.injEq] at h2
      right; right; rw [h1, h2.1]; simp

/-- the answers of the actual sequence of a task agree with reference answers -/
theorem XInv.answers_agree (hD : P.Det) (hx : XInv P σ root s) {a : Key} (ht : TaskX P s a) {seq : Seq}
    (hans : RefAnswers P σ seq) {q : Req} {w w' : Val} (h1 : (q, w) ∈ seq) (h2 : (q, w') ∈ (s.task a).seq)
    (hk : q.kind = 0) : w = w' := by
  obtain ⟨B, C, hB⟩ := hans
  obtain ⟨hd, hv⟩ := ht.2.2 q w' h2
  have r1 := hB q w h1 hk
  have r2 := (hx.key q.key).done hd
  rw [hv] at r2
  exact (Ref_unique hD r1 r2).2.1

/-- a demanded rule that has to run and is complete did run -/
theorem XInv.ran_of_needs (hD : P.Det) (hx : XInv P σ root s) {a : Key} (hd : s.status a = .done)
    (hn : NeedsRunR P σ a) : a ∈ s.ran := by
  have := hn.ran hD ((hx.key a).done hd)
  simpa using this

/-- **completeness**: in a build that ran dry, every demanded rule is complete -/
theorem XInv.dem_done (hD : P.Det) (hx : XInv P σ root s) (hroot : s.status root = .done) (hpend : s.pending = [])
    {k : Key} (h : Dem P σ root k) : s.status k = .done := by
  induction h with
  | root => exact hroot
  | scan a B V C pre dp post hdem hre hsplit hpreRef hpreKeep ih =>
    by_cases hr : a ∈ s.ran
    · rcases (hx.key a).cert (Or.inr (Or.inr (Or.inr ⟨ih, hr⟩))) with hn | ⟨_, pre', dp', post', hsplit', hpre', hd', hoo', hlt'⟩
      · exact absurd hre hn
      · rw [hsplit] at hsplit'
        rcases split_cmp hsplit' with h1 | ⟨_, h1⟩ | h1
        · exact (hpre' dp h1).1
        · rw [h1]; exact hd'
        · -- the reference found `dp'` fresh, the engine found it changed
          have r1 := hpreRef dp' h1
          have r2 := (hx.key dp'.key).done hd'
          have hc := (Ref_unique hD r1 r2).2.2
          rcases hpreKeep dp' h1 with e | e
          · rw [hoo'] at e; cases e
          · rw [hc] at e; exact absurd hlt' e
    · exact (hx.key a).kept ih hr dp (by rw [hsplit]; simp)
  | req a seq q hdem hneeds hvalid hans hq ih =>
    have hr := hx.ran_of_needs hD ih hneeds
    have ht := (hx.key a).task (Or.inr (Or.inr ⟨ih, hr⟩))
    have htc := (hx.key a).taskC (Or.inr ⟨ih, hr⟩)
    have hag : ∀ q w w', (q, w) ∈ seq → (q, w') ∈ (s.task a).seq → maskVal q w = maskVal q w' :=
      fun q w w' h1 h2 => maskVal_agree hD a seq hvalid h1 (fun hk => hx.answers_agree hD ht hans h1 h2 hk)
    have hsub := deliveries_sub hD.toMono a (s.task a).seq ht.2.1 htc.1 seq hvalid hag
    have := issued_sub hD.toMono a (s.task a).seq ht.2.1 seq hvalid hsub q hq
    rw [← ht.1] at this
    exact htc.2.2 q this
  | disc a seq d hdem hneeds hvalid hcomplete hans hd ih =>
    have hr := hx.ran_of_needs hD ih hneeds
    have ht := (hx.key a).task (Or.inr (Or.inr ⟨ih, hr⟩))
    have htc := (hx.key a).taskC (Or.inr ⟨ih, hr⟩)
    have hrecv : recvOf seq = recvOf (s.task a).seq :=
      recvOf_unique_kind0 hD a seq (s.task a).seq hvalid hcomplete ht.2.1 htc.1
        (fun q w w' h1 h2 hk => hx.answers_agree hD ht hans h1 h2 hk)
    rw [hrecv, ← htc.2.1] at hd
    rcases (hx.key a).discsDone ih hr d hd with e | e
    · exact e
    · rw [hpend] at e; cases e

/-- **the executed set is the reference set**: in a build that ran dry — the requested rule complete, nothing pending,
nothing in flight — a rule's task was created iff the reference says it must run -/
theorem XInv.executed_iff_mustRun (hD : P.Det) (hx : XInv P σ root s) (hroot : s.status root = .done)
    (hpend : s.pending = []) (hquiet : ∀ k ∈ s.ran, inflight s k = false) (k : Key) :
    k ∈ s.ran ↔ MustRun P σ root k := by
  constructor
  · intro hr
    have hd : s.status k = .done := by
      have hq := hquiet k hr
      rcases (hx.key k).ranSt hr with e | e | e
      · simp [inflight, e] at hq
      · simp [inflight, e] at hq
      · exact e
    have := (hx.key k).done hd
    have hdec : decide (k ∈ s.ran) = true := by simp [hr]
    rw [hdec] at this
    exact ⟨(hx.key k).dem (by rw [hd]; exact fun e => by cases e), _, _, this⟩
  · rintro ⟨hdem, v, c, href⟩
    have hd := hx.dem_done hD hroot hpend hdem
    have := (Ref_unique hD href ((hx.key k).done hd)).1
    simpa using this.symm

/-! ## `ran` along the events of a build -/

/-- the key of a `create` event -/
def Event.cKey : Event → Option Key
  | .create k => some k
  | _ => none

/-- `ran` grows by `create` only (events of a build before `ret`) -/
theorem step_ranX {P : Program} {s s' : St} {e : Event} (h : step P s e = some s') (hmid : Event.isMidX e = true) :
    s'.ran = (Event.cKey e).toList ++ s.ran := by
  cases e <;> simp only [step] at h <;> first
    | (exact Bool.noConfusion hmid)
    | (repeat' split at h
       all_goals (first | cases h | skip)
       all_goals (first | rfl | skip))

end LLBuild.Engine
