/-
Invariant of the abstract engine (`LLBuild.Engine.step`) from which C01/C02/C05 are derived.
-/
import LLBuild.Model.Engine

namespace LLBuild.Engine

/-- What a brand-new engine with no history computes for a key in external state `env`:
the task goes through some valid, complete delivery sequence in which every value-carrying
input is itself what a brand-new engine computes.  (Single-use inputs are masked to 0 by
`recvOf`, must-follow keys carry no value; neither influences the result.) -/
inductive Clean (P : Program) (env : Env) : Key → Val → Prop
  | mk (k : Key) (seq : Seq) :
      validSeq P k seq = true → completeSeq P k seq = true →
      (∀ q v, (q, v) ∈ seq → q.kind = 0 → Clean P env q.key v) →
      Clean P env k (P.out k env (recvOf seq))

/-- Hypotheses on the client under which "incremental = clean" is claimed (DESIGN.md §4.3):
tasks are functions of what they receive plus the external state at the keys they report as
discovered dependencies; discovered dependencies are input rules; an input rule's validity
pins its value and its value determines the external state it stands for. -/
structure Program.WF (P : Program) : Prop where
  out_local : ∀ k env env' recv, (∀ d ∈ P.disc k recv, env d = env' d) →
      (P.self k = true → env k = env' k) → P.out k env recv = P.out k env' recv
  self_valid : ∀ k env v, P.self k = true → P.valid env k v = true → v = P.out k env []
  self_noreq : ∀ k recv, P.self k = true → P.next k recv = []
  self_nodisc : ∀ k recv, P.self k = true → P.disc k recv = []
  disc_self : ∀ k recv d, d ∈ P.disc k recv → P.self d = true
  self_inj : ∀ d env env', P.self d = true → P.out d env [] = P.out d env' [] → env d = env' d

/-- (G) the ghost record of `k` describes a completed execution that produced its stored value
and whose value-carrying and discovered dependencies are all recorded -/
structure GoodRec (P : Program) (σ : Store) (k : Key) : Prop where
  valid : validSeq P k (σ.seq k) = true
  complete : completeSeq P k (σ.seq k) = true
  value : (σ.res k).value = P.out k (σ.env k) (recvOf (σ.seq k))
  disc : σ.disc k = (P.disc k (recvOf (σ.seq k))).map (fun d => (d, P.out d (σ.env k) []))
  depsSeq : ∀ q v, (q, v) ∈ σ.seq k → q.kind = 0 → (⟨q.key, false, false⟩ : Dep) ∈ (σ.res k).deps
  depsDisc : ∀ d v, (d, v) ∈ σ.disc k → (⟨d, false, false⟩ : Dep) ∈ (σ.res k).deps

/-- (F) epoch soundness: a recorded dependency whose stored value is no longer the one `k` saw
was computed after `k` was last brought up to date (or is still pending in this build) -/
structure FreshRec (σ : Store) (pend : List (Key × Val)) (k : Key) : Prop where
  seq : ∀ q v, (q, v) ∈ σ.seq k → q.kind = 0 →
      (σ.res q.key).value = v ∨ (σ.res k).builtAt < (σ.res q.key).computedAt
  disc : ∀ d v, (d, v) ∈ σ.disc k →
      (σ.res d).value = v ∨ (σ.res k).builtAt < (σ.res d).computedAt ∨ (d, v) ∈ pend

/-- the same statement for a record of one store (`ρ`) read against the values of another (`σ`):
used for database rows against the in-memory values -/
structure CrossFresh (ρ σ : Store) (pend : List (Key × Val)) (k : Key) : Prop where
  seq : ∀ q v, (q, v) ∈ ρ.seq k → q.kind = 0 →
      (σ.res q.key).value = v ∨ (ρ.res k).builtAt < (σ.res q.key).computedAt
  disc : ∀ d v, (d, v) ∈ ρ.disc k →
      (σ.res d).value = v ∨ (ρ.res k).builtAt < (σ.res d).computedAt ∨ (d, v) ∈ pend

/-- `sg` is a signature the program can give rule `k` (in some external state) -/
def SigOf (P : Program) (k : Key) (sg : Nat) : Prop := ∃ env, P.sig env k = sg

/-- the rule of `k` can accept a stored value at all (in some external state) -/
def CanValid (P : Program) (k : Key) : Prop := ∃ env v, P.valid env k v = true

/-- a stored record of `k` with signature `sg` is one the engine may reuse under program `P`: `P` can
give the rule that signature and the rule can accept a stored value (a record is only ever consumed
at `upToDate`, after the rule accepted the stored value: `validSeen k = some true`) -/
def Reusable (P : Program) (k : Key) (sg : Nat) : Prop := SigOf P k sg ∧ CanValid P k

def active (s : St) : Prop := s.started = true

structure TaskOk (P : Program) (s : St) (k : Key) : Prop where
  issued : (s.task k).issued = issuedAfter P k (s.task k).seq
  valid : validSeq P k (s.task k).seq = true
  inputs : ∀ q v, (q, v) ∈ (s.task k).seq → q.kind = 0 → s.status q.key = .done ∧ (s.mem.res q.key).value = v
  running : s.status k = .running → (s.task k).completed = false
  computing : s.status k = .computing →
      completeSeq P k (s.task k).seq = true ∧ (s.task k).discs = P.disc k (recvOf (s.task k).seq) ∧
      ((s.task k).completed = true → (s.mem.res k).value = P.out k s.env (recvOf (s.task k).seq))

structure Inv (P : Program) (s : St) : Prop where
  memE : ∀ k, (s.mem.res k).builtAt ≤ s.epoch ∧ (s.mem.res k).computedAt ≤ s.epoch
  dbE : ∀ k, (s.db.res k).builtAt ≤ s.epoch ∧ (s.db.res k).computedAt ≤ s.epoch
  iterLe : s.dbIter ≤ s.epoch
  iterEq : s.target = none ∨ s.started = false → s.dbIter = s.epoch
  pendIdle : s.target = none → s.pending = []
  startedPos : s.started = true → 0 < s.epoch
  startedTarget : s.started = true → s.target.isSome = true
  notStarted : s.target.isSome = true → s.started = false → ∀ k, s.status k = .idle
  stIdle : s.target = none → ∀ k, s.status k = .idle
  stDone : ∀ k, s.status k = .done → active s ∧ (s.mem.res k).builtAt = s.epoch
  builtNow : active s → ∀ k, (s.mem.res k).builtAt = s.epoch → s.status k = .done
  dbBuiltNow : active s → ∀ k, (s.db.res k).builtAt = s.epoch → s.status k = .done
  seqDone : ∀ k, s.status k = .done →
      (∀ q v, (q, v) ∈ s.mem.seq k → q.kind = 0 → s.status q.key = .done) ∧
      (∀ d v, (d, v) ∈ s.mem.disc k → s.status d = .done ∨ (d, v) ∈ s.pending)
  /-- the ghost record is an execution of THE program `P` only for records the engine may reuse under
  `P` (`Reusable`: the signature is one `P` can give the rule and the rule can accept a stored value;
  records left by an earlier client program with another signature are re-run, reason 1, records of a
  rule that never accepts its stored value are re-run, reason 2); epoch soundness holds for every record -/
  good : ∀ k, (s.mem.res k).builtAt ≠ 0 → inflight s k = false →
      (Reusable P k (s.mem.res k).sig → GoodRec P s.mem k) ∧ FreshRec s.mem s.pending k
  dbGood : ∀ k, (s.db.res k).builtAt ≠ 0 →
      (Reusable P k (s.db.res k).sig → GoodRec P s.db k) ∧ FreshRec s.db s.pending k
  dbCross : ∀ k, (s.db.res k).builtAt ≠ 0 → CrossFresh s.db s.mem s.pending k
  memDb : ∀ k, (s.mem.res k).builtAt ≠ 0 → inflight s k = false →
      (s.db.res k).builtAt ≠ 0 ∧ (s.db.res k).value = (s.mem.res k).value ∧
      (s.db.res k).computedAt = (s.mem.res k).computedAt ∧ s.db.seq k = s.mem.seq k ∧
      s.db.disc k = s.mem.disc k ∧ s.db.env k = s.mem.env k ∧ (s.db.res k).builtAt ≤ (s.mem.res k).builtAt
  clean : ∀ k, s.status k = .done → Clean P s.env k (s.mem.res k).value
  pendOk : ∀ d v, (d, v) ∈ s.pending → v = P.out d s.env [] ∧ P.self d = true ∧ s.status d ≠ .done
  taskOk : ∀ k, inflight s k = true → (s.task k).started = true → TaskOk P s k
  /-- the in-memory record of a running rule keeps the value/epoch of its last completed execution
  or of a completion not yet processed; either way its `computedAt` bounds hold (memE) -/
  inflightActive : ∀ k, inflight s k = true → active s
  validOk : ∀ k, s.status k = .scanning → s.validSeen k = some true →
      P.valid s.env k (s.mem.res k).value = true ∧ (s.mem.res k).builtAt ≠ 0 ∧
      (s.mem.res k).sig = s.sigAt k
  validIdle : s.target.isSome = true → ∀ k, s.status k = .idle → s.validSeen k = none
  /-- the signature the engine holds for a registered rule was computed by `P` (event `lookup`) -/
  sigAtOk : ∀ k, s.registered k = true → SigOf P k (s.sigAt k)
  /-- only registered rules are scanned -/
  scanReg : ∀ k, s.status k = .scanning → s.registered k = true

end LLBuild.Engine
