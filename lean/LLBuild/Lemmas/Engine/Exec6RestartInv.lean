/-
C03 "database transparency", monitor side: the relation between the in-memory results and the database rows that histories
WITHOUT a failed build keep (`MDInv`), and the frame lemmas its per-event preservation proof uses.

For every rule that is not in flight the in-memory row and the database row agree on value, signature and `computedAt`,
are both built or both never built, list the same dependencies once the single-use ones are dropped, and the database
`builtAt` (epoch of the last RUN) is not later than the in-memory one (epoch of the last run OR up-to-date check) — `RowSim`;
no recorded non-order-only dependency was computed strictly between the two (`eqv`); and a rule that is complete in the
current build was either run in it or has only complete recorded dependencies (`doneDeps`: what makes `eqv` survive the
completion of a task).
-/
import LLBuild.Lemmas.Engine.Exec6RestartSim

set_option linter.unusedVariables false

namespace LLBuild.Engine

/-- the in-memory row `r` of a rule against its database row `r'` -/
structure RowSim (r r' : Res) : Prop where
  value : r.value = r'.value
  sig : r.sig = r'.sig
  computedAt : r.computedAt = r'.computedAt
  built0 : r.builtAt = 0 ↔ r'.builtAt = 0
  le : r'.builtAt ≤ r.builtAt
  deps : r.deps.filter (fun d => !d.singleUse) = r'.deps.filter (fun d => !d.singleUse)

theorem RowSim.refl (r : Res) : RowSim r r := ⟨rfl, rfl, rfl, Iff.rfl, Nat.le_refl _, rfl⟩

theorem RowSim.of_eq {r r' : Res} (h : r = r') : RowSim r r' := h ▸ RowSim.refl r

/-- `scanRule` drops the single-use dependencies in memory -/
theorem RowSim.filter {r r' : Res} (h : RowSim r r') :
    RowSim { r with deps := r.deps.filter (fun d => !d.singleUse) } r' :=
  ⟨h.value, h.sig, h.computedAt, h.built0, h.le, by
    show (r.deps.filter (fun d => !d.singleUse)).filter (fun d => !d.singleUse) = _
    rw [List.filter_filter]; simp only [Bool.and_self]; exact h.deps⟩

/-- an up-to-date check advances the in-memory `builtAt` of a built rule -/
theorem RowSim.bump {r r' : Res} (h : RowSim r r') {e : Nat} (hb : r.builtAt ≠ 0) (he : 0 < e) (hle : r'.builtAt ≤ e) :
    RowSim { r with builtAt := e } r' :=
  ⟨h.value, h.sig, h.computedAt,
    ⟨fun h0 => by have : e = 0 := h0; omega, fun h0 => absurd (h.built0.2 h0) hb⟩, hle, h.deps⟩

/-- **the relation between memory and database that success-only histories keep** -/
structure MDInv (s : St) : Prop where
  row : ∀ k, inflight s k = false → RowSim (s.mem.res k) (s.db.res k)
  eqv : ∀ k, inflight s k = false → ∀ d ∈ (s.mem.res k).deps, d.orderOnly = false →
    (s.mem.res d.key).computedAt ≤ (s.db.res k).builtAt ∨ (s.mem.res k).builtAt < (s.mem.res d.key).computedAt
  doneDeps : ∀ k, s.status k = .done →
    (s.db.res k).builtAt = s.epoch ∨ ∀ d ∈ (s.mem.res k).deps, s.status d.key = .done

namespace MDInv

/-- memory = database and nothing is complete (a new engine on a database) -/
theorem ofSame {s : St} (h1 : ∀ k, s.status k = .idle) (h2 : ∀ k, s.mem.res k = s.db.res k) : MDInv s := by
  refine ⟨fun k _ => RowSim.of_eq (h2 k), ?_, ?_⟩
  · intro k _ d _ _
    rw [h2 k]
    exact (Nat.lt_or_ge (s.db.res k).builtAt (s.mem.res d.key).computedAt).symm
  · intro k hk; rw [h1 k] at hk; cases hk

/-- events that change no row and no status (the epoch only when no rule is complete) -/
theorem congr {s s' : St} (hm : MDInv s) (h1 : ∀ k, s'.mem.res k = s.mem.res k) (h2 : ∀ k, s'.db.res k = s.db.res k)
    (h3 : s'.status = s.status) (h4 : s'.epoch = s.epoch ∨ ∀ k, s.status k ≠ .done) : MDInv s' := by
  have hf : ∀ k, inflight s' k = inflight s k := inflight_congr h3
  refine ⟨?_, ?_, ?_⟩
  · intro k hk; rw [hf] at hk; rw [h1, h2]; exact hm.row k hk
  · intro k hk d hd hoo
    rw [hf] at hk; rw [h1] at hd; rw [h1, h1, h2]
    exact hm.eqv k hk d hd hoo
  · intro k hk
    rw [h3] at hk
    rcases h4 with h4 | h4
    · rw [h1, h2, h3, h4]; exact hm.doneDeps k hk
    · exact absurd hk (h4 k)

/-- all statuses are reset while no rule is in flight -/
theorem toIdle {s s' : St} (hm : MDInv s) (hfl : ∀ k, inflight s k = false) (h1 : ∀ k, s'.mem.res k = s.mem.res k)
    (h2 : ∀ k, s'.db.res k = s.db.res k) (h3 : ∀ k, s'.status k = .idle) : MDInv s' := by
  refine ⟨?_, ?_, ?_⟩
  · intro k _; rw [h1, h2]; exact hm.row k (hfl k)
  · intro k _ d hd hoo
    rw [h1] at hd; rw [h1, h1, h2]
    exact hm.eqv k (hfl k) d hd hoo
  · intro k hk; rw [h3 k] at hk; cases hk

/-- what `update` asks about the other rules when the `computedAt` of `k` does not change -/
theorem hca_of_eq {s s' : St} {k : Key} (hm : MDInv s) (h : (s'.mem.res k).computedAt = (s.mem.res k).computedAt) :
    ∀ k', k' ≠ k → inflight s k' = false → ∀ d ∈ (s.mem.res k').deps, d.key = k → d.orderOnly = false →
      (s'.mem.res k).computedAt ≤ (s.db.res k').builtAt ∨ (s.mem.res k').builtAt < (s'.mem.res k).computedAt := by
  intro k' _ hf d hd hk hoo
  have := hm.eqv k' hf d hd hoo
  rw [hk] at this; rw [h]; exact this

/-- one rule `k` that is not complete changes its status and its rows; the obligations are those of `k`, plus `eqv` of
the rules that record `k` as a dependency when the `computedAt` of `k` changes -/
theorem update {s s' : St} {k : Key} (hm : MDInv s) (hnd : s.status k ≠ .done)
    (hst : ∀ k', k' ≠ k → s'.status k' = s.status k')
    (hmem : ∀ k', k' ≠ k → s'.mem.res k' = s.mem.res k')
    (hdb : ∀ k', k' ≠ k → s'.db.res k' = s.db.res k')
    (hep : s'.epoch = s.epoch)
    (hca : ∀ k', k' ≠ k → inflight s k' = false → ∀ d ∈ (s.mem.res k').deps, d.key = k → d.orderOnly = false →
      (s'.mem.res k).computedAt ≤ (s.db.res k').builtAt ∨ (s.mem.res k').builtAt < (s'.mem.res k).computedAt)
    (hrow : inflight s' k = false → RowSim (s'.mem.res k) (s'.db.res k))
    (heqv : inflight s' k = false → ∀ d ∈ (s'.mem.res k).deps, d.orderOnly = false →
      (s'.mem.res d.key).computedAt ≤ (s'.db.res k).builtAt ∨ (s'.mem.res k).builtAt < (s'.mem.res d.key).computedAt)
    (hdone : s'.status k = .done →
      (s'.db.res k).builtAt = s'.epoch ∨ ∀ d ∈ (s'.mem.res k).deps, s'.status d.key = .done) : MDInv s' := by
  have hf : ∀ k', k' ≠ k → inflight s' k' = inflight s k' := fun k' e => by simp only [inflight, hst k' e]
  refine ⟨?_, ?_, ?_⟩
  · intro k' hk'
    by_cases e : k' = k
    · subst e; exact hrow hk'
    · rw [hf k' e] at hk'; rw [hmem k' e, hdb k' e]; exact hm.row k' hk'
  · intro k' hk' d hd hoo
    by_cases e : k' = k
    · subst e; exact heqv hk' d hd hoo
    · rw [hf k' e] at hk'; rw [hmem k' e] at hd; rw [hmem k' e, hdb k' e]
      by_cases ed : d.key = k
      · rw [ed]; exact hca k' e hk' d hd ed hoo
      · rw [hmem d.key ed]; exact hm.eqv k' hk' d hd hoo
  · intro k' hk'
    by_cases e : k' = k
    · subst e; exact hdone hk'
    · rw [hst k' e] at hk'
      rw [hmem k' e, hdb k' e, hep]
      rcases hm.doneDeps k' hk' with h1 | h1
      · exact Or.inl h1
      · right
        intro d hd
        have hdk := h1 d hd
        have ed : d.key ≠ k := fun ed => hnd (ed ▸ hdk)
        rw [hst d.key ed]; exact hdk

end MDInv

/-- replacing the row of `k` by one with the same `computedAt` changes no `computedAt` -/
theorem setRes_computedAt (σ : Store) (k : Key) (r : Res) (h : r.computedAt = (σ.res k).computedAt) (x : Key) :
    ((σ.setRes k r).res x).computedAt = (σ.res x).computedAt := by
  by_cases e : x = k
  · subst e; rw [setRes_res_same]; exact h
  · rw [setRes_res_other _ _ _ _ e]

theorem upd_computedAt (f : Key → Res) (k : Key) (r : Res) (h : r.computedAt = (f k).computedAt) (x : Key) :
    (upd f k r x).computedAt = (f x).computedAt := by
  by_cases e : x = k
  · subst e; rw [upd_same]; exact h
  · rw [upd_other _ _ _ _ e]

/-- a status that is not `running`/`computing` is not in flight -/
theorem not_inflight_of {s : St} {k : Key} (h1 : s.status k ≠ .running) (h2 : s.status k ≠ .computing) :
    inflight s k = false := by
  simp only [inflight]
  cases hst : s.status k <;> simp_all

end LLBuild.Engine
