import LLBuild.Lemmas.Engine.Build2

set_option linter.unusedVariables false

namespace LLBuild.Engine

theorem isSome_of_ne_none {α : Type} {o : Option α} (h : o.isNone = true) : o = none := by
  cases o <;> simp_all

/-- `lookup`: a rule that was not registered is registered with the signature the program gives it
in the current external state -/
theorem Inv.lookup {P : Program} {s s' : St} {k : Key}
    (h1 : s'.env = s.env) (h2 : s'.epoch = s.epoch) (h3 : s'.mem = s.mem)
    (h4 : s'.db = s.db) (h5 : s'.dbIter = s.dbIter) (h6 : s'.status = s.status) (h7 : s'.task = s.task)
    (h8 : s'.pending = s.pending) (h9 : s'.target = s.target) (h10 : s'.started = s.started)
    (h11 : s'.validSeen = s.validSeen) (h12 : s'.registered = upd s.registered k true)
    (h13 : s'.sigAt = upd s.sigAt k (P.sig s.env k)) (hnr : s.registered k = false)
    (hi : Inv P s) : Inv P s' := by
  -- everything but the registrations is unchanged
  have hi0 : Inv P { s' with registered := s.registered, sigAt := s.sigAt } :=
    Inv.congr (s := s) h1 h2 h3 h4 h5 h6 h7 h8 h9 h10 h11 rfl (fun _ _ => rfl) hi
  have hne : ∀ x, s.status x = .scanning → x ≠ k := by
    intro x hx e; subst e; have := hi.scanReg x hx; rw [hnr] at this; cases this
  constructor
  · exact hi0.memE
  · exact hi0.dbE
  · exact hi0.iterLe
  · exact hi0.iterEq
  · exact hi0.pendIdle
  · exact hi0.startedPos
  · exact hi0.startedTarget
  · exact hi0.notStarted
  · exact hi0.stIdle
  · exact hi0.stDone
  · exact hi0.builtNow
  · exact hi0.dbBuiltNow
  · exact hi0.seqDone
  · exact hi0.good
  · exact hi0.dbGood
  · exact hi0.dbCross
  · exact hi0.memDb
  · exact hi0.clean
  · exact hi0.pendOk
  · intro x hfl hsx; exact ⟨(hi0.taskOk x hfl hsx).issued, (hi0.taskOk x hfl hsx).valid, (hi0.taskOk x hfl hsx).inputs, (hi0.taskOk x hfl hsx).running, (hi0.taskOk x hfl hsx).computing⟩
  · exact hi0.inflightActive
  · intro x hx hv
    have hx0 : s.status x = .scanning := by rw [h6] at hx; exact hx
    rw [h13, upd_other _ _ _ _ (hne x hx0)]
    exact hi0.validOk x hx hv
  · exact hi0.validIdle
  · intro x hx
    rw [h13]
    by_cases e : x = k
    · subst e; rw [upd_same]; exact ⟨s.env, rfl⟩
    · rw [upd_other _ _ _ _ e]; rw [h12, upd_other _ _ _ _ e] at hx; exact hi.sigAtOk x hx
  · intro x hx
    have hx0 : s.status x = .scanning := by rw [h6] at hx; exact hx
    rw [h12, upd_other _ _ _ _ (hne x hx0)]; exact hi.scanReg x hx0

/-- Every event the model accepts preserves the invariant, unless the (ghost) flag records that a
failed build dropped pending discovered dependencies. -/
theorem step_inv {P : Program} (hP : P.WF) {s s' : St} {e : Event}
    (h : step P s e = some s') (hi : Inv P s) (hc : InvC P s) (hd : s'.pendingDropped = false) : Inv P s' := by
  cases e with
  | buildStart k =>
    simp only [step] at h
    split at h
    · cases h
      rename_i hc
      exact Inv.buildStart (s := s) rfl rfl rfl rfl rfl rfl rfl rfl rfl rfl rfl rfl rfl (isSome_of_ne_none hc) hi
    · cases h
  | queueCreated =>
    simp only [step] at h
    split at h
    · cases h
      rename_i hc
      simp only [Bool.and_eq_true, Bool.not_eq_eq_eq_not, Bool.not_true] at hc
      exact Inv.queueCreated (s := s) rfl rfl rfl rfl rfl rfl rfl rfl rfl rfl rfl rfl rfl hc.1 hc.2 hi
    · cases h
  | lookup k =>
    simp only [step] at h
    split at h
    · cases h
      rename_i hc
      exact Inv.lookup (s := s) (k := k) rfl rfl rfl rfl rfl rfl rfl rfl rfl rfl rfl rfl rfl (by simpa using hc) hi
    · cases h
  | dbGet k found =>
    simp only [step] at h
    split at h
    · cases h; exact hi
    · cases h
  | dbBegin => simp only [step] at h; cases h; exact hi
  | dbEnd =>
    simp only [step] at h
    split at h
    · cases h; exact Inv.congr (s := s) rfl rfl rfl rfl rfl rfl rfl rfl rfl rfl rfl rfl (fun _ _ => rfl) hi
    · cases h
  | crash =>
    simp only [step] at h
    split at h
    · cases h; exact Inv.congr (s := crashState s) rfl rfl rfl rfl rfl rfl rfl rfl rfl rfl rfl rfl (fun _ h => by cases h) hc
    · cases h
  | scanning k =>
    simp only [step] at h
    split at h
    · cases h
      rename_i hc
      simp only [Bool.and_eq_true, beq_iff_eq] at hc
      obtain ⟨⟨⟨hst, hidle⟩, hreg⟩, _⟩ := hc
      -- first the dependency filter, then the status change
      have h1 : Inv P { s with mem := s.mem.setRes k { s.mem.res k with deps := (s.mem.res k).deps.filter (fun d => !d.singleUse), sig := (s.mem.res k).sig } } := by
        refine Inv.memDeps (s := s) (k := k) rfl rfl rfl rfl rfl rfl rfl rfl rfl rfl rfl rfl rfl rfl ?_ hi
        right
        intro x hx
        exact List.mem_filter.2 ⟨hx, by simp⟩
      exact Inv.statusQuiet (s := { s with mem := s.mem.setRes k { s.mem.res k with deps := (s.mem.res k).deps.filter (fun d => !d.singleUse), sig := (s.mem.res k).sig } })
        (k := k) (st := .scanning) rfl rfl rfl rfl rfl rfl rfl rfl rfl rfl rfl rfl rfl
        (Or.inr (Or.inl hidle)) (Or.inl rfl) hst (fun _ => hidle) (fun _ => hreg) h1
    · cases h
  | upToDate k =>
    simp only [step] at h
    split at h
    · cases h
      rename_i hc
      simp only [Bool.and_eq_true, beq_iff_eq] at hc
      obtain ⟨⟨hs, hv⟩, hall⟩ := hc
      exact Inv.upToDate hP (s := s) rfl rfl rfl rfl rfl rfl rfl rfl rfl rfl rfl rfl rfl hs hv hall hi
    · cases h
  | valid k v b =>
    simp only [step] at h
    split at h
    · cases h
      rename_i hc
      simp only [Bool.and_eq_true, beq_iff_eq, bne_iff_ne, ne_eq] at hc
      obtain ⟨⟨⟨⟨⟨hs, hb⟩, hsig⟩, hv⟩, hbv⟩, hnone⟩ := hc
      -- only `validSeen k` changes
      have hnone' : s.validSeen k = none := isSome_of_ne_none hnone
      constructor
      · exact hi.memE
      · exact hi.dbE
      · exact hi.iterLe
      · exact hi.iterEq
      · exact hi.pendIdle
      · exact hi.startedPos
      · exact hi.startedTarget
      · exact hi.notStarted
      · exact hi.stIdle
      · exact hi.stDone
      · exact hi.builtNow
      · exact hi.dbBuiltNow
      · exact hi.seqDone
      · exact hi.good
      · exact hi.dbGood
      · exact hi.dbCross
      · exact hi.memDb
      · exact hi.clean
      · exact hi.pendOk
      · intro x hfl hsx; exact ⟨(hi.taskOk x hfl hsx).issued, (hi.taskOk x hfl hsx).valid, (hi.taskOk x hfl hsx).inputs, (hi.taskOk x hfl hsx).running, (hi.taskOk x hfl hsx).computing⟩
      · exact hi.inflightActive
      · intro x hx hvx
        by_cases e : x = k
        · subst e
          simp only [upd_same] at hvx
          have : b = true := by simpa using hvx
          subst this
          exact ⟨by rw [hv] at hbv; exact hbv.symm, hb, hsig⟩
        · simp only [upd_other _ _ _ _ e] at hvx; exact hi.validOk x hx hvx
      · intro ht x hx
        by_cases e : x = k
        · subst e; rw [hs] at hx; cases hx
        · simp only [upd_other _ _ _ _ e]; exact hi.validIdle ht x hx
      · exact hi.sigAtOk
      · exact hi.scanReg
    · cases h
  | needs k reason input =>
    simp only [step] at h
    split at h
    · cases h
      rename_i hc
      simp only [Bool.and_eq_true, beq_iff_eq] at hc
      have hst := started_of_status hi (k := k) (by rw [hc.1]; simp)
      exact Inv.statusQuiet (s := s) (k := k) (st := .needsRun) rfl rfl rfl rfl rfl rfl rfl rfl rfl rfl rfl rfl rfl
        (Or.inl hc.1) (Or.inr rfl) hst (fun h => by cases h) (fun h => by cases h) hi
    · cases h
  | create k =>
    simp only [step] at h
    split at h
    · cases h
      rename_i hc
      simp only [Bool.and_eq_true, beq_iff_eq] at hc
      have h1 : Inv P { s with status := upd s.status k .running, task := upd s.task k {} } :=
        Inv.toRunning (s := s) (k := k) rfl rfl rfl rfl rfl rfl rfl rfl rfl rfl rfl rfl rfl hc.1 hi
      refine Inv.memDeps (s := { s with status := upd s.status k .running, task := upd s.task k {} })
        (k := k) (d' := []) (sg' := (s.mem.res k).sig) rfl rfl rfl rfl rfl rfl rfl rfl rfl rfl rfl rfl rfl rfl ?_ h1
      left; simp [inflight]
    · cases h
  | start k reqs =>
    simp only [step] at h
    split at h
    · cases h
      rename_i hc
      simp only [Bool.and_eq_true, beq_iff_eq, Bool.not_eq_eq_eq_not, Bool.not_true] at hc
      obtain ⟨⟨hs, hns⟩, hreq⟩ := hc
      refine Inv.taskUpd (s := s) (k := k) rfl rfl rfl rfl rfl rfl rfl rfl rfl rfl rfl rfl rfl ?_ hi
      intro _ _
      constructor
      · simp [hreq]
      · simp [validSeq]
      · intro q v hq; simp at hq
      · intro _; simp
      · intro hcmp; simp [hs] at hcmp
    · cases h
  | prior k v =>
    simp only [step] at h
    split at h
    · cases h
      rename_i hc
      simp only [Bool.and_eq_true, beq_iff_eq] at hc
      obtain ⟨⟨⟨⟨⟨hs, hts⟩, _⟩, _⟩, _⟩, _⟩ := hc
      have hfl : inflight s k = true := by simp [inflight, hs]
      have t := hi.taskOk k hfl hts
      refine Inv.taskUpd (s := s) (k := k) rfl rfl rfl rfl rfl rfl rfl rfl rfl rfl rfl rfl rfl ?_ hi
      intro _ _
      constructor
      · simpa using t.issued
      · simpa using t.valid
      · simpa using t.inputs
      · simpa using t.running
      · simpa using t.computing
    · cases h
  | provide k id key v reqs =>
    simp only [step] at h
    split at h
    · rename_i hc
      simp only [Bool.and_eq_true, beq_iff_eq] at hc
      obtain ⟨⟨hs, hts⟩, _⟩ := hc
      split at h
      · cases h
      · rename_i q hfind
        split at h
        · cases h
          rename_i hc2
          simp only [Bool.and_eq_true, beq_iff_eq] at hc2
          obtain ⟨⟨hdk, hvk⟩, hiss⟩ := hc2
          have hfl : inflight s k = true := by simp [inflight, hs]
          have t := hi.taskOk k hfl hts
          have hq := List.find?_some hfind
          have hqm := List.mem_of_find?_eq_some hfind
          simp only [Bool.and_eq_true, beq_iff_eq, bne_iff_ne, ne_eq, Bool.not_eq_eq_eq_not, Bool.not_true] at hq
          obtain ⟨⟨⟨hqk, hqi⟩, hq2⟩, hnd⟩ := hq
          refine Inv.taskUpd (s := s) (k := k) rfl rfl rfl rfl rfl rfl rfl rfl rfl rfl rfl rfl rfl ?_ hi
          intro _ _
          constructor
          · simpa using hiss
          · simp only [upd_same, validSeq, Bool.and_eq_true]
            refine ⟨⟨⟨t.valid, ?_⟩, by simpa using hq2⟩, by simp [hnd]⟩
            rw [← t.issued]; simpa using hqm
          · intro q' v' hq' hk'
            simp only [upd_same] at hq'
            rcases List.mem_cons.1 hq' with e | e
            · cases e
              rw [hqk]
              exact ⟨by simpa [isDone] using hdk, hvk.symm⟩
            · exact t.inputs q' v' e hk'
          · intro _; simpa using t.running hs
          · intro hcmp; simp [hs] at hcmp
        · cases h
    · cases h
  | inputsAvail k discs =>
    simp only [step] at h
    split at h
    · cases h
      rename_i hc
      simp only [Bool.and_eq_true] at hc
      obtain ⟨⟨⟨⟨hs, hts⟩, _⟩, hall⟩, hdsc⟩ := hc
      exact Inv.toComputing (s := s) rfl rfl rfl rfl rfl rfl rfl rfl rfl rfl rfl rfl rfl (eq_of_beq hs) hts hall (eq_of_beq hdsc) hi
    · cases h
  | complete k v force =>
    simp only [step] at h
    split at h
    · cases h
      rename_i hc
      simp only [Bool.and_eq_true, beq_iff_eq, Bool.not_eq_eq_eq_not, Bool.not_true] at hc
      obtain ⟨⟨⟨⟨hs, hts⟩, _⟩, hv⟩, _⟩ := hc
      refine Inv.complete (s := s) (k := k) rfl rfl rfl rfl rfl rfl rfl rfl rfl rfl rfl rfl rfl hs hts ?_ ?_ ?_ hi
      · split <;> rfl
      · split
        · rename_i hcc
          simp only [Bool.and_eq_true, beq_iff_eq] at hcc
          rw [← hv]; exact hcc.2.symm
        · exact hv
      · split
        · left; exact ⟨rfl, rfl⟩
        · right; rfl
    · cases h
  | finished k row =>
    simp only [step] at h
    split at h
    · cases h
      rename_i hc
      simp only [Bool.and_eq_true, beq_iff_eq] at hc
      obtain ⟨⟨⟨⟨⟨⟨⟨⟨⟨hs, hts⟩, htc⟩, _⟩, _⟩, _⟩, _⟩, hlen⟩, hperm⟩, hdrop⟩ := hc
      refine Inv.finished hP (s := s) (k := k) rfl rfl rfl rfl rfl rfl rfl rfl rfl rfl rfl rfl rfl hs hts htc rfl rfl rfl ?_ ?_ hi
      · intro q hq
        have : q.toDep ∈ row.deps.take (s.task k).issued.length :=
          isPerm_mem _ _ hperm _ (List.mem_map.2 ⟨q, hq, rfl⟩)
        exact List.mem_of_mem_take this
      · intro d hdm
        have : (⟨d, false, false⟩ : Dep) ∈ row.deps.drop (s.task k).issued.length := by
          rw [hdrop]; exact List.mem_map.2 ⟨d, hdm, rfl⟩
        exact List.mem_of_mem_drop this
    · cases h
  | dbIter e =>
    simp only [step] at h
    split at h
    · cases h
      rename_i hc
      simp only [Bool.and_eq_true, beq_iff_eq] at hc
      exact Inv.dbIter (s := s) rfl rfl rfl rfl (by simp [hc.2]) rfl rfl rfl rfl rfl rfl rfl rfl hi
    · cases h
  | cycle ks =>
    simp only [step] at h
    split at h
    · split at h
      · cases h; exact Inv.congr (s := s) rfl rfl rfl rfl rfl rfl rfl rfl rfl rfl rfl rfl (fun _ _ => rfl) hi
      · cases h
    · cases h
  | error c => simp only [step] at h; cases h; exact Inv.congr (s := s) rfl rfl rfl rfl rfl rfl rfl rfl rfl rfl rfl rfl (fun _ _ => rfl) hi
  | cancel => simp only [step] at h; cases h; exact Inv.congr (s := s) rfl rfl rfl rfl rfl rfl rfl rfl rfl rfl rfl rfl (fun _ _ => rfl) hi
  | ret v =>
    simp only [step] at h
    split at h
    · cases h
    · split at h
      · cases h
      · split at h
        · cases h; exact Inv.congr (s := s) rfl rfl rfl rfl rfl rfl rfl rfl rfl rfl rfl rfl (fun _ _ => rfl) hi
        · split at h
          · cases h
            simp only [Bool.or_eq_false_iff, Bool.not_eq_eq_eq_not, Bool.not_false] at hd
            have hpe : s.pending = [] := by simpa using hd.2
            exact Inv.kill (s := s) rfl rfl rfl rfl rfl rfl rfl (by simp [hpe]) rfl rfl rfl rfl rfl hi
          · cases h
  | tail live late =>
    simp only [step] at h
    split at h
    · cases h
      rename_i hc
      simp only [Bool.and_eq_true, beq_iff_eq, Bool.or_eq_true, Bool.not_eq_eq_eq_not, Bool.not_true] at hc
      obtain ⟨⟨⟨⟨_, _⟩, _⟩, hit⟩, hpe⟩ := hc
      have hpe' : s.pending = [] := by simpa using hpe
      have h1 : Inv P { s with mem := killInflight s } :=
        Inv.kill (s := s) rfl rfl rfl rfl rfl rfl rfl rfl rfl rfl rfl rfl rfl hi
      refine Inv.goIdle (s := { s with mem := killInflight s }) rfl rfl rfl rfl rfl rfl rfl rfl rfl rfl rfl rfl rfl ?_ hpe' ?_ h1
      · intro x hx
        have : inflight s x = true := hx
        simp [killInflight, this]
      · rcases hit with h | h
        · exact hi.iterEq (Or.inr h)
        · exact h
    · cases h
  | mutate slot val =>
    simp only [step] at h
    split at h
    · cases h
      rename_i hc
      exact Inv.mutate (s := s) rfl rfl rfl rfl rfl rfl rfl rfl rfl rfl rfl rfl (isSome_of_ne_none hc) hi
    · cases h
  | restart =>
    simp only [step] at h
    split at h
    · cases h
      rename_i hc
      exact Inv.restart (s := s) rfl rfl rfl rfl rfl rfl rfl rfl rfl rfl rfl rfl (isSome_of_ne_none hc) hi
    · cases h
  | wipe =>
    simp only [step] at h
    split at h
    · cases h; exact Inv.init P
    · cases h


/-- the committed snapshot stays a good place to restart from -/
theorem step_invC {P : Program} (hP : P.WF) {s s' : St} {e : Event}
    (h : step P s e = some s') (hi : Inv P s) (hc : InvC P s) (hd : s'.pendingDropped = false) : InvC P s' := by
  cases e <;> simp only [step] at h
  case mutate slot val =>
    split at h
    · cases h
      exact Inv.mutate (s := crashState s) rfl rfl rfl rfl rfl rfl rfl rfl rfl rfl rfl rfl rfl hc
    · cases h
  case dbEnd =>
    split at h
    · rename_i hg
      cases h
      simp only [Bool.or_eq_false_iff, Bool.not_eq_eq_eq_not, Bool.not_false] at hd
      have hpe : s.pending = [] := by simpa using hd.2
      have hit : s.dbIter = s.epoch := by
        simp only [Bool.or_eq_true, Bool.not_eq_eq_eq_not, Bool.not_true, beq_iff_eq] at hg
        rcases hg with h | h
        · exact hi.iterEq (Or.inr h)
        · exact h
      exact Inv.commit (s := s) rfl rfl rfl rfl rfl rfl rfl rfl rfl rfl hit hpe hi
    · cases h
  case wipe =>
    split at h
    · cases h; exact Inv.init P
    · cases h
  case ret v =>
    split at h
    · cases h
    · split at h
      · cases h
      · split at h
        · cases h; exact hc
        · split at h
          · cases h; exact hc
          · cases h
  case provide k id key v reqs =>
    split at h
    · split at h
      · cases h
      · split at h
        · cases h; exact hc
        · cases h
    · cases h
  case cycle ks =>
    split at h
    · split at h
      · cases h; exact hc
      · cases h
    · cases h
  all_goals first
    | (cases h; exact hc)
    | (split at h
       · cases h; exact hc
       · cases h)

end LLBuild.Engine
