/-
C12 — how the directory-listing slots reach the engine: re-listing validity check versus "trust the stat record".

In the client `prog` (Lemmas/DirTreeEngine.lean) the listing of a directory is an input key `ents p` whose validity
is equality with the slot.  Of the real tasks (lib/BuildSystem/BuildSystem.cpp)

* `DirectoryContentsTask` (no exclusion patterns) has `isResultValid`, which RE-LISTS the directory and compares the
  names: the engine sees the `readdir` slot of the file system as it is — `prog` over the file system itself;
* `FilteredDirectoryContentsTask` (exclusion patterns) has `IsValid = nullptr`: it is re-executed (and only then
  re-lists) when `Node(p)` / `Stat(p)` changed, i.e. when the directory's stat record changed.  What the engine sees
  of a file system `fs` is then `staleEnv C seen fs`: every slot of `fs`, except that the `readdir` slot of a
  directory whose stat slot equals the one seen before is the one seen before.

`StatDiscipline` ("a directory whose stat record is unchanged has an unchanged entry list": the kernel bumps the
directory mtime, nobody restores it, timestamps are fine enough, the file-system mode is not checksum-only) is
exactly what makes the two coincide (`staleEnv_of_discipline`).
-/
import LLBuild.Lemmas.DirTreeEngine

namespace LLBuild.DirTree
open LLBuild.Engine

/-- the file system `fs` as a listing task WITHOUT a validity check of its own shows it to the engine, `seen` being
what it showed at its last visit: a `readdir` slot is refreshed only if the directory's `stat` slot differs -/
def staleEnv (C : Coding) (seen fs : Env) : Env := fun k =>
  match C.unkey k with
  | some (.ents p) => if seen (C.key (.stat p)) = fs (C.key (.stat p)) then seen k else fs k
  | _ => fs k

/-- a directory whose stat record is the one seen before has the entry list seen before -/
def StatDiscipline (C : Coding) (seen fs : Env) : Prop :=
  ∀ k p, C.unkey k = some (.ents p) → seen (C.key (.stat p)) = fs (C.key (.stat p)) → seen k = fs k

theorem staleEnv_of_discipline {C : Coding} {seen fs : Env} (h : StatDiscipline C seen fs) :
    staleEnv C seen fs = fs := by
  funext k
  unfold staleEnv
  split
  · rename_i p hk
    split
    · rename_i hs; exact h k p hk hs
    · rfl
  · rfl

/-- conversely, if the view is the file system whatever was seen before, the discipline holds -/
theorem discipline_of_staleEnv {C : Coding} {seen fs : Env} (h : staleEnv C seen fs = fs) :
    StatDiscipline C seen fs := by
  intro k p hk hs
  have := congrFun h k
  simp only [staleEnv, hk, hs, if_true] at this
  exact this

theorem staleEnv_stat (C : Coding) (seen fs : Env) (p : Bytes) :
    staleEnv C seen fs (C.key (.stat p)) = fs (C.key (.stat p)) := by
  simp [staleEnv, C.unkey_key]

theorem staleEnv_ents_same (C : Coding) (seen fs : Env) (p : Bytes)
    (h : seen (C.key (.stat p)) = fs (C.key (.stat p))) :
    staleEnv C seen fs (C.key (.ents p)) = seen (C.key (.ents p)) := by
  simp [staleEnv, C.unkey_key, h]

theorem staleEnv_ents_changed (C : Coding) (seen fs : Env) (p : Bytes)
    (h : seen (C.key (.stat p)) ≠ fs (C.key (.stat p))) :
    staleEnv C seen fs (C.key (.ents p)) = fs (C.key (.ents p)) := by
  simp [staleEnv, C.unkey_key, h]

end LLBuild.DirTree
