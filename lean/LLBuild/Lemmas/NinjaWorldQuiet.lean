/-
Consequences of the world invariant (Lemmas/NinjaWorldInv.lean) for a quiet world - one in which every demanded source
has an up-to-date input rule and no needed command needs its task, as a build that reports no failure leaves it:
every demanded key is settled, every needed command is fresh, every demanded file holds what a clean build writes.
-/
import LLBuild.Lemmas.NinjaWorldInv

namespace LLBuild.NinjaWorld
open LLBuild.NinjaBuild LLBuild.NinjaBuild.Gen

/-! ### a quiet world: everything demanded is settled, hence (by `KInv`) fresh, hence equal to a clean build -/

/-- every demanded source has an up-to-date input rule and no needed command of the set `G` needs its task -/
structure Quiet (m : Manifest) (d : List Path) (G : Command → Prop) (w : World) : Prop where
  srcs : ∀ p ∈ d, producer m.cmds p = none → SrcSettled w p
  cmds : ∀ c ∈ m.cmds, c.neededIn d = true → G c → needsTask m.cmds w c = false
  deps : DepsInv m.cmds w

/-- `G` contains, with a command, the producers of everything whose change re-runs it -/
def GClosed (m : Manifest) (G : Command → Prop) : Prop :=
  ∀ c ∈ m.cmds, G c → ∀ k ∈ depKeys c, ∀ q ∈ m.cmds, k ∈ q.outs → G q

/-- the side condition of the inductions below: `k` is a source file, or produced by a command of `G` in `l` -/
def KeyIn (m : Manifest) (G : Command → Prop) (l : List Command) (k : Path) : Prop :=
  producer m.cmds k = none ∨ ∃ q ∈ l, k ∈ q.outs ∧ G q

theorem KeyIn.tail {m : Manifest} {G : Command → Prop} {q : Command} {l : List Command} {k : Path} (h : KeyIn m G (q :: l) k)
    (hk : k ∉ q.outs) : KeyIn m G l k := by
  rcases h with h | ⟨q', hq', hkq', hg⟩
  · exact Or.inl h
  · rcases List.mem_cons.1 hq' with rfl | hq'
    · exact absurd hkq' hk
    · exact Or.inr ⟨q', hq', hkq', hg⟩

theorem KeyIn.cons {m : Manifest} {G : Command → Prop} {q : Command} {l : List Command} {k : Path} (h : KeyIn m G l k) :
    KeyIn m G (q :: l) k :=
  h.elim Or.inl (fun ⟨q', hq', h'⟩ => Or.inr ⟨q', List.mem_cons_of_mem _ hq', h'⟩)

/-- an input of a command of `G` -/
theorem KeyIn.of_dep {m : Manifest} {G : Command → Prop} (hG : GClosed m G) {l post : List Command} {q : Command}
    (hat : At m.cmds l q post) (hq : G q) {k : Path} (hk : k ∈ depKeys q) : KeyIn m G l k := by
  rcases hat.producer_in (insAll_sub q k (depKeys_sub_insAll q k hk)) with h | ⟨q', hq', hq'l⟩
  · exact Or.inl h
  · exact Or.inr ⟨q', hq'l, (producer_some hq').2, hG q hat.mem hq k hk q' (producer_some hq').1 (producer_some hq').2⟩

theorem KeyIn.head {m : Manifest} {G : Command → Prop} {l post : List Command} {q : Command} (hat : At m.cmds l q post)
    {k : Path} (h : KeyIn m G (q :: l) k) (hk : k ∈ q.outs) : G q := by
  rcases h with h | ⟨q', hq', hkq', hg⟩
  · rw [hat.producer_out hk] at h; cases h
  · have h1 := producer_of_mem hat.wf (by
      rcases List.mem_cons.1 hq' with rfl | hq'
      · exact hat.mem
      · exact hat.mem_before hq') hkq'
    rw [hat.producer_out hk] at h1
    cases h1; exact hg

/-- what `needsTask = false` says -/
theorem needsTask_false {cs : List Command} {w : World} {c : Command} (hrec : DepsRec w c) (h : needsTask cs w c = false) :
    ∃ r, w.cmdDb c.name = some r ∧ r.sig = sigOf c ∧ commandIsResultValid (kOf w c) r.value (c.outs.map w.info) = .valid ∧
      ∀ k ∈ depKeys c, rebuiltSince r.builtAt (resOf cs w k) = false := by
  rw [needsTask_static hrec] at h
  unfold needsTaskS at h
  cases hr : w.cmdDb c.name with
  | none => rw [hr] at h; cases h
  | some r =>
    rw [hr] at h
    simp only [Bool.or_eq_false_iff, bne_eq_false_iff_eq, triggers_storedDeps, List.any_eq_false] at h
    exact ⟨r, rfl, h.1.1, h.1.2, fun k hk => by simpa using h.2 k hk⟩

theorem valid_infosMatch {c : Command} {w : World} {v : BuildValue} (hp : c.phony = false)
    (h : commandIsResultValid (kOf w c) v (c.outs.map w.info) = .valid) :
    v.kind = .successfulCommand ∧ (c.generator = true ∨ v.hash = w.cmdline c.name) ∧ InfosMatch c v w := by
  obtain ⟨h1, h2, h3⟩ := (C18_valid_iff _ _ _).1 h
  refine ⟨h1, h2, fun i hi => ?_⟩
  have := h3 i (by simpa using hi)
  simp only [List.getElem_map] at this
  refine ⟨?_, this.2⟩
  rcases this.1 with h | ⟨h, _⟩
  · exact h
  · have : c.phony = true := h
    rw [hp] at this; cases this

theorem getElem_idxOf' {l : List Path} {o : Path} (ho : o ∈ l) : l[l.idxOf o]'(idxOf_lt ho) = o := by
  simp

/-- a needed real command whose stored result is valid hands its consumers a settled view of each output -/
theorem settled_of_valid {cs : List Command} (hwf : wfFrom [] cs = true) {w : World} (h0 : Inv0 cs w) {q : Command} (hq : q ∈ cs)
    (hp : q.phony = false) {r : CmdResult} (hr : w.cmdDb q.name = some r)
    (hv : commandIsResultValid (kOf w q) r.value (q.outs.map w.info) = .valid) {k : Path} (hk : k ∈ q.outs) :
    ∃ x, resOf cs w k = some x ∧ x.value.kind = .successfulCommand ∧ x.value.outputInfo.same (w.info k) = true ∧
      (w.info k).isMissing = false := by
  obtain ⟨hkind, _, hmatch⟩ := valid_infosMatch hp hv
  have hi := idxOf_lt hk
  obtain ⟨hmiss, st, hst, hsame⟩ := hmatch (q.outs.idxOf k) hi
  rw [getElem_idxOf' hk] at hmiss hsame
  have hlen := (h0.shape q hq r hr).1 hkind
  rw [(h0.resOf_out hwf hq hk hr).1]
  unfold outView
  split
  · rename_i hn
    have hn1 : q.outs.length = 1 := by simpa using hn
    refine ⟨_, rfl, hkind, ?_, hmiss⟩
    simp only [CmdResult.toResult, BuildValue.outputInfo]
    have : q.outs.idxOf k = 0 := by omega
    rw [this] at hst
    simp only [BuildValue.nthInfo, hlen, hn1, gt_iff_lt, Nat.lt_irrefl, ↓reduceIte, Option.some.injEq] at hst
    rw [hst]; exact hsame
  · have hsel : selectValue r.value (q.outs.idxOf k) =
        some ({ kind := .successfulCommand, hash := r.value.hash, infos := [st] }, false) := by
      simp [selectValue, hkind, hst]
    rw [hsel]
    exact ⟨_, rfl, rfl, by simpa [BuildValue.outputInfo] using hsame, hmiss⟩

/-- in a quiet world every demanded key (of `G`) is settled -/
theorem Quiet.settled {m : Manifest} (hwf : wfFrom [] m.cmds = true) {targets : List Path} {G : Command → Prop} {w : World}
    (h0 : Inv0 m.cmds w) (hG : GClosed m G) (hq : Quiet m (demanded m targets) G w) :
    ∀ (l post : List Command), m.cmds = l.reverse ++ post → ∀ k ∈ demanded m targets, KeyIn m G l k → Settled m.cmds w l k := by
  intro l
  induction l with
  | nil =>
    intro post _ k hk hsrc
    rcases hsrc with h | ⟨q, hq', _⟩
    · exact hq.srcs k hk h
    · cases hq'
  | cons q l ih =>
    intro post hsplit k hk hsrc
    have hat : At m.cmds l q post := ⟨by rw [hsplit]; simp, hwf⟩
    by_cases hko : k ∈ q.outs
    · have hneed := needed_of_demanded hko hk
      have hgq : G q := hsrc.head hat hko
      obtain ⟨r, hr, hsg, hv, hdeps⟩ := needsTask_false (hq.deps q hat.mem) (hq.cmds q hat.mem hneed hgq)
      have hclosed := demanded_closed m hwf targets hat.mem hneed
      cases hp : q.phony with
      | false =>
        rw [settled_real hko hp]
        exact settled_of_valid hwf h0 hat.mem hp hr hv hko
      | true =>
        rw [settled_phony hko hp]
        have hkind := ((C18_valid_iff _ _ _).1 hv).1
        refine ⟨r, hr, hsg, hkind, fun k' hk' => ?_⟩
        have hk'd : k' ∈ depKeys q := by simp only [depKeys, List.mem_append] at hk' ⊢; exact Or.inl hk'
        exact ⟨ih (q :: post) (by rw [hsplit]; simp) k' (hclosed k' (depKeys_sub_insAll q k' hk'd))
          (KeyIn.of_dep hG hat hgq hk'd), hdeps k' hk'd⟩
    · rw [settled_skip hko]
      exact ih (q :: post) (by rw [hsplit]; simp) k hk (hsrc.tail hko)

/-- in a quiet world that satisfies the invariant, every needed real command is fresh for its current command line -/
theorem Quiet.fresh {m : Manifest} (hwf : wfFrom [] m.cmds = true) {targets : List Path} {G : Command → Prop} {w : World}
    (hinv : WorldInv m w) (hG : GClosed m G) (hq : Quiet m (demanded m targets) G w) {before rest : List Command} {c : Command}
    (hat : At m.cmds before c rest) (hp : c.phony = false) (hn : c.neededIn (demanded m targets) = true) (hgc : G c) :
    FreshWith m before c w (w.cmdline c.name) := by
  obtain ⟨r, hr, hsg, hv, hdeps⟩ := needsTask_false (hq.deps c hat.mem) (hq.cmds c hat.mem hn hgc)
  obtain ⟨hkind, hhash, hmatch⟩ := valid_infosMatch hp hv
  have hclosed := demanded_closed m hwf targets hat.mem hn
  have hd : DepsOK m.cmds w before c r.builtAt := fun k hk =>
    ⟨hq.settled hwf hinv.inv0 hG before (c :: rest) hat.split k (hclosed k (depKeys_sub_insAll c k hk))
      (KeyIn.of_dep hG hat hgc hk), hdeps k hk⟩
  have := hinv.k before c rest hat hp r hr hsg hkind hmatch hd
  have he : c.effHash r.value.hash = c.effHash (w.cmdline c.name) := by
    rcases hhash with hg | hh
    · simp [Command.effHash, hg]
    · rw [hh]
  intro o ho
  rw [← he]
  exact this o ho


/-- what a demanded key stands for is demanded too, and is a source file or produced before (by a command of `G`) -/
theorem resolve_demanded {m : Manifest} (hwf : wfFrom [] m.cmds = true) {targets : List Path} {G : Command → Prop}
    (hG : GClosed m G) : ∀ (l post : List Command), m.cmds = l.reverse ++ post → ∀ k ∈ demanded m targets, KeyIn m G l k →
    ∀ f ∈ resolve l k, f ∈ demanded m targets ∧ KeyIn m G l f := by
  intro l
  induction l with
  | nil => intro post _ k hk hsrc f hf; simp [resolve] at hf; subst hf; exact ⟨hk, hsrc⟩
  | cons q l ih =>
    intro post hsplit k hk hsrc f hf
    have hat : At m.cmds l q post := ⟨by rw [hsplit]; simp, hwf⟩
    by_cases hko : k ∈ q.outs
    · cases hp : q.phony with
      | false => rw [resolve_real hko hp] at hf; simp at hf; subst hf; exact ⟨hk, hsrc⟩
      | true =>
        rw [resolve_phony hko hp, List.mem_flatMap] at hf
        obtain ⟨k', hk', hfk'⟩ := hf
        have hgq : G q := hsrc.head hat hko
        have hclosed := demanded_closed m hwf targets hat.mem (needed_of_demanded hko hk)
        have hk'k : k' ∈ depKeys q := by simp only [depKeys, List.mem_append] at hk' ⊢; exact Or.inl hk'
        have := ih (q :: post) (by rw [hsplit]; simp) k' (hclosed k' (depKeys_sub_insAll q k' hk'k))
          (KeyIn.of_dep hG hat hgq hk'k) f hfk'
        exact ⟨this.1, this.2.cons⟩
    · rw [resolve_skip hko] at hf
      have := ih (q :: post) (by rw [hsplit]; simp) k hk (hsrc.tail hko) f hf
      exact ⟨this.1, this.2.cons⟩

theorem cleanContent_skip {m : Manifest} {cl : Nat → Nat} {src : Path → Option Content} {q : Command} {l : List Command} {p : Path}
    (h : p ∉ q.outs) : cleanContent m cl src (q :: l) p = cleanContent m cl src l p := by
  simp [cleanContent, h]

/-- in a quiet world that satisfies the invariant, every demanded file (of `G`) holds what a build from scratch writes -/
theorem Quiet.clean {m : Manifest} (hwf : wfFrom [] m.cmds = true) {targets : List Path} {G : Command → Prop} {w : World}
    (hinv : WorldInv m w) (hG : GClosed m G) (hq : Quiet m (demanded m targets) G w) :
    ∀ (l post : List Command), m.cmds = l.reverse ++ post → ∀ p ∈ demanded m targets, KeyIn m G l p →
    w.content p = cleanContent m w.cmdline w.content l p := by
  intro l
  induction l with
  | nil => intro post _ p _ _; rfl
  | cons q l ih =>
    intro post hsplit p hp hsrc
    have hat : At m.cmds l q post := ⟨by rw [hsplit]; simp, hwf⟩
    by_cases hpo : p ∈ q.outs
    · have hneed := needed_of_demanded hpo hp
      have hgq : G q := hsrc.head hat hpo
      have hclosed := demanded_closed m hwf targets hat.mem hneed
      cases hph : q.phony with
      | true =>
        simp only [cleanContent, List.contains_iff_mem, hpo, hph, ↓reduceIte, World.content,
          hinv.inv0.phonyAbsent q hat.mem hph p hpo, Option.map_none]
      | false =>
        have hfresh := Quiet.fresh hwf hinv hG hq hat hph hneed hgq p hpo
        simp only [cleanContent, List.contains_iff_mem, hpo, hph, ↓reduceIte, Bool.false_eq_true]
        rw [hfresh]
        congr 2
        apply List.map_congr_left
        intro f hf
        have hfd : f ∈ demanded m targets ∧ KeyIn m G l f := by
          rcases mem_readsOf hf with ⟨k, hk, hfk⟩ | hfd
          · have hkk : k ∈ depKeys q := by simp only [depKeys, List.mem_append] at hk ⊢; exact Or.inl hk
            exact resolve_demanded hwf hG l (q :: post) (by rw [hsplit]; simp) k (hclosed k (depKeys_sub_insAll q k hkk))
              (KeyIn.of_dep hG hat hgq hkk) f hfk
          · have hd : q.hasDeps = true := by
              cases hd : q.hasDeps with
              | true => rfl
              | false => rw [hat.cmdWF.deps hd] at hfd; cases hfd
            have hfk : f ∈ depKeys q := by simp [depKeys, hd, hfd]
            exact ⟨hclosed f (depKeys_sub_insAll q f hfk), KeyIn.of_dep hG hat hgq hfk⟩
        exact ih (q :: post) (by rw [hsplit]; simp) f hfd.1 hfd.2
    · rw [cleanContent_skip hpo]
      exact ih (q :: post) (by rw [hsplit]; simp) p hp (hsrc.tail hpo)

/-- in a quiet world that satisfies the invariant, every output of a needed real command of `G` exists and holds what
a build from scratch writes from the current sources and command lines -/
theorem Quiet.converges {m : Manifest} (hwf : wfFrom [] m.cmds = true) {targets : List Path} {G : Command → Prop} {w : World}
    (hinv : WorldInv m w) (hG : GClosed m G) (hq : Quiet m (demanded m targets) G w) {c : Command} (hc : c ∈ m.cmds)
    (hp : c.phony = false) (hn : c.neededIn (demanded m targets) = true) (hgc : G c) {o : Path} (ho : o ∈ c.outs) :
    (w.content o).isSome = true ∧ w.content o = cleanContent m w.cmdline w.content m.cmds.reverse o := by
  obtain ⟨before, rest, hat⟩ := At.of_mem hwf hc
  have hfresh := Quiet.fresh hwf hinv hG hq hat hp hn hgc o ho
  refine ⟨by rw [hfresh]; rfl, ?_⟩
  have hclean := Quiet.clean hwf hinv hG hq
  have hreads : ∀ f ∈ readsOf before c, w.content f = cleanContent m w.cmdline w.content before f := by
    intro f hf
    have hclosed := demanded_closed m hwf targets hc hn
    have hfd : f ∈ demanded m targets ∧ KeyIn m G before f := by
      rcases mem_readsOf hf with ⟨k, hk, hfk⟩ | hfd
      · have hkk : k ∈ depKeys c := by simp only [depKeys, List.mem_append] at hk ⊢; exact Or.inl hk
        exact resolve_demanded hwf hG before (c :: rest) hat.split k (hclosed k (depKeys_sub_insAll c k hkk))
          (KeyIn.of_dep hG hat hgc hkk) f hfk
      · have hd : c.hasDeps = true := by
          cases hd : c.hasDeps with
          | true => rfl
          | false => rw [hat.cmdWF.deps hd] at hfd; cases hfd
        have hfk : f ∈ depKeys c := by simp [depKeys, hd, hfd]
        exact ⟨hclosed f (depKeys_sub_insAll c f hfk), KeyIn.of_dep hG hat hgc hfk⟩
    exact hclean before (c :: rest) hat.split f hfd.1 hfd.2
  have hskip : ∀ (l : List Command), (∀ q ∈ l, o ∉ q.outs) →
      cleanContent m w.cmdline w.content (l ++ c :: before) o = cleanContent m w.cmdline w.content (c :: before) o := by
    intro l
    induction l with
    | nil => intro _; rfl
    | cons q l ih =>
      intro h
      rw [List.cons_append, cleanContent_skip (h q List.mem_cons_self)]
      exact ih (fun q' hq' => h q' (List.mem_cons_of_mem _ hq'))
  have hrev : m.cmds.reverse = rest.reverse ++ c :: before := by rw [hat.split]; simp
  rw [hrev, hskip rest.reverse (fun q hq' => by
    have := hat.cmdWF.outs_rest o ho
    rw [producer_none_iff] at this
    exact this q (by simpa using hq'))]
  simp only [cleanContent, List.contains_iff_mem, ho, hp, ↓reduceIte, Bool.false_eq_true]
  rw [hfresh]
  congr 2
  exact List.map_congr_left hreads

/-- `c` depends on `q` through keys whose change re-runs it (explicit, implicit, depfile-discovered), reflexively -/
inductive DepOn (m : Manifest) : Command → Command → Prop
  | refl (c : Command) : DepOn m c c
  | step {c q q' : Command} {k : Path} : k ∈ depKeys c → q ∈ m.cmds → k ∈ q.outs → DepOn m q q' → DepOn m c q'

/-- neither `c` nor anything it depends on is reported as failed or skipped -/
def GoodIn (m : Manifest) (log : List (Nat × Did)) (c : Command) : Prop := ∀ q, DepOn m c q → OkLog log q.name

theorem goodIn_closed (m : Manifest) (log : List (Nat × Did)) : GClosed m (GoodIn m log) :=
  fun _ _ hg _ hk _ hq hkq q' hd => hg q' (DepOn.step hk hq hkq hd)

end LLBuild.NinjaWorld
