/-
Helper lemmas and the inductive invariant for the lane-queue model (C16 (a)).
-/
import LLBuild.Model.LaneQueue

namespace LLBuild.LaneQueue
open List
open LLBuild.Generated.LaneQueue (Atom Notify)

def Lane.awake : Lane → Bool
  | .idle => true
  | .running _ => true
  | _ => false

/-! ### lists of lanes -/

theorem runningJobs_cons (x : Lane) (xs : List Lane) :
    runningJobs (x :: xs) = laneJobs x ++ runningJobs xs := by
  simp [runningJobs]

theorem runningJobs_nil : runningJobs [] = [] := rfl

/-- replacing the lane at `l` (which was `old`) by `v` moves exactly `laneJobs` -/
theorem running_set_count (lanes : List Lane) (l : Nat) (old v : Lane) (h : lanes[l]? = some old) (a : Job) :
    count a (laneJobs old) + count a (runningJobs (lanes.set l v))
      = count a (laneJobs v) + count a (runningJobs lanes) := by
  induction lanes generalizing l with
  | nil => simp at h
  | cons x xs ih =>
    cases l with
    | zero =>
      simp at h; subst h
      simp [runningJobs_cons, count_append]; omega
    | succ l =>
      simp at h
      have := ih l h
      simp [runningJobs_cons, count_append]; omega

theorem running_set_perm (lanes : List Lane) (l : Nat) (old v : Lane) (h : lanes[l]? = some old) :
    (laneJobs old ++ runningJobs (lanes.set l v)).Perm (laneJobs v ++ runningJobs lanes) := by
  rw [perm_iff_count]; intro a
  simp only [count_append]; exact running_set_count lanes l old v h a

theorem running_set_length (lanes : List Lane) (l : Nat) (old v : Lane) (h : lanes[l]? = some old) :
    (laneJobs old).length + (runningJobs (lanes.set l v)).length
      = (laneJobs v).length + (runningJobs lanes).length := by
  have := (running_set_perm lanes l old v h).length_eq
  simpa [length_append] using this

theorem running_set_same (lanes : List Lane) (l : Nat) (old v : Lane) (h : lanes[l]? = some old)
    (hj : laneJobs old = laneJobs v) : runningJobs (lanes.set l v) = runningJobs lanes := by
  induction lanes generalizing l with
  | nil => simp at h
  | cons x xs ih =>
    cases l with
    | zero => simp at h; subst h; simp [runningJobs_cons, hj]
    | succ l => simp at h; simp [runningJobs_cons, ih l h]

theorem runningJobs_length_le (lanes : List Lane) : (runningJobs lanes).length ≤ lanes.length := by
  induction lanes with
  | nil => simp [runningJobs]
  | cons x xs ih =>
    rw [runningJobs_cons, length_append, length_cons]
    have : (laneJobs x).length ≤ 1 := by cases x <;> simp [laneJobs]
    omega

theorem mem_set_self' (lanes : List Lane) (l : Nat) (old v : Lane) (h : lanes[l]? = some old) :
    v ∈ lanes.set l v := by
  induction lanes generalizing l with
  | nil => simp at h
  | cons x xs ih =>
    cases l with
    | zero => simp
    | succ l => simp at h; simp [ih l h]

theorem mem_of_getElem?' {lanes : List Lane} {l : Nat} {x : Lane} (h : lanes[l]? = some x) : x ∈ lanes := by
  induction lanes generalizing l with
  | nil => simp at h
  | cons y ys ih =>
    cases l with
    | zero => simp at h; simp [h]
    | succ l => simp at h; simp [ih h]

theorem wake_laneJobs (x : Lane) : laneJobs (wake x) = laneJobs x := by
  cases x <;> rfl

theorem runningJobs_wakeAll (lanes : List Lane) : runningJobs (wakeAll lanes) = runningJobs lanes := by
  induction lanes with
  | nil => rfl
  | cons x xs ih =>
    simp only [wakeAll, map_cons, runningJobs_cons, wake_laneJobs]
    rw [show map wake xs = wakeAll xs from rfl, ih]

theorem waiting_not_mem_wakeAll (lanes : List Lane) : Lane.waiting ∉ wakeAll lanes := by
  simp only [wakeAll, mem_map, not_exists, not_and]
  intro x _ hx
  cases x <;> simp [wake] at hx

theorem exited_mem_wakeAll {lanes : List Lane} (h : Lane.exited ∈ wakeAll lanes) : Lane.exited ∈ lanes := by
  simp only [wakeAll, mem_map] at h
  obtain ⟨x, hx, hw⟩ := h
  cases x <;> simp [wake] at hw
  exact hx

theorem awake_wakeAll {lanes : List Lane} (h : ∃ x ∈ lanes, x.awake = true) : ∃ x ∈ wakeAll lanes, x.awake = true := by
  obtain ⟨x, hx, ha⟩ := h
  refine ⟨wake x, ?_, ?_⟩
  · simp only [wakeAll, mem_map]; exact ⟨x, hx, rfl⟩
  · cases x <;> simp [wake, Lane.awake] at ha ⊢

theorem notifyOne_cases {lanes ls : List Lane} {w : Option Nat} (h : notifyOne lanes w = some ls) :
    (ls = lanes ∧ Lane.waiting ∉ lanes) ∨ (∃ k, lanes[k]? = some Lane.waiting ∧ ls = lanes.set k Lane.idle) := by
  unfold notifyOne at h
  cases w with
  | some k =>
    simp only at h
    split at h
    · rename_i hk; right; exact ⟨k, hk, by simpa using h.symm⟩
    · simp at h
  | none =>
    simp only at h
    split at h
    · rename_i hall
      left
      refine ⟨by simpa using h.symm, ?_⟩
      intro hm
      have := (all_eq_true.1 hall) _ hm
      simp at this
    · simp at h

/-- what `notify_one` preserves -/
theorem notifyOne_facts {lanes ls : List Lane} {w : Option Nat} (h : notifyOne lanes w = some ls) :
    ls.length = lanes.length ∧ runningJobs ls = runningJobs lanes ∧
    (Lane.exited ∈ ls → Lane.exited ∈ lanes) ∧ (Lane.waiting ∈ ls → Lane.waiting ∈ lanes) ∧
    ((∃ x ∈ lanes, x.awake = true) → ∃ x ∈ ls, x.awake = true) ∧
    (Lane.waiting ∈ lanes → ∃ x ∈ ls, x.awake = true) ∧
    (∀ (l : Nat) (j : Job), lanes[l]? = some (Lane.running j) → ls[l]? = some (Lane.running j)) := by
  rcases notifyOne_cases h with ⟨rfl, hnw⟩ | ⟨k, hk, rfl⟩
  · exact ⟨rfl, rfl, id, id, id, fun hw => absurd hw hnw, fun _ _ h => h⟩
  · refine ⟨by simp, ?_, ?_, ?_, ?_, ?_, ?_⟩
    · exact running_set_same lanes k _ _ hk rfl
    · intro hm
      rcases mem_or_eq_of_mem_set hm with h1 | h1
      · exact h1
      · cases h1
    · intro hm
      rcases mem_or_eq_of_mem_set hm with h1 | h1
      · exact h1
      · cases h1
    · intro _
      exact ⟨.idle, mem_set_self' lanes k _ _ hk, rfl⟩
    · intro _
      exact ⟨.idle, mem_set_self' lanes k _ _ hk, rfl⟩
    · intro l j hl
      by_cases hlk : k = l
      · subst hlk; rw [hk] at hl; cases hl
      · rw [getElem?_set_ne hlk]; exact hl

/-- what either kind of notify preserves -/
theorem applyNotify_facts {k : Notify} {lanes ls : List Lane} {w : Option Nat} (h : applyNotify k lanes w = some ls) :
    ls.length = lanes.length ∧ runningJobs ls = runningJobs lanes ∧
    (Lane.exited ∈ ls → Lane.exited ∈ lanes) ∧ (Lane.waiting ∈ ls → Lane.waiting ∈ lanes) ∧
    ((∃ x ∈ lanes, x.awake = true) → ∃ x ∈ ls, x.awake = true) ∧
    (Lane.waiting ∈ lanes → ∃ x ∈ ls, x.awake = true) ∧
    (∀ (l : Nat) (j : Job), lanes[l]? = some (Lane.running j) → ls[l]? = some (Lane.running j)) := by
  cases k with
  | one => exact notifyOne_facts h
  | all =>
    simp [applyNotify] at h; subst h
    refine ⟨by simp [wakeAll], runningJobs_wakeAll _, exited_mem_wakeAll, ?_, awake_wakeAll, ?_, ?_⟩
    · intro hw; exact absurd hw (waiting_not_mem_wakeAll _)
    · intro hw
      refine ⟨wake .waiting, ?_, rfl⟩
      simp only [wakeAll, mem_map]; exact ⟨_, hw, rfl⟩
    · intro l j hl
      simp [wakeAll, hl, wake]

theorem count_eraseIdx' {q : List Job} {i : Nat} {j : Job} (hj : q[i]? = some j) (a : Job) :
    count a q = count a [j] + count a (q.eraseIdx i) := by
  induction q generalizing i with
  | nil => simp at hj
  | cons x xs ih =>
    cases i with
    | zero => simp at hj; subst hj; simp [count_cons]; omega
    | succ i =>
      simp at hj
      have := ih hj
      simp [count_cons] at this ⊢; omega

theorem popNormal_count {fifo : Bool} {q r : List Job} {i : Nat} {j : Job}
    (h : popNormal fifo q i = some (j, r)) (a : Job) : count a q = count a [j] + count a r := by
  unfold popNormal at h
  split at h
  · split at h
    · simp at h
    · simp at h; obtain ⟨rfl, rfl⟩ := h
      simp [count_cons]; omega
  · split at h
    · rename_i j' hj
      split at h
      · simp at h; obtain ⟨rfl, rfl⟩ := h
        exact count_eraseIdx' hj a
      · simp at h
    · simp at h

theorem popNormal_ne_nil {fifo : Bool} {q r : List Job} {i : Nat} {j : Job}
    (h : popNormal fifo q i = some (j, r)) : j ∈ q := by
  have := popNormal_count h j
  simp at this
  exact count_pos_iff.1 (by omega)

/-- NamePriority pops a job with a greatest ordinal name; FIFO pops the front -/
theorem popNormal_spec {fifo : Bool} {q r : List Job} {i : Nat} {j : Job}
    (h : popNormal fifo q i = some (j, r)) :
    (fifo = true → q = j :: r) ∧ (fifo = false → ∀ k ∈ q, k.key ≤ j.key) := by
  unfold popNormal at h
  split at h
  · rename_i hf
    split at h
    · simp at h
    · simp at h; obtain ⟨rfl, rfl⟩ := h
      exact ⟨fun _ => rfl, fun h' => by simp [hf] at h'⟩
  · rename_i hf
    split at h
    · split at h
      · rename_i hall
        simp at h; obtain ⟨rfl, rfl⟩ := h
        refine ⟨fun h' => absurd h' hf, fun _ k hk => ?_⟩
        have := (all_eq_true.1 hall) k hk
        simpa [Generated.LaneQueue.namePopsGreatest] using this
      · simp at h
    · simp at h

/-- what the extracted wait / exit conditions of executeLane say -/
theorem enter_conds (s : State) :
    (evalConj s Generated.LaneQueue.waitWhile = true → s.shutdown = false ∧ s.prio = [] ∧ s.normal = []) ∧
    (evalConj s Generated.LaneQueue.exitWhen = true → s.shutdown = true ∧ s.prio = [] ∧ s.normal = []) ∧
    (evalConj s Generated.LaneQueue.waitWhile = false → evalConj s Generated.LaneQueue.exitWhen = false →
      ¬ (s.prio = [] ∧ s.normal = [])) := by
  simp only [evalConj, Generated.LaneQueue.waitWhile, Generated.LaneQueue.exitWhen, all_cons, all_nil, evalAtom,
    Bool.and_true]
  cases s.shutdown <;> cases hp : s.prio <;> cases hn : s.normal <;> simp

/-- the pop never touches an empty container when some queue is non-empty, and moves exactly one job -/
theorem take_spec (s : State) (i : Nat) (hne : ¬ (s.prio = [] ∧ s.normal = [])) :
    (∀ j p' n', take s i = .ok j p' n' →
      ∀ a, count a s.prio + count a s.normal = count a [j] + count a p' + count a n') ∧
    (take s i = .ub → False) := by
  unfold take
  simp only [Generated.LaneQueue.popPriorityFirst, if_true]
  cases hp : s.prio with
  | cons x xs =>
    simp
    intro a
    simp [count_cons]; omega
  | nil =>
    have hn : s.normal ≠ [] := by intro h; exact hne ⟨hp, h⟩
    have hne' : s.normal.isEmpty = false := by simpa using hn
    simp [hne']
    constructor
    · intro j p' n' h a
      split at h
      · rename_i j' r hpop
        simp at h; obtain ⟨rfl, rfl, rfl⟩ := h
        have := popNormal_count hpop a
        simp at this ⊢; omega
      · simp at h
    · intro h
      split at h <;> simp at h

/-! ### the invariant -/

structure Inv (n : Nat) (s : State) : Prop where
  len : s.lanes.length = n
  perm : (s.executed ++ s.dropped ++ s.prio ++ s.normal ++ runningJobs s.lanes).Perm s.added
  droppedNull : ∀ j ∈ s.dropped, j.null = true
  /-- a lane leaves its loop only after `shutdown`, or on a null descriptor -/
  exitedWhy : Lane.exited ∈ s.lanes → s.shutdown = true ∨ s.dropped ≠ []
  noWaitAfterShutdown : s.shutdown = true → Lane.waiting ∉ s.lanes
  /-- no lost wake-up, no stranded job: pending work always has a lane that is awake -/
  noStranding : s.dropped = [] → (s.prio ≠ [] ∨ s.normal ≠ []) → ∃ x ∈ s.lanes, x.awake = true
  inflightEq : s.inflight = (runningJobs s.lanes).length
  peakOk : s.inflight ≤ s.peak ∧ s.peak ≤ n
  /-- `getNextJob()` is never called on an empty container -/
  noUB : s.ub = false

theorem inv_init (n : Nat) (fifo : Bool) : Inv n (init n fifo) := by
  have hr : runningJobs (replicate n Lane.idle) = [] := by
    induction n with
    | zero => rfl
    | succ k ih => simp [replicate_succ, runningJobs_cons, laneJobs, ih]
  refine ⟨by simp [init], by simp [init, hr], by simp [init], ?_, ?_, ?_, by simp [init, hr], by simp [init], rfl⟩
  · intro h; simp [init, mem_replicate] at h
  · intro h; simp [init] at h
  · intro _ h; simp [init] at h


theorem awake_of_not (x : Lane) (h1 : x ≠ .waiting) (h2 : x ≠ .exited) : x.awake = true := by
  cases x <;> simp [Lane.awake] at *

/-- `addJob` (by a legitimate caller) preserves the invariant, whichever notify it uses -/
theorem inv_add {n : Nat} (hn : 0 < n) {s : State} {ls : List Lane} {w : Option Nat} {k : Notify} (j : Job) (high : Bool)
    (h : Inv n s) (hno : applyNotify k s.lanes w = some ls)
    (hwho : s.shutdown = false ∨ ∃ (l : Nat) (j' : Job), s.lanes[l]? = some (Lane.running j')) :
    Inv n { push s j high with lanes := ls } := by
  obtain ⟨hl, hr, hex, hwt, haw, hwk, hrun⟩ := applyNotify_facts hno
  have hpush : (push s j high).shutdown = s.shutdown ∧ (push s j high).dropped = s.dropped ∧
      (push s j high).executed = s.executed ∧ (push s j high).inflight = s.inflight ∧
      (push s j high).peak = s.peak ∧ (push s j high).added = j :: s.added ∧ (push s j high).ub = s.ub := by
    cases high <;> simp [push]
  obtain ⟨p1, p2, p3, p4, p5, p6, p7⟩ := hpush
  refine ⟨?_, ?_, ?_, ?_, ?_, ?_, ?_, ?_, ?_⟩
  · simpa [hl] using h.len
  · have hp := h.perm
    rw [perm_iff_count] at hp ⊢
    intro a
    have := hp a
    cases high <;> simp [push, hr, count_append, count_cons] at this ⊢ <;> omega
  · simpa [p2] using h.droppedNull
  · intro he
    have := h.exitedWhy (hex he)
    simpa [p1, p2] using this
  · intro hsd hw
    exact h.noWaitAfterShutdown (by simpa [p1] using hsd) (hwt hw)
  · intro hd _
    have hd : s.dropped = [] := by simpa [p2] using hd
    show ∃ x ∈ ls, x.awake = true
    rcases hwho with hsd | ⟨l, j', hlj⟩
    · by_cases hwm : Lane.waiting ∈ s.lanes
      · exact hwk hwm
      · apply haw
        have hne : s.lanes ≠ [] := by
          intro he; have := h.len; rw [he] at this; simp at this; omega
        obtain ⟨x, xs, hx⟩ := exists_cons_of_ne_nil hne
        refine ⟨x, by simp [hx], awake_of_not x ?_ ?_⟩
        · intro hxw; apply hwm; simp [hx, hxw]
        · intro hxe
          have := h.exitedWhy (by simp [hx, hxe])
          simp [hsd, hd] at this
    · exact ⟨_, mem_of_getElem?' (hrun l j' hlj), rfl⟩
  · show (push s j high).inflight = _
    rw [p4, hr]; exact h.inflightEq
  · show (push s j high).inflight ≤ (push s j high).peak ∧ (push s j high).peak ≤ n
    rw [p4, p5]; exact h.peakOk
  · show (push s j high).ub = false
    rw [p7]; exact h.noUB

/-- starting the popped job (or leaving on a null descriptor) -/
theorem inv_start {n : Nat} {s : State} {l : Nat} (j : Job) (prio' normal' : List Job) (h : Inv n s)
    (hl : s.lanes[l]? = some Lane.idle)
    (hcount : ∀ a, count a s.prio + count a s.normal = count a [j] + count a prio' + count a normal') :
    Inv n (start { s with prio := prio', normal := normal' } l j) := by
  unfold start
  by_cases hnull : j.null = true
  · simp only [hnull, if_true]
    have hr := running_set_same s.lanes l .idle .exited hl rfl
    refine ⟨by simpa using h.len, ?_, ?_, ?_, ?_, ?_, ?_, ?_, h.noUB⟩
    · have hp := h.perm
      rw [perm_iff_count] at hp ⊢
      intro a
      have := hp a
      have hc := hcount a
      simp [hr, count_append, count_cons] at this hc ⊢; omega
    · intro k hk
      simp at hk
      rcases hk with rfl | hk
      · exact hnull
      · exact h.droppedNull k hk
    · intro _; right; simp
    · intro hsd hw
      rcases mem_or_eq_of_mem_set hw with h1 | h1
      · exact h.noWaitAfterShutdown hsd h1
      · cases h1
    · intro hd; simp at hd
    · simp [hr]; exact h.inflightEq
    · exact h.peakOk
  · have hnull' : j.null = false := by simpa using hnull
    simp only [hnull', Bool.false_eq_true, if_false]
    have hrl := running_set_length s.lanes l .idle (.running j) hl
    simp [laneJobs] at hrl
    refine ⟨by simpa using h.len, ?_, ?_, ?_, ?_, ?_, ?_, ?_, h.noUB⟩
    · have hp := h.perm
      rw [perm_iff_count] at hp ⊢
      intro a
      have := hp a
      have hc := hcount a
      have hs := running_set_count s.lanes l .idle (.running j) hl a
      simp [laneJobs, count_append, count_cons] at this hc hs ⊢; omega
    · exact h.droppedNull
    · intro he
      rcases mem_or_eq_of_mem_set he with h1 | h1
      · exact h.exitedWhy h1
      · cases h1
    · intro hsd hw
      rcases mem_or_eq_of_mem_set hw with h1 | h1
      · exact h.noWaitAfterShutdown hsd h1
      · cases h1
    · intro _ _
      exact ⟨.running j, mem_set_self' s.lanes l _ _ hl, rfl⟩
    · simp; rw [hrl, h.inflightEq]; omega
    · have hle := runningJobs_length_le (s.lanes.set l (.running j))
      have := h.peakOk
      have hi := h.inflightEq
      have hn' := h.len
      simp at hle ⊢
      omega

/-- a lane whose state changes between states that run no job, other than to `exited`/`waiting` -/
theorem inv_wake_all {n : Nat} {s : State} (h : Inv n s) (sd c : Bool) (hsd : s.shutdown = true → sd = true) :
    Inv n { s with shutdown := sd, cancelled := c, lanes := wakeAll s.lanes } := by
  refine ⟨by simpa [wakeAll] using h.len, by simpa [runningJobs_wakeAll] using h.perm, h.droppedNull,
    ?_, fun _ => waiting_not_mem_wakeAll _, ?_, ?_, h.peakOk, h.noUB⟩
  · intro he
    rcases h.exitedWhy (exited_mem_wakeAll he) with h1 | h1
    · exact Or.inl (hsd h1)
    · exact Or.inr h1
  · intro hd hq; exact awake_wakeAll (h.noStranding hd hq)
  · simp [runningJobs_wakeAll]; exact h.inflightEq

theorem inv_step {n : Nat} (hn : 0 < n) {s s' : State} {a : Act} (h : Inv n s) (hs : step s a = some s') :
    Inv n s' := by
  cases a with
  | extAdd j high w =>
    simp only [step] at hs
    split at hs
    · simp at hs
    · rename_i hsd
      split at hs
      · rename_i ls hno
        simp at hs; subst hs
        exact inv_add hn j high h hno (Or.inl (by simpa using hsd))
      · simp at hs
  | jobAdd l j high w =>
    simp only [step] at hs
    split at hs
    · rename_i j' hl
      split at hs
      · rename_i ls hno
        simp at hs; subst hs
        exact inv_add hn j high h hno (Or.inr ⟨l, j', hl⟩)
      · simp at hs
    · simp at hs
  | enter l i =>
    simp only [step] at hs
    obtain ⟨cw, ce, cn⟩ := enter_conds s
    split at hs
    · rename_i hl
      have hr := fun v (hv : laneJobs Lane.idle = laneJobs v) => running_set_same s.lanes l .idle v hl hv
      split at hs
      · rename_i hw
        obtain ⟨hsd, hp0, hn0⟩ := cw hw
        simp at hs; subst hs
        refine ⟨by simpa using h.len, by simpa [hr .waiting rfl] using h.perm, h.droppedNull, ?_, ?_, ?_, ?_, h.peakOk, h.noUB⟩
        · intro he
          rcases mem_or_eq_of_mem_set he with h1 | h1
          · exact h.exitedWhy h1
          · cases h1
        · intro hsd'; simp [hsd] at hsd'
        · intro _ hq; simp [hp0, hn0] at hq
        · simp [hr .waiting rfl]; exact h.inflightEq
      · rename_i hw
        split at hs
        · rename_i he
          obtain ⟨hsd, hp0, hn0⟩ := ce he
          simp at hs; subst hs
          refine ⟨by simpa using h.len, by simpa [hr .exited rfl] using h.perm, h.droppedNull, fun _ => Or.inl hsd, ?_, ?_, ?_, h.peakOk, h.noUB⟩
          · intro _ hw'
            rcases mem_or_eq_of_mem_set hw' with h1 | h1
            · exact h.noWaitAfterShutdown hsd h1
            · cases h1
          · intro _ hq; simp [hp0, hn0] at hq
          · simp [hr .exited rfl]; exact h.inflightEq
        · rename_i he
          have hne := cn (by simpa using hw) (by simpa using he)
          obtain ⟨tok, tub⟩ := take_spec s i hne
          split at hs
          · rename_i j p' n' htake
            simp at hs; subst hs
            exact inv_start (l := l) j p' n' h hl (tok j p' n' htake)
          · rename_i htake
            exact absurd htake (fun h' => tub h')
          · simp at hs
    · simp at hs
  | finish l =>
    simp only [step] at hs
    split at hs
    · rename_i j hl
      simp at hs; subst hs
      have hrl := running_set_length s.lanes l (.running j) .idle hl
      simp [laneJobs] at hrl
      refine ⟨by simpa using h.len, ?_, h.droppedNull, ?_, ?_, ?_, ?_, ?_, h.noUB⟩
      · have hp := h.perm
        rw [perm_iff_count] at hp ⊢
        intro a
        have := hp a
        have hs := running_set_count s.lanes l (.running j) .idle hl a
        simp [laneJobs, count_append, count_cons] at this hs ⊢; omega
      · intro he
        rcases mem_or_eq_of_mem_set he with h1 | h1
        · exact h.exitedWhy h1
        · cases h1
      · intro hsd hw
        rcases mem_or_eq_of_mem_set hw with h1 | h1
        · exact h.noWaitAfterShutdown hsd h1
        · cases h1
      · intro _ _
        exact ⟨.idle, mem_set_self' s.lanes l _ _ hl, rfl⟩
      · have := h.inflightEq
        simp; omega
      · have := h.peakOk
        simp; omega
    · simp at hs
  | spurious l =>
    simp only [step] at hs
    split at hs
    · rename_i hl
      simp at hs; subst hs
      have hr := running_set_same s.lanes l .waiting .idle hl rfl
      refine ⟨by simpa using h.len, by simpa [hr] using h.perm, h.droppedNull, ?_, ?_, ?_, ?_, h.peakOk, h.noUB⟩
      · intro he
        rcases mem_or_eq_of_mem_set he with h1 | h1
        · exact h.exitedWhy h1
        · cases h1
      · intro hsd hw
        rcases mem_or_eq_of_mem_set hw with h1 | h1
        · exact h.noWaitAfterShutdown hsd h1
        · cases h1
      · intro _ _
        exact ⟨.idle, mem_set_self' s.lanes l _ _ hl, rfl⟩
      · simp [hr]; exact h.inflightEq
    · simp at hs
  | destroy w =>
    simp only [step] at hs
    split at hs
    · simp at hs
    · -- the destructor must wake every waiting lane: `notify_all` (extracted)
      simp [applyNotify, Generated.LaneQueue.destroyNotify] at hs; subst hs
      have := inv_wake_all h true s.cancelled (fun _ => rfl)
      simpa using this
  | cancel w =>
    simp only [step] at hs
    split at hs
    · simp at hs; subst hs; exact h
    · simp [applyNotify, Generated.LaneQueue.cancelNotify] at hs; subst hs
      have := inv_wake_all h s.shutdown true id
      simpa using this

theorem inv_reachable {n : Nat} (hn : 0 < n) {fifo : Bool} {s : State} (h : Reachable n fifo s) : Inv n s := by
  induction h with
  | init => exact inv_init n fifo
  | step a _ hs ih => exact inv_step hn ih hs


/-! ### SerialQueueImpl -/
namespace Serial

def workerJobs : Worker → List Nat
  | .running id => [id]
  | _ => []

structure Inv (s : State) : Prop where
  perm : (s.executed ++ pendingJobs s ++ workerJobs s.worker).Perm s.added
  exitedDone : s.worker = .exited → s.ops = []
  exitedDestroyed : s.worker = .exited → s.destroyed = true
  sentinelCount : s.ops.count .sentinel = if s.destroyed && s.worker != .exited then 1 else 0

theorem pending_append (ops : List Op) (o : Op) :
    filterMap (fun | Op.job id => some id | Op.sentinel => none) (ops ++ [o])
      = filterMap (fun | Op.job id => some id | Op.sentinel => none) ops ++ (match o with | .job id => [id] | .sentinel => []) := by
  cases o <;> simp

theorem inv_init : Inv init := by
  refine ⟨by simp [init, pendingJobs, workerJobs], by simp [init], by simp [init], by simp [init]⟩

theorem inv_step {s s' : State} {a : Act} (h : Inv s) (hs : stepWith true s a = some s') : Inv s' := by
  obtain ⟨hp, hed, hdd, hsc⟩ := h
  cases a with
  | extAdd id =>
    simp only [stepWith] at hs
    split at hs
    · simp at hs
    · rename_i hnd
      simp at hs; subst hs
      refine ⟨?_, ?_, ?_, ?_⟩
      · rw [perm_iff_count] at hp ⊢
        intro a; have := hp a
        simp [pendingJobs, count_append, count_cons] at this ⊢; omega
      · intro hw; have := hdd hw; simp [this] at hnd
      · intro hw; have := hdd hw; simp [this] at hnd
      · simpa [count_append] using hsc
  | jobAdd id =>
    simp only [stepWith] at hs
    split at hs
    · rename_i id' hw
      simp at hs; subst hs
      refine ⟨?_, ?_, ?_, ?_⟩
      · rw [perm_iff_count] at hp ⊢
        intro a; have := hp a
        simp [pendingJobs, count_append, count_cons] at this ⊢; omega
      · intro hw'; simp [hw] at hw'
      · intro hw'; simp [hw] at hw'
      · simpa [count_append] using hsc
    · simp at hs
  | take =>
    simp only [stepWith] at hs
    split at hs
    · rename_i id r hw ho
      simp at hs; subst hs
      refine ⟨?_, ?_, ?_, ?_⟩
      · rw [perm_iff_count] at hp ⊢
        intro a; have := hp a
        simp [pendingJobs, workerJobs, hw, ho, count_append, count_cons] at this ⊢; omega
      · intro hw'; simp at hw'
      · intro hw'; simp at hw'
      · simp [hw, ho] at hsc ⊢; exact hsc
    · rename_i r hw ho
      split at hs
      · rename_i hq
        simp at hs; subst hs
        refine ⟨?_, ?_, ?_, ?_⟩
        · rw [perm_iff_count] at hp ⊢
          intro a; have := hp a
          simp [pendingJobs, workerJobs, hw, ho, count_append] at this ⊢; omega
        · intro hw'; simp [hw] at hw'
        · intro hw'; simp [hw] at hw'
        · simp [hw, ho, count_append] at hsc ⊢; omega
      · rename_i hq
        have hr : r = [] := by simpa using hq
        subst hr
        simp at hs; subst hs
        have hdes : s.destroyed = true := by
          simp [hw, ho] at hsc
          exact hsc
        refine ⟨?_, ?_, ?_, ?_⟩
        · rw [perm_iff_count] at hp ⊢
          intro a; have := hp a
          simp [pendingJobs, workerJobs, hw, ho] at this ⊢; omega
        · intro _; rfl
        · intro _; exact hdes
        · simp
    · simp at hs
  | finish =>
    simp only [stepWith] at hs
    split at hs
    · rename_i id hw
      simp at hs; subst hs
      refine ⟨?_, ?_, ?_, ?_⟩
      · rw [perm_iff_count] at hp ⊢
        intro a; have := hp a
        simp [pendingJobs, workerJobs, hw, count_append, count_cons] at this ⊢; omega
      · intro hw'; simp at hw'
      · intro hw'; simp at hw'
      · simp [hw] at hsc ⊢; exact hsc
    · simp at hs
  | destroy =>
    simp only [stepWith] at hs
    split at hs
    · simp at hs
    · rename_i hnd
      simp at hs; subst hs
      have hne : s.worker ≠ .exited := by
        intro hw; have := hdd hw; simp [this] at hnd
      have hnd' : s.destroyed = false := by simpa using hnd
      refine ⟨?_, ?_, ?_, ?_⟩
      · rw [perm_iff_count] at hp ⊢
        intro a; have := hp a
        simp [pendingJobs, count_append] at this ⊢; omega
      · intro hw; exact absurd hw hne
      · intro _; rfl
      · simp [hnd'] at hsc
        simp [count_append, hsc, hne]

theorem inv_reachable {s : State} (h : Reachable s) : Inv s := by
  induction h with
  | init => exact inv_init
  | step a _ hs ih =>
    apply inv_step ih
    simpa [step, Generated.LaneQueue.serialRequeuesSentinel] using hs

end Serial

end LLBuild.LaneQueue
