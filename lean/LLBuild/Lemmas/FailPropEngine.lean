/-
C10 (engine level): a small invariant of the abstract engine monitor that needs NO hypothesis on the client
(neither `Program.WF` nor the F22 ghost flag): the validity verdict the monitor holds for a rule that is being
scanned is the client's verdict on the value stored for that rule in the current external state.  And the way a
rule's status / stored value can move while it is being scanned or waiting to run.
-/
import LLBuild.Lemmas.Engine.Basic

set_option linter.unusedVariables false

namespace LLBuild.Engine

structure VInv (P : Program) (s : St) : Prop where
  idle : s.target = none → ∀ k, s.status k = .idle
  startedTarget : s.started = true → s.target.isSome = true
  validIdle : s.target.isSome = true → ∀ k, s.status k = .idle → s.validSeen k = none
  validOk : ∀ k, s.status k = .scanning → s.validSeen k = some true →
      P.valid s.env k (s.mem.res k).value = true

theorem VInv.init (P : Program) : VInv P ({} : St) :=
  ⟨fun _ _ => rfl, fun h => (by cases h), fun _ _ _ => rfl, fun _ h => (by cases h)⟩

theorem upd_status_ne {f : Key → Status} {k k' : Key} {x y : Status} (h : upd f k x k' = y) (hxy : x ≠ y) :
    k' ≠ k ∧ f k' = y := by
  by_cases e : k' = k
  · subst e; rw [upd_same] at h; exact absurd h hxy
  · rw [upd_other _ _ _ _ e] at h; exact ⟨e, h⟩

theorem target_some_of_status {P : Program} {s : St} (hi : VInv P s) {k : Key} (h : s.status k ≠ .idle) :
    s.target.isSome = true := by
  cases ht : s.target with
  | none => exact absurd (hi.idle ht k) h
  | some r => rfl

/-- the invariant is preserved by every accepted event, for every client -/
theorem step_vinv {P : Program} {s s' : St} {e : Event} (h : step P s e = some s') (hi : VInv P s) : VInv P s' := by
  cases e <;> simp only [step] at h
  case buildStart k =>
    split at h
    · cases h
      exact ⟨fun h => (by cases h), fun h => (by cases h), fun _ _ _ => rfl, fun _ h => (by cases h)⟩
    · cases h
  case queueCreated =>
    split at h
    · rename_i hc
      cases h
      simp only [Bool.and_eq_true] at hc
      exact ⟨hi.idle, fun _ => hc.1, hi.validIdle, hi.validOk⟩
    · cases h
  case lookup k =>
    split at h
    · cases h; exact ⟨hi.idle, hi.startedTarget, hi.validIdle, hi.validOk⟩
    · cases h
  case dbGet k f =>
    split at h
    · cases h; exact hi
    · cases h
  case dbBegin => cases h; exact hi
  case dbEnd =>
    split at h
    · cases h; exact ⟨hi.idle, hi.startedTarget, hi.validIdle, hi.validOk⟩
    · cases h
  case scanning k =>
    split at h
    · rename_i hc
      cases h
      simp only [Bool.and_eq_true, beq_iff_eq] at hc
      have hst : s.started = true := by
        have := hc; simp only [and_assoc] at this; exact this.1
      have hidle : s.status k = .idle := by
        have := hc; simp only [and_assoc] at this; exact this.2.1
      have hts := hi.startedTarget hst
      refine ⟨?_, hi.startedTarget, ?_, ?_⟩
      · intro ht; rw [ht] at hts; cases hts
      · intro _ k' hk'
        obtain ⟨_, h2⟩ := upd_status_ne hk' (by decide)
        exact hi.validIdle hts k' h2
      · intro k' hk' hv
        by_cases e : k' = k
        · subst e
          have := hi.validIdle hts k' hidle
          rw [this] at hv; cases hv
        · simp only [] at hk' hv ⊢
          rw [upd_other _ _ _ _ e] at hk'
          rw [setRes_res_other _ _ _ _ e]
          exact hi.validOk k' hk' hv
    · cases h
  case valid k v b =>
    split at h
    · rename_i hc
      cases h
      simp only [Bool.and_eq_true, beq_iff_eq] at hc
      obtain ⟨⟨⟨⟨⟨hsc, _⟩, _⟩, hv⟩, hb⟩, _⟩ := hc
      have hts := target_some_of_status hi (k := k) (by rw [hsc]; decide)
      refine ⟨hi.idle, hi.startedTarget, ?_, ?_⟩
      · intro _ k' hk'
        by_cases e : k' = k
        · subst e; rw [hsc] at hk'; cases hk'
        · simp only []; rw [upd_other _ _ _ _ e]; exact hi.validIdle hts k' hk'
      · intro k' hk' hvs
        by_cases e : k' = k
        · subst e
          simp only [upd_same, Option.some.injEq] at hvs
          rw [← hv, ← hb, hvs]
        · simp only [] at hvs; rw [upd_other _ _ _ _ e] at hvs; exact hi.validOk k' hk' hvs
    · cases h
  case needs k r i =>
    split at h
    · rename_i hc
      cases h
      simp only [Bool.and_eq_true, beq_iff_eq] at hc
      have hts := target_some_of_status hi (k := k) (by rw [hc.1]; decide)
      refine ⟨?_, hi.startedTarget, ?_, ?_⟩
      · intro ht; rw [ht] at hts; cases hts
      · intro _ k' hk'
        exact hi.validIdle hts k' (upd_status_ne hk' (by decide)).2
      · intro k' hk' hv
        exact hi.validOk k' (upd_status_ne hk' (by decide)).2 hv
    · cases h
  case upToDate k =>
    split at h
    · rename_i hc
      cases h
      simp only [Bool.and_eq_true, beq_iff_eq] at hc
      have hts := target_some_of_status hi (k := k) (by rw [hc.1.1]; decide)
      refine ⟨?_, hi.startedTarget, ?_, ?_⟩
      · intro ht; rw [ht] at hts; cases hts
      · intro _ k' hk'
        exact hi.validIdle hts k' (upd_status_ne hk' (by decide)).2
      · intro k' hk' hv
        obtain ⟨e, h2⟩ := upd_status_ne hk' (by decide)
        simp only []; rw [setRes_res_other _ _ _ _ e]
        exact hi.validOk k' h2 hv
    · cases h
  case create k =>
    split at h
    · rename_i hc
      cases h
      simp only [Bool.and_eq_true, beq_iff_eq] at hc
      have hts := target_some_of_status hi (k := k) (by rw [hc.1]; decide)
      refine ⟨?_, hi.startedTarget, ?_, ?_⟩
      · intro ht; rw [ht] at hts; cases hts
      · intro _ k' hk'
        exact hi.validIdle hts k' (upd_status_ne hk' (by decide)).2
      · intro k' hk' hv
        obtain ⟨e, h2⟩ := upd_status_ne hk' (by decide)
        simp only []; rw [setRes_res_other _ _ _ _ e]
        exact hi.validOk k' h2 hv
    · cases h
  case start k reqs =>
    split at h
    · cases h; exact ⟨hi.idle, hi.startedTarget, hi.validIdle, hi.validOk⟩
    · cases h
  case prior k v =>
    split at h
    · cases h; exact ⟨hi.idle, hi.startedTarget, hi.validIdle, hi.validOk⟩
    · cases h
  case provide k id key v reqs =>
    split at h
    · split at h
      · cases h
      · split at h
        · cases h; exact ⟨hi.idle, hi.startedTarget, hi.validIdle, hi.validOk⟩
        · cases h
    · cases h
  case inputsAvail k discs =>
    split at h
    · rename_i hc
      cases h
      simp only [Bool.and_eq_true, beq_iff_eq] at hc
      have hrun : s.status k = .running := by
        have := hc; simp only [and_assoc] at this; exact this.1
      have hts := target_some_of_status hi (k := k) (by rw [hrun]; decide)
      refine ⟨?_, hi.startedTarget, ?_, ?_⟩
      · intro ht; rw [ht] at hts; cases hts
      · intro _ k' hk'
        exact hi.validIdle hts k' (upd_status_ne hk' (by decide)).2
      · intro k' hk' hv
        exact hi.validOk k' (upd_status_ne hk' (by decide)).2 hv
    · cases h
  case complete k v f =>
    split at h
    · rename_i hc
      cases h
      simp only [Bool.and_eq_true, beq_iff_eq] at hc
      have hcomp : s.status k = .computing := by
        have := hc; simp only [and_assoc] at this; exact this.1
      refine ⟨hi.idle, hi.startedTarget, hi.validIdle, ?_⟩
      intro k' hk' hv
      by_cases e : k' = k
      · subst e; simp only [] at hk'; rw [hcomp] at hk'; cases hk'
      · simp only []; rw [setRes_res_other _ _ _ _ e]
        exact hi.validOk k' hk' hv
    · cases h
  case finished k row =>
    split at h
    · rename_i hc
      cases h
      simp only [Bool.and_eq_true, beq_iff_eq] at hc
      have hcomp : s.status k = .computing := by
        have := hc; simp only [and_assoc] at this; exact this.1
      have hts := target_some_of_status hi (k := k) (by rw [hcomp]; decide)
      refine ⟨?_, hi.startedTarget, ?_, ?_⟩
      · intro ht; rw [ht] at hts; cases hts
      · intro _ k' hk'
        exact hi.validIdle hts k' (upd_status_ne hk' (by decide)).2
      · intro k' hk' hv
        obtain ⟨e, h2⟩ := upd_status_ne hk' (by decide)
        simp only []; rw [upd_other _ _ _ _ e]
        exact hi.validOk k' h2 hv
    · cases h
  case dbIter e =>
    split at h
    · cases h; exact ⟨hi.idle, hi.startedTarget, hi.validIdle, hi.validOk⟩
    · cases h
  case cycle ks =>
    split at h
    · split at h
      · cases h; exact ⟨hi.idle, hi.startedTarget, hi.validIdle, hi.validOk⟩
      · cases h
    · cases h
  case error c => cases h; exact ⟨hi.idle, hi.startedTarget, hi.validIdle, hi.validOk⟩
  case cancel => cases h; exact ⟨hi.idle, hi.startedTarget, hi.validIdle, hi.validOk⟩
  case ret v =>
    split at h
    · cases h
    · split at h
      · cases h
      · split at h
        · cases h; exact ⟨hi.idle, hi.startedTarget, hi.validIdle, hi.validOk⟩
        · split at h
          · cases h
            refine ⟨hi.idle, hi.startedTarget, hi.validIdle, ?_⟩
            intro k' hk' hv
            have := hi.validOk k' hk' hv
            simp only []
            split <;> exact this
          · cases h
  case tail live late =>
    split at h
    · cases h
      exact ⟨fun _ _ => rfl, fun h => (by cases h), fun h => (by cases h), fun _ h => (by cases h)⟩
    · cases h
  case mutate slot val =>
    split at h
    · rename_i hc
      cases h
      have ht : s.target = none := by simpa using hc
      refine ⟨hi.idle, hi.startedTarget, hi.validIdle, ?_⟩
      intro k' hk' _
      have := hi.idle ht k'
      simp only [] at hk'
      rw [this] at hk'; cases hk'
    · cases h
  case restart =>
    split at h
    · rename_i hc
      cases h
      have ht : s.target = none := by simpa using hc
      refine ⟨fun _ _ => rfl, hi.startedTarget, ?_, fun _ h => (by cases h)⟩
      intro h; simp only [] at h; rw [ht] at h; cases h
    · cases h
  case wipe =>
    split at h
    · cases h; exact VInv.init P
    · cases h
  case crash =>
    split at h
    · cases h
      exact ⟨fun _ _ => rfl, fun h => (by cases h), fun h => (by cases h), fun _ h => (by cases h)⟩
    · cases h

theorem run_vinv {P : Program} : ∀ (evs : List Event) (s s' : St), run P s evs = some s' → VInv P s → VInv P s'
  | [], s, s', h, hi => by simp [run] at h; subst h; exact hi
  | e :: es, s, s', h, hi => by
    simp only [run] at h
    cases hs : step P s e with
    | none => rw [hs] at h; simp at h
    | some s1 =>
      rw [hs] at h
      simp only [Option.bind] at h
      exact run_vinv es s1 s' h (step_vinv hs hi)

theorem run_append_fp (P : Program) : ∀ (evs1 evs2 : List Event) (s : St),
    run P s (evs1 ++ evs2) = (run P s evs1).bind (fun s1 => run P s1 evs2)
  | [], evs2, s => by simp [run]
  | e :: es, evs2, s => by
    simp only [List.cons_append, run]
    cases step P s e with
    | none => rfl
    | some s1 => simp only [Option.bind]; exact run_append_fp P es evs2 s1

theorem run_append_some {P : Program} {evs1 : List Event} {s s1 : St} (h : run P s evs1 = some s1)
    (evs2 : List Event) : run P s (evs1 ++ evs2) = run P s1 evs2 := by
  rw [run_append_fp, h]; rfl

/-- reading facts off an accepted trace (for non-vacuity examples: `h` is closed by kernel evaluation) -/
theorem run_facts {P : Program} {s0 : St} {evs : List Event} {p : St → Bool}
    (h : ((run P s0 evs).map p) = some true) : ∃ s, run P s0 evs = some s ∧ p s = true := by
  cases hr : run P s0 evs with
  | none => rw [hr] at h; cases h
  | some s => rw [hr] at h; exact ⟨s, rfl, by simpa using h⟩

theorem reach_vinv {P : Program} {evs : List Event} {s : St} (h : run P {} evs = some s) : VInv P s :=
  run_vinv evs {} s h (VInv.init P)

/-! ### how a rule leaves the states "being scanned" and "needs to run" -/

/-- events that end the current build or replace the engine (after them every rule is idle again) -/
def endsBuild : Event → Bool
  | .buildStart _ => true
  | .wipe => true
  | .tail _ _ => true
  | .restart => true
  | .crash => true
  | _ => false

/-- Within a build: a rule that is being scanned stays so with the same stored value, until the engine reports a
reason to run it (`needs`) or declares it up to date (`upToDate`); a rule that needs to run stays so until its task
is created (`create`).  No hypothesis on the client. -/
theorem step_scan_or_needs {P : Program} {s s' : St} {e : Event} {k : Key} (h : step P s e = some s')
    (hb : endsBuild e = false) :
    (s.status k = .scanning →
      (s'.status k = .scanning ∧ (s'.mem.res k).value = (s.mem.res k).value) ∨
      ((∃ r i, e = .needs k r i) ∧ s'.status k = .needsRun) ∨ e = .upToDate k) ∧
    (s.status k = .needsRun → s'.status k = .needsRun ∨ e = .create k) := by
  cases e <;> simp only [step] at h <;> simp only [endsBuild] at hb
  case buildStart => cases hb
  case wipe => cases hb
  case tail => cases hb
  case restart => cases hb
  case crash => cases hb
  case scanning k' =>
    split at h
    · rename_i hc
      cases h
      simp only [Bool.and_eq_true, beq_iff_eq] at hc
      have hidle : s.status k' = .idle := by
        have := hc; simp only [and_assoc] at this; exact this.2.1
      by_cases e : k = k'
      · subst e
        exact ⟨fun hs => (by rw [hidle] at hs; cases hs), fun hs => (by rw [hidle] at hs; cases hs)⟩
      · simp only []
        rw [upd_other _ _ _ _ e, setRes_res_other _ _ _ _ e]
        exact ⟨fun hs => Or.inl ⟨hs, (by first | rfl | trivial)⟩, fun hs => Or.inl hs⟩
    · cases h
  case needs k' r i =>
    split at h
    · rename_i hc
      cases h
      simp only [Bool.and_eq_true, beq_iff_eq] at hc
      by_cases e : k = k'
      · subst e
        exact ⟨fun _ => Or.inr (Or.inl ⟨⟨r, i, rfl⟩, by simp⟩), fun hs => (by rw [hc.1] at hs; cases hs)⟩
      · simp only []
        rw [upd_other _ _ _ _ e]
        exact ⟨fun hs => Or.inl ⟨hs, (by first | rfl | trivial)⟩, fun hs => Or.inl hs⟩
    · cases h
  case upToDate k' =>
    split at h
    · rename_i hc
      cases h
      simp only [Bool.and_eq_true, beq_iff_eq] at hc
      by_cases e : k = k'
      · subst e
        exact ⟨fun _ => Or.inr (Or.inr rfl), fun hs => (by rw [hc.1.1] at hs; cases hs)⟩
      · simp only []
        rw [upd_other _ _ _ _ e, setRes_res_other _ _ _ _ e]
        exact ⟨fun hs => Or.inl ⟨hs, (by first | rfl | trivial)⟩, fun hs => Or.inl hs⟩
    · cases h
  case create k' =>
    split at h
    · rename_i hc
      cases h
      simp only [Bool.and_eq_true, beq_iff_eq] at hc
      by_cases e : k = k'
      · subst e
        exact ⟨fun hs => (by rw [hc.1] at hs; cases hs), fun _ => Or.inr rfl⟩
      · simp only []
        rw [upd_other _ _ _ _ e, setRes_res_other _ _ _ _ e]
        exact ⟨fun hs => Or.inl ⟨hs, (by first | rfl | trivial)⟩, fun hs => Or.inl hs⟩
    · cases h
  case inputsAvail k' discs =>
    split at h
    · rename_i hc
      cases h
      simp only [Bool.and_eq_true, beq_iff_eq] at hc
      have hrun : s.status k' = .running := by
        have := hc; simp only [and_assoc] at this; exact this.1
      by_cases e : k = k'
      · subst e
        exact ⟨fun hs => (by rw [hrun] at hs; cases hs), fun hs => (by rw [hrun] at hs; cases hs)⟩
      · simp only []
        rw [upd_other _ _ _ _ e]
        exact ⟨fun hs => Or.inl ⟨hs, (by first | rfl | trivial)⟩, fun hs => Or.inl hs⟩
    · cases h
  case complete k' v f =>
    split at h
    · rename_i hc
      cases h
      simp only [Bool.and_eq_true, beq_iff_eq] at hc
      have hcomp : s.status k' = .computing := by
        have := hc; simp only [and_assoc] at this; exact this.1
      by_cases e : k = k'
      · subst e
        exact ⟨fun hs => (by rw [hcomp] at hs; cases hs), fun hs => (by rw [hcomp] at hs; cases hs)⟩
      · simp only []
        rw [setRes_res_other _ _ _ _ e]
        exact ⟨fun hs => Or.inl ⟨hs, (by first | rfl | trivial)⟩, fun hs => Or.inl hs⟩
    · cases h
  case finished k' row =>
    split at h
    · rename_i hc
      cases h
      simp only [Bool.and_eq_true, beq_iff_eq] at hc
      have hcomp : s.status k' = .computing := by
        have := hc; simp only [and_assoc] at this; exact this.1
      by_cases e : k = k'
      · subst e
        exact ⟨fun hs => (by rw [hcomp] at hs; cases hs), fun hs => (by rw [hcomp] at hs; cases hs)⟩
      · simp only []
        rw [upd_other _ _ _ _ e, upd_other _ _ _ _ e]
        exact ⟨fun hs => Or.inl ⟨hs, (by first | rfl | trivial)⟩, fun hs => Or.inl hs⟩
    · cases h
  case ret v =>
    split at h
    · cases h
    · split at h
      · cases h
      · split at h
        · cases h; exact ⟨fun hs => Or.inl ⟨hs, (by first | rfl | trivial)⟩, fun hs => Or.inl hs⟩
        · split at h
          · cases h
            refine ⟨fun hs => Or.inl ⟨hs, ?_⟩, fun hs => Or.inl hs⟩
            simp only []
            split <;> rfl
          · cases h
  case provide k' id key v reqs =>
    split at h
    · split at h
      · cases h
      · split at h
        · cases h; exact ⟨fun hs => Or.inl ⟨hs, (by first | rfl | trivial)⟩, fun hs => Or.inl hs⟩
        · cases h
    · cases h
  case cycle ks =>
    split at h
    · split at h
      · cases h; exact ⟨fun hs => Or.inl ⟨hs, (by first | rfl | trivial)⟩, fun hs => Or.inl hs⟩
      · cases h
    · cases h
  all_goals first
    | (cases h; exact ⟨fun hs => Or.inl ⟨hs, (by first | rfl | trivial)⟩, fun hs => Or.inl hs⟩)
    | (split at h
       · cases h; exact ⟨fun hs => Or.inl ⟨hs, (by first | rfl | trivial)⟩, fun hs => Or.inl hs⟩
       · cases h)

/-! ### clients without discovered dependencies never set the F22 ghost flag -/

/-- nothing is pending, the flag is clear and no task holds discovered dependencies -/
structure NoPend (s : St) : Prop where
  pending : s.pending = []
  dropped : s.pendingDropped = false
  discs : ∀ k, (s.task k).discs = []

theorem NoPend.init : NoPend ({} : St) := ⟨rfl, rfl, fun _ => rfl⟩

theorem upd_task_discs {f : Key → Task} {k : Key} {t : Task} (hf : ∀ k, (f k).discs = []) (ht : t.discs = []) :
    ∀ k', (upd f k t k').discs = [] := by
  intro k'
  by_cases e : k' = k
  · subst e; rw [upd_same]; exact ht
  · rw [upd_other _ _ _ _ e]; exact hf k'

theorem step_nopend {P : Program} (hd : ∀ k r, P.disc k r = []) {s s' : St} {e : Event}
    (h : step P s e = some s') (hi : NoPend s) : NoPend s' := by
  cases e <;> simp only [step] at h
  case buildStart k =>
    split at h
    · cases h; exact ⟨rfl, hi.dropped, fun _ => rfl⟩
    · cases h
  case dbEnd =>
    split at h
    · cases h
      refine ⟨hi.pending, ?_, hi.discs⟩
      simp [hi.dropped, hi.pending]
    · cases h
  case upToDate k =>
    split at h
    · cases h
      refine ⟨?_, hi.dropped, hi.discs⟩
      simp [hi.pending]
    · cases h
  case create k =>
    split at h
    · cases h; exact ⟨hi.pending, hi.dropped, upd_task_discs hi.discs rfl⟩
    · cases h
  case start k reqs =>
    split at h
    · cases h; exact ⟨hi.pending, hi.dropped, upd_task_discs hi.discs rfl⟩
    · cases h
  case prior k v =>
    split at h
    · cases h; exact ⟨hi.pending, hi.dropped, upd_task_discs hi.discs (hi.discs k)⟩
    · cases h
  case provide k id key v reqs =>
    split at h
    · split at h
      · cases h
      · split at h
        · cases h; exact ⟨hi.pending, hi.dropped, upd_task_discs hi.discs (hi.discs k)⟩
        · cases h
    · cases h
  case inputsAvail k discs =>
    split at h
    · rename_i hc
      cases h
      simp only [Bool.and_eq_true, beq_iff_eq] at hc
      exact ⟨hi.pending, hi.dropped, upd_task_discs hi.discs (by simp only []; rw [hc.2, hd])⟩
    · cases h
  case complete k v f =>
    split at h
    · cases h; exact ⟨hi.pending, hi.dropped, upd_task_discs hi.discs (hi.discs k)⟩
    · cases h
  case finished k row =>
    split at h
    · cases h
      refine ⟨?_, hi.dropped, hi.discs⟩
      simp [hi.pending, hi.discs k]
    · cases h
  case cycle ks =>
    split at h
    · split at h
      · cases h; exact ⟨hi.pending, hi.dropped, hi.discs⟩
      · cases h
    · cases h
  case ret v =>
    split at h
    · cases h
    · split at h
      · cases h
      · split at h
        · cases h; exact ⟨hi.pending, hi.dropped, hi.discs⟩
        · split at h
          · cases h
            refine ⟨rfl, ?_, hi.discs⟩
            simp [hi.dropped, hi.pending]
          · cases h
  case wipe =>
    split at h
    · cases h; exact NoPend.init
    · cases h
  case crash =>
    split at h
    · cases h; exact ⟨rfl, hi.dropped, fun _ => rfl⟩
    · cases h
  all_goals first
    | (cases h; exact ⟨hi.pending, hi.dropped, hi.discs⟩)
    | (split at h
       · cases h; exact ⟨hi.pending, hi.dropped, hi.discs⟩
       · cases h)

theorem run_nopend {P : Program} (hd : ∀ k r, P.disc k r = []) : ∀ (evs : List Event) (s s' : St),
    run P s evs = some s' → NoPend s → NoPend s'
  | [], s, s', h, hi => by simp [run] at h; subst h; exact hi
  | e :: es, s, s', h, hi => by
    simp only [run] at h
    cases hs : step P s e with
    | none => rw [hs] at h; simp at h
    | some s1 =>
      rw [hs] at h
      simp only [Option.bind] at h
      exact run_nopend hd es s1 s' h (step_nopend hd hs hi)

/-- for a client that reports no discovered dependencies the F22 ghost flag is never set -/
theorem reach_not_dropped {P : Program} (hd : ∀ k r, P.disc k r = []) {evs : List Event} {s : St}
    (h : run P {} evs = some s) : s.pendingDropped = false :=
  (run_nopend hd evs {} s h NoPend.init).dropped

theorem step_not_dropped {P : Program} (hd : ∀ k r, P.disc k r = []) {evs : List Event} {s s' : St} {e : Event}
    (h : run P {} evs = some s) (hs : step P s e = some s') : s'.pendingDropped = false :=
  (step_nopend hd hs (run_nopend hd evs {} s h NoPend.init)).dropped

end LLBuild.Engine
