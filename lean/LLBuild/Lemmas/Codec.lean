/-
Helper lemmas for C15 (codec): every component decoder is a left inverse of its encoder *with an arbitrary
suffix* (`decode (encode x ++ rest) = ok (x, rest)`), from which round trip and injectivity follow.
The generated tables (LLBuild/Generated/Codec.lean) are unfolded here, so a change of byte order, field order,
width, guard or step order in the source re-checks (and, if it breaks the codec, fails) these proofs.
-/
import LLBuild.Model.Codec
namespace LLBuild.Codec
open LLBuild.Generated.Codec

theorem rLE_wLE8 (v : Nat) (rest : Bytes) : rLE 8 (wLE 8 v ++ rest) = .ok (v % 2^64, rest) := by
  simp [rLE, wLE, readShifts, writeShifts, read64Shifts, write64Shifts, combine, Nat.shiftLeft_eq, Nat.shiftRight_eq_div_pow]
  rw [if_neg (by omega)]
  congr 2
  omega

theorem rLE_wLE4 (v : Nat) (rest : Bytes) : rLE 4 (wLE 4 v ++ rest) = .ok (v % 2^32, rest) := by
  simp [rLE, wLE, readShifts, writeShifts, read32Shifts, write32Shifts, combine, Nat.shiftLeft_eq, Nat.shiftRight_eq_div_pow]
  rw [if_neg (by omega)]
  congr 2
  omega

theorem rLE_wLE1 (v : Nat) (rest : Bytes) : rLE 1 (wLE 1 v ++ rest) = .ok (v % 2^8, rest) := by
  simp [rLE, wLE, readShifts, writeShifts, combine, Nat.shiftLeft_eq, Nat.shiftRight_eq_div_pow]

theorem rNative_wNative4 (v : Nat) (rest : Bytes) : rNative 4 (wNative 4 v ++ rest) = .ok (v % 2^32, rest) := by
  simp [rNative, wNative, nativeShifts, List.range, List.range.loop, combine, Nat.shiftLeft_eq, Nat.shiftRight_eq_div_pow]
  rw [if_neg (by omega)]
  congr 2
  omega

theorem readN_flatMap {α : Type} (rd : Bytes → Except Err (α × Bytes)) (enc : α → Bytes) (as : List α) (rest : Bytes)
    (h : ∀ a ∈ as, ∀ r, rd (enc a ++ r) = .ok (a, r)) :
    readN rd as.length (as.flatMap enc ++ rest) = .ok (as, rest) := by
  induction as with
  | nil => simp [readN]
  | cons a as ih =>
    have ha := h a (by simp)
    have ih' := ih (fun b hb => h b (by simp [hb]))
    simp [readN, List.flatMap_cons, List.append_assoc, ha, ih']

theorem nulFree_cons (b : UInt8) (s : Bytes) : nulFree (b :: s) = true ↔ b ≠ stringListTerminator ∧ nulFree s = true := by
  simp [nulFree]
  intro _
  exact ⟨fun h1 h => h1 h.symm, fun h1 h => h1 h.symm⟩

theorem unpack_string (s : Bytes) (hs : nulFree s = true) (rest : Bytes) (r : List Bytes)
    (h : unpackStrings rest = some r) :
    unpackStrings (s ++ stringListTerminator :: rest) = some (s :: r) := by
  induction s with
  | nil => simp [unpackStrings, h]
  | cons b s ih =>
    obtain ⟨hb, hs'⟩ := (nulFree_cons b s).1 hs
    simp [unpackStrings, ih hs', hb]

theorem unpack_pack (vs : List Bytes) (h : ∀ s ∈ vs, nulFree s = true) :
    unpackStrings (packStrings vs) = some vs := by
  induction vs with
  | nil => simp [packStrings, unpackStrings]
  | cons s vs ih =>
    have := unpack_string s (h s (by simp)) (packStrings vs) vs (ih (fun t ht => h t (by simp [ht])))
    simpa [packStrings, List.flatMap_cons, List.append_assoc] using this

theorem decodeStringList_encode (vs : List Bytes) (h : ∀ s ∈ vs, nulFree s = true)
    (hl : (packStrings vs).length < 2 ^ 64) (rest : Bytes) :
    decodeStringList (encodeStringList vs ++ rest) = .ok (vs, rest) := by
  simp only [decodeStringList, encodeStringList, stringListSizeWidth, List.append_assoc, rLE_wLE8]
  rw [Nat.mod_eq_of_lt hl]
  simp only [readBytes, List.length_append]
  rw [if_neg (by omega)]
  simp [unpack_pack vs h]


theorem FileInfo.decode_encode (fi : FileInfo) (h : fi.WF = true) (rest : Bytes) :
    FileInfo.decode (fi.encode ++ rest) = .ok (fi, rest) := by
  have hlen : fi.checksum_bytes.length = 32 := by simpa [FileInfo.WF] using h
  have harr : readN (rLE 1) 32 ((fi.checksum_bytes.map (·.toNat)).flatMap (wLE 1) ++ rest)
      = .ok (fi.checksum_bytes.map (·.toNat), rest) := by
    have := readN_flatMap (rLE 1) (wLE 1) (fi.checksum_bytes.map (·.toNat)) rest (by
      intro a ha r
      simp only [List.mem_map] at ha
      obtain ⟨b, _, rfl⟩ := ha
      rw [rLE_wLE1, Nat.mod_eq_of_lt (by simpa using b.toNat_lt)])
    simpa [hlen] using this
  simp only [FileInfo.decode, FileInfo.encode, fileInfoEncodeLayout, fileInfoDecodeLayout, List.flatMap_cons, List.flatMap_nil,
    FileInfo.encodeLeaf, FileInfo.getScalar, FileInfo.getArray, List.append_assoc, List.append_nil,
    FileInfo.decodeLeaves, FileInfo.decodeLeaf, rLE_wLE8]
  rw [List.take_of_length_le (by simp [hlen]), harr]
  simp only [FileInfo.setScalar, FileInfo.setArray, FileInfo.zero, List.map_map]
  cases fi
  simp [Nat.mod_eq_of_lt (UInt64.toNat_lt _), Function.comp_def]

theorem VKind.ofOrd_ord (k : VKind) : VKind.ofOrd? k.ord = some k := by cases k <;> rfl
theorem VKind.ord_lt (k : VKind) : k.ord < 256 := by cases k <;> decide

theorem wLE1_isEmpty (x : Nat) (r : Bytes) : (wLE 1 x ++ r).isEmpty = false := by
  simp [wLE, writeShifts]

theorem readInfos_encode (infos : List FileInfo) (h : ∀ fi ∈ infos, fi.WF = true) (rest : Bytes) :
    readN FileInfo.decode infos.length (infos.flatMap FileInfo.encode ++ rest) = .ok (infos, rest) :=
  readN_flatMap FileInfo.decode FileInfo.encode infos rest (fun fi hfi r => FileInfo.decode_encode fi (h fi hfi) r)

theorem Value.decodeRest_encode_append (v : Value) (h : v.WF = true) (rest : Bytes) :
    Value.decodeRest (v.encode ++ rest) = .ok (v, rest) := by
  simp only [Value.WF, Bool.and_eq_true, Bool.or_eq_true, List.all_eq_true, decide_eq_true_eq, beq_iff_eq] at h
  obtain ⟨⟨⟨⟨⟨h1, h2⟩, h3⟩, h4⟩, h5⟩, h6⟩ := h
  obtain ⟨k, sig, outs, strs⟩ := v
  simp only at h1 h2 h3 h4 h5 h6
  cases hs : hasSignature k <;> cases ho : hasOutputInfo k <;> cases hl : hasStringList k <;>
    simp only [hs, ho, hl, Bool.false_eq_true, false_or, if_false, if_true, Bool.and_eq_true, decide_eq_true_eq,
      List.isEmpty_iff] at h1 h2 h4 <;>
    simp only [Value.encode, toDataSteps, List.flatMap_cons, List.flatMap_nil, guardHolds, Value.writeAction,
      kindTagWriteWidth, commandSignatureWidth, numOutputInfosWidth, if_true, if_false, List.append_nil, List.append_assoc, List.nil_append,
      Value.decodeRest, wLE1_isEmpty, Bool.false_eq_true, fromDataSteps, Value.runSteps,
      Value.readAction, kindTagReadWidth, rLE_wLE1, rLE_wLE8, rLE_wLE4,
      Nat.mod_eq_of_lt (VKind.ord_lt k), VKind.ofOrd_ord, Value.empty, hs, ho, hl]
  all_goals
    simp [h1, h2, h4, Nat.mod_eq_of_lt, decodeStringList_encode strs h5 h6, readInfos_encode outs h3, hl,
      Nat.mod_eq_of_lt (UInt64.toNat_lt _)]

theorem kindFor_identifierFor (k : KKind) (h : k ≠ .Unknown) : kindForIdentifier (identifierForKind k) = k := by
  cases k <;> first | rfl | exact absurd rfl h

theorem identifierFor_kindFor (c : UInt8) (h : kindForIdentifier c ≠ .Unknown) :
    identifierForKind (kindForIdentifier c) = c := by
  unfold kindForIdentifier at h ⊢
  repeat' split
  all_goals simp_all [identifierForKind]

theorem keyLayout_ne_noMake (k : KKind) (h : keyLayout k ≠ .noMake) : k ≠ .Unknown := by
  intro hk; subst hk; exact h rfl

theorem add_lt_self_false (a b : Nat) : (a + b < a) = False := by simp

theorem wLE_length8 (v : Nat) : (wLE 8 v).length = 8 := by simp [wLE, writeShifts, write64Shifts]

theorem Key.decode_encode (k : Key) (h : k.WF = true) : Key.decode k.encode = .ok k := by
  obtain ⟨kind, name, payload⟩ := k
  simp only [Key.WF, Bool.and_eq_true, decide_eq_true_eq] at h
  obtain ⟨⟨hlay, hname⟩, hpay⟩ := h
  cases hk : keyLayout kind <;> rw [hk] at hlay
  · -- nameOnly
    cases payload <;> simp at hlay
    have hkind := kindFor_identifierFor kind (keyLayout_ne_noMake kind (by rw [hk]; decide))
    simp [Key.decode, Key.encode, hk, keyKind, hkind, keySimpleName]
  · -- nameBytes
    cases payload <;> simp at hlay
    rename_i b
    have hkind := kindFor_identifierFor kind (keyLayout_ne_noMake kind (by rw [hk]; decide))
    simp only [Payload.encode] at hpay
    simp [Key.decode, Key.encode, hk, keyKind, hkind, keyName, keyData, keyNameSize, keyNameSizeWidth, Payload.encode,
      Nat.mod_eq_of_lt hname, Nat.mod_eq_of_lt hpay, rNative_wNative4, add_lt_self_false]
  · -- nameStringList
    cases payload <;> simp at hlay
    rename_i vs
    have hkind := kindFor_identifierFor kind (keyLayout_ne_noMake kind (by rw [hk]; decide))
    simp only [Payload.encode] at hpay
    have hl : (packStrings vs).length < 2 ^ 64 := by
      simp only [encodeStringList, List.length_append, stringListSizeWidth, wLE_length8] at hpay
      omega
    have hdec := decodeStringList_encode vs hlay hl []
    simp only [List.append_nil] at hdec
    simp [Key.decode, Key.encode, hk, keyKind, hkind, keyName, keyData, keyFilters, keyNameSize, keyNameSizeWidth,
      Payload.encode, Nat.mod_eq_of_lt hname, Nat.mod_eq_of_lt hpay, rNative_wNative4, add_lt_self_false]
    simp [hdec]
  · simp at hlay

theorem Key.decode_kind (bs : Bytes) (k : Key) (h : Key.decode bs = .ok k) : k.kind = keyKind bs := by
  unfold Key.decode at h
  simp only at h
  cases hl : keyLayout (keyKind bs) <;> rw [hl] at h <;> simp only at h
  · cases hn : keySimpleName bs <;> rw [hn] at h <;> simp at h
    rw [← h]
  · cases hn : keyName bs <;> cases hd : keyData bs <;> rw [hn, hd] at h <;> simp at h
    rw [← h]
  · cases hn : keyName bs <;> cases hd : keyFilters bs <;> rw [hn, hd] at h <;> simp at h
    rw [← h]
  · simp at h
end LLBuild.Codec
