/-
The print/parse round trip (stages (b)–(d)): a line laid out as `Item`s (Model/NinjaPrint.lean) lexes back to
exactly the tokens the items describe (`layout_follows`), so the token-script hypotheses of the shape theorems
of Props/C17Parse.lean hold for printed text; then one lemma per declaration and the induction over the list.
-/
import LLBuild.Lemmas.NinjaParserLex
import LLBuild.Lemmas.NinjaParserDecl

namespace LLBuild.NinjaPrint
open LLBuild.NinjaLexer LLBuild.NinjaParser
open LLBuild.Generated.NinjaLexer (Kind)
open LLBuild.NinjaLoader (Decl Binding)

/-! ## Items as tokens -/

def Piece.kind (m : LexMode) : Piece → Kind
  | .word w => wordKind m w
  | .path _ => .String
  | .value _ => .String
  | .colon => .Colon
  | .pipe => .Pipe
  | .pipepipe => .PipePipe
  | .equals => .Equals
  | .newline => .Newline
  | .indent => .Indentation
  | .eof => .EndOfFile

def Item.off (it : Item) : Nat := if it.sp then 1 else 0

/-- the token the lexer returns for the item when the cursor is at `σ` -/
def Item.tok (σ : St) (it : Item) : Token :=
  ⟨it.piece.kind it.mode, σ.pos + it.off, it.piece.bytes.length, σ.line, σ.col + it.off⟩

/-- the cursor after the item -/
def Item.next (σ : St) (it : Item) : St :=
  if it.piece = .newline then ⟨σ.pos + it.off + 1, σ.line + 1, 0⟩
  else ⟨σ.pos + it.off + it.piece.bytes.length, σ.line, σ.col + it.off + it.piece.bytes.length⟩

def endSt : St → List Item → St
  | σ, [] => σ
  | σ, it :: r => endSt (it.next σ) r

def toks : St → List Item → List Token
  | _, [] => []
  | σ, it :: r => it.tok σ :: toks (it.next σ) r

def script : St → List Item → List (LexMode × Token)
  | _, [] => []
  | σ, it :: r => (it.mode, it.tok σ) :: script (it.next σ) r

theorem Item.bytes_length (it : Item) : it.bytes.length = it.off + it.piece.bytes.length := by
  unfold Item.bytes Item.off; cases it.sp <;> simp <;> omega

theorem Item.next_pos (σ : St) (it : Item) : (it.next σ).pos = σ.pos + it.bytes.length := by
  rw [Item.bytes_length]
  unfold Item.next
  split
  · rename_i h; rw [h]; simp [Piece.bytes]; omega
  · simp; omega

theorem endSt_append (σ : St) (a b : List Item) : endSt σ (a ++ b) = endSt (endSt σ a) b := by
  induction a generalizing σ with
  | nil => rfl
  | cons it r ih => exact ih _

theorem toks_append (σ : St) (a b : List Item) : toks σ (a ++ b) = toks σ a ++ toks (endSt σ a) b := by
  induction a generalizing σ with
  | nil => rfl
  | cons it r ih => simp [toks, endSt, ih]

theorem script_append (σ : St) (a b : List Item) : script σ (a ++ b) = script σ a ++ script (endSt σ a) b := by
  induction a generalizing σ with
  | nil => rfl
  | cons it r ih => simp [script, endSt, ih]

theorem layoutBytes_append (a b : List Item) : layoutBytes (a ++ b) = layoutBytes a ++ layoutBytes b := by
  simp [layoutBytes]

theorem layoutBytes_cons (it : Item) (r : List Item) : layoutBytes (it :: r) = it.bytes ++ layoutBytes r := by
  simp [layoutBytes]

/-- items that all ask in the same mode: the script is the token list tagged with that mode -/
theorem script_of_mode (m : LexMode) : ∀ (its : List Item) (σ : St), (∀ it ∈ its, it.mode = m) →
    script σ its = (toks σ its).map (fun t => (m, t)) := by
  intro its
  induction its with
  | nil => intro σ _; rfl
  | cons it r ih =>
    intro σ h
    simp only [script, toks, List.map_cons]
    rw [h it List.mem_cons_self, ih _ (fun x hx => h x (List.mem_cons_of_mem _ hx))]

/-! ## One item, one `lex` call -/

/-- what the context has to provide for the item to lex as intended: the piece is well formed, the mode is one
in which it means what it should, a blank in front only inside a line, and the next byte `nb` delimits it -/
def ItemOK (σ : St) (it : Item) (nb : Option UInt8) : Prop :=
  match it.piece with
  | .word w => w ≠ [] ∧ w.all identB = true ∧ (∀ d, nb = some d → identB d = false) ∧
      (it.mode = .none ∨ it.mode = .identifierSpecific) ∧ (it.sp = true → σ.col ≠ 0)
  | .path p => it.sp = true ∧ it.mode = .pathString ∧ pathTextOK p = true ∧ σ.col ≠ 0 ∧ ∃ d, nb = some d ∧ isStopPath d.toNat = true
  | .value v => it.sp = true ∧ it.mode = .variableString ∧ valueOK v = true ∧ σ.col ≠ 0 ∧ nb = some 10
  | .colon => it.sp = false ∧ it.mode ≠ .variableString
  | .pipe => it.sp = true ∧ it.mode ≠ .variableString ∧ σ.col ≠ 0 ∧ nb ≠ some 124
  | .pipepipe => it.sp = true ∧ it.mode ≠ .variableString ∧ σ.col ≠ 0
  | .equals => it.sp = true ∧ (it.mode = .none ∨ it.mode = .identifierSpecific) ∧ σ.col ≠ 0
  | .newline => it.sp = false ∧ nb ≠ some 13
  | .indent => it.sp = false ∧ σ.col = 0 ∧ ∃ d, nb = some d ∧ isBlank d.toNat = false
  | .eof => it.sp = false ∧ nb = none

theorem pathOK_head {b : UInt8} {t : Bytes} (h : pathOK (b :: t) = true) :
    isBlank b.toNat = false ∧ (b.toNat = 36 → ∀ c, t.head? = some c → c.toNat ≠ 10 ∧ c.toNat ≠ 13) := by
  rw [pathOK_cons] at h
  by_cases h36 : b.toNat = 36
  · rw [if_pos h36] at h
    refine ⟨by rw [h36]; decide, fun _ c hc => ?_⟩
    cases t with
    | nil => simp at h
    | cons c' r =>
      simp only [List.head?_cons, Option.some.injEq] at hc
      subst hc
      simp only [Bool.and_eq_true, decide_eq_true_eq] at h
      exact ⟨h.1.1, h.1.2⟩
  · rw [if_neg h36] at h
    simp only [Bool.and_eq_true, Bool.not_eq_true', isStopPath, decide_eq_false_iff_not] at h
    refine ⟨?_, fun h' => absurd h' h36⟩
    simp only [isBlank, decide_eq_false_iff_not]
    omega

theorem varOK_head {b : UInt8} {t : Bytes} (h : varOK (b :: t) = true) :
    b.toNat = 36 → ∀ c, t.head? = some c → c.toNat ≠ 10 ∧ c.toNat ≠ 13 := by
  intro h36 c hc
  rw [varOK_cons, if_pos h36] at h
  cases t with
  | nil => simp at h
  | cons c' r =>
    simp only [List.head?_cons, Option.some.injEq] at hc
    subst hc
    simp only [Bool.and_eq_true, decide_eq_true_eq] at h
    exact ⟨h.1.1, h.1.2⟩

theorem st_eta0 (σ : St) : (⟨σ.pos + 0 + 0, σ.line, σ.col + 0 + 0⟩ : St) = σ := by cases σ; rfl

/-- **(a), assembled**: the lexer, asked in the item's mode at a cursor where the item's bytes stand in front of
a suitable delimiter, returns exactly the item's token and moves the cursor behind it. -/
theorem lex_item {buf : Bytes} {σ : St} {it : Item} {more : Bytes} (hok : ItemOK σ it more.head?)
    (hdrop : buf.drop σ.pos = it.bytes ++ more) (hle : σ.pos ≤ buf.length) :
    lex genCfg buf it.mode σ = .ok (it.tok σ, it.next σ) := by
  obtain ⟨m, sp, piece⟩ := it
  cases piece with
  | word w =>
    obtain ⟨hne, hall, hnb, hm, hsp⟩ := hok
    obtain ⟨b, t, rfl⟩ : ∃ b t, w = b :: t := by
      cases w with
      | nil => exact absurd rfl hne
      | cons a c => exact ⟨a, c, rfl⟩
    have hb : identB b = true := by simp only [List.all_cons, Bool.and_eq_true] at hall; exact hall.1
    obtain ⟨_, _, h36, _, _, _, _, hbl⟩ := identB_plain b hb
    cases sp with
    | false =>
      simp only [Item.bytes, Piece.bytes, Bool.false_eq_true, if_false, List.nil_append] at hdrop
      have hd' : buf.drop σ.pos = b :: (t ++ more) := by simpa using hdrop
      rw [lex_nosp m hd' hbl h36]
      have := lexToken_word (s0 := σ) m hm hne hall hdrop hnb hle
      simp only [List.head_cons] at this
      rw [this]
      simp [Item.tok, Item.next, Item.off, Piece.kind, Piece.bytes]
    | true =>
      simp only [Item.bytes, Piece.bytes, if_true, List.cons_append, List.nil_append] at hdrop
      obtain ⟨hlt, _, hd1⟩ := drop_cons hdrop
      rw [lex_sp m hdrop (hsp rfl) hbl (fun h => absurd h h36)]
      have := lexToken_word (s0 := ⟨σ.pos + 1, σ.line, σ.col + 1⟩) m hm hne hall (by simpa using hd1) hnb (by show σ.pos + 1 ≤ _; omega)
      simp only [List.head_cons] at this
      rw [this]
      simp [Item.tok, Item.next, Item.off, Piece.kind, Piece.bytes]
  | path p =>
    obtain ⟨hsp, hm, hp, hcol, d, hnb, hd⟩ := hok
    simp only at hsp hm
    subst hsp; subst hm
    simp only [pathTextOK, Bool.and_eq_true, Bool.not_eq_true', List.isEmpty_eq_false_iff] at hp
    obtain ⟨hne, hpok⟩ := hp
    obtain ⟨b, t, rfl⟩ : ∃ b t, p = b :: t := by
      cases p with
      | nil => exact absurd rfl hne
      | cons a c => exact ⟨a, c, rfl⟩
    obtain ⟨dm, rfl⟩ : ∃ dm, more = d :: dm := by
      cases more with
      | nil => simp at hnb
      | cons a c => simp only [List.head?_cons, Option.some.injEq] at hnb; subst hnb; exact ⟨c, rfl⟩
    simp only [Item.bytes, Piece.bytes, if_true, List.cons_append, List.nil_append] at hdrop
    obtain ⟨hlt, _, hd1⟩ := drop_cons hdrop
    obtain ⟨hbl, h36⟩ := pathOK_head hpok
    rw [lex_sp .pathString hdrop hcol hbl (fun h c hc => h36 h c (by
      cases t with
      | nil => exact absurd h (by rw [pathOK_cons] at hpok; intro h'; rw [if_pos h'] at hpok; simp at hpok)
      | cons a r => simpa using hc))]
    have := lexToken_path (s0 := ⟨σ.pos + 1, σ.line, σ.col + 1⟩) (body := b :: t) (by simp) hpok hd (by simpa using hd1) (by show σ.pos + 1 ≤ _; omega)
    simp only [List.head_cons] at this
    rw [this]
    simp [Item.tok, Item.next, Item.off, Piece.kind, Piece.bytes]
  | value v =>
    obtain ⟨hsp, hm, hv, hcol, hnb⟩ := hok
    simp only at hsp hm
    subst hsp; subst hm
    obtain ⟨b, t, rfl⟩ : ∃ b t, v = b :: t := by
      cases v with
      | nil => simp [valueOK] at hv
      | cons a c => exact ⟨a, c, rfl⟩
    simp only [valueOK, Bool.and_eq_true, Bool.not_eq_true'] at hv
    obtain ⟨hbl, hvok⟩ := hv
    obtain ⟨dm, rfl⟩ : ∃ dm, more = 10 :: dm := by
      cases more with
      | nil => simp at hnb
      | cons a c => simp only [List.head?_cons, Option.some.injEq] at hnb; subst hnb; exact ⟨c, rfl⟩
    simp only [Item.bytes, Piece.bytes, if_true, List.cons_append, List.nil_append] at hdrop
    obtain ⟨hlt, _, hd1⟩ := drop_cons hdrop
    rw [lex_sp .variableString hdrop hcol hbl (fun h c hc => varOK_head hvok h c (by
      cases t with
      | nil => exact absurd h (by rw [varOK_cons] at hvok; intro h'; rw [if_pos h'] at hvok; simp at hvok)
      | cons a r => simpa using hc))]
    have := lexToken_value (s0 := ⟨σ.pos + 1, σ.line, σ.col + 1⟩) (body := b :: t) (by simp) hvok (by simpa using hd1) (by show σ.pos + 1 ≤ _; omega)
    simp only [List.head_cons] at this
    rw [this]
    simp [Item.tok, Item.next, Item.off, Piece.kind, Piece.bytes]
  | colon =>
    obtain ⟨hsp, hm⟩ := hok
    simp only at hsp hm
    subst hsp
    simp only [Item.bytes, Piece.bytes, Bool.false_eq_true, if_false, List.nil_append, List.cons_append] at hdrop
    rw [lex_nosp m hdrop (by decide) (by decide)]
    have := lexToken_colon (s0 := σ) m hm hdrop
    simp only [show ((58 : UInt8).toNat : Int) = 58 from rfl]
    rw [this]
    simp [Item.tok, Item.next, Item.off, Piece.kind, Piece.bytes]
  | pipe =>
    obtain ⟨hsp, hm, hcol, hnb⟩ := hok
    simp only at hsp hm
    subst hsp
    simp only [Item.bytes, Piece.bytes, if_true, List.cons_append, List.nil_append] at hdrop
    obtain ⟨hlt, _, hd1⟩ := drop_cons hdrop
    rw [lex_sp m hdrop hcol (by decide) (fun h => absurd h (by decide))]
    simp only [show ((124 : UInt8).toNat : Int) = 124 from rfl]
    rw [lexToken_pipe (s0 := ⟨σ.pos + 1, σ.line, σ.col + 1⟩) m hm hd1 hnb]
    simp [Item.tok, Item.next, Item.off, Piece.kind, Piece.bytes]
  | pipepipe =>
    obtain ⟨hsp, hm, hcol⟩ := hok
    simp only at hsp hm
    subst hsp
    simp only [Item.bytes, Piece.bytes, if_true, List.cons_append, List.nil_append] at hdrop
    obtain ⟨hlt, _, hd1⟩ := drop_cons hdrop
    rw [lex_sp m hdrop hcol (by decide) (fun h => absurd h (by decide))]
    simp only [show ((124 : UInt8).toNat : Int) = 124 from rfl]
    rw [lexToken_pipepipe (s0 := ⟨σ.pos + 1, σ.line, σ.col + 1⟩) m hm hd1]
    simp [Item.tok, Item.next, Item.off, Piece.kind, Piece.bytes]
  | equals =>
    obtain ⟨hsp, hm, hcol⟩ := hok
    simp only at hsp hm
    subst hsp
    simp only [Item.bytes, Piece.bytes, if_true, List.cons_append, List.nil_append] at hdrop
    obtain ⟨hlt, _, hd1⟩ := drop_cons hdrop
    rw [lex_sp m hdrop hcol (by decide) (fun h => absurd h (by decide))]
    simp only [show ((61 : UInt8).toNat : Int) = 61 from rfl]
    rw [lexToken_equals (s0 := ⟨σ.pos + 1, σ.line, σ.col + 1⟩) m hm hd1]
    simp [Item.tok, Item.next, Item.off, Piece.kind, Piece.bytes]
  | newline =>
    obtain ⟨hsp, hnb⟩ := hok
    simp only at hsp
    subst hsp
    simp only [Item.bytes, Piece.bytes, Bool.false_eq_true, if_false, List.nil_append, List.cons_append] at hdrop
    rw [lex_nosp m hdrop (by decide) (by decide)]
    simp only [show ((10 : UInt8).toNat : Int) = 10 from rfl]
    rw [lexToken_newline m hdrop hnb]
    simp [Item.tok, Item.next, Item.off, Piece.kind, Piece.bytes]
  | indent =>
    obtain ⟨hsp, hcol, d, hnb, hd⟩ := hok
    simp only at hsp
    subst hsp
    obtain ⟨dm, rfl⟩ : ∃ dm, more = d :: dm := by
      cases more with
      | nil => simp at hnb
      | cons a c => simp only [List.head?_cons, Option.some.injEq] at hnb; subst hnb; exact ⟨c, rfl⟩
    simp only [Item.bytes, Piece.bytes, Bool.false_eq_true, if_false, List.nil_append, List.cons_append] at hdrop
    rw [lex_indent m hdrop hcol hd]
    simp [Item.tok, Item.next, Item.off, Piece.kind, Piece.bytes]
  | eof =>
    obtain ⟨hsp, hnb⟩ := hok
    simp only at hsp
    subst hsp
    have hmore : more = [] := by
      cases more with
      | nil => rfl
      | cons a c => simp at hnb
    subst hmore
    simp only [Item.bytes, Piece.bytes, Bool.false_eq_true, if_false, List.nil_append] at hdrop
    have : σ.pos = buf.length := by
      have := congrArg List.length hdrop
      simp at this; omega
    rw [lex_eof m this]
    simp [Item.tok, Item.next, Item.off, Piece.kind, Piece.bytes]

/-! ## A laid-out line is the token script it describes -/

/-- every item of the list is `ItemOK` where it stands; `rest` is what follows the list in the buffer -/
def ItemsOK : St → List Item → Bytes → Prop
  | _, [], _ => True
  | σ, it :: r, rest => ItemOK σ it (layoutBytes r ++ rest).head? ∧ ItemsOK (it.next σ) r rest

theorem itemsOK_append : ∀ (a b : List Item) (σ : St) (rest : Bytes),
    ItemsOK σ (a ++ b) rest ↔ ItemsOK σ a (layoutBytes b ++ rest) ∧ ItemsOK (endSt σ a) b rest := by
  intro a
  induction a with
  | nil => intro b σ rest; simp [ItemsOK, endSt]
  | cons it r ih =>
    intro b σ rest
    simp only [List.cons_append, ItemsOK, endSt, ih, layoutBytes_append, List.append_assoc, and_assoc]

theorem layout_follows {buf : Bytes} : ∀ (its : List Item) (σ : St) (rest : Bytes), ItemsOK σ its rest →
    buf.drop σ.pos = layoutBytes its ++ rest → σ.pos ≤ buf.length →
    Follows genCfg buf σ (script σ its) (endSt σ its) ∧ buf.drop (endSt σ its).pos = rest ∧ (endSt σ its).pos ≤ buf.length := by
  intro its
  induction its with
  | nil => intro σ rest _ hdrop hle; exact ⟨rfl, by simpa [layoutBytes, endSt] using hdrop, hle⟩
  | cons it r ih =>
    intro σ rest hok hdrop hle
    rw [layoutBytes_cons, List.append_assoc] at hdrop
    have hlex := lex_item hok.1 hdrop hle
    obtain ⟨hd', hle'⟩ := drop_append_len hle hdrop
    rw [← Item.next_pos] at hd' hle'
    obtain ⟨h1, h2, h3⟩ := ih (it.next σ) rest hok.2 hd' hle'
    exact ⟨⟨it.next σ, hlex, h1⟩, h2, h3⟩

/-- the text of an item's token is the item's bytes -/
theorem tokText_item {buf : Bytes} {σ : St} {it : Item} {more : Bytes} (hdrop : buf.drop σ.pos = it.bytes ++ more)
    (_hle : σ.pos ≤ buf.length) : tokText buf (it.tok σ) = it.piece.bytes := by
  unfold tokText Item.tok
  simp only
  have : buf.drop (σ.pos + it.off) = it.piece.bytes ++ more := by
    unfold Item.bytes at hdrop
    unfold Item.off
    cases hsp : it.sp with
    | false => rw [hsp] at hdrop; simpa using hdrop
    | true =>
      rw [hsp] at hdrop
      simp only [if_true, List.cons_append, List.nil_append] at hdrop ⊢
      exact (drop_cons hdrop).2.2
  exact slice_of_drop this

theorem tokText_items {buf : Bytes} : ∀ (its : List Item) (σ : St) (rest : Bytes), buf.drop σ.pos = layoutBytes its ++ rest →
    σ.pos ≤ buf.length → (toks σ its).map (tokText buf) = its.map (fun it => it.piece.bytes) := by
  intro its
  induction its with
  | nil => intro σ rest _ _; rfl
  | cons it r ih =>
    intro σ rest hdrop hle
    rw [layoutBytes_cons, List.append_assoc] at hdrop
    obtain ⟨hd', hle'⟩ := drop_append_len hle hdrop
    rw [← Item.next_pos] at hd' hle'
    simp only [toks, List.map_cons]
    rw [tokText_item hdrop hle, ih (it.next σ) rest hd' hle']

/-- positions only: the cursor after a laid-out list stands in front of what follows it -/
theorem layout_drop {buf : Bytes} : ∀ (its : List Item) (σ : St) (rest : Bytes), buf.drop σ.pos = layoutBytes its ++ rest →
    σ.pos ≤ buf.length → buf.drop (endSt σ its).pos = rest ∧ (endSt σ its).pos ≤ buf.length := by
  intro its
  induction its with
  | nil => intro σ rest hdrop hle; exact ⟨by simpa [layoutBytes, endSt] using hdrop, hle⟩
  | cons it r ih =>
    intro σ rest hdrop hle
    rw [layoutBytes_cons, List.append_assoc] at hdrop
    obtain ⟨hd', hle'⟩ := drop_append_len hle hdrop
    rw [← Item.next_pos] at hd' hle'
    exact ih (it.next σ) rest hd' hle'

/-! ### columns and lines along a list of items -/

theorem Item.next_col_pos (σ : St) (it : Item) (h : it.piece ≠ .newline) (hb : it.bytes ≠ []) : (it.next σ).col ≠ 0 := by
  unfold Item.next
  rw [if_neg h]
  have := Item.bytes_length it
  have : it.bytes.length ≠ 0 := by intro h0; exact hb (List.eq_nil_of_length_eq_zero h0)
  simp only
  omega

theorem pathItem_next_col (σ : St) (p : Bytes) : ((pathItem p).next σ).col ≠ 0 := by
  apply Item.next_col_pos
  · simp [pathItem]
  · simp [pathItem, Item.bytes]

theorem endSt_paths_col (ps : List Bytes) : ∀ σ : St, σ.col ≠ 0 → (endSt σ (ps.map pathItem)).col ≠ 0 := by
  induction ps with
  | nil => intro σ h; exact h
  | cons p r ih => intro σ _; exact ih _ (pathItem_next_col σ p)

theorem layoutBytes_paths_head (ps : List Bytes) (rest : Bytes) (hne : ps ≠ []) : (layoutBytes (ps.map pathItem) ++ rest).head? = some 32 := by
  cases ps with
  | nil => exact absurd rfl hne
  | cons p r => simp [layoutBytes, pathItem, Item.bytes]

/-- a list of paths, each with a blank in front, followed by a stop byte -/
theorem itemsOK_paths : ∀ (ps : List Bytes) (σ : St) (rest : Bytes), (∀ p ∈ ps, pathTextOK p = true) → σ.col ≠ 0 →
    (∃ d, rest.head? = some d ∧ isStopPath d.toNat = true) → ItemsOK σ (ps.map pathItem) rest := by
  intro ps
  induction ps with
  | nil => intro σ rest _ _ _; trivial
  | cons p r ih =>
    intro σ rest hall hcol hrest
    refine ⟨⟨rfl, rfl, hall p List.mem_cons_self, hcol, ?_⟩, ih _ rest (fun q hq => hall q (List.mem_cons_of_mem _ hq)) (pathItem_next_col σ p) hrest⟩
    cases r with
    | nil => simpa [layoutBytes] using hrest
    | cons q r' => exact ⟨32, layoutBytes_paths_head (q :: r') rest (by simp), by decide⟩

/-! ## Blocks of indented bindings -/

theorem identB_32 : identB 32 = false := by decide

/-- the `BindingLine` (tokens) of a printed binding line that starts at cursor `σ` -/
def bindLineAt (σ : St) (b : Binding) : BindingLine :=
  let i0 : Item := ⟨.none, false, .indent⟩
  let i1 : Item := ⟨.identifierSpecific, false, .word b.name⟩
  let i2 : Item := ⟨.identifierSpecific, true, .equals⟩
  let i3 : Item := ⟨.variableString, true, .value b.value⟩
  let i4 : Item := ⟨.none, false, .newline⟩
  let σ1 := i0.next σ
  let σ2 := i1.next σ1
  let σ3 := i2.next σ2
  let σ4 := i3.next σ3
  ⟨i0.tok σ, i1.tok σ1, i2.tok σ2, i3.tok σ3, i4.tok σ4⟩

def bindLines : St → List Binding → List BindingLine
  | _, [] => []
  | σ, b :: r => bindLineAt σ b :: bindLines (endSt σ (bindingLine b)) r

theorem bindLineAt_wf (σ : St) (b : Binding) : (bindLineAt σ b).WF = true := by
  simp [BindingLine.WF, bindLineAt, Item.tok, Piece.kind, wordKind]

theorem bindLines_wf : ∀ (ps : List Binding) (σ : St), ∀ b ∈ bindLines σ ps, b.WF = true := by
  intro ps
  induction ps with
  | nil => intro σ b hb; cases hb
  | cons p r ih =>
    intro σ b hb
    simp only [bindLines, List.mem_cons] at hb
    rcases hb with rfl | hb
    · exact bindLineAt_wf σ p
    · exact ih _ b hb

theorem bindLines_length : ∀ (ps : List Binding) (σ : St), (bindLines σ ps).length = ps.length := by
  intro ps
  induction ps with
  | nil => intro σ; rfl
  | cons p r ih => intro σ; simp [bindLines, ih]

/-- the script of a block of binding lines followed by the item `after` (asked for in mode None) is the
`bindsScript` of the shape theorems, behind the first look-ahead token -/
theorem script_bindings (after : Item) (ha : after.mode = .none) : ∀ (ps : List Binding) (σ : St),
    script σ (ps.flatMap bindingLine ++ [after]) =
      (.none, headTok (bindLines σ ps) (after.tok (endSt σ (ps.flatMap bindingLine)))) ::
        bindsScript (bindLines σ ps) (after.tok (endSt σ (ps.flatMap bindingLine))) := by
  intro ps
  induction ps with
  | nil => intro σ; simp [script, bindLines, headTok, bindsScript, endSt, ha]
  | cons p r ih =>
    intro σ
    have e : (p :: r).flatMap bindingLine ++ [after] = bindingLine p ++ (r.flatMap bindingLine ++ [after]) := by simp
    rw [e, script_append, ih (endSt σ (bindingLine p))]
    have e2 : endSt σ ((p :: r).flatMap bindingLine) = endSt (endSt σ (bindingLine p)) (r.flatMap bindingLine) := by
      simp [endSt_append]
    rw [e2]
    simp [script, bindingLine, bindLines, bindLineAt, headTok, bindsScript, endSt]

theorem endSt_bindingLine_col (σ : St) (b : Binding) : (endSt σ (bindingLine b)).col = 0 := by
  simp [endSt, bindingLine, Item.next]

theorem endSt_bindings_col : ∀ (ps : List Binding) (σ : St), σ.col = 0 → (endSt σ (ps.flatMap bindingLine)).col = 0 := by
  intro ps
  induction ps with
  | nil => intro σ h; exact h
  | cons p r ih =>
    intro σ _
    simp only [List.flatMap_cons, endSt_append]
    exact ih _ (endSt_bindingLine_col σ p)

theorem nameOK_iff {n : Bytes} : nameOK n = true ↔ n ≠ [] ∧ n.all identB = true := by
  simp [nameOK]

theorem name_head_not_blank {n : Bytes} (h : nameOK n = true) (rest : Bytes) :
    ∃ d, (n ++ rest).head? = some d ∧ isBlank d.toNat = false ∧ d.toNat ≠ 13 := by
  obtain ⟨hne, hall⟩ := nameOK_iff.1 h
  cases n with
  | nil => exact absurd rfl hne
  | cons b t =>
    simp only [List.all_cons, Bool.and_eq_true] at hall
    obtain ⟨_, h13, _, _, _, _, _, hbl⟩ := identB_plain b hall.1
    exact ⟨b, rfl, hbl, h13⟩

theorem itemsOK_bindingLine (σ : St) (b : Binding) (rest : Bytes) (hcol : σ.col = 0) (hb : bindingOK b = true)
    (hrest : rest.head? ≠ some 13) : ItemsOK σ (bindingLine b) rest := by
  simp only [bindingOK, Bool.and_eq_true] at hb
  obtain ⟨hn, hv⟩ := hb
  obtain ⟨hne, hall⟩ := nameOK_iff.1 hn
  obtain ⟨d, hd, hbl, _⟩ := name_head_not_blank hn ([32, 61] ++ 32 :: b.value ++ [10] ++ rest)
  refine ⟨⟨rfl, hcol, d, ?_, hbl⟩, ⟨hne, hall, ?_, Or.inr rfl, fun h => by cases h⟩, ⟨rfl, Or.inr rfl, ?_⟩, ⟨rfl, rfl, hv, ?_, ?_⟩,
    ⟨rfl, ?_⟩, trivial⟩
  · simpa [layoutBytes, Item.bytes, Piece.bytes] using hd
  · intro d' hd'
    simp [layoutBytes, Item.bytes, Piece.bytes] at hd'
    subst hd'; exact identB_32
  · simp [Item.next, Item.off, Piece.bytes]
  · simp [Item.next, Item.off, Piece.bytes]
  · simp [layoutBytes, Item.bytes, Piece.bytes]
  · simpa [layoutBytes] using hrest

theorem layoutBytes_bindings_head (ps : List Binding) (rest : Bytes) (hne : ps ≠ []) :
    (layoutBytes (ps.flatMap bindingLine) ++ rest).head? = some 32 := by
  cases ps with
  | nil => exact absurd rfl hne
  | cons p r => simp [layoutBytes, bindingLine, Item.bytes, Piece.bytes]

theorem itemsOK_bindings : ∀ (ps : List Binding) (σ : St) (rest : Bytes), σ.col = 0 → (∀ b ∈ ps, bindingOK b = true) →
    rest.head? ≠ some 13 → ItemsOK σ (ps.flatMap bindingLine) rest := by
  intro ps
  induction ps with
  | nil => intro σ rest _ _ _; trivial
  | cons p r ih =>
    intro σ rest hcol hall hrest
    simp only [List.flatMap_cons]
    rw [itemsOK_append]
    refine ⟨itemsOK_bindingLine σ p _ hcol (hall p List.mem_cons_self) ?_,
      ih _ rest (endSt_bindingLine_col σ p) (fun b hb => hall b (List.mem_cons_of_mem _ hb)) hrest⟩
    cases r with
    | nil => simpa [layoutBytes] using hrest
    | cons q r' => rw [layoutBytes_bindings_head (q :: r') rest (by simp)]; simp

/-- the texts of the binding tokens are the bindings -/
theorem bindLines_text {buf : Bytes} : ∀ (ps : List Binding) (σ : St) (rest : Bytes),
    buf.drop σ.pos = layoutBytes (ps.flatMap bindingLine) ++ rest → σ.pos ≤ buf.length →
    (bindLines σ ps).map (fun b => (⟨tokText buf b.name, tokText buf b.value⟩ : Binding)) = ps := by
  intro ps
  induction ps with
  | nil => intro σ rest _ _; rfl
  | cons p r ih =>
    intro σ rest hdrop hle
    simp only [List.flatMap_cons, layoutBytes_append, List.append_assoc] at hdrop
    have htx := tokText_items (bindingLine p) σ _ hdrop hle
    obtain ⟨hd', hle'⟩ := (layout_drop (bindingLine p) σ _ hdrop hle)
    simp only [bindLines, List.map_cons]
    rw [ih _ rest hd' hle']
    simp only [toks, bindingLine, List.map_cons, List.map_nil, Piece.bytes, List.cons.injEq, and_true] at htx
    obtain ⟨_, h1, _, h3, _⟩ := htx
    simp only [bindLineAt]
    rw [h1, h3]

/-! ## The first word of a declaration -/

theorem kwText_ok : nameOK (kwText .KWBuild) = true ∧ nameOK (kwText .KWRule) = true ∧ nameOK (kwText .KWPool) = true ∧
    nameOK (kwText .KWDefault) = true ∧ nameOK (kwText .KWInclude) = true ∧ nameOK (kwText .KWSubninja) = true := by decide

theorem kwText_kind : wordKind .none (kwText .KWBuild) = .KWBuild ∧ wordKind .none (kwText .KWRule) = .KWRule ∧
    wordKind .none (kwText .KWPool) = .KWPool ∧ wordKind .none (kwText .KWDefault) = .KWDefault ∧
    wordKind .none (kwText .KWInclude) = .KWInclude ∧ wordKind .none (kwText .KWSubninja) = .KWSubninja := by decide

theorem wordKind_not_keyword {n : Bytes} (h : isKeywordText n = false) : wordKind .none n = .Identifier := by
  unfold wordKind
  rw [if_neg (by decide)]
  have : genCfg.keywords.find? (fun e => decide (e.literal = n)) = none := by
    rw [List.find?_eq_none]
    intro e he
    unfold isKeywordText at h
    rw [List.any_eq_false] at h
    have := h e he
    simpa using this
  rw [this]
  decide

/-- the word a declaration starts with -/
def headWord : Decl → Bytes
  | .binding b => b.name
  | .rule _ _ => kwText .KWRule
  | .pool _ _ => kwText .KWPool
  | .build _ _ _ _ _ _ => kwText .KWBuild
  | .default _ => kwText .KWDefault
  | .include _ => kwText .KWInclude
  | .subninja _ => kwText .KWSubninja
  | .perr => []

/-- and the kind the lexer gives it in mode None at the start of a line -/
def headKind : Decl → Kind
  | .binding _ => .Identifier
  | .rule _ _ => .KWRule
  | .pool _ _ => .KWPool
  | .build _ _ _ _ _ _ => .KWBuild
  | .default _ => .KWDefault
  | .include _ => .KWInclude
  | .subninja _ => .KWSubninja
  | .perr => .Identifier

def tailItems (d : Decl) : List Item := (declItems d).tail

def wordItem (w : Bytes) : Item := ⟨.none, false, .word w⟩

theorem declItems_cons (d : Decl) (h : declOK d = true) : declItems d = wordItem (headWord d) :: tailItems d := by
  cases d <;> first | rfl | (simp [declOK] at h)

theorem headWord_ok (d : Decl) (h : declOK d = true) : nameOK (headWord d) = true := by
  cases d with
  | binding b => simp only [declOK, bindingOK, Bool.and_eq_true] at h; exact h.1.1
  | rule => exact kwText_ok.2.1
  | pool => exact kwText_ok.2.2.1
  | build => exact kwText_ok.1
  | default => exact kwText_ok.2.2.2.1
  | «include» => exact kwText_ok.2.2.2.2.1
  | subninja => exact kwText_ok.2.2.2.2.2
  | perr => simp [declOK] at h

theorem headKind_eq (d : Decl) (h : declOK d = true) : wordKind .none (headWord d) = headKind d := by
  cases d with
  | binding b =>
    simp only [declOK, Bool.and_eq_true, Bool.not_eq_true'] at h
    exact wordKind_not_keyword h.2
  | rule => exact kwText_kind.2.1
  | pool => exact kwText_kind.2.2.1
  | build => exact kwText_kind.1
  | default => exact kwText_kind.2.2.2.1
  | «include» => exact kwText_kind.2.2.2.2.1
  | subninja => exact kwText_kind.2.2.2.2.2
  | perr => simp [declOK] at h

/-- behind its first word every declaration continues with a blank -/
theorem tail_head (d : Decl) (h : declOK d = true) (rest : Bytes) : (layoutBytes (tailItems d) ++ rest).head? = some 32 := by
  cases d with
  | binding b => simp [tailItems, declItems, layoutBytes, Item.bytes]
  | rule n ps => simp [tailItems, declItems, nameLine, layoutBytes, Item.bytes]
  | pool n ps => simp [tailItems, declItems, nameLine, layoutBytes, Item.bytes]
  | build r outs ins nExp nImp ps =>
    simp only [declOK, Bool.and_eq_true, Bool.not_eq_true', List.isEmpty_eq_false_iff] at h
    obtain ⟨o, os, ho⟩ : ∃ o os, outs = o :: os := by
      cases outs with
      | nil => exact absurd rfl h.1.1.1.1.2
      | cons a b => exact ⟨a, b, rfl⟩
    subst ho
    simp [tailItems, declItems, layoutBytes, pathItem, Item.bytes]
  | default names =>
    simp only [declOK, Bool.and_eq_true, Bool.not_eq_true', List.isEmpty_eq_false_iff] at h
    obtain ⟨o, os, ho⟩ : ∃ o os, names = o :: os := by
      cases names with
      | nil => exact absurd rfl h.1
      | cons a b => exact ⟨a, b, rfl⟩
    subst ho
    simp [tailItems, declItems, layoutBytes, pathItem, Item.bytes]
  | «include» p => simp [tailItems, declItems, layoutBytes, pathItem, Item.bytes]
  | subninja p => simp [tailItems, declItems, layoutBytes, pathItem, Item.bytes]
  | perr => simp [declOK] at h

/-- the look-ahead item in front of the remaining declarations -/
def headItem : List Decl → Item
  | [] => ⟨.none, false, .eof⟩
  | d :: _ => wordItem (headWord d)

/-- the rendered remaining declarations behind that item -/
def afterHead : List Decl → Bytes
  | [] => []
  | d :: ds => layoutBytes (tailItems d) ++ render ds

theorem printable_cons {d : Decl} {ds : List Decl} : Printable (d :: ds) = true ↔ declOK d = true ∧ Printable ds = true := by
  simp [Printable]

theorem render_cons (d : Decl) (ds : List Decl) : render (d :: ds) = renderDecl d ++ render ds := by
  simp [render]

theorem render_head (ds : List Decl) (h : Printable ds = true) : render ds = (headItem ds).bytes ++ afterHead ds := by
  cases ds with
  | nil => rfl
  | cons d r =>
    rw [render_cons, renderDecl, declItems_cons d (printable_cons.1 h).1, layoutBytes_cons, List.append_assoc]
    rfl

theorem headItem_mode (ds : List Decl) : (headItem ds).mode = .none := by
  cases ds <;> rfl

theorem headItem_ok (σ : St) (ds : List Decl) (h : Printable ds = true) : ItemOK σ (headItem ds) (afterHead ds).head? := by
  cases ds with
  | nil => exact ⟨rfl, rfl⟩
  | cons d r =>
    have hd := (printable_cons.1 h).1
    obtain ⟨hne, hall⟩ := nameOK_iff.1 (headWord_ok d hd)
    refine ⟨hne, hall, ?_, Or.inl rfl, fun h' => by cases h'⟩
    intro c hc
    rw [afterHead, tail_head d hd] at hc
    cases hc; exact identB_32

/-- the kind of the look-ahead token -/
def headItemKind : List Decl → Kind
  | [] => .EndOfFile
  | d :: _ => headKind d

theorem headItem_kind (σ : St) (ds : List Decl) (h : Printable ds = true) : ((headItem ds).tok σ).kind = headItemKind ds := by
  cases ds with
  | nil => rfl
  | cons d r => exact headKind_eq d (printable_cons.1 h).1

theorem headItemKind_plain (ds : List Decl) : headItemKind ds ≠ .Comment ∧ headItemKind ds ≠ .Indentation := by
  cases ds with
  | nil => exact ⟨by decide, by decide⟩
  | cons d r => cases d <;> exact ⟨by simp [headItemKind, headKind], by simp [headItemKind, headKind]⟩

theorem render_head13 (ds : List Decl) (h : Printable ds = true) : (render ds).head? ≠ some 13 := by
  cases ds with
  | nil => simp [render]
  | cons d r =>
    have hd := (printable_cons.1 h).1
    rw [render_cons, renderDecl, declItems_cons d hd, layoutBytes_cons]
    obtain ⟨c, hc, _, h13⟩ := name_head_not_blank (headWord_ok d hd) (layoutBytes (tailItems d) ++ render r)
    simp only [wordItem, Item.bytes, Bool.false_eq_true, if_false, List.nil_append, Piece.bytes, List.append_assoc]
    rw [hc]
    intro h'
    cases h'
    simp at h13

/-! ## The parser at the start of a printed declaration -/

/-- the parser is about to enter `parseDecl` with the first word of `render ds` as look-ahead; `σ0` is the cursor
at which that word starts (column 0) -/
structure Ctx (buf : Bytes) (s : PSt) (σ0 : St) (ds : List Decl) : Prop where
  drop : buf.drop σ0.pos = render ds
  le : σ0.pos ≤ buf.length
  col : σ0.col = 0
  tok : s.tok = (headItem ds).tok σ0
  lx : s.lx = (headItem ds).next σ0
  mode : s.mode = .none

theorem endSt_snoc_nl (σ : St) (its : List Item) (m : LexMode) : (endSt σ (its ++ [⟨m, false, .newline⟩])).col = 0 := by
  rw [endSt_append]; simp [endSt, Item.next]

/-- a printed declaration ends with a newline: the cursor behind it is at column 0 -/
theorem tail_endcol (d : Decl) (h : declOK d = true) (σ : St) : (endSt σ (tailItems d)).col = 0 := by
  cases d with
  | binding b => simp [tailItems, declItems, endSt, Item.next]
  | rule n ps =>
    have : tailItems (.rule n ps) = [⟨.identifierSpecific, true, .word n⟩, ⟨.none, false, .newline⟩] ++ ps.flatMap bindingLine := rfl
    rw [this, endSt_append]
    exact endSt_bindings_col ps _ (by simp [endSt, Item.next])
  | pool n ps =>
    have : tailItems (.pool n ps) = [⟨.identifierSpecific, true, .word n⟩, ⟨.none, false, .newline⟩] ++ ps.flatMap bindingLine := rfl
    rw [this, endSt_append]
    exact endSt_bindings_col ps _ (by simp [endSt, Item.next])
  | build r outs ins nExp nImp ps =>
    have : tailItems (.build r outs ins nExp nImp ps) = (outs.map pathItem ++ ⟨.pathString, false, .colon⟩ ::
      ⟨.identifierSpecific, true, .word r⟩ :: ((ins.take nExp).map pathItem ++ (optSec .pipe ((ins.drop nExp).take nImp) ++
        optSec .pipepipe (ins.drop (nExp + nImp))))) ++ [⟨.pathString, false, .newline⟩] ++ ps.flatMap bindingLine := by
      simp [tailItems, declItems]
    rw [this, endSt_append]
    exact endSt_bindings_col ps _ (endSt_snoc_nl _ _ _)
  | default names =>
    have : tailItems (.default names) = names.map pathItem ++ [⟨.pathString, false, .newline⟩] := rfl
    rw [this]; exact endSt_snoc_nl _ _ _
  | «include» p => simp [tailItems, declItems, endSt, Item.next]
  | subninja p => simp [tailItems, declItems, endSt, Item.next]
  | perr => simp [declOK] at h

/-- **From the layout to the token script**: at the start of a printed declaration whose remaining items are
`ItemsOK`, the lexer follows the script of those items and of the first word of what comes next. -/
theorem printed_follows {buf : Bytes} {d : Decl} {ds : List Decl} {s : PSt} {σ0 : St} (hd : declOK d = true)
    (hds : Printable ds = true) (c : Ctx buf s σ0 (d :: ds)) (hok : ItemsOK s.lx (tailItems d) (render ds)) :
    Follows genCfg buf s.lx (script s.lx (tailItems d ++ [headItem ds])) ((headItem ds).next (endSt s.lx (tailItems d))) ∧
    buf.drop (endSt s.lx (tailItems d)).pos = render ds ∧ (endSt s.lx (tailItems d)).pos ≤ buf.length ∧
    buf.drop s.lx.pos = layoutBytes (tailItems d) ++ render ds ∧ s.lx.pos ≤ buf.length ∧ s.lx.col ≠ 0 ∧
    tokText buf s.tok = headWord d ∧ s.tok.kind = headKind d := by
  have hdrop0 : buf.drop σ0.pos = (wordItem (headWord d)).bytes ++ (layoutBytes (tailItems d) ++ render ds) := by
    rw [c.drop, render_cons, renderDecl, declItems_cons d hd, layoutBytes_cons, List.append_assoc]
  obtain ⟨hda, hla⟩ := drop_append_len c.le hdrop0
  have hlx : s.lx = (wordItem (headWord d)).next σ0 := c.lx
  rw [← Item.next_pos, ← hlx] at hda hla
  obtain ⟨hne, _⟩ := nameOK_iff.1 (headWord_ok d hd)
  have hcol : s.lx.col ≠ 0 := by
    rw [hlx]
    exact Item.next_col_pos σ0 _ (by simp [wordItem]) (by simpa [wordItem, Item.bytes, Piece.bytes] using hne)
  have htext : tokText buf s.tok = headWord d := by
    rw [c.tok]; exact tokText_item hdrop0 c.le
  have hkind : s.tok.kind = headKind d := by
    rw [c.tok]; exact headKind_eq d hd
  have hrh := render_head ds hds
  have hok2 : ItemsOK s.lx (tailItems d ++ [headItem ds]) (afterHead ds) := by
    rw [itemsOK_append]
    refine ⟨by simpa [layoutBytes, ← hrh] using hok, ?_, trivial⟩
    simpa [layoutBytes] using headItem_ok _ ds hds
  have hdrop2 : buf.drop s.lx.pos = layoutBytes (tailItems d ++ [headItem ds]) ++ afterHead ds := by
    rw [hda, layoutBytes_append, List.append_assoc]
    congr 1
    simpa [layoutBytes] using hrh
  obtain ⟨hf, _, _⟩ := layout_follows _ s.lx _ hok2 hdrop2 hla
  rw [endSt_append] at hf
  obtain ⟨hd1, hl1⟩ := layout_drop (tailItems d) s.lx _ hda hla
  exact ⟨hf, hd1, hl1, hda, hla, hcol, htext, hkind⟩

/-- what the per-declaration lemmas deliver -/
def DeclDone (buf : Bytes) (d : Decl) (ds : List Decl) (s : PSt) : Prop :=
  ∃ s' σ1 new, parseDecl genCfg buf s = .ok s' ∧ Ctx buf s' σ1 ds ∧ s'.evs = new ++ s.evs ∧ (∀ m t, Ev.error m t ∉ new) ∧
    ∀ A : List Decl, new.reverse.foldl (declStep buf) ⟨A, none⟩ = ⟨d :: A, none⟩

theorem render_nl_ok (ds : List Decl) (h : Printable ds = true) (σ : St) (m : LexMode) :
    ItemsOK σ [⟨m, false, .newline⟩] (render ds) :=
  ⟨⟨rfl, by simpa [layoutBytes] using render_head13 ds h⟩, trivial⟩

/-- (b) top-level `name = value` -/
theorem printed_binding {buf : Bytes} (b : Binding) (ds : List Decl) (s : PSt) (σ0 : St) (hd : declOK (.binding b) = true)
    (hds : Printable ds = true) (c : Ctx buf s σ0 (.binding b :: ds)) : DeclDone buf (.binding b) ds s := by
  have hb : bindingOK b = true := by simp only [declOK, Bool.and_eq_true] at hd; exact hd.1
  simp only [bindingOK, Bool.and_eq_true] at hb
  have hcol0 : s.lx.col ≠ 0 := by
    have hlx : s.lx = (wordItem b.name).next σ0 := c.lx
    obtain ⟨hne, _⟩ := nameOK_iff.1 hb.1
    rw [hlx]
    exact Item.next_col_pos σ0 _ (by simp [wordItem]) (by simpa [wordItem, Item.bytes, Piece.bytes] using hne)
  have htail : tailItems (.binding b) = [⟨.none, true, .equals⟩, ⟨.variableString, true, .value b.value⟩, ⟨.none, false, .newline⟩] := rfl
  have hok : ItemsOK s.lx (tailItems (.binding b)) (render ds) := by
    rw [htail]
    refine ⟨⟨rfl, Or.inl rfl, hcol0⟩, ⟨rfl, rfl, hb.2, by simp [Item.next, Item.off, Piece.bytes], by simp [layoutBytes, Item.bytes, Piece.bytes]⟩,
      (render_nl_ok ds hds _ _).1, trivial⟩
  obtain ⟨hf, hd1, hl1, hda, hla, _, htext, hkind⟩ := printed_follows hd hds c hok
  rw [htail] at hf hd1 hl1 hda
  have htx := tokText_items _ s.lx _ hda hla
  simp only [script, List.cons_append, List.nil_append, endSt, headItem_mode] at hf
  obtain ⟨s', hp, hev, htok, hlx, hmode⟩ := parseDecl_binding_run buf s _ _ _ _ _ hkind c.mode rfl rfl rfl
    (by rw [headItem_kind _ ds hds]; exact (headItemKind_plain ds).1) hf
  refine ⟨s', _, [.binding s.tok _], hp, ⟨hd1, hl1, tail_endcol _ hd _, htok, hlx, hmode⟩, hev, by simp, ?_⟩
  intro A
  simp only [toks, List.map_cons, List.map_nil, Piece.bytes, List.cons.injEq, and_true] at htx
  simp only [List.reverse_cons, List.reverse_nil, List.nil_append, List.foldl_cons, List.foldl_nil, declStep]
  rw [htext, htx.2.1]
  cases b; rfl

/-- (b) `include path` / `subninja path` -/
theorem printed_include {buf : Bytes} (isInc : Bool) (p : Bytes) (ds : List Decl) (s : PSt) (σ0 : St)
    (hd : declOK (if isInc then .include p else .subninja p) = true) (hds : Printable ds = true)
    (c : Ctx buf s σ0 ((if isInc then Decl.include p else .subninja p) :: ds)) :
    DeclDone buf (if isInc then .include p else .subninja p) ds s := by
  have hp : pathTextOK p = true := by cases isInc <;> simpa [declOK] using hd
  have htail : tailItems (if isInc then Decl.include p else .subninja p) = [pathItem p, ⟨.none, false, .newline⟩] := by
    cases isInc <;> rfl
  have hkd : headKind (if isInc then Decl.include p else .subninja p) = if isInc then .KWInclude else .KWSubninja := by
    cases isInc <;> rfl
  have hcol0 : s.lx.col ≠ 0 := by
    have hlx : s.lx = (wordItem (headWord (if isInc then Decl.include p else .subninja p))).next σ0 := c.lx
    obtain ⟨hne, _⟩ := nameOK_iff.1 (headWord_ok _ hd)
    rw [hlx]
    exact Item.next_col_pos σ0 _ (by simp [wordItem]) (by simpa [wordItem, Item.bytes, Piece.bytes] using hne)
  have hok : ItemsOK s.lx (tailItems (if isInc then Decl.include p else .subninja p)) (render ds) := by
    rw [htail]
    exact ⟨⟨rfl, rfl, hp, hcol0, 10, by simp [layoutBytes, Item.bytes, Piece.bytes], by decide⟩, (render_nl_ok ds hds _ _).1, trivial⟩
  obtain ⟨hf, hd1, hl1, hda, hla, _, _, hkind⟩ := printed_follows hd hds c hok
  have hc1 := tail_endcol _ hd s.lx
  rw [htail] at hf hd1 hl1 hda hc1
  rw [hkd] at hkind
  have htx := tokText_items _ s.lx _ hda hla
  simp only [script, List.cons_append, List.nil_append, endSt, headItem_mode, pathItem] at hf
  obtain ⟨s', hpd, hev, htok, hlx, hmode⟩ := parseDecl_include_run buf s _ _ _ _
    (by cases isInc <;> simp at hkind <;> simp [hkind]) rfl rfl
    (by rw [headItem_kind _ ds hds]; exact (headItemKind_plain ds).1) hf
  refine ⟨s', _, [.include _ _], hpd, ⟨hd1, hl1, hc1, htok, hlx, hmode⟩, hev, by simp, ?_⟩
  intro A
  simp only [toks, List.map_cons, List.map_nil, Piece.bytes, pathItem, List.cons.injEq, and_true] at htx
  simp only [List.reverse_cons, List.reverse_nil, List.nil_append, List.foldl_cons, List.foldl_nil]
  cases isInc with
  | true =>
    simp only [if_true] at hkind
    simp only [hkind, decide_true, declStep, if_true]
    rw [htx.1]
  | false =>
    simp only [Bool.false_eq_true, if_false] at hkind
    simp only [hkind, declStep, show decide (Kind.KWSubninja = Kind.KWInclude) = false from by decide]
    rw [htx.1]
    rfl

/-! ### more bookkeeping: columns, lengths, kinds, optional sections, folds -/

theorem Item.next_col_ge (σ : St) (it : Item) (h : it.piece ≠ .newline) (hc : σ.col ≠ 0) : (it.next σ).col ≠ 0 := by
  unfold Item.next; rw [if_neg h]; simp only; omega

theorem endSt_col_pos : ∀ (its : List Item) (σ : St), (∀ it ∈ its, it.piece ≠ .newline) → σ.col ≠ 0 → (endSt σ its).col ≠ 0 := by
  intro its
  induction its with
  | nil => intro σ _ h; exact h
  | cons it r ih =>
    intro σ hall hc
    exact ih _ (fun x hx => hall x (List.mem_cons_of_mem _ hx)) (Item.next_col_ge σ it (hall it List.mem_cons_self) hc)

theorem toks_length : ∀ (its : List Item) (σ : St), (toks σ its).length = its.length := by
  intro its
  induction its with
  | nil => intro σ; rfl
  | cons it r ih => intro σ; simp [toks, ih]

theorem toks_paths_kind : ∀ (ps : List Bytes) (σ : St), ∀ t ∈ toks σ (ps.map pathItem), t.kind = .String := by
  intro ps
  induction ps with
  | nil => intro σ t h; cases h
  | cons p r ih =>
    intro σ t h
    simp only [List.map_cons, toks, List.mem_cons] at h
    rcases h with rfl | h
    · rfl
    · exact ih _ t h

theorem paths_no_newline (ps : List Bytes) : ∀ it ∈ ps.map pathItem, it.piece ≠ .newline := by
  intro it h
  simp only [List.mem_map] at h
  obtain ⟨p, _, rfl⟩ := h
  simp [pathItem]

theorem paths_mode (ps : List Bytes) : ∀ it ∈ ps.map pathItem, it.mode = .pathString := by
  intro it h
  simp only [List.mem_map] at h
  obtain ⟨p, _, rfl⟩ := h
  rfl

theorem paths_pieces (ps : List Bytes) : (ps.map pathItem).map (fun it => it.piece.bytes) = ps := by
  induction ps with
  | nil => rfl
  | cons p r ih =>
    simp only [List.map_cons]
    rw [ih]
    rfl

/-- the `Option (Token × List Token)` of a printed optional section -/
def optTok (mark : Piece) (σ : St) (l : List Bytes) : Option (Token × List Token) :=
  if l.isEmpty then none
  else some ((⟨.pathString, true, mark⟩ : Item).tok σ, toks ((⟨.pathString, true, mark⟩ : Item).next σ) (l.map pathItem))

theorem toks_optSec (mark : Piece) (σ : St) (l : List Bytes) : toks σ (optSec mark l) = optToks (optTok mark σ l) := by
  unfold optSec optTok
  cases l with
  | nil => rfl
  | cons a b => simp [toks, optToks]

theorem optSec_mode (mark : Piece) (l : List Bytes) : ∀ it ∈ optSec mark l, it.mode = .pathString := by
  intro it h
  unfold optSec at h
  split at h
  · cases h
  · simp only [List.mem_cons] at h
    rcases h with rfl | h
    · rfl
    · exact paths_mode l it h

theorem optSec_no_newline (mark : Piece) (hm : mark ≠ .newline) (l : List Bytes) : ∀ it ∈ optSec mark l, it.piece ≠ .newline := by
  intro it h
  unfold optSec at h
  split at h
  · cases h
  · simp only [List.mem_cons] at h
    rcases h with rfl | h
    · exact hm
    · exact paths_no_newline l it h

/-- items that all have a blank in front: the bytes start with that blank -/
theorem sp_head : ∀ (its : List Item) (rest : Bytes), (∀ it ∈ its, it.sp = true) →
    (layoutBytes its ++ rest).head? = if its.isEmpty then rest.head? else some 32 := by
  intro its rest h
  cases its with
  | nil => simp [layoutBytes]
  | cons it r =>
    have := h it List.mem_cons_self
    simp [layoutBytes, Item.bytes, this]

theorem optSec_sp (mark : Piece) (l : List Bytes) : ∀ it ∈ optSec mark l, it.sp = true := by
  intro it h
  unfold optSec at h
  split at h
  · cases h
  · simp only [List.mem_cons, List.mem_map] at h
    rcases h with rfl | ⟨p, _, rfl⟩ <;> rfl

theorem paths_sp (ps : List Bytes) : ∀ it ∈ ps.map pathItem, it.sp = true := by
  intro it h
  simp only [List.mem_map] at h
  obtain ⟨p, _, rfl⟩ := h
  rfl

theorem split_drop {buf : Bytes} (a b : List Item) (σ : St) (rest : Bytes) (hdrop : buf.drop σ.pos = layoutBytes (a ++ b) ++ rest)
    (hle : σ.pos ≤ buf.length) :
    buf.drop σ.pos = layoutBytes a ++ (layoutBytes b ++ rest) ∧ buf.drop (endSt σ a).pos = layoutBytes b ++ rest ∧
      (endSt σ a).pos ≤ buf.length := by
  rw [layoutBytes_append, List.append_assoc] at hdrop
  exact ⟨hdrop, layout_drop a σ _ hdrop hle⟩

theorem take_drop_split (l : List Bytes) (a b : Nat) : l.take a ++ ((l.drop a).take b ++ l.drop (a + b)) = l := by
  have : l.drop (a + b) = (l.drop a).drop b := by rw [List.drop_drop]
  rw [this, List.take_append_drop, List.take_append_drop]

/-! the loader-side fold over the callbacks of one parameterized declaration -/

def txt (buf : Bytes) (b : BindingLine) : Binding := ⟨tokText buf b.name, tokText buf b.value⟩

theorem fold_decl_bindings (buf : Bytes) (k : DeclKind) : ∀ (bs : List BindingLine) (A : List Decl) (g : Decl),
    (bs.map fun b => Ev.declBinding k b.name b.value).foldl (declStep buf) ⟨A, some g⟩ =
      ⟨A, some ((bs.map (txt buf)).foldl addParam g)⟩ := by
  intro bs
  induction bs with
  | nil => intro A g; rfl
  | cons b r ih => intro A g; simp only [List.map_cons, List.foldl_cons, declStep]; exact ih A _

theorem foldl_addParam_rule (n : Bytes) : ∀ (xs acc : List Binding), xs.foldl addParam (.rule n acc) = .rule n (xs.reverse ++ acc) := by
  intro xs
  induction xs with
  | nil => intro acc; rfl
  | cons x r ih => intro acc; simp [List.foldl_cons, addParam, ih]

theorem foldl_addParam_pool (n : Bytes) : ∀ (xs acc : List Binding), xs.foldl addParam (.pool n acc) = .pool n (xs.reverse ++ acc) := by
  intro xs
  induction xs with
  | nil => intro acc; rfl
  | cons x r ih => intro acc; simp [List.foldl_cons, addParam, ih]

theorem foldl_addParam_build (r : Bytes) (o i : List Bytes) (a c : Nat) : ∀ (xs acc : List Binding),
    xs.foldl addParam (.build r o i a c acc) = .build r o i a c (xs.reverse ++ acc) := by
  intro xs
  induction xs with
  | nil => intro acc; rfl
  | cons x t ih => intro acc; simp [List.foldl_cons, addParam, ih]

theorem identB_10 : identB 10 = false := by decide

/-- (b) `default a b …` -/
theorem printed_default {buf : Bytes} (names : List Bytes) (ds : List Decl) (s : PSt) (σ0 : St) (hd : declOK (.default names) = true)
    (hds : Printable ds = true) (c : Ctx buf s σ0 (.default names :: ds)) : DeclDone buf (.default names) ds s := by
  have hd' := hd
  simp only [declOK, Bool.and_eq_true, Bool.not_eq_true', List.isEmpty_eq_false_iff, List.all_eq_true] at hd'
  obtain ⟨hne, hall⟩ := hd'
  have htail : tailItems (.default names) = names.map pathItem ++ [⟨.pathString, false, .newline⟩] := rfl
  have hcol0 : s.lx.col ≠ 0 := by
    have hlx : s.lx = (wordItem (headWord (.default names))).next σ0 := c.lx
    obtain ⟨hne', _⟩ := nameOK_iff.1 (headWord_ok _ hd)
    rw [hlx]
    exact Item.next_col_pos σ0 _ (by simp [wordItem]) (by simpa [wordItem, Item.bytes, Piece.bytes] using hne')
  have hok : ItemsOK s.lx (tailItems (.default names)) (render ds) := by
    rw [htail, itemsOK_append]
    exact ⟨itemsOK_paths names s.lx _ hall hcol0 ⟨10, by simp [layoutBytes, Item.bytes, Piece.bytes], by decide⟩, render_nl_ok ds hds _ _⟩
  obtain ⟨hf, hd1, hl1, hda, hla, _, _, hkind⟩ := printed_follows hd hds c hok
  have hc1 := tail_endcol _ hd s.lx
  rw [htail] at hf hd1 hl1 hda hc1
  obtain ⟨hdaP, _, _⟩ := split_drop _ _ s.lx _ hda hla
  have htx := tokText_items _ s.lx _ hdaP hla
  rw [paths_pieces] at htx
  -- the script in the form of `parseDecl_default_run`
  have hscript : script s.lx ((names.map pathItem ++ [⟨.pathString, false, .newline⟩]) ++ [headItem ds]) =
      (toks s.lx (names.map pathItem) ++ [(⟨.pathString, false, .newline⟩ : Item).tok (endSt s.lx (names.map pathItem))]).map
        (fun t => (LexMode.pathString, t)) ++
      [(.none, (headItem ds).tok (endSt s.lx (names.map pathItem ++ [⟨.pathString, false, .newline⟩])))] := by
    rw [script_append, script_of_mode .pathString _ _ (by
      intro it hit
      rcases List.mem_append.1 hit with h | h
      · exact paths_mode names it h
      · simp only [List.mem_singleton] at h; rw [h]), toks_append]
    simp [script, toks, headItem_mode]
  rw [hscript] at hf
  obtain ⟨s', hpd, hev, htok, hlx, hmode⟩ := parseDecl_default_run buf s _ _ _ _ hkind hla
    (by intro h; have := congrArg List.length h; rw [toks_length] at this; simp at this; exact hne this)
    (toks_paths_kind names s.lx) rfl (by rw [headItem_kind _ ds hds]; exact (headItemKind_plain ds).1) hf
  refine ⟨s', _, [.default _], hpd, ⟨hd1, hl1, hc1, htok, hlx, hmode⟩, hev, by simp, ?_⟩
  intro A
  simp only [List.reverse_cons, List.reverse_nil, List.nil_append, List.foldl_cons, List.foldl_nil, declStep]
  rw [htx]

/-- (b) `rule NAME` / `pool NAME` with indented bindings -/
theorem printed_named {buf : Bytes} (isRule : Bool) (n : Bytes) (ps : List Binding) (ds : List Decl) (s : PSt) (σ0 : St)
    (hd : declOK (if isRule then .rule n ps else .pool n ps) = true) (hds : Printable ds = true)
    (c : Ctx buf s σ0 ((if isRule then Decl.rule n ps else .pool n ps) :: ds)) :
    DeclDone buf (if isRule then .rule n ps else .pool n ps) ds s := by
  have hd' : nameOK n = true ∧ ∀ b ∈ ps, bindingOK b = true := by
    cases isRule <;> simpa [declOK] using hd
  obtain ⟨hn, hps⟩ := hd'
  obtain ⟨hnne, hnall⟩ := nameOK_iff.1 hn
  have htail : tailItems (if isRule then Decl.rule n ps else .pool n ps) =
      [⟨.identifierSpecific, true, .word n⟩, ⟨.none, false, .newline⟩] ++ ps.flatMap bindingLine := by
    cases isRule <;> rfl
  have hkd : headKind (if isRule then Decl.rule n ps else .pool n ps) = if isRule then .KWRule else .KWPool := by
    cases isRule <;> rfl
  have hcol0 : s.lx.col ≠ 0 := by
    have hlx : s.lx = (wordItem (headWord (if isRule then Decl.rule n ps else .pool n ps))).next σ0 := c.lx
    obtain ⟨hne', _⟩ := nameOK_iff.1 (headWord_ok _ hd)
    rw [hlx]
    exact Item.next_col_pos σ0 _ (by simp [wordItem]) (by simpa [wordItem, Item.bytes, Piece.bytes] using hne')
  have hrest13 : (layoutBytes (ps.flatMap bindingLine) ++ render ds).head? ≠ some 13 := by
    cases ps with
    | nil => simpa [layoutBytes] using render_head13 ds hds
    | cons q r => rw [layoutBytes_bindings_head (q :: r) _ (by simp)]; simp
  have hok : ItemsOK s.lx (tailItems (if isRule then Decl.rule n ps else .pool n ps)) (render ds) := by
    rw [htail, itemsOK_append]
    refine ⟨⟨⟨hnne, hnall, ?_, Or.inr rfl, fun _ => hcol0⟩, ⟨rfl, ?_⟩, trivial⟩,
      itemsOK_bindings ps _ _ (by simp [endSt, Item.next]) hps (render_head13 ds hds)⟩
    · intro d' hd'
      simp [layoutBytes, Item.bytes, Piece.bytes] at hd'
      subst hd'; exact identB_10
    · simpa [layoutBytes] using hrest13
  obtain ⟨hf, hd1, hl1, hda, hla, _, _, hkind⟩ := printed_follows hd hds c hok
  have hc1 := tail_endcol _ hd s.lx
  rw [htail] at hf hd1 hl1 hda hc1
  rw [hkd] at hkind
  obtain ⟨hdaH, hdaB, hlaB⟩ := split_drop _ _ s.lx _ hda hla
  have htxH := tokText_items _ s.lx _ hdaH hla
  have htxB := bindLines_text ps _ _ hdaB hlaB
  -- the script in the form of `parseDecl_rule_run` / `parseDecl_pool_run`
  have hscript : script s.lx (([⟨.identifierSpecific, true, .word n⟩, ⟨.none, false, .newline⟩] ++ ps.flatMap bindingLine) ++ [headItem ds]) =
      [(.identifierSpecific, (⟨.identifierSpecific, true, .word n⟩ : Item).tok s.lx),
       (.none, (⟨.none, false, .newline⟩ : Item).tok ((⟨.identifierSpecific, true, .word n⟩ : Item).next s.lx)),
       (.none, headTok (bindLines (endSt s.lx [⟨.identifierSpecific, true, .word n⟩, ⟨.none, false, .newline⟩]) ps)
          ((headItem ds).tok (endSt (endSt s.lx [⟨.identifierSpecific, true, .word n⟩, ⟨.none, false, .newline⟩]) (ps.flatMap bindingLine))))] ++
      bindsScript (bindLines (endSt s.lx [⟨.identifierSpecific, true, .word n⟩, ⟨.none, false, .newline⟩]) ps)
          ((headItem ds).tok (endSt (endSt s.lx [⟨.identifierSpecific, true, .word n⟩, ⟨.none, false, .newline⟩]) (ps.flatMap bindingLine))) := by
    rw [List.append_assoc, script_append, script_bindings (headItem ds) (headItem_mode ds)]
    simp [script, endSt]
  rw [hscript, endSt_append] at hf
  rw [endSt_append] at hd1 hl1 hc1
  have hac := headItemKind_plain ds
  have hfold : ∀ (k : DeclKind) (begin : Ev) (g0 : Decl) (A : List Decl),
      declStep buf ⟨A, none⟩ begin = ⟨A, some g0⟩ →
      ((Ev.endDecl k s.tok :: ((bindLines (endSt s.lx [⟨.identifierSpecific, true, .word n⟩, ⟨.none, false, .newline⟩]) ps).map
          fun b => Ev.declBinding k b.name b.value).reverse ++ [begin]).reverse).foldl (declStep buf) ⟨A, none⟩ =
        ⟨closeGroup (ps.foldl addParam g0) :: A, none⟩ := by
    intro k begin g0 A hb
    simp only [List.reverse_cons, List.reverse_append, List.reverse_reverse, List.reverse_nil, List.nil_append,
      List.singleton_append, List.foldl_append, List.foldl_cons, List.foldl_nil, hb]
    rw [fold_decl_bindings]
    simp only [declStep]
    have : (bindLines (endSt s.lx [⟨.identifierSpecific, true, .word n⟩, ⟨.none, false, .newline⟩]) ps).map (txt buf) = ps := htxB
    rw [this]
  simp only [toks, List.map_cons, List.map_nil, Piece.bytes, List.cons.injEq, and_true] at htxH
  cases isRule with
  | true =>
    simp only [if_true] at hkind ⊢
    obtain ⟨s', hpd, hev, htok, hlx, hmode⟩ := parseDecl_rule_run buf s _ _ _ _ _ hkind hla rfl rfl
      (bindLines_wf ps _) (by rw [headItem_kind _ ds hds]; exact hac.2) (by rw [headItem_kind _ ds hds]; exact hac.1) hf
    refine ⟨s', _, Ev.endDecl .rule s.tok :: (((bindLines (endSt s.lx [⟨.identifierSpecific, true, .word n⟩, ⟨.none, false, .newline⟩]) ps).map fun b => Ev.declBinding .rule b.name b.value).reverse ++ [.beginRule ((⟨.identifierSpecific, true, .word n⟩ : Item).tok s.lx)]),
      hpd, ⟨hd1, hl1, hc1, htok, hlx, hmode⟩, by rw [hev]; simp, by simp, ?_⟩
    intro A
    have := hfold .rule (.beginRule _) (.rule n []) A (by simp only [declStep]; rw [htxH.1])
    simp only [List.cons_append] at this ⊢
    rw [this, foldl_addParam_rule]
    simp [closeGroup]
  | false =>
    simp only [Bool.false_eq_true, if_false] at hkind ⊢
    obtain ⟨s', hpd, hev, htok, hlx, hmode⟩ := parseDecl_pool_run buf s _ _ _ _ _ hkind hla rfl rfl
      (bindLines_wf ps _) (by rw [headItem_kind _ ds hds]; exact hac.2) (by rw [headItem_kind _ ds hds]; exact hac.1) hf
    refine ⟨s', _, Ev.endDecl .pool s.tok :: (((bindLines (endSt s.lx [⟨.identifierSpecific, true, .word n⟩, ⟨.none, false, .newline⟩]) ps).map fun b => Ev.declBinding .pool b.name b.value).reverse ++ [.beginPool ((⟨.identifierSpecific, true, .word n⟩ : Item).tok s.lx)]),
      hpd, ⟨hd1, hl1, hc1, htok, hlx, hmode⟩, by rw [hev]; simp, by simp, ?_⟩
    intro A
    have := hfold .pool (.beginPool _) (.pool n []) A (by simp only [declStep]; rw [htxH.1])
    simp only [List.cons_append] at this ⊢
    rw [this, foldl_addParam_pool]
    simp [closeGroup]

/-! ### the `build` line -/

def nlPath : Item := ⟨.pathString, false, .newline⟩

/-- items with a blank in front, then the end of the line: the next byte is a blank or the newline -/
theorem stop_head (L : List Item) (hL : ∀ it ∈ L, it.sp = true) (R : Bytes) :
    ∃ d, (layoutBytes (L ++ [nlPath]) ++ R).head? = some d ∧ (d = 32 ∨ d = 10) := by
  rw [layoutBytes_append, List.append_assoc, sp_head L _ hL]
  cases L with
  | nil => exact ⟨10, by simp [layoutBytes, nlPath, Item.bytes, Piece.bytes], Or.inr rfl⟩
  | cons a b => exact ⟨32, by simp, Or.inl rfl⟩

theorem stop_of {d : UInt8} (h : d = 32 ∨ d = 10) : isStopPath d.toNat = true ∧ identB d = false ∧ d ≠ 124 := by
  rcases h with rfl | rfl <;> exact ⟨by decide, by decide, by decide⟩

theorem itemsOK_optSec (mark : Piece) (hm : mark = .pipe ∨ mark = .pipepipe) (l : List Bytes) (σ : St) (rest : Bytes)
    (hall : ∀ p ∈ l, pathTextOK p = true) (hcol : σ.col ≠ 0) (hrest : ∃ d, rest.head? = some d ∧ isStopPath d.toNat = true) :
    ItemsOK σ (optSec mark l) rest := by
  unfold optSec
  cases l with
  | nil => trivial
  | cons a b =>
    simp only [List.isEmpty_cons, Bool.false_eq_true, if_false]
    have hnext : ((⟨.pathString, true, mark⟩ : Item).next σ).col ≠ 0 :=
      Item.next_col_ge σ _ (by rcases hm with h | h <;> rw [h] <;> simp) hcol
    refine ⟨?_, itemsOK_paths (a :: b) _ rest hall hnext hrest⟩
    rcases hm with rfl | rfl
    · refine ⟨rfl, by decide, hcol, ?_⟩
      rw [layoutBytes_paths_head (a :: b) rest (by simp)]; simp
    · exact ⟨rfl, by decide, hcol⟩

theorem optTok_wf (mark : Piece) (k : Kind) (hk : mark.kind .pathString = k) (σ : St) (l : List Bytes) : optWF k (optTok mark σ l) = true := by
  unfold optTok
  cases l with
  | nil => rfl
  | cons a b =>
    simp only [List.isEmpty_cons, Bool.false_eq_true, if_false, optWF, Bool.and_eq_true, decide_eq_true_eq]
    exact ⟨hk, allString_iff.2 (toks_paths_kind (a :: b) _)⟩

theorem optList_length (mark : Piece) (σ : St) (l : List Bytes) : (optList (optTok mark σ l)).length = l.length := by
  unfold optTok
  cases l with
  | nil => rfl
  | cons a b => simp [optList, toks_length]

theorem optList_text {buf : Bytes} (mark : Piece) (σ : St) (l : List Bytes) (rest : Bytes)
    (hdrop : buf.drop σ.pos = layoutBytes (optSec mark l) ++ rest) (hle : σ.pos ≤ buf.length) :
    (optList (optTok mark σ l)).map (tokText buf) = l := by
  unfold optTok
  cases l with
  | nil => rfl
  | cons a b =>
    have he : optSec mark (a :: b) = [⟨.pathString, true, mark⟩] ++ (a :: b).map pathItem := rfl
    rw [he] at hdrop
    obtain ⟨_, hd2, hl2⟩ := split_drop _ _ σ _ hdrop hle
    simp only [List.isEmpty_cons, Bool.false_eq_true, if_false, optList]
    have := tokText_items ((a :: b).map pathItem) _ rest hd2 hl2
    rw [paths_pieces] at this
    exact this

def colonIt : Item := ⟨.pathString, false, .colon⟩
def ruleIt (r : Bytes) : Item := ⟨.identifierSpecific, true, .word r⟩

/-- (b) `build outs…: rule exp… [| imp…] [|| oo…]` with indented bindings -/
theorem printed_build {buf : Bytes} (r : Bytes) (outs ins : List Bytes) (nExp nImp : Nat) (ps : List Binding) (ds : List Decl)
    (s : PSt) (σ0 : St) (hd : declOK (.build r outs ins nExp nImp ps) = true) (hds : Printable ds = true)
    (c : Ctx buf s σ0 (.build r outs ins nExp nImp ps :: ds)) : DeclDone buf (.build r outs ins nExp nImp ps) ds s := by
  have hd' := hd
  simp only [declOK, Bool.and_eq_true, Bool.not_eq_true', List.isEmpty_eq_false_iff, List.all_eq_true, decide_eq_true_eq] at hd'
  obtain ⟨⟨⟨⟨⟨hr, hone⟩, houts⟩, hins⟩, hlen⟩, hps⟩ := hd'
  obtain ⟨hrne, hrall⟩ := nameOK_iff.1 hr
  -- the three input classes
  obtain ⟨E, hE⟩ : ∃ E, E = ins.take nExp := ⟨_, rfl⟩
  obtain ⟨I, hI⟩ : ∃ I, I = (ins.drop nExp).take nImp := ⟨_, rfl⟩
  obtain ⟨O, hO⟩ : ∃ O, O = ins.drop (nExp + nImp) := ⟨_, rfl⟩
  have hEok : ∀ p ∈ E, pathTextOK p = true := fun p hp => hins p (List.mem_of_mem_take (hE ▸ hp))
  have hIok : ∀ p ∈ I, pathTextOK p = true := fun p hp => hins p (List.mem_of_mem_drop (List.mem_of_mem_take (hI ▸ hp)))
  have hOok : ∀ p ∈ O, pathTextOK p = true := fun p hp => hins p (List.mem_of_mem_drop (hO ▸ hp))
  have hEIO : E ++ (I ++ O) = ins := by rw [hE, hI, hO]; exact take_drop_split ins nExp nImp
  have hElen : E.length = nExp := by rw [hE, List.length_take]; omega
  have hIlen : I.length = nImp := by rw [hI, List.length_take, List.length_drop]; omega
  have htail : tailItems (.build r outs ins nExp nImp ps) =
      (outs.map pathItem ++ ([colonIt, ruleIt r] ++ (E.map pathItem ++ (optSec .pipe I ++ (optSec .pipepipe O ++ [nlPath]))))) ++
        ps.flatMap bindingLine := by
    rw [hE, hI, hO]; rfl
  have hcol0 : s.lx.col ≠ 0 := by
    have hlx : s.lx = (wordItem (headWord (.build r outs ins nExp nImp ps))).next σ0 := c.lx
    obtain ⟨hne', _⟩ := nameOK_iff.1 (headWord_ok _ hd)
    rw [hlx]
    exact Item.next_col_pos σ0 _ (by simp [wordItem]) (by simpa [wordItem, Item.bytes, Piece.bytes] using hne')
  -- names for the cursors along the line
  obtain ⟨σ1, hσ1⟩ : ∃ x, x = endSt s.lx (outs.map pathItem) := ⟨_, rfl⟩
  obtain ⟨σ3, hσ3⟩ : ∃ x, x = endSt σ1 [colonIt, ruleIt r] := ⟨_, rfl⟩
  obtain ⟨σ4, hσ4⟩ : ∃ x, x = endSt σ3 (E.map pathItem) := ⟨_, rfl⟩
  obtain ⟨σ5, hσ5⟩ : ∃ x, x = endSt σ4 (optSec .pipe I) := ⟨_, rfl⟩
  obtain ⟨σ6, hσ6⟩ : ∃ x, x = endSt σ5 (optSec .pipepipe O) := ⟨_, rfl⟩
  obtain ⟨σ7, hσ7⟩ : ∃ x, x = endSt σ6 [nlPath] := ⟨_, rfl⟩
  obtain ⟨σ8, hσ8⟩ : ∃ x, x = endSt σ7 (ps.flatMap bindingLine) := ⟨_, rfl⟩
  have c1 : σ1.col ≠ 0 := by rw [hσ1]; exact endSt_col_pos _ _ (paths_no_newline outs) hcol0
  have c3 : σ3.col ≠ 0 := by
    rw [hσ3]; exact endSt_col_pos _ _ (by intro it h; simp at h; rcases h with rfl | rfl <;> simp [colonIt, ruleIt]) c1
  have c4 : σ4.col ≠ 0 := by rw [hσ4]; exact endSt_col_pos _ _ (paths_no_newline E) c3
  have c5 : σ5.col ≠ 0 := by rw [hσ5]; exact endSt_col_pos _ _ (optSec_no_newline _ (by simp) I) c4
  have c6 : σ6.col ≠ 0 := by rw [hσ6]; exact endSt_col_pos _ _ (optSec_no_newline _ (by simp) O) c5
  have c7 : σ7.col = 0 := by rw [hσ7]; simp [endSt, nlPath, Item.next]
  have hendT : endSt s.lx (outs.map pathItem ++ ([colonIt, ruleIt r] ++ (E.map pathItem ++ (optSec .pipe I ++ (optSec .pipepipe O ++ [nlPath]))))) = σ7 := by
    simp only [endSt_append, ← hσ1, ← hσ3, ← hσ4, ← hσ5, ← hσ6, ← hσ7]
  -- the context conditions of every item
  have hrest13 : (layoutBytes (ps.flatMap bindingLine) ++ render ds).head? ≠ some 13 := by
    cases ps with
    | nil => simpa [layoutBytes] using render_head13 ds hds
    | cons q t => rw [layoutBytes_bindings_head (q :: t) _ (by simp)]; simp
  have hok : ItemsOK s.lx (tailItems (.build r outs ins nExp nImp ps)) (render ds) := by
    rw [htail, itemsOK_append, itemsOK_append, itemsOK_append, itemsOK_append, itemsOK_append, itemsOK_append]
    simp only [← hσ1, ← hσ3, ← hσ4, ← hσ5, ← hσ6, hendT]
    refine ⟨⟨?_, ?_, ?_, ?_, ?_, ?_⟩, ?_⟩
    · exact itemsOK_paths outs s.lx _ houts hcol0 ⟨58, by simp [layoutBytes, colonIt, Item.bytes, Piece.bytes], by decide⟩
    · -- `:` and the rule name
      refine ⟨⟨rfl, by decide⟩, ⟨hrne, hrall, ?_, Or.inr rfl, fun _ => ?_⟩, trivial⟩
      · intro d hdn
        have e : (E.map pathItem ++ (optSec .pipe I ++ (optSec .pipepipe O ++ [nlPath]))) =
            (E.map pathItem ++ (optSec .pipe I ++ optSec .pipepipe O)) ++ [nlPath] := by simp
        simp only [layoutBytes, List.flatMap_nil, List.nil_append] at hdn
        rw [show List.flatMap Item.bytes (E.map pathItem ++ (optSec .pipe I ++ (optSec .pipepipe O ++ [nlPath]))) =
          layoutBytes ((E.map pathItem ++ (optSec .pipe I ++ optSec .pipepipe O)) ++ [nlPath]) from by rw [← e]; rfl] at hdn
        obtain ⟨d', hd', hdd⟩ := stop_head (E.map pathItem ++ (optSec .pipe I ++ optSec .pipepipe O)) (by
          intro it hit
          rcases List.mem_append.1 hit with h | h
          · exact paths_sp E it h
          · rcases List.mem_append.1 h with h | h
            · exact optSec_sp _ I it h
            · exact optSec_sp _ O it h) (layoutBytes (ps.flatMap bindingLine) ++ render ds)
        have hdd' : some d = some d' := hdn.symm.trans hd'
        cases hdd'
        exact (stop_of hdd).2.1
      · simp [colonIt, Item.next, Item.off, Piece.bytes]
    · obtain ⟨d', hd', hdd⟩ := stop_head (optSec .pipe I ++ optSec .pipepipe O) (by
        intro it hit
        rcases List.mem_append.1 hit with h | h
        · exact optSec_sp _ I it h
        · exact optSec_sp _ O it h) (layoutBytes (ps.flatMap bindingLine) ++ render ds)
      exact itemsOK_paths E σ3 _ hEok c3 ⟨d', by simpa [List.append_assoc] using hd', (stop_of hdd).1⟩
    · obtain ⟨d', hd', hdd⟩ := stop_head (optSec .pipepipe O) (optSec_sp _ O) (layoutBytes (ps.flatMap bindingLine) ++ render ds)
      exact itemsOK_optSec .pipe (Or.inl rfl) I σ4 _ hIok c4 ⟨d', hd', (stop_of hdd).1⟩
    · obtain ⟨d', hd', hdd⟩ := stop_head [] (by intro it h; cases h) (layoutBytes (ps.flatMap bindingLine) ++ render ds)
      exact itemsOK_optSec .pipepipe (Or.inr rfl) O σ5 _ hOok c5 ⟨d', by simpa using hd', (stop_of hdd).1⟩
    · exact ⟨⟨rfl, hrest13⟩, trivial⟩
    · exact itemsOK_bindings ps σ7 _ c7 hps (render_head13 ds hds)
  obtain ⟨hf, hd1, hl1, hda, hla, _, _, hkind⟩ := printed_follows hd hds c hok
  have hc1 := tail_endcol _ hd s.lx
  rw [htail] at hf hd1 hl1 hda hc1
  rw [endSt_append, hendT, ← hσ8] at hf hd1 hl1 hc1
  -- positions of the parts, for the token texts
  obtain ⟨hdaL, hdaB, hlaB⟩ := split_drop _ _ s.lx _ hda hla
  rw [hendT] at hdaB hlaB
  obtain ⟨hdP, hd2, hl2⟩ := split_drop _ _ s.lx _ hdaL hla
  rw [← hσ1] at hd2 hl2
  obtain ⟨hdCN, hd3, hl3⟩ := split_drop _ _ σ1 _ hd2 hl2
  rw [← hσ3] at hd3 hl3
  obtain ⟨hdE, hd4, hl4⟩ := split_drop _ _ σ3 _ hd3 hl3
  rw [← hσ4] at hd4 hl4
  obtain ⟨hdI, hd5, hl5⟩ := split_drop _ _ σ4 _ hd4 hl4
  rw [← hσ5] at hd5 hl5
  obtain ⟨hdO, _, _⟩ := split_drop _ _ σ5 _ hd5 hl5
  have txP := tokText_items _ s.lx _ hdP hla
  have txCN := tokText_items _ σ1 _ hdCN hl2
  have txE := tokText_items _ σ3 _ hdE hl3
  have txI := optList_text .pipe σ4 I _ hdI hl4
  have txO := optList_text .pipepipe σ5 O _ hdO hl5
  have txB := bindLines_text ps σ7 _ hdaB hlaB
  rw [paths_pieces] at txP txE
  simp only [toks, colonIt, ruleIt, List.map_cons, List.map_nil, Piece.bytes, List.cons.injEq, and_true] at txCN
  -- the BuildLine of the shape theorem
  obtain ⟨bl, hbl⟩ : ∃ bl : BuildLine, bl = ⟨toks s.lx (outs.map pathItem), colonIt.tok σ1, (ruleIt r).tok (colonIt.next σ1),
      toks σ3 (E.map pathItem), optTok .pipe σ4 I, optTok .pipepipe σ5 O, nlPath.tok σ6⟩ := ⟨_, rfl⟩
  have hwf : bl.WF = true := by
    rw [hbl]
    simp only [BuildLine.WF, Bool.and_eq_true, Bool.not_eq_true', decide_eq_true_eq]
    refine ⟨⟨⟨⟨⟨⟨⟨?_, allString_iff.2 (toks_paths_kind outs _)⟩, rfl⟩, rfl⟩, allString_iff.2 (toks_paths_kind E _)⟩,
      optTok_wf .pipe .Pipe rfl σ4 I⟩, optTok_wf .pipepipe .PipePipe rfl σ5 O⟩, rfl⟩
    cases outs with
    | nil => exact absurd rfl hone
    | cons a b => rfl
  have hscript : script s.lx (((outs.map pathItem ++ ([colonIt, ruleIt r] ++ (E.map pathItem ++ (optSec .pipe I ++ (optSec .pipepipe O ++ [nlPath]))))) ++
      ps.flatMap bindingLine) ++ [headItem ds]) =
      bl.script (headTok (bindLines σ7 ps) ((headItem ds).tok σ8)) ++ bindsScript (bindLines σ7 ps) ((headItem ds).tok σ8) := by
    have e : ((outs.map pathItem ++ ([colonIt, ruleIt r] ++ (E.map pathItem ++ (optSec .pipe I ++ (optSec .pipepipe O ++ [nlPath]))))) ++
        ps.flatMap bindingLine) ++ [headItem ds] =
        (outs.map pathItem ++ [colonIt]) ++ ([ruleIt r] ++ ((E.map pathItem ++ (optSec .pipe I ++ (optSec .pipepipe O ++ [nlPath]))) ++
          (ps.flatMap bindingLine ++ [headItem ds]))) := by simp
    have es1 : endSt s.lx (outs.map pathItem ++ [colonIt]) = colonIt.next σ1 := by rw [endSt_append, ← hσ1]; rfl
    have es3 : endSt (colonIt.next σ1) [ruleIt r] = σ3 := by rw [hσ3]; rfl
    have es7 : endSt σ3 (E.map pathItem ++ (optSec .pipe I ++ (optSec .pipepipe O ++ [nlPath]))) = σ7 := by
      simp only [endSt_append, ← hσ4, ← hσ5, ← hσ6, ← hσ7]
    rw [e, script_append s.lx (outs.map pathItem ++ [colonIt]) _, es1, script_append _ [ruleIt r] _, es3,
      script_append σ3 (E.map pathItem ++ (optSec .pipe I ++ (optSec .pipepipe O ++ [nlPath]))) _, es7, script_bindings (headItem ds) (headItem_mode ds), ← hσ8,
      script_of_mode .pathString (outs.map pathItem ++ [colonIt]) _ (by
        intro it hit
        rcases List.mem_append.1 hit with h | h
        · exact paths_mode outs it h
        · simp only [List.mem_singleton] at h; rw [h]; rfl),
      script_of_mode .pathString (E.map pathItem ++ (optSec .pipe I ++ (optSec .pipepipe O ++ [nlPath]))) _ (by
        intro it hit
        rcases List.mem_append.1 hit with h | h
        · exact paths_mode E it h
        · rcases List.mem_append.1 h with h | h
          · exact optSec_mode _ I it h
          · rcases List.mem_append.1 h with h | h
            · exact optSec_mode _ O it h
            · simp only [List.mem_singleton] at h; rw [h]; rfl)]
    rw [hbl]
    simp only [BuildLine.script, BuildLine.tail, toks_append, toks_optSec, ← hσ1, ← hσ4, ← hσ5, ← hσ6, script, toks, ruleIt,
      List.map_append, List.append_assoc, List.cons_append, List.nil_append, List.map_cons, List.map_nil]
  rw [hscript] at hf
  have hac := headItemKind_plain ds
  obtain ⟨s', hpd, hev, htok, hlx, hmode⟩ := parseDecl_build_run buf s bl (bindLines σ7 ps) ((headItem ds).tok σ8) _ hkind hla hwf
    (bindLines_wf ps _) (by rw [headItem_kind _ ds hds]; exact hac.2) (by rw [headItem_kind _ ds hds]; exact hac.1) hf
  refine ⟨s', σ8, Ev.endDecl .build s.tok :: (((bindLines σ7 ps).map fun b => Ev.declBinding .build b.name b.value).reverse ++
      [.beginBuild bl.name bl.outs (bl.exp ++ optList bl.pipe ++ optList bl.pipepipe) bl.exp.length (optList bl.pipe).length]),
    hpd, ⟨hd1, hl1, hc1, htok, hlx, hmode⟩, by rw [hev]; simp, by simp, ?_⟩
  intro A
  simp only [List.reverse_cons, List.reverse_append, List.reverse_reverse, List.reverse_nil, List.nil_append,
    List.singleton_append, List.foldl_append, List.foldl_cons, List.foldl_nil, declStep]
  rw [fold_decl_bindings, foldl_addParam_build]
  have hparams : (bindLines σ7 ps).map (txt buf) = ps := txB
  simp only [closeGroup, hparams, List.append_nil, List.reverse_reverse]
  rw [hbl]
  simp only [List.map_append, txP, txE, txI, txO, toks_length, List.length_map, optList_length, hElen, hIlen]
  rw [List.append_assoc, hEIO, show tokText buf ((ruleIt r).tok (colonIt.next σ1)) = r from txCN.2]

/-! ## (c) The whole list -/

theorem printed_decl {buf : Bytes} (d : Decl) (ds : List Decl) (s : PSt) (σ0 : St) (hd : declOK d = true)
    (hds : Printable ds = true) (c : Ctx buf s σ0 (d :: ds)) : DeclDone buf d ds s := by
  cases d with
  | binding b => exact printed_binding b ds s σ0 hd hds c
  | rule n ps => exact printed_named true n ps ds s σ0 hd hds c
  | pool n ps => exact printed_named false n ps ds s σ0 hd hds c
  | build r outs ins nExp nImp ps => exact printed_build r outs ins nExp nImp ps ds s σ0 hd hds c
  | default names => exact printed_default names ds s σ0 hd hds c
  | «include» p => exact printed_include true p ds s σ0 hd hds c
  | subninja p => exact printed_include false p ds s σ0 hd hds c
  | perr => simp [declOK] at hd

theorem headKind_ne_eof (d : Decl) : headKind d ≠ .EndOfFile := by
  cases d <;> simp [headKind]

theorem declLoop_printed {buf : Bytes} : ∀ (ds : List Decl) (f : Nat) (s : PSt) (σ0 : St), Printable ds = true → Ctx buf s σ0 ds →
    ds.length < f →
    ∃ s' new, declLoop genCfg buf f s = .ok s' ∧ s'.evs = new ++ s.evs ∧ (∀ m t, Ev.error m t ∉ new) ∧
      ∀ A : List Decl, new.reverse.foldl (declStep buf) ⟨A, none⟩ = ⟨ds.reverse ++ A, none⟩ := by
  intro ds
  induction ds with
  | nil =>
    intro f s σ0 _ c hf
    obtain ⟨f', rfl⟩ : ∃ f', f = f' + 1 := ⟨f - 1, by omega⟩
    refine ⟨s, [], ?_, rfl, by simp, fun A => rfl⟩
    unfold declLoop
    have : s.tok.kind = .EndOfFile := by rw [c.tok]; rfl
    rw [if_neg (by simp [this])]
    rfl
  | cons d r ih =>
    intro f s σ0 hp c hf
    obtain ⟨f', rfl⟩ : ∃ f', f = f' + 1 := ⟨f - 1, by omega⟩
    obtain ⟨hd, hr⟩ := printable_cons.1 hp
    have hk : s.tok.kind = headKind d := by rw [c.tok]; exact headKind_eq d hd
    obtain ⟨s1, σ1, new1, hp1, c1, he1, hne1, hf1⟩ := printed_decl d r s σ0 hd hr c
    obtain ⟨s2, new2, hp2, he2, hne2, hf2⟩ := ih f' s1 σ1 hr c1 (by simp at hf; omega)
    refine ⟨s2, new2 ++ new1, ?_, by rw [he2, he1, List.append_assoc], ?_, ?_⟩
    · unfold declLoop
      rw [if_pos (by rw [hk]; exact headKind_ne_eof d), hp1]
      exact hp2
    · intro m t hmem
      rcases List.mem_append.1 hmem with h | h
      · exact hne2 m t h
      · exact hne1 m t h
    · intro A
      rw [List.reverse_append, List.foldl_append, hf1, hf2]
      simp

theorem renderDecl_ne_nil (d : Decl) (h : declOK d = true) : 1 ≤ (renderDecl d).length := by
  rw [renderDecl, declItems_cons d h, layoutBytes_cons]
  obtain ⟨hne, _⟩ := nameOK_iff.1 (headWord_ok d h)
  have : 1 ≤ (headWord d).length := by
    cases hw : headWord d with
    | nil => exact absurd hw hne
    | cons a b => simp
  simp [wordItem, Item.bytes, Piece.bytes]
  omega

theorem render_length : ∀ ds : List Decl, Printable ds = true → ds.length ≤ (render ds).length := by
  intro ds
  induction ds with
  | nil => intro _; simp
  | cons d r ih =>
    intro h
    obtain ⟨hd, hr⟩ := printable_cons.1 h
    rw [render_cons, List.length_append, List.length_cons]
    have := renderDecl_ne_nil d hd
    have := ih hr
    omega

/-- **(c) the byte-level round trip**, in terms of the parser state -/
theorem parse_printed (ds : List Decl) (h : Printable ds = true) :
    ∃ evs, parse genCfg (render ds) = .ok evs ∧ declsOf (render ds) evs = ds ∧ ∀ m t, Ev.error m t ∉ evs := by
  -- the first token
  have hdrop : (render ds).drop NinjaLexer.initSt.pos = (headItem ds).bytes ++ afterHead ds := by
    show (render ds).drop 0 = _
    rw [List.drop_zero]; exact render_head ds h
  have hlex := lex_item (buf := render ds) (σ := NinjaLexer.initSt) (headItem_ok _ ds h) hdrop (Nat.zero_le _)
  rw [headItem_mode] at hlex
  have hkc : ((headItem ds).tok NinjaLexer.initSt).kind ≠ .Comment := by
    rw [headItem_kind _ ds h]; exact (headItemKind_plain ds).1
  have hcons := consume_run genCfg (render ds) initSt _ _ hlex hkc
  have c : Ctx (render ds) ((adv initSt ((headItem ds).tok NinjaLexer.initSt) ((headItem ds).next NinjaLexer.initSt)).emit .beginManifest)
      NinjaLexer.initSt ds :=
    ⟨by show (render ds).drop 0 = _; simp, Nat.zero_le _, rfl, rfl, rfl, rfl⟩
  obtain ⟨s', new, hloop, hevs, hne, hfold⟩ := declLoop_printed ds (fuel (render ds)) _ _ h c
    (by have := render_length ds h; unfold fuel; omega)
  refine ⟨(s'.emit .endManifest).evs.reverse, ?_, ?_, ?_⟩
  · unfold parse parseSt
    rw [hcons]
    simp only [Res.ok_bind]
    rw [hloop]
    rfl
  · unfold declsOf
    show (((Ev.endManifest :: s'.evs).reverse).foldl (declStep (render ds)) {}).decls.reverse = ds
    rw [hevs]
    show (((Ev.endManifest :: (new ++ [Ev.beginManifest])).reverse).foldl (declStep (render ds)) {}).decls.reverse = ds
    simp only [List.reverse_cons, List.reverse_append, List.reverse_nil, List.nil_append, List.singleton_append, List.foldl_append,
      List.foldl_cons, List.foldl_nil, declStep]
    have := hfold []
    simp only [List.append_nil] at this
    rw [show ({} : DS) = ⟨[], none⟩ from rfl, this]
    simp
  · intro m t hmem
    have : Ev.error m t ∈ Ev.endManifest :: (new ++ [Ev.beginManifest]) := by
      have h' : (s'.emit .endManifest).evs = Ev.endManifest :: (new ++ [Ev.beginManifest]) := by
        show Ev.endManifest :: s'.evs = _
        rw [hevs]; rfl
      rw [h'] at hmem
      simpa using hmem
    simp only [List.mem_cons, List.mem_append, List.mem_singleton] at this
    rcases this with h' | h' | h' | h' <;> first | exact hne m t h' | cases h'

end LLBuild.NinjaPrint
