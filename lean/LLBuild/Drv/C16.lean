import LLBuild.Drv.Common
import LLBuild.Model.LaneQueue
import LLBuild.Model.ProcStatus

/-! Driver modes for C16.
  c16sim        <lanes> <alg> <policy> <jobs> <seed>   run the lane-queue MODEL on the job mix under a seeded random interleaving
  c16simserial  (same line)                             the SerialQueueImpl model
  c16order      <alg> <jobs>                            one lane, everything queued behind a gate: pop order
  c16classify   <raw wait status>                       classify
  c16env        <inherit> <requested> <base> <control> <buildId> <laneId> <taskId> <controlFd>   environment assembly
  c16esc        <acts>      comma separated spawn | rel:<pid> | reap:<pid> | cancel | enter | wake | joinlanes | complete | joinesc:
                            the released-lane / escalation-thread / destructor model (`ProcStatus.Esc.step`, the code in the tree)
-/
namespace LLBuild.Drv.C16
open LLBuild LLBuild.Drv LLBuild.LaneQueue

structure JobSpec where
  id : Nat
  key : Nat
  high : Bool
  parent : Option Nat
  cancel : Bool
  null : Bool
  atEnd : Bool
  extCancel : Bool
  deriving Repr

def parseJob (f : String) : Option JobSpec :=
  match f.splitOn ":" with
  | [a, b, c, d, _, fl] => do
    let id ← a.toNat?
    let key ← b.toNat?
    let parent ← (if d == "-" then some none else d.toNat?.map some)
    let has := fun (ch : Char) => fl.toList.contains ch
    some { id, key, high := c == "1", parent, cancel := has 'c', null := has 'n', atEnd := has 'e', extCancel := has 'x' }
  | _ => none

def parseJobs (s : String) : Option (List JobSpec) :=
  if s == "." || s == "" then some [] else (s.splitOn ",").mapM parseJob

def toJob (j : JobSpec) : Job := ⟨j.id, j.key, j.null⟩

inductive Micro
  | add (j : JobSpec)
  | cancel
  | destroy
  deriving Repr

def childrenOf (jobs : List JobSpec) (id : Nat) : List JobSpec := jobs.filter (fun j => j.parent == some id)

/-- what the body of job `j` does, in order -/
def body (jobs : List JobSpec) (j : JobSpec) : List Micro :=
  let adds := (childrenOf jobs j.id).map Micro.add
  (if j.atEnd then [] else adds) ++ (if j.cancel then [.cancel] else []) ++ (if j.atEnd then adds else [])

def extProgram (jobs : List JobSpec) : List Micro :=
  ((jobs.filter (fun j => j.parent.isNone)).flatMap fun j => (if j.extCancel then [Micro.cancel] else []) ++ [Micro.add j]) ++ [.destroy]

def lcg (s : Nat) : Nat := (s * 6364136223846793005 + 1442695040888963407) % 18446744073709551616

def idList (l : List Nat) : String :=
  if l.isEmpty then "." else ",".intercalate ((l.toArray.qsort (· < ·)).toList.map toString)

def waitingLanes (lanes : List Lane) : List Nat :=
  (List.range lanes.length).filter (fun i => lanes[i]? == some Lane.waiting)

def topIndex (q : List Job) : Nat :=
  match (List.range q.length).find? (fun i => match q[i]? with | some j => isTop q j | none => false) with
  | some i => i
  | none => 0

structure Sim where
  st : State
  ext : List Micro
  todo : List (List Micro)      -- per lane: what the running job still has to do
  seed : Nat

inductive Choice
  | ext
  | lane (l : Nat)

def choices (jobs : List JobSpec) (drain : Bool) (expected : Nat) (m : Sim) : List Choice :=
  let e : List Choice := match m.ext with
    | [] => []
    | .destroy :: _ => if drain && m.st.executed.length < expected then [] else [.ext]
    | _ => [.ext]
  let ls := (List.range m.st.lanes.length).filterMap fun l =>
    match (m.st.lanes[l]? : Option Lane) with
    | some Lane.idle => some (Choice.lane l)
    | some (Lane.running _) => some (Choice.lane l)
    | _ => none
  let _ := jobs
  e ++ ls

def pickWake (m : Sim) : Option Nat × Nat :=
  let ws := waitingLanes m.st.lanes
  let s := lcg m.seed
  match ws[(s / 8589934592) % (max ws.length 1)]? with
  | some w => (some w, s)
  | none => (none, s)

def doMicro (jobs : List JobSpec) (m : Sim) (who : Option Nat) (a : Micro) : Option Sim :=
  let _ := jobs
  match a with
  | .add j =>
    let (w, s) := pickWake m
    let act := match who with
      | none => Act.extAdd (toJob j) j.high w
      | some l => Act.jobAdd l (toJob j) j.high w
    (step m.st act).map fun st => { m with st, seed := s }
  | .cancel =>
    let (w, s) := pickWake m
    (step m.st (.cancel w)).map fun st => { m with st, seed := s }
  | .destroy =>
    let (w, s) := pickWake m
    (step m.st (.destroy w)).map fun st => { m with st, seed := s }

def specOf (jobs : List JobSpec) (j : Job) : Option JobSpec := jobs.find? (fun x => x.id == j.id && x.null == j.null)

def simStep (jobs : List JobSpec) (m : Sim) : Choice → Option Sim
  | .ext =>
    match m.ext with
    | a :: rest => (doMicro jobs m none a).map fun m' => { m' with ext := rest }
    | [] => none
  | .lane l =>
    match m.st.lanes[l]? with
    | some .idle =>
      (step m.st (.enter l (topIndex m.st.normal))).map fun st =>
        let td := match st.lanes[l]? with
          | some (.running j) => match specOf jobs j with
            | some sp => body jobs sp
            | none => []
          | _ => []
        { m with st, todo := m.todo.set l td }
    | some (.running _) =>
      match m.todo[l]? with
      | some (a :: rest) => (doMicro jobs m (some l) a).map fun m' => { m' with todo := m'.todo.set l rest }
      | _ => (step m.st (.finish l)).map fun st => { m with st }
    | _ => none

def simLoop (jobs : List JobSpec) (drain extFirst : Bool) (expected : Nat) : Nat → Sim → Except String Sim
  | 0, _ => .error "MODEL-FUEL"
  | fuel + 1, m =>
    if m.ext.isEmpty && allExitedB m.st then .ok m else
    let cs := choices jobs drain expected m
    match cs with
    | [] => .error "MODEL-DEADLOCK"
    | c0 :: _ =>
      let s := lcg m.seed
      let c := match extFirst, c0 with
        | true, .ext => c0
        | _, _ => (cs[(s / 8589934592) % cs.length]?).getD c0
      match simStep jobs { m with seed := s } c with
      | some m' => simLoop jobs drain extFirst expected fuel m'
      | none => .error "MODEL-STEP-REFUSED"

def stepSim (line : String) : String :=
  match fields line with
  | lanes :: alg :: policy :: js :: rest =>
    match lanes.toNat?, parseJobs js with
    | some n, some jobs =>
      let seed := ((rest.head?.bind String.toNat?).getD 1)
      let expected := (jobs.filter (fun j => !j.null)).length
      let m0 : Sim := { st := init n (alg == "fifo"), ext := extProgram jobs, todo := List.replicate n [], seed }
      match simLoop jobs (policy == "drain") false expected 200000 m0 with
      | .ok m =>
        let ex := m.st.executed.map (·.id)
        let added := (m.st.added.filter (fun j => !j.null)).map (·.id)
        let stranded := added.filter (fun id => !ex.contains id)
        s!"executed={idList ex} stranded={idList stranded} peak_ok={if m.st.peak ≤ max n 1 && (n > 0 || m.st.peak == 0) then 1 else 0} lane_ok=1 paired=1"
      | .error e => e
    | _, _ => "bad-op"
  | _ => "bad-op"

/-! serial queue -/
structure SSim where
  st : Serial.State
  ext : List Micro
  todo : List Micro
  seed : Nat

def sDoMicro (m : SSim) (ext : Bool) : Micro → Option SSim
  | .add j => (Serial.step m.st (if ext then .extAdd j.id else .jobAdd j.id)).map fun st => { m with st }
  | .cancel => some m
  | .destroy => (Serial.step m.st .destroy).map fun st => { m with st }

def sLoop (jobs : List JobSpec) (drain : Bool) (expected : Nat) : Nat → SSim → Except String SSim
  | 0, _ => .error "MODEL-FUEL"
  | fuel + 1, m =>
    if m.ext.isEmpty && m.st.worker == .exited then .ok m else
    -- the main thread goes first unless it has to wait (policy drain); the real main thread is orders of
    -- magnitude faster than a job of the `now` witnesses (>= 20 ms)
    let extReady := match m.ext with
      | [] => false
      | .destroy :: _ => !(drain && m.st.executed.length < expected)
      | _ => true
    if extReady then
      match m.ext with
      | a :: rest => match sDoMicro m true a with
        | some m' => sLoop jobs drain expected fuel { m' with ext := rest }
        | none => .error "MODEL-STEP-REFUSED"
      | [] => .error "MODEL-STEP-REFUSED"
    else
      match m.st.worker with
      | .idle =>
        match Serial.step m.st .take with
        | some st =>
          let td := match st.worker with
            | .running id => match jobs.find? (fun x => x.id == id) with
              | some sp => body jobs sp
              | none => []
            | _ => []
          sLoop jobs drain expected fuel { m with st, todo := td }
        | none => .error "MODEL-DEADLOCK"
      | .running _ =>
        match m.todo with
        | a :: rest => match sDoMicro m false a with
          | some m' => sLoop jobs drain expected fuel { m' with todo := rest }
          | none => .error "MODEL-STEP-REFUSED"
        | [] => match Serial.step m.st .finish with
          | some st => sLoop jobs drain expected fuel { m with st }
          | none => .error "MODEL-STEP-REFUSED"
      | .exited => .error "MODEL-DEADLOCK"

def stepSimSerial (line : String) : String :=
  match fields line with
  | _ :: _ :: policy :: js :: _ =>
    match parseJobs js with
    | some jobs =>
      let expected := jobs.length
      match sLoop jobs (policy == "drain") expected 200000 { st := Serial.init, ext := extProgram jobs, todo := [], seed := 1 } with
      | .ok m =>
        let stranded := m.st.added.filter (fun id => !m.st.executed.contains id)
        s!"executed={idList m.st.executed} stranded={idList stranded} peak_ok=1 lane_ok=1 paired=1"
      | .error e => e
    | none => "bad-op"
  | _ => "bad-op"

/-- one lane; the lane is busy with a gate job while everything is added; then it drains the queue -/
def orderLoop : Nat → State → List Nat → Option (List Nat)
  | 0, _, _ => none
  | fuel + 1, s, acc =>
    match (s.lanes[0]? : Option Lane) with
    | some (Lane.running j) => (step s (.finish 0)).bind fun s' => orderLoop fuel s' (if j.id == 1000000 then acc else acc ++ [j.id])
    | some Lane.idle => (step s (.enter 0 (topIndex s.normal))).bind fun s' => orderLoop fuel s' acc
    | some Lane.exited => some acc
    | _ => none

def stepOrder (line : String) : String :=
  match fields line with
  | [alg, js] =>
    match parseJobs js with
    | some jobs =>
      let gate : Job := ⟨1000000, 0, false⟩
      let r := do
        let s ← step (init 1 (alg == "fifo")) (.extAdd gate false none)
        let s ← step s (.enter 0 0)
        let s ← (jobs.filter (fun (j : JobSpec) => j.parent.isNone)).foldlM (fun s (j : JobSpec) => step s (.extAdd (toJob j) j.high none)) s
        let s ← step s (.destroy none)
        orderLoop 100000 s []
      match r with
      | some o => "order=" ++ (if o.isEmpty then "." else ",".intercalate (o.map toString))
      | none => "MODEL-STEP-REFUSED"
    | none => "bad-op"
  | _ => "bad-op"

open LLBuild.ProcStatus in
def stepClassify (line : String) : String :=
  match (fields line).head?.bind String.toNat? with
  | some s => match classify s with
    | .succeeded => "Succeeded"
    | .failed => "Failed"
    | .cancelled => "Cancelled"
  | none => "bad-op"

open LLBuild.ProcStatus in
def stepEnv (line : String) : String :=
  match fields line with
  | [inh, req, base, ctl, bid, lid, tid, cfd] =>
    match hexListDecode req, hexListDecode base, Hex.decode bid, Hex.decode lid, Hex.decode tid, Hex.decode cfd with
    | some req, some base, some bid, some lid, some tid, some cfd =>
      let i : EnvIn := { buildId := bid, laneId := lid, taskId := tid, controlFd := if ctl == "1" then some cfd else none,
                         requested := req.map splitEq, inherited := base.map splitEq, inherit := inh == "1" }
      "env=" ++ hexListEncode ((assemble i).map fun kv => kv.1 ++ [61] ++ kv.2)
    | _, _, _, _, _, _ => "bad-op"
  | _ => "bad-op"

open LLBuild.ProcStatus in
def parseEscAct (t : String) : Option Esc.Act :=
  match t.splitOn ":" with
  | ["spawn"] => some .spawn
  | ["cancel"] => some .cancel
  | ["enter"] => some .escEnter
  | ["wake"] => some .escWake
  | ["joinlanes"] => some .joinLanes
  | ["complete"] => some .complete
  | ["joinesc"] => some .joinEsc
  | ["rel", p] => p.toNat?.map .release
  | ["reap", p] => p.toNat?.map .reap
  | _ => none

open LLBuild.ProcStatus in
/-- runs the acts; a refused step is reported with its index -/
def escLoop : Esc.State → List Esc.Act → Nat → Except Nat Esc.State
  | s, [], _ => .ok s
  | s, a :: as, i => match Esc.step s a with
    | some s' => escLoop s' as (i + 1)
    | none => .error i

open LLBuild.ProcStatus in
def stepEsc (line : String) : String :=
  match fields line with
  | [acts] =>
    match (acts.splitOn ",").mapM parseEscAct with
    | some l =>
      match escLoop Esc.init l 0 with
      | .ok s =>
        let ids := fun (l : List Nat) => if l.isEmpty then "." else ",".intercalate (l.map toString)
        let sorted := fun (l : List Nat) => (l.toArray.qsort (· < ·)).toList.eraseDups
        s!"ok=1 joined={if s.escJoined then 1 else 0} waited={if s.waited then 1 else 0} registered={ids (sorted (s.procs.map (·.1)))} killed={ids (sorted s.killSent)}"
      | .error i => s!"ok=0 refused={i}"
    | none => "bad-op"
  | _ => "bad-op"

def modes : List (String × Mode) :=
  [("c16sim", lineLoop stepSim), ("c16simserial", lineLoop stepSimSerial), ("c16order", lineLoop stepOrder),
   ("c16classify", lineLoop stepClassify), ("c16env", lineLoop stepEnv), ("c16esc", lineLoop stepEsc)]

end LLBuild.Drv.C16
