import LLBuild.Drv.Common
import LLBuild.Model.MakeDeps
import LLBuild.Model.DepInfo

namespace LLBuild.Drv.C11
open LLBuild LLBuild.Drv

def join (l : List String) : String := if l.isEmpty then "." else ";".intercalate l

def mdErr : MakeDeps.ErrKind → String
  | .unexpectedInFile => "file"
  | .missingColon => "colon"
  | .unexpectedInPrereqs => "prereq"

def mdAct : MakeDeps.Action → String
  | .ruleStart r u => "S:" ++ Hex.encode r ++ ":" ++ Hex.encode u
  | .dep r u => "D:" ++ Hex.encode r ++ ":" ++ Hex.encode u
  | .ruleEnd => "E"
  | .error k p => "X:" ++ mdErr k ++ ":" ++ toString p

def diErr : DepInfo.ErrKind → String
  | .missingNul => "nul"
  | .missingVersion => "ver"
  | .emptyOperand => "empty"
  | .duplicateVersion => "dup"
  | .unknownOpcode => "opcode"

def diAct : DepInfo.Action → String
  | .version s => "V:" ++ Hex.encode s
  | .input s => "I:" ++ Hex.encode s
  | .output s => "O:" ++ Hex.encode s
  | .missing s => "M:" ++ Hex.encode s
  | .error k p => "X:" ++ diErr k ++ ":" ++ toString p

def stepMakeDeps (line : String) : String :=
  match fields line with
  | [ign, inp] =>
    match Hex.decode inp with
    | some b =>
      if ign == "0" || ign == "1" then
        match MakeDeps.parse (ign == "1") b with
        | .ok acts => join (acts.map mdAct)
        | .error i => "OOB-READ@" ++ toString i
      else "bad-op"
    | none => "bad-op"
  | _ => "bad-op"

def stepDepInfo (line : String) : String :=
  match fields line with
  | [inp] =>
    match Hex.decode inp with
    | some b =>
      match DepInfo.parse b with
      | .ok acts => join (acts.map diAct)
      | .error i => "OOB-READ@" ++ toString i
    | none => "bad-op"
  | _ => "bad-op"

def stepResolve (line : String) : String :=
  match fields line with
  | [wd, p] =>
    match Hex.decode wd, Hex.decode p with
    | some wd, some p =>
      if MakeDeps.isAbsolute p then "abs " ++ Hex.encode p else "rel " ++ Hex.encode (MakeDeps.resolve wd p)
    | _, _ => "bad-op"
  | _ => "bad-op"

def styleOf : String → Option ShellDeps.DepsStyle
  | "makefile" => some .makefile
  | "dependency-info" => some .dependencyInfo
  | "makefile-ignoring-subsequent-outputs" => some .makefileIgnoringSubsequentOutputs
  | _ => none

/-- one build of a shell command whose process succeeds and whose single `deps:` file has the given contents -/
def stepBS (line : String) : String :=
  match fields line with
  | [style, wd, contents] =>
    match styleOf style, Hex.decode wd, Hex.decode contents with
    | some st, some wd, some c =>
      match ShellDeps.completion st [some c] with
      | .error i => "OOB-READ@" ++ toString i
      | .ok status =>
        let (errs, deps) : Nat × List String :=
          match st with
          | .dependencyInfo =>
            match DepInfo.parse c with
            | .ok acts => (DepInfo.numErrors acts, acts.filterMap fun
                | .input s => some ("I:" ++ Hex.encode (ShellDeps.depInfoKey wd s))
                | .missing s => some ("M:" ++ Hex.encode s)
                | .output s => some ("O:" ++ Hex.encode s)
                | _ => none)
            | .error _ => (0, [])
          | _ =>
            match MakeDeps.parse (st == .makefileIgnoringSubsequentOutputs) c with
            | .ok acts => (MakeDeps.numErrors acts, (MakeDeps.discovered wd acts).map fun p => "I:" ++ Hex.encode p)
            | .error _ => (0, [])
        "status=" ++ (if status == .succeeded then "ok" else "failed") ++ " errors=" ++ toString errs ++ " deps=" ++ join deps
    | _, _, _ => "bad-op"
  | _ => "bad-op"

/-- one `deps:` entry of a `c11bsl` line: hex contents, or `x` = the file cannot be opened -/
def fileOf (s : String) : Option ShellDeps.DepsFile :=
  if s == "x" then some none else (Hex.decode s).map some

/-- what the delegate sees while ONE file is processed: dependency-file diagnostics, "unable to open", discovered-dependency
callbacks (kind:path) -/
def fileReport (st : ShellDeps.DepsStyle) (wd : Bytes) : ShellDeps.DepsFile → Nat × Nat × List String
  | none => (0, 1, [])
  | some c =>
    match st with
    | .dependencyInfo =>
      match DepInfo.parse c with
      | .ok acts => (DepInfo.numErrors acts, 0, acts.filterMap fun
          | .input s => some ("I:" ++ Hex.encode (ShellDeps.depInfoKey wd s))
          | .missing s => some ("M:" ++ Hex.encode s)
          | .output s => some ("O:" ++ Hex.encode s)
          | _ => none)
      | .error _ => (0, 0, [])
    | _ =>
      match MakeDeps.parse (st == .makefileIgnoringSubsequentOutputs) c with
      | .ok acts => (MakeDeps.numErrors acts, 0, (MakeDeps.discovered wd acts).map fun p => "I:" ++ Hex.encode p)
      | .error _ => (0, 0, [])

/-- the loop of `processDiscoveredDependencies` as the delegate sees it: files are processed up to and including the first
one for which `processFile` is not `true` -/
def listReport (st : ShellDeps.DepsStyle) (wd : Bytes) : List ShellDeps.DepsFile → Nat × Nat × List String
  | [] => (0, 0, [])
  | f :: fs =>
    let (e, o, d) := fileReport st wd f
    match ShellDeps.processFile st f with
    | .ok true => let (e', o', d') := listReport st wd fs; (e + e', o + o', d ++ d')
    | _ => (e, o, d)

/-- one build in which the shell command runs (its process succeeds) with a `deps:` LIST: `<style> <hex wd> <file>,<file>,...` -/
def stepBSL (line : String) : String :=
  match fields line with
  | [style, wd, files] =>
    match styleOf style, Hex.decode wd, (files.splitOn ",").mapM fileOf with
    | some st, some wd, some fs =>
      match ShellDeps.completion st fs, ShellDeps.discoveredKeys st wd fs with
      | .ok status, .ok keys =>
        let (errs, opens, deps) := listReport st wd fs
        "status=" ++ (if status == .succeeded then "ok" else "failed") ++ " errors=" ++ toString errs ++ " open=" ++ toString opens ++
          " deps=" ++ join deps ++ " keys=" ++ hexListEncode keys
      | .error i, _ => "OOB-READ@" ++ toString i
      | _, .error i => "OOB-READ@" ++ toString i
    | _, _, _ => "bad-op"
  | _ => "bad-op"

def modes : List (String × Mode) :=
  [("c11makedeps", lineLoop stepMakeDeps), ("c11depinfo", lineLoop stepDepInfo),
   ("c11resolve", lineLoop stepResolve), ("c11bs", lineLoop stepBS), ("c11bsl", lineLoop stepBSL)]

end LLBuild.Drv.C11
