/- Executable (bounded) check of the engine invariant, used to validate the invariant on real traces
   before/while it is proved (driver mode `engineinv`).  Not part of any theorem. -/
import LLBuild.Drv.Engine

namespace LLBuild.Drv.EngineInv
open LLBuild LLBuild.Drv LLBuild.Engine LLBuild.Engine.DSL LLBuild.Drv.Engine

def goodRecB (P : Program) (σ : Store) (k : Key) : List String :=
  (if validSeq P k (σ.seq k) then [] else ["G.valid"]) ++
  (if completeSeq P k (σ.seq k) then [] else ["G.complete"]) ++
  (if (σ.res k).value == P.out k (σ.env k) (recvOf (σ.seq k)) then [] else ["G.value"]) ++
  (if σ.disc k == (P.disc k (recvOf (σ.seq k))).map (fun d => (d, P.out d (σ.env k) [])) then [] else ["G.disc"]) ++
  (if (σ.seq k).all (fun qv => qv.1.kind != 0 || (σ.res k).deps.contains ⟨qv.1.key, false, false⟩) then [] else ["G.depsSeq"]) ++
  (if (σ.disc k).all (fun dv => (σ.res k).deps.contains ⟨dv.1, false, false⟩) then [] else ["G.depsDisc"])

def freshRecB (σ : Store) (pend : List (Key × Val)) (k : Key) : List String :=
  (if (σ.seq k).all (fun qv => qv.1.kind != 0 || (σ.res qv.1.key).value == qv.2 || (σ.res k).builtAt < (σ.res qv.1.key).computedAt) then [] else ["F.seq"]) ++
  (if (σ.disc k).all (fun dv => (σ.res dv.1).value == dv.2 || (σ.res k).builtAt < (σ.res dv.1).computedAt || pend.contains dv) then [] else ["F.disc"])

def activeB (s : St) : Bool := s.started

def invCheck (P : Program) (s : St) (n : Nat) : List String :=
  let keys := List.range n
  let perKey (k : Key) : List String :=
    let r := s.mem.res k
    let d := s.db.res k
    (if r.builtAt ≤ s.epoch && r.computedAt ≤ s.epoch then [] else ["memE"]) ++
    (if d.builtAt ≤ s.epoch && d.computedAt ≤ s.epoch then [] else ["dbE"]) ++
    (if s.target.isNone && s.status k != .idle then ["stIdle"] else []) ++
    (if s.target.isSome && !s.started && s.status k != .idle then ["notStarted"] else []) ++
    (if s.status k == .done && !(activeB s && r.builtAt == s.epoch) then ["stDone"] else []) ++
    (if activeB s && r.builtAt == s.epoch && s.status k != .done then ["builtNow"] else []) ++
    (if activeB s && d.builtAt == s.epoch && s.status k != .done then ["dbBuiltNow"] else []) ++
    (if s.status k == .done then
      (if (s.mem.seq k).all (fun qv => qv.1.kind != 0 || s.status qv.1.key == .done) then [] else ["seqDone.seq"]) ++
      (if (s.mem.disc k).all (fun dv => s.status dv.1 == .done || s.pending.contains dv) then [] else ["seqDone.disc"])
     else []) ++
    (if r.builtAt != 0 && !inflight s k then goodRecB P s.mem k ++ freshRecB s.mem s.pending k else []) ++
    (if d.builtAt != 0 then (goodRecB P s.db k ++ freshRecB s.db s.pending k).map ("db." ++ ·) else []) ++
    (if d.builtAt != 0 then
      (if (s.db.seq k).all (fun qv => qv.1.kind != 0 || (s.mem.res qv.1.key).value == qv.2 || d.builtAt < (s.mem.res qv.1.key).computedAt) then [] else ["dbCross.seq"]) ++
      (if (s.db.disc k).all (fun dv => (s.mem.res dv.1).value == dv.2 || d.builtAt < (s.mem.res dv.1).computedAt || s.pending.contains dv) then [] else ["dbCross.disc"])
     else []) ++
    (if r.builtAt != 0 && !inflight s k then
      (if d.builtAt != 0 && d.value == r.value && d.computedAt == r.computedAt && s.db.seq k == s.mem.seq k
          && s.db.disc k == s.mem.disc k && d.builtAt ≤ r.builtAt then [] else ["memDb"])
     else []) ++
    (if s.status k == .done then
      (match cleanVal P s.env 40 k with
       | some v => if v == r.value then [] else ["clean"]
       | none => ["clean-undefined"])
     else []) ++
    (if inflight s k && !activeB s then ["inflightActive"] else []) ++
    (if inflight s k && (s.task k).started then
      let t := s.task k
      (if t.issued == issuedAfter P k t.seq then [] else ["T.issued"]) ++
      (if validSeq P k t.seq then [] else ["T.valid"]) ++
      (if t.seq.all (fun qv => qv.1.kind != 0 || (s.status qv.1.key == .done && (s.mem.res qv.1.key).value == qv.2)) then [] else ["T.inputs"]) ++
      (if s.status k == .running && t.completed then ["T.running"] else []) ++
      (if s.status k == .computing then
        (if completeSeq P k t.seq && t.discs == P.disc k (recvOf t.seq) then [] else ["T.computing"]) ++
        (if t.completed && r.value != P.out k s.env (recvOf t.seq) then ["T.completedValue"] else [])
       else [])
     else [])
  let global : List String :=
    (if s.dbIter ≤ s.epoch then [] else ["iterLe"]) ++
    (if (s.target.isNone || !s.started) && s.dbIter != s.epoch then ["iterEq"] else []) ++
    (if s.target.isNone && !s.pending.isEmpty then ["pendIdle"] else []) ++
    (if activeB s && s.epoch == 0 then ["startedPos"] else []) ++
    (if s.started && s.target.isNone then ["startedTarget"] else []) ++
    (if s.pending.all (fun dv => dv.2 == P.out dv.1 s.env [] && P.self dv.1 && s.status dv.1 != .done) then [] else ["pendOk"])
  global ++ keys.flatMap (fun k => (perKey k).map (fun m => s!"{m}@{k}"))

def runEventsInv (P : Program) (s : St) (evs : List String) (i : Nat) : St × Option String :=
  match evs with
  | [] => (s, none)
  | e :: rest =>
    match parseEvent (toks e) with
    | none => (s, some s!"parse-error {i} {e.trimAscii.toString}")
    | some ev =>
      match step P s ev with
      | none => (s, some s!"reject {i} {e.trimAscii.toString}")
      | some s' =>
        if s'.pendingDropped then runEventsInv P s' rest (i + 1) else
        match invCheck P s' 16 with
        | [] => runEventsInv P s' rest (i + 1)
        | bad => (s', some s!"inv-violated {i} {e.trimAscii.toString} :: {bad}")

def stepLine (d : DState) (line : String) : DState × String :=
  let t := toks line
  if d.pendingRules > 0 then Engine.stepLine d line else
  match t with
  | "T" :: _ =>
    let P := program d.rules
    let body := (line.trimAscii.toString.drop 1).toString
    let evs := body.splitOn ";"
    let (s', err) := runEventsInv P d.st (mergeFinished evs.length evs) 0
    match err with
    | some e => ({ d with st := { s' with target := none } }, e)
    | none => ({ d with st := s' }, s!"ok {evs.length}")
  | _ =>
    let (d', o) := Engine.stepLine d line
    if o.startsWith "ok" || o == "" then
      match (if d'.st.pendingDropped then [] else invCheck (program d'.rules) d'.st 16) with
      | [] => (d', o)
      | bad => (d', s!"inv-violated-after-op {bad}")
    else (d', o)

partial def loop (d : DState) : Mode := fun h out => do
  let line ← h.getLine
  if line.isEmpty then return ()
  let (d', o) := stepLine d line
  if o != "" then out.putStrLn o
  loop d' h out

def modes : List (String × Mode) := [("engineinv", loop {})]

end LLBuild.Drv.EngineInv
