import LLBuild.Drv.Common
import LLBuild.Model.FailProp

/-! Line-protocol modes for C10: every op evaluates the GENERATED tables (plus the fold of Model/FailProp). -/
namespace LLBuild.Drv.C10
open LLBuild LLBuild.Drv LLBuild.FailProp LLBuild.Generated.FailTables

def kindOf (s : String) : Option Kind := do
  let n ← s.toNat?
  Kind.all.find? (·.ord == n)

def boolOf (s : String) : Option Bool :=
  if s == "1" then some true else if s == "0" then some false else none

def b01 (b : Bool) : String := if b then "1" else "0"

def procStatusName : ProcStatus → String
  | .failed => "Failed" | .cancelled => "Cancelled" | .succeeded => "Succeeded" | .skipped => "Skipped" | .unknown => "Unknown"

def kindsOf (s : String) : Option (List Kind) :=
  if s == "." then some [] else (s.splitOn ",").mapM kindOf

def step (line : String) : String :=
  match fields line with
  | ["rfo", c, k, nc, miss] =>
    match CommandClass.all.find? (·.name == c), kindOf k, NodeClass.all.find? (·.name == nc), boolOf miss with
    | some c, some k, some nc, some miss =>
      let r := match nodeValue c k nc miss with
        | some k' => toString k'.ord
        | none => "unreachable"
      s!"virt={b01 nc.isVirtual} ts={b01 nc.isCommandTimestamp} r={r}"
    | _, _, _, _ => "bad-op"
  | ["prov", allow, ks] =>
    match boolOf allow, kindsOf ks with
    | some allow, some ks =>
      match provideAll allow CmdState.init ks with
      | none => "unreachable"
      | some s => match execute s with
        | .run => "run"
        | .skip k rep => s!"skip={k.ord} reported={b01 rep} missing={s.missing}"
    | _, _ => "bad-op"
  | ["valid", c, k, a, b, d, e] =>
    match CommandClass.all.find? (·.name == c), kindOf k, boolOf a, boolOf b, boolOf d, boolOf e with
    | some c, some k, some a, some b, some d, some e =>
      match resultValidGuards c k ⟨a, b, d, e⟩ with
      | some v => b01 v
      | none => "c"
    | _, _, _, _, _, _ => "bad-op"
  | ["pnode", k] => match kindOf k with | some k => b01 (producedNodeValid k) | none => "bad-op"
  | ["pdir", k] => match kindOf k with | some k => b01 (producedDirectoryNodeValid k) | none => "bad-op"
  | ["pred", n, k] =>
    match kindOf k with
    | some k => match predicates.lookup n with
      | some f => b01 (f k)
      | none => "unknown"
    | none => "bad-op"
  | ["proc", how, n] =>
    match n.toNat? with
    | some n =>
      let e : Option ChildEnd := if how == "exit" then some (.exited n) else if how == "sig" then some (.signaled n false) else none
      match e with
      | some e => s!"raw={e.encode} status={procStatusName (waitProcStatus e.encode)}"
      | none => "bad-op"
    | none => "bad-op"
  | ["life", amo, exist, steps] =>
    match boolOf amo, boolOf exist with
    | some amo, some exist =>
      let rec go (l : Life) (ss : List String) (acc : List String) : Option (List String) :=
        match ss with
        | [] => some acc.reverse
        | s :: ss =>
          if s == "s" then (l.step false .start).bind fun l' => go l' ss acc
          else if s == "x" then
            let o := match execute2 amo (!exist) l with
              | .run => "run"
              | .update => "update"
              | .skip k _ => s!"skip={k.ord}"
            go l ss (o :: acc)
          else
            match kindOf (s.drop 1).toString with
            | some k =>
              let st : Option LifeStep := if s.startsWith "p" then some (.prior k) else if s.startsWith "v" then some (.input k) else none
              match st with
              | some st => match l.step false st with
                | some l' => go l' ss acc
                | none => some ["unreachable"]
              | none => none
            | none => none
      match go Life.init (steps.splitOn ",") [] with
      | some outs => ";".intercalate outs
      | none => "bad-op"
    | _, _ => "bad-op"
  | ["kind", k] => match kindOf k with | some k => k.name | none => "none"
  | _ => "bad-op"

def modes : List (String × Mode) := [("c10table", lineLoop step)]

end LLBuild.Drv.C10
