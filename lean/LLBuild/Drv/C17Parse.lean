/- Driver modes for the Ninja parser model (Model/NinjaParser.lean).
   c17parse  "<hex of manifest bytes>" -> the ParseActions callbacks of one Parser::parse(), one item per callback
             (same text as harness/vc17load.cpp mode `c17parse`)
   c17full   "wd:<hex> file:<path-hex>:<content-hex> ..." -> bytes -> lexer model -> parser model -> loader model,
             printed like mode `c17load` (compared with the real ManifestLoader)
   c17render a declaration stream as printed by harness mode `c17decls` ("wd:<hex> file:<hex> <items...> file:...") ->
             "ok f:<path-hex>:<hex of NinjaPrint.render decls | U if not Printable> ..." (the printer of the round-trip theorem) -/
import LLBuild.Drv.Common
import LLBuild.Drv.C17Load
import LLBuild.Model.NinjaParser
import LLBuild.Model.NinjaPrint

namespace LLBuild.Drv.C17Parse
open LLBuild LLBuild.Drv LLBuild.NinjaLexer LLBuild.NinjaParser

def tokStr (t : Token) : String :=
  s!"{t.kind.name}/{t.start}/{t.len}/{t.line}/{t.col}"

def tokList (l : List Token) : String :=
  if l.isEmpty then "." else ",".intercalate (l.map tokStr)

def kindTag : DeclKind → String
  | .build => "b" | .pool => "p" | .rule => "r"

def evStr : Ev → String
  | .beginManifest => "bm:" ++ Hex.encode (bytesOfString "<main>")
  | .endManifest => "em"
  | .error m t => "x:" ++ Hex.encode (bytesOfString m.text) ++ ":" ++ tokStr t
  | .binding n v => "b:" ++ tokStr n ++ ":" ++ tokStr v
  | .default names => "d:" ++ tokList names
  | .include isInc p => (if isInc then "i:" else "s:") ++ tokStr p
  | .beginBuild n outs ins nExp nImp => s!"B:{tokStr n}:{nExp}:{nImp}:{tokList outs}:{tokList ins}"
  | .beginPool n => "P:" ++ tokStr n
  | .beginRule n => "R:" ++ tokStr n
  | .declBinding k n v => "p" ++ kindTag k ++ ":" ++ tokStr n ++ ":" ++ tokStr v
  | .endDecl k st => "e" ++ kindTag k ++ ":" ++ tokStr st

def showRes (r : Res (List Ev)) : String :=
  match r with
  | .ok evs => "ok " ++ " ".intercalate (evs.map evStr)
  | .oob i => s!"crash model-oob={i}"
  | .fuel => "hang model-fuel"

def stepParse (line : String) : String :=
  match fields line with
  | [h] =>
    match Hex.decode h with
    | some buf => showRes (parse genCfg buf)
    | none => "bad-op"
  | _ => "bad-op"

/-- "wd:<hex> file:<path>:<content> ..." -/
def parseCase (line : String) : Option (Bytes × List (Bytes × Bytes)) :=
  let step (acc : Option (Bytes × List (Bytes × Bytes))) (it : String) : Option (Bytes × List (Bytes × Bytes)) :=
    match acc with
    | none => none
    | some (wd, fs) =>
      match it.splitOn ":" with
      | ["wd", h] => (Hex.decode h).map fun b => (b, fs)
      | ["file", p, c] =>
        match Hex.decode p, Hex.decode c with
        | some p, some c => some (wd, (p, c) :: fs)
        | _, _ => none
      | _ => none
  ((fields line).foldl step (some ([], []))).map fun (wd, fs) => (wd, fs.reverse)

def stepFull (line : String) : String :=
  match parseCase line with
  | some (wd, (mainName, main) :: rest) =>
    match loadBytes genCfg NinjaLoader.Cfg.fixed (NinjaLoader.Params.concrete wd) ((mainName, main) :: rest) C17Load.includeFuel main with
    | .ok st => C17Load.showManifest st.errs st.manifest
    | .oob i => s!"crash model-oob={i}"
    | .fuel => "hang model-fuel"
  | _ => "bad-op"

def stepRender (line : String) : String :=
  match C17Load.parseLine line with
  | some (_, files) =>
    "ok " ++ " ".intercalate (files.map fun (p, ds) =>
      "f:" ++ Hex.encode p ++ ":" ++ (if NinjaPrint.Printable ds then Hex.encode (NinjaPrint.render ds) else "U"))
  | none => "bad-op"

def modes : List (String × Mode) :=
  [("c17parse", lineLoop stepParse), ("c17full", lineLoop stepFull), ("c17render", lineLoop stepRender)]

end LLBuild.Drv.C17Parse
