/-
Driver modes for C08: `c08clean` — the model's clean value of every produced, non-virtual node of a description;
`c08xclean` — the same for the EXTENDED client (Model/BuildSystemClientX.lean: discovered dependencies, own failure),
plus how every command's execution ends and which keys it reports (see below).
Input (one case = several lines, terminated by `eval`):
  node <i> <kind: 0 file | 1 virtual | 2 dir | 3 link> <state: 0 missing, x+1 present with content x>
  cmd <c> <tool: 0 shell | 1 phony | 2 mkdir | 3 symlink> <salt> <inputs i,j,..|.> <outputs i,j,..|.>
  eval
Output: one line per case: `<i>=<content>|dir|link:<salt>|failed|missing|?<raw>` for each produced non-virtual node.
-/
import LLBuild.Drv.Common
import LLBuild.Model.BuildSystemClient
import LLBuild.Model.BuildSystemClientX

namespace LLBuild.Drv.C08
open LLBuild LLBuild.Drv LLBuild.BuildSystemClient

structure Acc where
  kinds : List (Nat × Nat) := []
  states : List (Nat × Nat) := []
  cmds : List (Nat × Cmd) := []
  bad : Bool := false

def natList (s : String) : Option (List Nat) :=
  if s == "." || s == "" then some [] else (s.splitOn ",").mapM String.toNat?

def lookupD (l : List (Nat × Nat)) (i : Nat) (dflt : Nat) : Nat :=
  match l.find? (fun p => p.1 == i) with
  | some p => p.2
  | none => dflt

def build (a : Acc) : Desc × Engine.Env :=
  let n := (a.kinds.map (·.1)).foldl max 0 + 1
  let nc := (a.cmds.map (·.1)).foldl max 0 + (if a.cmds.isEmpty then 0 else 1)
  let kindOf := fun i => lookupD a.kinds i 0
  let cmds := (List.range nc).map fun c =>
    match a.cmds.find? (fun p => p.1 == c) with
    | some p => { p.2 with mask := p.2.inputs.map (fun i => kindOf i == 0) }
    | none => ({} : Cmd)
  let d : Desc := { virt := (List.range n).map (fun i => kindOf i == 1), cmds := cmds, targets := [] }
  let env : Engine.Env := fun k => if k % 3 = 0 then lookupD a.states (k / 3) 0 else 0
  (d, env)

def render (a : Acc) : String :=
  if a.bad then "bad-op" else
  let (d, env) := build a
  let fuel := 2 * d.cmds.length + 4
  let n := d.virt.length
  let items := (List.range n).filterMap fun i =>
    match d.producers i with
    | [] => none
    | c :: _ =>
      if d.isVirtual i then none else
      let cmd := d.cmd c
      match cleanEval d env fuel (nodeKey i) with
      | none => some s!"{i}=nofuel"
      | some v =>
        if v == vFailedInput then some s!"{i}=failed"
        else if isExisting v then
          match cmd.tool with
          | .mkdir => some s!"{i}=dir"
          | .symlink => some s!"{i}=link:{cmd.salt}"
          | _ => some s!"{i}={v / 8}"
        else some s!"{i}=?{v}"
  " ".intercalate items

def feed (a : Acc) (line : String) : Acc :=
  match fields line with
  | ["node", i, k, s] =>
    match i.toNat?, k.toNat?, s.toNat? with
    | some i, some k, some s => { a with kinds := (i, k) :: a.kinds, states := (i, s) :: a.states }
    | _, _, _ => { a with bad := true }
  | ["cmd", c, t, salt, ins, outs] =>
    match c.toNat?, t.toNat?, salt.toNat?, natList ins, natList outs with
    | some c, some t, some salt, some ins, some outs =>
      let tool := match t with | 0 => Tool.shell | 1 => Tool.phony | 2 => Tool.mkdir | _ => Tool.symlink
      { a with cmds := (c, { tool := tool, inputs := ins, outputs := outs, salt := salt }) :: a.cmds }
    | _, _, _, _, _ => { a with bad := true }
  | _ => { a with bad := true }

partial def loop (a : Acc) : Mode := fun h out => do
  let line ← h.getLine
  if line.isEmpty then return ()
  if line.trimAscii.toString == "eval" then
    out.putStrLn (render a)
    loop {} h out
  else
    loop (feed a line) h out

/-! ### `c08xclean`: the extended client

Input (one case = several lines, terminated by `evalx`): `node` and `cmd` lines as for `c08clean`, and
  path <i> <hex>                         the (absolute) path of node i — discovered paths are matched against these; a
                                         discovered path that is no node of the case gets a fresh index (a missing file)
  xfail <c> <0|1>                        the process of command c ends with a non-zero status in this state
  xdeps <c> <style 0..3> <f>;<f>;..      the dependency files of c as the loop sees them: `x` (cannot be opened) or
                                         `<ok 0|1>:<i,j,..|.>` (keys by node index, parsed without error?)
  xdepsb <c> <style> <hexwd> <f>,<f>,..  the dependency files of c by CONTENTS (hex, `x` = cannot be opened), style =
                                         makefile | dependency-info | makefile-ignoring-subsequent-outputs | unused;
                                         goes through the parser models of C11 (`absDepsFile`)
  evalx
Output, one line per case: for each command `C<c>=<ok|failed|depsfailed|skipped|nofuel>:<keys>` (how its execution
ends in a clean build — `failed` = exit status, `depsfailed` = dependency files, `skipped` = a missing / failed input —
and the discovered keys it reports, by node index or, when the node has a `path`, by hex path; `.` = none), then
`<i>=<content>|dir|link:<salt>|failed|?<raw>` for each produced non-virtual node as for `c08clean`. -/

structure AccX where
  a : Acc := {}
  paths : List (Nat × Bytes) := []
  fails : List (Nat × Bool) := []
  deps : List (Nat × Nat × List DepsFile) := []
  depsb : List (Nat × ShellDeps.DepsStyle × Bytes × List ShellDeps.DepsFile) := []
  unused : List Nat := []        -- commands with a `deps:` attribute but no `deps-style`

def parseAbsFile (s : String) : Option DepsFile :=
  if s == "x" then some .unreadable else
  match s.splitOn ":" with
  | [ok, ks] => (natList ks).map (fun l => DepsFile.parsed l (ok == "1"))
  | _ => none

def styleOfX : String → Option ShellDeps.DepsStyle
  | "makefile" => some .makefile
  | "dependency-info" => some .dependencyInfo
  | "makefile-ignoring-subsequent-outputs" => some .makefileIgnoringSubsequentOutputs
  | "unused" => some .unused
  | _ => none

def fileOfX (s : String) : Option ShellDeps.DepsFile :=
  if s == "x" then some none else (Hex.decode s).map some

/-- all paths the byte-level dependency files of the case can yield, in order of first appearance -/
def listedPaths (x : AccX) : List Bytes :=
  (x.depsb.flatMap fun (_, st, wd, fs) => fs.flatMap fun f =>
    match ShellDeps.fileKeys st wd f with
    | .ok ks => ks
    | .error _ => []).eraseDups

def buildX (x : AccX) : DescX × Engine.Env × List (Nat × Bytes) :=
  let (d, env) := build x.a
  let n := d.virt.length
  let fresh := (listedPaths x).filter (fun p => !(x.paths.any (fun q => q.2 == p)))
  let paths := x.paths ++ (List.range fresh.length).zipWith (fun j p => (n + j, p)) fresh
  let idx : Bytes → Nat := fun p => match paths.find? (fun q => q.2 == p) with
    | some q => q.1
    | none => 0
  let ext := (List.range d.cmds.length).map fun c =>
    let fail := match x.fails.find? (fun p => p.1 == c) with | some p => p.2 | none => false
    match x.deps.find? (fun p => p.1 == c), x.depsb.find? (fun p => p.1 == c) with
    | some (_, st, fs), _ =>
      ({ depsPaths := List.range fs.length, depsStyle := st, exitsNonZero := fun _ => fail, depsElse := fs } : CmdX)
    | none, some (_, st, wd, fs) =>
      { depsPaths := List.range fs.length, depsStyle := styleCode st, exitsNonZero := fun _ => fail,
        depsElse := fs.map (absDepsFile st wd idx) }
    | none, none => { exitsNonZero := fun _ => fail }
  ({ base := d, ext := ext }, env, paths)

def renderX (x : AccX) : String :=
  if x.a.bad then "bad-op" else
  let (dx, env, paths) := buildX x
  let d := dx.base
  let fuel := 2 * d.cmds.length + 4
  let showKey := fun (i : Nat) => match paths.find? (fun q => q.1 == i) with
    | some q => Hex.encode q.2
    | none => toString i
  let cmds := (List.range d.cmds.length).map fun c =>
    let cm := d.cmd c
    if cm.tool != .shell then
      match cleanEvalX dx env fuel (cmdKey c) with
      | none => s!"C{c}=nofuel:."
      | some v => if v == vFailedCmd then s!"C{c}=skipped:." else s!"C{c}=ok:."
    else
      match cleanRunX dx env fuel c with
      | none => s!"C{c}=nofuel:."
      | some r =>
        let st := match r.status with
          | .skipped => "skipped" | .exitedNonZero => "failed" | .depsFailed => "depsfailed" | .succeeded => "ok"
        let ks := if r.keys.isEmpty then "." else ",".intercalate (r.keys.map showKey)
        s!"C{c}={st}:{ks}"
  let n := d.virt.length
  let items := (List.range n).filterMap fun i =>
    match d.producers i with
    | [] => none
    | c :: _ =>
      if d.isVirtual i then none else
      let cmd := d.cmd c
      match cleanEvalX dx env fuel (nodeKey i) with
      | none => some s!"{i}=nofuel"
      | some v =>
        if v == vFailedInput then some s!"{i}=failed"
        else if isExisting v then
          match cmd.tool with
          | .mkdir => some s!"{i}=dir"
          | .symlink => some s!"{i}=link:{cmd.salt}"
          | _ => some s!"{i}={v / 8}"
        else some s!"{i}=?{v}"
  " ".intercalate (cmds ++ items)

def feedX (x : AccX) (line : String) : AccX :=
  match fields line with
  | ["path", i, p] =>
    match i.toNat?, Hex.decode p with
    | some i, some p => { x with paths := x.paths ++ [(i, p)] }
    | _, _ => { x with a := { x.a with bad := true } }
  | ["xfail", c, b] =>
    match c.toNat? with
    | some c => { x with fails := (c, b == "1") :: x.fails }
    | none => { x with a := { x.a with bad := true } }
  | ["xdeps", c, st, fs] =>
    match c.toNat?, st.toNat?, (fs.splitOn ";").mapM parseAbsFile with
    | some c, some st, some fs => { x with deps := (c, st, fs) :: x.deps }
    | _, _, _ => { x with a := { x.a with bad := true } }
  | ["xdepsb", c, st, wd, fs] =>
    match c.toNat?, styleOfX st, Hex.decode wd, (fs.splitOn ",").mapM fileOfX with
    | some c, some st, some wd, some fs => { x with depsb := (c, st, wd, fs) :: x.depsb }
    | _, _, _, _ => { x with a := { x.a with bad := true } }
  | _ => { x with a := feed x.a line }

partial def loopX (x : AccX) : Mode := fun h out => do
  let line ← h.getLine
  if line.isEmpty then return ()
  if line.trimAscii.toString == "evalx" then
    out.putStrLn (renderX x)
    loopX {} h out
  else
    loopX (feedX x line) h out

def modes : List (String × Mode) := [("c08clean", loop {}), ("c08xclean", loopX {})]

end LLBuild.Drv.C08
