/-
Driver mode for C08: `c08clean` — the model's clean value of every produced, non-virtual node of a description.
Input (one case = several lines, terminated by `eval`):
  node <i> <kind: 0 file | 1 virtual | 2 dir | 3 link> <state: 0 missing, x+1 present with content x>
  cmd <c> <tool: 0 shell | 1 phony | 2 mkdir | 3 symlink> <salt> <inputs i,j,..|.> <outputs i,j,..|.>
  eval
Output: one line per case: `<i>=<content>|dir|link:<salt>|failed|missing|?<raw>` for each produced non-virtual node.
-/
import LLBuild.Drv.Common
import LLBuild.Model.BuildSystemClient

namespace LLBuild.Drv.C08
open LLBuild LLBuild.Drv LLBuild.BuildSystemClient

structure Acc where
  kinds : List (Nat × Nat) := []
  states : List (Nat × Nat) := []
  cmds : List (Nat × Cmd) := []
  bad : Bool := false

def natList (s : String) : Option (List Nat) :=
  if s == "." || s == "" then some [] else (s.splitOn ",").mapM String.toNat?

def lookupD (l : List (Nat × Nat)) (i : Nat) (dflt : Nat) : Nat :=
  match l.find? (fun p => p.1 == i) with
  | some p => p.2
  | none => dflt

def build (a : Acc) : Desc × Engine.Env :=
  let n := (a.kinds.map (·.1)).foldl max 0 + 1
  let nc := (a.cmds.map (·.1)).foldl max 0 + (if a.cmds.isEmpty then 0 else 1)
  let kindOf := fun i => lookupD a.kinds i 0
  let cmds := (List.range nc).map fun c =>
    match a.cmds.find? (fun p => p.1 == c) with
    | some p => { p.2 with mask := p.2.inputs.map (fun i => kindOf i == 0) }
    | none => ({} : Cmd)
  let d : Desc := { virt := (List.range n).map (fun i => kindOf i == 1), cmds := cmds, targets := [] }
  let env : Engine.Env := fun k => if k % 3 = 0 then lookupD a.states (k / 3) 0 else 0
  (d, env)

def render (a : Acc) : String :=
  if a.bad then "bad-op" else
  let (d, env) := build a
  let fuel := 2 * d.cmds.length + 4
  let n := d.virt.length
  let items := (List.range n).filterMap fun i =>
    match d.producers i with
    | [] => none
    | c :: _ =>
      if d.isVirtual i then none else
      let cmd := d.cmd c
      match cleanEval d env fuel (nodeKey i) with
      | none => some s!"{i}=nofuel"
      | some v =>
        if v == vFailedInput then some s!"{i}=failed"
        else if isExisting v then
          match cmd.tool with
          | .mkdir => some s!"{i}=dir"
          | .symlink => some s!"{i}=link:{cmd.salt}"
          | _ => some s!"{i}={v / 8}"
        else some s!"{i}=?{v}"
  " ".intercalate items

def feed (a : Acc) (line : String) : Acc :=
  match fields line with
  | ["node", i, k, s] =>
    match i.toNat?, k.toNat?, s.toNat? with
    | some i, some k, some s => { a with kinds := (i, k) :: a.kinds, states := (i, s) :: a.states }
    | _, _, _ => { a with bad := true }
  | ["cmd", c, t, salt, ins, outs] =>
    match c.toNat?, t.toNat?, salt.toNat?, natList ins, natList outs with
    | some c, some t, some salt, some ins, some outs =>
      let tool := match t with | 0 => Tool.shell | 1 => Tool.phony | 2 => Tool.mkdir | _ => Tool.symlink
      { a with cmds := (c, { tool := tool, inputs := ins, outputs := outs, salt := salt }) :: a.cmds }
    | _, _, _, _, _ => { a with bad := true }
  | _ => { a with bad := true }

partial def loop (a : Acc) : Mode := fun h out => do
  let line ← h.getLine
  if line.isEmpty then return ()
  if line.trimAscii.toString == "eval" then
    out.putStrLn (render a)
    loop {} h out
  else
    loop (feed a line) h out

def modes : List (String × Mode) := [("c08clean", loop {})]

end LLBuild.Drv.C08
