/-
C13 driver mode `c13pairs`.
Input line (what the harness prints before "||"):
  A.ls=<e,dev,ino,mode,size,sec,nsec> A.st=<…> A.fc=<hex|!> A.rl=<hex|!> B.ls=… B.st=… B.fc=… B.rl=…
Output line: what the harness prints after "|| " (FileInfo records of both observations in the three
modes through getFileInfo / getLinkInfo / getFileChecksum, and the six `operator==` results).
-/
import LLBuild.Drv.Common
import LLBuild.Model.FileInfo

namespace LLBuild.Drv.C13
open LLBuild LLBuild.Drv LLBuild.FileInfo

def hexNat? (s : String) : Option Nat :=
  if s.isEmpty then none
  else s.toList.foldlM (fun acc c => (Hex.digitVal c).map fun d => acc * 16 + d) 0

def hexOf (n : Nat) : String := String.ofList (Nat.toDigits 16 n)

def u64 (n : Nat) : Option UInt64 := if n < 2 ^ 64 then some (UInt64.ofNat n) else none

/-- `e,dev,ino,mode,size,sec,nsec` -/
def parseStat (s : String) : Option (Option Stat) := do
  let ns ← (s.splitOn ",").mapM hexNat?
  match ns with
  | [e, d, i, m, z, sec, ns] =>
    if e == 0 then pure none
    else do
      let d ← u64 d; let i ← u64 i; let m ← u64 m; let z ← u64 z; let sec ← u64 sec; let ns ← u64 ns
      pure (some ⟨d, i, m, z, sec, ns⟩)
  | _ => none

def parseOptBytes (s : String) : Option (Option Bytes) :=
  if s == "!" then some none else (Hex.decode s).map some

def value (key tok : String) : Option String :=
  let pre := key ++ "="
  if tok.startsWith pre then some (tok.drop pre.length).toString else none

def parseObs (t : String) : List String → Option (Obs × List String)
  | a :: b :: c :: d :: rest => do
    let ls ← value (t ++ ".ls") a >>= parseStat
    let st ← value (t ++ ".st") b >>= parseStat
    let fc ← value (t ++ ".fc") c >>= parseOptBytes
    let rl ← value (t ++ ".rl") d >>= parseOptBytes
    pure (⟨ls, st, fc, rl⟩, rest)
  | _ => none

def showChecksum (c : Bytes) : String := Hex.encode c

def showInfo (i : FileInfo) : String :=
  ",".intercalate [hexOf i.device.toNat, hexOf i.inode.toNat, hexOf i.mode.toNat, hexOf i.size.toNat,
    hexOf i.modTime.seconds.toNat, hexOf i.modTime.nanoseconds.toNat, showChecksum i.checksum,
    if i.isMissing then "1" else "0"]

def modeList : List (String × FSMode) := [("def", .default), ("da", .deviceAgnostic), ("co", .checksumOnly)]

def showObs (t : String) (o : Obs) : List String :=
  modeList.flatMap fun (n, m) =>
    [s!"{t}.{n}.f={showInfo (fileInfo MD5.digest m o)}", s!"{t}.{n}.l={showInfo (linkInfo MD5.digest m o)}",
     s!"{t}.{n}.c={showChecksum (fileChecksum MD5.digest m o)}"]

def b01 (b : Bool) : String := if b then "1" else "0"

def stepPairs (line : String) : String :=
  match parseObs "A" (fields line) with
  | some (a, rest) =>
    match parseObs "B" rest with
    | some (b, []) =>
      let eqs := modeList.flatMap fun (n, m) =>
        [s!"eq.{n}.f={b01 ((fileInfo MD5.digest m a).eq (fileInfo MD5.digest m b))}",
         s!"eq.{n}.l={b01 ((linkInfo MD5.digest m a).eq (linkInfo MD5.digest m b))}"]
      " ".intercalate (showObs "A" a ++ showObs "B" b ++ eqs)
    | _ => "bad-op"
  | none => "bad-op"

def modes : List (String × Mode) := [("c13pairs", lineLoop stepPairs)]

end LLBuild.Drv.C13
