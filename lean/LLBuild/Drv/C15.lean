import LLBuild.Drv.Common
import LLBuild.Model.Codec

/-!
Line-protocol modes for C15 (same op lines as harness/vc15.cpp):

  c15value   `<kindOrd> <sigHex> <infos> <strings>`      -> `<bytes> k=.. sig=.. infos=.. strs=..`  (encode, then decode + accessors)
  c15vdec    `<bytesHex>`                                -> `k=.. sig=.. infos=.. strs=..` | `oob`
  c15key     `<kindOrd> <nameHex> <N | R:<hex> | S:<hexlist>>` -> `<bytes> k=.. name=.. payload=..`
  c15kdec    `<bytesHex>`                                -> `k=.. name=.. payload=..` | `k=<Unknown ord>` | `oob`
  c15prim    `<width> <valueHex>`                        -> `<bytes> <valueHex read back>`

infos: `.` or comma-separated `dev:inode:mode:size:sec:nsec:checksumHex` (hex numbers);  strings: hex list.
-/
namespace LLBuild.Drv.C15
open LLBuild LLBuild.Drv LLBuild.Codec LLBuild.Generated.Codec

def hexNat (s : String) : Option Nat :=
  if s.isEmpty then none else
  s.toList.foldl (fun acc c => match acc, Hex.digitVal c with
    | some a, some d => some (a * 16 + d)
    | _, _ => none) (some 0)

def natHex (n : Nat) : String :=
  if n == 0 then "0" else
  let rec go (fuel n : Nat) (acc : List Char) : List Char :=
    match fuel with
    | 0 => acc
    | fuel + 1 => if n == 0 then acc else go fuel (n / 16) (Hex.hexDigit (n % 16) :: acc)
  String.ofList (go 64 n [])

def parseInfo (s : String) : Option FileInfo :=
  match s.splitOn ":" with
  | [a, b, c, d, e, f, g] =>
    match hexNat a, hexNat b, hexNat c, hexNat d, hexNat e, hexNat f, Hex.decode g with
    | some a, some b, some c, some d, some e, some f, some g =>
      some ⟨UInt64.ofNat a, UInt64.ofNat b, UInt64.ofNat c, UInt64.ofNat d, UInt64.ofNat e, UInt64.ofNat f, g⟩
    | _, _, _, _, _, _, _ => none
  | _ => none

def parseInfos (s : String) : Option (List FileInfo) :=
  if s == "." then some [] else (s.splitOn ",").mapM parseInfo

def showInfo (fi : FileInfo) : String :=
  ":".intercalate [natHex fi.device.toNat, natHex fi.inode.toNat, natHex fi.mode.toNat, natHex fi.size.toNat,
    natHex fi.modTime_seconds.toNat, natHex fi.modTime_nanoseconds.toNat, Hex.encode fi.checksum_bytes]

def showInfos (l : List FileInfo) : String :=
  if l.isEmpty then "." else ",".intercalate (l.map showInfo)

def showValue (v : Value) : String :=
  s!"k={v.kind.ord} sig={natHex v.signature.toNat} infos={showInfos v.outputs} strs={hexListEncode v.strings}"

def showDecoded : Except Err Value → String
  | .ok v => showValue v
  | .error .oob => "oob"
  | .error (.unknownKind t) => s!"k={t} sig=0 infos=. strs=."

def stepValue (line : String) : String :=
  match fields line with
  | [k, sig, infos, strs] =>
    match k.toNat?.bind VKind.ofOrd?, hexNat sig, parseInfos infos, hexListDecode strs with
    | some k, some sig, some infos, some strs =>
      let v : Value := ⟨k, UInt64.ofNat sig, infos, strs⟩
      let bytes := v.encode
      Hex.encode bytes ++ " " ++ showDecoded (Value.decode bytes)
    | _, _, _, _ => "bad-op"
  | _ => "bad-op"

def stepVDec (line : String) : String :=
  match fields line with
  | [b] =>
    match Hex.decode b with
    | some bytes => showDecoded (Value.decode bytes)
    | none => "bad-op"
  | _ => "bad-op"

def parsePayload (s : String) : Option Payload :=
  if s == "N" then some .none
  else if s.startsWith "R:" then (Hex.decode (s.drop 2).toString).map .raw
  else if s.startsWith "S:" then (hexListDecode (s.drop 2).toString).map .strings
  else none

def showPayload : Payload → String
  | .none => "N"
  | .raw b => "R:" ++ Hex.encode b
  | .strings vs => "S:" ++ hexListEncode vs

def showKey : Except Err Key → String
  | .ok k => s!"k={k.kind.ord} name={Hex.encode k.name} payload={showPayload k.payload}"
  | .error .oob => "oob"
  | .error (.unknownKind _) => s!"k={KKind.Unknown.ord}"

def kkindOfOrd (n : Nat) : Option KKind := KKind.all.find? fun k => k.ord == n

def stepKey (line : String) : String :=
  match fields line with
  | [k, name, payload] =>
    match k.toNat?.bind kkindOfOrd, Hex.decode name, parsePayload payload with
    | some k, some name, some payload =>
      let key : Key := ⟨k, name, payload⟩
      if keyLayout k == .noMake then "bad-op" else
      let bytes := key.encode
      Hex.encode bytes ++ " " ++ showKey (Key.decode bytes)
    | _, _, _ => "bad-op"
  | _ => "bad-op"

def stepKDec (line : String) : String :=
  match fields line with
  | [b] =>
    match Hex.decode b with
    | some bytes => showKey (Key.decode bytes)
    | none => "bad-op"
  | _ => "bad-op"

def stepPrim (line : String) : String :=
  match fields line with
  | [w, v] =>
    match w.toNat?, hexNat v with
    | some w, some v =>
      let bytes := wLE w v
      match rLE w bytes with
      | .ok (r, _) => Hex.encode bytes ++ " " ++ natHex r
      | .error _ => "bad-op"
    | _, _ => "bad-op"
  | _ => "bad-op"

def modes : List (String × Mode) :=
  [("c15value", lineLoop stepValue), ("c15vdec", lineLoop stepVDec), ("c15key", lineLoop stepKey),
   ("c15kdec", lineLoop stepKDec), ("c15prim", lineLoop stepPrim)]

end LLBuild.Drv.C15
