/-
C12 driver mode `c12sig`: one line = one (path, filters, tree) case; prints the bit-exact 64-bit values of the two
signature terms and the root listing.

  <path hex> <filtered 0|1> <hidden names: hex list> <tree tokens…>
  tree  ::= F <6 numbers> | L - | L <6 numbers> | D <6 numbers> <k> (<name hex> tree){k}
  numbers: device inode mode size mtimeSec mtimeNsec (decimal), optionally followed by c<64 hex digits> (checksum)

`fnmatch` is supplied extensionally: the harness evaluates libc `fnmatch` for every (pattern, name) pair of the case
and passes the set of names some pattern matches; the model's `Cfg.fnmatch _ n` is membership in that set.
-/
import LLBuild.Drv.Common
import LLBuild.Model.DirTree

namespace LLBuild.Drv.C12
open LLBuild LLBuild.Drv LLBuild.DirTree

def hex64 (v : UInt64) : String :=
  String.join ((List.range 8).reverse.map fun k => Hex.ofByte (v >>> (8 * k).toUInt64).toUInt8)

/-- an optional seventh token `c<64 hex digits>`: the 32-byte checksum (checksum-only file-system mode) -/
def checksum? : List String → Vector UInt8 32 × List String
  | tok :: rest =>
    if tok.startsWith "c" then
      match Hex.decode (tok.drop 1).toString with
      | some bs => if h : bs.length = 32 then (⟨bs.toArray, by simp [h]⟩, rest) else (Vector.replicate 32 0, tok :: rest)
      | none => (Vector.replicate 32 0, tok :: rest)
    else (Vector.replicate 32 0, tok :: rest)
  | [] => (Vector.replicate 32 0, [])

def info? : List String → Option (Info × List String)
  | a :: b :: c :: d :: e :: f :: rest =>
    match a.toNat?, b.toNat?, c.toNat?, d.toNat?, e.toNat?, f.toNat? with
    | some a, some b, some c, some d, some e, some f =>
      let (ck, rest') := checksum? rest
      some (⟨a.toUInt64, b.toUInt64, c.toUInt64, d.toUInt64, e.toUInt64, f.toUInt64, ck⟩, rest')
    | _, _, _, _, _, _ => none
  | _ => none

mutual
partial def tree? : List String → Option (Tree × List String)
  | "F" :: rest => (info? rest).map fun (i, r) => (.file i, r)
  | "L" :: "-" :: rest => some (.link none, rest)
  | "L" :: rest => (info? rest).map fun (i, r) => (.link (some i), r)
  | "D" :: rest =>
    match info? rest with
    | some (i, k :: r) =>
      match k.toNat? with
      | some k => (children? k r).map fun (cs, r') => (.dir i cs, r')
      | none => none
    | _ => none
  | _ => none
partial def children? : Nat → List String → Option (List (Name × Tree) × List String)
  | 0, r => some ([], r)
  | k + 1, n :: r =>
    match Hex.decode n, tree? r with
    | some n, some (t, r') => (children? k r').map fun (cs, r'') => ((n, t) :: cs, r'')
    | _, _ => none
  | _, _ => none
end

def stepSig (line : String) : String :=
  match fields line with
  | p :: f :: hid :: toks =>
    match Hex.decode p, hexListDecode hid, tree? toks with
    | some path, some hidden, some (t, []) =>
      let cfg : Cfg := ⟨fun _ n => hidden.contains n, if f == "1" then [[0x2a]] else []⟩
      let ls := match t with
        | .dir _ cs => listing cfg cs
        | _ => []
      "tree=" ++ hex64 (treeSig cfg path t).eval ++ " struct=" ++ hex64 (structSig cfg path t).eval ++
        " listing=" ++ hexListEncode ls
    | _, _, _ => "bad-op"
  | _ => "bad-op"

def modes : List (String × Mode) := [("c12sig", lineLoop stepSig)]

end LLBuild.Drv.C12
