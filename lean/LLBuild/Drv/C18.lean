/- Driver modes for C18: the Ninja driver's decision functions over the line protocol. CORE LEAN ONLY.
   c18valid : <gen> <phony> <hasInputs> <curHash> <storedKind> <storedHash> <storedInfos> <outsNow>   -> valid|invalid|oob
   c18decide: <cancelled> <simulate> <strict> <hash> <gen> <restat> <phony> <hasDeps> <hasInputs> <prior> <received> <outsNow>
              prior = - | kind:hash ; received = . | v;v;…  with v = kind/info ; info = dev:ino:mode:size:sec:nsec | -
              -> execute | complete <kind ordinal> <force> <shortcut>
   c18deps  : <hasDeps> <explicit> <implicit> <orderOnly> <depfile entries>    (comma separated keys, `.` = none; an entry `-` =
              a path that does not normalise)  -> the dependency list the engine stores after a successful execution:
              key/orderOnly … (`.` = empty)
   infos are comma separated (`.` = none).
   c18world : the whole-build model (Model/NinjaWorld.lean) on one manifest + history per line:
              <cmd>/<cmd>/… ; <targets> ; <op> <op> …       (paths, command names, hashes, content ids: numbers)
              cmd = name:flags:hash:outs:exp:imp:oo:deps   flags ⊆ p(hony) r(estat) g(enerator) d(eps style) or `-`, lists comma separated
              op  = w,p,cid (write, fresh stamp) | t,p (touch) | a,p,cid|-,stamp (write at a given stamp) | s,p,q (give p the stamp of q)
                    | d,p (delete) | h,c,hash | f,c,0|1 (command c succeeds / fails) | b (build) | n (build with --no-db)
                    | g=<cmd>/<cmd>/… (graph edit: the list of build statements is replaced, command lines included; the world stays)
                    | T=<targets> (the targets of the following builds)
              -> per build, separated by ` ; `:  R<commands executed, sorted> T<command tasks run, sorted> S<0|1 = build failed>
                 D<name=X|F|S|U|P …> O<output=content id|- …> K<name=kind ordinal of the stored command value|- …>
              (content ids are numbered in order of first appearance; `not-wf` if the manifest is not well formed) -/
import LLBuild.Drv.Common
import LLBuild.Model.NinjaBuild
import LLBuild.Model.NinjaWorld

namespace LLBuild.Drv.C18
open LLBuild LLBuild.Drv LLBuild.NinjaBuild LLBuild.NinjaBuild.Gen

def kindOf (n : Nat) : Option Kind := Kind.all.find? (fun k => k.ordinal == n)

def parseInfo (s : String) : Option FInfo :=
  if s == "-" then some FInfo.missing else
  match (s.splitOn ":").mapM String.toNat? with
  | some [d, i, m, z, a, b] => some ⟨d, i, m, z, ⟨a, b⟩⟩
  | _ => none

def parseInfos (s : String) : Option (List FInfo) :=
  if s == "." || s == "" then some [] else (s.splitOn ",").mapM parseInfo

def bit (s : String) : Bool := s == "1"

def parseValue (s : String) : Option BuildValue :=
  match s.splitOn "/" with
  | [k, i] => do
    let kind ← kindOf (← k.toNat?)
    let info ← parseInfo i
    some { kind := kind, infos := [info] }
  | _ => none

def stepValid (line : String) : String :=
  match fields line with
  | [g, p, hi, ch, sk, sh, si, outs] =>
    match ch.toNat?, sk.toNat? >>= kindOf, sh.toNat?, parseInfos si, parseInfos outs with
    | some ch, some sk, some sh, some si, some outs =>
      match commandIsResultValid { hash := ch, generator := bit g, phony := bit p, hasInputs := bit hi }
          { kind := sk, hash := sh, infos := si } outs with
      | .valid => "valid" | .invalid => "invalid" | .oob => "oob"
    | _, _, _, _, _ => "bad-op"
  | _ => "bad-op"

def stepDecide (line : String) : String :=
  match fields line with
  | [ca, si, st, h, g, r, p, hd, hi, prior, recv, outs] =>
    let priorV : Option (Option BuildValue) :=
      if prior == "-" then some none else
      match prior.splitOn ":" with
      | [k, ph] => do
        let kind ← kindOf (← k.toNat?)
        let ph ← ph.toNat?
        some (some { kind := kind, hash := ph })
      | _ => none
    let recvV : Option (List BuildValue) := if recv == "." then some [] else (recv.splitOn ";").mapM parseValue
    match h.toNat?, priorV, recvV, parseInfos outs with
    | some h, some prior, some recv, some outs =>
      let c : Cmd := { hash := h, generator := bit g, restat := bit r, phony := bit p, hasDeps := bit hd, hasInputs := bit hi }
      let ctx : Ctx := { cancelled := bit ca, simulate := bit si, strict := bit st }
      let a := accumulate c ⟨recv, [], []⟩
      match inputsAvailable ctx c a prior outs with
      | .execute => "execute"
      | .complete v f => s!"complete {v.kind.ordinal} {if f then 1 else 0} {if shortcut ctx c a prior outs then 1 else 0}"
    | _, _, _, _ => "bad-op"
  | _ => "bad-op"

def parseKeys (s : String) : List String := if s == "." || s == "" then [] else s.splitOn ","

def stepDeps (line : String) : String :=
  match fields line with
  | [hd, e, i, oo, ents] =>
    let entries : List (Option String) := (parseKeys ents).map fun x => if x == "-" then none else some x
    let l := dependencyList { hash := 0, hasDeps := bit hd } ⟨parseKeys e, parseKeys i, parseKeys oo⟩ entries (fun _ => false)
    if l.isEmpty then "." else " ".intercalate (l.map fun d => s!"{d.key}/{if d.orderOnly then 1 else 0}")
  | _ => "bad-op"

/-! ### c18world -/
namespace W
open LLBuild.NinjaWorld

def nats (s : String) : Option (List Nat) :=
  if s == "." || s == "" then some [] else (s.splitOn ",").mapM String.toNat?

/-- a command and its initial command hash -/
def parseCmd (s : String) : Option (Command × Nat) :=
  match s.splitOn ":" with
  | [n, fl, h, outs, e, i, oo, deps] => do
    let has (c : Char) : Bool := fl.toList.contains c
    some ({ name := ← n.toNat?, outs := ← nats outs, exp := ← nats e, imp := ← nats i, oo := ← nats oo, deps := ← nats deps,
            phony := has 'p', restat := has 'r', generator := has 'g', hasDeps := has 'd' }, ← h.toNat?)
  | _ => none

structure St where
  m : Manifest
  w : World
  targets : List Path := []
  table : List Content := []      -- content ids, in order of first appearance
  out : List String := []
  bad : Bool := false

def intern (t : List Content) (c : Content) : List Content × Nat :=
  match t.findIdx? (· == c) with
  | some i => (t, i)
  | none => (t ++ [c], t.length)

def didLetter : Did → String
  | .executed => "X" | .failed => "F" | .skipped => "S" | .updated => "U" | .phony => "P"

def insertSorted (x : Nat) : List Nat → List Nat
  | [] => [x]
  | y :: ys => if x ≤ y then x :: y :: ys else y :: insertSorted x ys

def sortNats (l : List Nat) : List Nat := l.foldr insertSorted []

def showList (l : List String) : String := if l.isEmpty then "." else ",".intercalate l

def report (st : St) (nodb : Bool) : St :=
  let targets := st.targets
  let w0 := if nodb then st.w.dropDb else st.w
  let r := buildFull st.m targets w0
  let w := r.1
  let ran := sortNats ((runsOf r.2).map (·.name))
  let tasks := sortNats (r.2.map (·.1))
  let did := r.2.map fun e => s!"{e.1}={didLetter e.2}"
  let outs := st.m.cmds.flatMap fun c => if c.phony then [] else c.outs
  let (table, cs) := outs.foldl (fun (acc : List Content × List String) o =>
      match w.content o with
      | none => (acc.1, acc.2 ++ [s!"{o}=-"])
      | some c => let (t, i) := intern acc.1 c; (t, acc.2 ++ [s!"{o}={i}"])) (st.table, [])
  let kinds := st.m.cmds.map fun c => match w.cmdDb c.name with
    | none => s!"{c.name}=-"
    | some r => s!"{c.name}={r.value.kind.ordinal}"
  let line := s!"R{showList (ran.map toString)} T{showList (tasks.map toString)} S{if buildFailed r.2 then 1 else 0} D{showList did} O{showList cs} K{showList kinds}"
  { st with w := w, table := table, out := st.out ++ [line] }

def applyOp (st : St) (op : String) : St :=
  let ed (e : Edit) : St := { st with w := applyEdit st.w e }
  if op.startsWith "g=" then
    match ((op.drop 2).toString.splitOn "/").mapM parseCmd with
    | some cmds =>
      let m : Manifest := { cmds := cmds.map (·.1), sem := st.m.sem }
      if !decide m.WF then { st with bad := true }
      else { st with m := m, w := cmds.foldl (fun w ch => applyEdit w (.setHash ch.1.name ch.2)) st.w }
    | none => { st with bad := true }
  else if op.startsWith "T=" then
    match nats (op.drop 2).toString with
    | some t => { st with targets := t }
    | none => { st with bad := true }
  else
  match op.splitOn "," with
  | ["b"] => report st false
  | ["n"] => report st true
  | ["w", p, c] => match p.toNat?, c.toNat? with
    | some p, some c => ed (.write p [c])
    | _, _ => { st with bad := true }
  | ["t", p] => match p.toNat? with
    | some p => ed (.touch p)
    | _ => { st with bad := true }
  | ["a", p, c, s] => match p.toNat?, s.toNat? with
    | some p, some s => ed (.writeAt p (c.toNat?.map fun c => [c]) s)
    | _, _ => { st with bad := true }
  | ["s", p, q] => match p.toNat?, q.toNat? with       -- give `p` the stamp of `q`
    | some p, some q => match st.w.files q with
      | some f => ed (.writeAt p none f.stamp)
      | none => st
    | _, _ => { st with bad := true }
  | ["d", p] => match p.toNat? with
    | some p => ed (.delete p)
    | _ => { st with bad := true }
  | ["h", c, h] => match c.toNat?, h.toNat? with
    | some c, some h => ed (.setHash c h)
    | _, _ => { st with bad := true }
  | ["f", c, b] => match c.toNat? with
    | some c => ed (.setFail c (b == "1"))
    | _ => { st with bad := true }
  | _ => { st with bad := true }

/-- `<cmd>/<cmd>/… ; <targets> ; <op> <op> …` -/
def stepWorld (line : String) : String :=
  match line.trimAscii.toString.splitOn " ; " with
  | [cs, ts, ops] =>
    match (cs.splitOn "/").mapM parseCmd, nats ts with
    | some cmds, some targets =>
      let m : Manifest := { cmds := cmds.map (·.1), sem := encSem }
      if !decide m.WF then "not-wf" else
      let w0 := cmds.foldl (fun w ch => applyEdit w (.setHash ch.1.name ch.2)) World.empty
      let st := (ops.splitOn " ").foldl applyOp { m := m, w := w0, targets := targets }
      if st.bad then "bad-op" else " ; ".intercalate st.out
    | _, _ => "bad-op"
  | _ => "bad-op"

end W


def modes : List (String × Mode) :=
  [("c18valid", lineLoop stepValid), ("c18decide", lineLoop stepDecide), ("c18deps", lineLoop stepDeps),
   ("c18world", lineLoop W.stepWorld)]

end LLBuild.Drv.C18
