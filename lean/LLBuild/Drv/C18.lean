/- Driver modes for C18: the Ninja driver's decision functions over the line protocol. CORE LEAN ONLY.
   c18valid : <gen> <phony> <hasInputs> <curHash> <storedKind> <storedHash> <storedInfos> <outsNow>   -> valid|invalid|oob
   c18decide: <cancelled> <simulate> <strict> <hash> <gen> <restat> <phony> <hasDeps> <hasInputs> <prior> <received> <outsNow>
              prior = - | kind:hash ; received = . | v;v;…  with v = kind/info ; info = dev:ino:mode:size:sec:nsec | -
              -> execute | complete <kind ordinal> <force> <shortcut>
   c18deps  : <hasDeps> <explicit> <implicit> <orderOnly> <depfile entries>    (comma separated keys, `.` = none; an entry `-` =
              a path that does not normalise)  -> the dependency list the engine stores after a successful execution:
              key/orderOnly … (`.` = empty)
   infos are comma separated (`.` = none). -/
import LLBuild.Drv.Common
import LLBuild.Model.NinjaBuild

namespace LLBuild.Drv.C18
open LLBuild LLBuild.Drv LLBuild.NinjaBuild LLBuild.NinjaBuild.Gen

def kindOf (n : Nat) : Option Kind := Kind.all.find? (fun k => k.ordinal == n)

def parseInfo (s : String) : Option FInfo :=
  if s == "-" then some FInfo.missing else
  match (s.splitOn ":").mapM String.toNat? with
  | some [d, i, m, z, a, b] => some ⟨d, i, m, z, ⟨a, b⟩⟩
  | _ => none

def parseInfos (s : String) : Option (List FInfo) :=
  if s == "." || s == "" then some [] else (s.splitOn ",").mapM parseInfo

def bit (s : String) : Bool := s == "1"

def parseValue (s : String) : Option BuildValue :=
  match s.splitOn "/" with
  | [k, i] => do
    let kind ← kindOf (← k.toNat?)
    let info ← parseInfo i
    some { kind := kind, infos := [info] }
  | _ => none

def stepValid (line : String) : String :=
  match fields line with
  | [g, p, hi, ch, sk, sh, si, outs] =>
    match ch.toNat?, sk.toNat? >>= kindOf, sh.toNat?, parseInfos si, parseInfos outs with
    | some ch, some sk, some sh, some si, some outs =>
      match commandIsResultValid { hash := ch, generator := bit g, phony := bit p, hasInputs := bit hi }
          { kind := sk, hash := sh, infos := si } outs with
      | .valid => "valid" | .invalid => "invalid" | .oob => "oob"
    | _, _, _, _, _ => "bad-op"
  | _ => "bad-op"

def stepDecide (line : String) : String :=
  match fields line with
  | [ca, si, st, h, g, r, p, hd, hi, prior, recv, outs] =>
    let priorV : Option (Option BuildValue) :=
      if prior == "-" then some none else
      match prior.splitOn ":" with
      | [k, ph] => do
        let kind ← kindOf (← k.toNat?)
        let ph ← ph.toNat?
        some (some { kind := kind, hash := ph })
      | _ => none
    let recvV : Option (List BuildValue) := if recv == "." then some [] else (recv.splitOn ";").mapM parseValue
    match h.toNat?, priorV, recvV, parseInfos outs with
    | some h, some prior, some recv, some outs =>
      let c : Cmd := { hash := h, generator := bit g, restat := bit r, phony := bit p, hasDeps := bit hd, hasInputs := bit hi }
      let ctx : Ctx := { cancelled := bit ca, simulate := bit si, strict := bit st }
      let a := accumulate c ⟨recv, [], []⟩
      match inputsAvailable ctx c a prior outs with
      | .execute => "execute"
      | .complete v f => s!"complete {v.kind.ordinal} {if f then 1 else 0} {if shortcut ctx c a prior outs then 1 else 0}"
    | _, _, _, _ => "bad-op"
  | _ => "bad-op"

def parseKeys (s : String) : List String := if s == "." || s == "" then [] else s.splitOn ","

def stepDeps (line : String) : String :=
  match fields line with
  | [hd, e, i, oo, ents] =>
    let entries : List (Option String) := (parseKeys ents).map fun x => if x == "-" then none else some x
    let l := dependencyList { hash := 0, hasDeps := bit hd } ⟨parseKeys e, parseKeys i, parseKeys oo⟩ entries (fun _ => false)
    if l.isEmpty then "." else " ".intercalate (l.map fun d => s!"{d.key}/{if d.orderOnly then 1 else 0}")
  | _ => "bad-op"

def modes : List (String × Mode) :=
  [("c18valid", lineLoop stepValid), ("c18decide", lineLoop stepDecide), ("c18deps", lineLoop stepDeps)]

end LLBuild.Drv.C18
