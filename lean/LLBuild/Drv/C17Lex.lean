import LLBuild.Drv.Common
import LLBuild.Model.NinjaLexer
import LLBuild.Model.ShellEscape

namespace LLBuild.Drv.C17Lex
open LLBuild LLBuild.Drv LLBuild.NinjaLexer

def modeOfChar (c : Char) : LexMode :=
  if c == 'i' then .identifierSpecific else if c == 'p' then .pathString else if c == 'v' then .variableString else .none

def tokStr (t : Token) : String :=
  s!"{t.kind.name},{t.start},{t.len},{t.line},{t.col}"

/-- "<modes> <hex>" -> "ok Kind,start,len,line,col ..."  (same text as harness/vc17lex.cpp `lex`) -/
def stepLex (cfg : Cfg) (line : String) : String :=
  match fields line with
  | [ms, h] =>
    match Hex.decode h with
    | some buf =>
      if ms.isEmpty then "bad-op" else
      match lexAll cfg buf (cycle (ms.toList.map modeOfChar)) with
      | .ok toks => "ok " ++ " ".intercalate (toks.map tokStr)
      | .oob i => s!"crash model-oob={i}"
      | .fuel => "hang model-fuel"
    | none => "bad-op"
  | _ => "bad-op"

def stepShesc (line : String) : String :=
  match fields line with
  | [h] =>
    match Hex.decode h with
    | some p => Hex.encode (ShellEscape.shellEscaped p)
    | none => "bad-op"
  | _ => "bad-op"

/-- "<hex>" -> "words=<hexlist>" | "none" -/
def stepShwords (line : String) : String :=
  match fields line with
  | [h] =>
    match Hex.decode h with
    | some p =>
      match ShellEscape.Sh.words p with
      | some ws => "words=" ++ hexListEncode ws
      | none => "none"
    | none => "bad-op"
  | _ => "bad-op"

def bits (f : Nat → Bool) : String := String.ofList ((List.range 256).map fun i => if f i then '1' else '0')

def stepCls (_ : String) : String :=
  "ident=" ++ bits (fun i => inRanges Generated.NinjaLexer.identifierCharRanges (UInt8.ofNat i)) ++
  " simple=" ++ bits (fun i => inRanges Generated.NinjaLexer.simpleIdentifierCharRanges (UInt8.ofNat i)) ++
  " space=" ++ bits (fun i => isspaceC (Int.ofNat i)) ++
  " spaceEOF=" ++ (if isspaceC (-1) then "1" else "0")

def modes : List (String × Mode) :=
  [("c17lex", lineLoop (stepLex genCfg)), ("c17lex-legacy", lineLoop (stepLex legacyCfg)),
   ("c17shesc", lineLoop stepShesc), ("c17shwords", lineLoop stepShwords), ("c17cls", lineLoop stepCls)]

end LLBuild.Drv.C17Lex
