import LLBuild.Drv.Common
import LLBuild.Model.BuildDB

/-! Driver modes for the database-layer model (C03; C04 reuses `stepLine`).  Same line protocol as
harness/vc03.cpp. -/
namespace LLBuild.Drv.C03
open LLBuild LLBuild.Drv LLBuild.BuildDB LLBuild.Generated

def errName : Err → String
  | .busy => "busy" | .version => "version" | .corrupt => "corrupt" | .dangling => "dangling" | .other => "other"

def depsString (ds : List Dep) : String :=
  if ds.isEmpty then "." else
  ",".intercalate (ds.map fun d => Hex.encode d.key ++ ":" ++ toString ((if d.orderOnly then 1 else 0) + (if d.singleUse then 2 else 0)))

def resultString (r : Result) : String :=
  "value=" ++ Hex.encode r.value ++ " sig=" ++ toString r.signature ++ " built=" ++ toString r.builtAt ++
  " computed=" ++ toString r.computedAt ++ " t=3,5 deps=" ++ depsString r.deps

def insertSorted (x : String) : List String → List String
  | [] => [x]
  | y :: ys => if x ≤ y then x :: y :: ys else y :: insertSorted x ys

def outcomeString : Outcome → String
  | .ok => "ok"
  | .epoch n => "epoch=" ++ toString n
  | .absent => "none"
  | .result r => resultString r
  | .keys l =>
    let rows := (l.map fun (k, r) => "key=" ++ Hex.encode k ++ "|" ++ resultString r).foldr insertSorted []
    "n=" ++ toString l.length ++ "/" ++ toString l.length ++ String.join (rows.map (" ; " ++ ·))
  | .err e => "error=" ++ errName e
  | .noConn => "no-conn"

/-- storage class of a bound blob: `sqlite3_bind_blob(stmt, i, nullptr, 0, ...)` binds NULL -/
def blobType (field : String) (b : Bytes) : String :=
  let kind := ((SQLiteDB.insertBinds.find? (fun e => e.2.2 == field)).map (·.2.1)).getD "blob"
  if b.isEmpty then "null" else kind

def rawDump (s : Snapshot) : String :=
  if !s.schema then "noschema" else
  let keys := s.keyNames.map fun (id, v) => toString id ++ ":" ++ v.typeName ++ ":" ++ Hex.encode v.toText
  let rows := (sortRows s.rows).map fun (id, r) =>
    toString id ++ ":" ++ blobType "value" r.value ++ ":" ++ Hex.encode r.value ++ ":" ++ toString r.signature ++ ":" ++
    toString r.builtAt ++ ":" ++ toString r.computedAt ++ ":3:5:" ++ Hex.encode r.deps
  "info=" ++ toString s.version ++ "," ++ toString s.client ++ "," ++ toString s.iteration ++
  " keys=" ++ (if keys.isEmpty then "." else ",".intercalate keys) ++
  " rows=" ++ (if rows.isEmpty then "." else ",".intercalate rows)

def parseDeps (s : String) : Option (List Dep) :=
  if s == "." then some [] else
  (s.splitOn ",").mapM fun d =>
    match d.splitOn ":" with
    | [k, f] =>
      match Hex.decode k, f.toNat? with
      | some k, some f => some ⟨k, f % 2 == 1, f / 2 % 2 == 1⟩
      | _, _ => none
    | _ => none

def parseOp (f : List String) : Option Op :=
  match f with
  | ["reset"] => some .reset
  | ["crash"] => some .crash
  | ["new", c, cl, r] => do some (.new (← c.toNat?) ((← cl.toNat?) % 4294967296) (r == "1"))
  | ["drop", c] => do some (.drop (← c.toNat?))
  | ["epoch", c] => do some (.epoch (← c.toNat?))
  | ["setiter", c, n] => do some (.setiter (← c.toNat?) (← n.toNat?))
  | ["start", c] => do some (.start (← c.toNat?))
  | ["complete", c] => do some (.complete (← c.toNat?))
  | ["set", c, k, v, sg, b, cm, ds] => do
    some (.set (← c.toNat?) (← Hex.decode k) ⟨← Hex.decode v, ← sg.toNat?, ← b.toNat?, ← cm.toNat?, ← parseDeps ds⟩)
  | ["lookup", c, k] => do some (.lookup (← c.toNat?) (← Hex.decode k))
  | ["keys", c] => do some (.keys (← c.toNat?))
  | _ => none

def stepLine (w : World) (line : String) : World × String :=
  match fields line with
  | ["raw"] => (w, if w.lock.isSome then "error=busy" else rawDump w.committed)
  | f =>
    match parseOp f with
    | none => (w, "bad-op")
    | some op => let (w', o) := step w op; (w', outcomeString o)

/-- C04: every op line also prints the snapshot a process killed right after this op would leave behind -/
def stepLineCommitted (w : World) (line : String) : World × String :=
  let (w', o) := stepLine w line
  (w', o ++ " || " ++ rawDump w'.committed)

def stepAffinity (line : String) : String :=
  match fields line with
  | [d, a, b] =>
    match Hex.decode d, Hex.decode a, Hex.decode b with
    | some d, some a, some b =>
      let aff := affinityOf d
      let stored := applyAffinity aff (.text a)
      let probe := applyCompareAffinity aff (.text b)
      match stored, probe with
      | .unmodelled _, _ => "unmodelled"
      | _, .unmodelled _ => "unmodelled"
      | _, _ => stored.typeName ++ ":" ++ Hex.encode stored.toText ++ " eq=" ++ (if stored.eqv probe then "1" else "0")
    | _, _, _ => "bad-op"
  | _ => "bad-op"

def stepMerged (line : String) : String :=
  match fields line with
  | c :: _ =>
    match c.toNat? with
    | some c => "schema=" ++ toString SQLiteDB.currentSchemaVersion ++ " client=" ++ toString (mergedVersion (c % 4294967296))
    | none => "bad-op"
  | _ => "bad-op"

def modes : List (String × Mode) :=
  [("c03db", stateLoop stepLine World.init), ("c03affinity", lineLoop stepAffinity), ("c03merged", lineLoop stepMerged)]

end LLBuild.Drv.C03
