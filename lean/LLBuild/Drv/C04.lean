import LLBuild.Drv.C03

/-! Driver mode for C04: the C03 stepper, additionally printing the committed snapshot after every op. -/
namespace LLBuild.Drv.C04
open LLBuild.Drv LLBuild.BuildDB

def modes : List (String × Mode) := [("c04db", stateLoop LLBuild.Drv.C03.stepLineCommitted World.init)]

end LLBuild.Drv.C04
