/-
Driver modes for the concrete engine model (`LLBuild.EngineImpl`).

* `engineimpl`: reads the op lines the harness `vengine trace` reads and prints, per op, the line the
  harness prints (`ok`, the trace of a build, the `O` value, the `D` dump).  `K` ops (fork/crash) and
  mode-1 builds (free-running threads) print `unsupported`; since the model then no longer knows the
  state of the store, every later op up to the next `W` prints `unsupported` as well.  The same holds
  after a build whose trace ends in `FUEL` or `BAD <what>` (the model predicts that the C++ has no
  defined behaviour from that point: abort, out-of-bounds read, use of a freed scan record, deadlock).
* `engineimplcheck`: the same ops; for each build the model's own trace is converted with
  `EngineImpl.toEvents` and replayed through the abstract monitor (`Engine.step`); prints `ok <n>` or
  `rejected <i> <event>`.
CORE LEAN ONLY.
-/
import LLBuild.Drv.Common
import LLBuild.Drv.Engine
import LLBuild.Model.EngineImpl

namespace LLBuild.Drv.EngineImpl
open LLBuild LLBuild.Drv LLBuild.Engine LLBuild.Engine.DSL LLBuild.EngineImpl

structure DState where
  st : State := {}
  pendingRules : Nat := 0
  acc : List RuleSpec := []
  /-- an unsupported op was seen since the last `W` -/
  lost : Bool := false
  /-- abstract monitor state (mode `engineimplcheck`) -/
  mon : Engine.St := {}

/-- `program[s.key] = s` -/
def addRule (acc : List RuleSpec) (r : RuleSpec) : List RuleSpec :=
  if acc.any (fun x => x.key == r.key) then acc.map (fun x => if x.key == r.key then r else x) else acc ++ [r]

def takeSched : Nat → List Nat → Option (List SchedItem)
  | 0, _ => some []
  | n + 1, c :: cnt :: rest =>
    if rest.length < cnt then none else do
      let more ← takeSched n (rest.drop cnt)
      some ({ cancel := c != 0, keys := rest.take cnt } :: more)
  | _, _ => none

/-- monitor step that cannot fail the driver: a rejected administrative event leaves the monitor unchanged -/
def monStep (P : Program) (m : Engine.St) (e : Event) : Engine.St := (Engine.step P m e).getD m

def showEvent (e : Event) : String := (toString (repr e)).replace "\n" " "

/-- replay events through the monitor -/
def monRun (P : Program) : Engine.St → List Event → Nat → Engine.St × Option String
  | m, [], _ => (m, none)
  | m, e :: rest, i =>
    match Engine.step P m e with
    | some m' => monRun P m' rest (i + 1)
    | none => (m, some s!"rejected {i} {showEvent e}")

/-- one op line; `check` selects what a build prints -/
def stepLine (check : Bool) (d : DState) (line : String) : DState × String :=
  let t := Drv.Engine.toks line
  if d.pendingRules > 0 then
    match t with
    | "R" :: rest =>
      match (Drv.Engine.nums rest).bind Drv.Engine.parseRule with
      | some r =>
        let acc := addRule d.acc r
        if d.pendingRules == 1 then
          ({ d with acc := [], pendingRules := 0, st := opProgram acc d.st,
                    mon := monStep (program acc) d.mon .restart }, if d.lost then "unsupported" else "ok")
        else ({ d with acc := acc, pendingRules := d.pendingRules - 1 }, "")
      | none => ({ d with pendingRules := 0, lost := true }, "bad-rule")
    | _ => ({ d with pendingRules := 0, lost := true }, "bad-rule")
  else
  let P := program d.st.rules
  match t with
  | [] => (d, "")
  | ["W"] => ({ d with st := opWipe d.st, lost := false, mon := {} }, "ok")
  | _ =>
  if d.lost then (d, "unsupported") else
  match t with
  | ["P", n] =>
    match n.toNat? with
    | some 0 => ({ d with st := opProgram [] d.st, mon := monStep (program []) d.mon .restart }, "ok")
    | some k => ({ d with pendingRules := k, acc := [] }, "")
    | none => (d, "bad-op")
  | ["E"] => ({ d with st := opRestart d.st, mon := monStep P d.mon .restart }, "ok")
  | ["M", a, b] =>
    match a.toNat?, b.toNat? with
    | some a, some b => ({ d with st := opMutate a b d.st, mon := monStep P d.mon (.mutate a b) }, "ok")
    | _, _ => (d, "bad-op")
  | ["F"] => ({ d with st := opFail d.st }, "ok")
  | ["D"] => (d, if check then "ok" else renderStore d.st.store)
  | ["O", k] =>
    match k.toNat? with
    | some k => (d, if check then "ok" else natS (opOracle k d.st))
    | none => (d, "bad-op")
  | "K" :: rest =>
    -- a build killed in a forked child: the prefix it had recorded, then a new engine on the unchanged store.  The
    -- monitor of the checking mode does not follow it (the abstract driver `enginecheck` replays the real prefix).
    if check then ({ d with lost := true }, "unsupported") else
    match Drv.Engine.nums rest with
    | some (key :: at_ :: _mode :: ni :: items) =>
      match takeSched ni items with
      | none => (d, "bad-op")
      | some sched =>
        let full := runBuild key 0 (sched.map fun i => { i with cancel := false }) d.st
        if full.halted then ({ d with lost := true }, "unsupported") else
        ({ d with st := opRestart d.st }, renderTrace (killedTrace key at_ sched d.st) ++ " ; KILL")
    | _ => (d, "bad-op")
  | "B" :: rest =>
    match Drv.Engine.nums rest with
    | some (key :: cancelAt :: mode :: ni :: items) =>
      match takeSched ni items with
      | none => (d, "bad-op")
      | some sched =>
        if mode != 0 then ({ d with lost := true }, "unsupported") else
        let st := runBuild key cancelAt sched d.st
        let toks := st.trace.reverse
        -- a halted build (`FUEL` / `BAD …`: the C++ has no defined behaviour from there on) loses the state
        let d := { d with lost := st.halted }
        if !check then ({ d with st := st }, renderTrace toks) else
        match toEvents toks with
        | none => ({ d with st := st, mon := { d.mon with target := none } }, "rejected not-events " ++ renderTrace toks)
        | some evs =>
          let (m, err) := monRun P d.mon evs 0
          match err with
          | some e => ({ d with st := st, mon := { m with target := none } }, e ++ " | " ++ renderTrace toks)
          | none => ({ d with st := st, mon := m }, s!"ok {evs.length}")
    | _ => (d, "bad-op")
  | _ => (d, "bad-op")

/-- lines that only accumulate a multi-line op print nothing -/
partial def loop (check : Bool) (d : DState) : Mode := fun h out => do
  let line ← h.getLine
  if line.isEmpty then return ()
  let (d', o) := stepLine check d line
  if o != "" || (Drv.Engine.toks line).isEmpty then out.putStrLn o
  loop check d' h out

def modes : List (String × Mode) := [("engineimpl", loop false {}), ("engineimplcheck", loop true {})]

end LLBuild.Drv.EngineImpl
