/- Driver modes for C17LOAD: read a declaration stream (printed by harness/vc17load.cpp from the real
   Parser), run the loader model / the reference semantics, print the manifest canonically. -/
import LLBuild.Drv.Common
import LLBuild.Model.NinjaLoader
import LLBuild.Model.NinjaSpec

namespace LLBuild.Drv.C17Load
open LLBuild LLBuild.Drv LLBuild.NinjaLoader

/-- parser state while reading the items of one line -/
structure PS where
  wd : Bytes := []
  files : List (Bytes × List Decl) := []      -- completed files, reversed
  curFile : Option Bytes := none
  decls : List Decl := []                      -- of the current file, reversed
  group : Option Decl := none                  -- open rule/build/pool (params reversed)
  bad : Bool := false

def closeFile (s : PS) : PS :=
  match s.curFile with
  | some f => { s with files := (f, s.decls.reverse) :: s.files, curFile := none, decls := [] }
  | none => s

def addParam (d : Decl) (b : Binding) : Decl :=
  match d with
  | .rule n ps => .rule n (b :: ps)
  | .build r o i a c ps => .build r o i a c (b :: ps)
  | .pool n ps => .pool n (b :: ps)
  | d => d

def closeGroup (d : Decl) : Decl :=
  match d with
  | .rule n ps => .rule n ps.reverse
  | .build r o i a c ps => .build r o i a c ps.reverse
  | .pool n ps => .pool n ps.reverse
  | d => d

def item (s : PS) (it : String) : PS :=
  let fs := it.splitOn ":"
  let badS : PS := { s with bad := true }
  match fs with
  | ["wd", h] => match Hex.decode h with | some b => { s with wd := b } | none => badS
  | ["file", h] =>
    match Hex.decode h with
    | some b => { closeFile s with curFile := some b }
    | none => badS
  | ["x"] => { s with decls := Decl.perr :: s.decls }
  | ["b", n, v] =>
    match Hex.decode n, Hex.decode v with
    | some n, some v => { s with decls := .binding ⟨n, v⟩ :: s.decls }
    | _, _ => badS
  | ["p", n, v] =>
    match Hex.decode n, Hex.decode v, s.group with
    | some n, some v, some g => { s with group := some (addParam g ⟨n, v⟩) }
    | _, _, _ => badS
  | ["e"] =>
    match s.group with
    | some g => { s with decls := closeGroup g :: s.decls, group := none }
    | none => badS
  | ["r", n] => match Hex.decode n with | some n => { s with group := some (.rule n []) } | none => badS
  | ["P", n] => match Hex.decode n with | some n => { s with group := some (.pool n []) } | none => badS
  | ["B", r, a, c, o, i] =>
    match Hex.decode r, a.toNat?, c.toNat?, hexListDecode o, hexListDecode i with
    | some r, some a, some c, some o, some i => { s with group := some (.build r o i a c []) }
    | _, _, _, _, _ => badS
  | ["d", l] => match hexListDecode l with | some l => { s with decls := .default l :: s.decls } | none => badS
  | ["i", p] => match Hex.decode p with | some p => { s with decls := .include p :: s.decls } | none => badS
  | ["s", p] => match Hex.decode p with | some p => { s with decls := .subninja p :: s.decls } | none => badS
  | _ => badS

/-- (working directory, files in order; the first one is the main file) -/
def parseLine (line : String) : Option (Bytes × List (Bytes × List Decl)) :=
  let s := closeFile ((fields line).foldl item {})
  if s.bad || s.group.isSome then none else some (s.wd, s.files.reverse)

def hexL (l : List Bytes) : String := hexListEncode l

def showCmd (c : Cmd) : String :=
  let exp := c.ins.take c.nExp
  let imp := (c.ins.drop c.nExp).take c.nImp
  let oo := c.ins.drop (c.nExp + c.nImp)
  " | rule=" ++ Hex.encode c.rule ++ " outs=" ++ hexL (c.outs.map (·.screen)) ++
  " ocanon=" ++ hexL (c.outs.map (·.canon)) ++
  " exp=" ++ hexL (exp.map (·.screen)) ++ " imp=" ++ hexL (imp.map (·.screen)) ++ " oo=" ++ hexL (oo.map (·.screen)) ++
  " icanon=" ++ hexL (c.ins.map (·.canon)) ++
  " cmd=" ++ Hex.encode c.command ++ " desc=" ++ Hex.encode c.description ++
  " depfile=" ++ Hex.encode c.depfile ++ " deps=" ++ toString c.depsStyle ++
  " rsp=" ++ Hex.encode c.rspfile ++ " rspc=" ++ Hex.encode c.rspContent ++
  " gen=" ++ (if c.generator then "1" else "0") ++ " restat=" ++ (if c.restat then "1" else "0") ++
  " pool=" ++ (match c.pool with | some (n, d) => Hex.encode n ++ ":" ++ toString d | none => "-")

def uniqPools : List (Bytes × Nat) → List Bytes → List (Bytes × Nat)
  | [], _ => []
  | (n, d) :: r, seen => if seen.contains n then uniqPools r seen else (n, d) :: uniqPools r (n :: seen)

def showManifest (errs : List Err) (m : Spec.Manifest) : String :=
  let es := (errs.map Err.name).mergeSort (fun a b => decide (a ≤ b))
  let ps := ((uniqPools m.pools []).map fun (n, d) => Hex.encode n ++ ":" ++ toString d).mergeSort (fun a b => decide (a ≤ b))
  "errs=" ++ (if es.isEmpty then "." else ",".intercalate es) ++
  " pools=" ++ (if ps.isEmpty then "." else ",".intercalate ps) ++
  " defaults=" ++ hexL m.defaults ++ " ncmd=" ++ toString m.cmds.length ++
  String.join (m.cmds.map showCmd)

def includeFuel : Nat := 64

def runLoad (cfg : Cfg) (line : String) : String :=
  match parseLine line with
  | some (wd, (mainName, main) :: rest) =>
    let st := load cfg (Params.concrete wd) ((mainName, main) :: rest) includeFuel main
    showManifest st.errs st.manifest
  | _ => "bad-op"

def runSpec (ninjaEsc : Bool) (line : String) : String :=
  match parseLine line with
  | some (wd, (mainName, main) :: rest) =>
    let P := Params.concrete wd
    let P := if ninjaEsc then { P with esc := ninjaShellEscape } else P
    match Spec.load P ((mainName, main) :: rest) includeFuel main with
    | some m => showManifest [] m
    | none => "invalid"
  | _ => "bad-op"

def modes : List (String × Mode) :=
  [("c17load", lineLoop (runLoad Cfg.fixed)), ("c17load_asfound", lineLoop (runLoad Cfg.asFound)),
   ("c17spec", lineLoop (runSpec false)), ("c17spec_ninja", lineLoop (runSpec true))]

end LLBuild.Drv.C17Load
