/- Helpers shared by the per-property driver modules (line protocol). CORE LEAN ONLY. -/
import LLBuild.Model.Bytes

namespace LLBuild.Drv

abbrev Mode := IO.FS.Stream → IO.FS.Stream → IO Unit

def fields (line : String) : List String :=
  line.trimAscii.toString.splitOn " "

/-- "a,b,c" of hex fields; "." (or "") is the empty list -/
def hexListDecode (s : String) : Option (List Bytes) :=
  if s == "." || s == "" then some [] else (s.splitOn ",").mapM Hex.decode

def hexListEncode (l : List Bytes) : String :=
  if l.isEmpty then "." else ",".intercalate (l.map Hex.encode)

partial def lineLoop (f : String → String) : Mode := fun h out => do
  let line ← h.getLine
  if line.isEmpty then return ()
  out.putStrLn (f line)
  lineLoop f h out

/-- stateful variant: `step` returns the new state and the output line -/
partial def stateLoop {σ : Type} (step : σ → String → σ × String) (s : σ) : Mode := fun h out => do
  let line ← h.getLine
  if line.isEmpty then return ()
  let (s', o) := step s line
  out.putStrLn o
  stateLoop step s' h out

end LLBuild.Drv
