/- Driver mode for the build-description loader model (Model/BuildFileLoader.lean).
   c19yaml  "<salt> <order: hex list> <tree tokens…>"  ->  "X <events…> r=<result>"
            the tree tokens are what harness/vc19yaml.cpp mode `model` prints after `T` (the node tree of the REAL llvm
            YAML parser, every node with its source range); `order` is what it prints after `O` (iteration order of the
            llvm::StringMap of loaded commands); the output is compared verbatim with what it prints from `X` on.
   The scripted delegate below replicates, rule for rule, the scripted delegate of that harness mode (and the real
   `BuildNode::configureAttribute`, because the loader's nodes have to be real BuildNodes for OwnershipAnalysis). -/
import LLBuild.Drv.Common
import LLBuild.Model.BuildFileLoader

namespace LLBuild.Drv.C19Yaml
open LLBuild LLBuild.Drv LLBuild.BuildFileLoader

/-! ### the printed tree -/

abbrev Rng := Nat × Nat

inductive DNode where
  | scalar (r : Rng) (v : Bytes)
  | mapping (r : Rng) (es : List (Rng × DNode × DNode))
  | sequence (r : Rng) (xs : List DNode)
  | other (r : Rng) (k : OtherKind)

partial def DNode.erase : DNode → YNode
  | .scalar _ v => .scalar v
  | .mapping _ es => .mapping (es.map fun e => (e.2.1.erase, e.2.2.erase))
  | .sequence _ xs => .sequence (xs.map DNode.erase)
  | .other _ k => .other k

def DNode.rng : DNode → Rng
  | .scalar r _ | .mapping r _ | .sequence r _ | .other r _ => r

def DNode.locAt : DNode → Path → Option Rng
  | t, [] => some t.rng
  | .mapping _ es, [.entry i] => es[i]?.map (·.1)
  | .mapping _ es, .key i :: p => match es[i]? with
    | some e => e.2.1.locAt p
    | none => none
  | .mapping _ es, .val i :: p => match es[i]? with
    | some e => e.2.2.locAt p
    | none => none
  | .sequence _ xs, .item i :: p => match xs[i]? with
    | some x => x.locAt p
    | none => none
  | _, _ => none

def parseRng (s : String) : Option (Rng × List String) :=
  -- "off:len" or "off:len:rest"
  match s.splitOn ":" with
  | o :: l :: rest => match o.toNat?, l.toNat? with
    | some a, some b => some ((a, b), rest)
    | _, _ => none
  | _ => none

def countOf (s : String) : Option Nat :=
  (if s.endsWith "!" then (s.dropEnd 1).toString else s).toNat?

mutual
partial def parseNode : List String → Option (DNode × List String)
  | [] => none
  | tok :: rest =>
    let kind := tok.take 1 |>.toString
    match parseRng (tok.drop 2).toString with
    | none => none
    | some (r, extra) =>
      if kind == "S" then
        match extra with
        | [h] => (Hex.decode h).map fun v => (.scalar r v, rest)
        | _ => none
      else if kind == "M" then
        match extra with
        | [n] => (countOf n).bind fun n => (parseEntries n rest []).map fun (es, rest') => (.mapping r es, rest')
        | _ => none
      else if kind == "L" then
        match extra with
        | [n] => (countOf n).bind fun n => (parseItems n rest []).map fun (xs, rest') => (.sequence r xs, rest')
        | _ => none
      else if kind == "N" then some (.other r .null, rest)
      else if kind == "B" then some (.other r .blockScalar, rest)
      else if kind == "A" then some (.other r .alias, rest)
      else none
partial def parseEntries : Nat → List String → List (Rng × DNode × DNode) → Option (List (Rng × DNode × DNode) × List String)
  | 0, toks, acc => some (acc.reverse, toks)
  | n + 1, tok :: toks, acc =>
    if (tok.take 1).toString != "E" then none else
    match parseRng (tok.drop 2).toString with
    | some (r, []) =>
      match parseNode toks with
      | some (k, toks1) =>
        match parseNode toks1 with
        | some (v, toks2) => parseEntries n toks2 ((r, k, v) :: acc)
        | none => none
      | none => none
    | _ => none
  | _, [], _ => none
partial def parseItems : Nat → List String → List DNode → Option (List DNode × List String)
  | 0, toks, acc => some (acc.reverse, toks)
  | n + 1, toks, acc =>
    match parseNode toks with
    | some (x, toks1) => parseItems n toks1 (x :: acc)
    | none => none
end

/-- documents separated by `D`; `Z` = a null root -/
partial def parseDocs : List String → List (Option DNode) → Option (List (Option DNode))
  | [], acc => some acc.reverse
  | "Z" :: rest, acc => parseDocs' rest (none :: acc)
  | toks, acc =>
    match parseNode toks with
    | some (n, rest) => parseDocs' rest (some n :: acc)
    | none => none
where
  parseDocs' : List String → List (Option DNode) → Option (List (Option DNode))
    | [], acc => some acc.reverse
    | "D" :: rest, acc => parseDocs rest acc
    | _, _ => none

/-! ### the scripted delegate (state `DS`) -/

structure NodeSt where
  name : Bytes
  ty : Nat            -- 0 plain, 1 directory, 2 directory-structure, 3 virtual

structure CmdSt where
  name : Bytes
  external : Bool
  repair : Bool := false
  outputs : List Bytes := []

structure DS where
  salt : Nat
  calls : Nat := 0
  nodes : List NodeSt := []
  cmds : List CmdSt := []

def b (s : String) : Bytes := bytesOfString s

/-- the harness's `MTrace::answer`: the k-th answerable call is forced to fail when salt = 2k+b, silently iff b = 1 -/
def forced (s : DS) : Option Bool :=
  if s.salt ≥ 2 && s.calls + 1 == s.salt / 2 then some (s.salt % 2 == 1) else none

def answer (s : DS) (ok : Bool) (err : Bytes) : Ans × DS :=
  let s' := { s with calls := s.calls + 1 }
  match forced s with
  | some silent => (⟨false, if silent then [] else [b "forced failure"]⟩, s')
  | none => (⟨ok, if ok then [] else [err]⟩, s')

def answerBool (s : DS) (ok : Bool) : Bool × DS :=
  let s' := { s with calls := s.calls + 1 }
  match forced s with
  | some _ => (false, s')
  | none => (ok, s')

def unexpectedAttr (name : Bytes) : Bytes := b "unexpected attribute: '" ++ name ++ b "'"
def invalidValue (value name : Bytes) : Bytes := b "invalid value: '" ++ value ++ b "' for attribute '" ++ name ++ b "'"

def knownTools : List Bytes := [b "vtool", b "shell", b "phony", b "mkdir", b "symlink", b "archive"]
def externalTools : List Bytes := [b "vtool", b "shell", b "phony"]

def modCmd (s : DS) (cmd : Bytes) (f : CmdSt → CmdSt) : DS :=
  { s with cmds := s.cmds.map fun c => if c.name == cmd then f c else c }

def modNode (s : DS) (node : Bytes) (f : NodeSt → NodeSt) : DS :=
  { s with nodes := s.nodes.map fun n => if n.name == node then f n else n }

def nodeTy (s : DS) (node : Bytes) : Nat :=
  match s.nodes.find? (·.name == node) with
  | some n => n.ty
  | none => 0

def initialTy (name : Bytes) : Nat :=
  if name.getLast? == some 47 then 1
  else if name.head? == some 60 && name.getLast? == some 62 then 3
  else 0

def boolTrue : Bytes := b "true"
def boolFalse : Bytes := b "false"

/-- lib/BuildSystem/BuildNode.cpp `BuildNode::configureAttribute` (the three overloads): answer and new node type -/
def buildNodeAttr (ty : Nat) (attr : Bytes) : AttrVal → Ans × Nat
  | .str value =>
    let bad : Ans × Nat := (⟨false, [invalidValue value attr]⟩, ty)
    if attr == b "type" then
      if value == b "plain" then (⟨true, []⟩, 0)
      else if value == b "directory" then (⟨true, []⟩, 1)
      else if value == b "directory-structure" then (⟨true, []⟩, 2)
      else if value == b "virtual" then (⟨true, []⟩, 3)
      else bad
    else if attr == b "is-directory" then
      if value == boolTrue then (⟨true, []⟩, 1)
      else if value == boolFalse then (⟨true, []⟩, if ty == 1 then 0 else ty)
      else bad
    else if attr == b "is-directory-structure" then
      if value == boolTrue then (⟨true, []⟩, 2)
      else if value == boolFalse then (⟨true, []⟩, if ty == 2 then 0 else ty)
      else bad
    else if attr == b "is-virtual" then
      if value == boolTrue then (⟨true, []⟩, 3)
      else if value == boolFalse then (⟨true, []⟩, if ty == 3 then 0 else ty)
      else bad
    else if attr == b "is-command-timestamp" then
      if value == boolTrue then (⟨true, []⟩, 3)
      else if value == boolFalse then (⟨true, []⟩, ty)
      else bad
    else if attr == b "is-mutated" then
      if value == boolTrue || value == boolFalse then (⟨true, []⟩, ty) else bad
    else if attr == b "content-exclusion-patterns" then (⟨true, []⟩, ty)
    else (⟨false, [unexpectedAttr attr]⟩, ty)
  | .list _ =>
    if attr == b "content-exclusion-patterns" || attr == b "must-scan-after-paths" then (⟨true, []⟩, ty)
    else (⟨false, [unexpectedAttr attr]⟩, ty)
  | .map _ => (⟨false, [unexpectedAttr attr]⟩, ty)

def scalarCmdAttrs : List Bytes :=
  [b "args", b "signature", b "working-directory", b "deps", b "deps-style", b "inherit-env", b "can-safely-interrupt", b "control-enabled"]

def scripted (order : List Bytes) : Delegate DS where
  configureClient s name version _ := answer s (name == b "vclient" && version == 0) (b "unexpected client")
  lookupTool s name := answerBool s (knownTools.contains name)
  toolAttr s _ attr v :=
    match v with
    | .str _ => answer s (attr == b "opt") (unexpectedAttr attr)
    | .list _ => answer s (attr == b "opts") (unexpectedAttr attr)
    | .map _ => answer s (attr == b "optmap") (unexpectedAttr attr)
  createCommand s tool name :=
    let (ok, s1) := answerBool s (tool != b "archive")
    (ok, if ok then { s1 with cmds := s1.cmds ++ [{ name := name, external := externalTools.contains tool }] } else s1)
  createNode s name _ := { s with nodes := s.nodes ++ [{ name := name, ty := initialTy name }] }
  nodeAttr s node attr v :=
    let (ans, ty) := buildNodeAttr (nodeTy s node) attr v
    (ans, modNode s node fun n => { n with ty := ty })
  cmdInputs s _ _ := ([], s)
  cmdOutputs s cmd names := ([], modCmd s cmd fun c => { c with outputs := c.outputs ++ names })
  cmdDescription s _ text := (if text.isEmpty then [b "empty description"] else [], s)
  cmdAttr s cmd attr v :=
    match v with
    | .str value =>
      if attr == b "allow-missing-inputs" || attr == b "allow-modified-outputs" || attr == b "always-out-of-date" then
        answer s (value == boolTrue || value == boolFalse) (invalidValue value attr)
      else if attr == b "repair-via-ownership-analysis" then
        let (ans, s1) := answer s (value == boolTrue || value == boolFalse) (b "invalid value for attribute: '" ++ attr ++ b "'")
        (ans, if ans.ok then modCmd s1 cmd fun c => { c with repair := value == boolTrue } else s1)
      else answer s (scalarCmdAttrs.contains attr) (unexpectedAttr attr)
    | .list _ => answer s (attr == b "args" || attr == b "deps") (unexpectedAttr attr)
    | .map _ => answer s (attr == b "env") (unexpectedAttr attr)
  loadedTarget s _ _ := s
  loadedDefaultTarget s _ := s
  loadedCommand s _ := s
  cmdInfo s cmd :=
    match s.cmds.find? (·.name == cmd) with
    | some c => ⟨c.outputs, c.external, c.repair⟩
    | none => ⟨[], false, false⟩
  nodeVirtual s node := nodeTy s node == 3
  cmdOrder _ := order

/-! ### printing (the harness's item syntax) -/

def hx (v : Bytes) : String := Hex.encode v

def pairsStr (kvs : List (Bytes × Bytes)) : String :=
  if kvs.isEmpty then "." else ",".intercalate (kvs.map fun kv => hx kv.1 ++ "=" ++ hx kv.2)

def valStr : AttrVal → String
  | .str v => "s=" ++ hx v
  | .list vs => "l=" ++ hexListEncode vs
  | .map kvs => "m=" ++ pairsStr kvs

def locStr (docs : List (Option DNode)) : Loc → String
  | .none => "none"
  | .node i p =>
    match docs[i]? with
    | some (some t) =>
      match t.locAt p with
      | some (o, l) => s!"{o}+{l}"
      | none => "?"
    | _ => "?"

def okStr (x : Bool) : String := if x then "1" else "0"

def kFile : String := "/vc19/build.llbuild"
def kMissing : String := "/vc19/missing.llbuild"

def ctxErrs (docs : List (Option DNode)) (loc : Loc) (errs : List Bytes) : List String :=
  errs.map fun e => "x:" ++ hx e ++ ":" ++ locStr docs loc

def evItems (file : String) (docs : List (Option DNode)) : Event → List String
  | .setBuffer => ["sb"]
  | .error m loc => ["x:" ++ hx (m.text file) ++ ":" ++ locStr docs loc]
  | .configureClient name version props loc ans =>
    ctxErrs docs loc ans.errs ++ [s!"cc:{hx name}:{version}:{pairsStr props}:{locStr docs loc}:{okStr ans.ok}"]
  | .lookupTool name found => [s!"lt:{hx name}:{okStr found}"]
  | .toolAttr tool attr v loc ans =>
    ctxErrs docs loc ans.errs ++ [s!"ta:{hx tool}:{hx attr}:{valStr v}:{locStr docs loc}:{okStr ans.ok}"]
  | .createCommand tool name made => [s!"mk:{hx tool}:{hx name}:{okStr made}"]
  | .createNode name implicit => [s!"cn:{hx name}:{okStr implicit}"]
  | .nodeAttr _ _ _ loc ans => ctxErrs docs loc ans.errs          -- a real BuildNode: the call itself is not observable
  | .cmdInputs cmd nodes loc errs => ctxErrs docs loc errs ++ [s!"ci:{hx cmd}:{hexListEncode nodes}:{locStr docs loc}"]
  | .cmdOutputs cmd nodes loc errs => ctxErrs docs loc errs ++ [s!"co:{hx cmd}:{hexListEncode nodes}:{locStr docs loc}"]
  | .cmdDescription cmd text loc errs => ctxErrs docs loc errs ++ [s!"cd:{hx cmd}:{hx text}:{locStr docs loc}"]
  | .cmdAttr cmd attr v loc ans =>
    ctxErrs docs loc ans.errs ++ [s!"ca:{hx cmd}:{hx attr}:{valStr v}:{locStr docs loc}:{okStr ans.ok}"]
  | .loadedTarget name nodes => [s!"tg:{hx name}:{hexListEncode nodes}"]
  | .loadedDefaultTarget name => [s!"dt:{hx name}"]
  | .loadedCommand name => [s!"lc:{hx name}"]
  | .multipleProducers node cmds => [s!"mp:{hx node}:{hexListEncode cmds}"]

def bytesLt : Bytes → Bytes → Bool
  | [], [] => false
  | [], _ :: _ => true
  | _ :: _, [] => false
  | x :: xs, y :: ys => if x < y then true else if y < x then false else bytesLt xs ys

def insertSorted (x : Bytes) : List Bytes → List Bytes
  | [] => [x]
  | y :: ys => if bytesLt x y then x :: y :: ys else if x == y then y :: ys else y :: insertSorted x ys

/-- sorted, duplicates removed (the keys of a StringMap) -/
def sortedSet (l : List Bytes) : List Bytes := l.foldl (fun acc x => insertSorted x acc) []

def tyTag (ty : Nat) : Bytes := if ty == 3 then b "=v" else if ty == 1 then b "=d" else if ty == 2 then b "=s" else b "=p"

def resultStr (s : DS) : Result → String
  | .null => "r=null"
  | .crash => "r=crash"
  | .description d =>
    let nodes := sortedSet (d.nodes.map fun n => n ++ tyTag (nodeTy s n))
    s!"r=desc:{hexListEncode (sortedSet d.tools)}:{hexListEncode (sortedSet d.targets)}:{hx d.defaultTarget}:{hexListEncode nodes}:{hexListEncode (sortedSet d.cmds)}"

def step (line : String) : String :=
  match fields line with
  | salt :: order :: toks =>
    match salt.toNat?, hexListDecode order with
    | some salt, some order =>
      let run (file : String) (docs : Option (List (Option DNode))) : String :=
        let input := docs.map fun ds => ds.map fun d => d.map DNode.erase
        let out := load (scripted order) input { salt := salt }
        -- std::sort is only modelled as a stable sort up to 16 elements
        let nOut : Nat := out.st.cmds.foldl (fun acc c => acc + c.outputs.length) 0
        if nOut > 16 then "skip unmodelled-sort" else
        let items := out.trace.flatMap (evItems file (docs.getD []))
        "X " ++ " ".intercalate (items ++ [resultStr out.st out.result])
      if toks == ["nofile"] then run kMissing none
      else
        match parseDocs toks [] with
        | some docs => run kFile (some docs)
        | none => "bad-tree"
    | _, _ => "bad-op"
  | _ => "bad-op"

def modes : List (String × Mode) := [("c19yaml", lineLoop step)]

end LLBuild.Drv.C19Yaml
