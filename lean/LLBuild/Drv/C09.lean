import LLBuild.Drv.Common
import LLBuild.Model.Signature
import LLBuild.Generated.SignatureRecipe
import LLBuild.Model.BSAttrs
import LLBuild.Generated.BSAttrs

/-! Driver modes for C09 (signature half); same line protocol as harness/vc09.cpp. -/
namespace LLBuild.Drv.C09
open LLBuild LLBuild.Drv LLBuild.Signature

def hex64 (v : UInt64) : String :=
  String.join ((List.range 8).reverse.map fun i => Hex.ofByte (v >>> (8 * i).toUInt64).toUInt8)

def flag (s : String) : Option Bool :=
  if s == "1" then some true else if s == "0" then some false else none

def parseDef (fs : List String) : Option (Cls × CommandDef) :=
  match fs with
  | [tool, name, ins, outs, ami, amo, aood, args, ek, ev, deps, style, inh, csi, sig] => do
    let cls ← if tool == "shell" then some Cls.shellCommand else if tool == "phony" then some Cls.externalCommand else none
    let name ← Hex.decode name
    let ins ← hexListDecode ins
    let outs ← hexListDecode outs
    let ami ← flag ami
    let amo ← flag amo
    let aood ← flag aood
    let args ← hexListDecode args
    let ek ← hexListDecode ek
    let ev ← hexListDecode ev
    let deps ← hexListDecode deps
    let style ← style.toNat?
    let inh ← flag inh
    let csi ← flag csi
    let sig ← Hex.decode sig
    if ek.length != ev.length then none else
    some (cls, { name := name, inputs := ins, outputs := outs, allowMissingInputs := ami,
                 allowModifiedOutputs := amo, alwaysOutOfDate := aood, args := args, env := ek.zip ev,
                 depsPaths := deps, depsStyle := style, inheritEnv := inh, canSafelyInterrupt := csi,
                 signatureData := sig })
  | _ => none

/-- attributes that the model knows are NOT hashed: accepted on a line and ignored -/
def unhashedKeys : List String :=
  ["link-output-path", "repair-via-ownership-analysis", "expectedOutputs", "roots",
   "typeattr", "is-mutated", "is-command-timestamp"]

/-- one `key=value` field (attribute name = value); each attribute is stored in the member its
`configureAttribute` assigns (`deps` here is ClangShellCommand's single path; `working-directory` must be absolute) -/
def applyKV (d : CommandDef) (kv : String) : Option CommandDef :=
  match kv.splitOn "=" with
  | [k, v] =>
    if k == "args" then (hexListDecode v).map fun l => { d with args := l }
    else if k == "executable" then (Hex.decode v).map fun b => { d with executable := b }
    else if k == "module-name" then (Hex.decode v).map fun b => { d with moduleName := b }
    else if k == "module-aliases" then (hexListDecode v).map fun l => { d with moduleAliases := l }
    else if k == "module-output-path" then (Hex.decode v).map fun b => { d with moduleOutputPath := b }
    else if k == "sources" then (hexListDecode v).map fun l => { d with sourcesList := l }
    else if k == "objects" then (hexListDecode v).map fun l => { d with objectsList := l }
    else if k == "import-paths" then (hexListDecode v).map fun l => { d with importPaths := l }
    else if k == "temps-path" then (Hex.decode v).map fun b => { d with tempsPath := b }
    else if k == "other-args" then (hexListDecode v).map fun l => { d with otherArgs := l }
    else if k == "is-library" then (flag v).map fun b => { d with isLibrary := b }
    else if k == "enable-whole-module-optimization" then (flag v).map fun b => { d with enableWholeModuleOptimization := b }
    else if k == "num-threads" then (Hex.decode v).map fun b => { d with numThreads := b }
    else if k == "working-directory" then (Hex.decode v).map fun b => { d with workingDirectory := b }
    else if k == "control-enabled" then (flag v).map fun b => { d with controlEnabled := b }
    else if k == "deps" then (Hex.decode v).map fun b => { d with depsPath := b }
    else if k == "compiler-style" then (Hex.decode v).map fun b => { d with compilerStyle := b }
    else if k == "contents" then (Hex.decode v).map fun b => { d with contents := b }
    else if k == "type" then v.toNat?.map fun n => { d with type := n }
    else if k == "producers" then (hexListDecode v).map fun l => { d with producers := l }
    else if unhashedKeys.contains k then some d
    else none
  | _ => none

/-- lines of the other tools: `<tool> <name> <inputs> <outputs> <ami> <amo> <aood> <key>=<value> ...`; the recipe
class comes from the GENERATED tool table (`node` lines use BuildNode's recipe). -/
def parseOther (fs : List String) : Option (Cls × CommandDef) :=
  match fs with
  | tool :: name :: ins :: outs :: ami :: amo :: aood :: kvs => do
    let cls ← if tool == "node" then some Cls.buildNode else (Generated.Signature.tools.lookup tool).map (·.2)
    let name ← Hex.decode name
    let ins ← hexListDecode ins
    let outs ← hexListDecode outs
    let ami ← flag ami
    let amo ← flag amo
    let aood ← flag aood
    -- a tool whose scalar `configureAttribute` overload accepts every name without delegating to ExternalCommand
    -- (GENERATED list; today: shared-library) ignores the three flags: the members keep their defaults
    let ign := Generated.Signature.acceptsAnyScalarAttribute.contains tool
    let (ami, amo, aood) := if ign then (false, false, false) else (ami, amo, aood)
    let d0 : CommandDef :=
      { name := name, inputs := ins, outputs := outs, allowMissingInputs := ami, allowModifiedOutputs := amo,
        alwaysOutOfDate := aood, args := [], env := [], depsPaths := [], depsStyle := 0, inheritEnv := true,
        canSafelyInterrupt := true, signatureData := [],
        -- the member's default initialiser: "swiftc" in SwiftCompilerShellCommand, "" in SharedLibraryShellCommand
        executable := if tool == "swift-compiler" then "swiftc".toUTF8.toList else [] }
    let d ← kvs.foldlM applyKV d0
    some (cls, d)
  | _ => none

/-- the optional attributes after the 15 positional fields of a shell / phony line -/
def tailKeys : List String := ["working-directory", "control-enabled", "repair-via-ownership-analysis"]

def isTailKV (kv : String) : Bool :=
  match kv.splitOn "=" with
  | [k, _] => tailKeys.contains k
  | _ => false

def parseLine (fs : List String) : Option (Cls × CommandDef) :=
  match fs with
  | tool :: _ =>
    if tool == "shell" || tool == "phony" then
      -- 15 positional fields, then optionally working-directory=<hex, absolute> control-enabled=0|1 (hashed by the
      -- built-in strategy of ShellCommand) and repair-via-ownership-analysis=0|1 (not hashed)
      if (fs.drop 15).all isTailKV then do
        let (c, d) ← parseDef (fs.take 15)
        let d ← (fs.drop 15).foldlM applyKV d
        some (c, d)
      else none
    else parseOther fs
  | [] => none

/-- `HashTerm.eval (sigTerm recipe d)` with the generated recipes -/
def stepSig (line : String) : String :=
  match parseLine (fields line) with
  | some (cls, d) =>
    match Generated.Signature.recipeOf cls, sigTerm Generated.Signature.recipeOf d 4 cls with
    | some r, some t => hex64 (evalSig r t)
    | _, _ => "no-term"
  | none => "bad-op"

def stepHashStr (line : String) : String :=
  match fields line with
  | [h] =>
    match Hex.decode h with
    | some s =>
      let a := HashTerm.str s
      let b := HashTerm.comb .seed (.str s)
      " ".intercalate [hex64 a.eval, hex64 b.eval, hex64 b.eval,
                       hex64 (HashTerm.comb a (.bool true)).eval, hex64 (HashTerm.comb a (.bool false)).eval]
    | none => "bad-op"
  | _ => "bad-op"

/-! ## `c09configure`: definition (ordered keys) → the members `BSAttrs.run` computes, printed as harness/vc09.cpp
mode `configure` prints what the REAL loader left in the command object.  The description functions below are
observation devices only (hand models of get{Short,Verbose}Description of each command class). -/
section Configure
open LLBuild.BSAttrs

def b (s : String) : Bytes := s.toUTF8.toList

def shellWhitelist : Bytes := b "abcdefghijklmnopqrstuvwxyzABCDEFGHIJKLMNOPQRSTUVWXYZ1234567890-_/:@%+=.,"

/-- `basic::appendShellEscapedString` (POSIX branch) -/
def shellEscape (s : Bytes) : Bytes :=
  if s.all shellWhitelist.contains then s
  else if !s.contains 39 then [39] ++ s ++ [39]
  else
    let pre := s.takeWhile (· != 39)
    let rest := s.dropWhile (· != 39)
    [39] ++ pre ++ (rest.map fun c => if c == 39 then b "'\\''" else [c]).flatten ++ [39]

def joinSp (l : List Bytes) : Bytes := (l.intersperse [32]).flatten

def quoteIfSpace (s : Bytes) : Bytes := if s.contains 32 then [34] ++ s ++ [34] else s

/-- the loop of StaleFileRemovalCommand::getVerboseDescription: the separator follows every element that differs
from the LAST element (by value) -/
def oddJoin (l : List Bytes) : Bytes :=
  match l.getLast? with
  | none => []
  | some z => (l.map fun x => if x != z then x ++ b ", " else x).flatten

def shortDescription (tool : String) (name : Bytes) (m : Mem) : Bytes :=
  let desc := (m "description").strD
  if tool == "phony" then name
  else if tool == "archive" then (if desc.isEmpty then b "Archiving " ++ (m "archiveName").strD else desc)
  else if tool == "shared-library" then (if desc.isEmpty then b "Creating Shared library: " ++ (m "sharedLibName").strD else desc)
  else if tool == "stale-file-removal" then (if desc.isEmpty then b "Stale file removal" else desc)
  else if tool == "swift-compiler" then
    b "Compiling Swift Module '" ++ (m "moduleName").strD ++ b "' (" ++ b (toString (m "sourcesList").strsD.length) ++ b " sources)"
  else desc

def sharedLibArgs (m : Mem) : List Bytes :=
  let style := (m "compilerStyle").strD
  let exe := (m "executable").strD
  let ins := (m "sharedLibInputs").strsD
  let nm := (m "sharedLibName").strD
  let other := (m "otherArgs").strsD
  if style == b "swiftc" then [exe, b "-emit-library"] ++ ins ++ [b "-o", nm] ++ other
  else if style == b "clang" then [exe] ++ ins ++ [b "-o", nm] ++ other ++ [b "-shared"]
  else if style == b "cl" then [exe] ++ ins ++ [b "/o", nm, b "/LD", b "/MD", b "/link", b "MSVCRT.lib"]
  else []

/-- `none`: not observed (swift-compiler; outputs[0] of an empty vector) -/
def verboseDescription (tool : String) (name : Bytes) (m : Mem) : Option Bytes :=
  let outs := (m "outputs").strsD
  if tool == "phony" then some name
  else if tool == "shell" || tool == "clang" then some (joinSp ((m "args").strsD.map shellEscape))
  else if tool == "mkdir" then outs.head?.map fun o => b "mkdir -p " ++ quoteIfSpace o
  else if tool == "symlink" then
    outs.head?.map fun o =>
      let lp := (m "linkOutputPath").strD
      let path := if lp.isEmpty then o else lp
      b "ln -sfh " ++ (if !path.isEmpty then quoteIfSpace path else b "<<<missing output>>>") ++ [32] ++
        quoteIfSpace (m "contents").strD
  else if tool == "archive" then some (joinSp ([b "ar", b "cr", (m "archiveName").strD] ++ (m "archiveInputs").strsD))
  else if tool == "shared-library" then some (joinSp (sharedLibArgs m))
  else if tool == "stale-file-removal" then
    some (shortDescription tool name m ++ b ", stale files: [], roots: [" ++ oddJoin (m "roots").strsD ++ b "]")
  else none

def hexPairs (s : String) : Option (List (Bytes × Bytes)) :=
  if s == "." || s == "" then some [] else
  (s.splitOn ",").mapM fun kv => match kv.splitOn ":" with
    | [k, v] => do some ((← Hex.decode k), (← Hex.decode v))
    | _ => none

def parseEntry (e : String) : Option Entry :=
  match e.splitOn "=" with
  | [h, v] =>
    if h == "i" then (hexListDecode v).map .inputs
    else if h == "o" then (hexListDecode v).map .outputs
    else if h == "d" then (Hex.decode v).map .description
    else match h.splitOn ":" with
      | [k, key] => do
        let key ← Hex.decode key
        if k == "s" then (Hex.decode v).map fun x => .attr key (.scalar x)
        else if k == "l" then (hexListDecode v).map fun x => .attr key (.list x)
        else if k == "m" then (hexPairs v).map fun x => .attr key (.map x)
        else none
      | _ => none
  | _ => none

def bit (x : Bool) : String := if x then "1" else "0"

def pairsEncode (l : List (Bytes × Bytes)) : String :=
  if l.isEmpty then "." else ",".intercalate (l.map fun p => Hex.encode p.1 ++ ":" ++ Hex.encode p.2)

def observation (tool : String) (name : Bytes) (m : Mem) : String :=
  let d := toDef name m
  let sig := match (Generated.Signature.tools.lookup tool).map (·.2) with
    | some cls => match Generated.Signature.recipeOf cls, sigTerm Generated.Signature.recipeOf d 4 cls with
      | some r, some t => hex64 (evalSig r t)
      | _, _ => "none"
    | none => "none"
  let common := "sig=" ++ sig ++ " in=" ++ hexListEncode d.inputs ++ " out=" ++ hexListEncode d.outputs ++
    " repair=" ++ bit ((m "repairViaOwnershipAnalysis").boolD false) ++
    " short=" ++ Hex.encode (shortDescription tool name m) ++
    " verbose=" ++ (match verboseDescription tool name m with | some v => Hex.encode v | none => "?")
  let ext := if tool != "symlink" && tool != "stale-file-removal" then
      " desc=" ++ Hex.encode (m "description").strD ++ " ami=" ++ bit d.allowMissingInputs ++
      " amo=" ++ bit d.allowModifiedOutputs ++ " aood=" ++ bit d.alwaysOutOfDate else ""
  let sh := if tool == "shell" then
      " args=" ++ hexListEncode d.args ++ " env=" ++ pairsEncode d.env ++ " deps=" ++ hexListEncode d.depsPaths ++
      " style=" ++ toString d.depsStyle ++ " inh=" ++ bit d.inheritEnv ++ " csi=" ++ bit d.canSafelyInterrupt ++
      " sigdata=" ++ Hex.encode d.signatureData ++ " wd=" ++ Hex.encode d.workingDirectory ++ " ce=" ++ bit d.controlEnabled
    else ""
  common ++ ext ++ sh

def stepConfigure (line : String) : String :=
  match fields line with
  | cwd :: tool :: name :: es =>
    match Hex.decode cwd, Hex.decode name, es.mapM parseEntry with
    | some cwd, some name, some entries =>
      -- protocol rule (see vc09.cpp): a symlink definition is observed only if one `o=` entry has exactly one name
      let observable := tool != "symlink" || entries.any fun | .outputs [_] => true | _ => false
      match run Generated.BSAttrs.tables cwd { tool := tool, name := name, entries := entries } with
      | .loaded m ds =>
        "loaded " ++ (if observable then observation tool name m else "unobservable") ++ " diags=" ++ hexListEncode ds
      | .aborted ds => "aborted diags=" ++ hexListEncode ds
      | .stuck => "stuck"
    | _, _, _ => "bad-op"
  | _ => "bad-op"

/-- every literal of the generated tables: the text form is the UTF-8 decoding of the byte form -/
def allLits : List Lit :=
  let msg (m : Msg) : List Lit := m.filterMap fun | .lit l => some l | _ => none
  let conv : Conv → List Lit
    | .boolStrict t f e => [t, f] ++ msg e
    | .boolLenient t => [t]
    | .enumStrict cs e => cs.map (·.1) ++ msg e
    | .oneOfLenient a e => a ++ msg e
    | .nonNegInt a c => msg a ++ msg c
    | .shellWrap p => p
    | .splitDropEmpty s => [s]
    | .listCopyNonEmpty e => msg e
    | .nodesExactlyOne a c => msg a ++ msg c
    | .nonVirtualNamesOf _ e => msg e
    | .firstNonVirtualNameOf _ a c => msg a ++ msg c
    | _ => []
  let ov (o : BSAttrs.Overload) : List Lit :=
    (o.rows.map fun r => r.attr :: (r.assigns.map fun a => conv a.conv).flatten).flatten ++
      (match o.otherwise with | Otherwise.unexpected e => msg e | _ => [])
  let asg (l : List Assign) : List Lit := (l.map fun a => conv a.conv).flatten
  (Generated.BSAttrs.tables.map fun t => ov t.scalar ++ ov t.list ++ ov t.map ++ asg t.inputs ++ asg t.outputs ++ asg t.description).flatten ++
  (Generated.BSAttrs.classes.map fun c =>
    (match c.scalar with | some o => ov o | none => []) ++ (match c.list with | some o => ov o | none => []) ++
    (match c.map with | some o => ov o | none => []) ++
    ([c.inputs, c.outputs, c.description].map fun h => match h with | some h => asg h.assigns | none => []).flatten).flatten

/-- `lits`: consistency of the two forms of every literal; `keys`: the hand-written key constants of the model -/
def stepAttrCheck (line : String) : String :=
  match fields line with
  | ["lits"] =>
    match allLits.find? fun l => l.s.toUTF8.toList != l.b with
    | some l => "bad-literal " ++ l.s
    | none => "ok " ++ toString allLits.length
  | ["hashed"] =>
    -- per tool, the attributes whose assigned members the tool's recipe mentions (what `C09_hashed_attributes` pins)
    ";".intercalate ((hashedAttributes Generated.Signature.recipeOf Generated.Signature.tools Generated.BSAttrs.tables).map
      fun p => p.1 ++ ":" ++ ",".intercalate p.2)
  | ["unsigned"] =>
    ";".intercalate ((unsignedAssignments Generated.Signature.recipeOf Generated.Signature.tools Generated.BSAttrs.tables).map
      fun p => p.1 ++ ":" ++ p.2.1 ++ ":" ++ p.2.2.1 ++ ":" ++ p.2.2.2)
  | ["keys"] =>
    if keyInputs == b "inputs" && keyOutputs == b "outputs" && keyDescription == b "description" then "ok" else "bad-keys"
  | _ => "bad-op"

/-- `c09valid`: `<alwaysOutOfDate 0|1> <successful 0|1> <virtual 0|1><mutated 0|1>:<recorded>:<current> ...` (file information:
a number, `-` = missing) → `valid` / `invalid` by the GENERATED chain of ExternalCommand::isResultValid -/
def stepValid (line : String) : String :=
  let info (s : String) : Option (Option Nat) := if s == "-" then some none else s.toNat?.map some
  let out (s : String) : Option OutputState :=
    match s.splitOn ":" with
    | [f, r, c] => match f.toList, info r, info c with
      | [v, m], some r, some c => some { isVirtual := v == '1', isMutated := m == '1', recorded := r, current := c }
      | _, _, _ => none
    | _ => none
  match fields line with
  | a :: s :: outs =>
    match flag a, flag s, outs.mapM out with
    | some a, some s, some os => if resultValidOf Generated.BSAttrs.resultValid a s os then "valid" else "invalid"
    | _, _, _ => "bad-op"
  | _ => "bad-op"

end Configure

def modes : List (String × Mode) :=
  [("c09sig", lineLoop stepSig), ("c09hashstr", lineLoop stepHashStr),
   ("c09configure", lineLoop stepConfigure), ("c09attrcheck", lineLoop stepAttrCheck), ("c09valid", lineLoop stepValid)]

end LLBuild.Drv.C09
