import LLBuild.Drv.Common
import LLBuild.Model.Signature
import LLBuild.Generated.SignatureRecipe

/-! Driver modes for C09 (signature half); same line protocol as harness/vc09.cpp. -/
namespace LLBuild.Drv.C09
open LLBuild LLBuild.Drv LLBuild.Signature

def hex64 (v : UInt64) : String :=
  String.join ((List.range 8).reverse.map fun i => Hex.ofByte (v >>> (8 * i).toUInt64).toUInt8)

def flag (s : String) : Option Bool :=
  if s == "1" then some true else if s == "0" then some false else none

def parseDef (fs : List String) : Option (Cls × CommandDef) :=
  match fs with
  | [tool, name, ins, outs, ami, amo, aood, args, ek, ev, deps, style, inh, csi, sig] => do
    let cls ← if tool == "shell" then some Cls.shellCommand else if tool == "phony" then some Cls.externalCommand else none
    let name ← Hex.decode name
    let ins ← hexListDecode ins
    let outs ← hexListDecode outs
    let ami ← flag ami
    let amo ← flag amo
    let aood ← flag aood
    let args ← hexListDecode args
    let ek ← hexListDecode ek
    let ev ← hexListDecode ev
    let deps ← hexListDecode deps
    let style ← style.toNat?
    let inh ← flag inh
    let csi ← flag csi
    let sig ← Hex.decode sig
    if ek.length != ev.length then none else
    some (cls, { name := name, inputs := ins, outputs := outs, allowMissingInputs := ami,
                 allowModifiedOutputs := amo, alwaysOutOfDate := aood, args := args, env := ek.zip ev,
                 depsPaths := deps, depsStyle := style, inheritEnv := inh, canSafelyInterrupt := csi,
                 signatureData := sig })
  | _ => none

/-- attributes of the other tools that the model knows are NOT hashed: accepted on a line and ignored -/
def unhashedKeys : List String :=
  ["deps", "compiler-style", "link-output-path", "working-directory", "num-threads",
   "enable-whole-module-optimization", "repair-via-ownership-analysis", "control-enabled", "expectedOutputs", "roots",
   "typeattr", "is-mutated", "is-command-timestamp"]

/-- one `key=value` field of a non-shell line; `sharedLib` says that `executable` / `other-args` belong to
SharedLibraryShellCommand (whose recipe does not hash them) rather than to SwiftCompilerShellCommand -/
def applyKV (sharedLib : Bool) (d : CommandDef) (kv : String) : Option CommandDef :=
  match kv.splitOn "=" with
  | [k, v] =>
    if sharedLib && (k == "executable" || k == "other-args") then some d
    else if k == "args" then (hexListDecode v).map fun l => { d with args := l }
    else if k == "executable" then (Hex.decode v).map fun b => { d with executable := b }
    else if k == "module-name" then (Hex.decode v).map fun b => { d with moduleName := b }
    else if k == "module-aliases" then (hexListDecode v).map fun l => { d with moduleAliases := l }
    else if k == "module-output-path" then (Hex.decode v).map fun b => { d with moduleOutputPath := b }
    else if k == "sources" then (hexListDecode v).map fun l => { d with sourcesList := l }
    else if k == "objects" then (hexListDecode v).map fun l => { d with objectsList := l }
    else if k == "import-paths" then (hexListDecode v).map fun l => { d with importPaths := l }
    else if k == "temps-path" then (Hex.decode v).map fun b => { d with tempsPath := b }
    else if k == "other-args" then (hexListDecode v).map fun l => { d with otherArgs := l }
    else if k == "is-library" then (flag v).map fun b => { d with isLibrary := b }
    else if k == "contents" then (Hex.decode v).map fun b => { d with contents := b }
    else if k == "type" then v.toNat?.map fun n => { d with type := n }
    else if k == "producers" then (hexListDecode v).map fun l => { d with producers := l }
    else if unhashedKeys.contains k then some d
    else none
  | _ => none

/-- lines of the other tools: `<tool> <name> <inputs> <outputs> <ami> <amo> <aood> <key>=<value> ...`; the recipe
class comes from the GENERATED tool table (`node` lines use BuildNode's recipe). -/
def parseOther (fs : List String) : Option (Cls × CommandDef) :=
  match fs with
  | tool :: name :: ins :: outs :: ami :: amo :: aood :: kvs => do
    let cls ← if tool == "node" then some Cls.buildNode else (Generated.Signature.tools.lookup tool).map (·.2)
    let name ← Hex.decode name
    let ins ← hexListDecode ins
    let outs ← hexListDecode outs
    let ami ← flag ami
    let amo ← flag amo
    let aood ← flag aood
    -- a tool whose scalar `configureAttribute` overload accepts every name without delegating to ExternalCommand
    -- (GENERATED list; today: shared-library) ignores the three flags: the members keep their defaults
    let ign := Generated.Signature.acceptsAnyScalarAttribute.contains tool
    let (ami, amo, aood) := if ign then (false, false, false) else (ami, amo, aood)
    let d0 : CommandDef :=
      { name := name, inputs := ins, outputs := outs, allowMissingInputs := ami, allowModifiedOutputs := amo,
        alwaysOutOfDate := aood, args := [], env := [], depsPaths := [], depsStyle := 0, inheritEnv := true,
        canSafelyInterrupt := true, signatureData := [],
        executable := "swiftc".toUTF8.toList }      -- the member's default initialiser in SwiftCompilerShellCommand
    let d ← kvs.foldlM (applyKV (tool == "shared-library")) d0
    some (cls, d)
  | _ => none

/-- a `key=value` field whose key is an attribute the recipes do not hash -/
def isUnhashedKV (kv : String) : Bool :=
  match kv.splitOn "=" with
  | [k, _] => unhashedKeys.contains k
  | _ => false

def parseLine (fs : List String) : Option (Cls × CommandDef) :=
  match fs with
  | tool :: _ =>
    if tool == "shell" || tool == "phony" then
      -- 15 positional fields, then optionally attributes that are not hashed (working-directory, control-enabled, …)
      if (fs.drop 15).all isUnhashedKV then parseDef (fs.take 15) else none
    else parseOther fs
  | [] => none

/-- `HashTerm.eval (sigTerm recipe d)` with the generated recipes -/
def stepSig (line : String) : String :=
  match parseLine (fields line) with
  | some (cls, d) =>
    match Generated.Signature.recipeOf cls, sigTerm Generated.Signature.recipeOf d 4 cls with
    | some r, some t => hex64 (evalSig r t)
    | _, _ => "no-term"
  | none => "bad-op"

def stepHashStr (line : String) : String :=
  match fields line with
  | [h] =>
    match Hex.decode h with
    | some s =>
      let a := HashTerm.str s
      let b := HashTerm.comb .seed (.str s)
      " ".intercalate [hex64 a.eval, hex64 b.eval, hex64 b.eval,
                       hex64 (HashTerm.comb a (.bool true)).eval, hex64 (HashTerm.comb a (.bool false)).eval]
    | none => "bad-op"
  | _ => "bad-op"

def modes : List (String × Mode) := [("c09sig", lineLoop stepSig), ("c09hashstr", lineLoop stepHashStr)]

end LLBuild.Drv.C09
