import LLBuild.Drv.Common
import LLBuild.Model.Signature
import LLBuild.Generated.SignatureRecipe

/-! Driver modes for C09 (signature half); same line protocol as harness/vc09.cpp. -/
namespace LLBuild.Drv.C09
open LLBuild LLBuild.Drv LLBuild.Signature

def hex64 (v : UInt64) : String :=
  String.join ((List.range 8).reverse.map fun i => Hex.ofByte (v >>> (8 * i).toUInt64).toUInt8)

def flag (s : String) : Option Bool :=
  if s == "1" then some true else if s == "0" then some false else none

def parseDef (fs : List String) : Option (Cls × CommandDef) :=
  match fs with
  | [tool, name, ins, outs, ami, amo, aood, args, ek, ev, deps, style, inh, csi, sig] => do
    let cls ← if tool == "shell" then some Cls.shellCommand else if tool == "phony" then some Cls.externalCommand else none
    let name ← Hex.decode name
    let ins ← hexListDecode ins
    let outs ← hexListDecode outs
    let ami ← flag ami
    let amo ← flag amo
    let aood ← flag aood
    let args ← hexListDecode args
    let ek ← hexListDecode ek
    let ev ← hexListDecode ev
    let deps ← hexListDecode deps
    let style ← style.toNat?
    let inh ← flag inh
    let csi ← flag csi
    let sig ← Hex.decode sig
    if ek.length != ev.length then none else
    some (cls, { name := name, inputs := ins, outputs := outs, allowMissingInputs := ami,
                 allowModifiedOutputs := amo, alwaysOutOfDate := aood, args := args, env := ek.zip ev,
                 depsPaths := deps, depsStyle := style, inheritEnv := inh, canSafelyInterrupt := csi,
                 signatureData := sig })
  | _ => none

/-- `HashTerm.eval (sigTerm recipe d)` with the generated recipes -/
def stepSig (line : String) : String :=
  match parseDef (fields line) with
  | some (cls, d) =>
    match Generated.Signature.recipeOf cls, sigTerm Generated.Signature.recipeOf d 4 cls with
    | some r, some t => hex64 (evalSig r t)
    | _, _ => "no-term"
  | none => "bad-op"

def stepHashStr (line : String) : String :=
  match fields line with
  | [h] =>
    match Hex.decode h with
    | some s =>
      let a := HashTerm.str s
      let b := HashTerm.comb .seed (.str s)
      " ".intercalate [hex64 a.eval, hex64 b.eval, hex64 b.eval,
                       hex64 (HashTerm.comb a (.bool true)).eval, hex64 (HashTerm.comb a (.bool false)).eval]
    | none => "bad-op"
  | _ => "bad-op"

def modes : List (String × Mode) := [("c09sig", lineLoop stepSig), ("c09hashstr", lineLoop stepHashStr)]

end LLBuild.Drv.C09
