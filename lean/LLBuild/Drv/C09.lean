import LLBuild.Drv.Common
import LLBuild.Model.Signature
import LLBuild.Generated.SignatureRecipe

/-! Driver modes for C09 (signature half); same line protocol as harness/vc09.cpp. -/
namespace LLBuild.Drv.C09
open LLBuild LLBuild.Drv LLBuild.Signature

def hex64 (v : UInt64) : String :=
  String.join ((List.range 8).reverse.map fun i => Hex.ofByte (v >>> (8 * i).toUInt64).toUInt8)

def flag (s : String) : Option Bool :=
  if s == "1" then some true else if s == "0" then some false else none

def parseDef (fs : List String) : Option (Cls × CommandDef) :=
  match fs with
  | [tool, name, ins, outs, ami, amo, aood, args, ek, ev, deps, style, inh, csi, sig] => do
    let cls ← if tool == "shell" then some Cls.shellCommand else if tool == "phony" then some Cls.externalCommand else none
    let name ← Hex.decode name
    let ins ← hexListDecode ins
    let outs ← hexListDecode outs
    let ami ← flag ami
    let amo ← flag amo
    let aood ← flag aood
    let args ← hexListDecode args
    let ek ← hexListDecode ek
    let ev ← hexListDecode ev
    let deps ← hexListDecode deps
    let style ← style.toNat?
    let inh ← flag inh
    let csi ← flag csi
    let sig ← Hex.decode sig
    if ek.length != ev.length then none else
    some (cls, { name := name, inputs := ins, outputs := outs, allowMissingInputs := ami,
                 allowModifiedOutputs := amo, alwaysOutOfDate := aood, args := args, env := ek.zip ev,
                 depsPaths := deps, depsStyle := style, inheritEnv := inh, canSafelyInterrupt := csi,
                 signatureData := sig })
  | _ => none

/-- attributes that the model knows are NOT hashed: accepted on a line and ignored -/
def unhashedKeys : List String :=
  ["link-output-path", "repair-via-ownership-analysis", "expectedOutputs", "roots",
   "typeattr", "is-mutated", "is-command-timestamp"]

/-- one `key=value` field (attribute name = value); each attribute is stored in the member its
`configureAttribute` assigns (`deps` here is ClangShellCommand's single path; `working-directory` must be absolute) -/
def applyKV (d : CommandDef) (kv : String) : Option CommandDef :=
  match kv.splitOn "=" with
  | [k, v] =>
    if k == "args" then (hexListDecode v).map fun l => { d with args := l }
    else if k == "executable" then (Hex.decode v).map fun b => { d with executable := b }
    else if k == "module-name" then (Hex.decode v).map fun b => { d with moduleName := b }
    else if k == "module-aliases" then (hexListDecode v).map fun l => { d with moduleAliases := l }
    else if k == "module-output-path" then (Hex.decode v).map fun b => { d with moduleOutputPath := b }
    else if k == "sources" then (hexListDecode v).map fun l => { d with sourcesList := l }
    else if k == "objects" then (hexListDecode v).map fun l => { d with objectsList := l }
    else if k == "import-paths" then (hexListDecode v).map fun l => { d with importPaths := l }
    else if k == "temps-path" then (Hex.decode v).map fun b => { d with tempsPath := b }
    else if k == "other-args" then (hexListDecode v).map fun l => { d with otherArgs := l }
    else if k == "is-library" then (flag v).map fun b => { d with isLibrary := b }
    else if k == "enable-whole-module-optimization" then (flag v).map fun b => { d with enableWholeModuleOptimization := b }
    else if k == "num-threads" then (Hex.decode v).map fun b => { d with numThreads := b }
    else if k == "working-directory" then (Hex.decode v).map fun b => { d with workingDirectory := b }
    else if k == "control-enabled" then (flag v).map fun b => { d with controlEnabled := b }
    else if k == "deps" then (Hex.decode v).map fun b => { d with depsPath := b }
    else if k == "compiler-style" then (Hex.decode v).map fun b => { d with compilerStyle := b }
    else if k == "contents" then (Hex.decode v).map fun b => { d with contents := b }
    else if k == "type" then v.toNat?.map fun n => { d with type := n }
    else if k == "producers" then (hexListDecode v).map fun l => { d with producers := l }
    else if unhashedKeys.contains k then some d
    else none
  | _ => none

/-- lines of the other tools: `<tool> <name> <inputs> <outputs> <ami> <amo> <aood> <key>=<value> ...`; the recipe
class comes from the GENERATED tool table (`node` lines use BuildNode's recipe). -/
def parseOther (fs : List String) : Option (Cls × CommandDef) :=
  match fs with
  | tool :: name :: ins :: outs :: ami :: amo :: aood :: kvs => do
    let cls ← if tool == "node" then some Cls.buildNode else (Generated.Signature.tools.lookup tool).map (·.2)
    let name ← Hex.decode name
    let ins ← hexListDecode ins
    let outs ← hexListDecode outs
    let ami ← flag ami
    let amo ← flag amo
    let aood ← flag aood
    -- a tool whose scalar `configureAttribute` overload accepts every name without delegating to ExternalCommand
    -- (GENERATED list; today: shared-library) ignores the three flags: the members keep their defaults
    let ign := Generated.Signature.acceptsAnyScalarAttribute.contains tool
    let (ami, amo, aood) := if ign then (false, false, false) else (ami, amo, aood)
    let d0 : CommandDef :=
      { name := name, inputs := ins, outputs := outs, allowMissingInputs := ami, allowModifiedOutputs := amo,
        alwaysOutOfDate := aood, args := [], env := [], depsPaths := [], depsStyle := 0, inheritEnv := true,
        canSafelyInterrupt := true, signatureData := [],
        -- the member's default initialiser: "swiftc" in SwiftCompilerShellCommand, "" in SharedLibraryShellCommand
        executable := if tool == "swift-compiler" then "swiftc".toUTF8.toList else [] }
    let d ← kvs.foldlM applyKV d0
    some (cls, d)
  | _ => none

/-- the optional attributes after the 15 positional fields of a shell / phony line -/
def tailKeys : List String := ["working-directory", "control-enabled", "repair-via-ownership-analysis"]

def isTailKV (kv : String) : Bool :=
  match kv.splitOn "=" with
  | [k, _] => tailKeys.contains k
  | _ => false

def parseLine (fs : List String) : Option (Cls × CommandDef) :=
  match fs with
  | tool :: _ =>
    if tool == "shell" || tool == "phony" then
      -- 15 positional fields, then optionally working-directory=<hex, absolute> control-enabled=0|1 (hashed by the
      -- built-in strategy of ShellCommand) and repair-via-ownership-analysis=0|1 (not hashed)
      if (fs.drop 15).all isTailKV then do
        let (c, d) ← parseDef (fs.take 15)
        let d ← (fs.drop 15).foldlM applyKV d
        some (c, d)
      else none
    else parseOther fs
  | [] => none

/-- `HashTerm.eval (sigTerm recipe d)` with the generated recipes -/
def stepSig (line : String) : String :=
  match parseLine (fields line) with
  | some (cls, d) =>
    match Generated.Signature.recipeOf cls, sigTerm Generated.Signature.recipeOf d 4 cls with
    | some r, some t => hex64 (evalSig r t)
    | _, _ => "no-term"
  | none => "bad-op"

def stepHashStr (line : String) : String :=
  match fields line with
  | [h] =>
    match Hex.decode h with
    | some s =>
      let a := HashTerm.str s
      let b := HashTerm.comb .seed (.str s)
      " ".intercalate [hex64 a.eval, hex64 b.eval, hex64 b.eval,
                       hex64 (HashTerm.comb a (.bool true)).eval, hex64 (HashTerm.comb a (.bool false)).eval]
    | none => "bad-op"
  | _ => "bad-op"

def modes : List (String × Mode) := [("c09sig", lineLoop stepSig), ("c09hashstr", lineLoop stepHashStr)]

end LLBuild.Drv.C09
