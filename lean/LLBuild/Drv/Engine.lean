import LLBuild.Drv.Common
import LLBuild.Model.EngineDSL
import LLBuild.Lemmas.Engine.Exec0

namespace LLBuild.Drv.Engine
open LLBuild LLBuild.Drv LLBuild.Engine LLBuild.Engine.DSL

def nums (toks : List String) : Option (List Nat) := toks.mapM (fun t => t.toNat?)

def takeReqs : Nat → List Nat → Option (List Req × List Nat)
  | 0, l => some ([], l)
  | n + 1, k :: i :: kd :: rest => do
    let (qs, r) ← takeReqs n rest
    some (⟨k, i, kd⟩ :: qs, r)
  | _, _ => none

def takeWhens : Nat → List Nat → Option (List (Cond × List Req) × List Nat)
  | 0, l => some ([], l)
  | n + 1, ck :: cid :: cm :: cr :: nr :: rest => do
    let (qs, r) ← takeReqs nr rest
    let (ws, r') ← takeWhens n r
    some ((⟨ck, cid, cm, cr⟩, qs) :: ws, r')
  | _, _ => none

def takeDiscs : Nat → List Nat → Option (List (Cond × Key) × List Nat)
  | 0, l => some ([], l)
  | n + 1, ck :: cid :: cm :: cr :: k :: rest => do
    let (ds, r) ← takeDiscs n rest
    some ((⟨ck, cid, cm, cr⟩, k) :: ds, r)
  | _, _ => none

def parseRule (n : List Nat) : Option RuleSpec :=
  match n with
  | key :: kind :: sigBase :: vm :: va :: force :: deferred :: vmod :: ns :: rest => do
    let (st, r1) ← takeReqs ns rest
    match r1 with
    | nw :: r2 => do
      let (ws, r3) ← takeWhens nw r2
      match r3 with
      | nd :: r4 => do
        let (ds, _) ← takeDiscs nd r4
        some { key, kind, sigBase, validMode := vm, validArg := va, force, deferred, vmod, statics := st, whens := ws, discs := ds }
      | _ => none
    | _ => none
  | _ => none

def parseInt (s : String) : Option Int := s.toInt?

def parseEvent (toks : List String) : Option Event :=
  match toks with
  | "B" :: rest => do let n ← nums rest; match n with | [k] => some (.buildStart k) | _ => none
  | "L" :: rest => do let n ← nums rest; match n with | [k] => some (.lookup k) | _ => none
  | "G" :: rest => do let n ← nums rest; match n with | [k, f] => some (.dbGet k (f != 0)) | _ => none
  | "S" :: rest => do
    let n ← nums rest
    match n with
    | [k, 0] => some (.scanning k)
    | [k, 1] => some (.upToDate k)
    | _ => none
  | "V" :: rest => do let n ← nums rest; match n with | [k, v, b] => some (.valid k v (b != 0)) | _ => none
  | ["N", k, r, i] => do
    let k ← k.toNat?; let r ← r.toNat?
    let i ← i.toInt?
    some (.needs k r (if i < 0 then none else some i.toNat))
  | "T" :: rest => do let n ← nums rest; match n with | [k] => some (.create k) | _ => none
  | "ST" :: rest => do
    let n ← nums rest
    match n with
    | k :: c :: r => do let (qs, _) ← takeReqs c r; some (.start k qs)
    | _ => none
  | "PP" :: rest => do let n ← nums rest; match n with | [k, v] => some (.prior k v) | _ => none
  | "PV" :: rest => do
    let n ← nums rest
    match n with
    | k :: id :: key :: v :: c :: r => do let (qs, _) ← takeReqs c r; some (.provide k id key v qs)
    | _ => none
  | "IA" :: rest => do
    let n ← nums rest
    match n with
    | k :: c :: r => if r.length == c then some (.inputsAvail k r) else none
    | _ => none
  | "C" :: rest => do let n ← nums rest; match n with | [k, v, f] => some (.complete k v (f != 0)) | _ => none
  | "DS" :: rest => do
    let n ← nums rest
    match n with
    | k :: v :: sg :: b :: c :: nd :: r =>
      let rec deps : Nat → List Nat → Option (List Dep)
        | 0, _ => some []
        | m + 1, dk :: oo :: su :: rr => do let ds ← deps m rr; some (⟨dk, oo != 0, su != 0⟩ :: ds)
        | _, _ => none
      do let ds ← deps nd r; some (.finished k { value := v, sig := sg, builtAt := b, computedAt := c, deps := ds })
    | _ => none
  | "DI" :: rest => do let n ← nums rest; match n with | [e] => some (.dbIter e) | _ => none
  | ["DB"] => some .dbBegin
  | ["DE"] => some .dbEnd
  | ["QC"] => some .queueCreated
  | "CY" :: rest => do let n ← nums rest; match n with | c :: r => if r.length == c then some (.cycle r) else none | _ => none
  | "ER" :: rest => do let n ← nums rest; match n with | [c] => some (.error c) | _ => none
  | ["X"] => some .cancel
  | ["KILL"] => some .crash
  | "R" :: rest => do let n ← nums rest; match n with | [v] => some (.ret v) | _ => none
  | "Z" :: rest => do let n ← nums rest; match n with | [a, b] => some (.tail a b) | _ => none
  | _ => none

structure DState where
  rules : List RuleSpec := []
  st : St := {}
  pendingRules : Nat := 0
  acc : List RuleSpec := []

def toks (s : String) : List String := (s.trimAscii.toString.splitOn " ").filter (· != "")

/-- after `S k 2`, skip the rule registrations (`L`/`G`) of discovered dependencies, a cancellation and
completions reported concurrently by other threads, up to `DS k` -/
def splitAtWrite (k : String) : List String → List String → Option (List String × String × List String)
  | acc, e :: rest =>
    match toks e with
    | "L" :: _ => splitAtWrite k (acc ++ [e]) rest
    | "G" :: _ => splitAtWrite k (acc ++ [e]) rest
    | ["X"] => splitAtWrite k (acc ++ [e]) rest
    | "C" :: _ => splitAtWrite k (acc ++ [e]) rest      -- a completion reported concurrently by another thread
    | ["KILL"] => some (acc, e, rest)      -- the process died before the write: the completion never took effect
    | "DS" :: k' :: _ => if k == k' then some (acc, e, rest) else none
    | _ => none
  | _, [] => none

def failedWrite (w : String) (rest : List String) : Bool :=
  (toks w).head? == some "DS" &&
  (match rest.map toks with
   | ["ER", "6"] :: _ => true
   | ["X"] :: ["ER", "6"] :: _ => true
   | _ => false)

/-- `S k 2` (IsComplete) is followed by the database write of the same rule (only registrations of
its discovered dependencies may come in between); the pair becomes the single `finished` event -/
def mergeFinished : Nat → List String → List String
  | 0, l => l
  | _, [] => []
  | fuel + 1, e :: rest =>
    match toks e with
    | ["S", k, "2"] =>
      match splitAtWrite k [] rest with
      | some (regs, w, rest') =>
        -- a FAILED database write (`DS k …` answered by the error `ER 6`, possibly with the cancellation `X` that the
        -- same event triggered in between): the engine reset the rule and nothing was stored, so the registrations are
        -- kept and the completion is dropped — the reading `evOfToksF` of Lemmas/Refine/Fail0.lean
        if failedWrite w rest' then regs ++ mergeFinished fuel rest' else
        regs ++ (w :: mergeFinished fuel rest')
      | none => "BAD complete-without-db-write" :: mergeFinished fuel rest
    | "DS" :: _ => "BAD db-write-without-complete" :: mergeFinished fuel rest
    | _ => e :: mergeFinished fuel rest

def runEvents (P : Program) (s : St) (evs : List String) (i : Nat) : St × Option String :=
  match evs with
  | [] => (s, none)
  | e :: rest =>
    match parseEvent (toks e) with
    | none => (s, some s!"parse-error {i} {e.trimAscii.toString}")
    | some ev =>
      -- the in-order guards of Lemmas/Engine/Exec0.lean (recorded dependencies are scanned in order, up to the first
      -- changed one; reason 3 names that one): not part of `step`, but what makes the executed set schedule-independent
      if !evOkX s ev then (s, some s!"reject-order {i} {e.trimAscii.toString}") else
      match step P s ev with
      | none => (s, some s!"reject {i} {e.trimAscii.toString}")
      | some s' => runEvents P s' rest (i + 1)

def stepLine (d : DState) (line : String) : DState × String :=
  let t := toks line
  if d.pendingRules > 0 then
    match t with
    | "R" :: rest =>
      match (nums rest).bind parseRule with
      | some r =>
        let acc := d.acc ++ [r]
        if d.pendingRules == 1 then
          -- a new program comes with an engine restart
          let st := match step (program acc) d.st .restart with | some s => s | none => d.st
          ({ d with rules := acc, acc := [], pendingRules := 0, st := st }, (if wf acc then "ok wf" else "ok notwf") ++ (if det acc then " det" else " nondet"))
        else ({ d with acc := acc, pendingRules := d.pendingRules - 1 }, "")
      | none => (d, "bad-rule")
    | _ => (d, "bad-rule")
  else
  let P := program d.rules
  match t with
  | ["P", n] =>
    match n.toNat? with
    | some 0 => ({ d with rules := [], st := (step P d.st .restart).getD d.st }, "ok")
    | some k => ({ d with pendingRules := k, acc := [] }, "")
    | none => (d, "bad-op")
  | ["F"] => (d, "ok")      -- the harness arms a database write failure: no event of its own (the failing build shows `ER 6`)
  | ["E"] => match step P d.st .restart with
    | some s => ({ d with st := s }, "ok")
    | none => (d, "reject restart")
  | ["W"] => match step P d.st .wipe with
    | some s => ({ d with st := s }, "ok")
    | none => (d, "reject wipe")
  | ["M", a, b] =>
    match a.toNat?, b.toNat? with
    | some a, some b => match step P d.st (.mutate a b) with
      | some s => ({ d with st := s }, "ok")
      | none => (d, "reject mutate")
    | _, _ => (d, "bad-op")
  | "T" :: _ =>
    let body := (line.trimAscii.toString.drop 1).toString
    let evs := body.splitOn ";"
    let (s', err) := runEvents P d.st (mergeFinished evs.length evs) 0
    match err with
    | some e => ({ d with st := { s' with target := none } }, e)
    | none => ({ d with st := s' }, s!"ok {evs.length}" ++ (if s'.pendingDropped then " dropped" else ""))
  | ["CLEAN", k] =>
    match k.toNat? with
    | some k => (d, match cleanVal P d.st.env 40 k with | some v => s!"{v}" | none => "none")
    | none => (d, "bad-op")
  | _ => (d, "bad-op")

/-- lines that only accumulate a multi-line op print nothing -/
partial def loop (d : DState) : Mode := fun h out => do
  let line ← h.getLine
  if line.isEmpty then return ()
  let (d', o) := stepLine d line
  if o != "" then out.putStrLn o
  loop d' h out

def modes : List (String × Mode) := [("enginecheck", loop {})]

end LLBuild.Drv.Engine
