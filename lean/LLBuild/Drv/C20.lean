import LLBuild.Drv.Common
import LLBuild.Model.CApi
import LLBuild.Model.CApiCallbacks

/-! Line-protocol mode for C20: `fn <name>` prints the generated forwarding row of one exported function,
`cb <Class::method>` the generated client-callback sites of one method of the binding, `status` / `cycle` the generated
status mapping / cycle-array shape (diagnostic only). -/
namespace LLBuild.Drv.C20
open LLBuild LLBuild.Drv LLBuild.CApi LLBuild.Generated.CApiForward LLBuild.Generated.CApiCallbacks

def step (line : String) : String :=
  match fields line with
  | ["fn", n] =>
    match CFn.all.find? (·.name == n) with
    | some f => s!"calls={reprStr (calls f)} unused={unusedParams f} documented={decide (calls f = documented f)}"
    | none => "unknown-function"
  | ["cb", n] =>
    match Method.all.find? (·.name == n) with
    | some m =>
      let okSites := decide ((sitesOf m).map Site.toDoc = documentedCallback m)
      let okGuards := (sitesOf m).all (fun s => decide (s.guard = documentedGuard s.callback))
      s!"sites={reprStr (sitesOf m)} unused={unusedMethodParams m} documented={okSites} guards-documented={okGuards}"
    | none => "unknown-method"
  | ["status"] =>
    s!"status={reprStr (EngineStatus.all.map (fun e => (e, statusMap e)))} documented={EngineStatus.all.all (fun e => decide (statusMap e = some (documentedStatus e)))}"
  | ["cycle"] => s!"cycle={reprStr cycleArray} documented={decide (cycleArray = documentedCycleArray)}"
  | _ => "bad-op"

def modes : List (String × Mode) := [("c20table", lineLoop step)]

end LLBuild.Drv.C20
