import LLBuild.Drv.Common
import LLBuild.Model.CApi

/-! Line-protocol mode for C20: `fn <name>` prints the generated forwarding row of one exported function. -/
namespace LLBuild.Drv.C20
open LLBuild LLBuild.Drv LLBuild.CApi LLBuild.Generated.CApiForward

def step (line : String) : String :=
  match fields line with
  | ["fn", n] =>
    match CFn.all.find? (·.name == n) with
    | some f => s!"calls={reprStr (calls f)} unused={unusedParams f} documented={decide (calls f = documented f)}"
    | none => "unknown-function"
  | _ => "bad-op"

def modes : List (String × Mode) := [("c20table", lineLoop step)]

end LLBuild.Drv.C20
