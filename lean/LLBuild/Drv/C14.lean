import LLBuild.Drv.Common
import LLBuild.Model.StalePath

namespace LLBuild.Drv.C14
open LLBuild LLBuild.Drv

def stepPrefix (line : String) : String :=
  match fields line with
  | [p, r] =>
    match Hex.decode p, Hex.decode r with
    | some p, some r => if StalePath.pathIsPrefixedByPath p r then "1" else "0"
    | _, _ => "bad-op"
  | _ => "bad-op"

def stepRun (line : String) : String :=
  match fields line with
  | [a, b, c] =>
    match hexListDecode a, hexListDecode b, hexListDecode c with
    | some prior, some expected, some roots =>
      let acts := (StalePath.actions prior expected roots).map fun
        | .remove p => "R:" ++ Hex.encode p
        | .warnRelative p => "WR:" ++ Hex.encode p
        | .warnOutside p => "WO:" ++ Hex.encode p
      "value=" ++ hexListEncode expected ++ " acts=" ++ (if acts.isEmpty then "." else ",".intercalate acts)
    | _, _, _ => "bad-op"
  | _ => "bad-op"

def modes : List (String × Mode) := [("c14prefix", lineLoop stepPrefix), ("c14run", lineLoop stepRun)]

end LLBuild.Drv.C14
