/-
C07 aggregate: cycle theorems on the abstract monitor (Props/C07.lean) and their corollary for the
concrete engine model (Props/EngineImplSound.lean: EngineImpl_sound_C07_cycle).
-/
import LLBuild.Props.C07
import LLBuild.Props.EngineImplSound
import LLBuild.Props.EngineImplTerm
import LLBuild.Props.EngineImplAsync
import LLBuild.Props.EngineImplSched4
