/-
C17 — Ninja manifests mean what Ninja says they mean.

"For any manifest in the Ninja language, the loaded build statements - outputs, explicit, implicit and
order-only inputs, and the fully expanded command, description, depfile and response-file strings - equal
those given by Ninja's evaluation rules: build-level over rule-level over file-level scoping, lazily evaluated
rule variables, shell-quoted $in and $out, $-escapes and line continuations, include sharing and subninja
nesting scopes, keywords recognised only as whole words, and bytes 0x80-0xFF treated as ordinary characters.
A shell-quoted path passed through /bin/sh yields the original path."

This module only joins the two halves; it states nothing itself.
  lexical half  (keywords, high bytes, $-escapes / continuations at token level, /bin/sh round trip):
                LLBuild.Props.C17Lex   — theorems `LLBuild.NinjaLexer.C17_*`, `LLBuild.ShellEscape.C17_sh_roundtrip`
  semantic half (scoping, lazy rule variables, $in/$out quoting, include / subninja, evalString):
                LLBuild.Props.C17Load  — theorems `LLBuild.NinjaLoader.C17_*`
  the parser in between (what a well-formed statement hands to the loader, where keywords count, the pure-Lean
                pipeline bytes → lexer → parser → loader): LLBuild.Props.C17Parse — theorems `LLBuild.NinjaParser.C17_*`
The check `vlib/props/c17.py` audits the C17 theorems of these modules.
-/
import LLBuild.Props.C17Lex
import LLBuild.Props.C17Load
import LLBuild.Props.C17Parse
