/-
C11 — Dependencies discovered while a command runs are honoured on later builds
(the parsing / escaping / decision part; the "touching a discovered path re-executes the command" clause is an
instance of the engine theorem and is decided with the engine model).

"... for every path spelling the format can express (spaces, '#', '$', backslashes, colons, relative paths resolved
against the command's working directory).  Paths written with the documented escaping (space, '#' and backslash
preceded by a backslash, '$' doubled) are recovered byte for byte, and a malformed dependency file fails the command
instead of silently dropping dependencies."

Property theorems only.  Models: LLBuild/Model/MakeDeps.lean (lexer, parser, writer, ShellCommand decision),
LLBuild/Model/DepInfo.lean; tables: LLBuild/Generated/DepsTables.lean (extracted on every run).

The expressible alphabet, precisely: every byte value except NUL (0), TAB (9), LF (10), CR (13) — `exprByte`.
`C11_inexpressible_newline` / `C11_inexpressible_control` prove that no spelling whatsoever yields them (LF never;
NUL/TAB/CR only glued to a preceding backslash that stays in the path).  A rule target additionally cannot contain
':' ; a prerequisite can, anywhere except in first position (`validTarget`, `validDep`).
-/
import LLBuild.Lemmas.DepInfo
import LLBuild.Lemmas.MakeDepsFile
import LLBuild.Props.C19Deps

namespace LLBuild.MakeDeps

/-- "recovered byte for byte", one word: a prerequisite `p` over the expressible alphabet (colons allowed), written
with the documented escaping at ANY place of ANY file (`pre` before it; after it end of file, a blank, a line end or a
continuation), is read back by the parser's word step (`lexWord` + the `:` loop) as exactly `p`, the cursor ending
exactly behind its spelling. -/
theorem C11_roundtrip_word (p pre suffix : Bytes) (hp : ∀ c ∈ p, exprByte c = true) (hs : stopsDep suffix = true) :
    lexDep (pre ++ escape p ++ suffix) pre.length = .ok (pre.length + (escape p).length, p) :=
  lexDep_roundtrip p pre suffix hp hs

/-- the same for a rule target (no colon): `lexWord` alone returns it. -/
theorem C11_roundtrip_target (p pre suffix : Bytes) (hp : ∀ c ∈ p, exprByte c = true ∧ c ≠ 58)
    (hs : stopsWord suffix = true) :
    lexWord (pre ++ escape p ++ suffix) pre.length = .ok (pre.length + (escape p).length, p) :=
  lexWord_roundtrip p pre suffix hp hs

/-- The file-level statement: every file written by `mkDepsFile` from valid rules (single or multiple rules, blank /
backslash-newline / backslash-CRLF separators, LF or CRLF line ends) parses, without any error action, to exactly the
rules that were written.  PROVED below as `C11_roundtrip_file` (follow-up; Lemmas/MakeDepsFile.lean); the concrete
multi-rule instances further down stay as kernel-evaluated non-vacuity witnesses, and on every run the python oracle checks
this very statement on the real parser for hundreds of generated files. -/
def C11_roundtrip_file_statement : Prop :=
  ∀ rules : List Rule, (∀ r ∈ rules, r.valid = true) →
    ∃ acts, parse false (mkDepsFile rules) = .ok acts ∧ acts.map Action.event = rules.flatMap Rule.events

/-- "Paths written with the documented escaping ... are recovered byte for byte", whole file: for EVERY list of valid
rules (any number of rules; targets and prerequisites over the full expressible alphabet — every byte except NUL, TAB, LF,
CR, no `:` in a target, none in first position of a prerequisite; any of the three separators in front of each
prerequisite; LF or CRLF line ends chosen per rule), parsing the file `mkDepsFile` writes yields exactly the event
sequence `start target, dep …, finish` of each rule in order — no error action, nothing dropped, nothing added. -/
theorem C11_roundtrip_file : C11_roundtrip_file_statement := by
  intro rules hv
  unfold parse
  exact parseRules_file rules (mkDepsFile rules) 0 hv (Nat.zero_le _) (Or.inl (by simp))

/-- the same with `ignoreSubsequentOutputs` (the `makefile-ignoring-subsequent-outputs` deps style): the parser reports
exactly the FIRST written rule — target, all its prerequisites, end — and nothing of the later rules. -/
theorem C11_roundtrip_file_ignoring (rules : List Rule) (hv : ∀ r ∈ rules, r.valid = true) :
    ∃ acts, parse true (mkDepsFile rules) = .ok acts ∧ acts.map Action.event = (rules.take 1).flatMap Rule.events := by
  cases rules with
  | nil => exact ⟨[], by decide +kernel, rfl⟩
  | cons r rs =>
    obtain ⟨acts, h, hev⟩ := parseRules_file_ign r rs (hv r (by simp))
    exact ⟨acts, h, by simpa using hev⟩

/-- what the command makes of a written file ("instead of silently dropping dependencies", positive direction): for
every list of valid rules `processMakefileDiscoveredDependencies` accepts the file (`numErrors == 0`), and the
discovered-dependency keys are exactly the written prerequisites of all rules, in order, each resolved against the
working directory. -/
theorem C11_roundtrip_file_discovered (wd : Bytes) (rules : List Rule) (hv : ∀ r ∈ rules, r.valid = true) :
    processMakefile false (mkDepsFile rules) = .ok true ∧
    ∃ acts, parse false (mkDepsFile rules) = .ok acts ∧
      discovered wd acts = rules.flatMap (fun r => r.deps.map (fun d => resolve wd d.2)) := by
  obtain ⟨acts, h, hev⟩ := C11_roundtrip_file rules hv
  refine ⟨?_, acts, h, ?_⟩
  · simp [processMakefile, h, mapOk, numErrors_eq_events, hev, Rule.events_no_error]
  · rw [discovered_eq_events, hev, Rule.events_deps]

/-- instances of the file-level statement: two rules; all three separators; CRLF and LF line ends; every special
character (`a b`, `#c`, `d\`, `$e`, `f:g`, `:`-final) -/
def sampleRules : List Rule :=
  [ { target := [35, 116, 32, 49], crlf := true,
      deps := [(.space, [97, 32, 98]), (.cont, [35, 99]), (.contCRLF, [100, 92]), (.space, [36, 101]), (.cont, [102, 58, 103, 58])] },
    { target := [36, 92, 111], crlf := false, deps := [(.contCRLF, [47, 120, 255, 1])] },
    { target := [122], crlf := false, deps := [] } ]

example : (∀ r ∈ sampleRules, r.valid = true) := by decide
example : (parse false (mkDepsFile sampleRules)).map (·.map Action.event) = .ok (sampleRules.flatMap Rule.events) := by
  decide +kernel
example : (parse true (mkDepsFile sampleRules)).map (·.map Action.event) = .ok ((sampleRules.take 1).flatMap Rule.events) := by
  decide +kernel

-- non-vacuity of the three file theorems: `sampleRules` satisfies their hypothesis (above), and the conclusions are not
-- trivially about empty streams
example : ∃ acts, parse false (mkDepsFile sampleRules) = .ok acts ∧ acts.length = 12 := by
  obtain ⟨acts, h, hev⟩ := C11_roundtrip_file sampleRules (by decide)
  exact ⟨acts, h, by have := congrArg List.length hev; simpa [sampleRules, Rule.events] using this⟩
example : discovered [47, 119] [.ruleStart [97] [97], .dep [98] [98], .ruleEnd] = [[47, 119, 47, 98]] := by decide

/-- LF is inexpressible: whatever the input and wherever lexing starts, no word reported by the parser's word step
contains a newline.  (So no escaping could make `escape` total on paths with LF.) -/
theorem C11_inexpressible_newline (inp : Bytes) (pos : Nat) (r : Nat × Bytes) (h : lexDep inp pos = .ok r) :
    10 ∉ r.2 := by
  unfold lexDep at h
  split at h
  · cases h
  · rename_i r1 h1
    obtain ⟨p, w⟩ := r
    obtain ⟨w2, h2, rfl⟩ := prepend_ok h
    have := lexWord_no_lf h1
    have := lexColons_no_lf h2
    simp_all

/-- NUL, TAB and CR are inexpressible as such: in any word `lexWord` returns they occur only immediately behind a
backslash that is part of the word (`\<TAB>` stays `\<TAB>`), never on their own. -/
theorem C11_inexpressible_control (inp : Bytes) (pos : Nat) (r : Nat × Bytes) (h : lexWord inp pos = .ok r) :
    ctlOnlyAfterBackslash false r.2 = true :=
  lexWord_ctl h

/-- comments (repaired F18): a `#` line up to and including its newline is skipped — scanning from the `#` ends
where scanning from the byte after the newline ends. -/
theorem C11_comment_skipped (pre text rest : Bytes) (ht : 10 ∉ text) :
    skipWsC (pre ++ 35 :: text ++ 10 :: rest) pre.length =
      skipWsC (pre ++ 35 :: text ++ 10 :: rest) (pre.length + text.length + 2) := by
  have hsc := skipComment_text text pre rest 35 ht
  have hlen : (pre ++ 35 :: text ++ 10 :: rest).length = pre.length + text.length + 2 + rest.length := by
    simp; omega
  have hp0 : peek (pre ++ 35 :: text ++ 10 :: rest) pre.length = some 35 := by
    simpa using peek_append_0 pre (text ++ 10 :: rest) 35
  have hp1 : peek (pre ++ 35 :: text ++ 10 :: rest) (pre.length + text.length + 1) = some 10 := by
    have := peek_append_0 (pre ++ 35 :: text) rest 10
    simpa [Nat.add_assoc] using this
  conv => lhs; unfold skipWsC
  split
  · omega
  · split
    · rename_i hn; rw [hp0] at hn; cases hn
    · rename_i c hc; rw [hp0] at hc; cases hc
      simp only [Generated.mdCommentChar, beq_self_eq_true, ↓reduceIte]
      split
      · rename_i e he; rw [hsc] at he; cases he
      · rename_i q hq; rw [hsc] at hq; cases hq
        conv => lhs; unfold skipWsC
        split
        · omega
        · split
          · rename_i hn; rw [hp1] at hn; cases hn
          · rename_i c hc; rw [hp1] at hc; cases hc
            simp [Generated.mdCommentChar, isWsAll, Generated.mdWhitespaceAll]

/-- "relative paths resolved against the command's working directory": a path that does not start with a separator
is appended to the (non-empty, absolute) working directory with exactly one separator in between. -/
theorem C11_relative_resolved (wd p : Bytes) (hwd : wd ≠ []) (hp : p.head? ≠ some 47) :
    resolve wd p = if wd.getLast? = some 47 then wd ++ p else wd ++ 47 :: p := by
  have habs : isAbsolute p = false := by
    cases p with
    | nil => rfl
    | cons c rest =>
      have hc : c ≠ 47 := by simpa using hp
      unfold isAbsolute
      split <;> simp_all
  have hdw : p.dropWhile (· == 47) = p := by
    cases p with
    | nil => rfl
    | cons c rest =>
      have hc : (c == 47) = false := by simpa using hp
      simp [List.dropWhile, hc]
  unfold resolve pathAppend
  simp only [habs, Bool.false_eq_true, ↓reduceIte]
  cases hl : wd.getLast? with
  | none => simp at hl; exact absurd hl hwd
  | some l =>
    by_cases h47 : l = 47
    · subst h47; simp [hdw]
    · have hne : (some l : Option UInt8) ≠ some 47 := by simpa using h47
      split
      · rename_i heq; exact absurd heq hne
      · rename_i c hc _
        simp [hp, hne]
      · rename_i hc; cases hc

/-- an absolute path is taken as written -/
theorem C11_absolute_unchanged (wd p : Bytes) (h : isAbsolute p = true) : resolve wd p = p := by
  simp [resolve, h]

end LLBuild.MakeDeps

namespace LLBuild.DepInfo
open LLBuild.MakeDeps (peek peek_append_0 slice mapOk)

/-- dependency-info round trip: a file consisting of the version record followed by any input / missing / output
records with non-empty NUL-free operands is parsed back into exactly those records, with no error. -/
theorem C11_depinfo_roundtrip (v : Bytes) (rs : List Rec) (hv : v ≠ []) (hv0 : 0 ∉ v)
    (hrs : ∀ r ∈ rs, r.okTail = true) :
    parse (encode (.version v :: rs)) = .ok (.version v :: rs.map Rec.action) := by
  obtain ⟨init, hinit⟩ := encode_ends_nul (.version v :: rs) (by simp)
  have hlast : peek (encode (.version v :: rs)) ((encode (.version v :: rs)).length - 1) = some 0 := by
    rw [hinit]
    simpa using peek_append_0 init [] 0
  have henc : encode (.version v :: rs) = [Generated.diOpVersion] ++ v ++ 0 :: encode rs := by
    simp [encode, encodeRec, Rec.opcode, Rec.operand]
  have hfirst : peek (encode (.version v :: rs)) 0 = some Generated.diOpVersion := by
    rw [henc]; rfl
  have hlen : (encode (.version v :: rs)).length = 1 + v.length + 1 + (encode rs).length := by
    rw [henc]; simp; omega
  have hvl : 0 < v.length := List.length_pos_iff.2 hv
  unfold parse
  split
  · omega
  · split
    · rename_i hn; rw [hlast] at hn; cases hn
    · rename_i l hl; rw [hlast] at hl; cases hl
      simp only [bne_self_eq_false, Bool.false_eq_true, ↓reduceIte]
      split
      · rename_i hn; rw [hfirst] at hn; cases hn
      · rename_i c0 hc0; rw [hfirst] at hc0; cases hc0
        simp only [bne_self_eq_false, Bool.false_eq_true, ↓reduceIte]
        -- the first record
        unfold records
        have hscan : scanNul (encode (.version v :: rs)) (0 + 1) = .ok (0 + 1 + v.length) := by
          rw [henc]
          simpa using scanNul_operand v [Generated.diOpVersion] (encode rs) hv0
        split
        · omega
        · split
          · rename_i hn; rw [hfirst] at hn; cases hn
          · rename_i op hop; rw [hfirst] at hop; cases hop
            split
            · rename_i hg; simp only [Bool.and_eq_true, beq_iff_eq] at hg; have := hg.2; omega
            · split
              · rename_i e he; rw [hscan] at he; cases he
              · rename_i q hq; rw [hscan] at hq; cases hq
                split
                · omega
                · have hsl : slice (encode (.version v :: rs)) (0 + 1) (0 + 1 + v.length) = v := by
                    rw [henc]
                    simpa using slice_mid [Generated.diOpVersion] v (0 :: encode rs)
                  have hnext : encode (.version v :: rs) = encodeRec (.version v) ++ encode rs := by simp [encode]
                  have hpos : 0 + 1 + v.length + 1 = (encodeRec (.version v)).length := by
                    simp [encodeRec, Rec.operand]; omega
                  rw [hsl, hpos]
                  conv => lhs; arg 2; rw [hnext]
                  rw [records_tail rs (encodeRec (.version v)) hrs]
                  simp [mapOk, dispatch]

end LLBuild.DepInfo

namespace LLBuild.ShellDeps
open LLBuild.MakeDeps (R mapOk)

theorem process_false_of_file_false (style : DepsStyle) (hs : style ≠ .unused) (f : DepsFile)
    (hf : processFile style f = .ok false) :
    ∀ (before after : List DepsFile), (∀ g ∈ before, processFile style g = .ok true) →
      processDiscoveredDependencies style (before ++ f :: after) = .ok false := by
  intro before
  induction before with
  | nil => intro after _; simp [processDiscoveredDependencies, hs, hf]
  | cons g gs ih =>
    intro after hb
    have hg := hb g (by simp)
    simp only [List.cons_append, processDiscoveredDependencies, hs, ↓reduceIte, hg]
    exact ih after (fun x hx => hb x (by simp [hx]))

/-- "a malformed dependency file fails the command instead of silently dropping dependencies": if parsing ANY of the
command's dependency files (Makefile style, with or without `ignoreSubsequentOutputs`, or dependency-info) reports an
error — the files before it having been accepted — then `processDiscoveredDependencies` returns false and the command's
completion status is Failed (⇒ `BuildValue::makeFailedCommand`, never a successful value). -/
theorem C11_malformed_fails (style : DepsStyle) (contents : Bytes) (before after : List DepsFile)
    (hbefore : ∀ g ∈ before, processFile style g = .ok true)
    (hmal :
      (style = .makefile ∧ ∃ acts k pos, MakeDeps.parse false contents = .ok acts ∧ MakeDeps.Action.error k pos ∈ acts) ∨
      (style = .makefileIgnoringSubsequentOutputs ∧
        ∃ acts k pos, MakeDeps.parse true contents = .ok acts ∧ MakeDeps.Action.error k pos ∈ acts) ∨
      (style = .dependencyInfo ∧ ∃ acts k pos, DepInfo.parse contents = .ok acts ∧ DepInfo.Action.error k pos ∈ acts)) :
    processDiscoveredDependencies style (before ++ some contents :: after) = .ok false ∧
    completion style (before ++ some contents :: after) = .ok .failed := by
  have hf : processFile style (some contents) = .ok false ∧ style ≠ .unused := by
    rcases hmal with ⟨rfl, acts, k, pos, hp, hm⟩ | ⟨rfl, acts, k, pos, hp, hm⟩ | ⟨rfl, acts, k, pos, hp, hm⟩
    · have := MakeDeps.numErrors_pos_of_mem hm
      simp [processFile, MakeDeps.processMakefile, hp, mapOk, this]
    · have := MakeDeps.numErrors_pos_of_mem hm
      simp [processFile, MakeDeps.processMakefile, hp, mapOk, this]
    · have := DepInfo.numErrors_pos_of_mem hm
      simp [processFile, DepInfo.processDepInfo, hp, mapOk, this]
  have h1 := process_false_of_file_false style hf.2 (some contents) hf.1 before after hbefore
  refine ⟨h1, ?_⟩
  unfold completion
  simp [h1, mapOk]

/-- conversely nothing else fails it: when every file parses without an error action, the command's own result stands -/
theorem C11_wellformed_succeeds (style : DepsStyle) (hs : style ≠ .unused) (files : List DepsFile)
    (h : ∀ g ∈ files, processFile style g = .ok true) : completion style files = .ok .succeeded := by
  have : processDiscoveredDependencies style files = .ok true := by
    induction files with
    | nil => simp [processDiscoveredDependencies, hs]
    | cons g gs ih =>
      simp only [processDiscoveredDependencies, hs, ↓reduceIte, h g (by simp)]
      exact ih (fun x hx => h x (by simp [hx]))
  unfold completion
  split
  · rfl
  · simp [this, mapOk]

theorem ok_of_mapOk {α β : Type} {f : α → β} {r : R α} {b : β} (h : mapOk f r = .ok b) : ∃ a, r = .ok a := by
  cases r with
  | ok a => exact ⟨a, rfl⟩
  | error e => simp [mapOk] at h

/-- a file that `processDiscoveredDependencies` accepts has been parsed to the end: its keys are defined -/
theorem fileKeys_ok_of_process {style : DepsStyle} (wd : Bytes) {f : DepsFile} (h : processFile style f = .ok true) :
    ∃ ks, fileKeys style wd f = .ok ks := by
  cases f with
  | none => exact ⟨[], rfl⟩
  | some c =>
    cases style with
    | unused => exact ⟨[], rfl⟩
    | makefile =>
      obtain ⟨a, ha⟩ := ok_of_mapOk (show mapOk _ (MakeDeps.parse false c) = .ok true from h)
      simp [fileKeys, ha, mapOk]
    | makefileIgnoringSubsequentOutputs =>
      obtain ⟨a, ha⟩ := ok_of_mapOk (show mapOk _ (MakeDeps.parse true c) = .ok true from h)
      simp [fileKeys, ha, mapOk]
    | dependencyInfo =>
      obtain ⟨a, ha⟩ := ok_of_mapOk (show mapOk _ (DepInfo.parse c) = .ok true from h)
      simp [fileKeys, ha, mapOk]

/-- "instead of silently dropping dependencies", for the whole `deps:` LIST: `processDiscoveredDependencies` returning true
is the only way the command can complete successfully (`completion`), and when it does, the keys handed to the engine are
exactly the keys of EVERY file of the list — first, middle or last — concatenated in order.  (A loop that forgets the
result of an earlier file, or stops early with `true`, does not have this property.) -/
theorem C11_success_registers_every_file (style : DepsStyle) (wd : Bytes) (files : List DepsFile)
    (h : processDiscoveredDependencies style files = .ok true) :
    ∃ kss : List (List Bytes),
      kss.length = files.length ∧ (∀ p ∈ files.zip kss, fileKeys style wd p.1 = .ok p.2) ∧
      discoveredKeys style wd files = .ok kss.flatten := by
  induction files with
  | nil => exact ⟨[], rfl, by simp, by simp [discoveredKeys]⟩
  | cons g gs ih =>
    have hs : style ≠ .unused := by
      intro hu; simp [processDiscoveredDependencies, hu] at h
    simp only [processDiscoveredDependencies, hs, ↓reduceIte] at h
    cases hg : processFile style g with
    | error e => simp [hg] at h
    | ok b =>
      cases b with
      | false => simp [hg] at h
      | true =>
        simp only [hg] at h
        obtain ⟨kg, hkg⟩ := fileKeys_ok_of_process wd hg
        obtain ⟨kss, hl, hf, hd⟩ := ih h
        refine ⟨kg :: kss, by simp [hl], ?_, by simp [discoveredKeys, hs, hg, hkg, hd, mapOk]⟩
        intro p hp
        rcases List.mem_cons.1 (by simpa using hp) with rfl | hp'
        · exact hkg
        · exact hf p hp'

/-- and the command is successful only in that case: a `deps:` list whose processing returns false (or is undefined)
never yields `.succeeded` -/
theorem C11_succeeded_only_if_processed (style : DepsStyle) (files : List DepsFile) (hne : files ≠ [])
    (h : completion style files = .ok .succeeded) : processDiscoveredDependencies style files = .ok true := by
  unfold completion at h
  have : files.isEmpty = false := by cases files <;> simp_all
  simp only [this] at h
  cases hp : processDiscoveredDependencies style files with
  | error e => simp [hp, mapOk] at h
  | ok b => cases b <;> simp_all [mapOk]

end LLBuild.ShellDeps

/-! Non-vacuity -/
namespace LLBuild.MakeDeps

-- every special character in one prerequisite: `a b#c\d$e:f`  is written  `a\ b\#c\\d$$e:f`
example : escape [97, 32, 98, 35, 99, 92, 100, 36, 101, 58, 102] =
    [97, 92, 32, 98, 92, 35, 99, 92, 92, 100, 36, 36, 101, 58, 102] := by decide
example : lexDep ([120, 58, 32] ++ escape [97, 32, 98, 35, 99, 92, 100, 36, 101, 58, 102] ++ [10]) 3 =
    .ok (18, [97, 32, 98, 35, 99, 92, 100, 36, 101, 58, 102]) := by decide +kernel
-- the hypotheses of C11_roundtrip_word hold for it
example : (∀ c ∈ [97, 32, 98, 35, 99, 92, 100, 36, 101, 58, 102], exprByte c = true) ∧ stopsDep [10] = true := by decide
-- TAB is not expressible: `\<TAB>` keeps its backslash
example : lexWord [92, 9] 0 = .ok (2, [92, 9]) := by decide +kernel
-- a comment line, then a rule (F18: used to yield ruleStart "x" + missing ':')
example : parse false [35, 32, 120, 10, 97, 58, 32, 98, 10] = .ok [.ruleStart [97] [97], .dep [98] [98], .ruleEnd] := by
  decide +kernel
-- relative and absolute
example : resolve [47, 119] [97, 47, 98] = [47, 119, 47, 97, 47, 98] := by decide
example : resolve [47, 119, 47] [97] = [47, 119, 47, 97] := by decide
example : resolve [47, 119] [47, 97] = [47, 97] := by decide

end LLBuild.MakeDeps

namespace LLBuild.ShellDeps
-- `a b` (missing colon) as the only dependency file of a successful process ⇒ Failed
example : completion .makefile [some [97, 32, 98]] = .ok .failed := by decide +kernel
example : completion .makefile [some [97, 58, 32, 98, 10]] = .ok .succeeded := by decide +kernel
example : completion .dependencyInfo [some [0, 118, 0, 0]] = .ok .failed := by decide +kernel
-- a `deps:` list of two files, `a: b` and `c: /d`, working directory `/w`: both files' keys are registered
example : processDiscoveredDependencies .makefile [some [97, 58, 32, 98, 10], some [99, 58, 32, 47, 100, 10]] = .ok true ∧
    discoveredKeys .makefile [47, 119] [some [97, 58, 32, 98, 10], some [99, 58, 32, 47, 100, 10]] = .ok [[47, 119, 47, 98], [47, 100]] := by
  decide +kernel
-- the malformed file FIRST (`a b`), a well-formed one after it: Failed, and the second file is not even read
example : completion .makefile [some [97, 32, 98], some [99, 58, 32, 47, 100, 10]] = .ok .failed ∧
    discoveredKeys .makefile [47, 119] [some [97, 32, 98], some [99, 58, 32, 47, 100, 10]] = .ok [] := by decide +kernel
end LLBuild.ShellDeps

namespace LLBuild.DepInfo
example : parse (encode [.version [118], .input [47, 97], .missing [98], .output [99]]) =
    .ok [.version [118], .input [47, 97], .missing [98], .output [99]] := by decide +kernel
end LLBuild.DepInfo
