/-
C04 on the transliterated engine: a build KILLED at any point.

`Lemmas/Refine/Crash*.lean` / `Final4.lean` add to the histories of `EngineImplAsync.lean` the op
`crashedBuild key cancelAt sched a cut`: the build is run with an arbitrary asynchronous schedule and
the process is killed after `cut + 1` trace tokens — anywhere before the commit (`DE`), including
inside the window between a rule's result being written to the store and the engine recording it
(`S k 2 … DS k`).  What is left is a new engine on the UNCHANGED store (`opRestart`: every write of
the killed build was inside the uncommitted transaction).  The events of the cut trace followed by
`crash` are accepted by the abstract monitor (`crashedBuild_refines`, `refinement_final_crash`), so
the engine-level C04 statements of `Props/C04Engine.lean` (continue-clean, rows good, no epoch reuse)
are statements about the concrete engine model after any such history.

The real process kill is exercised by the harness (`K` op: the build runs in a forked child that is
`_exit`ed at the cut event; on SQLite with a kill shim in `c04.py`); the concrete model predicts the
traces of completed builds exactly (stream `engineimpl`), and the `KILL` rule of the text driver is
`evOfToks` (`toEvents_evOfToks`: on complete traces it is `toEvents`).
-/
import LLBuild.Props.EngineImplAsync
import LLBuild.Props.C04Engine
import LLBuild.Lemmas.Refine.Final4

namespace LLBuild.Refine
open LLBuild.Engine LLBuild.Engine.DSL LLBuild.EngineImpl

theorem histSizedC_append (rules : List RuleSpec) : ∀ (a b : List OpC) (s : State),
    histSizedC rules (a ++ b) s ↔ histSizedC rules a s ∧ histSizedC rules b (runOpsC a s)
  | [], b, s => by simp [histSizedC, runOpsC]
  | op :: a, b, s => by
    simp only [List.cons_append, histSizedC, runOpsC, histSizedC_append rules a b (runOpC op s), and_assoc]

/-- **C04 (accepted): every history with builds killed at arbitrary points is one the monitor accepts**,
and the monitor ends with its committed snapshot equal to the live database. -/
theorem EngineImpl_sound_crash {rules : List RuleSpec} (hok : RulesOk rules) (ops : List OpC)
    (hs : histSizedC rules ops (opProgram rules {})) :
    ∃ evs m', histEventsC ops (opProgram rules {}) = some evs ∧ run (program rules) {} evs = some m' ∧
      RelIdle rules (runOpsC ops (opProgram rules {})) m' ∧ Committed m' :=
  refinement_final_crash_committed hok ops hs

/-- **C04 (continue clean): after any history in which builds were killed at arbitrary points, with
arbitrary changes of external state in between, the value a later build returns** — when it reported
neither a cycle nor an error and was not cancelled (F22 ghost flag as in C01) — **is the clean value.** -/
theorem EngineImpl_sound_C04_continue_clean {rules : List RuleSpec} (hok : RulesOk rules) (hwf : DSL.wf rules = true)
    (ops : List OpC) (key cancelAt : Nat) (sched : List SchedItem) (a : Async)
    (hs : histSizedC rules (ops ++ [.build key cancelAt sched a]) (opProgram rules {})) :
    ∃ evs0 m0 evsB,
      histEventsC ops (opProgram rules {}) = some evs0 ∧ run (program rules) {} evs0 = some m0 ∧
      toEvents (runBuildA key cancelAt sched a (runOpsC ops (opProgram rules {}))).trace.reverse = some evsB ∧
      ∀ pre v post, evsB = pre ++ Event.ret v :: post →
        ∃ m1 m2, run (program rules) m0 pre = some m1 ∧ step (program rules) m1 (.ret v) = some m2 ∧
          (m2.pendingDropped = false → m1.cancelled = false → m1.cycleSeen = false → m1.errSeen = false →
            ∃ root, m1.target = some root ∧ Clean (program rules) m1.env root v) := by
  obtain ⟨h1, h2⟩ := (histSizedC_append rules ops _ _).1 hs
  obtain ⟨evs0, m0, he0, hr0, hrel, _⟩ := refinement_final_crash_committed hok ops h1
  obtain ⟨evsB, m', heB, hrB, _, _⟩ := buildC_refines hok hrel key cancelAt sched a (by simpa [histSizedC] using h2.1)
  refine ⟨evs0, m0, evsB, he0, hr0, heB, ?_⟩
  intro pre v post hsplit
  rw [hsplit, run_append] at hrB
  cases h1' : run (program rules) m0 pre with
  | none => rw [h1'] at hrB; simp at hrB
  | some m1 =>
    rw [h1'] at hrB
    simp only [Option.bind, run] at hrB
    cases h2' : step (program rules) m1 (.ret v) with
    | none => rw [h2'] at hrB; simp at hrB
    | some m2 =>
      refine ⟨m1, m2, rfl, h2', ?_⟩
      intro hnd hc hcy he
      have hrun : run (program rules) {} (evs0 ++ pre) = some m1 := by
        rw [run_append, hr0]; exact h1'
      exact C01_value_dsl hwf hrun h2' hnd ⟨hc, hcy, he⟩

/-- **C04 (nothing of the killed build survives, nothing is left behind):** the engine after a killed
build is a fresh engine on the store as it was when the build started, and after any history with
kills every queue and counter of the engine is empty and the store's iteration is the engine's epoch. -/
theorem EngineImpl_sound_C04_state {rules : List RuleSpec} (hok : RulesOk rules)
    (ops : List OpC) (hs : histSizedC rules ops (opProgram rules {})) :
    let s := runOpsC ops (opProgram rules {})
    s.taskInfos = [] ∧ s.ruleInfosToScan = [] ∧ s.inputRequests = [] ∧ s.finishedInputRequests = [] ∧
    s.readyTaskInfos = [] ∧ s.finishedTaskInfos = [] ∧ s.numOutstandingUnfinishedTasks = 0 ∧
    s.numRulesBeingScanned = 0 ∧ s.pendingDeferred = [] ∧ s.buildActive = false ∧
    s.store.iteration = s.currentEpoch := by
  obtain ⟨_, _, _, _, h⟩ := refinement_final_crash hok ops hs
  exact ⟨h.noTasks, h.noScanQ, h.noInputQ, h.noFinQ, h.noReady, h.noFinTasks, h.noOutstanding, h.noScanning,
    h.noDeferred, h.notActive, h.iterEq⟩

/-- the killed build leaves the store untouched -/
theorem EngineImpl_crash_store (key cancelAt : Nat) (sched : List SchedItem) (a : Async) (cut : Nat) (s : State) :
    (runOpC (.crashedBuild key cancelAt sched a cut) s).store = s.store := by
  simp [runOpC, opRestart, newEngine]

/-- **C04 (rows good, no epoch reuse) for the concrete engine:** after any history with kills, the
monitor state the engine is related to has every committed row reusable-good and epoch-sound. -/
theorem EngineImpl_sound_C04_rows {rules : List RuleSpec} (hok : RulesOk rules) (hwf : DSL.wf rules = true)
    (ops : List OpC) (hs : histSizedC rules ops (opProgram rules {})) :
    ∃ evs m', histEventsC ops (opProgram rules {}) = some evs ∧ run (program rules) {} evs = some m' ∧
      RelIdle rules (runOpsC ops (opProgram rules {})) m' ∧
      (m'.pendingDropped = false →
        (∀ k, (m'.cdb.res k).builtAt ≤ m'.cdbIter ∧ (m'.cdb.res k).computedAt ≤ m'.cdbIter) ∧
        (∀ k, (m'.cdb.res k).builtAt ≠ 0 →
          (Reusable (program rules) k (m'.cdb.res k).sig → GoodRec (program rules) m'.cdb k) ∧
            FreshRec m'.cdb [] k)) := by
  obtain ⟨evs, m', h1, h2, h3⟩ := refinement_final_crash hok ops hs
  refine ⟨evs, m', h1, h2, h3, fun hnd => ?_⟩
  have hP : (program rules).WF := program_WF hwf
  exact ⟨(C04_no_epoch_reuse_engine hP h2 hnd).1, C04_committed_rows_good hP h2 hnd⟩

/-- **the link to the compiled model:** the prefix the text driver predicts for the harness's `K` op
(`killedTrace`, Model/EngineImpl.lean — compared with the real forked-and-killed child on every run) is
the cut trace of the theorems, with the empty asynchronous schedule and `cut = max at 2 - 2` -/
theorem EngineImpl_killedTrace (key at_ : Nat) (sched : List SchedItem) (s : State) :
    killedTrace key at_ sched s =
      cutToks key 0 (sched.map fun i => { i with cancel := false }) [] (max at_ 2 - 2) s := by
  have h : max at_ 2 - 2 + 1 = max at_ 2 - 1 := by omega
  unfold killedTrace cutToks
  rw [runBuildA_nil, h]
  congr 2
  funext t
  cases t <;> rfl

/-- the link to `EngineImplAsync`: a history without kills is an asynchronous history -/
theorem EngineImpl_crash_none {rules : List RuleSpec} (hok : RulesOk rules) (ops : List OpA)
    (hs : histSizedA rules ops (opProgram rules {})) :
    ∃ evs m', histEventsA ops (opProgram rules {}) = some evs ∧ run (program rules) {} evs = some m' ∧
      RelIdle rules (runOpsA ops (opProgram rules {})) m' :=
  refinement_final_async_of_crash hok ops hs

end LLBuild.Refine
