/-
C06 on the transliterated engine: OUTCOME INDEPENDENT OF COMPLETION ORDER AND THREADS, stated purely in terms of the
concrete engine model (`Model/EngineImpl.lean`, with the asynchronous schedules of `Lemmas/Refine/Async0.lean`) and its
PRINTED TRACE.

"Whatever order and on whatever threads tasks report completion, a build yields the same values …"

For every rule list with `RulesOk`, `DSL.wf`, `DSL.det`, every history `ops : List OpC` (wipe / restart / mutate / completed
builds with any schedules / builds KILLED at any point) under the size condition, every key, and ANY two runs of the next
build that differ in the hook schedule `sched`, the asynchronous schedule `a` (completions of parked tasks and
`cancelBuild()` by other threads at every item boundary) and the cancellation point `cancelAt`:
if both printed traces satisfy the DECIDABLE predicate `Succeeded · v` (the trace contains `R v` and no `X`, no `CY _`, no
`ER _`), the two values are EQUAL (`EngineImpl_sound_C06_schedule_independent`), and each is THE clean value of the key in
the engine's current external state (`EngineImpl_sound_C06_clean_value`).

The ghost hypothesis `pendingDropped = false` of `C01_value` (known finding F22) is not assumed of the monitor: it is
DERIVED from a decidable condition on the printed traces of the history, `histDropped ops s₀ false = false`
(`Lemmas/Refine/Sched2.lean`: since the last wipe no completed build reached its commit `DE` while a discovered dependency
declared by a finished task — `IA k ds` … `DS k` — was still not up to date — no `S d 1` / `DS d`).  This is EXACTLY the
monitor's flag (`EngineImpl_sound_C06_ghost_flag`).  Without it the companion theorem is FALSE of the concrete engine
(last example: F22 replayed on the model, the stale value is returned by a build that `Succeeded`).  The `_partial`
versions ask instead that no completed build of the history printed `X`/`CY`/`ER` (then nothing was ever dropped).
Details: notes/REFINESCHED.md §12.
-/
import LLBuild.Props.C06
import LLBuild.Lemmas.Refine.Sched2
import LLBuild.Lemmas.Refine.Gen

namespace LLBuild.Refine
open LLBuild.Engine LLBuild.Engine.DSL LLBuild.EngineImpl

/-- **the ghost flag is a function of the printed traces**: after any history from a fresh harness the monitor state the
engine is related to has `pendingDropped = histDropped ops s₀ false` -/
theorem EngineImpl_sound_C06_ghost_flag {rules : List RuleSpec} (hok : RulesOk rules) (ops : List OpC)
    (hs : histSizedC rules ops (opProgram rules {})) :
    ∃ evs m', histEventsC ops (opProgram rules {}) = some evs ∧ run (program rules) {} evs = some m' ∧
      RelIdle rules (runOpsC ops (opProgram rules {})) m' ∧
      m'.pendingDropped = histDropped ops (opProgram rules {}) false := by
  obtain ⟨evs, m', h1, h2, h3, _, h4, _⟩ := sched_history hok ops _ _ (RelIdle.init rules) Committed.init hs
  exact ⟨evs, m', h1, h2, h3, h4⟩

/-- **C06 (the value any schedule returns is THE clean value).**  After any history in which nothing was dropped
(`histDropped … = false`: decidable on the printed traces), a build of `key` — with ANY hook schedule, ANY asynchronous
schedule of completions and cancellations by other threads, ANY cancellation point — whose printed trace contains `R v`
and no `X`/`CY`/`ER` returned the value a brand-new engine computes for `key` in the engine's current external state. -/
theorem EngineImpl_sound_C06_clean_value {rules : List RuleSpec} (hok : RulesOk rules) (hwf : DSL.wf rules = true)
    (ops : List OpC) (key : Nat) (hs : histSizedC rules ops (opProgram rules {}))
    (hk : workBound rules (runOpsC ops (opProgram rules {})) key + 2 < scanFuel)
    (hnd : histDropped ops (opProgram rules {}) false = false)
    (c : Nat) (sched : List SchedItem) (a : Async) (v : Val) :
    let s := runOpsC ops (opProgram rules {})
    Succeeded (runBuildA key c sched a s).trace.reverse v → Clean (program rules) s.env key v := by
  intro s hsucc
  obtain ⟨evs0, m0, _, hr0, hrel, _, hd, _⟩ := sched_history hok ops _ _ (RelIdle.init rules) Committed.init hs
  have hd0 : m0.pendingDropped = false := hd.trans hnd
  obtain ⟨rest, v', n, pre, m1, m2, m', htr, hnc, hpre, hret, hfl, htgt, henv, hpd, _, _, _⟩ :=
    build_nofail_ret hok hrel key c sched a hk hsucc.2
  have hv : v' = v := succeeded_value hnc (by rw [← htr]; exact hsucc.1)
  subst hv
  have hrun : run (program rules) {} (evs0 ++ pre) = some m1 := by
    rw [run_append, hr0]; exact hpre
  obtain ⟨root, hroot, hclean⟩ := C01_value_dsl hwf hrun hret (hpd.trans hd0) hfl
  rw [htgt] at hroot
  cases hroot
  rw [henv] at hclean
  exact hclean

/-- **C06 (outcome independent of completion order and threads).**  Two runs of the same build from the same engine
state that differ in the completion schedule, in what other threads do at the item boundaries, and in the cancellation
point: if both printed traces `Succeeded`, they returned the SAME value. -/
theorem EngineImpl_sound_C06_schedule_independent {rules : List RuleSpec} (hok : RulesOk rules)
    (hwf : DSL.wf rules = true) (hdet : DSL.det rules = true)
    (ops : List OpC) (key : Nat) (hs : histSizedC rules ops (opProgram rules {}))
    (hk : workBound rules (runOpsC ops (opProgram rules {})) key + 2 < scanFuel)
    (hnd : histDropped ops (opProgram rules {}) false = false)
    (c1 c2 : Nat) (sched1 sched2 : List SchedItem) (a1 a2 : Async) (v1 v2 : Val) :
    let s := runOpsC ops (opProgram rules {})
    let t1 := (runBuildA key c1 sched1 a1 s).trace.reverse
    let t2 := (runBuildA key c2 sched2 a2 s).trace.reverse
    Succeeded t1 v1 → Succeeded t2 v2 → v1 = v2 := by
  intro s t1 t2 h1 h2
  exact Clean_unique (DSL.program_Det hdet)
    (EngineImpl_sound_C06_clean_value hok hwf ops key hs hk hnd c1 sched1 a1 v1 h1)
    (EngineImpl_sound_C06_clean_value hok hwf ops key hs hk hnd c2 sched2 a2 v2 h2)

/-- … and it is the only clean value: every value `Clean` allows for `key` now is the one every succeeding schedule returns -/
theorem EngineImpl_sound_C06_clean_value_unique {rules : List RuleSpec} (hok : RulesOk rules)
    (hwf : DSL.wf rules = true) (hdet : DSL.det rules = true)
    (ops : List OpC) (key : Nat) (hs : histSizedC rules ops (opProgram rules {}))
    (hk : workBound rules (runOpsC ops (opProgram rules {})) key + 2 < scanFuel)
    (hnd : histDropped ops (opProgram rules {}) false = false)
    (c : Nat) (sched : List SchedItem) (a : Async) (v : Val) :
    let s := runOpsC ops (opProgram rules {})
    Succeeded (runBuildA key c sched a s).trace.reverse v → ∀ w, Clean (program rules) s.env key w → w = v := by
  intro s hsucc w hw
  exact Clean_unique (DSL.program_Det hdet) hw
    (EngineImpl_sound_C06_clean_value hok hwf ops key hs hk hnd c sched a v hsucc)

/-! ### the weaker versions: no completed build of the history was cancelled / reported a cycle / an error -/

theorem EngineImpl_sound_C06_clean_value_partial {rules : List RuleSpec} (hok : RulesOk rules)
    (hwf : DSL.wf rules = true)
    (ops : List OpC) (key : Nat) (hs : histSizedC rules ops (opProgram rules {}))
    (hk : workBound rules (runOpsC ops (opProgram rules {})) key + 2 < scanFuel)
    (hnf : histNoFail ops (opProgram rules {}))
    (c : Nat) (sched : List SchedItem) (a : Async) (v : Val) :
    let s := runOpsC ops (opProgram rules {})
    Succeeded (runBuildA key c sched a s).trace.reverse v → Clean (program rules) s.env key v :=
  EngineImpl_sound_C06_clean_value hok hwf ops key hs hk (histNoFail_dropped hok ops hs hnf) c sched a v

theorem EngineImpl_sound_C06_schedule_independent_partial {rules : List RuleSpec} (hok : RulesOk rules)
    (hwf : DSL.wf rules = true) (hdet : DSL.det rules = true)
    (ops : List OpC) (key : Nat) (hs : histSizedC rules ops (opProgram rules {}))
    (hk : workBound rules (runOpsC ops (opProgram rules {})) key + 2 < scanFuel)
    (hnf : histNoFail ops (opProgram rules {}))
    (c1 c2 : Nat) (sched1 sched2 : List SchedItem) (a1 a2 : Async) (v1 v2 : Val) :
    let s := runOpsC ops (opProgram rules {})
    let t1 := (runBuildA key c1 sched1 a1 s).trace.reverse
    let t2 := (runBuildA key c2 sched2 a2 s).trace.reverse
    Succeeded t1 v1 → Succeeded t2 v2 → v1 = v2 :=
  EngineImpl_sound_C06_schedule_independent hok hwf hdet ops key hs hk (histNoFail_dropped hok ops hs hnf)
    c1 c2 sched1 sched2 a1 a2 v1 v2

/-! ### non-vacuity -/

/-- the predicate on traces is decidable -/
example (toks : List Tok) (v : Val) : Decidable (Succeeded toks v) := inferInstance

/-- two DEFERRED input rules `1`, `2` (their tasks park until somebody calls `taskIsComplete`), an input rule `4`, and a
derived rule `3` that requests `1` and `2` and, once it has the value of `1`, discovers the dependency `4` -/
def schRules : List RuleSpec :=
  [{ key := 1, deferred := 1 }, { key := 2, deferred := 1 }, { key := 4 },
   { key := 3, kind := 1, statics := [⟨1, 7, 0⟩, ⟨2, 8, 0⟩], discs := [(⟨0, 7, 0, 0⟩, 4)] }]

theorem schRules_ok : RulesOk schRules := RulesOk.of_check (by decide)

/-- set the inputs; a build of `3` CANCELLED at its 10th event (it prints `X` and returns `R 0`); change input `1` -/
def schOps : List OpC :=
  [.mutate 1 55, .mutate 2 66, .mutate 4 77, .build 3 10 [] [], .mutate 1 56]

theorem schOps_sized : histSizedC schRules schOps (opProgram schRules {}) := by
  simp only [schOps, histSizedC, runOpC, and_true, true_and]
  decide

/-- the synchronous run: no asynchronous schedule; the parked tasks are completed by the wait step (`hook 1`), smallest
key first -/
def schT1 : List Tok := (runBuildA 3 0 [] [] (runOpsC schOps (opProgram schRules {}))).trace.reverse

/-- another thread completes task `2` (if parked) at each of the first 40 item boundaries: `2` completes BEFORE `1` -/
def schT2 : List Tok :=
  (runBuildA 3 0 [] (List.replicate 40 { keys := [2] }) (runOpsC schOps (opProgram schRules {}))).trace.reverse

/-- the key of a completion token -/
def Tok.cKey : Tok → Option Key
  | .C k _ _ => some k
  | _ => none

set_option maxRecDepth 8000 in
/-- **the two traces differ as lists** (the completions are reported in the orders `1, 2, 3, 4` and `2, 1, 3, 4`, and so
are the writes and the `PV` callbacks of task `3`), **both `Succeeded`, with the same value**; the history contains a
cancelled build (so the `_partial` theorems do not apply) but nothing was dropped -/
example : schT1 ≠ schT2 ∧ Succeeded schT1 10759294323374567953 ∧ Succeeded schT2 10759294323374567953 ∧
    histDropped schOps (opProgram schRules {}) false = false ∧
    ¬ NoFail (runBuildA 3 10 [] [] (runOpsC [.mutate 1 55, .mutate 2 66, .mutate 4 77] (opProgram schRules {}))).trace.reverse := by
  refine ⟨?_, by decide, by decide, by decide, by decide⟩
  intro h
  have h' : schT1.filterMap Tok.cKey = schT2.filterMap Tok.cKey := by rw [h]
  revert h'
  decide

set_option maxRecDepth 8000 in
/-- the theorem applies to them -/
example (v1 v2 : Val) (h1 : Succeeded schT1 v1) (h2 : Succeeded schT2 v2) : v1 = v2 :=
  EngineImpl_sound_C06_schedule_independent schRules_ok (by decide) (by decide) schOps 3 schOps_sized (by decide)
    (by decide) 0 0 [] [] [] (List.replicate 40 { keys := [2] }) v1 v2 h1 h2

/-- **F22 on the concrete engine: without `histDropped … = false` the companion theorem is FALSE.**  Build `3`; change
inputs `1` and `4`; build `3` again, cancelled at its 22nd event: task `3` has re-run (it read the NEW value 78 of its
discovered dependency `4`) and its row is written, but the build ends before `4` itself is brought up to date — `histDropped`
is `true`; set input `4` back to 77.  The next build finds everything up to date (rule `4`'s old result is valid again and
older than `3`'s) and RETURNS the value computed with `4 = 78`: its trace `Succeeded`, yet a brand-new engine (`opOracle`)
computes another value. -/
def schOpsF22 : List OpC :=
  [.mutate 1 55, .mutate 2 66, .mutate 4 77, .build 3 0 [] [], .mutate 1 56, .mutate 4 78, .build 3 22 [] [], .mutate 4 77]

set_option maxRecDepth 8000 in
example : histDropped schOpsF22 (opProgram schRules {}) false = true ∧
    Succeeded (runBuildA 3 0 [] [] (runOpsC schOpsF22 (opProgram schRules {}))).trace.reverse 10759291024839683320 ∧
    opOracle 3 (runOpsC schOpsF22 (opProgram schRules {})) = 10759294323374567953 := by
  refine ⟨by decide, by decide, by decide⟩

/-
#print axioms EngineImpl_sound_C06_ghost_flag                    -- [propext, Classical.choice, Quot.sound]
#print axioms EngineImpl_sound_C06_clean_value                   -- [propext, Classical.choice, Quot.sound]
#print axioms EngineImpl_sound_C06_schedule_independent          -- [propext, Classical.choice, Quot.sound]
#print axioms EngineImpl_sound_C06_clean_value_unique            -- [propext, Classical.choice, Quot.sound]
#print axioms EngineImpl_sound_C06_clean_value_partial           -- [propext, Classical.choice, Quot.sound]
#print axioms EngineImpl_sound_C06_schedule_independent_partial  -- [propext, Classical.choice, Quot.sound]
-/
end LLBuild.Refine
