/-
C07 — Dependency cycles are always detected and reported accurately, never falsely.

"If satisfying the requested key requires a dependency cycle [...] the build terminates with failure
and reports a list of keys that starts at the requested key, in which each consecutive pair is a
real wait-for relationship and whose last key repeats an earlier one.  If no cycle exists, the build
never reports one and never stalls."

Model: the abstract engine accepts `cycleDetected(ks)` only if `ks` is such a lasso in its own
wait-for relation (a running task waits for the keys of its unanswered requests; a rule being
scanned waits for its first recorded dependency that is not yet up to date), and accepts a failed
return only after a cancellation, an error or a reported cycle.  "Never stalls" is checked on the
real engine by the watchdog of the harness (a stall is a truncated trace), not proved.
-/
import LLBuild.Lemmas.Engine.Run
import LLBuild.Lemmas.Engine.Fingerprint
import LLBuild.Props.C01

set_option linter.unusedVariables false

namespace LLBuild.Engine

/-- the shape of every accepted non-empty cycle report -/
theorem C07_lasso {P : Program} {s s' : St} {ks : List Key} (h : step P s (.cycle ks) = some s') (hne : ks ≠ []) :
    ∃ root, s.target = some root ∧ ks.head? = some root ∧
      (∀ ab ∈ ks.zip ks.tail, waitsFor s ab.1 ab.2 = true) ∧
      (∃ l, ks.getLast? = some l ∧ l ∈ ks.dropLast) := by
  simp only [step] at h
  split at h
  · rename_i root htgt
    split at h
    · rename_i hl
      refine ⟨root, htgt, ?_⟩
      have hl : lassoOk s root ks = true := by
        rcases (Bool.or_eq_true_iff).1 hl with a | a
        · exact a
        · simp only [Bool.and_eq_true, List.isEmpty_iff] at a; exact absurd a.1 hne
      unfold lassoOk at hl
      cases ks with
      | nil => simp at hl
      | cons a rest =>
        simp only [Bool.and_eq_true, beq_iff_eq, List.all_eq_true] at hl
        obtain ⟨⟨ha, hw⟩, hlast⟩ := hl
        refine ⟨by simp [ha], hw, ?_⟩
        split at hlast
        · rename_i l hgl; exact ⟨l, hgl, by simpa using hlast⟩
        · cases hlast
    · cases h
  · cases h

/-- as coded (known finding F30): an empty report is accepted only when the requested key is already
complete, i.e. the rules waiting on each other are reachable only through discovered dependencies -/
theorem C07_empty_report_only_when_root_complete {P : Program} {s s' : St}
    (h : step P s (.cycle []) = some s') : ∃ root, s.target = some root ∧ s.status root = .done := by
  simp only [step] at h
  split at h
  · rename_i root htgt
    split at h
    · rename_i hl
      refine ⟨root, htgt, ?_⟩
      rcases (Bool.or_eq_true_iff).1 hl with a | a
      · simp [lassoOk] at a
      · simp only [Bool.and_eq_true] at a; simpa [isDone] using a.2
    · cases h
  · cases h

/-- a wait-for edge is real: the waiting rule is running with an unanswered request for the key (a
must-follow request only while the key is not complete), or is being scanned and parked on its
first recorded dependency that is not up to date -/
theorem C07_wait_for_is_real {s : St} {a b : Key} (h : waitsFor s a b = true) :
    (s.status a = .running ∧ ∃ q ∈ (s.task a).issued, q.key = b ∧ delivered (s.task a).seq q = false ∧
        ¬ (q.kind = 2 ∧ s.status b = .done)) ∨
    (s.status a = .scanning ∧ firstNotDone s (s.mem.res a).deps = some b) := by
  unfold waitsFor at h
  split at h
  · rename_i hs
    left
    refine ⟨hs, ?_⟩
    obtain ⟨q, hq, hc⟩ := List.any_eq_true.1 h
    simp only [Bool.and_eq_true, beq_iff_eq, Bool.not_eq_eq_eq_not, Bool.not_true, Bool.and_eq_false_iff] at hc
    refine ⟨q, hq, hc.1.1, hc.1.2, ?_⟩
    rintro ⟨hk, hd⟩
    rcases hc.2 with h1 | h1
    · simp [hk] at h1
    · simp [isDone, hd] at h1
  · rename_i hs
    right; exact ⟨hs, by simpa using h⟩
  · cases h

/-- the key a scanning rule is parked on really is one of its recorded dependencies and is not up
to date in this build -/
theorem C07_parked_dep {s : St} : ∀ (ds : List Dep) (b : Key), firstNotDone s ds = some b →
    (∃ d ∈ ds, d.key = b) ∧ s.status b ≠ .done
  | [], b, h => by simp [firstNotDone] at h
  | d :: ds, b, h => by
    simp only [firstNotDone] at h
    split at h
    · obtain ⟨⟨d', hd', e⟩, hn⟩ := C07_parked_dep ds b h
      exact ⟨⟨d', List.mem_cons_of_mem _ hd', e⟩, hn⟩
    · rename_i hnd
      cases h
      exact ⟨⟨d, List.mem_cons_self, rfl⟩, by simpa [isDone] using hnd⟩

/-- no false failure: a build returns failure only after a cancellation, a reported error, or a
reported cycle -/
theorem C07_failure_has_cause {P : Program} {s s' : St} {v : Val}
    (h : step P s (.ret v) = some s') (hmem : s'.pendingDropped ≠ s.pendingDropped ∨ s'.mem.res ≠ s.mem.res ∨ s'.pending ≠ s.pending) :
    s.cancelled = true ∨ s.cycleSeen = true ∨ s.errSeen = true := by
  simp only [step] at h
  split at h
  · cases h
  · split at h
    · cases h
    · split at h
      · cases h
        rcases hmem with h1 | h1 | h1 <;> exact absurd rfl h1
      · split at h
        · rename_i hc
          simp only [Bool.and_eq_true, Bool.or_eq_true] at hc
          rcases hc.1 with (a | a) | a
          · left; exact a
          · right; left; exact a
          · right; right; exact a
        · cases h

/-- A set of keys is *cyclic* when every task of a key in the set, however its inputs arrive, ends
up asking for the value of some key in the set again: every delivery sequence it can complete
contains a value-carrying request for a key of the set. -/
def CyclicSet (P : Program) (C : Key → Prop) : Prop :=
  ∀ k, C k → ∀ seq, validSeq P k seq = true → completeSeq P k seq = true →
    ∃ q v, (q, v) ∈ seq ∧ q.kind = 0 ∧ C q.key

/-- no key of a cyclic set has a clean-build value -/
theorem Clean_not_cyclic {P : Program} {C : Key → Prop} (hC : CyclicSet P C) {env : Env} {k : Key} {v : Val}
    (h : Clean P env k v) : ¬ C k := by
  induction h with
  | mk k seq hv hc _ ih =>
    intro hk
    obtain ⟨q, w, hq, hk0, hCq⟩ := hC k hk seq hv hc
    exact ih q w hq hk0 hCq

/-- **A real cycle is never silently ignored.**  If the requested key lies in a cyclic set, no
accepted history — whatever was built before, whatever the schedule — ends that build with a
successful return: any `ret` the engine performs happens after a cancellation, a reported error or a
reported cycle (so when the client did not cancel and no error was reported, a cycle was reported).
Cycles that pass only through single-use or must-follow requests carry no value and are outside
this statement (they are decided by the oracle on the real engine). -/
theorem C07_cycle_never_succeeds {P : Program} (hP : P.WF) {C : Key → Prop} (hC : CyclicSet P C)
    {evs : List Event} {s s' : St} {v : Val} {r : Key}
    (hrun : run P {} evs = some s) (ht : s.target = some r) (hr : C r)
    (hret : step P s (.ret v) = some s') (hnd : s'.pendingDropped = false) :
    s.cancelled = true ∨ s.cycleSeen = true ∨ s.errSeen = true := by
  cases h1 : s.cancelled
  · cases h2 : s.cycleSeen
    · cases h3 : s.errSeen
      · exfalso
        obtain ⟨root, hroot, hclean⟩ := C01_value hP hrun hret hnd ⟨h1, h2, h3⟩
        rw [ht] at hroot; cases hroot
        exact Clean_not_cyclic hC hclean hr
      · right; right; rfl
    · right; left; rfl
  · left; rfl

namespace CycleExample
/-- keys 1 and 2 ask for each other's value -/
def P : Program where
  sig := fun _ _ => 0
  valid := fun _ _ _ => true
  next := fun k _ => if k = 1 then [⟨2, 0, 0⟩] else if k = 2 then [⟨1, 0, 0⟩] else []
  disc := fun _ _ => []
  out := fun _ _ recv => (recv.map (·.2)).sum
  force := fun _ => false
  self := fun _ => false

theorem issued_first (k : Key) (q : Req) (h : q ∈ issuedAfter P k []) : ∀ seq, q ∈ issuedAfter P k seq
  | [] => h
  | (a, w) :: rest => by
    simp only [issuedAfter]
    exact List.mem_append_left _ (issued_first k q h rest)

/-- non-vacuity: `{1, 2}` is a cyclic set of this program -/
theorem cyclic : CyclicSet P (fun k => k = 1 ∨ k = 2) := by
  intro k hk seq hv hc
  -- the first request of either task is for the other key and must have been answered
  have key : ∀ q, q ∈ issuedAfter P k [] → q.kind = 0 → (q.key = 1 ∨ q.key = 2) →
      ∃ q v, (q, v) ∈ seq ∧ q.kind = 0 ∧ (q.key = 1 ∨ q.key = 2) := by
    intro q hq hk0 hkey
    have hall := hc
    simp only [completeSeq, List.all_eq_true, Bool.or_eq_true, beq_iff_eq] at hall
    rcases hall q (issued_first k q hq seq) with h2 | hd
    · rw [hk0] at h2; cases h2
    · simp only [delivered, List.any_eq_true, beq_iff_eq] at hd
      obtain ⟨qv, hqv, e⟩ := hd
      exact ⟨qv.1, qv.2, hqv, by rw [e]; exact hk0, by rw [e]; exact hkey⟩
  rcases hk with rfl | rfl
  · exact key ⟨2, 0, 0⟩ (by decide) rfl (Or.inr rfl)
  · exact key ⟨1, 0, 0⟩ (by decide) rfl (Or.inl rfl)

end CycleExample

end LLBuild.Engine
