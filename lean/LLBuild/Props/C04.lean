/-
C04 — Killing the process at any instant leaves a usable, consistent database: the DATABASE LAYER.

"If the process dies at any point during a build, the database file can be opened by the next process and holds
a mutually consistent snapshot: the stored epoch is not smaller than any stored result's epochs, every stored
dependency refers to a stored key, and every stored result is one some task actually produced, stored together
with the dependency list of that same execution."

Model: LLBuild/Model/BuildDB.lean — `committed` is what survives a kill, `pending` and every connection's memory
(state, id caches) do not; `Op.crash` may occur anywhere in an op sequence.  ASSUMPTION (not proved here; supported
by the kill-point enumeration of vlib/props/c04.py): SQLite makes a transaction's writes reach `committed` all at
once at END or not at all.  The engine-level clause (builds continued from that database return clean results)
is decided on the engine model.
-/
import LLBuild.Props.C03

namespace LLBuild.BuildDB
open LLBuild.Generated

/-- The three clauses of the property on a snapshot: `SnapInv` = every stored row is exactly what ONE
`setRuleResult` wrote (value, signature, epochs, and the blob encoding of that same call's dependency list), its
key id and every dependency id name a stored key; `EpochOK` = stored epoch ≥ every stored result's epochs. -/
def CommittedInv (s : Snapshot) : Prop := SnapInv s ∧ EpochOK s

theorem deps_ids_mem {kn : KN} (hsmall : maxId kn < 2 ^ 62) {deps : List Dep} {raws : List Nat} (h : DepsEncoded kn deps raws) :
    ∀ raw ∈ raws, ∃ v, ((decodeDep SQLiteDB.depDecLookup raw).1, v) ∈ kn := by
  induction h with
  | nil => simp
  | cons hd _ ih =>
    obtain ⟨did, rfl, hm⟩ := hd
    intro raw hraw
    rcases List.mem_cons.1 hraw with rfl | hraw
    · have hlt : did < 2 ^ 62 := by have := le_maxId hm; simp only at this; omega
      rw [C03_dep_codec did _ _ hlt]
      exact ⟨_, hm⟩
    · exact ih raw hraw

/-- "every stored dependency refers to a stored key", spelled out on the raw blob. -/
theorem C04_deps_closed (s : Snapshot) (h : SnapInv s) (hsmall : maxId s.keyNames < 2 ^ 62) (id : Nat) (row : Row)
    (hr : (id, row) ∈ s.rows) :
    (∃ v, (id, v) ∈ s.keyNames) ∧
    ∃ raws, decodeBlob row.deps = some raws ∧ ∀ raw ∈ raws, ∃ v, ((decodeDep SQLiteDB.depDecLookup raw).1, v) ∈ s.keyNames := by
  obtain ⟨k, r, raws, hk, henc, rfl⟩ := h.rows id row hr
  exact ⟨⟨_, hk⟩, raws, decodeBlob_encodeBlob raws (DepsEncoded_raw_lt henc), deps_ids_mem hsmall henc⟩

/-- one `setRuleResult` keeps a view consistent (and the caches in step with it) -/
theorem C04_set_preserves (cn : Conn) (s : Snapshot) (k : Bytes) (r : Result) (hs : SnapInv s) (c : CacheOK cn s.keyNames) :
    SnapInv (applySet cn s k r).2 ∧ CacheOK (applySet cn s k r).1 (applySet cn s k r).2.keyNames :=
  let h := applySet_spec C03_stored_key_faithful cn s k r hs c
  ⟨h.1, h.2.1⟩

/-- `crash` (process death) loses every connection, pending transaction and cache, and nothing else. -/
theorem C04_crash_keeps_committed (w : World) :
    (step w .crash).1.committed = w.committed ∧ (step w .crash).1.lock = none ∧ ∀ c, (step w .crash).1.conns c = none := by
  simp [step]

/-! ### the invariant over op sequences (one connection slot at a time: processes in sequence) -/

structure ConnInv (w : World) (cn : Conn) : Prop where
  closed : cn.state = .closed → cn.dbKeyIDs = [] ∧ cn.engineKeyIDs = []
  opened : cn.state = .opened → CacheOK cn w.committed.keyNames
  inTxn : cn.state = .inTxn → SnapInv cn.pending ∧ CacheOK cn cn.pending.keyNames ∧
      (∀ id row, (id, row) ∈ cn.pending.rows → row.builtAt ≤ w.committed.iteration + 1 ∧ row.computedAt ≤ w.committed.iteration + 1)

structure Inv1 (c : Nat) (w : World) : Prop where
  snap : SnapInv w.committed
  epoch : EpochOK w.committed
  conn : ∀ cn, w.conns c = some cn → ConnInv w cn
  lock : w.lock = none ∨ w.lock = some c

/-- the ops of one BuildDB object after another in slot `c` (write path; `crash` and `reset` anywhere) -/
def OpOn (c : Nat) : Op → Prop
  | .reset | .crash => True
  | .new c' _ _ | .drop c' | .epoch c' | .setiter c' _ | .start c' | .complete c' | .set c' _ _ => c' = c
  | .lookup _ _ | .keys _ => False

/-- What the engine guarantees about one build (BuildDB.h "mutation operations are only called between
buildStarted and buildComplete"; BuildEngine.cpp:1561 `++currentEpoch` after loading the stored iteration, :1605
`setCurrentIteration(currentEpoch)` before `buildComplete`): writes happen in the transaction, every epoch written
is at most e = stored iteration + 1, and e is stored before the transaction ends. -/
def StepWF (w : World) : Op → Prop
  | .set c _ r => ∃ cn, w.conns c = some cn ∧ cn.state = .inTxn ∧ r.builtAt ≤ w.committed.iteration + 1 ∧ r.computedAt ≤ w.committed.iteration + 1
  | .setiter c n => ∃ cn, w.conns c = some cn ∧ cn.state = .inTxn ∧ n = w.committed.iteration + 1
  | .complete c => ∀ cn, w.conns c = some cn → cn.state = .inTxn → cn.pending.iteration = w.committed.iteration + 1
  | _ => True

def WellFormedBuild (w : World) : List Op → Prop
  | [] => True
  | op :: rest => StepWF w op ∧ WellFormedBuild (step w op).1 rest

theorem CacheOK_congr {cn cn' : Conn} {kn : KN} (h1 : cn'.dbKeyIDs = cn.dbKeyIDs) (h2 : cn'.engineKeyIDs = cn.engineKeyIDs)
    (c : CacheOK cn kn) : CacheOK cn' kn :=
  ⟨fun k id h => c.dbc k id (h1 ▸ h), fun id k h => c.ekc id k (h2 ▸ h)⟩

theorem Inv1_setConn {c : Nat} {w : World} {cn : Conn} (hs : SnapInv w.committed) (he : EpochOK w.committed)
    (hl : w.lock = none ∨ w.lock = some c) (hc : ConnInv w cn) : Inv1 c (setConn w c cn) := by
  refine ⟨hs, he, ?_, hl⟩
  intro cn' h
  simp [setConn] at h
  subst h
  exact ⟨hc.closed, hc.opened, hc.inTxn⟩

theorem not_blocked {c : Nat} {w : World} (hl : w.lock = none ∨ w.lock = some c) : blocked w c = false := by
  unfold blocked
  rcases hl with h | h <;> simp [h]

theorem Conn.cache_state (cn : Conn) (id : Nat) (k : Bytes) : (cn.cache id k).state = cn.state ∧ (cn.cache id k).pending = cn.pending := ⟨rfl, rfl⟩

theorem getKeyID_state (cn : Conn) (kn : KN) (k : Bytes) : (getKeyID cn kn k).1.state = cn.state := by
  unfold getKeyID
  split
  · rfl
  · simp only
    split <;> rfl

theorem encodeDeps_state : ∀ (deps : List Dep) (cn : Conn) (kn : KN), (encodeDeps cn kn deps).1.state = cn.state := by
  intro deps
  induction deps with
  | nil => intro cn kn; rfl
  | cons d ds ih =>
    intro cn kn
    simp only [encodeDeps]
    rw [ih, getKeyID_state]

theorem applySet_state (cn : Conn) (s : Snapshot) (k : Bytes) (r : Result) : (applySet cn s k r).1.state = cn.state := by
  simp only [applySet]
  rw [encodeDeps_state, getKeyID_state]

theorem ensureOpen_inv {c : Nat} {w : World} {cn : Conn} (h : Inv1 c w) (hc : w.conns c = some cn) :
    (∃ e, ensureOpen w c cn = .error e) ∨
    ∃ w1 cn1, ensureOpen w c cn = .ok (w1, cn1) ∧ SnapInv w1.committed ∧ EpochOK w1.committed ∧ w1.lock = w.lock ∧
      ConnInv w1 cn1 ∧ cn1.state ≠ .closed ∧ (cn.state = .inTxn → w1 = w ∧ cn1 = cn) ∧ (cn.state ≠ .inTxn → cn1.state = .opened) := by
  have hb := not_blocked h.lock
  have ci := h.conn cn hc
  unfold ensureOpen
  simp only [hb]
  cases hst : cn.state with
  | closed =>
    simp only
    by_cases hg : gateOK w.committed cn.client = true
    · right
      simp only [hg, ↓reduceIte]
      refine ⟨w, _, rfl, h.snap, h.epoch, rfl, ?_, by simp, by simp, by simp⟩
      have hcl := ci.closed hst
      exact ⟨by simp, fun _ => CacheOK_empty _ _ hcl.1 hcl.2, by simp⟩
    · simp only [hg]
      by_cases hr : cn.recreate = true
      · right
        simp only [hr]
        refine ⟨_, _, rfl, SnapInv_fresh _, ?_, rfl, ?_, by simp, by simp, by simp⟩
        · intro id row hm; cases hm
        · have hcl := ci.closed hst
          exact ⟨by simp, fun _ => CacheOK_empty _ _ hcl.1 hcl.2, by simp⟩
      · left
        simp at hr
        simp [hr]
  | opened =>
    right
    exact ⟨w, cn, rfl, h.snap, h.epoch, rfl, ci, by simp [hst], by simp [hst], by simp [hst]⟩
  | inTxn =>
    right
    exact ⟨w, cn, rfl, h.snap, h.epoch, rfl, ci, by simp [hst], by simp, by simp [hst]⟩

theorem Inv1_init (c : Nat) : Inv1 c World.init :=
  ⟨SnapInv_none, (by intro id row h; cases h), (by intro cn h; simp [World.init] at h), Or.inl rfl⟩

theorem closed_ConnInv (w : World) (cn : Conn) : ConnInv w cn.closed := by
  have hc : SQLiteDB.closeClearsCaches = true := rfl
  unfold Conn.closed
  simp only [hc, ↓reduceIte]
  exact ⟨fun _ => ⟨rfl, rfl⟩, by simp, by simp⟩

theorem Inv1_step {c : Nat} {w : World} (h : Inv1 c w) (op : Op) (hop : OpOn c op) (hwf : StepWF w op) : Inv1 c (step w op).1 := by
  cases op with
  | reset => exact Inv1_init c
  | crash =>
    exact ⟨h.snap, h.epoch, (by intro cn hc; simp [step] at hc), Or.inl rfl⟩
  | lookup c' k => exact absurd hop (by simp [OpOn])
  | keys c' => exact absurd hop (by simp [OpOn])
  | new c' cl rc =>
    have : c' = c := hop
    subst this
    simp only [step]
    have hcm : (dropConn w c').committed = w.committed := by unfold dropConn delConn; split <;> rfl
    apply Inv1_setConn
    · rw [hcm]; exact h.snap
    · rw [hcm]; exact h.epoch
    · unfold dropConn delConn
      split
      · left; rfl
      · exact h.lock
    · exact ⟨fun _ => ⟨rfl, rfl⟩, by simp [Conn.fresh], by simp [Conn.fresh]⟩
  | drop c' =>
    have : c' = c := hop
    subst this
    simp only [step]
    cases hc : w.conns c' with
    | none => simpa [hc] using h
    | some cn =>
      simp only
      have hcm : (dropConn w c').committed = w.committed := by unfold dropConn delConn; split <;> rfl
      refine ⟨hcm ▸ h.snap, hcm ▸ h.epoch, ?_, ?_⟩
      · intro cn' hc'
        unfold dropConn delConn at hc'
        split at hc' <;> simp at hc'
      · unfold dropConn delConn
        split
        · left; rfl
        · exact h.lock
  | epoch c' =>
    have : c' = c := hop
    subst this
    simp only [step, withOpen]
    cases hc : w.conns c' with
    | none => simpa using h
    | some cn =>
      rcases ensureOpen_inv h hc with ⟨e, he⟩ | ⟨w1, cn1, he, hs1, he1, hl1, ci1, _, _, _⟩
      · simpa [he] using h
      · simp only [he]
        exact Inv1_setConn hs1 he1 (hl1 ▸ h.lock) ci1
  | setiter c' n =>
    have : c' = c := hop
    subst this
    obtain ⟨cn, hc, hst, hn⟩ := hwf
    rcases ensureOpen_inv h hc with ⟨e, he⟩ | ⟨w1, cn1, he, hs1, he1, hl1, ci1, _, hin, _⟩
    · simpa [step, withOpen, hc, he] using h
    · obtain ⟨rfl, rfl⟩ := hin hst
      simp only [step, withOpen, hc, he, putView, view, hst, ↓reduceIte]
      apply Inv1_setConn h.snap h.epoch h.lock
      have ⟨p1, p2, p3⟩ := ci1.inTxn hst
      refine ⟨by simp [hst], by simp [hst], fun _ => ⟨⟨p1.kn, p1.rows⟩, ⟨fun k id hh => p2.dbc k id hh, fun id k hh => p2.ekc id k hh⟩, p3⟩⟩
  | start c' =>
    have : c' = c := hop
    subst this
    simp only [step, withOpen]
    cases hc : w.conns c' with
    | none => simpa using h
    | some cn =>
      rcases ensureOpen_inv h hc with ⟨e, he⟩ | ⟨w1, cn1, he, hs1, he1, hl1, ci1, hncl, _, _⟩
      · simpa [he] using h
      · simp only [he]
        by_cases hst : cn1.state = .inTxn
        · simp only [hst, ↓reduceIte]
          exact Inv1_setConn hs1 he1 (hl1 ▸ h.lock) ci1
        · simp only [hst, ↓reduceIte]
          have hop1 : cn1.state = .opened := by
            cases hs : cn1.state with
            | closed => exact absurd hs hncl
            | opened => rfl
            | inTxn => exact absurd hs hst
          apply Inv1_setConn (w := { w1 with lock := some c' }) hs1 he1 (Or.inr rfl)
          refine ⟨by simp, by simp, fun _ => ⟨hs1, ⟨fun k id hh => (ci1.opened hop1).dbc k id hh, fun id k hh => (ci1.opened hop1).ekc id k hh⟩, ?_⟩⟩
          intro id row hm
          have := he1 id row hm
          simp only at this ⊢
          omega
  | complete c' =>
    have : c' = c := hop
    subst this
    simp only [step]
    cases hc : w.conns c' with
    | none => simpa using h
    | some cn =>
      simp only
      have ci := h.conn cn hc
      by_cases hst : cn.state = .inTxn
      · simp only [hst, ↓reduceIte]
        have ⟨p1, _, p3⟩ := ci.inTxn hst
        have hit := hwf cn hc hst
        apply Inv1_setConn (w := { w with committed := cn.pending, lock := none }) p1 ?_ (Or.inl rfl) (closed_ConnInv _ _)
        intro id row hm
        have := p3 id row hm
        simp only at this ⊢
        omega
      · simp only [hst, ↓reduceIte]
        exact Inv1_setConn h.snap h.epoch h.lock (closed_ConnInv _ _)
  | set c' k r =>
    have : c' = c := hop
    subst this
    obtain ⟨cn, hc, hst, hb, hcm⟩ := hwf
    rcases ensureOpen_inv h hc with ⟨e, he⟩ | ⟨w1, cn1, he, hs1, he1, hl1, ci1, _, hin, _⟩
    · simpa [step, withOpen, hc, he] using h
    · obtain ⟨rfl, rfl⟩ := hin hst
      have ⟨p1, p2, p3⟩ := ci1.inTxn hst
      have sp := applySet_spec C03_stored_key_faithful cn1 cn1.pending k r p1 p2
      have hst' : (applySet cn1 cn1.pending k r).1.state = .inTxn := by rw [applySet_state]; exact hst
      simp only [step, withOpen, hc, he, putView, view, hst, ↓reduceIte, hst']
      apply Inv1_setConn h.snap h.epoch h.lock
      refine ⟨by simp [hst'], by simp [hst'], fun _ => ⟨sp.1, ⟨fun k id hh => sp.2.1.dbc k id hh, fun id k hh => sp.2.1.ekc id k hh⟩, ?_⟩⟩
      intro id row hm
      rcases sp.2.2.2 id row hm with hold | ⟨e1, e2⟩
      · exact p3 id row hold
      · rw [e1, e2]; exact ⟨hb, hcm⟩

theorem Inv1_run (c : Nat) : ∀ (ops : List Op) (w : World), Inv1 c w → (∀ op ∈ ops, OpOn c op) → WellFormedBuild w ops →
    Inv1 c (run w ops) := by
  intro ops
  induction ops with
  | nil => intro w h _ _; exact h
  | cons op rest ih =>
    intro w h hon hwf
    exact ih _ (Inv1_step h op (hon op List.mem_cons_self) hwf.1) (fun o ho => hon o (List.mem_cons_of_mem _ ho)) hwf.2

/-- "holds a mutually consistent snapshot": whatever sequence of processes (open with any versions / recreate
flag, builds, object destruction) and CRASHES AT ANY POINT has run against the file, the committed snapshot — the
one the next process finds — satisfies all three clauses.  Hypothesis `WellFormedBuild`: the engine's protocol. -/
theorem C04_committed_inv (c : Nat) (ops : List Op) (hon : ∀ op ∈ ops, OpOn c op) (hwf : WellFormedBuild World.init ops) :
    CommittedInv (run World.init ops).committed := by
  have := Inv1_run c ops World.init (Inv1_init c) hon hwf
  exact ⟨this.snap, this.epoch⟩

/-- "the damage shows only two builds later when an epoch is reused": after any such history, crashes included,
the epoch the next build will use (stored iteration + 1) is strictly greater than every epoch in the surviving
store. -/
theorem C04_no_epoch_reuse (c : Nat) (ops : List Op) (hon : ∀ op ∈ ops, OpOn c op) (hwf : WellFormedBuild World.init ops)
    (id : Nat) (row : Row) (hr : (id, row) ∈ (run World.init (ops ++ [.crash])).committed.rows) :
    row.builtAt < (run World.init (ops ++ [.crash])).committed.iteration + 1 ∧
    row.computedAt < (run World.init (ops ++ [.crash])).committed.iteration + 1 := by
  have hrun : ∀ (l : List Op) (w : World), (run w (l ++ [.crash])).committed = (run w l).committed := by
    intro l
    induction l with
    | nil => intro w; simp [run, step]
    | cons o t ih => intro w; simp only [List.cons_append, run]; exact ih _
  rw [hrun] at hr ⊢
  have := (C04_committed_inv c ops hon hwf).2 id row hr
  omega

/-! Non-vacuity: a two-build history with a crash in the middle of the second build is well-formed, and the
surviving snapshot is the first build's. -/
def exampleOps : List Op :=
  [.new 0 1 true, .start 0, .set 0 [97] ⟨[1], 5, 1, 1, [⟨[98], true, false⟩]⟩, .setiter 0 1, .complete 0,
   .start 0, .set 0 [98] ⟨[2], 6, 2, 2, []⟩, .crash, .new 0 1 true, .epoch 0]

example : ∀ op ∈ exampleOps, OpOn 0 op := by
  intro op h
  simp [exampleOps] at h
  rcases h with rfl | rfl | rfl | rfl | rfl | rfl | rfl | rfl | rfl | rfl <;> simp [OpOn]

example : (run World.init exampleOps).committed.iteration = 1 ∧ (run World.init exampleOps).committed.rows.length = 1 ∧
    (run World.init exampleOps).committed.keyNames = [(1, .text [97]), (2, .text [98])] := by decide

/-! ## Follow-up: reads included, any number of connection slots interleaved

The sequence theorems above are per slot and exclude `lookup` / `keys`.  Below: NO restriction on the ops (any slot,
reads anywhere, crashes and resets anywhere); only the engine protocol `WellFormedBuild`.  The structural half
(`SnapInv`, caches) is `InvG` (Lemmas/BuildDBInv, needs no protocol hypothesis at all); the epoch half is `EpochInv`.
Other slots cannot interfere because of the single-writer invariant (`LockInv`, C03_single_writer). -/

/-- stored epoch ≥ every committed row's epochs; the rows of the connection inside the transaction are at most one
epoch ahead of the committed iteration -/
structure EpochInv (w : World) : Prop where
  committed : EpochOK w.committed
  pending : ∀ c cn, w.conns c = some cn → cn.state = .inTxn → ∀ id row, (id, row) ∈ cn.pending.rows →
      row.builtAt ≤ w.committed.iteration + 1 ∧ row.computedAt ≤ w.committed.iteration + 1

theorem EpochInv_init : EpochInv World.init :=
  ⟨(by intro id row h; cases h), (by intro c cn h; simp [World.init] at h)⟩

theorem EpochInv_setConn {w : World} {c : Nat} {cn : Conn} (h : EpochInv w)
    (hc : cn.state = .inTxn → ∀ id row, (id, row) ∈ cn.pending.rows →
      row.builtAt ≤ w.committed.iteration + 1 ∧ row.computedAt ≤ w.committed.iteration + 1) : EpochInv (setConn w c cn) := by
  refine ⟨h.committed, ?_⟩
  intro c' cn' hc' hst
  simp only [setConn] at hc' ⊢
  by_cases hcc : c' = c
  · simp only [hcc, ↓reduceIte] at hc'
    injection hc' with hc'
    subst hc'
    exact hc hst
  · simp only [hcc, ↓reduceIte] at hc'
    exact h.pending c' cn' hc' hst

theorem EpochInv_dropConn {w : World} (h : EpochInv w) (c : Nat) : EpochInv (dropConn w c) := by
  have hcm : (dropConn w c).committed = w.committed := by unfold dropConn delConn; split <;> rfl
  refine ⟨hcm ▸ h.committed, ?_⟩
  intro c' cn' hc'
  rw [hcm]
  have : w.conns c' = some cn' := by
    unfold dropConn delConn at hc'
    split at hc' <;> (simp only at hc'; split at hc' <;> first | cases hc' | exact hc')
  exact h.pending c' cn' this

/-- after a successful `ensureOpen` -/
theorem EpochInv_ensureOpen {w : World} {c : Nat} {cn : Conn} {w1 : World} {cn1 : Conn} (h : EpochInv w)
    (hc : w.conns c = some cn) (he : ensureOpen w c cn = .ok (w1, cn1)) :
    EpochInv w1 ∧ (cn1.state = .inTxn → ∀ id row, (id, row) ∈ cn1.pending.rows →
      row.builtAt ≤ w1.committed.iteration + 1 ∧ row.computedAt ≤ w1.committed.iteration + 1) := by
  obtain ⟨_, hcases⟩ := ensureOpen_ok_cases he
  have hp := h.pending c cn hc
  rcases hcases with ⟨_, rfl, rfl⟩ | ⟨hst, _, rfl, rfl⟩ | ⟨hst, _, _, rfl, rfl⟩
  · exact ⟨h, hp⟩
  · exact ⟨h, by simp⟩
  · refine ⟨⟨(by intro id row hm; cases hm), ?_⟩, by simp⟩
    intro c' cn' hc' hst'
    simp only [forgetOpen] at hc'
    cases hw : w.conns c' with
    | none => simp [hw] at hc'
    | some cn0 =>
      simp only [hw] at hc'
      split at hc'
      · rename_i hst0
        injection hc' with hc'
        subst hc'
        rw [hst0] at hst'; cases hst'
      · cases hc'

/-- a step that only changes the caches of connection `c` -/
theorem EpochInv_readStep {w : World} {c : Nat} {cn : Conn} {w1 : World} {cn1 cn2 : Conn} (h : EpochInv w)
    (hc : w.conns c = some cn) (he : ensureOpen w c cn = .ok (w1, cn1)) (hctl : SameCtl cn1 cn2) :
    EpochInv (setConn w1 c cn2) := by
  obtain ⟨h1, p1⟩ := EpochInv_ensureOpen h hc he
  apply EpochInv_setConn h1
  intro hst
  rw [hctl.2.2.2]
  exact p1 (hctl.2.2.1 ▸ hst)

theorem EpochInv_step {w : World} (hl : LockInv w) (h : EpochInv w) (op : Op) (hwf : StepWF w op) : EpochInv (step w op).1 := by
  cases op with
  | reset => exact EpochInv_init
  | crash => exact ⟨h.committed, by intro c cn hc; simp [step] at hc⟩
  | new c cl rc =>
    simp only [step]
    exact EpochInv_setConn (EpochInv_dropConn h c) (by simp [Conn.fresh])
  | drop c =>
    simp only [step]
    cases hc : w.conns c with
    | none => exact h
    | some cn => exact EpochInv_dropConn h c
  | epoch c =>
    simp only [step, withOpen]
    cases hc : w.conns c with
    | none => exact h
    | some cn =>
      simp only
      cases he : ensureOpen w c cn with
      | error e => exact h
      | ok p =>
        obtain ⟨w1, cn1⟩ := p
        exact EpochInv_readStep h hc he (SameCtl.rfl' cn1)
  | lookup c k =>
    simp only [step, withOpen]
    cases hc : w.conns c with
    | none => exact h
    | some cn =>
      simp only
      cases he : ensureOpen w c cn with
      | error e => exact h
      | ok p =>
        obtain ⟨w1, cn1⟩ := p
        exact EpochInv_readStep h hc he (applyLookup_ctl _ _ _)
  | keys c =>
    simp only [step, withOpen]
    cases hc : w.conns c with
    | none => exact h
    | some cn =>
      simp only
      cases he : ensureOpen w c cn with
      | error e => exact h
      | ok p =>
        obtain ⟨w1, cn1⟩ := p
        have hctl := applyKeys_ctl (view w1 cn1).keyNames (sortRows (view w1 cn1).rows) cn1
        simp only
        split
        · rename_i cn2 l hk; rw [hk] at hctl; exact EpochInv_readStep h hc he hctl
        · rename_i cn2 e hk; rw [hk] at hctl; exact EpochInv_readStep h hc he hctl
  | start c =>
    simp only [step, withOpen]
    cases hc : w.conns c with
    | none => exact h
    | some cn =>
      simp only
      cases he : ensureOpen w c cn with
      | error e => exact h
      | ok p =>
        obtain ⟨w1, cn1⟩ := p
        obtain ⟨h1, p1⟩ := EpochInv_ensureOpen h hc he
        simp only
        split
        · exact EpochInv_setConn h1 p1
        · apply EpochInv_setConn (w := { w1 with lock := some c }) ⟨h1.committed, h1.pending⟩
          intro _ id row hm
          have := h1.committed id row hm
          simp only at this ⊢
          omega
  | setiter c m =>
    obtain ⟨cn, hc, hst, hm⟩ := hwf
    have he := ensureOpen_inTxn hl hc hst
    simp only [step, withOpen, hc, he, putView, view, hst, ↓reduceIte]
    exact EpochInv_setConn h (fun _ => h.pending c cn hc hst)
  | set c k r =>
    obtain ⟨cn, hc, hst, hb, hcm⟩ := hwf
    have he := ensureOpen_inTxn hl hc hst
    have hst' : (applySet cn cn.pending k r).1.state = .inTxn := (applySet_ctl cn cn.pending k r).2.2.1.trans hst
    simp only [step, withOpen, hc, he, putView, view, hst, ↓reduceIte, hst']
    apply EpochInv_setConn h
    intro _ id row hm
    simp only at hm
    obtain ⟨_, id0, blob, hrows⟩ := applySet_rows cn cn.pending k r
    rw [hrows] at hm
    rcases mem_putRow hm with ⟨hold, _⟩ | ⟨_, rfl⟩
    · exact h.pending c cn hc hst id row hold
    · exact ⟨hb, hcm⟩
  | complete c =>
    simp only [step]
    cases hc : w.conns c with
    | none => exact h
    | some cn =>
      simp only
      split
      · rename_i hst
        have hit := hwf cn hc hst
        have hlc := hl.holder c cn hc hst
        refine ⟨?_, ?_⟩
        · intro id row hm
          have := h.pending c cn hc hst id row hm
          simp only [setConn] at hm ⊢
          omega
        · intro c' cn' hc' hst'
          simp only [setConn] at hc'
          by_cases hcc : c' = c
          · simp only [hcc, ↓reduceIte] at hc'
            injection hc' with hc'
            subst hc'
            rw [Conn.closed_state] at hst'; cases hst'
          · simp only [hcc, ↓reduceIte] at hc'
            have := hl.holder c' cn' hc' hst'
            rw [hlc] at this; injection this with this
            exact absurd this.symm hcc
      · exact EpochInv_setConn h (fun hs => by rw [Conn.closed_state] at hs; cases hs)

/-- everything that holds of a world reached by a well-formed history over any number of slots -/
theorem AllInv_run : ∀ (ops : List Op) (n : Nat) (w : World), InvG n w → EpochInv w → WellFormedBuild w ops →
    InvG (n + opsWeight ops) (run w ops) ∧ EpochInv (run w ops) := by
  intro ops
  induction ops with
  | nil => intro n w h he _; exact ⟨h, he⟩
  | cons op rest ih =>
    intro n w h he hwf
    have := ih _ _ (InvG_step C03_stored_key_faithful closeClears h op) (EpochInv_step h.lock he op hwf.1) hwf.2
    simp only [opsWeight, run]
    rw [← Nat.add_assoc]
    exact this

/-- "holds a mutually consistent snapshot", ALL op sequences: any number of connection slots interleaved (several
BuildDB objects / processes alive at once), `lookup` and `keys` anywhere, crashes and resets anywhere.  The only
hypothesis is the engine's protocol `WellFormedBuild` (needed for the epoch clause only). -/
theorem C04_committed_inv_all (ops : List Op) (hwf : WellFormedBuild World.init ops) :
    CommittedInv (run World.init ops).committed := by
  obtain ⟨h, he⟩ := AllInv_run ops 0 World.init InvG_init EpochInv_init hwf
  exact ⟨h.data.snap.inv, he.committed⟩

/-- the structural clauses (b)+(c) need no protocol hypothesis at all: whatever ANY clients do through the BuildDB
interface, every committed row is what one `setRuleResult` wrote, with its own dependency list, all ids naming stored
keys, and `rule_results.key_id` stays unique. -/
theorem C04_snap_inv_unconditional (ops : List Op) :
    SnapInv (run World.init ops).committed ∧ RowsNodup (run World.init ops).committed :=
  let h := C03_reachable_inv ops
  ⟨h.data.snap.inv, h.data.snap.nodup⟩

/-- MULTI-SLOT: with several connection slots interleaved, the per-slot invariant `ConnInv` of EVERY slot holds after
every well-formed history (closed ⇒ caches empty; open ⇒ caches agree with the committed key_names; in transaction ⇒
pending snapshot consistent, caches agree with it, its rows at most one epoch ahead), on the read path too. -/
theorem C04_slots_inv (ops : List Op) (hwf : WellFormedBuild World.init ops) (c : Nat) (cn : Conn)
    (hc : (run World.init ops).conns c = some cn) : ConnInv (run World.init ops) cn := by
  obtain ⟨h, he⟩ := AllInv_run ops 0 World.init InvG_init EpochInv_init hwf
  have ci := h.data.conn c cn hc
  refine ⟨ci.closed, ci.opened, fun hst => ?_⟩
  obtain ⟨a, b, _, _⟩ := ci.inTxn hst
  exact ⟨a.inv, b, he.pending c cn hc hst⟩

/-- the single-slot invariant `Inv1` of the first part holds of slot `c` whenever no other slot holds the lock — for
histories with reads and with other slots active -/
theorem C04_inv1_all (ops : List Op) (hwf : WellFormedBuild World.init ops) (c : Nat)
    (hlock : (run World.init ops).lock = none ∨ (run World.init ops).lock = some c) : Inv1 c (run World.init ops) := by
  have hci := C04_committed_inv_all ops hwf
  exact ⟨hci.1, hci.2, fun cn hc => C04_slots_inv ops hwf c cn hc, hlock⟩

/-- one read (`lookupRuleResult` / `getKeysWithResult`) keeps the per-slot invariant `Inv1` (the missing cases of
`Inv1_step`): the read path only adds cache entries that name rows of key_names -/
theorem C04_read_preserves_inv1 {c : Nat} {w : World} (h : Inv1 c w) (k : Bytes) :
    Inv1 c (step w (.lookup c k)).1 ∧ Inv1 c (step w (.keys c)).1 := by
  have hfaith := C03_stored_key_faithful
  have key : ∀ {w1 : World} {cn1 cn2 : Conn}, ConnInv w1 cn1 → cn1.state ≠ .closed → SnapInv w1.committed → SameCtl cn1 cn2 →
      (KNOK (view w1 cn1).keyNames → CacheOK cn1 (view w1 cn1).keyNames → CacheOK cn2 (view w1 cn1).keyNames) → ConnInv w1 cn2 := by
    intro w1 cn1 cn2 ci hncl hs hctl hca
    obtain ⟨_, _, hst, hp⟩ := hctl
    refine ⟨fun hc => absurd (hst ▸ hc) hncl, ?_, ?_⟩
    · intro ho
      have ho1 : cn1.state = .opened := hst ▸ ho
      have hv : view w1 cn1 = w1.committed := by unfold view; simp [ho1]
      rw [hv] at hca
      exact hca hs.kn (ci.opened ho1)
    · intro ht
      have ht1 : cn1.state = .inTxn := hst ▸ ht
      have hv : view w1 cn1 = cn1.pending := by unfold view; simp [ht1]
      rw [hv] at hca
      obtain ⟨a, b, d⟩ := ci.inTxn ht1
      rw [hp]
      exact ⟨a, hca a.kn b, d⟩
  constructor
  · simp only [step, withOpen]
    cases hc : w.conns c with
    | none => simpa using h
    | some cn =>
      rcases ensureOpen_inv h hc with ⟨e, he⟩ | ⟨w1, cn1, he, hs1, he1, hl1, ci1, hncl, _, _⟩
      · simpa [he] using h
      · simp only [he]
        exact Inv1_setConn hs1 he1 (hl1 ▸ h.lock)
          (key ci1 hncl hs1 (applyLookup_ctl _ _ _) (fun ok c => applyLookup_cacheOK hfaith ok c k))
  · simp only [step, withOpen]
    cases hc : w.conns c with
    | none => simpa using h
    | some cn =>
      rcases ensureOpen_inv h hc with ⟨e, he⟩ | ⟨w1, cn1, he, hs1, he1, hl1, ci1, hncl, _, _⟩
      · simpa [he] using h
      · simp only [he]
        have hctl := applyKeys_ctl (view w1 cn1).keyNames (sortRows (view w1 cn1).rows) cn1
        have hca := fun ok c => applyKeys_cacheOK (kn := (view w1 cn1).keyNames) ok (sortRows (view w1 cn1).rows) cn1 c
        split
        · rename_i cn2 l hk
          rw [hk] at hctl hca
          exact Inv1_setConn hs1 he1 (hl1 ▸ h.lock) (key ci1 hncl hs1 hctl hca)
        · rename_i cn2 e hk
          rw [hk] at hctl hca
          exact Inv1_setConn hs1 he1 (hl1 ▸ h.lock) (key ci1 hncl hs1 hctl hca)

/-- epoch-reuse hazard, all sequences: after any well-formed history over any slots followed by a crash, the epoch of
the next build (stored iteration + 1) exceeds every epoch in the surviving store -/
theorem C04_no_epoch_reuse_all (ops : List Op) (hwf : WellFormedBuild World.init ops) (id : Nat) (row : Row)
    (hr : (id, row) ∈ (step (run World.init ops) .crash).1.committed.rows) :
    row.builtAt < (step (run World.init ops) .crash).1.committed.iteration + 1 ∧
    row.computedAt < (step (run World.init ops) .crash).1.committed.iteration + 1 := by
  have hc := (C04_crash_keeps_committed (run World.init ops)).1
  rw [hc] at hr ⊢
  have := (C04_committed_inv_all ops hwf).2 id row hr
  omega

/-! Non-vacuity: two slots interleaved with reads; slot 1 is refused while slot 0 builds, reads before and after;
the history is well-formed. -/
def exampleOps2 : List Op :=
  [.new 0 1 true, .new 1 1 true, .start 0, .set 0 [97] ⟨[1], 5, 1, 1, [⟨[98], true, false⟩]⟩, .lookup 1 [97], .lookup 0 [97],
   .keys 0, .setiter 0 1, .complete 0, .lookup 1 [97], .keys 1, .start 1, .set 1 [98] ⟨[2], 6, 2, 2, []⟩, .crash,
   .new 1 1 true, .keys 1]

theorem exampleOps2_wf : WellFormedBuild World.init exampleOps2 := by
  simp only [exampleOps2, WellFormedBuild, StepWF]
  decide

example : (run World.init exampleOps2).committed.iteration = 1 ∧ (run World.init exampleOps2).committed.rows.length = 1 := by decide

/-! ### one transaction per build: between `buildStarted` and `buildComplete` nothing reaches the file

The model moves `pending` to `committed` only in `complete` (and `open` commits only the schema it creates).  That is
the code's behaviour iff no function other than `open` / `buildStarted` / `buildComplete` executes a transaction-control
statement, a PRAGMA, or reaches sqlite3 through an API the model does not describe; the extractor lists all of these
for the whole of SQLiteBuildDB.cpp on every run (`Generated.SQLiteDB.txnControl`, `sqlArgsNotLiteral`, `sqliteCalls`). -/

/-- what the engine calls on the build's own connection between `buildStarted` and `buildComplete` -/
def MidBuildOp (c : Nat) : Op → Prop
  | .epoch c' | .setiter c' _ | .start c' | .set c' _ _ | .lookup c' _ | .keys c' => c' = c
  | _ => False

theorem ensureOpen_holder {w : World} {c : Nat} {cn : Conn} (hl : w.lock = some c) (hst : cn.state = .inTxn) :
    ensureOpen w c cn = .ok (w, cn) := by
  unfold ensureOpen blocked
  simp [hl, hst]

/-- "single transaction per build" (the window the property is about: results stamped with epoch N+1 while the stored
epoch is still N must not become durable before the epoch does).  (1) The source has exactly the transaction shape the
model assumes: `BEGIN EXCLUSIVE` / `END` in `open` around the schema creation, `BEGIN EXCLUSIVE` in `buildStarted`,
`END` in `buildComplete`, and no transaction control, PRAGMA, non-literal SQL or further sqlite3 API anywhere else.
(2) In the model, no operation of a build on its connection between `start` and `complete` — any number of
`setRuleResult`, `setCurrentIteration`, lookups, key enumerations — changes what a killed process leaves behind, and the
connection stays inside its transaction holding the lock. -/
theorem C04_one_transaction_per_build :
    txnShapeOK = true ∧
    ∀ (w : World) (c : Nat) (cn : Conn) (op : Op), w.conns c = some cn → cn.state = .inTxn → w.lock = some c → MidBuildOp c op →
      (step w op).1.committed = w.committed ∧ (step w op).1.lock = some c ∧
      ∃ cn', (step w op).1.conns c = some cn' ∧ cn'.state = .inTxn := by
  refine ⟨by decide, ?_⟩
  intro w c cn op hc hst hl hop
  have ho := ensureOpen_holder (w := w) (c := c) hl hst
  cases op with
  | reset => exact hop.elim
  | new _ _ _ => exact hop.elim
  | drop _ => exact hop.elim
  | crash => exact hop.elim
  | complete _ => exact hop.elim
  | epoch c' =>
    cases (show c' = c from hop)
    simp only [step, withOpen, hc, ho]
    exact ⟨rfl, hl, cn, if_pos rfl, hst⟩
  | setiter c' n =>
    cases (show c' = c from hop)
    simp only [step, withOpen, hc, ho, putView, hst, ↓reduceIte]
    exact ⟨rfl, hl, _, if_pos rfl, rfl⟩
  | start c' =>
    cases (show c' = c from hop)
    simp only [step, withOpen, hc, ho, hst, ↓reduceIte]
    exact ⟨rfl, hl, cn, if_pos rfl, hst⟩
  | set c' k r =>
    cases (show c' = c from hop)
    have hs := applySet_state cn (view w cn) k r
    simp only [step, withOpen, hc, ho, putView, hs, hst, ↓reduceIte]
    exact ⟨rfl, hl, _, if_pos rfl, rfl⟩
  | lookup c' k =>
    cases (show c' = c from hop)
    have hs := (applyLookup_ctl cn (view w cn) k).2.2.1
    simp only [step, withOpen, hc, ho]
    exact ⟨rfl, hl, _, if_pos rfl, hs.trans hst⟩
  | keys c' =>
    cases (show c' = c from hop)
    have hs := (applyKeys_ctl (view w cn).keyNames (sortRows (view w cn).rows) cn).2.2.1
    simp only [step, withOpen, hc, ho]
    split
    · rename_i cn1 l hk
      rw [hk] at hs
      exact ⟨rfl, hl, _, if_pos rfl, hs.trans hst⟩
    · rename_i cn1 e hk
      rw [hk] at hs
      exact ⟨rfl, hl, _, if_pos rfl, hs.trans hst⟩

/-- non-vacuity: a build in progress (lock held, connection in its transaction, two results pending) -/
def exampleMidBuild : World :=
  run World.init [.new 0 1 true, .start 0, .set 0 [97] ⟨[1], 5, 1, 1, []⟩, .set 0 [98] ⟨[2], 6, 1, 1, [⟨[97], false, false⟩]⟩]

example : (exampleMidBuild.conns 0).map (fun cn => (cn.state, cn.pending.rows.length)) = some (.inTxn, 2) ∧
    exampleMidBuild.lock = some 0 ∧ exampleMidBuild.committed.rows.length = 0 := by decide

end LLBuild.BuildDB
