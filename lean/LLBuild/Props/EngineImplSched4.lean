/-
C03 ("build state survives restarts exactly: database transparency") and C07 ("dependency cycles are always detected and
reported accurately, never falsely") on the PRINTED TRACES and the STATE of the transliterated engine, for all histories
`List OpC` and all schedules.  What is true, what is not, and why: notes/REFINESCHED.md §15.

C03
* `EngineImpl_sound_C03_restart_snapshot` — what a new engine on the store sees (`snapC rules (opRestart s)`: the store rows, the
  stored iteration, freshly computed signatures) against what the living engine holds: after ANY history with
  `histDropped = false` every built in-memory result has a built row with the same value and `computedAt` and a `builtAt`
  that is not newer.  The snapshots are NOT equal (`C03_snapshots_differ`): `builtAt` is bumped in memory by every up-to-date
  check, `rule->signature` is frozen at registration.
* `EngineImpl_sound_C03_restart_transparent` — after a history all of whose completed builds printed no `X`/`CY`/`ER`, with
  current signatures: a `Succeeded` build from `s` and one from `opRestart s`, any two schedules, return the same value and
  execute the same set.  `EngineImpl_sound_C03_restart_reference`: the reference sets agree.
* `EngineImpl_sound_C03_restart_split_value` — a restart inserted before EVERY build of a history: corresponding builds that
  both `Succeeded` return the same value.  (Executed sets along a whole split history: NOT proved — §15.)
* NOT transparent (by `decide`): `C03_not_transparent_after_failed_build`, `C03_not_transparent_stale_signature`
  (both replayed on the real engine); `EngineImpl_C03_killed_build_is_restart`: a killed build IS a restart.

C07
* `EngineImpl_sound_C07_reported_cycle_real`, `EngineImpl_sound_C07_empty_report` (F30), `EngineImpl_sound_C07_never_falsely`
  (decidable `DSL.acyclicAll`), `EngineImpl_sound_C07_cycle_always_detected` (`UptoCyclic`: cycles through value, single-use,
  must-follow requests and recorded dependencies), `EngineImpl_sound_C07_value_cycle` (`CyclicSet`).
-/
import LLBuild.Props.EngineImplSched3
import LLBuild.Props.C07
import LLBuild.Lemmas.Refine.Sched6Hist
import LLBuild.Lemmas.Refine.Sched6CycleFinal

set_option linter.unusedVariables false

namespace LLBuild.Refine
open LLBuild.Engine LLBuild.Engine.DSL LLBuild.EngineImpl

/-! ## C03 -/

/-- what a new engine on the store of `s` starts from: the external state, the stored iteration, the store rows, and
signatures computed now -/
theorem snapC_restart (rules : List RuleSpec) (s : State) :
    (snapC rules (opRestart s)).env = s.env ∧ (snapC rules (opRestart s)).epoch = s.store.iteration + 1 ∧
    (∀ k, (snapC rules (opRestart s)).res k = (s.store.rows.lookup k).getD {}) ∧
    (∀ k, (snapC rules (opRestart s)).sg k = sigOf (specOf rules k) s.env) :=
  ⟨rfl, rfl, fun _ => rfl, fun _ => rfl⟩

/-- **C03 (the committed store is what the engine holds).**  After any history in which nothing was dropped: the engine's
epoch is the stored iteration, and every rule for which the engine holds a BUILT result has a built store row with the same
value and `computedAt`, and a `builtAt` that is not newer (it is older when the rule was only found up to date since). -/
theorem EngineImpl_sound_C03_restart_snapshot {rules : List RuleSpec} (hok : RulesOk rules) (hwf : DSL.wf rules = true)
    (ops : List OpC) (hs : histSizedC rules ops (opProgram rules {}))
    (hnd : histDropped ops (opProgram rules {}) false = false) :
    let s := runOpsC ops (opProgram rules {})
    s.store.iteration = s.currentEpoch ∧
    ∀ k ri, s.ruleInfos.lookup k = some ri → ri.result.builtAt ≠ 0 →
      ∃ row, s.store.rows.lookup k = some row ∧ row.builtAt ≠ 0 ∧ row.value = ri.result.value ∧
        row.computedAt = ri.result.computedAt ∧ row.builtAt ≤ ri.result.builtAt := by
  intro s
  obtain ⟨evs, m, _, hrun, hrel, _, hd, _⟩ := sched_history hok ops _ _ (RelIdle.init rules) Committed.init hs
  have hi := reach_inv (program_WF hwf) hrun (hd.trans hnd)
  exact ⟨hrel.iterEq, fun k ri hl hb => restart_store_holds_values hrel hi hl hb⟩

/-- **C03 (the reference executed set does not see the restart).** -/
theorem EngineImpl_sound_C03_restart_reference {rules : List RuleSpec} (hok : RulesOk rules) (hwf : DSL.wf rules = true)
    (ops : List OpC) (hs : histSizedC rules ops (opProgram rules {})) (hnf : histNoFail ops (opProgram rules {}))
    (hsig : sigCurrent rules (runOpsC ops (opProgram rules {})) = true) (key k : Key) :
    MustRun (program rules) (snapC rules (runOpsC ops (opProgram rules {}))) key k ↔
      MustRun (program rules) (snapC rules (opRestart (runOpsC ops (opProgram rules {})))) key k :=
  mustRun_restart_concrete hok (program_WF hwf) ops hs hnf hsig key k

theorem histNoFail_append : ∀ (a b : List OpC) (s : State),
    histNoFail (a ++ b) s ↔ histNoFail a s ∧ histNoFail b (runOpsC a s)
  | [], b, s => by simp [histNoFail, runOpsC]
  | op :: a, b, s => by
    simp only [List.cons_append, histNoFail, runOpsC, histNoFail_append a b (runOpC op s), and_assoc]

theorem runOpsC_restart_last (ops : List OpC) (s0 : State) : runOpsC (ops ++ [OpC.restart]) s0 = opRestart (runOpsC ops s0) := by
  rw [runOpsC_append]; rfl

theorem clean_value_at {rules : List RuleSpec} (hok : RulesOk rules) (hwf : DSL.wf rules = true) (ops : List OpC) (key : Nat)
    (hs : histSizedC rules ops (opProgram rules {})) (hnd : histDropped ops (opProgram rules {}) false = false)
    (s' : State) (he : runOpsC ops (opProgram rules {}) = s') (hk : workBound rules s' key + 2 < scanFuel)
    (c : Nat) (sched : List SchedItem) (a : Async) (v : Val)
    (h : Succeeded (runBuildA key c sched a s').trace.reverse v) : Clean (program rules) s'.env key v := by
  subst he
  exact EngineImpl_sound_C06_clean_value hok hwf ops key hs hk hnd c sched a v h

theorem executed_reference_at {rules : List RuleSpec} (hok : RulesOk rules) (hdet : DSL.det rules = true) (ops : List OpC)
    (key : Nat) (hs : histSizedC rules ops (opProgram rules {}))
    (s' : State) (he : runOpsC ops (opProgram rules {}) = s') (hk : workBound rules s' key + 2 < scanFuel)
    (c : Nat) (sched : List SchedItem) (a : Async) (k : Key)
    (h : NoFail (runBuildA key c sched a s').trace.reverse) :
    Tok.T k ∈ (runBuildA key c sched a s').trace.reverse ↔ MustRun (program rules) (snapC rules s') key k := by
  subst he
  exact EngineImpl_sound_C02_executed_reference_concrete hok hdet ops key hs hk c sched a k h

/-- **C03 (database transparency of one build).**  After a history all of whose completed builds printed no `X`/`CY`/`ER`
(killed builds allowed), with the engine's signatures current: for every key and ANY two schedules, a build by the engine
that stayed alive and a build by a new engine on its store that both `Succeeded` return the same value and execute the
same set of rules. -/
theorem EngineImpl_sound_C03_restart_transparent {rules : List RuleSpec} (hok : RulesOk rules) (hwf : DSL.wf rules = true)
    (hdet : DSL.det rules = true) (ops : List OpC) (key : Nat)
    (hs : histSizedC rules ops (opProgram rules {})) (hnf : histNoFail ops (opProgram rules {}))
    (hsig : sigCurrent rules (runOpsC ops (opProgram rules {})) = true)
    (hk : workBound rules (runOpsC ops (opProgram rules {})) key + 2 < scanFuel)
    (hk' : workBound rules (opRestart (runOpsC ops (opProgram rules {}))) key + 2 < scanFuel)
    (c1 c2 : Nat) (sched1 sched2 : List SchedItem) (a1 a2 : Async) (v1 v2 : Val) :
    let s := runOpsC ops (opProgram rules {})
    let t1 := (runBuildA key c1 sched1 a1 s).trace.reverse
    let t2 := (runBuildA key c2 sched2 a2 (opRestart s)).trace.reverse
    Succeeded t1 v1 → Succeeded t2 v2 → v1 = v2 ∧ ∀ k, Tok.T k ∈ t1 ↔ Tok.T k ∈ t2 := by
  intro s t1 t2 h1 h2
  have hs' : histSizedC rules (ops ++ [OpC.restart]) (opProgram rules {}) :=
    (histSizedC_append rules ops _ _).2 ⟨hs, by simp [histSizedC]⟩
  have hnf' : histNoFail (ops ++ [OpC.restart]) (opProgram rules {}) :=
    (histNoFail_append ops _ _).2 ⟨hnf, by simp [histNoFail]⟩
  have hse : runOpsC (ops ++ [OpC.restart]) (opProgram rules {}) = opRestart s := runOpsC_restart_last ops _
  constructor
  · have c1' := EngineImpl_sound_C06_clean_value hok hwf ops key hs hk (histNoFail_dropped hok ops hs hnf) c1 sched1 a1 v1 h1
    have c2' := clean_value_at hok hwf (ops ++ [OpC.restart]) key hs' (histNoFail_dropped hok _ hs' hnf') (opRestart s) hse hk'
      c2 sched2 a2 v2 h2
    exact Clean_unique (DSL.program_Det hdet) c1' c2'
  · intro k
    have e1 := EngineImpl_sound_C02_executed_reference_concrete hok hdet ops key hs hk c1 sched1 a1 k h1.2
    have e2 := executed_reference_at hok hdet (ops ++ [OpC.restart]) key hs' (opRestart s) hse hk' c2 sched2 a2 k h2.2
    exact e1.trans ((EngineImpl_sound_C03_restart_reference hok hwf ops hs hnf hsig key k).trans e2.symm)

/-- **C03 (restart at every build boundary: values).**  `splitRestarts ops` = `ops` with a restart inserted before every build
(what the `restart-split` stream of `./check C03` runs on the real engine).  For every build of the history: if it `Succeeded`
in both variants, it returned the same value (nothing dropped before it in either variant). -/
theorem EngineImpl_sound_C03_restart_split_value {rules : List RuleSpec} (hok : RulesOk rules) (hwf : DSL.wf rules = true)
    (hdet : DSL.det rules = true) (pre : List OpC) (key c : Nat) (sched : List SchedItem) (a : Async)
    (hp : histSizedC rules pre (opProgram rules {}))
    (hp' : histSizedC rules (splitRestarts pre ++ [OpC.restart]) (opProgram rules {}))
    (hk : workBound rules (runOpsC pre (opProgram rules {})) key + 2 < scanFuel)
    (hk' : workBound rules (runOpsC (splitRestarts pre ++ [OpC.restart]) (opProgram rules {})) key + 2 < scanFuel)
    (hnd : histDropped pre (opProgram rules {}) false = false)
    (hnd' : histDropped (splitRestarts pre ++ [OpC.restart]) (opProgram rules {}) false = false) (v1 v2 : Val) :
    Succeeded (runBuildA key c sched a (runOpsC pre (opProgram rules {}))).trace.reverse v1 →
    Succeeded (runBuildA key c sched a (runOpsC (splitRestarts pre ++ [OpC.restart]) (opProgram rules {}))).trace.reverse v2 →
    v1 = v2 := by
  intro h1 h2
  obtain ⟨hp'', _⟩ := (histSizedC_append rules (splitRestarts pre) _ _).1 hp'
  have c1' := EngineImpl_sound_C06_clean_value hok hwf pre key hp hk hnd c sched a v1 h1
  have c2' := clean_value_at hok hwf (splitRestarts pre ++ [OpC.restart]) key hp' hnd' _ rfl hk' c sched a v2 h2
  have e0 : (runOpsC (splitRestarts pre) (opProgram rules {})).env = (runOpsC pre (opProgram rules {})).env :=
    splitRestarts_env hok pre (opProgram rules {}) (opProgram rules {}) {} {} (RelIdle.init rules) Committed.init
      (RelIdle.init rules) Committed.init rfl hp hp''
  have henv : (runOpsC (splitRestarts pre ++ [OpC.restart]) (opProgram rules {})).env = (runOpsC pre (opProgram rules {})).env := by
    rw [runOpsC_restart_last]; exact e0
  have c2'' : Clean (program rules) (runOpsC pre (opProgram rules {})).env key v2 := by
    rw [← henv]; exact c2'
  exact Clean_unique (DSL.program_Det hdet) c1' c2''

/-- **C03 (a killed build is transparent by construction).**  What a build killed at any point leaves is exactly what a
restart leaves: a new engine on the unchanged store. -/
theorem EngineImpl_C03_killed_build_is_restart (key c : Nat) (sched : List SchedItem) (a : Async) (cut : Nat) (ops : List OpC)
    (s : State) : runOpsC (.crashedBuild key c sched a cut :: ops) s = runOpsC (.restart :: ops) s := rfl

/-! ### what is NOT transparent (witnesses by `decide`) -/

/-- build `3`; change input `1`; build `3` again, CANCELLED at its 6th event (task `1` has been created and is torn down: the
engine marks its rule never-built in memory, the store keeps the old row); set input `1` back -/
def c03FailOps : List OpC :=
  [.mutate 1 55, .mutate 2 66, .mutate 4 77, .build 3 0 [] [], .mutate 1 56, .build 3 6 [] [], .mutate 1 55]

set_option maxRecDepth 16000 in
/-- **after a FAILED (cancelled) build a restart is visible**: the engine that stayed alive executes `1` and `3` (it holds
"never built" for `1`), a new engine on the store executes nothing (the old row of `1` is valid again); both builds print no
`X`/`CY`/`ER` and return the same value.  Replayed on the real engine. -/
theorem C03_not_transparent_after_failed_build :
    (runBuildA 3 0 [] [] (runOpsC c03FailOps (opProgram schRules {}))).trace.reverse.filterMap Tok.tKey = [1, 3] ∧
    (runBuildA 3 0 [] [] (opRestart (runOpsC c03FailOps (opProgram schRules {})))).trace.reverse.filterMap Tok.tKey = [] ∧
    NoFail (runBuildA 3 0 [] [] (runOpsC c03FailOps (opProgram schRules {}))).trace.reverse ∧
    NoFail (runBuildA 3 0 [] [] (opRestart (runOpsC c03FailOps (opProgram schRules {})))).trace.reverse ∧
    sigCurrent schRules (runOpsC c03FailOps (opProgram schRules {})) = true := by
  decide

set_option maxRecDepth 16000 in
/-- **a signature that changed while the engine is alive is only seen after a restart**: `idRules`, build `3`, then the
signature slot of rule `3` changes: the living engine (which holds `rule->signature` from registration) executes nothing, a
new engine executes `3`.  No build failed.  Replayed on the real engine (`M 1003 1`, with and without `E`). -/
theorem C03_not_transparent_stale_signature :
    (runBuildA 3 0 [] [] (runOpsC [.mutate 1 5, .build 3 0 [] [], .mutate 1003 1] (opProgram idRules {}))).trace.reverse.filterMap
      Tok.tKey = [] ∧
    (runBuildA 3 0 [] [] (opRestart (runOpsC [.mutate 1 5, .build 3 0 [] [], .mutate 1003 1] (opProgram idRules {})))).trace.reverse.filterMap
      Tok.tKey = [3] ∧
    histNoFail [.mutate 1 5, .build 3 0 [] [], .mutate 1003 1] (opProgram idRules {}) ∧
    sigCurrent idRules (runOpsC [.mutate 1 5, .build 3 0 [] [], .mutate 1003 1] (opProgram idRules {})) = false := by
  refine ⟨by decide, by decide, ?_, by decide⟩
  simp only [histNoFail, runOpC, and_true, true_and]
  decide

set_option maxRecDepth 16000 in
/-- **the snapshots are not equal even after successful builds only**: after `ooRules` was built, its order-only dependency
`5` changed and `3` was found up to date again, the engine holds `builtAt = 2` for `3` while the store row still says `1` -/
theorem C03_snapshots_differ :
    ((snapC ooRules (runOpsC [.mutate 1 5, .mutate 5 9, .build 3 0 [] [], .mutate 5 10, .build 3 0 [] []]
        (opProgram ooRules {}))).res 3).builtAt = 2 ∧
    ((snapC ooRules (opRestart (runOpsC [.mutate 1 5, .mutate 5 9, .build 3 0 [] [], .mutate 5 10, .build 3 0 [] []]
        (opProgram ooRules {})))).res 3).builtAt = 1 := by
  decide

/-! ## C07 -/

/-- a wait-for edge `a → b` of a reported cycle, on the tokens `pre` printed before the report: the task of `a` was created
and one of its printed request lists (`ST a …` / `PV a … …`) contains a request for `b`; or `a` is being scanned (`S a 0`
printed) and `b` is a recorded (non-single-use) dependency of the result the engine held for `a` when the build started -/
def CycleEdge (rules : List RuleSpec) (s : State) (pre : List Tok) (a b : Key) : Prop :=
  (Tok.T a ∈ pre ∧ ∃ q : Req, q.key = b ∧ IssuedTok pre a q) ∨
  (Tok.S a 0 ∈ pre ∧ ((engineRes s a).builtAt ≠ 0 →
    ∃ d ∈ (engineRes s a).deps, d.singleUse = false ∧ d.key = b))

/-- **C07 (a reported cycle is real).**  If `CY ks` with `ks ≠ []` is printed, then `ks` starts at the requested key, its last
key repeats an earlier one, and every consecutive pair is a wait-for edge witnessed by tokens of THE SAME trace before the
report (`CycleEdge`). -/
theorem EngineImpl_sound_C07_reported_cycle_real {rules : List RuleSpec} (hok : RulesOk rules) (ops : List OpC) (key : Nat)
    (hs : histSizedC rules ops (opProgram rules {}))
    (hk : workBound rules (runOpsC ops (opProgram rules {})) key + 2 < scanFuel)
    (c : Nat) (sched : List SchedItem) (a : Async) (pre post : List Tok) (ks : List Key) :
    let s := runOpsC ops (opProgram rules {})
    (runBuildA key c sched a s).trace.reverse = pre ++ Tok.CY ks :: post → ks ≠ [] →
    ks.head? = some key ∧ (∃ l, ks.getLast? = some l ∧ l ∈ ks.dropLast) ∧
      ∀ ab ∈ ks.zip ks.tail, CycleEdge rules s pre ab.1 ab.2 := by
  intro s htr hne
  obtain ⟨evs0, m0, _, hr0, hrel, _⟩ := refinement_final_crash_committed hok ops hs
  obtain ⟨msp, m', _, hst, htgt, hx, hseen, _⟩ :=
    build_at_CY hok hrel (reach_inv2 hr0) key c sched a hk htr (I := fun _ => True) (fun _ _ _ _ _ => trivial) trivial
  obtain ⟨root, hroot, hhead, hedges, hlast⟩ := C07_lasso hst hne
  rw [htgt] at hroot; cases hroot
  refine ⟨hhead, hlast, ?_⟩
  intro ab hab
  rcases C07_wait_for_is_real (hedges ab hab) with ⟨hrun, q, hq, hqk, _, _⟩ | ⟨hscan, hfnd⟩
  · exact Or.inl ⟨hseen.running _ (Or.inl hrun), q, hqk, hseen.issued _ q hq⟩
  · refine Or.inr ⟨hseen.scanning _ hscan, fun hb => ?_⟩
    obtain ⟨⟨d, hd, hdk⟩, _⟩ := C07_parked_dep _ _ hfnd
    rw [(hx.key ab.1).scan (Or.inl hscan)] at hd
    have heq := snapEq_of_relIdle hrel
    have hb' : ((snapOf (program rules) m0).res ab.1).builtAt ≠ 0 := by rw [heq.builtAt]; exact hb
    have hd' : d ∈ ((snapOf (program rules) m0).res ab.1).deps.filter (fun d => !d.singleUse) := hd
    rw [heq.deps _ hb'] at hd'
    obtain ⟨h1, h2⟩ := List.mem_filter.1 hd'
    exact ⟨d, h1, by simpa using h2, hdk⟩

/-- **C07 (the empty report, F30).**  `CY []` is printed only after the requested key became complete in this build (`S key 1`
or `DS key _` printed before); and even then — as for every report — some rule is blocked and every blocked rule waits for
a blocked rule: the report is empty because the search starts from the (complete) requested key, not because nothing is
stuck. -/
theorem EngineImpl_sound_C07_empty_report {rules : List RuleSpec} (hok : RulesOk rules) (ops : List OpC) (key : Nat)
    (hs : histSizedC rules ops (opProgram rules {}))
    (hk : workBound rules (runOpsC ops (opProgram rules {})) key + 2 < scanFuel)
    (c : Nat) (sched : List SchedItem) (a : Async) (pre post : List Tok) :
    let s := runOpsC ops (opProgram rules {})
    (runBuildA key c sched a s).trace.reverse = pre ++ Tok.CY [] :: post →
    Tok.S key 1 ∈ pre ∨ ∃ row, Tok.DS key row ∈ pre := by
  intro s htr
  obtain ⟨evs0, m0, _, hr0, hrel, _⟩ := refinement_final_crash_committed hok ops hs
  obtain ⟨msp, m', _, hst, htgt, _, hseen, _⟩ :=
    build_at_CY hok hrel (reach_inv2 hr0) key c sched a hk htr (I := fun _ => True) (fun _ _ _ _ _ => trivial) trivial
  obtain ⟨root, hroot, hdone⟩ := C07_empty_report_only_when_root_complete hst
  rw [htgt] at hroot; cases hroot
  exact hseen.done key hdone

/-- **C07 (never falsely).**  If the rule list is statically acyclic over ALL potential edges — every static request, every
branch of every conditional request, every discovered key (`DSL.acyclicAll`, decidable) — then no trace of any build, after
any history, under any schedule, contains a `CY` token (empty or not). -/
theorem EngineImpl_sound_C07_never_falsely {rules : List RuleSpec} (hok : RulesOk rules) (hac : DSL.acyclicAll rules = true)
    (ops : List OpC) (key : Nat) (hs : histSizedC rules ops (opProgram rules {}))
    (hk : workBound rules (runOpsC ops (opProgram rules {})) key + 2 < scanFuel)
    (c : Nat) (sched : List SchedItem) (a : Async) :
    ∀ t ∈ (runBuildA key c sched a (runOpsC ops (opProgram rules {}))).trace.reverse, Tok.isCY t = false := by
  intro t ht
  cases hcy : Tok.isCY t with
  | false => rfl
  | true =>
    exfalso
    cases t <;> first | cases hcy | skip
    rename_i ks
    obtain ⟨pre, post, htr⟩ := List.append_of_mem ht
    obtain ⟨evs0, m0, _, hr0, hrel, _⟩ := refinement_final_crash_committed hok ops hs
    have hsi : SInv (program rules) m0 := run_sinv evs0 {} m0 hr0 (SInv.init _)
    have hnh := build_terminates_async hok hrel key c sched a hk
    obtain ⟨msp, m', hpre, hst, htgt, _, _, hsp⟩ :=
      build_at_CY hok hrel (reach_inv2 hr0) key c sched a hk htr (I := SInv (program rules))
        (fun _ _ _ h hi => step_sinv h hi) hsi
    obtain ⟨msp', hpre', hne, hall⟩ := runBuildA_CY_blocked hok hrel key c sched a hnh htr
    rw [hpre] at hpre'; cases hpre'
    exact blocked_ranked hsp (ranked_of_acyclicAll hac) (BlockedM msp.m) hne hall

/-- **C07 (a cycle is always detected).**  `C` is a set of keys each of which, in the state the build starts from, needs a
key of `C` whichever way it is brought up to date: if its held result is reusable, one of its recorded dependencies is in
`C`; and every valid complete delivery sequence of its task issues a request (value, single-use or must-follow) for a key of
`C`.  If the requested key is in `C`, NO run of the build — any schedule — ends without `X`/`CY`/`ER`: the failure always
names its cause in the trace. -/
theorem EngineImpl_sound_C07_cycle_always_detected {rules : List RuleSpec} (hok : RulesOk rules) (ops : List OpC) (key : Nat)
    (hs : histSizedC rules ops (opProgram rules {}))
    (hk : workBound rules (runOpsC ops (opProgram rules {})) key + 2 < scanFuel)
    {C : Key → Prop} (hC : UptoCyclic (program rules) (snapC rules (runOpsC ops (opProgram rules {}))) C) (hkey : C key)
    (c : Nat) (sched : List SchedItem) (a : Async) :
    ∃ t ∈ (runBuildA key c sched a (runOpsC ops (opProgram rules {}))).trace.reverse, Tok.isFail t = true := by
  obtain ⟨evs0, m0, _, hr0, hrel, _⟩ := refinement_final_crash_committed hok ops hs
  have hnot : ¬ NoFail (runBuildA key c sched a (runOpsC ops (opProgram rules {}))).trace.reverse := by
    intro hnf
    have hu := build_upto hok hrel (reach_inv2 hr0) key c sched a hk hnf
    exact upto_not_cyclic ((snapEq_of_relIdle hrel).uptoCyclic hC) hu hkey
  have : ¬ ∀ t ∈ (runBuildA key c sched a (runOpsC ops (opProgram rules {}))).trace.reverse, Tok.isFail t = false :=
    fun h => hnot (NoFail.of_mem h)
  by_cases hex : ∃ t ∈ (runBuildA key c sched a (runOpsC ops (opProgram rules {}))).trace.reverse, Tok.isFail t = true
  · exact hex
  · exfalso; apply this
    intro t ht
    cases hf : Tok.isFail t with
    | false => rfl
    | true => exact absurd ⟨t, ht, hf⟩ hex

/-- **C07 (a value cycle never succeeds)** — `EngineImpl_sound_C07_cycle` on tokens: if the requested key lies in a `CyclicSet`
(every task of a key of the set always asks for the VALUE of a key of the set), every run prints `X`, `CY` or `ER`. -/
theorem EngineImpl_sound_C07_value_cycle {rules : List RuleSpec} (hok : RulesOk rules) (hwf : DSL.wf rules = true)
    (ops : List OpC) (key : Nat) (hs : histSizedC rules ops (opProgram rules {}))
    (hk : workBound rules (runOpsC ops (opProgram rules {})) key + 2 < scanFuel)
    (hnd : histDropped ops (opProgram rules {}) false = false)
    {C : Key → Prop} (hC : CyclicSet (program rules) C) (hkey : C key) (c : Nat) (sched : List SchedItem) (a : Async) :
    ¬ NoFail (runBuildA key c sched a (runOpsC ops (opProgram rules {}))).trace.reverse := by
  intro hnf
  obtain ⟨pre, v, htr, _⟩ := EngineImpl_sound_C05_no_callback_after_return hok ops key hs hk c sched a
  have hsucc : Succeeded (runBuildA key c sched a (runOpsC ops (opProgram rules {}))).trace.reverse v := by
    refine ⟨?_, hnf⟩
    rw [htr]
    apply List.any_eq_true.2
    exact ⟨Tok.R v, by simp, by simp [Tok.isRet]⟩
  exact Clean_not_cyclic hC (EngineImpl_sound_C06_clean_value hok hwf ops key hs hk hnd c sched a v hsucc) hkey

/-! ### C07 examples (by `decide`) -/

/-- the key list of a `CY` token -/
def Tok.cyKeys : Tok → Option (List Key)
  | .CY ks => some ks
  | _ => none

/-- `3` asks for the value of `4`, `4` must FOLLOW `5` (kind 2, no value), `5` asks for the value of `3` -/
def cyc3Rules : List RuleSpec :=
  [{ key := 1 }, { key := 3, kind := 1, statics := [⟨4, 7, 0⟩] },
   { key := 4, kind := 1, statics := [⟨1, 7, 0⟩, ⟨5, 8, 2⟩] }, { key := 5, kind := 1, statics := [⟨3, 7, 0⟩] }]

set_option maxRecDepth 16000 in
/-- **a 3-cycle through a must-follow edge** is reported as the lasso `3 → 4 → 5 → 3`, the build returns `R 0`; the rule list is
not statically acyclic -/
example :
    (runBuildA 3 0 [] [] (runOpsC [.mutate 1 5] (opProgram cyc3Rules {}))).trace.reverse.filterMap Tok.cyKeys = [[3, 4, 5, 3]] ∧
    Tok.R 0 ∈ (runBuildA 3 0 [] [] (runOpsC [.mutate 1 5] (opProgram cyc3Rules {}))).trace.reverse ∧
    DSL.acyclicAll cyc3Rules = false := by
  decide

set_option maxRecDepth 16000 in
/-- **an acyclic program never reports a cycle**: `schRules` is statically acyclic, so `EngineImpl_sound_C07_never_falsely`
applies to every history and schedule; here: the history `schOps` and two schedules -/
example : DSL.acyclicAll schRules = true ∧
    (∀ t ∈ schT1, Tok.isCY t = false) ∧ (∀ t ∈ schT2, Tok.isCY t = false) :=
  ⟨by decide,
   EngineImpl_sound_C07_never_falsely schRules_ok (by decide) schOps 3 schOps_sized (by decide) 0 [] [],
   EngineImpl_sound_C07_never_falsely schRules_ok (by decide) schOps 3 schOps_sized (by decide) 0 []
     (List.replicate 40 { keys := [2] })⟩

/-- `3` asks for input `1` and, while its value is odd, for `4`; `4` must follow `3` -/
def latRules : List RuleSpec :=
  [{ key := 1 }, { key := 3, kind := 1, statics := [⟨1, 7, 0⟩], whens := [(⟨1, 7, 2, 1⟩, [⟨4, 8, 0⟩])] },
   { key := 4, kind := 1, statics := [⟨3, 7, 2⟩] }]

set_option maxRecDepth 16000 in
/-- **the latent cycle** (`vlib/engine.py: gen_latent_cycle`): with input `1` even, building `4` succeeds and RECORDS the edge
`4 → 3`; then `1` becomes odd and `3` is built: `3` runs and asks for `4`, whose scan (`S 4 0`, no `T 4`) is parked on the
recorded dependency `3`: the cycle `3 → 4 → 3` closes through a recorded edge and is reported -/
example :
    NoFail (runBuildA 4 0 [] [] (runOpsC [.mutate 1 4] (opProgram latRules {}))).trace.reverse ∧
    (runBuildA 3 0 [] [] (runOpsC [.mutate 1 4, .build 4 0 [] [], .mutate 1 5] (opProgram latRules {}))).trace.reverse.filterMap
      Tok.cyKeys = [[3, 4, 3]] ∧
    (runBuildA 3 0 [] [] (runOpsC [.mutate 1 4, .build 4 0 [] [], .mutate 1 5] (opProgram latRules {}))).trace.reverse.filterMap
      Tok.tKey = [1, 3] := by
  decide

/-
#print axioms EngineImpl_sound_C03_restart_snapshot        -- [propext, Classical.choice, Quot.sound]
#print axioms EngineImpl_sound_C03_restart_reference       -- [propext, Classical.choice, Quot.sound]
#print axioms EngineImpl_sound_C03_restart_transparent     -- [propext, Classical.choice, Quot.sound]
#print axioms EngineImpl_sound_C03_restart_split_value     -- [propext, Classical.choice, Quot.sound]
#print axioms EngineImpl_sound_C07_reported_cycle_real     -- [propext, Classical.choice, Quot.sound]
#print axioms EngineImpl_sound_C07_empty_report            -- [propext, Classical.choice, Quot.sound]
#print axioms EngineImpl_sound_C07_never_falsely           -- [propext, Classical.choice, Quot.sound]
#print axioms EngineImpl_sound_C07_cycle_always_detected   -- [propext, Classical.choice, Quot.sound]
#print axioms EngineImpl_sound_C07_value_cycle             -- [propext, Classical.choice, Quot.sound]
-/
end LLBuild.Refine
