/-
C17 / C19 — the Ninja PARSER (lib/Ninja/Parser.cpp), the middle between the lexer (Props/C17Lex.lean,
Props/C19Ninja.lean) and the loader (Props/C17Load.lean).

C19: "For every byte string given as a Ninja manifest [...] loading terminates, reads no memory outside the
supplied buffer, and reports problems only through its error callbacks."
C17: "For any manifest in the Ninja language, the loaded build statements - outputs, explicit, implicit and
order-only inputs [...] - equal those given by Ninja's evaluation rules [...] keywords recognised only as whole
words [...]"  — here: what the parser hands to the loader for a well-formed statement, and where keywords count.

Property theorems only.  Model: LLBuild/Model/NinjaParser.lean (hand transliteration of `ParserImpl`, a state
machine over (lexer cursor, lexer mode, look-ahead token) that calls the lexer model's `lex` in the mode the
C++ has set at that point; callbacks and errors are recorded in order; every loop is fuelled).  It is tied to
the code by verbatim correspondence of the full callback trace (vlib/props/c17load.py, stream `parser`).
All theorems are about `genCfg`, the lexer configuration extracted from the tree on every run.
-/
import LLBuild.Props.C17Lex
import LLBuild.Props.C17Load
import LLBuild.Lemmas.NinjaParser
import LLBuild.Lemmas.NinjaPrint

namespace LLBuild.NinjaParser
open LLBuild.NinjaLexer
open LLBuild.Generated.NinjaLexer (Kind)

/-! ## C19: the parser is total, stays inside the buffer, and makes progress -/

/-- **Totality, all byte strings.**  `Parser::parse()` returns: no loop of the parser (and no loop of the lexer
under it) exhausts its fuel `size + 2`, no read leaves the buffer (`parseSt` is `.ok`, neither `.fuel` nor
`.oob`).  Every `lexer.lex` call the parser makes — in whatever mode it has set — starts at a cursor inside
`[0, size]`, which is the hypothesis of `C19_ninja_lex_call_total`; the run ends with the cursor at `size`, the
look-ahead `EndOfFile` and the lexer back in mode None.
The top-level loop makes progress: from any state that satisfies the invariant (`Inv`: cursor in bounds,
look-ahead consistent with it) whose look-ahead is not `EndOfFile`, one `parseDecl()` returns, re-establishes
the invariant, makes only in-bounds lexer calls and strictly decreases the measure `mu` = bytes behind the
cursor + (1 unless the look-ahead is EndOfFile).  (Lemmas/NinjaParser.lean has the same statement for each
inner loop: `skipLoop_sat`, `stringsLoop_sat`, `skipIndented_sat`, `bindingsLoop_sat`, `nextNonComment_sat`.) -/
theorem C19_ninja_parser_total (buf : Bytes) :
    (∃ s, parseSt genCfg buf = .ok s ∧ (∀ c ∈ s.calls, c.2 ≤ buf.length) ∧ s.lx.pos = buf.length ∧
        s.tok.kind = .EndOfFile ∧ s.mode = .none) ∧
    (∀ s, Inv buf s → s.mode = .none → s.tok.kind ≠ .EndOfFile →
        ∃ s', parseDecl genCfg buf s = .ok s' ∧ Inv buf s' ∧ mu buf s' < mu buf s ∧ CallsOK buf s s') := by
  constructor
  · obtain ⟨s, hs, h⟩ := Res.sat_elim (parseSt_sat genCfg_ok buf)
    exact ⟨s, hs, h.calls, h.inv.eof h.eof, h.eof, h.mode⟩
  · intro s hi hm hne
    obtain ⟨s', hs', h⟩ := Res.sat_elim (parseDecl_sat genCfg_ok buf s hi hne hm)
    exact ⟨s', hs', h.step.inv, h.strict hne, h.step.calls⟩

/-- corollaries in the vocabulary of the lexer theorems -/
theorem C19_ninja_parser_no_oob (buf : Bytes) (i : Nat) : parse genCfg buf ≠ .oob i := by
  obtain ⟨evs, h⟩ := parse_total genCfg_ok buf
  rw [h]; intro h'; cases h'

theorem C19_ninja_parser_terminates (buf : Bytes) : parse genCfg buf ≠ .fuel := by
  obtain ⟨evs, h⟩ := parse_total genCfg_ok buf
  rw [h]; intro h'; cases h'

/-- **Problems are reported only through callbacks, in a fixed discipline.**  For every byte string the
callbacks of one `parse()` are: `actOnBeginManifest` first, `actOnEndManifest` last, neither anywhere else,
and in between a sequence accepted by the automaton `wb` (Lemmas/NinjaParser.lean): at top level only errors,
bindings, default and include declarations and `Begin{Build,Pool,Rule}Decl`; after a `Begin…Decl` only
errors and binding callbacks OF THE SAME declaration kind until the matching `End…Decl` of that kind; no
declaration is left open. -/
theorem C19_ninja_parser_reports_via_callbacks (buf : Bytes) :
    ∃ evs mid, parse genCfg buf = .ok evs ∧ evs = .beginManifest :: mid ++ [.endManifest] ∧
      wb none mid = some none ∧ Ev.beginManifest ∉ mid ∧ Ev.endManifest ∉ mid := by
  obtain ⟨s, hs, h⟩ := Res.sat_elim (parseSt_sat genCfg_ok buf)
  obtain ⟨mid, hm, hw⟩ := h.evs
  refine ⟨s.evs.reverse, mid, ?_, hm, hw, wb_no_manifest mid none none hw⟩
  unfold parse; rw [hs]; rfl

/-! ## C17: what a well-formed statement hands to the loader -/

/-- **`build` statements.**  Token-level grammar: `bl.WF` (outputs: one or more String tokens; `:`; the rule
name, an Identifier; String tokens; optionally `|` and String tokens; optionally `||` and String tokens; a
Newline) followed by the binding lines `bs` (each `b.WF`: Indentation, Identifier, `=`, String, Newline) and a
token `after` that is not an Indentation.  Hypothesis `hfol` says that the lexer, asked in the modes in
which the parser asks (`BuildLine.script`, `bindsScript`: paths in PathString mode, the rule name and the
binding names in IdentifierSpecific mode, values in VariableString mode), delivers exactly these tokens.
Then `parseDecl` makes exactly the callbacks
  actOnBeginBuildDecl(name, outs, exp ++ imp ++ oo, |exp|, |imp|), actOnBuildBindingDecl(nameᵢ, valueᵢ)…,
  actOnEndBuildDecl(build-keyword token)
— the explicit inputs are the Strings before `|`, the implicit ones those between `|` and `||`, the order-only
ones those after `||`, with the split indices as the C++ computes them — and stops in mode None in front of
`after`. -/
theorem C17_parser_build_shape (buf : Bytes) (s : PSt) (bl : BuildLine) (bs : List BindingLine) (after : Token) (σ' : St)
    (hk : s.tok.kind = .KWBuild) (hpos : s.lx.pos ≤ buf.length) (hwf : bl.WF = true) (hbs : ∀ b ∈ bs, b.WF = true)
    (ha : after.kind ≠ .Indentation) (hac : after.kind ≠ .Comment)
    (hfol : Follows genCfg buf s.lx (bl.script (headTok bs after) ++ bindsScript bs after) σ') :
    ∃ s', parseDecl genCfg buf s = .ok s' ∧
      s'.evs = .endDecl .build s.tok :: ((bs.map fun b => Ev.declBinding .build b.name b.value).reverse ++
        .beginBuild bl.name bl.outs (bl.exp ++ optList bl.pipe ++ optList bl.pipepipe) bl.exp.length (optList bl.pipe).length ::
          s.evs) ∧
      s'.tok = after ∧ s'.lx = σ' ∧ s'.mode = .none := by
  have ok := genCfg_ok
  have hnext : (headTok bs after).kind ≠ .Comment := by
    cases bs with
    | nil => exact hac
    | cons c _ =>
      have hc := hbs c (by simp)
      simp only [BindingLine.WF, Bool.and_eq_true, decide_eq_true_eq] at hc
      show c.indent.kind ≠ _
      rw [hc.1.1.1.1]; decide
  obtain ⟨σm, hf1, hf2⟩ := (follows_append genCfg buf _ _ _ _).1 hfol
  obtain ⟨s1, hc1, ht1, hl1, hm1, he1⟩ := parseBuildSpecifier_run ok buf bl (headTok bs after) s σm hwf hnext hpos hf1
  have hb := follows_bounds ok _ s.lx σm hpos hf1
  have hlen := bindsScript_len ok buf bs after σm σ' hb.2 hbs hf2
  obtain ⟨s2, hc2, ht2, hl2, hm2, he2⟩ := bindingsLoop_run buf .build after σ' ha hac bs (fuel buf) s1 hbs
    (by unfold fuel; omega) ht1 hm1 (by rw [hl1]; exact hf2)
  refine ⟨s2.emit (.endDecl .build s.tok), ?_, ?_, ht2, hl2, hm2⟩
  · have hdk : declKindOf Kind.KWBuild = .build := rfl
    simp only [parseDecl, hk, parseParameterizedDecl, hdk, hc1, Res.ok_bind, if_true, hc2, Res.pure_eq_ok]
  · show _ :: s2.evs = _
    rw [he2, he1]; rfl

/-- **`rule` statements**: `rule NAME` newline and indented bindings give
actOnBeginRuleDecl(NAME), actOnRuleBindingDecl…, actOnEndRuleDecl(rule-keyword token).  The name is lexed in
IdentifierSpecific mode (so `rule build` declares a rule called `build`). -/
theorem C17_parser_rule_shape (buf : Bytes) (s : PSt) (name nl : Token) (bs : List BindingLine) (after : Token) (σ' : St)
    (hk : s.tok.kind = .KWRule) (hpos : s.lx.pos ≤ buf.length) (hname : name.kind = .Identifier) (hnl : nl.kind = .Newline)
    (hbs : ∀ b ∈ bs, b.WF = true) (ha : after.kind ≠ .Indentation) (hac : after.kind ≠ .Comment)
    (hfol : Follows genCfg buf s.lx ([(.identifierSpecific, name), (.none, nl), (.none, headTok bs after)] ++ bindsScript bs after) σ') :
    ∃ s', parseDecl genCfg buf s = .ok s' ∧
      s'.evs = .endDecl .rule s.tok :: ((bs.map fun b => Ev.declBinding .rule b.name b.value).reverse ++ .beginRule name :: s.evs) ∧
      s'.tok = after ∧ s'.lx = σ' ∧ s'.mode = .none := by
  have ok := genCfg_ok
  have hnext : (headTok bs after).kind ≠ .Comment := by
    cases bs with
    | nil => exact hac
    | cons c _ =>
      have hc := hbs c (by simp)
      simp only [BindingLine.WF, Bool.and_eq_true, decide_eq_true_eq] at hc
      show c.indent.kind ≠ _
      rw [hc.1.1.1.1]; decide
  obtain ⟨σm, hf1, hf2⟩ := (follows_append genCfg buf _ _ _ _).1 hfol
  obtain ⟨s1, hc1, ht1, hl1, hm1, he1⟩ := parseNameSpecifier_run genCfg buf .expectedRuleName .beginRule s name nl
    (headTok bs after) σm hname hnl hnext hf1
  have hb := follows_bounds ok _ s.lx σm hpos hf1
  have hlen := bindsScript_len ok buf bs after σm σ' hb.2 hbs hf2
  obtain ⟨s2, hc2, ht2, hl2, hm2, he2⟩ := bindingsLoop_run buf .rule after σ' ha hac bs (fuel buf) s1 hbs
    (by unfold fuel; omega) ht1 hm1 (by rw [hl1]; exact hf2)
  refine ⟨s2.emit (.endDecl .rule s.tok), ?_, ?_, ht2, hl2, hm2⟩
  · have hdk : declKindOf Kind.KWRule = .rule := rfl
    simp only [parseDecl, hk, parseParameterizedDecl, hdk, parseRuleSpecifier, hc1, Res.ok_bind, if_true, hc2, Res.pure_eq_ok]
  · show _ :: s2.evs = _
    rw [he2, he1]

/-- **`pool` statements**, likewise. -/
theorem C17_parser_pool_shape (buf : Bytes) (s : PSt) (name nl : Token) (bs : List BindingLine) (after : Token) (σ' : St)
    (hk : s.tok.kind = .KWPool) (hpos : s.lx.pos ≤ buf.length) (hname : name.kind = .Identifier) (hnl : nl.kind = .Newline)
    (hbs : ∀ b ∈ bs, b.WF = true) (ha : after.kind ≠ .Indentation) (hac : after.kind ≠ .Comment)
    (hfol : Follows genCfg buf s.lx ([(.identifierSpecific, name), (.none, nl), (.none, headTok bs after)] ++ bindsScript bs after) σ') :
    ∃ s', parseDecl genCfg buf s = .ok s' ∧
      s'.evs = .endDecl .pool s.tok :: ((bs.map fun b => Ev.declBinding .pool b.name b.value).reverse ++ .beginPool name :: s.evs) ∧
      s'.tok = after ∧ s'.lx = σ' ∧ s'.mode = .none := by
  have ok := genCfg_ok
  have hnext : (headTok bs after).kind ≠ .Comment := by
    cases bs with
    | nil => exact hac
    | cons c _ =>
      have hc := hbs c (by simp)
      simp only [BindingLine.WF, Bool.and_eq_true, decide_eq_true_eq] at hc
      show c.indent.kind ≠ _
      rw [hc.1.1.1.1]; decide
  obtain ⟨σm, hf1, hf2⟩ := (follows_append genCfg buf _ _ _ _).1 hfol
  obtain ⟨s1, hc1, ht1, hl1, hm1, he1⟩ := parseNameSpecifier_run genCfg buf .expectedPoolName .beginPool s name nl
    (headTok bs after) σm hname hnl hnext hf1
  have hb := follows_bounds ok _ s.lx σm hpos hf1
  have hlen := bindsScript_len ok buf bs after σm σ' hb.2 hbs hf2
  obtain ⟨s2, hc2, ht2, hl2, hm2, he2⟩ := bindingsLoop_run buf .pool after σ' ha hac bs (fuel buf) s1 hbs
    (by unfold fuel; omega) ht1 hm1 (by rw [hl1]; exact hf2)
  refine ⟨s2.emit (.endDecl .pool s.tok), ?_, ?_, ht2, hl2, hm2⟩
  · have hdk : declKindOf Kind.KWPool = .pool := rfl
    simp only [parseDecl, hk, parseParameterizedDecl, hdk, parsePoolSpecifier, hc1, Res.ok_bind, if_true, hc2, Res.pure_eq_ok]
  · show _ :: s2.evs = _
    rw [he2, he1]

/-- **Top-level `name = value`.**  With the look-ahead on the Identifier `name` (lexer in mode None): if the lexer
delivers `=`, then — asked in VariableString mode — the String token `v`, then a Newline, the parser calls
actOnBindingDecl(name, v) and nothing else.  `v` is the whole rest of the line: it ends at the end of the buffer
or in front of a CR / LF byte (`C17_string_token_stops`; `$`-escaped newlines do not end it). -/
theorem C17_parser_binding_shape (buf : Bytes) (s : PSt) (eq v nl next : Token) (σ' : St)
    (hk : s.tok.kind = .Identifier) (hm : s.mode = .none) (hpos : s.lx.pos ≤ buf.length)
    (heq : eq.kind = .Equals) (hv : v.kind = .String) (hnl : nl.kind = .Newline) (hnc : next.kind ≠ .Comment)
    (hfol : Follows genCfg buf s.lx [(.none, eq), (.variableString, v), (.none, nl), (.none, next)] σ') :
    (∃ s', parseDecl genCfg buf s = .ok s' ∧ s'.evs = .binding s.tok v :: s.evs ∧ s'.tok = next ∧ s'.lx = σ' ∧ s'.mode = .none) ∧
    (v.start + v.len = buf.length ∨ ∃ b : UInt8, buf[v.start + v.len]? = some b ∧ (b.toNat = 10 ∨ b.toNat = 13)) := by
  constructor
  · obtain ⟨s1, hc1, ht1, hl1, hm1, he1⟩ := parseBindingInternal_run genCfg buf s eq v nl next σ' hk heq hv hnl hnc
      (by rw [hm]; exact hfol)
    refine ⟨s1.emit (.binding s.tok v), ?_, by show _ :: s1.evs = _; rw [he1], ht1, hl1, hm1⟩
    simp only [parseDecl, hk, parseBindingDecl, hc1, Res.ok_bind, Res.pure_eq_ok]
  · obtain ⟨σ1, h1, σ2, h2, _⟩ := hfol
    have hb := follows_bounds genCfg_ok [(.none, eq)] s.lx σ1 hpos ⟨σ1, h1, rfl⟩
    have := C17_string_token_stops buf .variableString σ1 σ2 v hb.2 h2 hv
    simpa using this

/-- `name =` newline: the empty binding is reported with a String token of length 0 placed at the newline. -/
theorem C17_parser_binding_shape_empty (buf : Bytes) (s : PSt) (eq nl next : Token) (σ' : St)
    (hk : s.tok.kind = .Identifier) (hm : s.mode = .none)
    (heq : eq.kind = .Equals) (hnl : nl.kind = .Newline) (hnc : next.kind ≠ .Comment)
    (hfol : Follows genCfg buf s.lx [(.none, eq), (.variableString, nl), (.none, next)] σ') :
    ∃ s', parseDecl genCfg buf s = .ok s' ∧ s'.evs = .binding s.tok { nl with kind := .String, len := 0 } :: s.evs ∧
      s'.tok = next ∧ s'.lx = σ' ∧ s'.mode = .none := by
  obtain ⟨s1, hc1, ht1, hl1, hm1, he1⟩ := parseBindingInternal_run_empty genCfg buf s eq nl next σ' hk heq hnl hnc
    (by rw [hm]; exact hfol)
  refine ⟨s1.emit (.binding s.tok { nl with kind := .String, len := 0 }), ?_, by show _ :: s1.evs = _; rw [he1], ht1, hl1, hm1⟩
  simp only [parseDecl, hk, parseBindingDecl, hc1, Res.ok_bind, Res.pure_eq_ok]

/-- **`include` / `subninja`**: one path (lexed in PathString mode) and a newline give
actOnIncludeDecl(isInclude, path) with `isInclude` true exactly for the `include` keyword. -/
theorem C17_parser_include_shape (buf : Bytes) (s : PSt) (path nl next : Token) (σ' : St)
    (hk : s.tok.kind = .KWInclude ∨ s.tok.kind = .KWSubninja)
    (hp : path.kind = .String) (hnl : nl.kind = .Newline) (hnc : next.kind ≠ .Comment)
    (hfol : Follows genCfg buf s.lx [(.pathString, path), (.none, nl), (.none, next)] σ') :
    ∃ s', parseDecl genCfg buf s = .ok s' ∧ s'.evs = .include (decide (s.tok.kind = .KWInclude)) path :: s.evs ∧
      s'.tok = next ∧ s'.lx = σ' ∧ s'.mode = .none := by
  obtain ⟨s1, hc1, ht1, hm1, he1, hf1⟩ := consume_follows genCfg buf (s.setMode .pathString) path _ σ' hfol (by rw [hp]; decide)
  obtain ⟨s2, hc2, ht2, hm2, he2, hf2⟩ := consume_follows genCfg buf (s1.setMode .none) nl _ σ' hf1 (by rw [hnl]; decide)
  have hm2' : s2.mode = .none := hm2
  obtain ⟨s3, hc3, ht3, hm3, he3, hf3⟩ := consume_follows genCfg buf s2 next _ σ' (by rw [hm2']; exact hf2) hnc
  refine ⟨s3.emit (.include (decide (s.tok.kind = .KWInclude)) path), ?_, ?_, ht3, (show σ' = s3.lx from hf3).symm, hm3.trans hm2'⟩
  · have hdecl : parseDecl genCfg buf s = parseIncludeDecl genCfg buf s := by
      rcases hk with h | h <;> simp only [parseDecl, h]
    rw [hdecl]
    unfold parseIncludeDecl
    simp only []
    rw [hc1]
    simp only [Res.ok_bind]
    have hk1 : (s1.setMode .none).tok.kind = .String := by show s1.tok.kind = _; rw [ht1, hp]
    rw [if_neg (by simp [hk1]), hc2]
    simp only [Res.ok_bind]
    rw [if_pos (by rw [ht2, hnl]), hc3]
    simp only [Res.ok_bind, Res.pure_eq_ok]
    show Res.ok (s3.emit (.include _ s1.tok)) = _
    rw [ht1]
  · show _ :: s3.evs = _
    rw [he3, he2]; show _ :: s1.evs = _; rw [he1]; rfl

/-- **`default`**: one or more paths (PathString mode) and a newline give actOnDefaultDecl(paths). -/
theorem C17_parser_default_shape (buf : Bytes) (s : PSt) (names : List Token) (nl next : Token) (σ' : St)
    (hk : s.tok.kind = .KWDefault) (hpos : s.lx.pos ≤ buf.length) (hne : names ≠ []) (hnames : ∀ t ∈ names, t.kind = .String)
    (hnl : nl.kind = .Newline) (hnc : next.kind ≠ .Comment)
    (hfol : Follows genCfg buf s.lx ((names ++ [nl]).map (fun t => (LexMode.pathString, t)) ++ [(.none, next)]) σ') :
    ∃ s', parseDecl genCfg buf s = .ok s' ∧ s'.evs = .default names :: s.evs ∧ s'.tok = next ∧ s'.lx = σ' ∧ s'.mode = .none := by
  obtain ⟨n0, ns, hn⟩ : ∃ n0 ns, names = n0 :: ns := by
    cases names with
    | nil => exact absurd rfl hne
    | cons a b => exact ⟨a, b, rfl⟩
  have hlen : names.length < fuel buf := by
    obtain ⟨σm, hpre, _⟩ := (follows_append genCfg buf _ _ _ _).1 hfol
    have := follows_len genCfg_ok _ s.lx σm hpos hpre (by
      intro p hp
      simp only [List.map_append, List.map_cons, List.map_nil, List.mem_append, List.mem_map, List.mem_cons,
        List.not_mem_nil, or_false] at hp
      rcases hp with ⟨t, ht, rfl⟩ | rfl
      · show t.kind ≠ _; rw [hnames t ht]; decide
      · show nl.kind ≠ _; rw [hnl]; decide)
    simp only [List.length_append, List.length_map, List.length_cons, List.length_nil] at this
    unfold fuel; omega
  rw [hn] at hfol
  simp only [List.cons_append, List.map_cons] at hfol
  obtain ⟨s1, hc1, ht1, hm1, he1, hf1⟩ := consume_follows genCfg buf (s.setMode .pathString) n0 _ σ' hfol
    (by rw [hnames n0 (by rw [hn]; simp)]; decide)
  have hm1' : s1.mode = .pathString := hm1
  obtain ⟨s2, hc2, ht2, hm2, he2, hf2⟩ := stringsLoop_run genCfg buf nl [] [(.none, next)] σ' (by rw [hnl]; decide) (by rw [hnl]; decide)
    names (fuel buf) s1 [] (ns ++ [nl]) hnames hlen (by rw [ht1, hn]; simp) (by rw [hm1']; exact hf1)
  simp only [List.map_nil, List.nil_append] at hf2 hc2
  obtain ⟨s3, hc3, ht3, hm3, he3, hf3⟩ := consume_follows genCfg buf (s2.setMode .none) next _ σ' hf2 hnc
  refine ⟨s3.emit (.default names), ?_, ?_, ht3, (show σ' = s3.lx from hf3).symm, hm3⟩
  · simp only [parseDecl, hk]
    unfold parseDefaultDecl
    rw [hc1]
    simp only [Res.ok_bind]
    rw [hc2]
    simp only [Res.ok_bind]
    have hem : names.isEmpty = false := by rw [hn]; rfl
    have hk2 : (s2.setMode .none).tok.kind = .Newline := by show s2.tok.kind = _; rw [ht2, hnl]
    rw [hem]
    simp only [Bool.false_eq_true, if_false]
    rw [if_pos hk2, hc3]
    rfl
  · show _ :: s3.evs = _
    rw [he3]; show _ :: s2.evs = _; rw [he2, he1]; rfl

/-! ## C17: where keywords count -/

/-- **What the C++ really does about keywords.**  Keyword recognition is the lexer's, and it depends on the mode
the PARSER has set, not on the position in the line:
(1) whenever the lexer is called in a mode other than None — which is how the parser reads paths
(`build`/`default`/`include` arguments: PathString), values (VariableString) and the names after `rule`,
`pool`, `:` and after the indentation of a binding line (IdentifierSpecific) — the token it returns never has a
keyword kind: `build build: rule pool` has the keyword `build` once;
(2) the parser acts on a keyword kind only in `parseDecl`, i.e. at the head of its top-level loop, and every
state in which that loop is entered (`TopReach`) has the lexer in mode None (this is the `assert` in
`ParserImpl::parse()`) and a look-ahead token that is `EndOfFile`, a `Newline`, or sits at column 0: a keyword
token that reaches the dispatch is the first token of its line.
(In mode None a keyword elsewhere on a line, e.g. the second token of `x build`, still gets a keyword kind, but
every such position is one where the parser expects `=`, a Newline or is skipping to the end of the line, so it
is an error token or skipped; it never starts a declaration.) -/
theorem C17_keywords_only_at_statement_start (buf : Bytes) :
    (∀ (m : LexMode) (σ σ1 : St) (t : Token), σ.pos ≤ buf.length → m ≠ .none → lex genCfg buf m σ = .ok (t, σ1) →
        isKeyword t.kind = false) ∧
    (∀ s, TopReach genCfg buf s → s.mode = .none ∧ (isKeyword s.tok.kind = true → s.tok.col = 0)) := by
  constructor
  · intro m σ σ1 t hv hm h
    exact (Res.sat_of_eq (lex_sat2 genCfg_ok buf m σ hv) h).nokw hm
  · intro s h
    obtain ⟨_, hm, hls⟩ := topReach_inv genCfg_ok buf s h
    refine ⟨hm, fun hk => ?_⟩
    rcases hls with h | h | h
    · rw [h] at hk; cases hk
    · rw [h] at hk; cases hk
    · exact h

/-! ## C17: the pure-Lean pipeline bytes → lexer → parser → loader -/

open NinjaLoader in
/-- **Composition with `C17_eval_agrees`.**  For every tree of manifest files given as BYTES (`raw`: absolute path
↦ content; `main`: the content of the main file), every platform parameter `P` and include-depth bound:
lexing + parsing succeeds on every file, `loadBytes` (lexer model → parser model → loader model) is the loader
model run on the parsed declaration streams, and whenever the reference semantics gives the parsed main
stream a meaning `m` — which entails that the parser reported no error on the main file — the pipeline loads
exactly `m` and reports no error. -/
theorem C17_pipeline_agrees (P : Params) (raw : List (Bytes × Bytes)) (depth : Nat) (main : Bytes) :
    ∃ files evs, parseFiles genCfg raw = .ok files ∧ parse genCfg main = .ok evs ∧
      loadBytes genCfg Cfg.fixed P raw depth main = .ok (load Cfg.fixed P files depth (declsOf main evs)) ∧
      ∀ m, Spec.load P files depth (declsOf main evs) = some m →
        (load Cfg.fixed P files depth (declsOf main evs)).manifest = m ∧
        (load Cfg.fixed P files depth (declsOf main evs)).errs = [] ∧
        ∀ msg t, Ev.error msg t ∉ evs := by
  obtain ⟨files, hf⟩ := parseFiles_total genCfg_ok raw
  obtain ⟨evs, he⟩ := parse_total genCfg_ok main
  refine ⟨files, evs, hf, he, by simp [loadBytes, parseDecls, hf, he], ?_⟩
  intro m hm
  have h := C17_eval_agrees P files depth (declsOf main evs) m hm
  refine ⟨h.1, h.2, ?_⟩
  intro msg t hin
  exact spec_no_perr P files depth _ m hm (perr_of_error main evs msg t hin)

/-! ## Non-vacuity -/

/-- `rule r\n  command = c\nbuild a: r b\n` -/
def exManifest : Bytes :=
  [114,117,108,101,32,114,10,32,32,99,111,109,109,97,110,100,32,61,32,99,10,98,117,105,108,100,32,97,58,32,114,32,98,10]

-- the callbacks of a small valid manifest (kernel-evaluated)
example : parse genCfg exManifest = .ok [.beginManifest, .beginRule ⟨.Identifier, 5, 1, 1, 5⟩,
    .declBinding .rule ⟨.Identifier, 9, 7, 2, 2⟩ ⟨.String, 19, 1, 2, 12⟩, .endDecl .rule ⟨.KWRule, 0, 4, 1, 0⟩,
    .beginBuild ⟨.Identifier, 30, 1, 3, 9⟩ [⟨.String, 27, 1, 3, 6⟩] [⟨.String, 32, 1, 3, 11⟩] 1 0,
    .endDecl .build ⟨.KWBuild, 21, 5, 3, 0⟩, .endManifest] := by decide

-- error recovery: `build o r\nfoo\n= 3\n  x\nrule r\n  =\n` (missing colon, missing '=', stray '=', stray indentation,
-- a bad binding inside a rule): five errors, and the rule is still bracketed
example : parse genCfg [98,117,105,108,100,32,111,32,114,10,102,111,111,10,61,32,51,10,32,32,120,10,114,117,108,101,32,114,10,32,32,61,10] =
    .ok [.beginManifest, .error .expectedColon ⟨.Newline, 9, 1, 1, 9⟩, .error .expectedEquals ⟨.Newline, 13, 1, 2, 3⟩,
      .error .unexpectedToken ⟨.Equals, 14, 1, 3, 0⟩, .error .unexpectedToken ⟨.Indentation, 18, 2, 4, 0⟩,
      .beginRule ⟨.Identifier, 27, 1, 5, 5⟩, .error .expectedVariableName ⟨.Equals, 31, 1, 6, 2⟩,
      .endDecl .rule ⟨.KWRule, 22, 4, 5, 0⟩, .endManifest] := by decide

example : wb none [.error .expectedColon ⟨.Newline, 9, 1, 1, 9⟩, .beginRule ⟨.Identifier, 27, 1, 5, 5⟩,
    .error .expectedVariableName ⟨.Equals, 31, 1, 6, 2⟩, .endDecl .rule ⟨.KWRule, 22, 4, 5, 0⟩] = some none := by decide
-- the automaton is not trivial: a binding callback of another kind, or a missing End, is rejected
example : wb none [.beginRule ⟨.Identifier, 5, 1, 1, 5⟩, .declBinding .build ⟨.Identifier, 9, 1, 2, 2⟩ ⟨.String, 13, 1, 2, 6⟩] = none := by decide
example : wb none [.beginRule ⟨.Identifier, 5, 1, 1, 5⟩] = some (some .rule) := by decide

/-- `build a b: cc x | y || z\n  k = v\n` -/
def exBuild : Bytes :=
  [98,117,105,108,100,32,97,32,98,58,32,99,99,32,120,32,124,32,121,32,124,124,32,122,10,32,32,107,32,61,32,118,10]

/-- the state after the `build` keyword was lexed -/
def exBuildSt : PSt := { lx := ⟨5, 1, 5⟩, mode := .none, tok := ⟨.KWBuild, 0, 5, 1, 0⟩, evs := [], calls := [] }

def exBuildLine : BuildLine :=
  { outs := [⟨.String, 6, 1, 1, 6⟩, ⟨.String, 8, 1, 1, 8⟩], colon := ⟨.Colon, 9, 1, 1, 9⟩, name := ⟨.Identifier, 11, 2, 1, 11⟩,
    exp := [⟨.String, 14, 1, 1, 14⟩], pipe := some (⟨.Pipe, 16, 1, 1, 16⟩, [⟨.String, 18, 1, 1, 18⟩]),
    pipepipe := some (⟨.PipePipe, 20, 2, 1, 20⟩, [⟨.String, 23, 1, 1, 23⟩]), nl := ⟨.Newline, 24, 1, 1, 24⟩ }

def exBinding : BindingLine :=
  { indent := ⟨.Indentation, 25, 2, 2, 0⟩, name := ⟨.Identifier, 27, 1, 2, 2⟩, eq := ⟨.Equals, 29, 1, 2, 4⟩,
    value := ⟨.String, 31, 1, 2, 6⟩, nl := ⟨.Newline, 32, 1, 2, 7⟩ }

-- the hypotheses of `C17_parser_build_shape` hold of a concrete `build` statement with all three input classes and a binding
example : ∃ s', parseDecl genCfg exBuild exBuildSt = .ok s' ∧
    s'.evs = [.endDecl .build ⟨.KWBuild, 0, 5, 1, 0⟩, .declBinding .build ⟨.Identifier, 27, 1, 2, 2⟩ ⟨.String, 31, 1, 2, 6⟩,
      .beginBuild ⟨.Identifier, 11, 2, 1, 11⟩ [⟨.String, 6, 1, 1, 6⟩, ⟨.String, 8, 1, 1, 8⟩]
        [⟨.String, 14, 1, 1, 14⟩, ⟨.String, 18, 1, 1, 18⟩, ⟨.String, 23, 1, 1, 23⟩] 1 1] := by
  obtain ⟨s', h1, h2, _⟩ := C17_parser_build_shape exBuild exBuildSt exBuildLine [exBinding] ⟨.EndOfFile, 33, 0, 3, 0⟩ ⟨33, 3, 0⟩
    (by decide) (by decide) (by decide) (by decide) (by decide) (by decide) (follows_of_follow _ _ _ _ _ (by decide))
  exact ⟨s', h1, h2⟩

-- `rule build\n  pool = x\n`: after `rule` (IdentifierSpecific) and after the indentation the words `build`, `pool` are names
example : ∃ s', parseDecl genCfg [114,117,108,101,32,98,117,105,108,100,10,32,32,112,111,111,108,32,61,32,120,10]
      { lx := ⟨4, 1, 4⟩, mode := .none, tok := ⟨.KWRule, 0, 4, 1, 0⟩, evs := [], calls := [] } = .ok s' ∧
    s'.evs = [.endDecl .rule ⟨.KWRule, 0, 4, 1, 0⟩, .declBinding .rule ⟨.Identifier, 13, 4, 2, 2⟩ ⟨.String, 20, 1, 2, 9⟩,
      .beginRule ⟨.Identifier, 5, 5, 1, 5⟩] := by
  obtain ⟨s', h1, h2, _⟩ := C17_parser_rule_shape [114,117,108,101,32,98,117,105,108,100,10,32,32,112,111,111,108,32,61,32,120,10]
    { lx := ⟨4, 1, 4⟩, mode := .none, tok := ⟨.KWRule, 0, 4, 1, 0⟩, evs := [], calls := [] }
    ⟨.Identifier, 5, 5, 1, 5⟩ ⟨.Newline, 10, 1, 1, 10⟩
    [{ indent := ⟨.Indentation, 11, 2, 2, 0⟩, name := ⟨.Identifier, 13, 4, 2, 2⟩, eq := ⟨.Equals, 18, 1, 2, 7⟩,
       value := ⟨.String, 20, 1, 2, 9⟩, nl := ⟨.Newline, 21, 1, 2, 10⟩ }]
    ⟨.EndOfFile, 22, 0, 3, 0⟩ ⟨22, 3, 0⟩ (by decide) (by decide) (by decide) (by decide) (by decide) (by decide) (by decide)
    (follows_of_follow _ _ _ _ _ (by decide))
  exact ⟨s', h1, h2⟩

-- `x = a $\n b\n`: the value runs over the escaped newline up to the real one
example : ∃ s', parseDecl genCfg [120,32,61,32,97,32,36,10,32,98,10]
      { lx := ⟨1, 1, 1⟩, mode := .none, tok := ⟨.Identifier, 0, 1, 1, 0⟩, evs := [], calls := [] } = .ok s' ∧
    s'.evs = [.binding ⟨.Identifier, 0, 1, 1, 0⟩ ⟨.String, 4, 6, 1, 4⟩] := by
  obtain ⟨⟨s', h1, h2, _⟩, _⟩ := C17_parser_binding_shape [120,32,61,32,97,32,36,10,32,98,10]
    { lx := ⟨1, 1, 1⟩, mode := .none, tok := ⟨.Identifier, 0, 1, 1, 0⟩, evs := [], calls := [] }
    ⟨.Equals, 2, 1, 1, 2⟩ ⟨.String, 4, 6, 1, 4⟩ ⟨.Newline, 10, 1, 2, 2⟩ ⟨.EndOfFile, 11, 0, 3, 0⟩ ⟨11, 3, 0⟩
    (by decide) (by decide) (by decide) (by decide) (by decide) (by decide) (by decide) (follows_of_follow _ _ _ _ _ (by decide))
  exact ⟨s', h1, h2⟩

-- `subninja a$ b\n`
example : ∃ s', parseDecl genCfg [115,117,98,110,105,110,106,97,32,97,36,32,98,10]
      { lx := ⟨8, 1, 8⟩, mode := .none, tok := ⟨.KWSubninja, 0, 8, 1, 0⟩, evs := [], calls := [] } = .ok s' ∧
    s'.evs = [.include false ⟨.String, 9, 4, 1, 9⟩] := by
  obtain ⟨s', h1, h2, _⟩ := C17_parser_include_shape [115,117,98,110,105,110,106,97,32,97,36,32,98,10]
    { lx := ⟨8, 1, 8⟩, mode := .none, tok := ⟨.KWSubninja, 0, 8, 1, 0⟩, evs := [], calls := [] }
    ⟨.String, 9, 4, 1, 9⟩ ⟨.Newline, 13, 1, 1, 13⟩ ⟨.EndOfFile, 14, 0, 2, 0⟩ ⟨14, 2, 0⟩
    (Or.inr (by decide)) (by decide) (by decide) (by decide) (follows_of_follow _ _ _ _ _ (by decide))
  exact ⟨s', h1, h2⟩

-- `default a b\n`
example : ∃ s', parseDecl genCfg [100,101,102,97,117,108,116,32,97,32,98,10]
      { lx := ⟨7, 1, 7⟩, mode := .none, tok := ⟨.KWDefault, 0, 7, 1, 0⟩, evs := [], calls := [] } = .ok s' ∧
    s'.evs = [.default [⟨.String, 8, 1, 1, 8⟩, ⟨.String, 10, 1, 1, 10⟩]] := by
  obtain ⟨s', h1, h2, _⟩ := C17_parser_default_shape [100,101,102,97,117,108,116,32,97,32,98,10]
    { lx := ⟨7, 1, 7⟩, mode := .none, tok := ⟨.KWDefault, 0, 7, 1, 0⟩, evs := [], calls := [] }
    [⟨.String, 8, 1, 1, 8⟩, ⟨.String, 10, 1, 1, 10⟩] ⟨.Newline, 11, 1, 1, 11⟩ ⟨.EndOfFile, 12, 0, 2, 0⟩ ⟨12, 2, 0⟩
    (by decide) (by decide) (by decide) (by decide) (by decide) (by decide) (follows_of_follow _ _ _ _ _ (by decide))
  exact ⟨s', h1, h2⟩

-- keywords: `x build\n` — in mode None the second token IS lexed as KWBuild, and it is the token of the error, not a declaration
example : parse genCfg [120,32,98,117,105,108,100,10] =
    .ok [.beginManifest, .error .expectedEquals ⟨.KWBuild, 2, 5, 1, 2⟩, .endManifest] := by decide
-- `build build: build build\n` — one keyword, three ordinary words
example : parse genCfg [98,117,105,108,100,32,98,117,105,108,100,58,32,98,117,105,108,100,32,98,117,105,108,100,10] =
    .ok [.beginManifest, .beginBuild ⟨.Identifier, 13, 5, 1, 13⟩ [⟨.String, 6, 5, 1, 6⟩] [⟨.String, 19, 5, 1, 19⟩] 1 0,
      .endDecl .build ⟨.KWBuild, 0, 5, 1, 0⟩, .endManifest] := by decide
-- the initial state of the top-level loop is reachable and has the stated shape
example : TopReach genCfg exManifest
    { lx := ⟨4, 1, 4⟩, mode := .none, tok := ⟨.KWRule, 0, 4, 1, 0⟩, evs := [.beginManifest], calls := [(.none, 0)] } :=
  TopReach.init (s0 := { lx := ⟨4, 1, 4⟩, mode := .none, tok := ⟨.KWRule, 0, 4, 1, 0⟩, evs := [], calls := [(.none, 0)] }) (by decide)

end LLBuild.NinjaParser

/-! ## C17 at byte level: the printer and the print / parse round trip

`Model/NinjaPrint.lean` writes a declaration list as canonical Ninja text (`render`).  The theorems below close the
gap left by the shape theorems above (which assume what the lexer delivers): for every `Printable` list the BYTES
`render ds` go through the lexer model and the parser model back to exactly `ds`, without an error callback. -/

namespace LLBuild.NinjaPrint
open LLBuild.NinjaLexer LLBuild.NinjaParser
open LLBuild.Generated.NinjaLexer (Kind)
open LLBuild.NinjaLoader (Decl Binding)

/-- **Stage (a): one token.**  `it` describes one lexer call of the parser: the mode it has set, whether a blank
precedes the token, and the token's bytes — a word (identifier characters), a path body (`pathOK`: every `$`
followed by a byte other than CR / LF, no white space, `:` or `|` otherwise; `#`, `=`, NUL and 0x80–0xFF are
ordinary), a value body (`varOK`, no leading blank), `:`, `|`, `||`, `=`, newline, the two-blank indentation, or
the end of the buffer.  If these bytes stand at the cursor `σ` (`buf.drop σ.pos = it.bytes ++ more`, any `buf`) and
the context is right (`ItemOK`: the right mode, a blank in front only inside a line, the next byte delimits the
token: not an identifier character after a word, white space / `:` / `|` after a path, `\n` after a value, not
`|` after `|`, not `\r` after `\n`), then `lex` returns exactly the token covering the piece — kind, offset,
length, line, column — and the cursor behind it.  A word gets kind Identifier in IdentifierSpecific mode and the
kind of the keyword table in mode None (`wordKind`). -/
theorem C17_lex_printed_token (buf : Bytes) (σ : St) (it : Item) (more : Bytes) (hok : ItemOK σ it more.head?)
    (hdrop : buf.drop σ.pos = it.bytes ++ more) (hle : σ.pos ≤ buf.length) :
    lex genCfg buf it.mode σ = .ok (it.tok σ, it.next σ) :=
  lex_item hok hdrop hle

/-- the same for a whole line: the lexer follows the token script of a list of items (`Follows`, the hypothesis of
the shape theorems), and the token texts are the items' bytes -/
theorem C17_lex_printed_line (buf : Bytes) (σ : St) (its : List Item) (rest : Bytes) (hok : ItemsOK σ its rest)
    (hdrop : buf.drop σ.pos = layoutBytes its ++ rest) (hle : σ.pos ≤ buf.length) :
    Follows genCfg buf σ (script σ its) (endSt σ its) ∧
      (toks σ its).map (tokText buf) = its.map (fun it => it.piece.bytes) :=
  ⟨(layout_follows its σ rest hok hdrop hle).1, tokText_items its σ rest hdrop hle⟩

/-- a literal path, escaped (`$` in front of `$`, blank and `:`), is a path body, and the loader's `evalString`
turns it back into the path (no variable is looked up, no error) -/
theorem C17_escPath_roundtrip (p : Bytes) (lk : Bytes → NinjaLoader.Out) :
    (literalPathOK p = true → pathTextOK (escPath p) = true) ∧ NinjaLoader.evalString lk (escPath p) = (p, []) := by
  constructor
  · intro h
    simp only [literalPathOK, Bool.and_eq_true, Bool.not_eq_true', List.isEmpty_eq_false_iff, List.all_eq_true,
      decide_eq_true_eq, decide_eq_false_iff_not] at h
    obtain ⟨hne, hall⟩ := h
    have hbody : ∀ q : Bytes, (∀ b ∈ q, b.toNat ≠ 124 ∧ ¬ (9 ≤ b.toNat ∧ b.toNat ≤ 13)) → pathOK (escPath q) = true := by
      intro q
      induction q with
      | nil => intro _; rfl
      | cons b t ih =>
        intro hq
        have hb := hq b List.mem_cons_self
        have ht := ih (fun x hx => hq x (List.mem_cons_of_mem _ hx))
        simp only [escPath, List.flatMap_cons] at ht ⊢
        by_cases hs : b.toNat = 36 ∨ b.toNat = 32 ∨ b.toNat = 58
        · rw [if_pos hs]
          show pathOK (36 :: b :: _) = true
          rw [pathOK_cons]
          simp only [show (36 : UInt8).toNat = 36 from rfl, if_true, Bool.and_eq_true, decide_eq_true_eq]
          exact ⟨⟨by omega, by omega⟩, ht⟩
        · rw [if_neg hs]
          show pathOK (b :: _) = true
          rw [pathOK_cons, if_neg (by omega)]
          simp only [Bool.and_eq_true, Bool.not_eq_true', isStopPath, decide_eq_false_iff_not]
          exact ⟨by omega, ht⟩
    simp only [pathTextOK, Bool.and_eq_true, Bool.not_eq_true', List.isEmpty_eq_false_iff]
    refine ⟨?_, hbody p hall⟩
    cases p with
    | nil => exact absurd rfl hne
    | cons b t =>
      simp only [escPath, List.flatMap_cons]
      split <;> simp
  · induction p with
    | nil => simp [escPath, NinjaLoader.evalString, NinjaLoader.evalGo]
    | cons b t ih =>
      simp only [escPath, List.flatMap_cons] at ih ⊢
      by_cases hs : b.toNat = 36 ∨ b.toNat = 32 ∨ b.toNat = 58
      · rw [if_pos hs]
        have hb : b = 36 ∨ b = 32 ∨ b = 58 := by
          rcases hs with h | h | h
          · exact Or.inl (u8_eq_of_toNat (n := 36) (by simpa using h))
          · exact Or.inr (Or.inl (u8_eq_of_toNat (n := 32) (by simpa using h)))
          · exact Or.inr (Or.inr (u8_eq_of_toNat (n := 58) (by simpa using h)))
        show NinjaLoader.evalString lk (36 :: b :: _) = _
        rw [NinjaLoader.C17_escape_char lk b hb]
        show NinjaLoader.Out.emit ([b], []) (NinjaLoader.evalString lk (List.flatMap _ t)) = _
        rw [ih]
        rfl
      · rw [if_neg hs]
        have hb : b ≠ 36 := by intro h; subst h; simp at hs
        show NinjaLoader.evalString lk (b :: _) = _
        rw [NinjaLoader.C17_literal lk b hb]
        show NinjaLoader.Out.emit ([b], []) (NinjaLoader.evalString lk (List.flatMap _ t)) = _
        rw [ih]
        rfl

/-- **Stage (b): one statement.**  At the start of a printed declaration `d` (the parser is in mode None with the first
word of `render (d :: ds)` as look-ahead: `Ctx`), `parseDecl` returns, stands in the same way in front of `render ds`,
reports no error, and the loader-side reading of its callbacks (`declStep`: token texts = the printed substrings,
rule / build / pool closed at their `End…Decl`) adds exactly `d`. -/
theorem C17_print_parse_statement (buf : Bytes) (d : Decl) (ds : List Decl) (s : PSt) (σ0 : St) (hd : declOK d = true)
    (hds : Printable ds = true) (c : Ctx buf s σ0 (d :: ds)) :
    ∃ s' σ1 new, parseDecl genCfg buf s = .ok s' ∧ Ctx buf s' σ1 ds ∧ s'.evs = new ++ s.evs ∧ (∀ m t, Ev.error m t ∉ new) ∧
      ∀ A : List Decl, new.reverse.foldl (declStep buf) ⟨A, none⟩ = ⟨d :: A, none⟩ :=
  printed_decl d ds s σ0 hd hds c

/-- **Stage (c): the byte-level round trip, all printable declaration lists.**  `Printable ds` (decidable): every
top-level binding name is a non-empty identifier that is not a keyword literal (a keyword at the start of a line
starts a declaration), every other name (rule, pool, the rule of a build statement, indented binding names —
keywords allowed there) a non-empty identifier; every path non-empty with `pathOK`; every value non-empty, without
leading blank, with `varOK`; build statements have at least one output and split indices within their inputs;
`default` has at least one target.  Then lexing and parsing the bytes `render ds` (lexer modes, keyword recognition,
`$`-escapes, high bytes and all) yields callbacks whose declaration stream is exactly `ds` — the token payloads are
the printed substrings — and no error callback. -/
theorem C17_print_parse_roundtrip (ds : List Decl) (h : Printable ds = true) :
    ∃ evs, parse genCfg (render ds) = .ok evs ∧ declsOf (render ds) evs = ds ∧ ∀ m t, Ev.error m t ∉ evs :=
  parse_printed ds h

open NinjaLoader in
/-- **Stage (d): printed text means what the reference semantics says.**  For a tree of printable declaration
lists `fs` (absolute path ↦ declarations) and a printable main list `ds`: running the pure-Lean pipeline lexer →
parser → loader on the RENDERED BYTES is running the loader on the lists themselves, and wherever the reference
semantics (Model/NinjaSpec.lean) gives them a meaning `m`, the loaded manifest is `m` and no error is reported. -/
theorem C17_manifest_text_means_spec (P : Params) (fs : List (Bytes × List Decl)) (depth : Nat) (ds : List Decl)
    (hfs : ∀ f ∈ fs, Printable f.2 = true) (h : Printable ds = true) :
    loadBytes genCfg Cfg.fixed P (fs.map fun f => (f.1, render f.2)) depth (render ds) = .ok (load Cfg.fixed P fs depth ds) ∧
    ∀ m, Spec.load P fs depth ds = some m →
      (load Cfg.fixed P fs depth ds).manifest = m ∧ (load Cfg.fixed P fs depth ds).errs = [] := by
  have hfiles : parseFiles genCfg (fs.map fun f => (f.1, render f.2)) = .ok fs := by
    induction fs with
    | nil => rfl
    | cons f r ih =>
      obtain ⟨evs, he, hd, _⟩ := parse_printed f.2 (hfs f List.mem_cons_self)
      have := ih (fun g hg => hfs g (List.mem_cons_of_mem _ hg))
      simp only [List.map_cons, parseFiles, parseDecls, he, Res.ok_bind, Res.pure_eq_ok, hd, this]
  obtain ⟨evs, he, hd, _⟩ := parse_printed ds h
  refine ⟨by simp [loadBytes, parseDecls, hfiles, he, hd], fun m hm => ?_⟩
  exact C17_eval_agrees P fs depth ds m hm

/-! ### non-vacuity -/

/-- rule, build with all three input classes and a binding, top-level binding with escapes and a high byte, default,
include — with names that are keywords where that is allowed -/
def exDecls : List Decl :=
  [.binding ⟨[120], [97, 36, 32, 98, 32, 36, 123, 121, 125, 255]⟩,                      -- x = a$ b ${y}\xff
   .rule [98, 117, 105, 108, 100] [⟨[99, 111, 109, 109, 97, 110, 100], [99, 99, 32, 36, 105, 110]⟩],  -- rule build / command = cc $in
   .build [98, 117, 105, 108, 100] [[111, 36, 32, 49], [111, 50]] [[97], [98, 36, 58, 99], [35, 100]] 1 1
     [⟨[112, 111, 111, 108], [118]⟩],                                                   -- build o$ 1 o2: build a | b$:c || #d / pool = v
   .default [[111, 50]],
   .subninja [115, 46, 110, 105, 110, 106, 97]]

example : Printable exDecls = true := by decide

example : render exDecls =
    [120,32,61,32,97,36,32,98,32,36,123,121,125,255,10,
     114,117,108,101,32,98,117,105,108,100,10,32,32,99,111,109,109,97,110,100,32,61,32,99,99,32,36,105,110,10,
     98,117,105,108,100,32,111,36,32,49,32,111,50,58,32,98,117,105,108,100,32,97,32,124,32,98,36,58,99,32,124,124,32,35,100,10,
     32,32,112,111,111,108,32,61,32,118,10,
     100,101,102,97,117,108,116,32,111,50,10,
     115,117,98,110,105,110,106,97,32,115,46,110,105,110,106,97,10] := by decide

-- a top-level binding called `rule` is not printable (it would start a rule declaration); an indented one is
example : Printable [.binding ⟨[114, 117, 108, 101], [49]⟩] = false := by decide
example : Printable [.pool [112] [⟨[114, 117, 108, 101], [49]⟩]] = true := by decide
-- not printable: a path with a raw blank, a value with a leading blank, an empty value, `$` at the end
example : Printable [.default [[97, 32, 98]]] = false := by decide
example : Printable [.binding ⟨[120], [32, 49]⟩] = false := by decide
example : Printable [.binding ⟨[120], []⟩] = false := by decide
example : Printable [.binding ⟨[120], [97, 36]⟩] = false := by decide

example : escPath [97, 32, 36, 58, 255] = [97, 36, 32, 36, 36, 36, 58, 255] := by decide

end LLBuild.NinjaPrint
