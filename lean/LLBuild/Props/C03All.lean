/-
C03 aggregate: the database layer (Props/C03.lean) and the engine level on the concrete engine model
(Props/EngineImplSched4.lean): what a new engine over the committed store sees, restart transparency of values and
executed sets, and the three machine-checked cases in which a restart IS visible.
-/
import LLBuild.Props.C03
import LLBuild.Props.EngineImplSched4
