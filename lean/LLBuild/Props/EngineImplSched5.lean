/-
C02 ("… the reason the engine reports to its delegate for running a rule is true of the actual history; at most once per build")
and C06 ("every task sees the documented protocol: start, then its prior value if one exists, then each requested input exactly
once, then inputs-available exactly once and only after all requested inputs and all must-follow keys are complete") as
statements about the tokens of ONE printed trace of the transliterated engine, for all histories `List OpC` and all schedules.
Lifts of `C02_reason_true`, `C02_once`, `C02_create_needs_reason`, `C06_start`, `C06_prior`, `C06_provide`, `C06_inputs_available`,
`C01_inputs` through the refinement with the in-order guards (`runBuildA_simX`) and the token ↔ monitor correspondence
`TokInv` / `SeenInv` / `DoneAt` (Lemmas/Refine/Sched7*.lean).  What is not true as first stated: notes/REFINESCHED.md §16.
Every statement is about a split `trace = pre ++ t :: post`: `pre` = the tokens printed EARLIER in the same trace.
-/
import LLBuild.Props.EngineImplSched4
import LLBuild.Lemmas.Refine.Sched7End

set_option linter.unusedVariables false

namespace LLBuild.Refine
open LLBuild.Engine LLBuild.Engine.DSL LLBuild.EngineImpl

/-! ## C02 -/

/-- **what makes a reported reason true**, in terms of the state the build started from (`engineRes s`, `snapC rules s`) and the
tokens `pre` printed before the report:
0. never built — the engine holds no built result for `k` (`builtAt = 0`: never built, or left so by an earlier failed or
   cancelled build: `cancelRemainingTasks` marks the rules in flight never-built in memory);
1. the signature of the held result is not the rule's;
2. `isResultValid` said no: a `V k v false` token precedes, and the held result is not reusable;
3. the held result is reusable (`V k v true` precedes) and `d` is the key of the FIRST recorded (non-single-use) dependency that is
   not fresh: every dependency before it was brought up to date earlier in this trace (`DoneTok`: `S x 1` — then with the
   `computedAt` the engine held — or `DS x row` — then with `row.computedAt`) and is order-only or not newer than `k`'s `builtAt`;
   `d` itself is not order-only, was brought up to date earlier in this trace, and IS newer. -/
def ReasonTrue (rules : List RuleSpec) (s : State) (pre : List Tok) (k : Key) (reason : Nat) (input : Option Key) : Prop :=
  (reason = 0 ∧ input = none ∧ (engineRes s k).builtAt = 0) ∨
  (reason = 1 ∧ input = none ∧ (engineRes s k).builtAt ≠ 0 ∧ (engineRes s k).sig ≠ (snapC rules s).sg k) ∨
  (reason = 2 ∧ input = none ∧ (∃ v, Tok.V k v false ∈ pre) ∧ ¬ (snapC rules s).reusable (program rules) k) ∨
  (reason = 3 ∧ ∃ d, input = some d ∧ (∃ v, Tok.V k v true ∈ pre) ∧ (snapC rules s).reusable (program rules) k ∧
    ∃ (before : List Dep) (dp : Dep) (after : List Dep), (snapC rules s).deps k = before ++ dp :: after ∧ dp.key = d ∧
      dp.orderOnly = false ∧
      (∀ x ∈ before, ∃ c v, DoneTok (snapC rules s) pre x.key c v ∧
        (x.orderOnly = true ∨ ¬ (engineRes s k).builtAt < c)) ∧
      ∃ c v, DoneTok (snapC rules s) pre d c v ∧ (engineRes s k).builtAt < c)

/-- **C02 (the reported reason is true).**  For every `N k reason input` token of a trace: `S k 0` was printed before, and the
reason is true (`ReasonTrue`). -/
theorem EngineImpl_sound_C02_reason_true {rules : List RuleSpec} (hok : RulesOk rules) (ops : List OpC) (key : Nat)
    (hs : histSizedC rules ops (opProgram rules {}))
    (hk : workBound rules (runOpsC ops (opProgram rules {})) key + 2 < scanFuel)
    (c : Nat) (sched : List SchedItem) (a : Async) (pre post : List Tok) (k : Key) (reason : Nat) (input : Option Key) :
    let s := runOpsC ops (opProgram rules {})
    (runBuildA key c sched a s).trace.reverse = pre ++ Tok.N k reason input :: post →
    Tok.S k 0 ∈ pre ∧ ReasonTrue rules s pre k reason input := by
  intro s htr
  obtain ⟨evs0, m0, _, hr0, hrel, _⟩ := refinement_final_crash_committed hok ops hs
  obtain ⟨msp, msq, _, hts, hokx, hmid, hj, _, _, _⟩ := build_mid hok hrel (reach_inv2 hr0) key c sched a hk htr rfl
  have heq := snapEq_of_relIdle hrel
  have hst := tstep_ev_inv hts (e := .needs k reason input) rfl
  have hguard : msp.m.status k = .scanning ∧ needsOk msp.m k reason input = true := by
    simp only [step] at hst
    split at hst
    · rename_i hc; simpa using hc
    · cases hst
  obtain ⟨hsc, hnok⟩ := hguard
  refine ⟨hmid.seen.scanning k hsc, ?_⟩
  have hmem := (hmid.x.key k).scan (Or.inl hsc)
  have hreg := hmid.i2.reg k (by rw [hsc]; exact fun e => by cases e)
  have hb : ((snapOf (program rules) m0).res k).builtAt = (engineRes s k).builtAt := heq.builtAt k
  have hnok' := hnok
  unfold needsOk at hnok
  split at hnok
  · left
    have : (msp.m.mem.res k).builtAt = 0 := by simpa using hnok
    rw [hmem] at this
    exact ⟨rfl, rfl, by rw [← hb]; exact this⟩
  · right; left
    simp only [Bool.and_eq_true, bne_iff_ne, ne_eq] at hnok
    obtain ⟨h1, h2⟩ := hnok
    rw [hmem] at h1 h2
    rw [hmid.x.sg k hreg] at h2
    refine ⟨rfl, rfl, by rw [← hb]; exact h1, ?_⟩
    have hsig : ((snapOf (program rules) m0).res k).sig = (engineRes s k).sig := heq.sig k
    rw [← hsig, ← heq.sg]; exact h2
  · right; right; left
    have hvs : msp.m.validSeen k = some false := by simpa using hnok
    exact ⟨rfl, rfl, hj.tok.validSeen k false hvs,
      fun hre => (hmid.x.key k).validF hsc hvs (heq.symm.reusable hre)⟩
  · rename_i d
    right; right; right
    obtain ⟨hvs, hre, before, dp, after, hsplit, hdk, hoo, hbefore, hdd, hlt⟩ :=
      needs3_cert hmid.x hsc hnok' hokx
    have hre' := heq.reusable hre
    refine ⟨rfl, d, rfl, hj.tok.validSeen k true hvs, hre', before, dp, after, by rw [heq.deps_eq hre]; exact hsplit, hdk, hoo,
      ?_, ?_⟩
    · intro x hx
      obtain ⟨h1, h2⟩ := hbefore x hx
      refine ⟨_, _, (hmid.d x.key h1).congr heq, ?_⟩
      rw [← hb]; exact h2
    · exact ⟨_, _, (hmid.d d hdd).congr heq, by rw [← hb]; exact hlt⟩
  · cases hnok

theorem nodup_of_reverse {α} {l : List α} (h : l.reverse.Nodup) : l.Nodup := by
  unfold List.Nodup at h ⊢
  rw [List.pairwise_reverse] at h
  exact h.imp (fun h e => h e.symm)

/-- **C02 (at most once).**  No key has two `T k` tokens in one trace. -/
theorem EngineImpl_sound_C02_at_most_once {rules : List RuleSpec} (hok : RulesOk rules) (ops : List OpC) (key : Nat)
    (hs : histSizedC rules ops (opProgram rules {}))
    (hk : workBound rules (runOpsC ops (opProgram rules {})) key + 2 < scanFuel)
    (c : Nat) (sched : List SchedItem) (a : Async) :
    ((runBuildA key c sched a (runOpsC ops (opProgram rules {}))).trace.reverse.filterMap Tok.tKey).Nodup := by
  obtain ⟨_, m0, _, _, hrel, _⟩ := refinement_final_crash_committed hok ops hs
  have hloop := workLoopA_final rules hok
  have hnh := build_terminates_async hok hrel key c sched a hk
  obtain ⟨m', hrun, _⟩ := runBuildA_sim hloop hrel key c sched a hnh
  obtain ⟨rest, v, x, htr, hx, hnc⟩ := runBuildA_trace_shape0 hloop hrel key c sched a hnh
  have hL : (Tok.B key :: rest) ++ Tok.DE :: (x ++ [Tok.R v, Tok.Z 0 0]) =
      (Tok.B key :: (rest ++ Tok.DE :: x)) ++ [Tok.R v, Tok.Z 0 0] := by simp
  rw [htr, hL] at hrun ⊢
  obtain ⟨msL, hrunL, _⟩ := trun_prefix hrun
  have hall : ∀ t ∈ rest ++ Tok.DE :: x, Tok.isClose t = false ∨ t = .DE := by
    intro t ht
    rcases List.mem_append.1 ht with e | e
    · exact Or.inl (hnc t (List.mem_cons_of_mem _ e))
    · rcases List.mem_cons.1 e with e | e
      · exact Or.inr e
      · rcases hx with e' | e' <;> rw [e'] at e
        · cases e
        · simp only [List.mem_cons, List.not_mem_nil, or_false] at e; subst e; exact Or.inl rfl
  simp only [trun] at hrunL
  cases hB : tstep (program rules) ⟨m0, none⟩ (.B key) with
  | none => rw [hB] at hrunL; simp at hrunL
  | some ms1 =>
    rw [hB] at hrunL; simp only [Option.bind_some] at hrunL
    obtain ⟨_, ht1, _, _⟩ := tstep_B hB
    have hran1 : ms1.m.ran = [] := by
      have hst := tstep_ev_inv hB (e := .buildStart key) rfl
      simp only [step] at hst
      split at hst
      · cases ms1; simp only [Option.some.injEq] at hst; subst hst; rfl
      · cases hst
    have htg : ms1.m.target.isSome = true := by rw [ht1]; rfl
    have hran := trun_ran _ ms1 msL hrunL hall htg
    have hnd := aux_trun_ran_nodup _ ms1 msL hrunL hall htg (by rw [hran1]; exact List.nodup_nil)
    rw [hran, hran1, List.append_nil] at hnd
    have hnd := nodup_of_reverse hnd
    have : ((Tok.B key :: (rest ++ Tok.DE :: x)) ++ [Tok.R v, Tok.Z 0 0]).filterMap Tok.tKey =
        (rest ++ Tok.DE :: x).filterMap Tok.tKey := by
      simp [List.filterMap_cons, List.filterMap_append, Tok.tKey]
    rw [this]; exact hnd

/-- **C02 (a rule is run only for a reported reason).**  Every `T k` is preceded, in the same trace, by an `N k reason input`. -/
theorem EngineImpl_sound_C02_run_needs_reason {rules : List RuleSpec} (hok : RulesOk rules) (ops : List OpC) (key : Nat)
    (hs : histSizedC rules ops (opProgram rules {}))
    (hk : workBound rules (runOpsC ops (opProgram rules {})) key + 2 < scanFuel)
    (c : Nat) (sched : List SchedItem) (a : Async) (pre post : List Tok) (k : Key) :
    (runBuildA key c sched a (runOpsC ops (opProgram rules {}))).trace.reverse = pre ++ Tok.T k :: post →
    ∃ reason input, Tok.N k reason input ∈ pre := by
  intro htr
  obtain ⟨evs0, m0, _, hr0, hrel, _⟩ := refinement_final_crash_committed hok ops hs
  obtain ⟨msp, msq, _, hts, _, _, hj, _, _, _⟩ := build_mid hok hrel (reach_inv2 hr0) key c sched a hk htr rfl
  have hst := tstep_ev_inv hts (e := .create k) rfl
  have hguard : msp.m.status k = .needsRun := by
    simp only [step] at hst
    split at hst
    · rename_i hc; simp only [Bool.and_eq_true, beq_iff_eq] at hc; exact hc.1
    · cases hst
  exact hj.tok.needsRun k hguard

/-! ## C06: the task protocol -/

/-- the engine offers the prior value: it holds a built result for `k` whose signature is the rule's -/
def PriorDue (rules : List RuleSpec) (s : State) (k : Key) : Prop :=
  (engineRes s k).builtAt ≠ 0 ∧ (engineRes s k).sig = (snapC rules s).sg k

/-- the monitor's `priorDue` of a running rule, in terms of the state the build started from -/
theorem priorDue_iff {rules : List RuleSpec} {s : State} {m0 : Engine.St} (hrel : RelIdle rules s m0) {key : Key}
    {pre : List Tok} {m : Engine.St} (hmid : MidInv (program rules) (snapOf (program rules) m0) key pre m) {k : Key}
    (hrun : m.status k = .running) : priorDue m k = true ↔ PriorDue rules s k := by
  have heq := snapEq_of_relIdle hrel
  obtain ⟨hb, hsg⟩ := hmid.r k hrun
  have hreg := hmid.i2.reg k (by rw [hrun]; exact fun e => by cases e)
  unfold priorDue PriorDue
  rw [hb, hsg, hmid.x.sg k hreg]
  have e1 : ((snapOf (program rules) m0).res k).builtAt = (engineRes s k).builtAt := heq.builtAt k
  have e2 : ((snapOf (program rules) m0).res k).sig = (engineRes s k).sig := heq.sig k
  rw [e1, e2, heq.sg]
  simp

/-- **C06 (start).**  `ST k reqs` is printed only for a task that was created (`T k` earlier), at most once (no earlier `ST k`),
with exactly the task's initial requests. -/
theorem EngineImpl_sound_C06_protocol_start {rules : List RuleSpec} (hok : RulesOk rules) (ops : List OpC) (key : Nat)
    (hs : histSizedC rules ops (opProgram rules {}))
    (hk : workBound rules (runOpsC ops (opProgram rules {})) key + 2 < scanFuel)
    (c : Nat) (sched : List SchedItem) (a : Async) (pre post : List Tok) (k : Key) (reqs : List Req) :
    (runBuildA key c sched a (runOpsC ops (opProgram rules {}))).trace.reverse = pre ++ Tok.ST k reqs :: post →
    Tok.T k ∈ pre ∧ (∀ r', Tok.ST k r' ∉ pre) ∧ reqs = issuedAfter (program rules) k [] := by
  intro htr
  obtain ⟨evs0, m0, _, hr0, hrel, _⟩ := refinement_final_crash_committed hok ops hs
  obtain ⟨msp, msq, _, hts, _, hmid, hj, _, _, _⟩ := build_mid hok hrel (reach_inv2 hr0) key c sched a hk htr rfl
  have hst := tstep_ev_inv hts (e := .start k reqs) rfl
  obtain ⟨h1, h2, h3⟩ := C06_start hst
  refine ⟨hmid.seen.running k (Or.inl h1), ?_, h3⟩
  intro r' hr'
  have := (hj.tok.tST k r' hr').2.1
  rw [h2] at this; cases this

/-- **C06 (prior value).**  `PP k v` is printed after `ST k`, before any `PV k`, at most once, only when the engine holds a built
result with the rule's signature, and `v` is that result's value. -/
theorem EngineImpl_sound_C06_protocol_prior {rules : List RuleSpec} (hok : RulesOk rules) (ops : List OpC) (key : Nat)
    (hs : histSizedC rules ops (opProgram rules {}))
    (hk : workBound rules (runOpsC ops (opProgram rules {})) key + 2 < scanFuel)
    (c : Nat) (sched : List SchedItem) (a : Async) (pre post : List Tok) (k : Key) (v : Val) :
    let s := runOpsC ops (opProgram rules {})
    (runBuildA key c sched a s).trace.reverse = pre ++ Tok.PP k v :: post →
    (∃ reqs, Tok.ST k reqs ∈ pre) ∧ (∀ v', Tok.PP k v' ∉ pre) ∧ (∀ id key' v' r', Tok.PV k id key' v' r' ∉ pre) ∧
      PriorDue rules s k ∧ v = (engineRes s k).value := by
  intro s htr
  obtain ⟨evs0, m0, _, hr0, hrel, _⟩ := refinement_final_crash_committed hok ops hs
  obtain ⟨msp, msq, _, hts, _, hmid, hj, _, _, _⟩ := build_mid hok hrel (reach_inv2 hr0) key c sched a hk htr rfl
  have heq := snapEq_of_relIdle hrel
  have hst := tstep_ev_inv hts (e := .prior k v) rfl
  have hguard : msp.m.status k = .running ∧ (msp.m.task k).started = true ∧ (msp.m.task k).priorSeen = false ∧
      (msp.m.task k).seq = [] ∧ priorDue msp.m k = true ∧ v = (msp.m.mem.res k).value := by
    simp only [step] at hst
    split at hst
    · rename_i hc
      simp only [Bool.and_eq_true, beq_iff_eq, Bool.not_eq_eq_eq_not, Bool.not_true, List.isEmpty_iff] at hc
      exact ⟨hc.1.1.1.1.1, hc.1.1.1.1.2, hc.1.1.1.2, hc.1.1.2, hc.1.2, hc.2⟩
    · cases hst
  obtain ⟨hrun, hstd, hnps, hseq, hpd, hv⟩ := hguard
  refine ⟨hj.tok.started k hstd, ?_, ?_, (priorDue_iff hrel hmid hrun).1 hpd, ?_⟩
  · intro v' h'
    have := (hj.tok.tPP k v' h').2.2
    rw [hnps] at this; cases this
  · intro id key' v' r' h'
    obtain ⟨q, hq, _⟩ := (hj.tok.tPV k id key' v' r' h').2.2.1
    rw [hseq] at hq; cases hq
  · rw [hv, ((hmid.x.key k).pre (Or.inl hrun)).1]
    exact heq.value k

/-- **C06 (each requested input exactly once, with its value).**  `PV k id key' v reqs'` is printed after `ST k`; the prior value
was offered before iff one was due; `(id, key')` is a request of kind value or single-use (not must-follow) that occurs in a
request list the task printed earlier; no `PV k id key' …` was printed before; and `key'` became complete earlier in this trace
with value `v` (`DoneTok`; a single-use request is answered with the real value, the masking is the task's own business). -/
theorem EngineImpl_sound_C06_protocol_provide {rules : List RuleSpec} (hok : RulesOk rules) (ops : List OpC) (key : Nat)
    (hs : histSizedC rules ops (opProgram rules {}))
    (hk : workBound rules (runOpsC ops (opProgram rules {})) key + 2 < scanFuel)
    (c : Nat) (sched : List SchedItem) (a : Async) (pre post : List Tok) (k id key' : Key) (v : Val) (reqs' : List Req) :
    let s := runOpsC ops (opProgram rules {})
    (runBuildA key c sched a s).trace.reverse = pre ++ Tok.PV k id key' v reqs' :: post →
    (∃ reqs, Tok.ST k reqs ∈ pre) ∧ (PriorDue rules s k ↔ ∃ pv, Tok.PP k pv ∈ pre) ∧
      (∃ q : Req, IssuedTok pre k q ∧ q.key = key' ∧ q.id = id ∧ q.kind ≠ 2) ∧
      (∀ v' r', Tok.PV k id key' v' r' ∉ pre) ∧ ∃ cAt, DoneTok (snapC rules s) pre key' cAt v := by
  intro s htr
  obtain ⟨evs0, m0, _, hr0, hrel, _⟩ := refinement_final_crash_committed hok ops hs
  obtain ⟨msp, msq, _, hts, _, hmid, hj, _, _, _⟩ := build_mid hok hrel (reach_inv2 hr0) key c sched a hk htr rfl
  have heq := snapEq_of_relIdle hrel
  have hst := tstep_ev_inv hts (e := .provide k id key' v reqs') rfl
  obtain ⟨hrun, hps, ⟨q, hqi, hqk, hqid, hq2, hnd⟩, hdone, hv⟩ := C06_provide hst
  have hstd : (msp.m.task k).started = true := by
    simp only [step] at hst
    split at hst
    · rename_i hc; simp only [Bool.and_eq_true, beq_iff_eq] at hc; exact hc.1.2
    · cases hst
  have ht := (hmid.x.key k).task (Or.inl ⟨hrun, hstd⟩)
  refine ⟨hj.tok.started k hstd, ?_, ⟨q, hmid.seen.issued k q hqi, hqk, hqid, hq2⟩, ?_, ?_⟩
  · rw [← priorDue_iff hrel hmid hrun]
    constructor
    · intro h; rw [h] at hps; exact hj.tok.priorSeen k hps
    · rintro ⟨pv, h⟩
      have := (hj.tok.tPP k pv h).2.2
      rw [← hps]; exact this
  · intro v' r' h'
    obtain ⟨q', hq', hq'id, hq'k⟩ := (hj.tok.tPV k id key' v' r' h').2.2.1
    -- `q'` was delivered, hence issued; ids are distinct within a rule
    have hq'i : q' ∈ (msp.m.task k).issued := by rw [ht.1]; exact validSeq_issued _ k _ ht.2.1 q' v' hq'
    have hall : ∀ x ∈ (msp.m.task k).issued, x ∈ allReqs (specOf rules k) := by
      intro x hx
      rw [ht.1] at hx
      obtain ⟨r, hr⟩ := issuedAfter_from_next (program rules) k _ x hx
      exact nextReqs_sub_allReqs _ r x hr
    have : q' = q := nodup_ids_inj (hok.nodup k) (hall q' hq'i) (hall q hqi) (by rw [hq'id, hqid])
    subst this
    have : delivered (msp.m.task k).seq q' = true := (delivered_iff _ _).2 ⟨v', hq'⟩
    rw [hnd] at this; cases this
  · have hd := hmid.d key' hdone
    rw [← hv] at hd
    exact ⟨_, hd.congr heq⟩

/-- a key became complete earlier in this trace -/
def CompleteTok (pre : List Tok) (k : Key) : Prop := Tok.S k 1 ∈ pre ∨ ∃ row, Tok.DS k row ∈ pre

/-- **C06 (inputs-available exactly once, only after everything requested).**  `IA k discs` is printed after `ST k`, at most
once; the prior value was offered iff one was due; and EVERY request that occurs in a request list the task printed before
(`ST k …`, `PV k … …`) has been dealt with: a value or single-use request was answered by a `PV k id key' …` printed earlier, the
key of a must-follow request became complete earlier in this trace. -/
theorem EngineImpl_sound_C06_protocol_inputs_available {rules : List RuleSpec} (hok : RulesOk rules) (ops : List OpC) (key : Nat)
    (hs : histSizedC rules ops (opProgram rules {}))
    (hk : workBound rules (runOpsC ops (opProgram rules {})) key + 2 < scanFuel)
    (c : Nat) (sched : List SchedItem) (a : Async) (pre post : List Tok) (k : Key) (discs : List Key) :
    let s := runOpsC ops (opProgram rules {})
    (runBuildA key c sched a s).trace.reverse = pre ++ Tok.IA k discs :: post →
    (∃ reqs, Tok.ST k reqs ∈ pre) ∧ (∀ ds', Tok.IA k ds' ∉ pre) ∧ (PriorDue rules s k ↔ ∃ pv, Tok.PP k pv ∈ pre) ∧
      ∀ q : Req, IssuedTok pre k q →
        (q.kind = 2 → CompleteTok pre q.key) ∧ (q.kind ≠ 2 → ∃ v r', Tok.PV k q.id q.key v r' ∈ pre) := by
  intro s htr
  obtain ⟨evs0, m0, _, hr0, hrel, _⟩ := refinement_final_crash_committed hok ops hs
  obtain ⟨msp, msq, _, hts, _, hmid, hj, _, _, _⟩ := build_mid hok hrel (reach_inv2 hr0) key c sched a hk htr rfl
  have hst := tstep_ev_inv hts (e := .inputsAvail k discs) rfl
  obtain ⟨hrun, _, hall⟩ := C06_inputs_available hst
  have hguard : (msp.m.task k).started = true ∧ (msp.m.task k).priorSeen = priorDue msp.m k := by
    simp only [step] at hst
    split at hst
    · rename_i hc; simp only [Bool.and_eq_true, beq_iff_eq] at hc; exact ⟨hc.1.1.1.2, hc.1.1.2⟩
    · cases hst
  obtain ⟨hstd, hps⟩ := hguard
  refine ⟨hj.tok.started k hstd, ?_, ?_, ?_⟩
  · intro ds' h'
    rcases (hj.tok.tIA k ds' h').2 with e | e <;> (rw [hrun] at e; cases e)
  · rw [← priorDue_iff hrel hmid hrun]
    constructor
    · intro h; rw [h] at hps; exact hj.tok.priorSeen k hps
    · rintro ⟨pv, h⟩
      have := (hj.tok.tPP k pv h).2.2
      rw [← hps]; exact this
  · intro q hq
    have hqi : q ∈ (msp.m.task k).issued := by
      rcases hq with ⟨r, h1, h2⟩ | ⟨i, k', v', r, h1, h2⟩
      · exact (hj.tok.tST k r h1).2.2 q h2
      · exact (hj.tok.tPV k i k' v' r h1).2.2.2 q h2
    obtain ⟨hm, hv⟩ := hall q hqi
    refine ⟨fun h2 => ?_, fun h2 => ?_⟩
    · have := hmid.seen.done q.key (hm h2)
      exact this
    · obtain ⟨w, hw⟩ := (delivered_iff _ _).1 (hv h2)
      obtain ⟨r', hr'⟩ := hj.tok.delivered k q w hw
      exact ⟨w, r', hr'⟩

/-- **C06 (the task computes only after inputs-available).**  `C k v f` is printed only after an `IA k discs`. -/
theorem EngineImpl_sound_C06_protocol_complete {rules : List RuleSpec} (hok : RulesOk rules) (ops : List OpC) (key : Nat)
    (hs : histSizedC rules ops (opProgram rules {}))
    (hk : workBound rules (runOpsC ops (opProgram rules {})) key + 2 < scanFuel)
    (c : Nat) (sched : List SchedItem) (a : Async) (pre post : List Tok) (k : Key) (v : Val) (f : Nat) :
    (runBuildA key c sched a (runOpsC ops (opProgram rules {}))).trace.reverse = pre ++ Tok.C k v f :: post →
    ∃ ds, Tok.IA k ds ∈ pre := by
  intro htr
  obtain ⟨evs0, m0, _, hr0, hrel, _⟩ := refinement_final_crash_committed hok ops hs
  obtain ⟨msp, msq, _, hts, _, _, hj, _, _, _⟩ := build_mid hok hrel (reach_inv2 hr0) key c sched a hk htr rfl
  have hst := tstep_ev_inv hts (e := .complete k v (f != 0)) rfl
  have hguard : msp.m.status k = .computing := by
    simp only [step] at hst
    split at hst
    · rename_i hc; simp only [Bool.and_eq_true, beq_iff_eq] at hc; exact hc.1.1.1.1
    · cases hst
  exact hj.tok.computing k (Or.inl hguard)

/-- **C06 (in a build that did not fail every created task goes through the whole protocol).**  In a trace without `X`/`CY`/`ER`,
for every `T k`: `ST k`, `IA k`, `C k`, `DS k` are all printed. -/
theorem EngineImpl_sound_C06_protocol_completes {rules : List RuleSpec} (hok : RulesOk rules) (ops : List OpC) (key : Nat)
    (hs : histSizedC rules ops (opProgram rules {}))
    (hk : workBound rules (runOpsC ops (opProgram rules {})) key + 2 < scanFuel)
    (c : Nat) (sched : List SchedItem) (a : Async) (k : Key) :
    let t := (runBuildA key c sched a (runOpsC ops (opProgram rules {}))).trace.reverse
    NoFail t → Tok.T k ∈ t →
    (∃ reqs, Tok.ST k reqs ∈ t) ∧ (∃ ds, Tok.IA k ds ∈ t) ∧ (∃ v f, Tok.C k v f ∈ t) ∧ ∃ row, Tok.DS k row ∈ t := by
  intro t hnf hT
  obtain ⟨evs0, m0, _, hr0, hrel, _⟩ := refinement_final_crash_committed hok ops hs
  obtain ⟨rest, v, n, msA, htr, hnc, hmid, hj, hquiet⟩ := build_end_nofail hok hrel (reach_inv2 hr0) key c sched a hk hnf
  have hsub : ∀ x ∈ Tok.B key :: rest, x ∈ t := by
    intro x hx; show x ∈ (runBuildA key c sched a _).trace.reverse; rw [htr]; exact List.mem_append_left _ hx
  have hT' : Tok.T k ∈ Tok.B key :: rest := by
    have : Tok.T k ∈ (Tok.B key :: rest) ++ [Tok.DE, Tok.R v, Tok.Z n 0] := by rw [← htr]; exact hT
    rcases List.mem_append.1 this with e | e
    · exact e
    · simp at e
  have hran := hj.tok.tRan k hT'
  have hdone := hquiet k hran
  obtain ⟨ds, hIA⟩ := hj.tok.computing k (Or.inr ⟨hdone, hran⟩)
  -- the `DS` token: a complete rule that ran was not merely found up to date
  have hDS : ∃ row, Tok.DS k row ∈ Tok.B key :: rest := by
    rcases hmid.seen.done k hdone with e | e
    · exact absurd hran (hj.up k e).2
    · exact e
  obtain ⟨row, hrow⟩ := hDS
  -- `ST` before `IA`, `C` before `DS`
  obtain ⟨p1, q1, hsp1⟩ := List.append_of_mem (hsub _ hIA)
  obtain ⟨hST, _⟩ := EngineImpl_sound_C06_protocol_inputs_available hok ops key hs hk c sched a p1 q1 k ds hsp1
  obtain ⟨reqs, hreqs⟩ := hST
  obtain ⟨p2, q2, hsp2⟩ := List.append_of_mem (hsub _ hrow)
  obtain ⟨cv, cf, hC⟩ := (EngineImpl_sound_C05_persisted_only_completed hok ops key hs hk c sched a).2 p2 k row q2 hsp2
  refine ⟨⟨reqs, ?_⟩, ⟨ds, hsub _ hIA⟩, ⟨cv, cf, ?_⟩, ⟨row, hsub _ hrow⟩⟩
  · show Tok.ST k reqs ∈ t
    rw [hsp1]; exact List.mem_append_left _ hreqs
  · show Tok.C k cv cf ∈ t
    rw [hsp2]; exact List.mem_append_left _ hC

/-- **C06 (the task protocol), all clauses in one statement** about one trace `t`: at every occurrence of `ST`, `PP`, `PV`, `IA`,
`C` (`t = pre ++ tok :: post`), what was printed before; and, if `t` has no `X`/`CY`/`ER`, every created task goes all the way. -/
theorem EngineImpl_sound_C06_task_protocol {rules : List RuleSpec} (hok : RulesOk rules) (ops : List OpC) (key : Nat)
    (hs : histSizedC rules ops (opProgram rules {}))
    (hk : workBound rules (runOpsC ops (opProgram rules {})) key + 2 < scanFuel)
    (c : Nat) (sched : List SchedItem) (a : Async) :
    let s := runOpsC ops (opProgram rules {})
    let t := (runBuildA key c sched a s).trace.reverse
    (∀ pre post k reqs, t = pre ++ Tok.ST k reqs :: post →
      Tok.T k ∈ pre ∧ (∀ r', Tok.ST k r' ∉ pre) ∧ reqs = issuedAfter (program rules) k []) ∧
    (∀ pre post k v, t = pre ++ Tok.PP k v :: post →
      (∃ reqs, Tok.ST k reqs ∈ pre) ∧ (∀ v', Tok.PP k v' ∉ pre) ∧ (∀ id key' v' r', Tok.PV k id key' v' r' ∉ pre) ∧
        PriorDue rules s k ∧ v = (engineRes s k).value) ∧
    (∀ pre post k id key' v reqs', t = pre ++ Tok.PV k id key' v reqs' :: post →
      (∃ reqs, Tok.ST k reqs ∈ pre) ∧ (PriorDue rules s k ↔ ∃ pv, Tok.PP k pv ∈ pre) ∧
        (∃ q : Req, IssuedTok pre k q ∧ q.key = key' ∧ q.id = id ∧ q.kind ≠ 2) ∧
        (∀ v' r', Tok.PV k id key' v' r' ∉ pre) ∧ ∃ cAt, DoneTok (snapC rules s) pre key' cAt v) ∧
    (∀ pre post k discs, t = pre ++ Tok.IA k discs :: post →
      (∃ reqs, Tok.ST k reqs ∈ pre) ∧ (∀ ds', Tok.IA k ds' ∉ pre) ∧ (PriorDue rules s k ↔ ∃ pv, Tok.PP k pv ∈ pre) ∧
        ∀ q : Req, IssuedTok pre k q →
          (q.kind = 2 → CompleteTok pre q.key) ∧ (q.kind ≠ 2 → ∃ v r', Tok.PV k q.id q.key v r' ∈ pre)) ∧
    (∀ pre post k v f, t = pre ++ Tok.C k v f :: post → ∃ ds, Tok.IA k ds ∈ pre) ∧
    (NoFail t → ∀ k, Tok.T k ∈ t →
      (∃ reqs, Tok.ST k reqs ∈ t) ∧ (∃ ds, Tok.IA k ds ∈ t) ∧ (∃ v f, Tok.C k v f ∈ t) ∧ ∃ row, Tok.DS k row ∈ t) :=
  ⟨fun pre post k reqs h => EngineImpl_sound_C06_protocol_start hok ops key hs hk c sched a pre post k reqs h,
   fun pre post k v h => EngineImpl_sound_C06_protocol_prior hok ops key hs hk c sched a pre post k v h,
   fun pre post k id key' v reqs' h => EngineImpl_sound_C06_protocol_provide hok ops key hs hk c sched a pre post k id key' v reqs' h,
   fun pre post k discs h => EngineImpl_sound_C06_protocol_inputs_available hok ops key hs hk c sched a pre post k discs h,
   fun pre post k v f h => EngineImpl_sound_C06_protocol_complete hok ops key hs hk c sched a pre post k v f h,
   fun hnf k hT => EngineImpl_sound_C06_protocol_completes hok ops key hs hk c sched a k hnf hT⟩

/-- **C06 / C01 (every task is handed clean inputs).**  After a history in which nothing was dropped, in ANY trace (failed or
not), every `PV k id key' v reqs'` carries the value a brand-new engine computes for `key'` in the current external state. -/
theorem EngineImpl_sound_C06_values_delivered_are_clean {rules : List RuleSpec} (hok : RulesOk rules) (hwf : DSL.wf rules = true)
    (ops : List OpC) (key : Nat) (hs : histSizedC rules ops (opProgram rules {}))
    (hk : workBound rules (runOpsC ops (opProgram rules {})) key + 2 < scanFuel)
    (hnd : histDropped ops (opProgram rules {}) false = false)
    (c : Nat) (sched : List SchedItem) (a : Async) (pre post : List Tok) (k id key' : Key) (v : Val) (reqs' : List Req) :
    let s := runOpsC ops (opProgram rules {})
    (runBuildA key c sched a s).trace.reverse = pre ++ Tok.PV k id key' v reqs' :: post →
    Clean (program rules) s.env key' v := by
  intro s htr
  obtain ⟨evs0, m0, _, hr0, hrel, _, hd, _⟩ := sched_history hok ops _ _ (RelIdle.init rules) Committed.init hs
  have hd0 : m0.pendingDropped = false := hd.trans hnd
  obtain ⟨msp, msq, hpre, hts, _, _, _, henv, hpd, _⟩ := build_mid hok hrel (reach_inv2 hr0) key c sched a hk htr rfl
  have hst := tstep_ev_inv hts (e := .provide k id key' v reqs') rfl
  obtain ⟨evsP, _, hrunP⟩ := trun_evOfToks _ _ _ hpre
  have hrun : run (program rules) {} (evs0 ++ evsP) = some msp.m := by rw [run_append, hr0]; exact hrunP
  have := C01_inputs (program_WF hwf) hrun (hpd.trans hd0) hst
  rw [henv] at this; exact this

/-! ## Examples (`schRules`: deferred inputs `1`, `2`, input `4`, `3` requests `1`, `2` and discovers `4`) -/

/-- the history `schOps`, a successful build of `3`, then input `1` changes -/
def rebuildOps : List OpC := schOps ++ [OpC.build 3 0 [] [], OpC.mutate 1 57]

theorem rebuildOps_sized : histSizedC schRules rebuildOps (opProgram schRules {}) := by
  simp only [rebuildOps, schOps, List.cons_append, List.nil_append, histSizedC, runOpC, and_true, true_and]
  decide +kernel

/-- the rebuild: `… V 1 56 0 ; N 1 2 -1 ; T 1 ; ST 1 ; PP 1 56 ; IA 1 ; C 1 57 ; S 1 2 ; DS 1 … ; N 3 3 1 ; T 3 ; ST 3 … ;
PP 3 … ; S 2 0 ; V 2 66 1 ; S 2 1 ; PV 3 8 2 66 ; PV 3 7 1 57 ; IA 3 1 4 ; C 3 … ; DS 3 … ; S 4 0 ; V 4 77 1 ; S 4 1 …` -/
def rebuildT : List Tok := (runBuildA 3 0 [] [] (runOpsC rebuildOps (opProgram schRules {}))).trace.reverse

/-- the same history, then a build of `3` CANCELLED while task `1` is in flight (`… IA 1 ; X ; C 1 57 ; DI ; DE ; R 0`) -/
def interruptedOps : List OpC := rebuildOps ++ [OpC.build 3 12 [] []]

theorem interruptedOps_sized : histSizedC schRules interruptedOps (opProgram schRules {}) := by
  simp only [interruptedOps, rebuildOps, schOps, List.cons_append, List.nil_append, histSizedC, runOpC, and_true, true_and]
  decide +kernel

def interruptedT : List Tok := (runBuildA 3 0 [] [] (runOpsC interruptedOps (opProgram schRules {}))).trace.reverse

/-- the key of a prior-value token -/
def Tok.ppKey : Tok → Option Key
  | .PP k _ => some k
  | _ => none

set_option maxRecDepth 8000 in
/-- **the hypotheses are met and the tokens are there**: reasons 2 (`isResultValid` said no) and 3 (input `1` was rebuilt) in the
rebuild, both tasks are offered their prior value, task `3` gets both inputs, after `2` was found up to date and `1` was rebuilt;
after the interrupted build rule `1` — in flight when the build was cancelled — reports reason 0 (never built) and is NOT
offered a prior value (the value `56` it had is gone from memory), `3` still is -/
example : NoFail rebuildT ∧ rebuildT.filterMap Tok.tKey = [1, 3] ∧
    Tok.V 1 56 false ∈ rebuildT ∧ Tok.N 1 2 none ∈ rebuildT ∧ Tok.N 3 3 (some 1) ∈ rebuildT ∧
    rebuildT.filterMap Tok.ppKey = [1, 3] ∧ Tok.PP 3 10759294323374567953 ∈ rebuildT ∧
    Tok.S 2 1 ∈ rebuildT ∧ Tok.PV 3 8 2 66 [] ∈ rebuildT ∧ Tok.PV 3 7 1 57 [] ∈ rebuildT ∧ Tok.IA 3 [4] ∈ rebuildT ∧
    NoFail interruptedT ∧ interruptedT.filterMap Tok.tKey = [1, 3] ∧
    Tok.N 1 0 none ∈ interruptedT ∧ Tok.N 3 3 (some 1) ∈ interruptedT ∧ interruptedT.filterMap Tok.ppKey = [3] := by
  decide +kernel

/-- **"`ST k` directly after `T k`" is false**: the build cancelled at its 8th event prints `T 3 ; X ; ST 3 …` — the harness
cancels from inside the delegate callback that reports the creation of the task; the engine still starts the task -/
example : ((runBuildA 3 8 [] [] (runOpsC [OpC.mutate 1 55, OpC.mutate 2 66, OpC.mutate 4 77] (opProgram schRules {}))).trace.reverse.drop 7).take 3 =
    [Tok.T 3, Tok.X, Tok.ST 3 [⟨1, 7, 0⟩, ⟨2, 8, 0⟩]] := by decide +kernel

/-- C02 on the rebuild: reason 3 of rule `3` -/
example (pre post : List Tok) (h : rebuildT = pre ++ Tok.N 3 3 (some 1) :: post) :
    Tok.S 3 0 ∈ pre ∧ ReasonTrue schRules (runOpsC rebuildOps (opProgram schRules {})) pre 3 3 (some 1) :=
  EngineImpl_sound_C02_reason_true schRules_ok rebuildOps 3 rebuildOps_sized (by decide) 0 [] [] pre post 3 3 (some 1) h

/-- C02 on the build after the interrupted one: reason 0 of rule `1` -/
example (pre post : List Tok) (h : interruptedT = pre ++ Tok.N 1 0 none :: post) :
    Tok.S 1 0 ∈ pre ∧ ReasonTrue schRules (runOpsC interruptedOps (opProgram schRules {})) pre 1 0 none :=
  EngineImpl_sound_C02_reason_true schRules_ok interruptedOps 3 interruptedOps_sized (by decide) 0 [] [] pre post 1 0 none h

example : (rebuildT.filterMap Tok.tKey).Nodup ∧ (schT2.filterMap Tok.tKey).Nodup :=
  ⟨EngineImpl_sound_C02_at_most_once schRules_ok rebuildOps 3 rebuildOps_sized (by decide) 0 [] [],
   EngineImpl_sound_C02_at_most_once schRules_ok schOps 3 schOps_sized (by decide) 0 [] (List.replicate 40 { keys := [2] })⟩

example (pre post : List Tok) (h : rebuildT = pre ++ Tok.T 3 :: post) : ∃ reason input, Tok.N 3 reason input ∈ pre :=
  EngineImpl_sound_C02_run_needs_reason schRules_ok rebuildOps 3 rebuildOps_sized (by decide) 0 [] [] pre post 3 h

/-- C06 on the rebuild: the prior value of `3`, the delivery of input `1`, inputs-available -/
example (pre post : List Tok) (h : rebuildT = pre ++ Tok.PP 3 10759294323374567953 :: post) :
    (∃ reqs, Tok.ST 3 reqs ∈ pre) ∧ (∀ v', Tok.PP 3 v' ∉ pre) ∧ (∀ id key' v' r', Tok.PV 3 id key' v' r' ∉ pre) ∧
      PriorDue schRules (runOpsC rebuildOps (opProgram schRules {})) 3 ∧
      10759294323374567953 = (engineRes (runOpsC rebuildOps (opProgram schRules {})) 3).value :=
  EngineImpl_sound_C06_protocol_prior schRules_ok rebuildOps 3 rebuildOps_sized (by decide) 0 [] [] pre post 3 _ h

example (pre post : List Tok) (h : rebuildT = pre ++ Tok.PV 3 7 1 57 [] :: post) :
    ∃ cAt, DoneTok (snapC schRules (runOpsC rebuildOps (opProgram schRules {}))) pre 1 cAt 57 :=
  (EngineImpl_sound_C06_protocol_provide schRules_ok rebuildOps 3 rebuildOps_sized (by decide) 0 [] [] pre post 3 7 1 57 [] h).2.2.2.2

example (pre post : List Tok) (h : rebuildT = pre ++ Tok.IA 3 [4] :: post) (q : Req) (hq : IssuedTok pre 3 q) :
    (q.kind = 2 → CompleteTok pre q.key) ∧ (q.kind ≠ 2 → ∃ v r', Tok.PV 3 q.id q.key v r' ∈ pre) :=
  (EngineImpl_sound_C06_protocol_inputs_available schRules_ok rebuildOps 3 rebuildOps_sized (by decide) 0 [] [] pre post 3 [4] h).2.2.2 q hq

/-- C06 on the two schedules of §12: every created task goes through the whole protocol -/
example (k : Key) (h : Tok.T k ∈ schT2) :
    (∃ reqs, Tok.ST k reqs ∈ schT2) ∧ (∃ ds, Tok.IA k ds ∈ schT2) ∧ (∃ v f, Tok.C k v f ∈ schT2) ∧ ∃ row, Tok.DS k row ∈ schT2 :=
  EngineImpl_sound_C06_protocol_completes schRules_ok schOps 3 schOps_sized (by decide) 0 [] (List.replicate 40 { keys := [2] }) k
    (by decide +kernel) h

/-- C06 / C01: the values handed to task `3` in the rebuild are the clean ones -/
example (pre post : List Tok) (h : rebuildT = pre ++ Tok.PV 3 7 1 57 [] :: post) :
    Clean (program schRules) (runOpsC rebuildOps (opProgram schRules {})).env 1 57 :=
  EngineImpl_sound_C06_values_delivered_are_clean schRules_ok (by decide) rebuildOps 3 rebuildOps_sized (by decide)
    (by decide +kernel) 0 [] [] pre post 3 7 1 57 [] h

end LLBuild.Refine
