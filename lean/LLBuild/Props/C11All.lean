/-
C11 aggregate: the deps-file halves (Props/C11.lean: round trips, escaping, malformed files fail,
every file of a deps list is registered) and the engine half (Props/C11Engine.lean: a changed
discovered dependency can never be declared up to date).
-/
import LLBuild.Props.C11
import LLBuild.Props.C11Engine
import LLBuild.Props.C08X
