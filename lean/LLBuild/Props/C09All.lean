/-
C09 — "Null builds run nothing; a command re-runs exactly when its definition changed."
Aggregate of the two halves: the signature recipes (Props/C09.lean for the shell tool, Props/C09Classes.lean
for every other class with a regenerated recipe: equal signatures ⇔ equal signature-relevant definitions;
Props/C09Attrs.lean: from the keys of the definition to the hashed members, through the generated `configure*` tables) and the history half on the abstract engine (Props/C02.lean:
`C02_null_build_after_build`; Props/C01Gen.lean: `C09_changed_definition_reruns`,
`C09_changed_definition_signature_differs`, `C09_unchanged_definition_needs_other_reason`).
-/
import LLBuild.Props.C09
import LLBuild.Props.C09Classes
import LLBuild.Props.C09Attrs
import LLBuild.Props.C01Gen
