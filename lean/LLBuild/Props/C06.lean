/-
C06 — Outcome is independent of completion order and threads; task protocol holds.

"Whatever order and on whatever threads tasks report completion, a build yields the same values and
the same set of executed rules, and every task sees the documented protocol: start, then its prior
value if one exists, then each requested input exactly once, then inputs-available exactly once and
only after all requested inputs and all must-follow keys are complete."

Model: the abstract engine accepts the task callbacks only in protocol order; the schedule (which
computing task reports when, on which thread) is not part of the model at all: every interleaving the
real engine produces is replayed through the same `step`.  Proved: acceptance implies the protocol
clauses, and under ANY schedule a successful build returns a value a brand-new engine computes
(`C06_schedule_independent_value`), which is unique for deterministic clients
(`C06_schedule_independent_value_eq`, via `Clean_unique`).  Not proved: the equality of executed
sets across schedules, and anything below lock granularity (data races in the C++ memory model).  Lost wake-ups,
deadlock and exactly-once hand-off at lock granularity are proved in Props/C06Handshake.lean.
-/
import LLBuild.Props.C01
import LLBuild.Props.C06Handshake
import LLBuild.Lemmas.Engine.Fingerprint

set_option linter.unusedVariables false

namespace LLBuild.Engine

/-- start comes first, exactly once, and issues exactly the task's initial requests -/
theorem C06_start {P : Program} {s s' : St} {k : Key} {reqs : List Req}
    (h : step P s (.start k reqs) = some s') :
    s.status k = .running ∧ (s.task k).started = false ∧ reqs = issuedAfter P k [] := by
  simp only [step] at h
  split at h
  · rename_i hc
    simp only [Bool.and_eq_true, beq_iff_eq, Bool.not_eq_eq_eq_not, Bool.not_true] at hc
    exact ⟨hc.1.1, hc.1.2, hc.2⟩
  · cases h

/-- the prior value is offered after start, before any input, at most once, only when a result with
the current signature exists, and it is that result's value -/
theorem C06_prior {P : Program} {s s' : St} {k : Key} {v : Val}
    (h : step P s (.prior k v) = some s') :
    (s.task k).started = true ∧ (s.task k).priorSeen = false ∧ (s.task k).seq = [] ∧
    (s.mem.res k).builtAt ≠ 0 ∧ (s.mem.res k).sig = s.sigAt k ∧ v = (s.mem.res k).value := by
  simp only [step] at h
  split at h
  · rename_i hc
    simp only [Bool.and_eq_true, beq_iff_eq, Bool.not_eq_eq_eq_not, Bool.not_true, priorDue, bne_iff_ne, ne_eq,
      List.isEmpty_iff] at hc
    exact ⟨hc.1.1.1.1.2, hc.1.1.1.2, hc.1.1.2, hc.1.2.1, hc.1.2.2, hc.2⟩
  · cases h

/-- each input is provided for a request the task issued, that carries a value, and that was not
answered before; the prior value was offered iff one was due; the key is complete in this build and
the value is its value -/
theorem C06_provide {P : Program} {s s' : St} {k : Key} {id : Nat} {key : Key} {v : Val} {reqs : List Req}
    (h : step P s (.provide k id key v reqs) = some s') :
    s.status k = .running ∧ (s.task k).priorSeen = priorDue s k ∧
    (∃ q ∈ (s.task k).issued, q.key = key ∧ q.id = id ∧ q.kind ≠ 2 ∧ delivered (s.task k).seq q = false) ∧
    s.status key = .done ∧ v = (s.mem.res key).value := by
  simp only [step] at h
  split at h
  · rename_i hc
    simp only [Bool.and_eq_true, beq_iff_eq] at hc
    split at h
    · cases h
    · rename_i q hfind
      split at h
      · rename_i hc2
        simp only [Bool.and_eq_true, beq_iff_eq] at hc2
        have hq := List.find?_some hfind
        have hqm := List.mem_of_find?_eq_some hfind
        simp only [Bool.and_eq_true, beq_iff_eq, bne_iff_ne, ne_eq, Bool.not_eq_eq_eq_not, Bool.not_true] at hq
        exact ⟨hc.1.1, hc.2, ⟨q, hqm, hq.1.1.1, hq.1.1.2, hq.1.2, hq.2⟩, by simpa [isDone] using hc2.1.1, hc2.1.2⟩
      · cases h
  · cases h

/-- inputs-available comes once (the rule leaves the running state), only after every value request
was answered and every must-follow key is complete in this build -/
theorem C06_inputs_available {P : Program} {s s' : St} {k : Key} {discs : List Key}
    (h : step P s (.inputsAvail k discs) = some s') :
    s.status k = .running ∧ s'.status k = .computing ∧
    (∀ q ∈ (s.task k).issued, (q.kind = 2 → s.status q.key = .done) ∧ (q.kind ≠ 2 → delivered (s.task k).seq q = true)) := by
  simp only [step] at h
  split at h
  · rename_i hc
    cases h
    simp only [Bool.and_eq_true] at hc
    obtain ⟨⟨⟨⟨hs, _⟩, _⟩, hall⟩, _⟩ := hc
    refine ⟨eq_of_beq hs, by simp, ?_⟩
    intro q hq
    have := List.all_eq_true.1 hall q hq
    constructor
    · intro hk; simp [hk, isDone] at this; exact this
    · intro hk; simp [hk] at this; exact this
  · cases h

/-- with the invariant: when inputs-available is delivered, every key the task received a value from
is complete in this build and its value is the clean value -/
theorem C06_inputs_complete_and_clean {P : Program} (hP : P.WF) {evs : List Event} {s s' : St} {k : Key} {discs : List Key}
    (hrun : run P {} evs = some s) (hnd : s.pendingDropped = false)
    (h : step P s (.inputsAvail k discs) = some s') :
    ∀ q v, (q, v) ∈ (s.task k).seq → q.kind = 0 → s.status q.key = .done ∧ Clean P s.env q.key v := by
  have hi := reach_inv hP hrun hnd
  simp only [step] at h
  split at h
  · rename_i hc
    simp only [Bool.and_eq_true] at hc
    obtain ⟨⟨⟨⟨hs, hts⟩, _⟩, _⟩, _⟩ := hc
    have hfl : inflight s k = true := by simp [inflight, eq_of_beq hs]
    have t := hi.taskOk k hfl hts
    intro q v hq hk
    obtain ⟨a, b⟩ := t.inputs q v hq hk
    exact ⟨a, by rw [← b]; exact hi.clean q.key a⟩
  · cases h

/-- Whatever the completion order and threads: the trace of ANY schedule that the engine can
produce is a list of accepted events, and for every such list a successful build returns a value a
brand-new engine computes. -/
theorem C06_schedule_independent_value {P : Program} (hP : P.WF) {evs₁ evs₂ : List Event} {s₁ s₁' s₂ s₂' : St} {v₁ v₂ : Val}
    (h₁ : run P {} evs₁ = some s₁) (r₁ : step P s₁ (.ret v₁) = some s₁') (d₁ : s₁'.pendingDropped = false)
    (ok₁ : s₁.cancelled = false ∧ s₁.cycleSeen = false ∧ s₁.errSeen = false)
    (h₂ : run P {} evs₂ = some s₂) (r₂ : step P s₂ (.ret v₂) = some s₂') (d₂ : s₂'.pendingDropped = false)
    (ok₂ : s₂.cancelled = false ∧ s₂.cycleSeen = false ∧ s₂.errSeen = false)
    (henv : s₁.env = s₂.env) (htgt : s₁.target = s₂.target) :
    ∃ root, Clean P s₁.env root v₁ ∧ Clean P s₁.env root v₂ := by
  obtain ⟨r1, t1, c1⟩ := C01_value hP h₁ r₁ d₁ ok₁
  obtain ⟨r2, t2, c2⟩ := C01_value hP h₂ r₂ d₂ ok₂
  rw [htgt, t2] at t1
  cases t1
  exact ⟨r1, c1, by rw [henv]; exact c2⟩


/-- ... and for deterministic clients (`Program.Det`: monotone requests, distinct ids) the values are
EQUAL: the outcome does not depend on the completion order or on which threads reported. -/
theorem C06_schedule_independent_value_eq {P : Program} (hP : P.WF) (hD : P.Det) {evs₁ evs₂ : List Event}
    {s₁ s₁' s₂ s₂' : St} {v₁ v₂ : Val}
    (h₁ : run P {} evs₁ = some s₁) (r₁ : step P s₁ (.ret v₁) = some s₁') (d₁ : s₁'.pendingDropped = false)
    (ok₁ : s₁.cancelled = false ∧ s₁.cycleSeen = false ∧ s₁.errSeen = false)
    (h₂ : run P {} evs₂ = some s₂) (r₂ : step P s₂ (.ret v₂) = some s₂') (d₂ : s₂'.pendingDropped = false)
    (ok₂ : s₂.cancelled = false ∧ s₂.cycleSeen = false ∧ s₂.errSeen = false)
    (henv : s₁.env = s₂.env) (htgt : s₁.target = s₂.target) : v₁ = v₂ := by
  obtain ⟨root, c1, c2⟩ := C06_schedule_independent_value hP h₁ r₁ d₁ ok₁ h₂ r₂ d₂ ok₂ henv htgt
  exact Clean_unique hD c1 c2

/-- the harness's DSL programs are such clients whenever `DSL.det` says so -/
theorem C06_dsl_deterministic {rules : List DSL.RuleSpec} (h : DSL.det rules = true) : (DSL.program rules).Det :=
  DSL.program_Det h

end LLBuild.Engine
