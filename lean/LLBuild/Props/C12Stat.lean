/-
C12 on the engine, the listing's validity made explicit.

Props/C12Engine.lean proves rerun-iff for the client `prog` over the external state `st.env`, in which the
`readdir` slot of every directory is an input key validated by equality.  That IS the real unfiltered task
(`DirectoryContentsTask::isResultValid` re-lists the directory and compares the names) and the filtered task once it
has the same check (proposed repair F57).  The filtered task AS CODED (`FilteredDirectoryContentsTask`,
`IsValid = nullptr`) re-lists only when the directory's stat record changed: what the engine sees of a file system
`fs` is `staleEnv C seen fs` (Lemmas/DirTreeStat.lean).  The theorems of Props/C12Engine.lean then speak about that
VIEW, and they are statements about the file system itself only under `StatDiscipline` — which the end-to-end
harness used to supply silently by stamping every directory whose entry set changed.

* `C12_tree_changed_not_up_to_date_under_stat_discipline`, `C12_struct_changed_not_up_to_date_under_stat_discipline`
  the soundness theorems with the engine looking through `staleEnv` and the discipline as an EXPLICIT hypothesis;
* `C12_filtered_as_coded_needs_stat_discipline` without it they fail: a file added to a directory whose stat record
  is unchanged — the file system shows a tree with a different (structure) observation, the engine's view still
  shows the old tree, the stored signature is the unique clean value of that view and every re-execution reproduces
  it: the command can never be made to re-run;
* `C12_relisting_view_is_the_file_system` with a re-listing validity check (unfiltered task; filtered after F57) the
  view is the file system for every pair of states, no discipline needed.
-/
import LLBuild.Props.C12Engine
import LLBuild.Lemmas.DirTreeStat

namespace LLBuild.DirTree
open LLBuild.Engine

section Client
variable (C : Coding) (c : Cfg) (sg : Env → Key → Nat) (vld : Env → Key → Val → Bool)

/-- `C12_rerun_iff`, soundness, directory-TREE input, for a listing task that trusts the directory's stat record
(the FILTERED task as coded): the engine's external state is the stale view `staleEnv C seen fs` of the file system
`fs`.  If `fs` shows `t₂`, the stored value was built from `t₁`, `observe t₁ ≠ observe t₂` AND every directory
whose stat record is unchanged since `seen` has an unchanged entry list, then `upToDate` is refused. -/
theorem C12_tree_changed_not_up_to_date_under_stat_discipline {evs : List Event} {st : St}
    (hrun : run (prog C c sg vld) {} evs = some st) (hnd : st.pendingDropped = false)
    (seen fs : Env) (hview : st.env = staleEnv C seen fs) (hdisc : StatDiscipline C seen fs)
    (p : Bytes) (i₁ i₂ : Info) (cs₁ cs₂ : List (Name × Tree))
    (h₁ : Listed c (.dir i₁ cs₁)) (h₂ : Listed c (.dir i₂ cs₂))
    (hA : Agrees C fs p (.dir i₂ cs₂)) {dk : DKey} (hdk : dk ∈ sigKeys false p)
    (hstored : (st.mem.res (C.key dk)).value = keyVal C dk (treeSig c p (.dir i₁ cs₁)))
    (hchg : observe c (.dir i₁ cs₁) ≠ observe c (.dir i₂ cs₂)) :
    step (prog C c sg vld) st (.upToDate (C.key dk)) = none := by
  have henv : st.env = fs := by rw [hview, staleEnv_of_discipline hdisc]
  exact C12_tree_changed_not_up_to_date C c sg vld hrun hnd p i₁ i₂ cs₁ cs₂ h₁ h₂ (by rw [henv]; exact hA) hdk
    hstored hchg

/-- … and directory-STRUCTURE input. -/
theorem C12_struct_changed_not_up_to_date_under_stat_discipline {evs : List Event} {st : St}
    (hrun : run (prog C c sg vld) {} evs = some st) (hnd : st.pendingDropped = false)
    (seen fs : Env) (hview : st.env = staleEnv C seen fs) (hdisc : StatDiscipline C seen fs)
    (p : Bytes) (i₁ i₂ : Info) (cs₁ cs₂ : List (Name × Tree))
    (h₁ : Listed c (.dir i₁ cs₁)) (h₂ : Listed c (.dir i₂ cs₂))
    (hA : Agrees C fs p (.dir i₂ cs₂)) {dk : DKey} (hdk : dk ∈ sigKeys true p)
    (hstored : (st.mem.res (C.key dk)).value = keyVal C dk (structSig c p (.dir i₁ cs₁)))
    (hchg : observeStruct c (.dir i₁ cs₁) ≠ observeStruct c (.dir i₂ cs₂)) :
    step (prog C c sg vld) st (.upToDate (C.key dk)) = none := by
  have henv : st.env = fs := by rw [hview, staleEnv_of_discipline hdisc]
  exact C12_struct_changed_not_up_to_date C c sg vld hrun hnd p i₁ i₂ cs₁ cs₂ h₁ h₂ (by rw [henv]; exact hA) hdk
    hstored hchg

/-- A listing task WITH a re-listing validity check (`DirectoryContentsTask::isResultValid`; the filtered task after
F57) shows the engine the `readdir` slot as it is: its view of `fs` is `fs`, whatever was seen before — this is the
discipline-free reading of Props/C12Engine.lean.  Stated as: the view coincides with the file system for EVERY
previous state iff … nothing; and for a given previous state iff the discipline holds for it. -/
theorem C12_relisting_view_is_the_file_system (seen fs : Env) :
    staleEnv C seen fs = fs ↔ StatDiscipline C seen fs :=
  ⟨discipline_of_staleEnv, staleEnv_of_discipline⟩

end Client

/-! ### without the discipline the statement fails for the filtered task as coded -/

section Witness

/-- `d/` empty … -/
def stEmpty : Tree := .dir (dirInfo 2 10) []
/-- … and with a file `a` added while the record of `d` (inode 2, mtime 10, size 4096) stayed what it was -/
def stAdded : Tree := .dir (dirInfo 2 10) [([0x61], .file (fileInfo 3 0 11))]

theorem stEmpty_listed (c : Cfg) : Listed c stEmpty := by
  simp only [Listed, stEmpty, obs, obsList, sortBy, Obs.OK, Obs.OKs, namesOK, names]; decide

theorem stAdded_listed : Listed exCfg stAdded := by
  have h : obs exCfg stAdded = .dir (dirInfo 2 10) [([0x61], .leaf (some (fileInfo 3 0 11)))] := by rfl
  simp only [Listed, h, Obs.OK, Obs.OKs, namesOK, names]; decide

/-- the addition is observable by both flavours of input, with the filter `x` (which does not hide `a`) -/
theorem stAdded_observable :
    observe exCfg stEmpty ≠ observe exCfg stAdded ∧ observeStruct exCfg stEmpty ≠ observeStruct exCfg stAdded := by
  constructor
  · intro h
    have := (C12_tree_sig_injective exCfg [0x64] _ _ _ _ (stEmpty_listed exCfg) stAdded_listed).2 h
    revert this
    decide
  · intro h
    have := (C12_struct_sig exCfg [0x64] _ _ _ _ (stEmpty_listed exCfg) stAdded_listed).2 h
    revert this
    decide

/-- the signatures themselves differ (kernel-evaluated on the pre-hash terms) -/
theorem stAdded_signatures_differ :
    treeSig exCfg [0x64] stEmpty ≠ treeSig exCfg [0x64] stAdded ∧
    structSig exCfg [0x64] stEmpty ≠ structSig exCfg [0x64] stAdded := by
  constructor <;> decide

def seenEnv (C : Coding) : Env := setSlots (slots C [0x64] stEmpty) (fun _ => 0)
def fsEnv (C : Coding) : Env := setSlots (slots C [0x64] stAdded) (fun _ => 0)

theorem seenEnv_agrees (C : Coding) : Agrees C (seenEnv C) [0x64] stEmpty := by
  simp only [seenEnv, stEmpty, slots, slotsL, setSlots, Agrees, AgreesL, List.foldl_cons, List.foldl_nil, upd, key_eq_iff]
  simp [rawEnts]

theorem fsEnv_agrees (C : Coding) : Agrees C (fsEnv C) [0x64] stAdded := by
  have hp : pathAppend [0x64] [0x61] = [0x64, 0x2f, 0x61] := by decide
  simp only [fsEnv, stAdded, slots, slotsL, setSlots, Agrees, AgreesL, hp,
    List.append_nil, List.foldl_cons, List.foldl_nil, upd, key_eq_iff]
  simp [rawEnts]

/-- the stat slot of `d` is the same in both states … -/
theorem seen_fs_stat (C : Coding) : seenEnv C (C.key (.stat [0x64])) = fsEnv C (C.key (.stat [0x64])) := by
  have h1 := (seenEnv_agrees C)
  have h2 := (fsEnv_agrees C)
  simp only [stEmpty, stAdded, Agrees] at h1 h2
  rw [h1.1, h2.1]

/-- … so the engine, looking through a listing task that trusts the stat record, still sees the EMPTY directory -/
theorem view_agrees_old (C : Coding) : Agrees C (staleEnv C (seenEnv C) (fsEnv C)) [0x64] stEmpty := by
  have h1 := (seenEnv_agrees C)
  have h2 := (fsEnv_agrees C)
  simp only [stEmpty, stAdded, Agrees, AgreesL] at h1 h2 ⊢
  refine ⟨?_, ?_, trivial⟩
  · rw [staleEnv_stat]; exact h2.1
  · rw [staleEnv_ents_same C _ _ _ (seen_fs_stat C)]; exact h1.2.1

theorem not_discipline (C : Coding) : ¬ StatDiscipline C (seenEnv C) (fsEnv C) := by
  intro h
  have h1 := (seenEnv_agrees C)
  have h2 := (fsEnv_agrees C)
  simp only [stEmpty, stAdded, Agrees] at h1 h2
  have := h (C.key (.ents [0x64])) [0x64] (C.unkey_key _) (seen_fs_stat C)
  rw [h1.2.1, h2.2.1] at this
  have := C.val_inj this
  revert this
  simp [rawEnts]

/-- Without `StatDiscipline` the soundness statement FAILS for a listing task that trusts the stat record (the
filtered task as coded).  Concretely (filter `x`, input `d/`): the file system shows `d/{a}` where the stored values
were built from the empty `d/`; the stat record of `d` is unchanged; both observations differ; yet in the engine's
view of that file system
* a brand-new engine computes, for the signature key, `Node(d/)` and the command, of BOTH flavours, exactly the OLD
  signature — the stored value is the unique clean value, nothing is out of date;
* in every reachable state with that view and the old value stored, every completion of the rule reproduces the
  stored value and leaves `computedAt` alone: no scan and no re-execution can ever make the command re-run. -/
theorem C12_filtered_as_coded_needs_stat_discipline (C : Coding) (sg : Env → Key → Nat) (vld : Env → Key → Val → Bool) :
    ∃ (seen fs : Env) (t₁ t₂ : Tree),
      Listed exCfg t₁ ∧ Listed exCfg t₂ ∧ Agrees C seen [0x64] t₁ ∧ Agrees C fs [0x64] t₂ ∧
      seen (C.key (.stat [0x64])) = fs (C.key (.stat [0x64])) ∧ ¬ StatDiscipline C seen fs ∧
      observe exCfg t₁ ≠ observe exCfg t₂ ∧ observeStruct exCfg t₁ ≠ observeStruct exCfg t₂ ∧
      (∀ (s : Bool) (dk : DKey), dk ∈ sigKeys s [0x64] → ∀ w,
        Clean (prog C exCfg sg vld) (staleEnv C seen fs) (C.key dk) w ↔ w = keyVal C dk (sigTerm s exCfg [0x64] t₁)) ∧
      (∀ (s : Bool) (dk : DKey), dk ∈ sigKeys s [0x64] → ∀ (evs : List Event) (st : St),
        run (prog C exCfg sg vld) {} evs = some st → st.pendingDropped = false → st.env = staleEnv C seen fs →
        (st.mem.res (C.key dk)).value = keyVal C dk (sigTerm s exCfg [0x64] t₁) →
        ∀ v f st', step (prog C exCfg sg vld) st (.complete (C.key dk) v f) = some st' →
          v = (st.mem.res (C.key dk)).value ∧
          (st'.mem.res (C.key dk)).computedAt = (st.mem.res (C.key dk)).computedAt ∧
          (st'.mem.res (C.key dk)).value = (st.mem.res (C.key dk)).value) := by
  refine ⟨seenEnv C, fsEnv C, stEmpty, stAdded, stEmpty_listed exCfg, stAdded_listed, seenEnv_agrees C, fsEnv_agrees C,
    seen_fs_stat C, not_discipline C, stAdded_observable.1, stAdded_observable.2, ?_, ?_⟩
  · intro s dk hdk w
    exact C12_clean_signature_iff C exCfg sg vld (view_agrees_old C) hdk w
  · intro s dk hdk evs st hrun hnd henv hstored v f st' hc
    exact (current_is_kept C exCfg sg vld hrun hnd (by rw [henv]; exact view_agrees_old C) hdk hstored).2 v f st' hc

/-- non-vacuity of the explicit hypothesis: it holds, together with the other tree hypotheses of
`C12_tree_changed_not_up_to_date_under_stat_discipline`, when the addition DID change the record of `d` -/
def stAddedStamped : Tree := .dir (dirInfo 2 12) [([0x61], .file (fileInfo 3 0 11))]
def fsEnv' (C : Coding) : Env := setSlots (slots C [0x64] stAddedStamped) (fun _ => 0)

theorem fsEnv'_agrees (C : Coding) : Agrees C (fsEnv' C) [0x64] stAddedStamped := by
  have hp : pathAppend [0x64] [0x61] = [0x64, 0x2f, 0x61] := by decide
  simp only [fsEnv', stAddedStamped, slots, slotsL, setSlots, Agrees, AgreesL, hp,
    List.append_nil, List.foldl_cons, List.foldl_nil, upd, key_eq_iff]
  simp [rawEnts]

theorem stAddedStamped_listed : Listed exCfg stAddedStamped := by
  have h : obs exCfg stAddedStamped = .dir (dirInfo 2 12) [([0x61], .leaf (some (fileInfo 3 0 11)))] := by rfl
  simp only [Listed, h, Obs.OK, Obs.OKs, namesOK, names]; decide

theorem stamped_observable : observe exCfg stEmpty ≠ observe exCfg stAddedStamped := by
  intro h
  have := (C12_tree_sig_injective exCfg [0x64] _ _ _ _ (stEmpty_listed exCfg) stAddedStamped_listed).2 h
  revert this
  decide

/-- here the directory's record moved (mtime 10 → 12), so the discipline holds between the two states -/
theorem discipline_stamped (C : Coding) : StatDiscipline C (seenEnv C) (fsEnv' C) := by
  intro k p hk hs
  have h1 := (seenEnv_agrees C)
  have h2 := (fsEnv'_agrees C)
  simp only [stEmpty, stAddedStamped, Agrees] at h1 h2
  by_cases hp : p = [0x64]
  · subst hp
    rw [h1.1, h2.1] at hs
    have := C.val_inj hs
    exact absurd this (by decide)
  · have hk1 : ∀ q, k ≠ C.key (.stat q) := fun q h => by rw [h, C.unkey_key] at hk; cases hk
    have hk2 : k ≠ C.key (.ents [0x64]) := fun h => by
      rw [h, C.unkey_key] at hk; cases hk; exact hp rfl
    have hpa : pathAppend [0x64] [0x61] = [0x64, 0x2f, 0x61] := by decide
    simp only [seenEnv, fsEnv', stEmpty, stAddedStamped, slots, slotsL, setSlots, hpa, List.append_nil,
      List.foldl_cons, List.foldl_nil, upd, hk1, hk2, if_false]

/-- the explicit-hypothesis theorem applied: all its hypotheses about the two states and trees hold together -/
example (C : Coding) (sg : Env → Key → Nat) (vld : Env → Key → Val → Bool) {evs : List Event} {st : St}
    (hrun : run (prog C exCfg sg vld) {} evs = some st) (hnd : st.pendingDropped = false)
    (hview : st.env = staleEnv C (seenEnv C) (fsEnv' C))
    (hstored : (st.mem.res (C.key (.cmd false [0x64]))).value =
      keyVal C (.cmd false [0x64]) (treeSig exCfg [0x64] stEmpty)) :
    step (prog C exCfg sg vld) st (.upToDate (C.key (.cmd false [0x64]))) = none :=
  C12_tree_changed_not_up_to_date_under_stat_discipline C exCfg sg vld hrun hnd _ _ hview (discipline_stamped C)
    [0x64] _ _ _ _ (stEmpty_listed exCfg) stAddedStamped_listed (fsEnv'_agrees C) (by simp [sigKeys]) hstored stamped_observable

end Witness

end LLBuild.DirTree
