/- C04: database layer (Props/C04.lean) + the engine's use of it (Props/C04Engine.lean). -/
import LLBuild.Props.C04
import LLBuild.Props.C04Engine
