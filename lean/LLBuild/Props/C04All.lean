/- C04: database layer (Props/C04.lean) + the engine's use of it (Props/C04Engine.lean) + the concrete engine
model killed at any point of a build (Props/EngineImplCrash.lean over Lemmas/Refine). -/
import LLBuild.Props.C04
import LLBuild.Props.C04Engine
import LLBuild.Props.EngineImplCrash
import LLBuild.Props.EngineImplAll
