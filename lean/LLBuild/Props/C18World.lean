/-
C18, whole-build clauses, over the world model `Model/NinjaWorld.lean` (files + logical clock + build database, a manifest
of deterministic commands, `buildOnce` = the per-command decision functions of `Model/NinjaBuild.lean` composed the way
the engine composes them; compared with the real `llbuild ninja build` on every generated history by the stream `world`
of vlib/props/c18.py):

"For any Ninja manifest of deterministic commands and any history of observable source edits, output deletions
and manifest edits, `llbuild ninja build` leaves the same output contents as a clean build, and an immediate
rebuild runs no command.  Order-only inputs impose ordering without triggering rebuilds, implicit inputs and
depfile-discovered inputs trigger rebuilds, a changed command line re-runs its command, and a failing command
stops its dependents and is retried next time."

All theorems are for ALL well-formed manifests (`Manifest.WF`, decidable), ALL command semantics (`Manifest.sem`), ALL
worlds that satisfy `WorldInv` - which holds in the empty world and is preserved by every edit of a history (`Edit.ok`:
sources written with fresh stamps, outputs deleted, command lines changed, commands made to fail or to succeed), by
every build and by dropping the database (`C18_world_invariant`).
-/
import LLBuild.Lemmas.NinjaWorldRuns

namespace LLBuild.NinjaWorld
open LLBuild.NinjaBuild LLBuild.NinjaBuild.Gen

/-! ### histories -/

inductive Step
  | edit (e : Edit)
  | build
  /-- the database is deleted (or the build runs with `--no-db`, which persists nothing) -/
  | dropDb
  deriving DecidableEq, Repr

def runStep (m : Manifest) (targets : List Path) (w : World) : Step → World
  | .edit e => applyEdit w e
  | .build => (buildOnce m targets w).1
  | .dropDb => w.dropDb

/-- the world after a history, from the empty world and the empty database -/
def runSteps (m : Manifest) (targets : List Path) (steps : List Step) : World :=
  steps.foldl (runStep m targets) World.empty

def Step.ok (cs : List Command) : Step → Prop
  | .edit e => e.ok cs
  | _ => True

instance (cs : List Command) (s : Step) : Decidable (s.ok cs) := by
  cases s <;> simp only [Step.ok] <;> infer_instance

theorem WorldInv.dropDb {m : Manifest} {w : World} (h : WorldInv m w) : WorldInv m w.dropDb := by
  refine ⟨⟨h.inv0.fileStamps, ?_, ?_, ?_, ?_, ?_, h.inv0.phonyAbsent⟩, ?_, ?_, ?_, ?_⟩
  · intro p r hr; simp [World.dropDb] at hr
  · intro n r hr; simp [World.dropDb] at hr
  · intro p r hr; simp [World.dropDb] at hr
  · intro n r hr; simp [World.dropDb] at hr
  · intro c _ r hr; simp [World.dropDb] at hr
  · intro c _ _ r hr; simp [World.dropDb] at hr
  · intro c _ r hr; simp [World.dropDb] at hr
  · intro before c rest hat hp o ho f hf
    exact prov_mono (h.t before c rest hat hp o ho f hf) (fun _ r hr _ => by simp [World.dropDb] at hr) (fun _ _ g hg _ => hg)
  · intro _ _ _ _ _ r hr; simp [World.dropDb] at hr

/-- **The invariant.**  `WorldInv` holds in the empty world, and every step of a history preserves it: an edit (a source
written or touched with a fresh stamp, an output deleted, a command line changed, a command made to fail or succeed), a
build of any targets, the loss of the database.  Hence it holds after every history. -/
theorem C18_world_invariant (m : Manifest) (hwf : m.WF) (targets : List Path) :
    WorldInv m World.empty ∧
    (∀ w e, WorldInv m w → e.ok m.cmds → WorldInv m (applyEdit w e)) ∧
    (∀ w, WorldInv m w → WorldInv m (buildOnce m targets w).1) ∧
    (∀ w, WorldInv m w → WorldInv m w.dropDb) ∧
    ∀ steps : List Step, (∀ s ∈ steps, s.ok m.cmds) → WorldInv m (runSteps m targets steps) := by
  have hstep : ∀ (w : World) (s : Step), WorldInv m w → s.ok m.cmds → WorldInv m (runStep m targets w s) := by
    intro w s hw hs
    cases s with
    | edit e => exact hw.edit hwf hs
    | build => exact hw.build hwf targets
    | dropDb => exact hw.dropDb
  refine ⟨WorldInv.empty m, fun w e hw he => hw.edit hwf he, fun w hw => hw.build hwf targets, fun w hw => hw.dropDb, ?_⟩
  intro steps
  have : ∀ (l : List Step) (w : World), WorldInv m w → (∀ s ∈ l, s.ok m.cmds) → WorldInv m (l.foldl (runStep m targets) w) := by
    intro l
    induction l with
    | nil => intro w hw _; exact hw
    | cons s l ih =>
      intro w hw hl
      exact ih _ (hstep w s hw (hl s List.mem_cons_self)) (fun s' hs' => hl s' (List.mem_cons_of_mem _ hs'))
  exact this steps World.empty (WorldInv.empty m)

/-! ### convergence -/

/-- a build does not touch the source files, the command lines or the failing flags -/
theorem build_sources (m : Manifest) (hwf : m.WF) (targets : List Path) (w : World) :
    (buildOnce m targets w).1.cmdline = w.cmdline ∧ (buildOnce m targets w).1.failing = w.failing ∧
    ∀ p, producer m.cmds p = none → (buildOnce m targets w).1.files p = w.files p := by
  have hs := stepAll_sources m (demanded m targets) (w.epoch + 1) hwf (started m targets w)
  have hf := started_files m targets w
  have hc : (started m targets w).cmdline = w.cmdline ∧ (started m targets w).failing = w.failing := by
    have : ∀ (ps : List Path) (w0 : World), (refreshSrcs m.cmds (w.epoch + 1) ps w0).cmdline = w0.cmdline ∧
        (refreshSrcs m.cmds (w.epoch + 1) ps w0).failing = w0.failing := by
      intro ps
      induction ps with
      | nil => intro w0; exact ⟨rfl, rfl⟩
      | cons p ps ih =>
        intro w0
        simp only [refreshSrcs]
        split
        · have h1 := ih (refreshSrc (w.epoch + 1) p w0)
          have h2 : (refreshSrc (w.epoch + 1) p w0).cmdline = w0.cmdline ∧ (refreshSrc (w.epoch + 1) p w0).failing = w0.failing := by
            unfold refreshSrc
            cases w0.srcDb p with
            | none => exact ⟨rfl, rfl⟩
            | some r => simp only; split <;> exact ⟨rfl, rfl⟩
          exact ⟨h1.1.trans h2.1, h1.2.trans h2.2⟩
        · exact ih w0
    exact this _ _
  simp only [buildOnce, buildFull_eq]
  exact ⟨hs.2.2.1.trans hc.1, hs.2.2.2.trans hc.2, fun p hp => (hs.2.1 p hp).trans (by rw [hf])⟩

/-- **C18_converges**: "`llbuild ninja build` leaves the same output contents as a clean build".  After a build that
reports no failure (exit status 0: no command failed and no declared input was missing), every output of every command
the targets need - in particular every requested output - exists, and its content is `cleanContent`: what a build from
scratch writes from the current source contents and the current command lines (structural recursion over the manifest).
The build itself leaves sources and command lines alone (`build_sources`).  This includes the builds in which the
update-if-newer shortcut fires (a generator command without a stored result, a first build after the database was lost):
under `WorldInv` - stamps only increase - the shortcut is sound (`shortcut_fresh`). -/
theorem C18_converges (m : Manifest) (hwf : m.WF) (targets : List Path) (w : World) (hinv : WorldInv m w)
    (hok : buildFailed (buildFull m targets w).2 = false) :
    ∀ c ∈ m.cmds, c.phony = false → c.neededIn (demanded m targets) = true → ∀ o ∈ c.outs,
      ((buildOnce m targets w).1.content o).isSome = true ∧
      (buildOnce m targets w).1.content o =
        cleanContent m (buildOnce m targets w).1.cmdline (buildOnce m targets w).1.content m.cmds.reverse o := by
  intro c hc hp hn o ho
  have hq := build_quiet m hwf targets hinv.inv0 hok
  exact Quiet.converges hwf (hinv.build hwf targets) (fun _ _ _ _ _ _ _ _ => trivial)
    (⟨hq.1, fun c hc hn _ => hq.2 c hc hn⟩ : Quiet m (demanded m targets) (fun _ => True) (buildFull m targets w).1) hc hp hn trivial ho

/-- every requested output, in particular -/
theorem C18_converges_targets (m : Manifest) (hwf : m.WF) (targets : List Path) (w : World) (hinv : WorldInv m w)
    (hok : buildFailed (buildFull m targets w).2 = false) :
    ∀ o ∈ targets, ∀ c ∈ m.cmds, o ∈ c.outs → c.phony = false →
      (buildOnce m targets w).1.content o =
        cleanContent m (buildOnce m targets w).1.cmdline (buildOnce m targets w).1.content m.cmds.reverse o :=
  fun o ho c hc hoc hp =>
    (C18_converges m hwf targets w hinv hok c hc hp (needed_of_demanded hoc (demanded_targets m targets o ho)) o hoc).2

/-- the strongest statement for a build that does report failures: every needed command that neither is reported as
failed or skipped nor depends - through explicit, implicit or depfile-discovered inputs - on one that is, still
converges ("outputs of independent commands still converge") -/
theorem C18_converges_partial (m : Manifest) (hwf : m.WF) (targets : List Path) (w : World) (hinv : WorldInv m w) :
    ∀ c ∈ m.cmds, c.phony = false → c.neededIn (demanded m targets) = true → GoodIn m (buildFull m targets w).2 c →
    ∀ o ∈ c.outs, ((buildOnce m targets w).1.content o).isSome = true ∧
      (buildOnce m targets w).1.content o =
        cleanContent m (buildOnce m targets w).1.cmdline (buildOnce m targets w).1.content m.cmds.reverse o := by
  intro c hc hp hn hg o ho
  have hq := build_quiet_cmd m hwf targets hinv.inv0
  exact Quiet.converges hwf (hinv.build hwf targets) (goodIn_closed m _)
    (⟨hq.1, fun c hc hn hg => hq.2 c hc hn (hg c (DepOn.refl c))⟩ :
      Quiet m (demanded m targets) (GoodIn m (buildFull m targets w).2) (buildFull m targets w).1) hc hp hn hg ho

/-! ### null rebuild -/

/-- **C18_null_rebuild**: "an immediate rebuild runs no command".  Immediately after a build that reports no failure, a
second build runs no command - it does not even start a command task (the log is empty) - and leaves files, clock,
command results and the values / change epochs of input rules as they are (only the epoch counter and the `builtAt`
marks of the input rules of absent files move). -/
theorem C18_null_rebuild (m : Manifest) (hwf : m.WF) (targets : List Path) (w : World) (hinv : WorldInv m w)
    (hok : buildFailed (buildFull m targets w).2 = false) :
    (buildOnce m targets (buildOnce m targets w).1).2 = [] ∧
    (buildFull m targets (buildOnce m targets w).1).2 = [] ∧
    SameUpToBuiltAt (buildOnce m targets w).1 (buildOnce m targets (buildOnce m targets w).1).1 := by
  have hq := build_quiet m hwf targets hinv.inv0 hok
  have := quiet_build m targets (buildFull m targets w).1 hq.1 hq.2
  simp only [buildOnce]
  exact ⟨by rw [this.1]; rfl, this.1, this.2⟩

/-! ### no unnecessary work; order-only inputs -/

/-- **C18_minimal**: after a build that reports no failure and ANY edits `es` (no restriction: sources, outputs, command
lines, also the non-monotone `writeAt`), the next build starts the task of a command only if the command is
`Affected m es`: its command line was edited, one of its outputs was touched (deleted / overwritten), one of its
explicit, implicit or depfile-discovered inputs was touched, or one of these inputs is produced by an affected command.
Order-only inputs do not occur in `Affected`; what the task then decides (execute, or the update-if-newer shortcut) is
`inputsAvailable`'s business.  With `es = []` nothing is affected: this is the null rebuild again. -/
theorem C18_minimal (m : Manifest) (hwf : m.WF) (targets : List Path) (w : World) (hinv : WorldInv m w)
    (hok : buildFailed (buildFull m targets w).2 = false) (es : List Edit) :
    ∀ e ∈ (buildFull m targets (es.foldl applyEdit (buildOnce m targets w).1)).2,
      ∃ c ∈ m.cmds, c.name = e.1 ∧ Affected m es c := by
  have hq := build_quiet m hwf targets hinv.inv0 hok
  exact minimal_build m hwf targets (buildFull m targets w).1 ⟨hq.1, fun c hc hn _ => hq.2 c hc hn⟩ es

/-- **C18_order_only_world**: "Order-only inputs impose ordering without triggering rebuilds".  After a build that
reports no failure, edits that only touch files which are no command's output and no command's explicit, implicit or
depfile-discovered input - e.g. files that are only order-only inputs - make the next build run nothing at all. -/
theorem C18_order_only_world (m : Manifest) (hwf : m.WF) (targets : List Path) (w : World) (hinv : WorldInv m w)
    (hok : buildFailed (buildFull m targets w).2 = false) (es : List Edit)
    (hes : ∀ e ∈ es, e.cmd = none ∧ ∀ p, e.path = some p → producer m.cmds p = none ∧ ∀ c ∈ m.cmds, p ∉ depKeys c) :
    (buildFull m targets (es.foldl applyEdit (buildOnce m targets w).1)).2 = [] ∧
    (buildOnce m targets (es.foldl applyEdit (buildOnce m targets w).1)).2 = [] := by
  have hnone : ∀ c, Affected m es c → c ∈ m.cmds → False := by
    intro c ha
    induction ha with
    | hash h => obtain ⟨e, he, hc⟩ := h; intro _; rw [(hes e he).1] at hc; cases hc
    | @output c o ho h =>
      obtain ⟨e, he, hp⟩ := h
      intro hc
      have := ((hes e he).2 o hp).1
      rw [producer_of_mem hwf hc ho] at this; cases this
    | @source c k hk h =>
      obtain ⟨e, he, hp⟩ := h
      intro hc
      exact ((hes e he).2 k hp).2 c hc hk
    | input _ hq _ _ ih => intro _; exact ih hq
  have hlog : (buildFull m targets (es.foldl applyEdit (buildOnce m targets w).1)).2 = [] := by
    apply List.eq_nil_iff_forall_not_mem.2
    intro e he
    obtain ⟨c, hc, _, ha⟩ := C18_minimal m hwf targets w hinv hok es e he
    exact hnone c ha hc
  exact ⟨hlog, by
    simp only [buildOnce] at hlog ⊢
    rw [hlog]; rfl⟩

/-! ### necessary work: command line, deleted output -/

/-- **C18_command_line_change_world**: "a changed command line re-runs its command".  A needed, real, non-generator
command whose command line is not the one its stored result was built with (`Edit.setHash` after a build; or no stored
result at all) is executed by the next build that reports no failure - and then, by `C18_converges`, its outputs are
what a clean build writes with the NEW command line. -/
theorem C18_command_line_change_world (m : Manifest) (hwf : m.WF) (targets : List Path) (w : World) (hinv : WorldInv m w)
    (hok : buildFailed (buildFull m targets w).2 = false) {c : Command} (hc : c ∈ m.cmds) (hp : c.phony = false)
    (hg : c.generator = false) (hn : c.neededIn (demanded m targets) = true)
    (hchg : ∀ r, w.cmdDb c.name = some r → r.value.hash ≠ w.cmdline c.name) :
    ⟨c.name, true⟩ ∈ (buildOnce m targets w).2 ∧
    ∀ o ∈ c.outs, (buildOnce m targets w).1.content o =
      cleanContent m (buildOnce m targets w).1.cmdline (buildOnce m targets w).1.content m.cmds.reverse o := by
  refine ⟨runsOf_executed (must_run m hwf targets w hok hc hp hn ?_), fun o ho => (C18_converges m hwf targets w hinv hok c hc hp hn o ho).2⟩
  intro wi hdb _ hcl
  have hk : (kOf wi c).generator = false := hg
  constructor
  · unfold needsTask
    rw [hdb]
    cases hr : w.cmdDb c.name with
    | none => rfl
    | some r =>
      simp only [Bool.or_eq_true, bne_iff_ne, ne_eq]
      left
      have := (C18_command_line_change_reruns (kOf wi c) r.value (c.outs.map wi.info) {} (accOf m.cmds wi c) hk
        (by simpa [kOf, Command.cmd, hcl] using hchg r hr)).1
      simp only [kOf] at this
      rw [this]; simp
  · apply shortcut_false_of_prior hk
    intro v hv _
    rw [hdb] at hv
    cases hr : w.cmdDb c.name with
    | none => rw [hr] at hv; cases hv
    | some r =>
      rw [hr] at hv
      simp only [Option.map_some, Option.some.injEq] at hv
      subst hv
      simpa [kOf, Command.cmd, hcl] using hchg r hr

/-- **C18_output_deletion_world**: a needed real command one of whose outputs is missing (`Edit.delete` after a build)
is executed by the next build that reports no failure, and the output is back with the content a clean build gives it -/
theorem C18_output_deletion_world (m : Manifest) (hwf : m.WF) (targets : List Path) (w : World) (hinv : WorldInv m w)
    (hok : buildFailed (buildFull m targets w).2 = false) {c : Command} (hc : c ∈ m.cmds) (hp : c.phony = false)
    (hn : c.neededIn (demanded m targets) = true) {o : Path} (ho : o ∈ c.outs) (hdel : w.files o = none) :
    ⟨c.name, true⟩ ∈ (buildOnce m targets w).2 ∧ ((buildOnce m targets w).1.content o).isSome = true ∧
    (buildOnce m targets w).1.content o =
      cleanContent m (buildOnce m targets w).1.cmdline (buildOnce m targets w).1.content m.cmds.reverse o := by
  refine ⟨runsOf_executed (must_run m hwf targets w hok hc hp hn ?_), C18_converges m hwf targets w hinv hok c hc hp hn o ho⟩
  intro wi hdb hfiles _
  have hmiss : (wi.info o).isMissing = true := by
    simp [World.info, hfiles o ho, hdel, infoOf, FInfo.missing, FInfo.isMissing]
  constructor
  · unfold needsTask
    cases hr : wi.cmdDb c.name with
    | none => rfl
    | some r =>
      simp only [Bool.or_eq_true, bne_iff_ne, ne_eq]
      left
      intro hv
      obtain ⟨_, _, hmatch⟩ := valid_infosMatch hp hv
      obtain ⟨i, hi, hio⟩ := List.getElem_of_mem ho
      have := (hmatch i hi).1
      rw [hio, hmiss] at this
      cases this
  · cases hs : shortcut {} (kOf wi c) (accOf m.cmds wi c) ((wi.cmdDb c.name).map (·.value)) (c.outs.map wi.info) with
    | false => rfl
    | true =>
      have := shortcut_outs_exist hs (wi.info o) (List.mem_map.2 ⟨o, ho, rfl⟩)
      rw [hmiss] at this; cases this

/-! ### failures -/

/-- **C18_failure_stops_and_retries_world**: "a failing command stops its dependents and is retried next time".
In ANY build (keep-going semantics, see (A6) of the model):
(1) every needed command that depends - through explicit or implicit inputs, directly or through other commands and
    phony aliases - on a command the build reports as failed (or skipped) is itself skipped and is not executed;
(2) the failed command is left with a Failed value, a skipped one with a Skipped value (never accepted again:
    `C18_failure_values_never_valid`);
(3) every needed command that does not depend on a failed or skipped one still converges (`C18_converges_partial`);
(4) in the next build - whatever edits come in between - the task of a command whose stored value is not a successful
    one runs again; unless it is a generator command it is spawned again (executed if it now succeeds, failed if it
    still fails) or skipped because an input of its own now fails; and when that next build reports no failure,
    everything, the former dependents included, converges (`C18_converges`). -/
theorem C18_failure_stops_and_retries_world (m : Manifest) (hwf : m.WF) (targets : List Path) (w : World) (hinv : WorldInv m w) :
    (∀ q ∈ m.cmds, BadIn (buildFull m targets w).2 q.name →
      (∃ r, (buildOnce m targets w).1.cmdDb q.name = some r ∧ (r.value = .failed ∨ r.value = .skipped)) ∧
      ∀ c, Downstream m q c → c.neededIn (demanded m targets) = true →
        (c.name, Did.skipped) ∈ (buildFull m targets w).2 ∧ (∀ x, (c.name, x) ∈ (buildFull m targets w).2 → x = .skipped) ∧
        ∀ b, (⟨c.name, b⟩ : CommandRun) ∉ (buildOnce m targets w).2) ∧
    (∀ c ∈ m.cmds, c.phony = false → c.neededIn (demanded m targets) = true →
      (∀ r, w.cmdDb c.name = some r → r.value.kind ≠ .successfulCommand) →
      ∃ x, (c.name, x) ∈ (buildFull m targets w).2 ∧
        (c.generator = false → x = .skipped ∨ (x = .failed ∧ w.failing c.name = true) ∨ (x = .executed ∧ w.failing c.name = false))) := by
  refine ⟨fun q hq hbad => ⟨build_bad_value m hwf targets hinv hq hbad, fun c hd hn => ?_⟩,
    fun c hc hp hn hbad => retried m hwf targets w hc hp hn hbad⟩
  obtain ⟨h1, h2⟩ := failure_stops m hwf targets hinv hq hbad hd hn
  refine ⟨h1, h2, fun b hb => ?_⟩
  rcases mem_runsOf hb with ⟨_, h3⟩ | ⟨_, h3⟩
  · cases h2 _ h3
  · cases h2 _ h3

/-- a command the build reports as failed is left with a Failed value, which no later build accepts -/
theorem C18_failed_is_retried (m : Manifest) (hwf : m.WF) (targets : List Path) (w : World) (hinv : WorldInv m w)
    {c : Command} (hc : c ∈ m.cmds) (hp : c.phony = false) (hg : c.generator = false) (hn : c.neededIn (demanded m targets) = true)
    (hfail : (c.name, Did.failed) ∈ (buildFull m targets w).2) (es : List Edit) :
    ∃ x, (c.name, x) ∈ (buildFull m targets (es.foldl applyEdit (buildOnce m targets w).1)).2 ∧
      (x = .skipped ∨ x = .failed ∨ x = .executed) := by
  obtain ⟨r, hr, hv⟩ := build_bad_value m hwf targets hinv hc (Or.inl hfail)
  have hdb := (applyEdits_frame es (buildOnce m targets w).1).2.1
  obtain ⟨x, hx, hcase⟩ := retried m hwf targets (es.foldl applyEdit (buildOnce m targets w).1) hc hp hn (fun r' hr' => by
    rw [hdb] at hr'
    simp only [buildOnce] at hr'
    rw [hr] at hr'; cases hr'
    rcases hv with hv | hv <;> simp [hv, BuildValue.failed, BuildValue.skipped])
  refine ⟨x, hx, ?_⟩
  rcases hcase hg with h | ⟨h, _⟩ | ⟨h, _⟩
  · exact Or.inl h
  · exact Or.inr (Or.inl h)
  · exact Or.inr (Or.inr h)

/-! ### the update-if-newer shortcut -/

/-- **C18_update_if_newer_world**: the hypothesis of `C18_update_if_newer_sound` (Props/C18.lean), at the level of
worlds, is `WorldInv`: (H1) every write - an edit of a source, an output written by a command - stamps the file above
every earlier stamp (`Edit.ok` excludes `writeAt`; `Inv0.fileStamps`); (H2) the values a task receives reflect the file
system (`Settled`, from the input rules re-validated at the beginning of the build and the commands processed before);
(H3) outputs are only written by their command (`Edit.ok`: edits write sources only).  Under it, a command that the
build declared up to date from time stamps alone (`Did.updated`: first build with an existing tree and no usable stored
result - a lost database, `--no-db` - for generator commands; a changed input value with an older stamp otherwise) and
whose inputs did not fail holds the content a clean build gives it.  Without (H1) this is false:
`C18_update_if_newer_world_counter` below. -/
theorem C18_update_if_newer_world (m : Manifest) (hwf : m.WF) (targets : List Path) (w : World) (hinv : WorldInv m w)
    {c : Command} (hc : c ∈ m.cmds) (hp : c.phony = false) (hn : c.neededIn (demanded m targets) = true)
    (_hupd : (c.name, Did.updated) ∈ (buildFull m targets w).2) (hgood : GoodIn m (buildFull m targets w).2 c) :
    ∀ o ∈ c.outs, (buildOnce m targets w).1.content o =
      cleanContent m (buildOnce m targets w).1.cmdline (buildOnce m targets w).1.content m.cmds.reverse o :=
  fun o ho => (C18_converges_partial m hwf targets w hinv c hc hp hn hgood o ho).2

/-! ### non-vacuity: a concrete manifest and a real history -/

/-- sources 0 1 2 3 (2 is only an order-only input).  c0: 0 | 1 → 10;  c1: 10 || 2 → 11 (restat);  c2: 10 → 12 13;
c3: 11 13 → 14;  c4: 3 → 15 (generator, independent of the others) -/
def exM : Manifest :=
  { cmds := [{ name := 0, outs := [10], exp := [0], imp := [1] },
             { name := 1, outs := [11], exp := [10], oo := [2], restat := true },
             { name := 2, outs := [12, 13], exp := [10] },
             { name := 3, outs := [14], exp := [11, 13] },
             { name := 4, outs := [15], exp := [3], generator := true }],
    sem := encSem }

def exT : List Path := [14, 12, 15]

/-- edit → build → edit → build → delete an output → build → change a command line → build -/
def exHist : List Step :=
  [.edit (.write 0 [100]), .edit (.write 1 [101]), .edit (.write 2 [102]), .edit (.write 3 [103]), .build,
   .edit (.write 0 [104]), .build, .edit (.delete 13), .build, .edit (.setHash 1 7), .build]

def exW (n : Nat) : World := runSteps exM exT (exHist.take n)

example : exM.WF := by decide
example : ∀ s ∈ exHist, s.ok exM.cmds := by decide

theorem exInv (n : Nat) : WorldInv exM (exW n) :=
  (C18_world_invariant exM (by decide) exT).2.2.2.2 _ (fun s hs => by
    have : ∀ s ∈ exHist, s.ok exM.cmds := by decide
    exact this s (List.mem_of_mem_take hs))

/-- the first build runs everything and reports no failure ... -/
example : (buildFull exM exT (exW 4)).2 = [(0, .executed), (1, .executed), (2, .executed), (3, .executed), (4, .executed)] ∧
    buildFailed (buildFull exM exT (exW 4)).2 = false := by decide +kernel
/-- ... so `C18_converges` and `C18_null_rebuild` apply to it (their hypotheses hold) -/
example := C18_converges exM (by decide) exT (exW 4) (exInv 4) (by decide +kernel)
example := C18_null_rebuild exM (by decide) exT (exW 4) (exInv 4) (by decide +kernel)
/-- the conclusion on this instance, computed: the output holds the clean-build content, which is not trivial -/
example : (exW 5).content 14 = cleanContent exM (exW 5).cmdline (exW 5).content exM.cmds.reverse 14 ∧
    (exW 5).content 14 = some [1, 0, 14, 2, 14, 1, 0, 11, 1, 9, 1, 0, 10, 2, 2, 100, 2, 101, 14, 1, 0, 13, 1, 9, 1, 0, 10, 2, 2, 100, 2, 101] := by
  decide +kernel
example : (buildOnce exM exT (exW 5)).2 = [] := by decide +kernel

/-- a source edit re-runs what depends on it and nothing else (command 4 is not `Affected`, and does not run) -/
example : (buildFull exM exT (exW 6)).2 = [(0, .executed), (1, .executed), (2, .executed), (3, .executed)] ∧
    buildFailed (buildFull exM exT (exW 6)).2 = false := by decide +kernel
example := C18_minimal exM (by decide) exT (exW 4) (exInv 4) (by decide +kernel) [.write 0 [104]]
example : ¬ Affected exM [.write 0 [104]] { name := 4, outs := [15], exp := [3], generator := true } := by
  intro h
  cases h with
  | hash h => obtain ⟨e, he, hc⟩ := h; simp at he; subst he; simp [Edit.cmd] at hc
  | output ho h => obtain ⟨e, he, hp⟩ := h; simp at he ho; subst he ho; simp [Edit.path] at hp
  | source hk h => obtain ⟨e, he, hp⟩ := h; simp [depKeys] at he hk; subst he hk; simp [Edit.path] at hp
  | input hk hq hkq _ =>
    simp [depKeys] at hk; subst hk
    simp [exM] at hq
    rcases hq with rfl | rfl | rfl | rfl | rfl <;> simp at hkq

/-- touching the file that is only an order-only input runs nothing: the hypothesis of `C18_order_only_world` holds -/
example := C18_order_only_world exM (by decide) exT (exW 4) (exInv 4) (by decide +kernel) [.touch 2] (by decide)

/-- a deleted output: the hypotheses of `C18_output_deletion_world` hold in the world after the deletion; the build
re-runs the producer (and its consumer, whose input was rewritten) -/
example : (exW 8).files 13 = none ∧ buildFailed (buildFull exM exT (exW 8)).2 = false ∧
    (buildOnce exM exT (exW 8)).2 = [⟨2, true⟩, ⟨3, true⟩] := by decide +kernel
example := C18_output_deletion_world exM (by decide) exT (exW 8) (exInv 8) (by decide +kernel)
  (c := { name := 2, outs := [12, 13], exp := [10] }) (by decide) rfl (by decide) (o := 13) (by decide) (by decide +kernel)

/-- a changed command line: the stored hash is 0, the command line now 7; the command runs, its consumer too -/
example : ((exW 10).cmdDb 1).map (·.value.hash) = some 0 ∧ (exW 10).cmdline 1 = 7 ∧
    buildFailed (buildFull exM exT (exW 10)).2 = false ∧ (buildOnce exM exT (exW 10)).2 = [⟨1, true⟩, ⟨3, true⟩] := by
  decide +kernel
def exC1 : Command := { name := 1, outs := [11], exp := [10], oo := [2], restat := true }

theorem exHash : ∀ r, (exW 10).cmdDb exC1.name = some r → r.value.hash ≠ (exW 10).cmdline exC1.name := by
  intro r hr
  have h : ((exW 10).cmdDb exC1.name).map (·.value.hash) = some 0 ∧ (exW 10).cmdline exC1.name = 7 := by decide +kernel
  rw [hr] at h
  simp only [Option.map_some, Option.some.injEq] at h
  rw [h.1, h.2]; decide
example := C18_command_line_change_world exM (by decide) exT (exW 10) (exInv 10) (by decide +kernel)
  (c := exC1) (by decide) rfl rfl (by decide +kernel) exHash

/-- a failing command: command 0 fails after an edit; its dependents 1 2 3 are skipped, the independent command 4 is
not concerned; after the repair everything is rebuilt and nothing is reported -/
def exFail : List Step :=
  exHist.take 5 ++ [.edit (.setFail 0 true), .edit (.write 0 [105]), .build, .edit (.setFail 0 false), .build]

theorem exFailInv (n : Nat) : WorldInv exM (runSteps exM exT (exFail.take n)) :=
  (C18_world_invariant exM (by decide) exT).2.2.2.2 _ (fun s hs => by
    have : ∀ s ∈ exFail, s.ok exM.cmds := by decide
    exact this s (List.mem_of_mem_take hs))

example : (buildFull exM exT (runSteps exM exT (exFail.take 7))).2 = [(0, .failed), (1, .skipped), (2, .skipped), (3, .skipped)] ∧
    (buildFull exM exT (runSteps exM exT (exFail.take 9))).2 = [(0, .executed), (1, .executed), (2, .executed), (3, .executed)] ∧
    buildFailed (buildFull exM exT (runSteps exM exT (exFail.take 9))).2 = false := by decide +kernel
example := (C18_failure_stops_and_retries_world exM (by decide) exT _ (exFailInv 7)).1
  { name := 0, outs := [10], exp := [0], imp := [1] } (by decide) (Or.inl (by decide +kernel))

/-- the full-strength reading "a failing command stops ALL its dependents" - also those that depend on it through an
order-only input only - is FALSE of the model, as it is of the code (known finding F39: `mustFollow` delivers no value,
so the task cannot see the failure; Ninja does not run such a command): command 0 fails, command 1, whose only link to
it is the order-only input 10, is executed in the same (keep-going) build.  `C18_failure_stops_and_retries_world` is the
strongest true statement: explicit and implicit inputs. -/
theorem C18_failure_order_only_dependent_runs :
    let m : Manifest := { cmds := [{ name := 0, outs := [10], exp := [0] }, { name := 1, outs := [11], exp := [1], oo := [10] }],
                          sem := encSem }
    let w := runSteps m [11] [.edit (.write 0 [100]), .edit (.write 1 [101]), .edit (.setFail 0 true)]
    m.WF ∧ (buildFull m [11] w).2 = [(0, .failed), (1, .executed)] := by
  decide +kernel

/-- **C18_update_if_newer_world_counter**: why the hypothesis is needed.  Manifest: one command 0 → 10.  The source is
rewritten with NEW content but an OLD stamp (`Edit.writeAt`, not `Edit.ok`: `cp -p`, a checkout of an older file): the
build reports no failure, declares the command up to date (`Did.updated`), and the output is NOT what a clean build
writes.  Documented Ninja-compatible behaviour; replayed on the real tool (`counter_history_old_mtime`). -/
theorem C18_update_if_newer_world_counter :
    let m : Manifest := { cmds := [{ name := 0, outs := [10], exp := [0] }], sem := encSem }
    let w := runSteps m [10] [.edit (.write 0 [100]), .build, .edit (.writeAt 0 (some [101]) 0)]
    ¬ (Edit.writeAt 0 (some [101]) 0).ok m.cmds ∧
    (buildFull m [10] w).2 = [(0, .updated)] ∧ buildFailed (buildFull m [10] w).2 = false ∧
    (buildOnce m [10] w).1.content 10 ≠
      cleanContent m (buildOnce m [10] w).1.cmdline (buildOnce m [10] w).1.content m.cmds.reverse 10 := by
  decide +kernel

/-- the database is lost (or `--no-db`): `WorldInv` survives (`C18_world_invariant`), non-generator commands are all
executed again, the generator command 4 is declared up to date from its time stamps - soundly, by `C18_converges` -/
example : (buildFull exM exT (runSteps exM exT (exHist.take 5 ++ [.dropDb]))).2 =
    [(0, .executed), (1, .executed), (2, .executed), (3, .executed), (4, .updated)] ∧
    buildFailed (buildFull exM exT (runSteps exM exT (exHist.take 5 ++ [.dropDb]))).2 = false := by decide +kernel

end LLBuild.NinjaWorld
