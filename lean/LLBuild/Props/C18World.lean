/-
C18, whole-build clauses, over the world model `Model/NinjaWorld.lean` (files + logical clock + build database, a manifest
of deterministic commands, `buildOnce` = the per-command decision functions of `Model/NinjaBuild.lean` composed the way
the engine composes them; compared with the real `llbuild ninja build` on every generated history by the stream `world`
of vlib/props/c18.py):

"For any Ninja manifest of deterministic commands and any history of observable source edits, output deletions
and manifest edits, `llbuild ninja build` leaves the same output contents as a clean build, and an immediate
rebuild runs no command.  Order-only inputs impose ordering without triggering rebuilds, implicit inputs and
depfile-discovered inputs trigger rebuilds, a changed command line re-runs its command, and a failing command
stops its dependents and is retried next time."

All theorems are for ALL well-formed manifests (`Manifest.WF`, decidable), ALL command semantics (`Manifest.sem`), ALL
worlds that satisfy `WorldInv` - which holds in the empty world and is preserved by every edit of a history (`Edit.ok`:
sources written with fresh stamps, outputs deleted, command lines changed, commands made to fail or to succeed), by
every build and by dropping the database (`C18_world_invariant`).
-/
import LLBuild.Lemmas.NinjaWorldGraph

namespace LLBuild.NinjaWorld
open LLBuild.NinjaBuild LLBuild.NinjaBuild.Gen

/-! ### histories -/

inductive Step
  | edit (e : Edit)
  | build
  /-- the database is deleted (or the build runs with `--no-db`, which persists nothing) -/
  | dropDb
  deriving DecidableEq, Repr

def runStep (m : Manifest) (targets : List Path) (w : World) : Step → World
  | .edit e => applyEdit w e
  | .build => (buildOnce m targets w).1
  | .dropDb => w.dropDb

/-- the world after a history, from the empty world and the empty database -/
def runSteps (m : Manifest) (targets : List Path) (steps : List Step) : World :=
  steps.foldl (runStep m targets) World.empty

def Step.ok (cs : List Command) : Step → Prop
  | .edit e => e.ok cs
  | _ => True

instance (cs : List Command) (s : Step) : Decidable (s.ok cs) := by
  cases s <;> simp only [Step.ok] <;> infer_instance

theorem WorldInv.dropDb {m : Manifest} {w : World} (h : WorldInv m w) : WorldInv m w.dropDb := by
  refine ⟨⟨h.inv0.fileStamps, ?_, ?_, ?_, ?_, ?_, h.inv0.phonyAbsent⟩, ?_, ?_, ?_, ?_, ?_, ?_⟩
  · intro p r hr; simp [World.dropDb] at hr
  · intro n r hr; simp [World.dropDb] at hr
  · intro p r hr; simp [World.dropDb] at hr
  · intro n r hr; simp [World.dropDb] at hr
  · intro c _ r hr; simp [World.dropDb] at hr
  · intro c _ _ r hr; simp [World.dropDb] at hr
  · intro c _ r hr; simp [World.dropDb] at hr
  · intro c _ r hr; simp [World.dropDb] at hr
  · intro n r hr; simp [World.dropDb] at hr
  · intro before c rest hat hp o ho f hf hu
    have hu' : Usable w c := by
      rcases hu with hg | ⟨r, hr, _⟩
      · exact Or.inl hg
      · simp [World.dropDb] at hr
    exact prov_mono (h.t before c rest hat hp o ho f hf hu') (fun _ r hr _ => by simp [World.dropDb] at hr) (fun _ _ g hg _ => hg)
  · intro _ _ _ _ _ r hr; simp [World.dropDb] at hr

/-- **The invariant.**  `WorldInv` holds in the empty world, and every step of a history preserves it: an edit (a source
written or touched with a fresh stamp, an output deleted, a command line changed, a command made to fail or succeed), a
build of any targets, the loss of the database.  Hence it holds after every history. -/
theorem C18_world_invariant (m : Manifest) (hwf : m.WF) (targets : List Path) :
    WorldInv m World.empty ∧
    (∀ w e, WorldInv m w → e.ok m.cmds → WorldInv m (applyEdit w e)) ∧
    (∀ w, WorldInv m w → WorldInv m (buildOnce m targets w).1) ∧
    (∀ w, WorldInv m w → WorldInv m w.dropDb) ∧
    ∀ steps : List Step, (∀ s ∈ steps, s.ok m.cmds) → WorldInv m (runSteps m targets steps) := by
  have hstep : ∀ (w : World) (s : Step), WorldInv m w → s.ok m.cmds → WorldInv m (runStep m targets w s) := by
    intro w s hw hs
    cases s with
    | edit e => exact hw.edit hwf hs
    | build => exact hw.build hwf targets
    | dropDb => exact hw.dropDb
  refine ⟨WorldInv.empty m, fun w e hw he => hw.edit hwf he, fun w hw => hw.build hwf targets, fun w hw => hw.dropDb, ?_⟩
  intro steps
  have : ∀ (l : List Step) (w : World), WorldInv m w → (∀ s ∈ l, s.ok m.cmds) → WorldInv m (l.foldl (runStep m targets) w) := by
    intro l
    induction l with
    | nil => intro w hw _; exact hw
    | cons s l ih =>
      intro w hw hl
      exact ih _ (hstep w s hw (hl s List.mem_cons_self)) (fun s' hs' => hl s' (List.mem_cons_of_mem _ hs'))
  exact this steps World.empty (WorldInv.empty m)

/-! ### convergence -/

/-- a build does not touch the source files, the command lines or the failing flags -/
theorem build_sources (m : Manifest) (hwf : m.WF) (targets : List Path) (w : World) :
    (buildOnce m targets w).1.cmdline = w.cmdline ∧ (buildOnce m targets w).1.failing = w.failing ∧
    ∀ p, producer m.cmds p = none → (buildOnce m targets w).1.files p = w.files p := by
  have hs := stepAll_sources m (demanded m targets) (w.epoch + 1) hwf (started m targets w)
  have hf := started_files m targets w
  have hc : (started m targets w).cmdline = w.cmdline ∧ (started m targets w).failing = w.failing := by
    have : ∀ (ps : List Path) (w0 : World), (refreshSrcs m.cmds (w.epoch + 1) ps w0).cmdline = w0.cmdline ∧
        (refreshSrcs m.cmds (w.epoch + 1) ps w0).failing = w0.failing := by
      intro ps
      induction ps with
      | nil => intro w0; exact ⟨rfl, rfl⟩
      | cons p ps ih =>
        intro w0
        simp only [refreshSrcs]
        split
        · have h1 := ih (refreshSrc (w.epoch + 1) p w0)
          have h2 : (refreshSrc (w.epoch + 1) p w0).cmdline = w0.cmdline ∧ (refreshSrc (w.epoch + 1) p w0).failing = w0.failing := by
            unfold refreshSrc
            cases w0.srcDb p with
            | none => exact ⟨rfl, rfl⟩
            | some r => simp only; split <;> exact ⟨rfl, rfl⟩
          exact ⟨h1.1.trans h2.1, h1.2.trans h2.2⟩
        · exact ih w0
    exact this _ _
  simp only [buildOnce, buildFull_eq]
  exact ⟨hs.2.2.1.trans hc.1, hs.2.2.2.trans hc.2, fun p hp => (hs.2.1 p hp).trans (by rw [hf])⟩

/-- **C18_converges**: "`llbuild ninja build` leaves the same output contents as a clean build".  After a build that
reports no failure (exit status 0: no command failed and no declared input was missing), every output of every command
the targets need - in particular every requested output - exists, and its content is `cleanContent`: what a build from
scratch writes from the current source contents and the current command lines (structural recursion over the manifest).
The build itself leaves sources and command lines alone (`build_sources`).  This includes the builds in which the
update-if-newer shortcut fires (a generator command without a stored result, a first build after the database was lost):
under `WorldInv` - stamps only increase - the shortcut is sound (`shortcut_fresh`). -/
theorem C18_converges (m : Manifest) (hwf : m.WF) (targets : List Path) (w : World) (hinv : WorldInv m w)
    (hok : buildFailed (buildFull m targets w).2 = false) :
    ∀ c ∈ m.cmds, c.phony = false → c.neededIn (demanded m targets) = true → ∀ o ∈ c.outs,
      ((buildOnce m targets w).1.content o).isSome = true ∧
      (buildOnce m targets w).1.content o =
        cleanContent m (buildOnce m targets w).1.cmdline (buildOnce m targets w).1.content m.cmds.reverse o := by
  intro c hc hp hn o ho
  exact Quiet.converges hwf (hinv.build hwf targets) (fun _ _ _ _ _ _ _ _ => trivial)
    (quiet_after_build m hwf targets hinv hok) hc hp hn trivial ho

/-- every requested output, in particular -/
theorem C18_converges_targets (m : Manifest) (hwf : m.WF) (targets : List Path) (w : World) (hinv : WorldInv m w)
    (hok : buildFailed (buildFull m targets w).2 = false) :
    ∀ o ∈ targets, ∀ c ∈ m.cmds, o ∈ c.outs → c.phony = false →
      (buildOnce m targets w).1.content o =
        cleanContent m (buildOnce m targets w).1.cmdline (buildOnce m targets w).1.content m.cmds.reverse o :=
  fun o ho c hc hoc hp =>
    (C18_converges m hwf targets w hinv hok c hc hp (needed_of_demanded hoc (demanded_targets m targets o ho)) o hoc).2

/-- the strongest statement for a build that does report failures: every needed command that neither is reported as
failed or skipped nor depends - through explicit, implicit or depfile-discovered inputs - on one that is, still
converges ("outputs of independent commands still converge") -/
theorem C18_converges_partial (m : Manifest) (hwf : m.WF) (targets : List Path) (w : World) (hinv : WorldInv m w) :
    ∀ c ∈ m.cmds, c.phony = false → c.neededIn (demanded m targets) = true → GoodIn m (buildFull m targets w).2 c →
    ∀ o ∈ c.outs, ((buildOnce m targets w).1.content o).isSome = true ∧
      (buildOnce m targets w).1.content o =
        cleanContent m (buildOnce m targets w).1.cmdline (buildOnce m targets w).1.content m.cmds.reverse o := by
  intro c hc hp hn hg o ho
  exact Quiet.converges hwf (hinv.build hwf targets) (goodIn_closed m _)
    (quiet_after_build_good m hwf targets hinv) hc hp hn hg ho

/-! ### null rebuild -/

/-- **C18_null_rebuild**: "an immediate rebuild runs no command".  Immediately after a build that reports no failure, a
second build runs no command - it does not even start a command task (the log is empty) - and leaves files, clock,
command results and the values / change epochs of input rules as they are (only the epoch counter and the `builtAt`
marks of the input rules of absent files move). -/
theorem C18_null_rebuild (m : Manifest) (hwf : m.WF) (targets : List Path) (w : World) (hinv : WorldInv m w)
    (hok : buildFailed (buildFull m targets w).2 = false) :
    (buildOnce m targets (buildOnce m targets w).1).2 = [] ∧
    (buildFull m targets (buildOnce m targets w).1).2 = [] ∧
    SameUpToBuiltAt (buildOnce m targets w).1 (buildOnce m targets (buildOnce m targets w).1).1 := by
  have := (quiet_after_build m hwf targets hinv hok).build_nothing hwf
  simp only [buildOnce]
  exact ⟨by rw [this.1]; rfl, this.1, this.2⟩

/-! ### no unnecessary work; order-only inputs -/

/-- **C18_minimal**: after a build that reports no failure and ANY edits `es` (no restriction: sources, outputs, command
lines, also the non-monotone `writeAt`), the next build starts the task of a command only if the command is
`Affected m es`: its command line was edited, one of its outputs was touched (deleted / overwritten), one of its
explicit, implicit or depfile-discovered inputs was touched, or one of these inputs is produced by an affected command.
Order-only inputs do not occur in `Affected`; what the task then decides (execute, or the update-if-newer shortcut) is
`inputsAvailable`'s business.  With `es = []` nothing is affected: this is the null rebuild again. -/
theorem C18_minimal (m : Manifest) (hwf : m.WF) (targets : List Path) (w : World) (hinv : WorldInv m w)
    (hok : buildFailed (buildFull m targets w).2 = false) (es : List Edit) :
    ∀ e ∈ (buildFull m targets (es.foldl applyEdit (buildOnce m targets w).1)).2,
      ∃ c ∈ m.cmds, c.name = e.1 ∧ Affected m es c := by
  exact minimal_build m hwf targets (buildFull m targets w).1 (quiet_after_build m hwf targets hinv hok) es

/-- **C18_order_only_world**: "Order-only inputs impose ordering without triggering rebuilds".  After a build that
reports no failure, edits that only touch files which are no command's output and no command's explicit, implicit or
depfile-discovered input - e.g. files that are only order-only inputs - make the next build run nothing at all. -/
theorem C18_order_only_world (m : Manifest) (hwf : m.WF) (targets : List Path) (w : World) (hinv : WorldInv m w)
    (hok : buildFailed (buildFull m targets w).2 = false) (es : List Edit)
    (hes : ∀ e ∈ es, e.cmd = none ∧ ∀ p, e.path = some p → producer m.cmds p = none ∧ ∀ c ∈ m.cmds, p ∉ depKeys c) :
    (buildFull m targets (es.foldl applyEdit (buildOnce m targets w).1)).2 = [] ∧
    (buildOnce m targets (es.foldl applyEdit (buildOnce m targets w).1)).2 = [] := by
  have hnone : ∀ c, Affected m es c → c ∈ m.cmds → False := by
    intro c ha
    induction ha with
    | hash h => obtain ⟨e, he, hc⟩ := h; intro _; rw [(hes e he).1] at hc; cases hc
    | @output c o ho h =>
      obtain ⟨e, he, hp⟩ := h
      intro hc
      have := ((hes e he).2 o hp).1
      rw [producer_of_mem hwf hc ho] at this; cases this
    | @source c k hk h =>
      obtain ⟨e, he, hp⟩ := h
      intro hc
      exact ((hes e he).2 k hp).2 c hc hk
    | input _ hq _ _ ih => intro _; exact ih hq
  have hlog : (buildFull m targets (es.foldl applyEdit (buildOnce m targets w).1)).2 = [] := by
    apply List.eq_nil_iff_forall_not_mem.2
    intro e he
    obtain ⟨c, hc, _, ha⟩ := C18_minimal m hwf targets w hinv hok es e he
    exact hnone c ha hc
  exact ⟨hlog, by
    simp only [buildOnce] at hlog ⊢
    rw [hlog]; rfl⟩

/-! ### necessary work: command line, deleted output -/

/-- **C18_command_line_change_world**: "a changed command line re-runs its command".  A needed, real, non-generator
command whose command line is not the one its stored result was built with (`Edit.setHash` after a build; or no stored
result at all) is executed by the next build that reports no failure - and then, by `C18_converges`, its outputs are
what a clean build writes with the NEW command line. -/
theorem C18_command_line_change_world (m : Manifest) (hwf : m.WF) (targets : List Path) (w : World) (hinv : WorldInv m w)
    (hok : buildFailed (buildFull m targets w).2 = false) {c : Command} (hc : c ∈ m.cmds) (hp : c.phony = false)
    (hg : c.generator = false) (hn : c.neededIn (demanded m targets) = true)
    (hchg : ∀ r, w.cmdDb c.name = some r → r.value.hash ≠ w.cmdline c.name) :
    ⟨c.name, true⟩ ∈ (buildOnce m targets w).2 ∧
    ∀ o ∈ c.outs, (buildOnce m targets w).1.content o =
      cleanContent m (buildOnce m targets w).1.cmdline (buildOnce m targets w).1.content m.cmds.reverse o := by
  refine ⟨runsOf_executed (must_run m hwf targets w hok hc hp hn ?_), fun o ho => (C18_converges m hwf targets w hinv hok c hc hp hn o ho).2⟩
  intro wi hdb _ hcl
  have hk : (kOf wi c).generator = false := hg
  constructor
  · unfold needsTask
    rw [hdb]
    cases hr : w.cmdDb c.name with
    | none => rfl
    | some r =>
      simp only [Bool.or_eq_true, bne_iff_ne, ne_eq]
      left; right
      have := (C18_command_line_change_reruns (kOf wi c) r.value (c.outs.map wi.info) {} (accOf m.cmds wi c) hk
        (by simpa [kOf, Command.cmd, hcl] using hchg r hr)).1
      simp only [kOf] at this
      rw [this]; simp
  · apply shortcut_false_of_prior hk
    intro v hv _
    cases hpr : priorRow wi c with
    | none => rw [hpr] at hv; cases hv
    | some r =>
      rw [hpr] at hv
      simp only [Option.map_some, Option.some.injEq] at hv
      subst hv
      have hr := (priorRow_some.1 hpr).1
      rw [hdb] at hr
      simpa [kOf, Command.cmd, hcl] using hchg r hr

/-- **C18_output_deletion_world**: a needed real command one of whose outputs is missing (`Edit.delete` after a build)
is executed by the next build that reports no failure, and the output is back with the content a clean build gives it -/
theorem C18_output_deletion_world (m : Manifest) (hwf : m.WF) (targets : List Path) (w : World) (hinv : WorldInv m w)
    (hok : buildFailed (buildFull m targets w).2 = false) {c : Command} (hc : c ∈ m.cmds) (hp : c.phony = false)
    (hn : c.neededIn (demanded m targets) = true) {o : Path} (ho : o ∈ c.outs) (hdel : w.files o = none) :
    ⟨c.name, true⟩ ∈ (buildOnce m targets w).2 ∧ ((buildOnce m targets w).1.content o).isSome = true ∧
    (buildOnce m targets w).1.content o =
      cleanContent m (buildOnce m targets w).1.cmdline (buildOnce m targets w).1.content m.cmds.reverse o := by
  refine ⟨runsOf_executed (must_run m hwf targets w hok hc hp hn ?_), C18_converges m hwf targets w hinv hok c hc hp hn o ho⟩
  intro wi hdb hfiles _
  have hmiss : (wi.info o).isMissing = true := by
    simp [World.info, hfiles o ho, hdel, infoOf, FInfo.missing, FInfo.isMissing]
  constructor
  · unfold needsTask
    cases hr : wi.cmdDb c.name with
    | none => rfl
    | some r =>
      simp only [Bool.or_eq_true, bne_iff_ne, ne_eq]
      left; right
      intro hv
      obtain ⟨_, _, hmatch⟩ := valid_infosMatch hp hv
      obtain ⟨i, hi, hio⟩ := List.getElem_of_mem ho
      have := (hmatch i hi).1
      rw [hio, hmiss] at this
      cases this
  · cases hs : shortcut {} (kOf wi c) (accOf m.cmds wi c) ((priorRow wi c).map (·.value)) (c.outs.map wi.info) with
    | false => rfl
    | true =>
      have := shortcut_outs_exist hs (wi.info o) (List.mem_map.2 ⟨o, ho, rfl⟩)
      rw [hmiss] at this; cases this

/-! ### failures -/

/-- **C18_failure_stops_and_retries_world**: "a failing command stops its dependents and is retried next time".
In ANY build (keep-going semantics, see (A6) of the model):
(1) every needed command that depends - through explicit or implicit inputs, directly or through other commands and
    phony aliases - on a command the build reports as failed (or skipped) is itself skipped and is not executed;
(2) the failed command is left with a Failed value, a skipped one with a Skipped value (never accepted again:
    `C18_failure_values_never_valid`);
(3) every needed command that does not depend on a failed or skipped one still converges (`C18_converges_partial`);
(4) in the next build - whatever edits come in between - the task of a command whose stored value is not a successful
    one runs again; unless it is a generator command it is spawned again (executed if it now succeeds, failed if it
    still fails) or skipped because an input of its own now fails; and when that next build reports no failure,
    everything, the former dependents included, converges (`C18_converges`). -/
theorem C18_failure_stops_and_retries_world (m : Manifest) (hwf : m.WF) (targets : List Path) (w : World) (hinv : WorldInv m w) :
    (∀ q ∈ m.cmds, BadIn (buildFull m targets w).2 q.name →
      (∃ r, (buildOnce m targets w).1.cmdDb q.name = some r ∧ (r.value = .failed ∨ r.value = .skipped)) ∧
      ∀ c, Downstream m q c → c.neededIn (demanded m targets) = true →
        (c.name, Did.skipped) ∈ (buildFull m targets w).2 ∧ (∀ x, (c.name, x) ∈ (buildFull m targets w).2 → x = .skipped) ∧
        ∀ b, (⟨c.name, b⟩ : CommandRun) ∉ (buildOnce m targets w).2) ∧
    (∀ c ∈ m.cmds, c.phony = false → c.neededIn (demanded m targets) = true →
      (∀ r, w.cmdDb c.name = some r → r.value.kind ≠ .successfulCommand) →
      ∃ x, (c.name, x) ∈ (buildFull m targets w).2 ∧
        (c.generator = false → x = .skipped ∨ (x = .failed ∧ w.failing c.name = true) ∨ (x = .executed ∧ w.failing c.name = false))) := by
  refine ⟨fun q hq hbad => ⟨build_bad_value m hwf targets hinv hq hbad, fun c hd hn => ?_⟩,
    fun c hc hp hn hbad => retried m hwf targets w hc hp hn hbad⟩
  obtain ⟨h1, h2⟩ := failure_stops m hwf targets hinv hq hbad hd hn
  refine ⟨h1, h2, fun b hb => ?_⟩
  rcases mem_runsOf hb with ⟨_, h3⟩ | ⟨_, h3⟩
  · cases h2 _ h3
  · cases h2 _ h3

/-- a command the build reports as failed is left with a Failed value, which no later build accepts -/
theorem C18_failed_is_retried (m : Manifest) (hwf : m.WF) (targets : List Path) (w : World) (hinv : WorldInv m w)
    {c : Command} (hc : c ∈ m.cmds) (hp : c.phony = false) (hg : c.generator = false) (hn : c.neededIn (demanded m targets) = true)
    (hfail : (c.name, Did.failed) ∈ (buildFull m targets w).2) (es : List Edit) :
    ∃ x, (c.name, x) ∈ (buildFull m targets (es.foldl applyEdit (buildOnce m targets w).1)).2 ∧
      (x = .skipped ∨ x = .failed ∨ x = .executed) := by
  obtain ⟨r, hr, hv⟩ := build_bad_value m hwf targets hinv hc (Or.inl hfail)
  have hdb := (applyEdits_frame es (buildOnce m targets w).1).2.1
  obtain ⟨x, hx, hcase⟩ := retried m hwf targets (es.foldl applyEdit (buildOnce m targets w).1) hc hp hn (fun r' hr' => by
    rw [hdb] at hr'
    simp only [buildOnce] at hr'
    rw [hr] at hr'; cases hr'
    rcases hv with hv | hv <;> simp [hv, BuildValue.failed, BuildValue.skipped])
  refine ⟨x, hx, ?_⟩
  rcases hcase hg with h | ⟨h, _⟩ | ⟨h, _⟩
  · exact Or.inl h
  · exact Or.inr (Or.inl h)
  · exact Or.inr (Or.inr h)

/-! ### the converse: what must run, runs -/

/-- a source file written (or touched) by a history edit: new stamp above everything, input rule out of date -/
theorem source_edit_hot (m : Manifest) (hwf : m.WF) (targets : List Path) (w1 : World) (hinv : WorldInv m w1) {s : Path}
    (hs : producer m.cmds s = none) {x : Content} {e : Edit}
    (he : e = .write s x ∨ (e = .touch s ∧ ∃ f, w1.files s = some f ∧ f.content = x)) (hd : s ∈ demanded m targets) :
    WorldInv m (applyEdit w1 e) ∧ w1.clock ≤ (applyEdit w1 e).clock ∧
    (∀ q ∈ m.cmds, ∀ o ∈ q.outs, ∀ g, (applyEdit w1 e).files o = some g → g.stamp ≤ w1.clock) ∧
    Hot m.cmds ((applyEdit w1 e).epoch + 1) w1.clock (applyEdit w1 e) (buildFull m targets (applyEdit w1 e)).1 s := by
  have hw : applyEdit w1 e = { w1 with files := upd w1.files s (some ⟨x, w1.clock + 1⟩), clock := w1.clock + 1 } := by
    rcases he with rfl | ⟨rfl, f, hf, rfl⟩
    · rfl
    · simp [applyEdit, hf]
  have hok' : e.ok m.cmds := by rcases he with rfl | ⟨rfl, _⟩ <;> exact hs
  refine ⟨hinv.edit hwf hok', by rw [hw]; exact Nat.le_succ _, ?_, ?_⟩
  · intro q hq o ho g hg
    rw [hw] at hg
    have hne : o ≠ s := fun e' => by subst e'; rw [producer_of_mem hwf hq ho] at hs; cases hs
    simp only [upd, hne, ↓reduceIte] at hg
    exact hinv.inv0.fileStamps o g hg
  · right
    refine ⟨hs, ?_, ⟨x, w1.clock + 1⟩, by rw [hw]; simp, Nat.lt_succ_self _⟩
    have hsrc := (stepAll_sources m (demanded m targets) ((applyEdit w1 e).epoch + 1) hwf (started m targets (applyEdit w1 e))).1
    rw [buildFull_eq, hsrc]
    obtain ⟨r, hr, hre⟩ := refreshSrcs_changed m.cmds ((applyEdit w1 e).epoch + 1)
      (demanded m targets ++ storedKeys m (demanded m targets) (applyEdit w1 e))
      { applyEdit w1 e with epoch := (applyEdit w1 e).epoch + 1 } (List.mem_append_left _ hd) hs (by
        intro r hr
        have hr1 : w1.srcDb s = some r := by rw [hw] at hr; exact hr
        have hst := outputInfo_stamp (hinv.inv0.srcStamps s r hr1)
        have hinfo : ({ applyEdit w1 e with epoch := (applyEdit w1 e).epoch + 1 } : World).info s = ⟨1, 1, 1, 1, ⟨w1.clock + 1, 0⟩⟩ := by
          rw [hw]; simp [World.info, infoOf]
        rw [hinfo]
        constructor
        · cases hv : inputIsResultValid r.value ⟨1, 1, 1, 1, ⟨w1.clock + 1, 0⟩⟩ with
          | false => rfl
          | true =>
            simp only [inputIsResultValid, Bool.and_eq_true] at hv
            have hm := same_mtime hv.2
            have : w1.clock + 1 ≤ w1.clock := by rw [hm] at hst; simpa using hst
            omega
        · intro heq
          have : (⟨1, 1, 1, 1, ⟨w1.clock + 1, 0⟩⟩ : FInfo) ∈ r.value.infos := by
            rw [heq]; simp [inputValue, FInfo.isMissing, BuildValue.existing]
          have h2 := hinv.inv0.srcStamps s r hr1 _ this
          have : w1.clock + 1 ≤ w1.clock := by simpa using h2
          omega)
    exact ⟨r, hr, by rw [hre]; exact Nat.le_refl _⟩

/-- **C18_source_input_triggers_world**: "implicit inputs and depfile-discovered inputs trigger rebuilds" (and explicit
ones).  In any world of a history, when a source file that a needed real command READS - as an explicit, implicit or
depfile-discovered input, directly or through phony aliases - is written or touched, the next build that reports no
failure EXECUTES the command.  There is no exception for `restat` or `generator` commands: a generator command is exempt
from the command-line comparison only, and the update-if-newer shortcut cannot fire because the edited input is newer
than every output.  (What restat prunes are the DEPENDENTS: `C18_restat_prunes_world`.) -/
theorem C18_source_input_triggers_world (m : Manifest) (hwf : m.WF) (targets : List Path) (w1 : World) (hinv : WorldInv m w1)
    {s : Path} (hs : producer m.cmds s = none) {x : Content} {e : Edit}
    (he : e = .write s x ∨ (e = .touch s ∧ ∃ f, w1.files s = some f ∧ f.content = x))
    (hok : buildFailed (buildFull m targets (applyEdit w1 e)).2 = false)
    {before rest : List Command} {c : Command} (hsplit : m.cmds = before.reverse ++ c :: rest) (hp : c.phony = false)
    (hn : c.neededIn (demanded m targets) = true) (hreads : s ∈ readsOf before c) :
    ⟨c.name, true⟩ ∈ (buildOnce m targets (applyEdit w1 e)).2 := by
  have hat : At m.cmds before c rest := ⟨hsplit, hwf⟩
  have hclosed := demanded_closed m hwf targets hat.mem hn
  have hG : GClosed m (fun _ => True) := fun _ _ _ _ _ _ _ _ => trivial
  have hsd : s ∈ demanded m targets := by
    rcases mem_readsOf hreads with ⟨k, hk, hsk⟩ | hsd
    · have hkk : k ∈ depKeys c := by simp only [depKeys, List.mem_append] at hk ⊢; exact Or.inl hk
      exact (resolve_demanded hwf hG before (c :: rest) hsplit k (hclosed k (depKeys_sub_insAll c k hkk))
        (KeyIn.of_dep hG hat trivial hkk) s hsk).1
    · have hd : c.hasDeps = true := by
        cases hd : c.hasDeps with
        | true => rfl
        | false => rw [hat.cmdWF.deps hd] at hsd; cases hsd
      exact hclosed s (by simp [insAll, hd, hsd])
  obtain ⟨hinv', hcl, hTout, hhot⟩ := source_edit_hot m hwf targets w1 hinv hs he hsd
  exact runsOf_executed (hot_read_runs m hwf targets hinv' hcl hTout hok hat hp hn ⟨s, hreads, hhot⟩)

theorem mem_readsOf_of_input {before : List Command} {c : Command} {s : Path} (hs : ∀ q ∈ before, s ∉ q.outs)
    (h : s ∈ c.exp ++ c.imp) : s ∈ readsOf before c := by
  have : resolve before s = [s] := resolve_self before (fun q hq hsq => absurd hsq (hs q hq))
  simp only [readsOf, List.mem_append, List.mem_flatMap]
  exact Or.inl ⟨s, by simpa using h, by rw [this]; simp⟩

/-- an edited EXPLICIT input re-runs the command -/
theorem C18_explicit_input_triggers_world (m : Manifest) (hwf : m.WF) (targets : List Path) (w1 : World) (hinv : WorldInv m w1)
    {s : Path} (hs : producer m.cmds s = none) {x : Content} {e : Edit}
    (he : e = .write s x ∨ (e = .touch s ∧ ∃ f, w1.files s = some f ∧ f.content = x))
    (hok : buildFailed (buildFull m targets (applyEdit w1 e)).2 = false)
    {c : Command} (hc : c ∈ m.cmds) (hp : c.phony = false) (hn : c.neededIn (demanded m targets) = true) (hin : s ∈ c.exp) :
    ⟨c.name, true⟩ ∈ (buildOnce m targets (applyEdit w1 e)).2 := by
  obtain ⟨before, rest, hat⟩ := At.of_mem hwf hc
  exact C18_source_input_triggers_world m hwf targets w1 hinv hs he hok hat.split hp hn
    (mem_readsOf_of_input (fun q hq hsq => by rw [producer_none_iff] at hs; exact hs q (hat.mem_before hq) hsq) (by simp [hin]))

/-- an edited IMPLICIT input re-runs the command -/
theorem C18_implicit_input_triggers_world (m : Manifest) (hwf : m.WF) (targets : List Path) (w1 : World) (hinv : WorldInv m w1)
    {s : Path} (hs : producer m.cmds s = none) {x : Content} {e : Edit}
    (he : e = .write s x ∨ (e = .touch s ∧ ∃ f, w1.files s = some f ∧ f.content = x))
    (hok : buildFailed (buildFull m targets (applyEdit w1 e)).2 = false)
    {c : Command} (hc : c ∈ m.cmds) (hp : c.phony = false) (hn : c.neededIn (demanded m targets) = true) (hin : s ∈ c.imp) :
    ⟨c.name, true⟩ ∈ (buildOnce m targets (applyEdit w1 e)).2 := by
  obtain ⟨before, rest, hat⟩ := At.of_mem hwf hc
  exact C18_source_input_triggers_world m hwf targets w1 hinv hs he hok hat.split hp hn
    (mem_readsOf_of_input (fun q hq hsq => by rw [producer_none_iff] at hs; exact hs q (hat.mem_before hq) hsq) (by simp [hin]))

/-- an edited DEPFILE-DISCOVERED input (an entry of the depfile the command wrote) re-runs the command - also when the
manifest lists the file as an order-only input only -/
theorem C18_depfile_input_triggers_world (m : Manifest) (hwf : m.WF) (targets : List Path) (w1 : World) (hinv : WorldInv m w1)
    {s : Path} (hs : producer m.cmds s = none) {x : Content} {e : Edit}
    (he : e = .write s x ∨ (e = .touch s ∧ ∃ f, w1.files s = some f ∧ f.content = x))
    (hok : buildFailed (buildFull m targets (applyEdit w1 e)).2 = false)
    {c : Command} (hc : c ∈ m.cmds) (hp : c.phony = false) (hn : c.neededIn (demanded m targets) = true) (hin : s ∈ c.deps) :
    ⟨c.name, true⟩ ∈ (buildOnce m targets (applyEdit w1 e)).2 := by
  obtain ⟨before, rest, hat⟩ := At.of_mem hwf hc
  exact C18_source_input_triggers_world m hwf targets w1 hinv hs he hok hat.split hp hn (by simp [readsOf, hin])

/-- **C18_rewritten_input_triggers_world** (the transitive step): in a build that reports no failure, every needed real
command that reads a file which THIS build rewrote - a new stamp; with new content or not - is executed by this build.
With `C18_source_input_triggers_world` this is the converse of `C18_minimal` along every chain whose outputs really
change: edited source ⇒ its readers run ⇒ the readers of what they rewrote run ⇒ … -/
theorem C18_rewritten_input_triggers_world (m : Manifest) (hwf : m.WF) (targets : List Path) (w : World) (hinv : WorldInv m w)
    (hok : buildFailed (buildFull m targets w).2 = false)
    {before rest : List Command} {c : Command} (hsplit : m.cmds = before.reverse ++ c :: rest) (hp : c.phony = false)
    (hn : c.neededIn (demanded m targets) = true) {f : Path} (hreads : f ∈ readsOf before c)
    (hch : (buildOnce m targets w).1.files f ≠ w.files f) :
    ⟨c.name, true⟩ ∈ (buildOnce m targets w).2 :=
  runsOf_executed (hot_read_runs m hwf targets hinv (Nat.le_refl _)
    (fun _ _ o _ g hg => hinv.inv0.fileStamps o g hg) hok ⟨hsplit, hwf⟩ hp hn ⟨f, hreads, hot_of_changed hch⟩)

/-- **C18_restat_prunes_world**: restat pruning.  A needed command that was up to date when the build started (`needsTask
= false`, its source inputs settled) and all of whose generated inputs are produced by restat-style commands which the
build leaves with the very outputs they had - whether it executed them (they rewrote identical content) or not - does
NOT have its task run: no dependent of a restat command runs when the command reproduces its outputs. -/
theorem C18_restat_prunes_world (m : Manifest) (hwf : m.WF) (targets : List Path) (w : World) (hinv : WorldInv m w)
    (hok : buildFailed (buildFull m targets w).2 = false) {d : Command} (hd : d ∈ m.cmds)
    (hquiet : needsTask m.cmds w d = false)
    (hsrc : ∀ k ∈ depKeys d, producer m.cmds k = none → SrcSettled w k)
    (hprod : ∀ k ∈ depKeys d, ∀ q ∈ m.cmds, k ∈ q.outs → q.phony = false ∧ q.restat = true ∧
      (∃ r, w.cmdDb q.name = some r ∧ commandIsResultValid (kOf w q) r.value (q.outs.map w.info) = .valid ∧
        r.value.hash = w.cmdline q.name) ∧
      ∀ o ∈ q.outs, (buildOnce m targets w).1.files o = w.files o) :
    (∀ x, (d.name, x) ∉ (buildFull m targets w).2) ∧ ∀ b, (⟨d.name, b⟩ : CommandRun) ∉ (buildOnce m targets w).2 := by
  have hsdb : (started m targets w).cmdDb = w.cmdDb := refreshSrcs_cmdDb _ _ _ _
  have hrows := refreshSrcs_rows m.cmds (w.epoch + 1) (demanded m targets ++ storedKeys m (demanded m targets) w)
    { w with epoch := w.epoch + 1 }
  have hvcsrc : ∀ k ∈ depKeys d, producer m.cmds k = none →
      ((started m targets w).srcDb k).map vc = (w.srcDb k).map vc := fun k hk hnone => by
    have : SrcSettled ({ w with epoch := w.epoch + 1 } : World) k := hsrc k hk hnone
    exact refreshSrcs_vc _ _ _ _ this
  have h0 : needsTask m.cmds (started m targets w) d = false := by
    rw [← hquiet]
    apply needsTask_congr (hinv.d.depsInv d hd) (by rw [hsdb])
      (by rw [show (started m targets w).depDb = w.depDb from hrows.2.1]) (by rw [(started_cmdline m targets w).1])
      (fun o _ => by rw [started_files])
    intro k hk
    unfold resOf
    cases hp : producer m.cmds k with
    | none => exact hvcsrc k hk hp
    | some q => simp only [hsdb]
  have hnone : ∀ x, (d.name, x) ∉ (buildFull m targets w).2 := by
    apply unchanged_inputs_no_run m hwf targets hinv hd h0
    intro k hk
    cases hp : producer m.cmds k with
    | none =>
      have hsrcs := (stepAll_sources m (demanded m targets) (w.epoch + 1) hwf (started m targets w)).1
      simp only [resOf, hp, buildFull_eq, hsrcs]
    | some q =>
      obtain ⟨hqm, hkq⟩ := producer_some hp
      obtain ⟨hqp, hrs, ⟨r, hr, hv, hh⟩, hfiles⟩ := hprod k hk q hqm hkq
      exact restat_views_unchanged m hwf targets hinv hok hqm hqp hrs hr hv hh hfiles k hkq
  refine ⟨hnone, fun b hb => ?_⟩
  rcases mem_runsOf hb with ⟨_, h1⟩ | ⟨_, h1⟩
  · exact hnone _ h1
  · exact hnone _ h1

/-! ### graph edits -/

/-- a step of a history that also edits the dependency graph: an ordinary step, or the list of build statements is
replaced (the command lines of new statements are then set by `Edit.setHash` steps); files and database stay -/
inductive GStep
  | step (s : Step)
  | graph (cs' : List Command)

/-- the state of such a history: the current statements and the world.  `tg` = the targets of a build, given the
statements (e.g. the default targets: the outputs that are no input) -/
def runGStep (sem : Nat → Path → List (Option Content) → Content) (tg : List Command → List Path) (st : List Command × World) :
    GStep → List Command × World
  | .step s => (st.1, runStep ⟨st.1, sem⟩ (tg st.1) st.2 s)
  | .graph cs' => (cs', st.2)

/-- a step is admissible: an ordinary step as before; a graph edit when every statement of the new list is kept or
fresh (`GraphOk`) -/
def GStep.ok (st : List Command × World) : GStep → Prop
  | .step s => s.ok st.1
  | .graph cs' => GraphOk st.1 cs' st.2

/-- all steps of a history are admissible in the state they are applied to -/
def GHistOk (sem : Nat → Path → List (Option Content) → Content) (tg : List Command → List Path) :
    List Command × World → List GStep → Prop
  | _, [] => True
  | st, g :: gs => g.ok st ∧ GHistOk sem tg (runGStep sem tg st g) gs

instance (cs cs' : List Command) (w : World) : Decidable (GraphOk cs cs' w) :=
  decidable_of_iff
    (wfFrom [] cs' = true ∧
     (∀ c ∈ cs', c ∈ cs → ∀ k ∈ c.exp ++ c.imp ++ c.oo ++ c.deps, sameKeyB cs cs' k = true) ∧
     (∀ c ∈ cs', c ∉ cs → staleRowB cs w c = true ∧ c.generator = false ∧ (c.phony = true → ∀ o ∈ c.outs, w.files o = none)))
    ⟨fun h => ⟨h.1, h.2.1, h.2.2⟩, fun h => ⟨h.wf', h.kept, h.fresh⟩⟩

instance (st : List Command × World) (g : GStep) : Decidable (g.ok st) := by
  cases g <;> simp only [GStep.ok] <;> infer_instance

instance (sem : Nat → Path → List (Option Content) → Content) (tg : List Command → List Path) :
    (st : List Command × World) → (gs : List GStep) → Decidable (GHistOk sem tg st gs)
  | _, [] => inferInstanceAs (Decidable True)
  | st, g :: gs =>
    have : Decidable (GHistOk sem tg (runGStep sem tg st g) gs) := instDecidableGHistOk sem tg _ gs
    inferInstanceAs (Decidable (g.ok st ∧ GHistOk sem tg (runGStep sem tg st g) gs))

/-- **C18_world_invariant_graph**: `WorldInv` also survives graph edits.  From any well-formed manifest and the empty
world, along any history of ordinary steps (edits, builds, loss of the database) and graph edits in which every statement
of the new list is KEPT (a statement of the old list; each of its inputs is produced by the statement that produced it, or
by a real statement with the same rule key and outputs - an edited producer), FRESH (not a statement of the old list, no
database row under its rule key, not a generator, its alias not a file) or EDITED (as FRESH, but the database holds a row
under its rule key that was stored under ANOTHER signature: the statement's explicit / implicit / order-only input lists
were edited - with or without a change of its command line; F56, repaired: `C18_input_list_edit_changes_signature`) -
i.e. statements are added, removed, given another output list under a rule key never used, or get other input lists -
the manifest stays well formed and the world satisfies `WorldInv` for the CURRENT manifest.  Hence every theorem of this
file (`C18_converges`, `C18_null_rebuild`, `C18_minimal`, …, all stated for an arbitrary manifest and a world with
`WorldInv`) holds at every point of such a history: rows of removed statements stay in the database without harm, new
statements have none and run, rows of edited statements are not accepted and the statements run
(`C18_input_list_edit_triggers_world`).  With the engine AS FOUND (no signature) the edited class is empty and the
claim for input-list edits is false: `C18_graph_input_edit_ignored_asFound`.  NOT covered: an edit of the inputs of a
PHONY statement that a kept statement refers to, of a generator statement, or of flags / depfile entries. -/
theorem C18_world_invariant_graph (sem : Nat → Path → List (Option Content) → Content) (tg : List Command → List Path) :
    ∀ (gs : List GStep) (st : List Command × World), wfFrom [] st.1 = true → WorldInv ⟨st.1, sem⟩ st.2 → GHistOk sem tg st gs →
      wfFrom [] (gs.foldl (runGStep sem tg) st).1 = true ∧
      WorldInv ⟨(gs.foldl (runGStep sem tg) st).1, sem⟩ (gs.foldl (runGStep sem tg) st).2 := by
  intro gs
  induction gs with
  | nil => intro st hwf hinv _; exact ⟨hwf, hinv⟩
  | cons g gs ih =>
    intro st hwf hinv hok
    obtain ⟨hg, hrest⟩ := hok
    simp only [List.foldl_cons]
    apply ih _ _ _ hrest
    · cases g with
      | step s => exact hwf
      | graph cs' => exact hg.wf'
    · cases g with
      | step s =>
        cases s with
        | edit e => exact hinv.edit hwf hg
        | build => exact hinv.build hwf _
        | dropDb => exact hinv.dropDb
      | graph cs' => exact worldInv_graph (m := ⟨st.1, sem⟩) (m' := ⟨cs', sem⟩) rfl hwf hinv hg

/-- in particular: after any admissible history with graph edits, a build that reports no failure leaves the clean-build
contents of the CURRENT manifest, and an immediate rebuild runs nothing -/
theorem C18_converges_after_graph_edits (sem : Nat → Path → List (Option Content) → Content) (tg : List Command → List Path)
    (cs0 : List Command) (hwf0 : wfFrom [] cs0 = true) (gs : List GStep) (hok : GHistOk sem tg (cs0, World.empty) gs) :
    let st := gs.foldl (runGStep sem tg) (cs0, World.empty)
    let m : Manifest := ⟨st.1, sem⟩
    buildFailed (buildFull m (tg st.1) st.2).2 = false →
    (∀ c ∈ m.cmds, c.phony = false → c.neededIn (demanded m (tg st.1)) = true → ∀ o ∈ c.outs,
      (buildOnce m (tg st.1) st.2).1.content o =
        cleanContent m (buildOnce m (tg st.1) st.2).1.cmdline (buildOnce m (tg st.1) st.2).1.content m.cmds.reverse o) ∧
    (buildOnce m (tg st.1) (buildOnce m (tg st.1) st.2).1).2 = [] := by
  intro st m hb
  obtain ⟨hwf, hinv⟩ := C18_world_invariant_graph sem tg gs (cs0, World.empty) hwf0 (WorldInv.empty ⟨cs0, sem⟩) hok
  exact ⟨fun c hc hp hn o ho => (C18_converges m hwf (tg st.1) st.2 hinv hb c hc hp hn o ho).2,
    (C18_null_rebuild m hwf (tg st.1) st.2 hinv hb).1⟩

/-! ### rule signatures: edits of a statement's input lists (F56, repaired) -/

/-- what the extractor finds in `NinjaBuildCommandRule` (regenerated on every run): the rule signature combines the number
of explicit inputs, the number of implicit inputs and the path of every input.  With the fix removed this is `[]`, this
theorem and everything below that needs `sigDefault = true` fail, and the as-found witness is what remains. -/
theorem C18_signature_tables : ruleSignatureFields = [.numExplicit, .numImplicit, .inputPaths] ∧ sigDefault = true := by
  decide

theorem sigOf_inj {c c' : Command} (h : c.sigInputs = true) (h' : c'.sigInputs = true) (he : sigOf c = sigOf c') :
    c.exp = c'.exp ∧ c.imp = c'.imp ∧ c.oo = c'.oo := by
  simp only [sigOf, h, h', ↓reduceIte, Sig.mk.injEq] at he
  obtain ⟨h1, h2, h3⟩ := he
  rw [List.append_assoc, List.append_assoc] at h3
  obtain ⟨e1, h4⟩ := List.append_inj h3 h1
  obtain ⟨e2, e3⟩ := List.append_inj h4 h2
  exact ⟨e1, e2, e3⟩

/-- **C18_input_list_edit_changes_signature**: in the configuration the extractor finds in the code, two statements whose
explicit, implicit or order-only input lists differ have different rule signatures - so a row stored by the one is never
accepted for, nor handed as prior value to, the other -/
theorem C18_input_list_edit_changes_signature {c c' : Command} (h : c.sigInputs = sigDefault) (h' : c'.sigInputs = sigDefault)
    (hedit : (c.exp, c.imp, c.oo) ≠ (c'.exp, c'.imp, c'.oo)) : sigOf c ≠ sigOf c' := by
  have hd : sigDefault = true := C18_signature_tables.2
  intro he
  obtain ⟨e1, e2, e3⟩ := sigOf_inj (h.trans hd) (h'.trans hd) he
  exact hedit (by rw [e1, e2, e3])

/-- **C18_input_list_edit_triggers_world**: "manifest edits: a statement's inputs".  `c'` is a needed, real, non-generator
statement of the current manifest; the database row under its rule key - if any - was stored by a statement `c` with
OTHER explicit / implicit / order-only input lists (the command line may or may not have changed with them).  Then the
next build that reports no failure EXECUTES `c'`; every input of `c'` - also a newly added generated one - is demanded, so
its producer is needed and is brought up to date in the same build; and `c'` and those producers converge: their outputs
hold what a clean build of the CURRENT manifest writes.  (`WorldInv` for the current manifest after such an edit:
`C18_world_invariant_graph`.) -/
theorem C18_input_list_edit_triggers_world (m : Manifest) (hwf : m.WF) (targets : List Path) (w : World) (hinv : WorldInv m w)
    (hok : buildFailed (buildFull m targets w).2 = false) {c' : Command} (hc : c' ∈ m.cmds) (hp : c'.phony = false)
    (hg : c'.generator = false) (hn : c'.neededIn (demanded m targets) = true) (hcfg' : c'.sigInputs = sigDefault)
    {c : Command} (hcfg : c.sigInputs = sigDefault) (hrow : ∀ r, w.cmdDb c'.name = some r → r.sig = sigOf c)
    (hedit : (c.exp, c.imp, c.oo) ≠ (c'.exp, c'.imp, c'.oo)) :
    ⟨c'.name, true⟩ ∈ (buildOnce m targets w).2 ∧
    (∀ o ∈ c'.outs, (buildOnce m targets w).1.content o =
      cleanContent m (buildOnce m targets w).1.cmdline (buildOnce m targets w).1.content m.cmds.reverse o) ∧
    ∀ k ∈ c'.exp ++ c'.imp ++ c'.oo, k ∈ demanded m targets ∧
      ∀ q ∈ m.cmds, k ∈ q.outs → q.neededIn (demanded m targets) = true ∧ (q.phony = false → ∀ o ∈ q.outs,
        (buildOnce m targets w).1.content o =
          cleanContent m (buildOnce m targets w).1.cmdline (buildOnce m targets w).1.content m.cmds.reverse o) := by
  have hstale : ∀ wi : World, wi.cmdDb c'.name = w.cmdDb c'.name → ∀ r, wi.cmdDb c'.name = some r → r.sig ≠ sigOf c' :=
    fun wi hdb r hr => by
      rw [hdb] at hr
      rw [hrow r hr]
      exact C18_input_list_edit_changes_signature hcfg hcfg' hedit
  refine ⟨runsOf_executed (must_run m hwf targets w hok hc hp hn ?_),
    fun o ho => (C18_converges m hwf targets w hinv hok c' hc hp hn o ho).2, fun k hk => ?_⟩
  · intro wi hdb _ _
    constructor
    · unfold needsTask
      cases hr : wi.cmdDb c'.name with
      | none => rfl
      | some r =>
        have : (r.sig != sigOf c') = true := by simpa using hstale wi hdb r hr
        simp [this]
    · apply shortcut_false_of_prior (show (kOf wi c').generator = false from hg)
      intro v hv _
      rw [priorRow_none_of_stale (hstale wi hdb)] at hv
      cases hv
  · have hkd : k ∈ demanded m targets := demanded_closed m hwf targets hc hn k (by
      simp only [insAll, List.mem_append] at hk ⊢
      rcases hk with (h | h) | h <;> simp [h])
    refine ⟨hkd, fun q hq hkq => ?_⟩
    have hqn := needed_of_demanded hkq hkd
    exact ⟨hqn, fun hqp o ho => (C18_converges m hwf targets w hinv hok q hq hqp hqn o ho).2⟩

/-! ### the update-if-newer shortcut -/

/-- **C18_update_if_newer_world**: the hypothesis of `C18_update_if_newer_sound` (Props/C18.lean), at the level of
worlds, is `WorldInv`: (H1) every write - an edit of a source, an output written by a command - stamps the file above
every earlier stamp (`Edit.ok` excludes `writeAt`; `Inv0.fileStamps`); (H2) the values a task receives reflect the file
system (`Settled`, from the input rules re-validated at the beginning of the build and the commands processed before);
(H3) outputs are only written by their command (`Edit.ok`: edits write sources only).  Under it, a command that the
build declared up to date from time stamps alone (`Did.updated`: first build with an existing tree and no usable stored
result - a lost database, `--no-db` - for generator commands; a changed input value with an older stamp otherwise) and
whose inputs did not fail holds the content a clean build gives it.  Without (H1) this is false:
`C18_update_if_newer_world_counter` below. -/
theorem C18_update_if_newer_world (m : Manifest) (hwf : m.WF) (targets : List Path) (w : World) (hinv : WorldInv m w)
    {c : Command} (hc : c ∈ m.cmds) (hp : c.phony = false) (hn : c.neededIn (demanded m targets) = true)
    (_hupd : (c.name, Did.updated) ∈ (buildFull m targets w).2) (hgood : GoodIn m (buildFull m targets w).2 c) :
    ∀ o ∈ c.outs, (buildOnce m targets w).1.content o =
      cleanContent m (buildOnce m targets w).1.cmdline (buildOnce m targets w).1.content m.cmds.reverse o :=
  fun o ho => (C18_converges_partial m hwf targets w hinv c hc hp hn hgood o ho).2

/-! ### non-vacuity: a concrete manifest and a real history -/

/-- sources 0 1 2 3 (2 is only an order-only input).  c0: 0 | 1 → 10;  c1: 10 || 2 → 11 (restat);  c2: 10 → 12 13;
c3: 11 13 → 14;  c4: 3 → 15 (generator, independent of the others) -/
def exM : Manifest :=
  { cmds := [{ name := 0, outs := [10], exp := [0], imp := [1] },
             { name := 1, outs := [11], exp := [10], oo := [2], restat := true },
             { name := 2, outs := [12, 13], exp := [10] },
             { name := 3, outs := [14], exp := [11, 13] },
             { name := 4, outs := [15], exp := [3], generator := true }],
    sem := encSem }

def exT : List Path := [14, 12, 15]

/-- edit → build → edit → build → delete an output → build → change a command line → build -/
def exHist : List Step :=
  [.edit (.write 0 [100]), .edit (.write 1 [101]), .edit (.write 2 [102]), .edit (.write 3 [103]), .build,
   .edit (.write 0 [104]), .build, .edit (.delete 13), .build, .edit (.setHash 1 7), .build]

def exW (n : Nat) : World := runSteps exM exT (exHist.take n)

example : exM.WF := by decide
example : ∀ s ∈ exHist, s.ok exM.cmds := by decide

theorem exInv (n : Nat) : WorldInv exM (exW n) :=
  (C18_world_invariant exM (by decide) exT).2.2.2.2 _ (fun s hs => by
    have : ∀ s ∈ exHist, s.ok exM.cmds := by decide
    exact this s (List.mem_of_mem_take hs))

/-- the first build runs everything and reports no failure ... -/
example : (buildFull exM exT (exW 4)).2 = [(0, .executed), (1, .executed), (2, .executed), (3, .executed), (4, .executed)] ∧
    buildFailed (buildFull exM exT (exW 4)).2 = false := by decide +kernel
/-- ... so `C18_converges` and `C18_null_rebuild` apply to it (their hypotheses hold) -/
example := C18_converges exM (by decide) exT (exW 4) (exInv 4) (by decide +kernel)
example := C18_null_rebuild exM (by decide) exT (exW 4) (exInv 4) (by decide +kernel)
/-- the conclusion on this instance, computed: the output holds the clean-build content, which is not trivial -/
example : (exW 5).content 14 = cleanContent exM (exW 5).cmdline (exW 5).content exM.cmds.reverse 14 ∧
    (exW 5).content 14 = some [1, 0, 14, 2, 14, 1, 0, 11, 1, 9, 1, 0, 10, 2, 2, 100, 2, 101, 14, 1, 0, 13, 1, 9, 1, 0, 10, 2, 2, 100, 2, 101] := by
  decide +kernel
example : (buildOnce exM exT (exW 5)).2 = [] := by decide +kernel

/-- a source edit re-runs what depends on it and nothing else (command 4 is not `Affected`, and does not run) -/
example : (buildFull exM exT (exW 6)).2 = [(0, .executed), (1, .executed), (2, .executed), (3, .executed)] ∧
    buildFailed (buildFull exM exT (exW 6)).2 = false := by decide +kernel
example := C18_minimal exM (by decide) exT (exW 4) (exInv 4) (by decide +kernel) [.write 0 [104]]
example : ¬ Affected exM [.write 0 [104]] { name := 4, outs := [15], exp := [3], generator := true } := by
  intro h
  cases h with
  | hash h => obtain ⟨e, he, hc⟩ := h; simp at he; subst he; simp [Edit.cmd] at hc
  | output ho h => obtain ⟨e, he, hp⟩ := h; simp at he ho; subst he ho; simp [Edit.path] at hp
  | source hk h => obtain ⟨e, he, hp⟩ := h; simp [depKeys] at he hk; subst he hk; simp [Edit.path] at hp
  | input hk hq hkq _ =>
    simp [depKeys] at hk; subst hk
    simp [exM] at hq
    rcases hq with rfl | rfl | rfl | rfl | rfl <;> simp at hkq

/-- touching the file that is only an order-only input runs nothing: the hypothesis of `C18_order_only_world` holds -/
example := C18_order_only_world exM (by decide) exT (exW 4) (exInv 4) (by decide +kernel) [.touch 2] (by decide)

/-- a deleted output: the hypotheses of `C18_output_deletion_world` hold in the world after the deletion; the build
re-runs the producer (and its consumer, whose input was rewritten) -/
example : (exW 8).files 13 = none ∧ buildFailed (buildFull exM exT (exW 8)).2 = false ∧
    (buildOnce exM exT (exW 8)).2 = [⟨2, true⟩, ⟨3, true⟩] := by decide +kernel
example := C18_output_deletion_world exM (by decide) exT (exW 8) (exInv 8) (by decide +kernel)
  (c := { name := 2, outs := [12, 13], exp := [10] }) (by decide) rfl (by decide) (o := 13) (by decide) (by decide +kernel)

/-- a changed command line: the stored hash is 0, the command line now 7; the command runs, its consumer too -/
example : ((exW 10).cmdDb 1).map (·.value.hash) = some 0 ∧ (exW 10).cmdline 1 = 7 ∧
    buildFailed (buildFull exM exT (exW 10)).2 = false ∧ (buildOnce exM exT (exW 10)).2 = [⟨1, true⟩, ⟨3, true⟩] := by
  decide +kernel
def exC1 : Command := { name := 1, outs := [11], exp := [10], oo := [2], restat := true }

theorem exHash : ∀ r, (exW 10).cmdDb exC1.name = some r → r.value.hash ≠ (exW 10).cmdline exC1.name := by
  intro r hr
  have h : ((exW 10).cmdDb exC1.name).map (·.value.hash) = some 0 ∧ (exW 10).cmdline exC1.name = 7 := by decide +kernel
  rw [hr] at h
  simp only [Option.map_some, Option.some.injEq] at h
  rw [h.1, h.2]; decide
example := C18_command_line_change_world exM (by decide) exT (exW 10) (exInv 10) (by decide +kernel)
  (c := exC1) (by decide) rfl rfl (by decide +kernel) exHash

/-- a failing command: command 0 fails after an edit; its dependents 1 2 3 are skipped, the independent command 4 is
not concerned; after the repair everything is rebuilt and nothing is reported -/
def exFail : List Step :=
  exHist.take 5 ++ [.edit (.setFail 0 true), .edit (.write 0 [105]), .build, .edit (.setFail 0 false), .build]

theorem exFailInv (n : Nat) : WorldInv exM (runSteps exM exT (exFail.take n)) :=
  (C18_world_invariant exM (by decide) exT).2.2.2.2 _ (fun s hs => by
    have : ∀ s ∈ exFail, s.ok exM.cmds := by decide
    exact this s (List.mem_of_mem_take hs))

example : (buildFull exM exT (runSteps exM exT (exFail.take 7))).2 = [(0, .failed), (1, .skipped), (2, .skipped), (3, .skipped)] ∧
    (buildFull exM exT (runSteps exM exT (exFail.take 9))).2 = [(0, .executed), (1, .executed), (2, .executed), (3, .executed)] ∧
    buildFailed (buildFull exM exT (runSteps exM exT (exFail.take 9))).2 = false := by decide +kernel
example := (C18_failure_stops_and_retries_world exM (by decide) exT _ (exFailInv 7)).1
  { name := 0, outs := [10], exp := [0], imp := [1] } (by decide) (Or.inl (by decide +kernel))

/-- the full-strength reading "a failing command stops ALL its dependents" - also those that depend on it through an
order-only input only - is FALSE of the model, as it is of the code (known finding F39: `mustFollow` delivers no value,
so the task cannot see the failure; Ninja does not run such a command): command 0 fails, command 1, whose only link to
it is the order-only input 10, is executed in the same (keep-going) build.  `C18_failure_stops_and_retries_world` is the
strongest true statement: explicit and implicit inputs. -/
theorem C18_failure_order_only_dependent_runs :
    let m : Manifest := { cmds := [{ name := 0, outs := [10], exp := [0] }, { name := 1, outs := [11], exp := [1], oo := [10] }],
                          sem := encSem }
    let w := runSteps m [11] [.edit (.write 0 [100]), .edit (.write 1 [101]), .edit (.setFail 0 true)]
    m.WF ∧ (buildFull m [11] w).2 = [(0, .failed), (1, .executed)] := by
  decide +kernel

/-- **C18_update_if_newer_world_counter**: why the hypothesis is needed.  Manifest: one command 0 → 10.  The source is
rewritten with NEW content but an OLD stamp (`Edit.writeAt`, not `Edit.ok`: `cp -p`, a checkout of an older file): the
build reports no failure, declares the command up to date (`Did.updated`), and the output is NOT what a clean build
writes.  Documented Ninja-compatible behaviour; replayed on the real tool (`counter_history_old_mtime`). -/
theorem C18_update_if_newer_world_counter :
    let m : Manifest := { cmds := [{ name := 0, outs := [10], exp := [0] }], sem := encSem }
    let w := runSteps m [10] [.edit (.write 0 [100]), .build, .edit (.writeAt 0 (some [101]) 0)]
    ¬ (Edit.writeAt 0 (some [101]) 0).ok m.cmds ∧
    (buildFull m [10] w).2 = [(0, .updated)] ∧ buildFailed (buildFull m [10] w).2 = false ∧
    (buildOnce m [10] w).1.content 10 ≠
      cleanContent m (buildOnce m [10] w).1.cmdline (buildOnce m [10] w).1.content m.cmds.reverse 10 := by
  decide +kernel

/-- the database is lost (or `--no-db`): `WorldInv` survives (`C18_world_invariant`), non-generator commands are all
executed again, the generator command 4 is declared up to date from its time stamps - soundly, by `C18_converges` -/
example : (buildFull exM exT (runSteps exM exT (exHist.take 5 ++ [.dropDb]))).2 =
    [(0, .executed), (1, .executed), (2, .executed), (3, .executed), (4, .updated)] ∧
    buildFailed (buildFull exM exT (runSteps exM exT (exHist.take 5 ++ [.dropDb]))).2 = false := by decide +kernel

/-! ### non-vacuity of the converse theorems and of the graph-edit theorems -/

/-- editing the implicit input 1 of command 0 (in the world after the first build): the hypotheses of
`C18_implicit_input_triggers_world` hold; computed: commands 0 1 2 3 run -/
example : buildFailed (buildFull exM exT (applyEdit (exW 5) (.write 1 [200]))).2 = false ∧
    (buildOnce exM exT (applyEdit (exW 5) (.write 1 [200]))).2 = [⟨0, true⟩, ⟨1, true⟩, ⟨2, true⟩, ⟨3, true⟩] := by decide +kernel
example := C18_implicit_input_triggers_world exM (by decide) exT (exW 5) (exInv 5) (s := 1) (by decide) (x := [200])
  (Or.inl rfl) (by decide +kernel) (c := { name := 0, outs := [10], exp := [0], imp := [1] }) (by decide) rfl (by decide +kernel) (by decide)
/-- ... and command 1, which reads the file 10 that this build rewrote: `C18_rewritten_input_triggers_world` -/
example := C18_rewritten_input_triggers_world exM (by decide) exT (applyEdit (exW 5) (.write 1 [200]))
  ((exInv 5).edit (by decide) (by decide)) (by decide +kernel)
  (before := [{ name := 0, outs := [10], exp := [0], imp := [1] }]) (c := exC1) rfl rfl (by decide +kernel) (f := 10) (by decide)
  (by decide +kernel)

/-- a depfile-discovered input: command 0 lists file 2 as an order-only input only, but reads it and names it in its
depfile.  Touching 2 re-runs it (in `exM`, where 2 is order-only and nothing more, it does not: `C18_order_only_world`) -/
def exD : Manifest :=
  { cmds := [{ name := 0, outs := [10], exp := [0], oo := [2], deps := [2], hasDeps := true }], sem := encSem }

example :
    let w := runSteps exD [10] [.edit (.write 0 [100]), .edit (.write 2 [102]), .build]
    exD.WF ∧ buildFailed (buildFull exD [10] (applyEdit w (.write 2 [103]))).2 = false ∧
    (buildOnce exD [10] (applyEdit w (.write 2 [103]))).2 = [⟨0, true⟩] := by decide +kernel

/-- restat pruning: command 0 (restat-style) writes the same content whatever its input holds; after an edit of the
input it is executed, its output keeps content and stamp, and its dependent, command 1, does not run -/
def exR : Manifest :=
  { cmds := [{ name := 0, outs := [10], exp := [0], restat := true }, { name := 1, outs := [11], exp := [10] }],
    sem := fun h o rs => if o = 10 then [9] else encSem h o rs }

def exRw : World := runSteps exR [11] [.edit (.write 0 [100]), .build, .edit (.write 0 [101])]

example : exR.WF ∧ (buildFull exR [11] exRw).2 = [(0, .executed)] ∧ buildFailed (buildFull exR [11] exRw).2 = false ∧
    needsTask exR.cmds exRw { name := 1, outs := [11], exp := [10] } = false ∧
    (buildOnce exR [11] exRw).1.files 10 = exRw.files 10 := by decide +kernel

theorem exRinv : WorldInv exR exRw :=
  (C18_world_invariant exR (by decide) [11]).2.2.2.2 _ (by decide)

def exRc0 : Command := { name := 0, outs := [10], exp := [0], restat := true }
def exRc1 : Command := { name := 1, outs := [11], exp := [10] }

theorem exRrow : ∃ r, exRw.cmdDb exRc0.name = some r ∧
    commandIsResultValid (kOf exRw exRc0) r.value (exRc0.outs.map exRw.info) = .valid ∧ r.value.hash = exRw.cmdline exRc0.name := by
  have h : (exRw.cmdDb exRc0.name).any (fun r => decide (commandIsResultValid (kOf exRw exRc0) r.value (exRc0.outs.map exRw.info) = .valid) &&
      decide (r.value.hash = exRw.cmdline exRc0.name)) = true := by decide +kernel
  cases hr : exRw.cmdDb exRc0.name with
  | none => rw [hr] at h; cases h
  | some r =>
    rw [hr] at h
    simp only [Option.any_some, Bool.and_eq_true, decide_eq_true_eq] at h
    exact ⟨r, rfl, h.1, h.2⟩

/-- `C18_restat_prunes_world` applies: the dependent of the restat command is not run -/
example : ∀ x, (exRc1.name, x) ∉ (buildFull exR [11] exRw).2 :=
  (C18_restat_prunes_world exR (by decide) [11] exRw exRinv (by decide +kernel) (d := exRc1) (by decide) (by decide +kernel)
    (fun k hk hn => by
      simp [depKeys, exRc1] at hk; subst hk
      exact absurd hn (by decide))
    (fun k hk q hq hkq => by
      simp [depKeys, exRc1] at hk; subst hk
      have hq0 : q = exRc0 := by
        simp [exR] at hq
        rcases hq with rfl | rfl
        · rfl
        · simp at hkq
      subst hq0
      exact ⟨rfl, rfl, exRrow, by decide +kernel⟩)).1

/-! ### graph edits: an admissible history, and the input-list edit that is not -/

def exG0 : List Command := [{ name := 0, outs := [10], exp := [0] }, { name := 1, outs := [11], exp := [10] }]
/-- a statement is added (reading an existing output), the leaf statement 1 is removed -/
def exG1 : List Command := exG0 ++ [{ name := 2, outs := [12], exp := [10], imp := [1] }]
def exG2 : List Command := [{ name := 0, outs := [10], exp := [0] }, { name := 2, outs := [12], exp := [10], imp := [1] }]

def exRoots (cs : List Command) : List Path :=
  (cs.flatMap (·.outs)).filter fun o => !(cs.any fun c => (c.exp ++ c.imp ++ c.oo).contains o)

def exGHist : List GStep :=
  [.step (.edit (.write 0 [100])), .step (.edit (.write 1 [101])), .step .build, .graph exG1, .step .build, .graph exG2, .step .build]

/-- the history is admissible (`GHistOk`); the builds after the graph edits run the new statement only, then nothing, and
the row of the removed statement 1 is still in the database -/
example : GHistOk encSem exRoots (exG0, World.empty) exGHist := by decide +kernel
example :
    let st5 := (exGHist.take 4).foldl (runGStep encSem exRoots) (exG0, World.empty)
    let st7 := (exGHist.take 6).foldl (runGStep encSem exRoots) (exG0, World.empty)
    (buildFull ⟨st5.1, encSem⟩ (exRoots st5.1) st5.2).2 = [(2, .executed)] ∧
    (buildFull ⟨st7.1, encSem⟩ (exRoots st7.1) st7.2).2 = [] ∧ (st7.2.cmdDb 1).isSome = true := by decide +kernel
example := C18_converges_after_graph_edits encSem exRoots exG0 (by decide) (exGHist.take 6) (by decide +kernel) (by decide +kernel)

/-- the statement list with a further input-list edit, of a statement that a kept statement reads from: statement 0 gets
the implicit input 1 (its command line - `World.cmdline` - stays); then statement 3 is added and its output becomes an
implicit input of statement 2 (a newly added GENERATED input) -/
def exG3 : List Command := [{ name := 0, outs := [10], exp := [0], imp := [1] }, { name := 2, outs := [12], exp := [10], imp := [1] }]
def exG4 : List Command :=
  [{ name := 0, outs := [10], exp := [0], imp := [1] }, { name := 3, outs := [13], exp := [1] },
   { name := 2, outs := [12], exp := [10], imp := [1, 13] }]

def exGHist2 : List GStep := exGHist ++ [.graph exG3, .step .build, .step (.edit (.write 1 [111])), .step .build, .graph exG4, .step .build]

/-- admissible (statement 0 is EDITED, statement 2 KEPT over an edited producer; then 3 is FRESH and 2 EDITED); the build
after the first edit executes 0 and - its input was rewritten - 2; an edit of the new input 1 re-runs both; the build after
the second edit executes the new producer 3 and the edited statement 2, not the untouched 0 -/
example : GHistOk encSem exRoots (exG0, World.empty) exGHist2 := by decide +kernel
example :
    let st8 := (exGHist2.take 8).foldl (runGStep encSem exRoots) (exG0, World.empty)
    let st10 := (exGHist2.take 10).foldl (runGStep encSem exRoots) (exG0, World.empty)
    let st12 := (exGHist2.take 12).foldl (runGStep encSem exRoots) (exG0, World.empty)
    (buildFull ⟨st8.1, encSem⟩ (exRoots st8.1) st8.2).2 = [(0, .executed), (2, .executed)] ∧
    (buildFull ⟨st10.1, encSem⟩ (exRoots st10.1) st10.2).2 = [(0, .executed), (2, .executed)] ∧
    (buildFull ⟨st12.1, encSem⟩ (exRoots st12.1) st12.2).2 = [(3, .executed), (2, .executed)] := by decide +kernel
example := C18_converges_after_graph_edits encSem exRoots exG0 (by decide) (exGHist2.take 8) (by decide +kernel) (by decide +kernel)
example := C18_converges_after_graph_edits encSem exRoots exG0 (by decide) (exGHist2.take 12) (by decide +kernel) (by decide +kernel)

/-- **C18_graph_input_edit_repaired**: the history of finding F56 in the configuration extracted from the code.  Statement
0 (`0 → 10`) gets the implicit input 1; its command line does not change.  The edit is admissible (`GraphOk`), the next
build executes the statement and leaves the clean-build content of the new manifest, the build after it runs nothing, and
an edit of the new input runs the statement again. -/
theorem C18_graph_input_edit_repaired :
    let cs1 : List Command := [{ name := 0, outs := [10], exp := [0] }]
    let cs2 : List Command := [{ name := 0, outs := [10], exp := [0], imp := [1] }]
    let w := runSteps ⟨cs1, encSem⟩ [10] [.edit (.write 0 [100]), .edit (.write 1 [101]), .build]
    let m2 : Manifest := ⟨cs2, encSem⟩
    m2.WF ∧ GraphOk cs1 cs2 w ∧
    (buildFull m2 [10] w).2 = [(0, .executed)] ∧
    (buildOnce m2 [10] w).1.content 10 = cleanContent m2 (buildOnce m2 [10] w).1.cmdline (buildOnce m2 [10] w).1.content cs2.reverse 10 ∧
    (buildFull m2 [10] (buildOnce m2 [10] w).1).2 = [] ∧
    (buildFull m2 [10] (applyEdit (buildOnce m2 [10] w).1 (.write 1 [102]))).2 = [(0, .executed)] := by
  decide +kernel

/-- **C18_graph_input_edit_ignored_asFound** (finding F56): with the engine AS FOUND - rules without a signature:
`sigInputs := false` - the full-strength reading "after ANY manifest edit `llbuild ninja build` leaves the clean-build
contents" is FALSE of the model, as it was of the code.  Statement 0 (`0 → 10`) gets the implicit input 1; its command
line - the only thing the stored result is compared with - does not change.  The edit is not `GraphOk` (the statement is
neither kept nor new: it has a row under the only signature there is).  The next build starts no task at all (the scan
walks the STORED dependency list, which does not name 1), exits 0, and output 10 is not what a clean build of the new
manifest writes; editing the new input 1 afterwards STILL runs nothing.  Real tool before commit 0a181eb: same
(notes/C18.md, F56; Ninja rebuilds).  Repair: the rule signature covers the input lists - `C18_graph_input_edit_repaired`. -/
theorem C18_graph_input_edit_ignored_asFound :
    let cs1 : List Command := [{ name := 0, outs := [10], exp := [0], sigInputs := false }]
    let cs2 : List Command := [{ name := 0, outs := [10], exp := [0], imp := [1], sigInputs := false }]
    let w := runSteps ⟨cs1, encSem⟩ [10] [.edit (.write 0 [100]), .edit (.write 1 [101]), .build]
    let m2 : Manifest := ⟨cs2, encSem⟩
    m2.WF ∧ ¬ GraphOk cs1 cs2 w ∧
    (buildFull m2 [10] w).2 = [] ∧ buildFailed (buildFull m2 [10] w).2 = false ∧
    (buildOnce m2 [10] w).1.content 10 ≠ cleanContent m2 (buildOnce m2 [10] w).1.cmdline (buildOnce m2 [10] w).1.content cs2.reverse 10 ∧
    (buildFull m2 [10] (applyEdit (buildOnce m2 [10] w).1 (.write 1 [102]))).2 = [] := by
  decide +kernel

end LLBuild.NinjaWorld
