/-
C19 (dependency-parser part) — No input file can crash, hang or over-read a parser.

"For every byte string given as ... a Makefile-style dependency file or a dependency-info file ... loading
terminates, reads no memory outside the supplied buffer, and reports problems only through its error callbacks."

Property theorems only.  Models: LLBuild/Model/MakeDeps.lean, LLBuild/Model/DepInfo.lean — index-level
transliterations in which EVERY read is `peek` and a read outside `[0, length)` ends the run in `.error idx`.
The models follow the working tree: the three guards/operators that the repairs F11, F12, F18 touch are extracted
(Generated/DepsTables.lean), so on the unrepaired tree these theorems do not check.

"reports problems only through its error callbacks": the models are pure functions returning the callback stream;
that the C++ has no other effect (abort, signal, stderr) is the correspondence obligation checked by harness/vc11
under ASan+UBSan on every run.
-/
import LLBuild.Lemmas.DepInfo
import LLBuild.Lemmas.MakeDepsSlices

namespace LLBuild.MakeDeps

/-- "reads no memory outside the supplied buffer": for EVERY byte string and either value of
`ignoreSubsequentOutputs`, no read of `MakefileDepsParser::parse` is out of bounds. -/
theorem C19_makedeps_no_oob (ign : Bool) (inp : Bytes) (idx : Nat) : parse ign inp ≠ .error idx := by
  obtain ⟨acts, h⟩ := parseRules_ok ign inp _ 0 rfl (Nat.zero_le _)
  unfold parse
  rw [h]
  intro hc; cases hc

/-- "loading terminates": `parse` is a total function (its definition and the definitions of all six loops carry
real well-founded termination proofs on `length - cursor`; no fuel), and it returns a finite callback stream. -/
theorem C19_makedeps_terminates (ign : Bool) (inp : Bytes) : ∃ acts : List Action, parse ign inp = .ok acts :=
  parseRules_ok ign inp _ 0 rfl (Nat.zero_le _)

/-- the same for the word lexer entered at ANY cursor inside the buffer (this is the function F11 is about) -/
theorem C19_lexWord_no_oob (inp : Bytes) (pos : Nat) (h : pos ≤ inp.length) :
    ∃ r, lexWord inp pos = .ok r ∧ pos ≤ r.1 ∧ r.1 ≤ inp.length := by
  obtain ⟨r, hr, hb⟩ := lexWord_ok inp pos h
  exact ⟨r, hr, lexWord_ge hr, hb⟩

/-- "reads no memory outside the supplied buffer", the callback arguments: for EVERY byte string and either value of
`ignoreSubsequentOutputs`, every raw word handed to `actOnRuleStart` / `actOnRuleDependency` is a non-empty slice
`[s, e)` of the input with `0 ≤ s < e ≤ size`, and every position handed to `error` is `≤ size`. -/
theorem C19_makedeps_slices_in_bounds (ign : Bool) (inp : Bytes) (acts : List Action) (h : parse ign inp = .ok acts) :
    ∀ a ∈ acts, a.inBounds inp :=
  parseRules_inBounds ign h (Nat.zero_le _)

-- non-vacuity: a stream with both kinds of words and an error position; `inBounds` is a real constraint
example : parse false [97, 58, 32, 98, 10, 58] =
    .ok [.ruleStart [97] [97], .dep [98] [98], .ruleEnd, .error .unexpectedInFile 5] := by decide +kernel
example : ¬ Action.inBounds [97] (.error .unexpectedInFile 2) := by simp [Action.inBounds]
example : Action.inBounds [97, 58, 32, 98, 10] (.dep [98] [98]) := ⟨3, 4, by decide, by decide, by decide⟩

-- non-vacuity / the former witnesses: `a: b\` (F11) now parses, the trailing backslash standing for itself
example : parse false [97, 58, 32, 98, 92] = .ok [.ruleStart [97] [97], .dep [98, 92] [98, 92], .ruleEnd] := by decide +kernel
example : parse false [92] = .ok [.ruleStart [92] [92], .error .missingColon 1, .ruleEnd] := by decide +kernel
example : parse false [] = .ok [] := by decide +kernel

end LLBuild.MakeDeps

namespace LLBuild.DepInfo

/-- "reads no memory outside the supplied buffer": for EVERY byte string, no read of
`DependencyInfoParser::parse` is out of bounds. -/
theorem C19_depinfo_no_oob (inp : Bytes) (idx : Nat) : parse inp ≠ .error idx := by
  obtain ⟨acts, h⟩ := parse_ok inp
  rw [h]
  intro hc; cases hc

/-- "loading terminates" (total definition, real termination proofs) with a finite callback stream. -/
theorem C19_depinfo_terminates (inp : Bytes) : ∃ acts : List Action, parse inp = .ok acts := parse_ok inp

-- the former witness `00 76 00 00` (F12): the final NUL is consumed as an opcode; now diagnosed, not over-read
example : parse [0, 118, 0, 0] = .ok [.version [118], .error .emptyOperand 3] := by decide +kernel
example : parse [] = .ok [.error .missingNul 0] := by decide +kernel
example : parse [0, 118, 0, 16, 97, 0] = .ok [.version [118], .input [97]] := by decide +kernel

end LLBuild.DepInfo
