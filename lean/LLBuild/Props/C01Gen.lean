/-
C01 / C09 over histories in which the CLIENT PROGRAM CHANGES between engine lifetimes.

C01: "For any set of rules whose tasks are deterministic functions of the inputs they request [...],
after any sequence of changes to external state and any sequence of earlier builds of any targets -
in the same engine or through an attached database - a successful build of a key returns exactly the
value a brand-new engine with no history would compute for that key in the current external state."
C09 (engine half): "a command re-runs exactly when its definition changed" — the engine compares the
signature stored with a result against the signature of the rule it was given in this process.

Props/C01.lean decides C01 for a FIXED client program.  A build tool, however, is restarted with an
EDITED build description on the same database.  Here a history is a list of `GEvent`s (Lemmas/Engine/
Generations.lean): engine events, judged by the program of the current generation, and
`reprogram g'` = the tool is started again (event `restart`: memory := database, every rule
unregistered and looked up afresh) with the description of generation `g'`.  `PP : Nat → Program`
gives the program of every generation.

Client obligations (both are needed, see notes/ENGINEGEN.md):
* `SigCoversValid PP` — the signature of a rule whose stored result can be reused covers its definition:
  two generations that give a rule the same signature, one of which can accept a stored value of the
  rule at all (`CanValid`), give it the same task (requests, discovered dependencies, result function);
  every generation satisfies `Program.WF`.  (`SigCovers PP`, the same without the `CanValid` proviso,
  implies it: `SigCovers.toWeak`.  A rule that never accepts its stored value — a BuildSystem target —
  may change its definition under a constant signature.)
* `SelfStable PP` — a rule that reads the external state at its own key (an input rule) reads it the
  same way in every generation in which it is an input rule.
-/
import LLBuild.Lemmas.Engine.Generations
import LLBuild.Props.C01
import LLBuild.Props.C02

set_option linter.unusedVariables false

namespace LLBuild.Engine

/-- **C01_value_gen.**  After any history of builds, changes of external state, restarts, crashes and
any number of EDITS OF THE BUILD DESCRIPTION (`reprogram`), a successful build returns the value a
brand-new engine computes for the CURRENT description in the current external state
("incremental = clean" across description changes). -/
theorem C01_value_gen {PP : Nat → Program} (hC : SigCoversValid PP) (hS : SelfStable PP) {evs : List GEvent} {g0 : Nat}
    {s s' : St} {g : Nat} {v : Val}
    (hrun : runG PP ({}, g0) evs = some (s, g)) (hret : step (PP g) s (.ret v) = some s')
    (hnd : s'.pendingDropped = false)
    (hok : s.cancelled = false ∧ s.cycleSeen = false ∧ s.errSeen = false) :
    ∃ root, s.target = some root ∧ Clean (PP g) s.env root v := by
  simp only [step] at hret
  split at hret
  · cases hret
  · rename_i root htgt
    split at hret
    · cases hret
    · split at hret
      · rename_i hc
        cases hret
        have hi := (reachG_inv hC hS hrun hnd).1
        simp only [Bool.and_eq_true] at hc
        obtain ⟨⟨⟨_, _⟩, hdry⟩, _⟩ := hc
        obtain ⟨⟨⟨hd, hv⟩, _⟩, _⟩ := hdry
        refine ⟨root, htgt, ?_⟩
        rw [eq_of_beq hv]
        exact hi.clean root (by simpa [isDone] using hd)
      · split at hret
        · rename_i hc
          simp [hok.1, hok.2.1, hok.2.2] at hc
        · cases hret

/-- ... and when the current description's requests are monotone with distinct ids (`Program.Det`) that
value is unique: the build returns EXACTLY the clean value of the current description. -/
theorem C01_value_unique_gen {PP : Nat → Program} (hC : SigCoversValid PP) (hS : SelfStable PP) {evs : List GEvent}
    {g0 : Nat} {s s' : St} {g : Nat} {v : Val} (hD : (PP g).Det)
    (hrun : runG PP ({}, g0) evs = some (s, g)) (hret : step (PP g) s (.ret v) = some s')
    (hnd : s'.pendingDropped = false)
    (hok : s.cancelled = false ∧ s.cycleSeen = false ∧ s.errSeen = false) :
    ∃ root, s.target = some root ∧ Clean (PP g) s.env root v ∧ ∀ w, Clean (PP g) s.env root w → w = v := by
  obtain ⟨root, ht, hc⟩ := C01_value_gen hC hS hrun hret hnd hok
  exact ⟨root, ht, hc, fun w hw => Clean_unique hD hw hc⟩

/-- **C01_inputs_gen.**  Every input value handed to a task is the clean value of that input for the
CURRENT description — never one left over from an earlier description or an earlier external state. -/
theorem C01_inputs_gen {PP : Nat → Program} (hC : SigCoversValid PP) (hS : SelfStable PP) {evs : List GEvent} {g0 : Nat}
    {s s' : St} {g : Nat} {k : Key} {id : Nat} {key : Key} {v : Val} {reqs : List Req}
    (hrun : runG PP ({}, g0) evs = some (s, g)) (hnd : s.pendingDropped = false)
    (hprov : step (PP g) s (.provide k id key v reqs) = some s') :
    Clean (PP g) s.env key v := by
  have hi := (reachG_inv hC hS hrun hnd).1
  simp only [step] at hprov
  split at hprov
  · split at hprov
    · cases hprov
    · split at hprov
      · rename_i hc
        simp only [Bool.and_eq_true, beq_iff_eq] at hc
        obtain ⟨⟨hd, hv⟩, _⟩ := hc
        rw [hv]
        exact hi.clean key (by simpa [isDone] using hd)
      · cases hprov
  · cases hprov

/-- **C09_changed_definition_reruns.**  (No hypothesis on the client.)  In every state of every history
over generations: if the signature stored with the result of `k` is not the signature the engine
holds for the rule in this process (`sigAt k`, computed by the current description at `lookup`), then
the engine can neither declare `k` up to date nor even ask the rule whether its stored value is still
valid; the only verdict it can reach for `k` is "needs to run", with reason 0 (never built) or
1 (signature changed) — a changed definition re-runs the command. -/
theorem C09_changed_definition_reruns {PP : Nat → Program} {evs : List GEvent} {g0 : Nat} {s : St} {g : Nat} {k : Key}
    (hrun : runG PP ({}, g0) evs = some (s, g)) (hne : (s.mem.res k).sig ≠ s.sigAt k) :
    step (PP g) s (.upToDate k) = none ∧ (∀ v b, step (PP g) s (.valid k v b) = none) ∧
    (∀ reason input s', step (PP g) s (.needs k reason input) = some s' →
      input = none ∧ (reason = 0 ∨ reason = 1) ∧ s'.status k = .needsRun) := by
  have h2 := reachG_inv2 hrun
  -- while `k` is being scanned no verdict of the rule is on record
  have hnone : s.status k = .scanning → s.validSeen k = none := by
    intro hs
    cases hv : s.validSeen k with
    | none => rfl
    | some b => exact absurd (h2.sigScan k hs (by rw [hv]; rfl)) hne
  refine ⟨?_, ?_, ?_⟩
  · simp only [step]
    split
    · rename_i hc
      simp only [Bool.and_eq_true, beq_iff_eq] at hc
      rw [hnone hc.1.1] at hc
      cases hc.1.2
    · rfl
  · intro v b
    simp only [step]
    split
    · rename_i hc
      simp only [Bool.and_eq_true, beq_iff_eq] at hc
      exact absurd hc.1.1.1.2 hne
    · rfl
  · intro reason input s' h
    obtain ⟨hs, hr⟩ := C02_reason_true h
    have hst : s'.status k = .needsRun := by
      simp only [step] at h
      split at h
      · cases h; simp
      · cases h
    rcases hr with ⟨a, b, _⟩ | ⟨a, b, _⟩ | ⟨_, _, c⟩ | ⟨_, d, _, c, _⟩
    · exact ⟨b, Or.inl a, hst⟩
    · exact ⟨b, Or.inr a, hst⟩
    · rw [hnone hs] at c; cases c
    · rw [hnone hs] at c; cases c

/-- **C09_changed_definition_signature_differs_valid.**  The bridge from "definition" to "signature"
under the client obligation `SigCoversValid`: if the stored result of `k` carries a signature of
generation `g1`'s rule, the current rule of `k` can accept a stored value at all, and the rule's task
differs between `g1` and the current generation (requests, discovered dependencies or result
function), then the stored signature is not the one the engine holds for the rule now — so
`C09_changed_definition_reruns` applies.  (A rule that never accepts its stored value re-runs in every
build anyway: the only verdict it can give is "invalid", `C02_reason_true` reason 2.) -/
theorem C09_changed_definition_signature_differs_valid {PP : Nat → Program} (hC : SigCoversValid PP)
    (hS : SelfStable PP) {evs : List GEvent} {g0 : Nat} {s : St} {g : Nat} {k : Key}
    (hrun : runG PP ({}, g0) evs = some (s, g)) (hnd : s.pendingDropped = false)
    (hreg : s.registered k = true) (hv : CanValid (PP g) k) {g1 : Nat} (hrec : SigOf (PP g1) k (s.mem.res k).sig)
    (hchg : (PP g1).next k ≠ (PP g).next k ∨ (PP g1).disc k ≠ (PP g).disc k ∨
      ∃ e r, (PP g1).out k e r ≠ (PP g).out k e r) :
    (s.mem.res k).sig ≠ s.sigAt k := by
  obtain ⟨env', he'⟩ := (reachG_inv hC hS hrun hnd).1.sigAtOk k hreg
  obtain ⟨env, he⟩ := hrec
  intro heq
  exact hC.changed hv hchg env env' (he.trans (heq.trans he'.symm))

/-- **C09_changed_definition_signature_differs.**  The same under the stronger obligation `SigCovers`
(every rule's signature covers its definition), for every rule. -/
theorem C09_changed_definition_signature_differs {PP : Nat → Program} (hC : SigCovers PP) (hS : SelfStable PP)
    {evs : List GEvent} {g0 : Nat} {s : St} {g : Nat} {k : Key}
    (hrun : runG PP ({}, g0) evs = some (s, g)) (hnd : s.pendingDropped = false)
    (hreg : s.registered k = true) {g1 : Nat} (hrec : SigOf (PP g1) k (s.mem.res k).sig)
    (hchg : (PP g1).next k ≠ (PP g).next k ∨ (PP g1).disc k ≠ (PP g).disc k ∨
      ∃ e r, (PP g1).out k e r ≠ (PP g).out k e r) :
    (s.mem.res k).sig ≠ s.sigAt k := by
  obtain ⟨env', he'⟩ := (reachG_inv hC.toWeak hS hrun hnd).1.sigAtOk k hreg
  obtain ⟨env, he⟩ := hrec
  intro heq
  exact hC.changed hchg env env' (he.trans (heq.trans he'.symm))

/-- **C09_unchanged_definition_needs_other_reason.**  Conversely the engine reports "signature changed"
(reason 1) only when the stored signature differs from the rule's: a rule whose definition (signature)
is unchanged re-runs only for another true reason (`C02_reason_true`: never built, invalid value, an
input rebuilt). -/
theorem C09_unchanged_definition_needs_other_reason {P : Program} {s s' : St} {k : Key}
    (h : step P s (.needs k 1 none) = some s') : (s.mem.res k).sig ≠ s.sigAt k := by
  rcases (C02_reason_true h).2 with ⟨a, _⟩ | ⟨_, _, _, b⟩ | ⟨a, _⟩ | ⟨a, _⟩
  · cases a
  · exact b
  · cases a
  · cases a

/-! ### Non-vacuity: two generations of a two-rule description; rule 2's definition and signature change -/

namespace GenExample

/-- generation `g`: rule 1 reads external state 1 (an input rule, the same in every generation); rule 2
adds `1 + g` to the value of rule 1 and has signature `7 + g` -/
def PP (g : Nat) : Program where
  sig := fun _ k => if k = 2 then 7 + g else 7
  valid := fun env k v => if k = 1 then v == env 1 else true
  next := fun k _ => if k = 2 then [⟨1, 0, 0⟩] else []
  disc := fun _ _ => []
  out := fun k env recv => if k = 1 then env 1 else if k = 2 then (recv.map (·.2)).sum + 1 + g else 0
  force := fun _ => false
  self := fun k => k == 1

theorem PP_WF (g : Nat) : (PP g).WF := by
  refine ⟨?_, ?_, ?_, ?_, ?_, ?_⟩
  · intro k env env' recv _ hs
    by_cases e : k = 1
    · subst e; simp only [PP, if_true]; exact hs (by simp [PP])
    · simp [PP, e]
  · intro k env v hs hv
    have e : k = 1 := by simpa [PP] using hs
    subst e; simpa [PP] using hv
  · intro k recv hs
    have e : k = 1 := by simpa [PP] using hs
    subst e; simp [PP]
  · intro k recv _; rfl
  · intro k recv d hd; simp [PP] at hd
  · intro d env env' hs h
    have e : d = 1 := by simpa [PP] using hs
    subst e; simpa [PP] using h

theorem PP_SigCovers : SigCovers PP := by
  refine ⟨PP_WF, ?_⟩
  intro g g' k env env' h
  by_cases e : k = 2
  · subst e
    have : g = g' := by simpa [PP] using h
    subst this; exact ⟨rfl, rfl, fun _ _ => rfl⟩
  · refine ⟨rfl, rfl, fun en r => ?_⟩
    simp [PP, e]

theorem PP_SelfStable : SelfStable PP := by
  intro g g' d env hs _
  have e : d = 1 := by simpa [PP] using hs
  subst e; simp [PP]

/-- generation 0: a first build of key 2 from nothing (external state 1 ↦ 3); then the description is
edited (generation 1: rule 2 now adds 2, signature 8) and the tool is started again -/
def hist0 : List GEvent :=
  ([.mutate 1 3, .buildStart 2, .queueCreated, .dbIter 1, .lookup 2, .scanning 2, .needs 2 0 none, .create 2,
    .start 2 [⟨1, 0, 0⟩], .lookup 1, .scanning 1, .needs 1 0 none, .create 1, .start 1 [], .inputsAvail 1 [],
    .complete 1 3 false, .finished 1 { value := 3, sig := 7, computedAt := 1, builtAt := 1, deps := [] },
    .provide 2 0 1 3 [], .inputsAvail 2 [], .complete 2 4 false,
    .finished 2 { value := 4, sig := 7, computedAt := 1, builtAt := 1, deps := [⟨1, false, false⟩] },
    .ret 4, .dbEnd, .tail 0 0] : List Event).map .ev ++ [.reprogram 1]

/-- generation 1: key 2 is built again up to the point where rule 2 is being scanned -/
def hist1a : List GEvent :=
  ([.buildStart 2, .queueCreated, .dbIter 2, .lookup 2, .scanning 2] : List Event).map .ev

/-- ... rule 2 re-runs because its signature changed, rule 1 is up to date; the build is about to return -/
def hist1b : List GEvent :=
  ([.needs 2 1 none, .create 2, .start 2 [⟨1, 0, 0⟩], .lookup 1, .scanning 1, .valid 1 3 true, .upToDate 1,
    .provide 2 0 1 3 [], .inputsAvail 2 [], .complete 2 5 false,
    .finished 2 { value := 5, sig := 8, computedAt := 2, builtAt := 2, deps := [⟨1, false, false⟩] }] : List Event).map .ev

set_option maxRecDepth 4096 in
/-- non-vacuity of `C01_value_gen` / `C01_inputs_gen`: an accepted history with a description change,
ending in generation 1 in a successful `ret 5` (= 3 + 2, the clean value of the NEW description) -/
example : ∃ s s', runG PP ({}, 0) (hist0 ++ hist1a ++ hist1b) = some (s, 1) ∧
    step (PP 1) s (.ret 5) = some s' ∧ s'.pendingDropped = false ∧
    (s.cancelled = false ∧ s.cycleSeen = false ∧ s.errSeen = false) ∧ SigCovers PP ∧ SelfStable PP := by
  have h : ((runG PP ({}, 0) (hist0 ++ hist1a ++ hist1b)).bind (fun sg =>
      (step (PP 1) sg.1 (.ret 5)).map (fun s' => (sg.2 == 1 && !s'.pendingDropped && !sg.1.cancelled &&
        !sg.1.cycleSeen && !sg.1.errSeen)))) = some true := by decide
  cases h1 : runG PP ({}, 0) (hist0 ++ hist1a ++ hist1b) with
  | none => rw [h1] at h; cases h
  | some sg =>
    obtain ⟨s, g⟩ := sg
    rw [h1] at h
    simp only [Option.bind] at h
    cases h2 : step (PP 1) s (.ret 5) with
    | none => rw [h2] at h; cases h
    | some s' =>
      rw [h2] at h
      simp only [Option.map, Option.some.injEq, Bool.and_eq_true, beq_iff_eq, Bool.not_eq_eq_eq_not,
        Bool.not_true] at h
      obtain ⟨⟨⟨⟨a, b⟩, c⟩, d⟩, e⟩ := h
      subst a
      exact ⟨s, s', rfl, h2, b, ⟨c, d, e⟩, PP_SigCovers, PP_SelfStable⟩

set_option maxRecDepth 4096 in
/-- non-vacuity of the C09 theorems: after the description change rule 2 is being scanned with a stored
signature (7) that is not the current rule's (8); the stored signature is generation 0's, rule 2's
result function differs between generations 0 and 1; `needs 2 1 none` is accepted -/
example : ∃ s, runG PP ({}, 0) (hist0 ++ hist1a) = some (s, 1) ∧ s.pendingDropped = false ∧
    s.registered 2 = true ∧ (s.mem.res 2).sig ≠ s.sigAt 2 ∧ SigOf (PP 0) 2 (s.mem.res 2).sig ∧
    (∃ e r, (PP 0).out 2 e r ≠ (PP 1).out 2 e r) ∧ (step (PP 1) s (.needs 2 1 none)).isSome = true := by
  have h : ((runG PP ({}, 0) (hist0 ++ hist1a)).map (fun sg =>
      (sg.2 == 1 && !sg.1.pendingDropped && sg.1.registered 2 && (sg.1.mem.res 2).sig == 7 && sg.1.sigAt 2 == 8 &&
        (step (PP 1) sg.1 (.needs 2 1 none)).isSome))) = some true := by decide
  cases h1 : runG PP ({}, 0) (hist0 ++ hist1a) with
  | none => rw [h1] at h; cases h
  | some sg =>
    obtain ⟨s, g⟩ := sg
    rw [h1] at h
    simp only [Option.map, Option.some.injEq, Bool.and_eq_true, beq_iff_eq, Bool.not_eq_eq_eq_not,
      Bool.not_true] at h
    obtain ⟨⟨⟨⟨⟨a, b⟩, c⟩, d⟩, e⟩, f⟩ := h
    subst a
    refine ⟨s, rfl, b, c, by rw [d, e]; decide, ⟨fun _ => 0, by rw [d]; rfl⟩, ⟨fun _ => 0, [], by decide⟩, f⟩

end GenExample

/-! ### Non-vacuity of the weaker obligation: a never-valid rule edited under a constant signature -/

namespace WeakExample

/-- every rule has the constant signature 7; rule 1 reads external state 1; rule 2 (a "target": it never
accepts its stored value) adds `1 + g` to the value of rule 1 — its definition changes, its signature does not -/
def PP (g : Nat) : Program where
  sig := fun _ _ => 7
  valid := fun env k v => if k = 1 then v == env 1 else false
  next := fun k _ => if k = 2 then [⟨1, 0, 0⟩] else []
  disc := fun _ _ => []
  out := fun k env recv => if k = 1 then env 1 else if k = 2 then (recv.map (·.2)).sum + 1 + g else 0
  force := fun _ => false
  self := fun k => k == 1

theorem PP_WF (g : Nat) : (PP g).WF := by
  refine ⟨?_, ?_, ?_, ?_, ?_, ?_⟩
  · intro k env env' recv _ hs
    by_cases e : k = 1
    · subst e; simp only [PP, if_true]; exact hs (by simp [PP])
    · simp [PP, e]
  · intro k env v hs hv
    have e : k = 1 := by simpa [PP] using hs
    subst e; simpa [PP] using hv
  · intro k recv hs
    have e : k = 1 := by simpa [PP] using hs
    subst e; simp [PP]
  · intro k recv _; rfl
  · intro k recv d hd; simp [PP] at hd
  · intro d env env' hs h
    have e : d = 1 := by simpa [PP] using hs
    subst e; simpa [PP] using h

theorem PP_SigCoversValid : SigCoversValid PP := by
  refine ⟨PP_WF, ?_⟩
  intro g g' k env env' hv _
  obtain ⟨en, v, hv⟩ := hv
  have e : k = 1 := by
    by_cases e : k = 1
    · exact e
    · simp [PP, e] at hv
  subst e
  exact ⟨rfl, rfl, fun _ _ => rfl⟩

/-- the stronger obligation fails: rule 2 has the same signature and different result functions -/
theorem PP_not_SigCovers : ¬ SigCovers PP := by
  intro h
  have := (h.covers 0 1 2 (fun _ => 0) (fun _ => 0) rfl).2.2 (fun _ => 0) []
  simp [PP] at this

theorem PP_SelfStable : SelfStable PP := by
  intro g g' d env hs _
  have e : d = 1 := by simpa [PP] using hs
  subst e; simp [PP]

def hist : List GEvent :=
  ([.mutate 1 3, .buildStart 2, .queueCreated, .dbIter 1, .lookup 2, .scanning 2, .needs 2 0 none, .create 2,
    .start 2 [⟨1, 0, 0⟩], .lookup 1, .scanning 1, .needs 1 0 none, .create 1, .start 1 [], .inputsAvail 1 [],
    .complete 1 3 false, .finished 1 { value := 3, sig := 7, computedAt := 1, builtAt := 1, deps := [] },
    .provide 2 0 1 3 [], .inputsAvail 2 [], .complete 2 4 false,
    .finished 2 { value := 4, sig := 7, computedAt := 1, builtAt := 1, deps := [⟨1, false, false⟩] },
    .ret 4, .dbEnd, .tail 0 0] : List Event).map .ev ++ [.reprogram 1] ++
  ([.buildStart 2, .queueCreated, .dbIter 2, .lookup 2, .scanning 2, .valid 2 4 false, .needs 2 2 none, .create 2,
    .start 2 [⟨1, 0, 0⟩], .prior 2 4, .lookup 1, .scanning 1, .valid 1 3 true, .upToDate 1,
    .provide 2 0 1 3 [], .inputsAvail 2 [], .complete 2 5 false,
    .finished 2 { value := 5, sig := 7, computedAt := 2, builtAt := 2, deps := [⟨1, false, false⟩] }] : List Event).map .ev

set_option maxRecDepth 4096 in
/-- non-vacuity of `C01_value_gen` under `SigCoversValid` where `SigCovers` fails: the edited never-valid
rule re-runs (reason 2) and the build returns the clean value 5 of the new description -/
example : ∃ s s', runG PP ({}, 0) hist = some (s, 1) ∧
    step (PP 1) s (.ret 5) = some s' ∧ s'.pendingDropped = false ∧
    (s.cancelled = false ∧ s.cycleSeen = false ∧ s.errSeen = false) ∧ SigCoversValid PP ∧ SelfStable PP ∧
    ¬ SigCovers PP := by
  have h : ((runG PP ({}, 0) hist).bind (fun sg =>
      (step (PP 1) sg.1 (.ret 5)).map (fun s' => (sg.2 == 1 && !s'.pendingDropped && !sg.1.cancelled &&
        !sg.1.cycleSeen && !sg.1.errSeen)))) = some true := by decide
  cases h1 : runG PP ({}, 0) hist with
  | none => rw [h1] at h; cases h
  | some sg =>
    obtain ⟨s, g⟩ := sg
    rw [h1] at h
    simp only [Option.bind] at h
    cases h2 : step (PP 1) s (.ret 5) with
    | none => rw [h2] at h; cases h
    | some s' =>
      rw [h2] at h
      simp only [Option.map, Option.some.injEq, Bool.and_eq_true, beq_iff_eq, Bool.not_eq_eq_eq_not,
        Bool.not_true] at h
      obtain ⟨⟨⟨⟨a, b⟩, c⟩, d⟩, e⟩ := h
      subst a
      exact ⟨s, s', rfl, h2, b, ⟨c, d, e⟩, PP_SigCoversValid, PP_SelfStable, PP_not_SigCovers⟩

end WeakExample

/-! ### `SelfStable` cannot be dropped

Two generations that satisfy `SigCovers` (rule 1, an input rule, changes how it reads external state
1 — `env 1` becomes `env 1 + 1` — and its signature changes with it; rule 2, whose definition and
signature do not change, reads external state 1 directly and reports rule 1 as a discovered
dependency).  After the edit external state 1 goes from 3 to 2: rule 1 re-runs (signature changed) and
produces the SAME value 3 as before, so the engine finds rule 2's recorded input unchanged and declares
rule 2 up to date with the value 13 computed from the old external state; a clean build of the new
description gives 12. -/

namespace NeedSelfStable

def PP (g : Nat) : Program where
  sig := fun _ k => if k = 1 then 7 + g else 7
  valid := fun env k v => if k = 1 then v == env 1 + g else true
  next := fun _ _ => []
  disc := fun k _ => if k = 2 then [1] else []
  out := fun k env _ => if k = 1 then env 1 + g else if k = 2 then env 1 + 10 else 0
  force := fun _ => false
  self := fun k => k == 1

theorem PP_WF (g : Nat) : (PP g).WF := by
  refine ⟨?_, ?_, ?_, ?_, ?_, ?_⟩
  · intro k env env' recv hd hs
    by_cases e : k = 1
    · subst e; simp only [PP, if_true]; rw [hs (by simp [PP])]
    · by_cases e2 : k = 2
      · subst e2
        have := hd 1 (by simp [PP])
        simp [PP, this]
      · simp [PP, e, e2]
  · intro k env v hs hv
    have e : k = 1 := by simpa [PP] using hs
    subst e; simpa [PP] using hv
  · intro k recv _; rfl
  · intro k recv hs
    have e : k = 1 := by simpa [PP] using hs
    subst e; simp [PP]
  · intro k recv d hd
    by_cases e2 : k = 2
    · subst e2
      have : d = 1 := by simpa [PP] using hd
      subst this; simp [PP]
    · simp [PP, e2] at hd
  · intro d env env' hs h
    have e : d = 1 := by simpa [PP] using hs
    subst e; simpa [PP] using h

theorem PP_SigCovers : SigCovers PP := by
  refine ⟨PP_WF, ?_⟩
  intro g g' k env env' h
  by_cases e : k = 1
  · subst e
    have : g = g' := by simpa [PP] using h
    subst this; exact ⟨rfl, rfl, fun _ _ => rfl⟩
  · refine ⟨rfl, rfl, fun en r => ?_⟩
    simp [PP, e]

def hist : List GEvent :=
  ([.mutate 1 3, .buildStart 2, .queueCreated, .dbIter 1, .lookup 2, .scanning 2, .needs 2 0 none, .create 2,
    .start 2 [], .inputsAvail 2 [1], .complete 2 13 false,
    .finished 2 { value := 13, sig := 7, computedAt := 1, builtAt := 1, deps := [⟨1, false, false⟩] },
    .lookup 1, .scanning 1, .needs 1 0 none, .create 1, .start 1 [], .inputsAvail 1 [], .complete 1 3 false,
    .finished 1 { value := 3, sig := 7, computedAt := 1, builtAt := 1, deps := [] },
    .ret 13, .dbEnd, .tail 0 0, .mutate 1 2] : List Event).map .ev ++ [.reprogram 1] ++
  ([.buildStart 2, .queueCreated, .dbIter 2, .lookup 2, .scanning 2, .valid 2 13 true, .lookup 1, .scanning 1,
    .needs 1 1 none, .create 1, .start 1 [], .inputsAvail 1 [], .complete 1 3 false,
    .finished 1 { value := 3, sig := 8, computedAt := 1, builtAt := 2, deps := [] },
    .upToDate 2] : List Event).map .ev

theorem clean2 (env : Env) (v : Val) (h : Clean (PP 1) env 2 v) : v = env 1 + 10 := by
  cases h with
  | mk _ seq _ _ _ => simp [PP]

set_option maxRecDepth 4096 in
/-- **C01_value_gen_needs_SelfStable.**  Without `SelfStable` the conclusion of `C01_value_gen` fails: an
accepted history of a client satisfying `SigCovers` ends in a successful `ret 13` of key 2 while the
clean value of the current description is 12. -/
theorem C01_value_gen_needs_SelfStable : ∃ (s s' : St), SigCovers PP ∧
    runG PP ({}, 0) hist = some (s, 1) ∧ step (PP 1) s (.ret 13) = some s' ∧ s'.pendingDropped = false ∧
    (s.cancelled = false ∧ s.cycleSeen = false ∧ s.errSeen = false) ∧ s.target = some 2 ∧
    ¬ Clean (PP 1) s.env 2 13 := by
  have h : ((runG PP ({}, 0) hist).bind (fun sg =>
      (step (PP 1) sg.1 (.ret 13)).map (fun s' => (sg.2 == 1 && !s'.pendingDropped && !sg.1.cancelled &&
        !sg.1.cycleSeen && !sg.1.errSeen && sg.1.target == some 2 && sg.1.env 1 == 2)))) = some true := by decide
  cases h1 : runG PP ({}, 0) hist with
  | none => rw [h1] at h; cases h
  | some sg =>
    obtain ⟨s, g⟩ := sg
    rw [h1] at h
    simp only [Option.bind] at h
    cases h2 : step (PP 1) s (.ret 13) with
    | none => rw [h2] at h; cases h
    | some s' =>
      rw [h2] at h
      simp only [Option.map, Option.some.injEq, Bool.and_eq_true, beq_iff_eq, Bool.not_eq_eq_eq_not,
        Bool.not_true] at h
      obtain ⟨⟨⟨⟨⟨⟨a, b⟩, c⟩, d⟩, e⟩, f⟩, i⟩ := h
      subst a
      refine ⟨s, s', PP_SigCovers, rfl, h2, b, ⟨c, d, e⟩, f, ?_⟩
      intro hcl
      have := clean2 s.env 13 hcl
      rw [i] at this
      cases this

end NeedSelfStable

end LLBuild.Engine
