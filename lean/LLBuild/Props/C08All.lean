/-
C08 — aggregate module of the check: the theorems for one description (Props/C08.lean) and the theorems over
histories in which the description is edited between runs of the tool (Props/C08Gen.lean).
-/
import LLBuild.Props.C08
import LLBuild.Props.C08Gen
import LLBuild.Props.C08X
