/-
C01 — aggregate module of the check: the fixed-program theorems (Props/C01.lean) and the theorems over
histories in which the client program changes between engine lifetimes (Props/C01Gen.lean).
-/
import LLBuild.Props.C01
import LLBuild.Props.C01Gen
import LLBuild.Props.EngineImplSoundGen
import LLBuild.Props.EngineImplSound
import LLBuild.Props.EngineImplSched
import LLBuild.Props.EngineImplAll
