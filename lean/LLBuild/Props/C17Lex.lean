/-
C17 (lexical half) — Ninja manifests mean what Ninja says they mean.

"[...] $-escapes and line continuations, [...] keywords recognised only as whole words, and bytes 0x80-0xFF
treated as ordinary characters.  A shell-quoted path passed through /bin/sh yields the original path."

Property theorems only.  Models: LLBuild/Model/NinjaLexer.lean (lexer, all four modes) and
LLBuild/Model/ShellEscape.lean (`appendShellEscapedString`, and `Sh.words`: POSIX sh word splitting / quote
removal for the sub-language `shellEscaped` can emit — a SPECIFICATION, validated against /bin/sh on every
run).  Keyword table, identifier ranges, char widening and the shell whitelist are extracted from the source
on every run (LLBuild/Generated/NinjaLexerTables.lean, ShellWhitelist.lean); the theorems are about those.

The manifest LOADER half of C17 (scoping, evalString, rule lookup) is a separate check.
-/
import LLBuild.Props.C19Ninja
import LLBuild.Lemmas.ShellEscape

namespace LLBuild.NinjaLexer
open LLBuild.Generated.NinjaLexer (Kind KwEntry Guard)

/-- "keywords recognised only as whole words", as a predicate of the configuration: a token that `lex`
classifies as identifier-or-keyword (in a mode that recognises keywords) has keyword kind `kw.kind`
if and only if its bytes are exactly `kw.literal`. -/
def C17_keywords_full (cfg : Cfg) : Prop :=
  ∀ (buf : Bytes) (m : LexMode) (s s' : St) (tok : Token), s.pos ≤ buf.length → m ≠ .identifierSpecific →
    lex cfg buf m s = .ok (tok, s') → isIdentKind tok.kind = true →
    ∀ e ∈ cfg.keywords, (tok.kind = e.kind ↔ slice buf tok.start tok.len = e.literal)

/-- Over the GENERATED keyword table: an identifier is classified as keyword `kw` iff its bytes equal `kw`. -/
theorem C17_keywords_whole_word : C17_keywords_full genCfg := by
  intro buf m s s' tok hs hm h hid e he
  have ok := genCfg_ok
  have hp := (Res.sat_of_eq (lex_sat ok buf m s hs) h).2
  obtain ⟨k, hk, hkind⟩ := (hp.ident hid).2 hm
  simp only at hk hkind
  cases k with
  | some kd =>
    obtain ⟨e0, he0, h1, h2⟩ := hk
    simp only [Option.getD_some] at hkind
    constructor
    · intro h'
      have : e0 = e := ok.kwKindUnique e0 he0 e he (by rw [h1, ← hkind, h'])
      rw [← this]; exact h2
    · intro h'
      have : e0 = e := ok.kwLitUnique e0 he0 e he (by rw [← h2, h'])
      rw [hkind, ← h1, this]
  | none =>
    simp only [Option.getD_none] at hkind
    constructor
    · intro h'
      exact absurd (by rw [← h', hkind]) (ok.kwNotFallback e he)
    · intro h'
      exact absurd h' (hk e he)

/-- Whole words on the right: an identifier / keyword token extends over every following identifier
character — it ends at the end of the buffer or in front of a byte that is not an identifier character
(so `rulex` is one identifier, never the keyword `rule` followed by `x`). -/
theorem C17_identifier_maximal (buf : Bytes) (m : LexMode) (s s' : St) (tok : Token) (hs : s.pos ≤ buf.length)
    (h : lex genCfg buf m s = .ok (tok, s')) (hid : isIdentKind tok.kind = true) :
    tok.start + tok.len = buf.length ∨
      ∃ b : UInt8, buf[tok.start + tok.len]? = some b ∧ isIdentifierChar genCfg (b.toNat : Int) = false := by
  have hp := (Res.sat_of_eq (lex_sat genCfg_ok buf m s hs) h).2
  obtain ⟨c, hc, hn⟩ := (hp.ident hid).1
  rw [hp.end_eq]
  rcases hc with ⟨h1, _⟩ | ⟨b, hb, hcb⟩
  · exact Or.inl h1
  · exact Or.inr ⟨b, hb, by rw [← hcb]; exact hn⟩

/-- Exactly where a `String` token stops: in variable-assignment mode only at a newline character, in
every other mode (path mode) only at white space, `:` or `|` — or at the end of the buffer.  In particular
`$`-escaped characters (including an escaped newline, i.e. a line continuation) never end the token. -/
theorem C17_string_token_stops (buf : Bytes) (m : LexMode) (s s' : St) (tok : Token) (hs : s.pos ≤ buf.length)
    (h : lex genCfg buf m s = .ok (tok, s')) (hk : tok.kind = .String) :
    tok.start + tok.len = buf.length ∨
      ∃ b : UInt8, buf[tok.start + tok.len]? = some b ∧
        (if m = .variableString then b.toNat = 10 ∨ b.toNat = 13
         else b.toNat = 32 ∨ (9 ≤ b.toNat ∧ b.toNat ≤ 13) ∨ b.toNat = 58 ∨ b.toNat = 124) := by
  have hp := (Res.sat_of_eq (lex_sat genCfg_ok buf m s hs) h).2
  obtain ⟨c, hc, hstop⟩ := hp.str_stop hk
  rw [hp.end_eq]
  rcases hc with ⟨h1, _⟩ | ⟨b, hb, hcb⟩
  · exact Or.inl h1
  · refine Or.inr ⟨b, hb, ?_⟩
    unfold StrStop at hstop
    split
    · rename_i hm
      rw [if_pos hm] at hstop
      unfold VarStop at hstop
      omega
    · rename_i hm
      rw [if_neg hm] at hstop
      unfold PathStop at hstop
      simp only [isspaceC, decide_eq_true_eq] at hstop
      omega

/-- "$-escapes and line continuations" between tokens / "without gaps": whatever a `lex` call (any mode, any
in-bounds cursor) skips in front of the token it returns consists only of blanks and `$`-newline
continuations — every skipped byte is space, TAB, VT, FF, `$`, CR or LF.  In particular no byte ≥ 0x80 and
no printable character is ever dropped between two tokens. -/
theorem C17_trivia_is_blank_or_continuation (buf : Bytes) (m : LexMode) (s s' : St) (tok : Token)
    (hs : s.pos ≤ buf.length) (h : lex genCfg buf m s = .ok (tok, s')) :
    ∀ i, s.pos ≤ i → i < tok.start → ∃ x : UInt8, buf[i]? = some x ∧ IsTriviaByte x.toNat :=
  Res.sat_of_eq (lex_trivia genCfg_ok buf m s hs) h

/-- "bytes 0x80-0xFF treated as ordinary characters", as a predicate of the configuration: a byte ≥ 0x80
never ends the file (`EndOfFile` is only returned at the true end) and never ends a string token. -/
def C17_high_bytes_full (cfg : Cfg) : Prop :=
  ∀ (buf : Bytes) (m : LexMode) (s s' : St) (tok : Token), s.pos ≤ buf.length → lex cfg buf m s = .ok (tok, s') →
    (tok.kind = .EndOfFile → tok.start = buf.length) ∧
    (tok.kind = .String → ∀ b : UInt8, buf[tok.start + tok.len]? = some b → b.toNat < 128)

theorem C17_high_bytes_ordinary : C17_high_bytes_full genCfg := by
  intro buf m s s' tok hs h
  refine ⟨fun he => ((C19_eof_only_at_end buf m s s' tok hs h).1 he).1, ?_⟩
  intro hk b hb
  rcases C17_string_token_stops buf m s s' tok hs h hk with hend | ⟨b', hb', hstop⟩
  · have := (List.getElem?_eq_some_iff.1 hb).1
    omega
  · rw [hb] at hb'
    cases hb'
    split at hstop <;> omega

/-! ### The statements are false of the code before the repairs (witnesses, kernel-evaluated) -/

/-- F5: `memcmp("subninja", start, 7)`: the 8-byte identifier `subninjb` is classified `KWSubninja`. -/
theorem legacy_keyword_prefix : ¬ C17_keywords_full legacyCfg := by
  intro h
  have := h [115, 117, 98, 110, 105, 110, 106, 98] .none initSt ⟨8, 1, 8⟩ ⟨.KWSubninja, 0, 8, 1, 0⟩
    (by decide) (by decide) (by decide) (by decide)
    ⟨8, [115, 117, 98, 110, 105, 110, 106, 97], 7, .KWSubninja⟩ (by decide)
  exact absurd (this.1 rfl) (by decide)

/-- F6: in variable-string mode `a\xFFb` yields the string `a` — ended by the byte 0xFF — then `EndOfFile` at offset 1. -/
theorem legacy_high_byte_ends : ¬ C17_high_bytes_full legacyCfg := by
  intro h
  have := (h [97, 255, 98] .variableString initSt ⟨1, 1, 1⟩ ⟨.String, 0, 1, 1, 0⟩ (by decide) (by decide)).2 rfl 255 (by decide)
  exact absurd this (by decide)

/-! ### Non-vacuity -/

-- `subninjb x`, `subninja x`, `rulex`, `rule` at the very end of the buffer
example : (lex genCfg [115, 117, 98, 110, 105, 110, 106, 98, 32, 120] .none initSt) = .ok (⟨.Identifier, 0, 8, 1, 0⟩, ⟨8, 1, 8⟩) := by decide
example : (lex genCfg [115, 117, 98, 110, 105, 110, 106, 97, 32, 120] .none initSt) = .ok (⟨.KWSubninja, 0, 8, 1, 0⟩, ⟨8, 1, 8⟩) := by decide
example : (lex genCfg [114, 117, 108, 101, 120] .none initSt) = .ok (⟨.Identifier, 0, 5, 1, 0⟩, ⟨5, 1, 5⟩) := by decide
example : (lex genCfg [114, 117, 108, 101] .none initSt) = .ok (⟨.KWRule, 0, 4, 1, 0⟩, ⟨4, 1, 4⟩) := by decide
example : (lex genCfg [114, 117, 108, 101] .identifierSpecific initSt) = .ok (⟨.Identifier, 0, 4, 1, 0⟩, ⟨4, 1, 4⟩) := by decide
-- `a\xFFb c` as a variable string is ONE token up to the end; as a path string it stops at the blank
example : (lex genCfg [97, 255, 98, 32, 99] .variableString initSt) = .ok (⟨.String, 0, 5, 1, 0⟩, ⟨5, 1, 5⟩) := by decide
example : (lex genCfg [97, 255, 98, 32, 99] .pathString initSt) = .ok (⟨.String, 0, 3, 1, 0⟩, ⟨3, 1, 3⟩) := by decide

end LLBuild.NinjaLexer

namespace LLBuild.ShellEscape

/-- "A shell-quoted path passed through /bin/sh yields the original path", as a predicate of the whitelist. -/
def C17_sh_roundtrip_full (wl : Bytes) : Prop :=
  ∀ p : Bytes, p ≠ [] → (∀ c ∈ p, c ≠ 0) →
    Sh.words (shellEscapedWith wl Generated.Shell.quote Generated.Shell.quoteReplacement p) = some [p]

/-- For every non-empty NUL-free path, the shell reads `shellEscaped p` as exactly one word, `p`.
Uses of the extracted constants: every whitelisted byte is literal to the shell when unquoted (false while
`#` was whitelisted, F4), the quote character is `'` and is not whitelisted, an embedded quote is emitted
as `'\''`. -/
theorem C17_sh_roundtrip : C17_sh_roundtrip_full Generated.Shell.whitelist := by
  intro p hne hnul
  have hwl : ∀ c ∈ Generated.Shell.whitelist, Sh.plain c = true := by decide
  have hq : Generated.Shell.quote = 39 := by decide
  have hr : Generated.Shell.quoteReplacement = [39, 92, 39, 39] := by decide
  have hqwl : Generated.Shell.whitelist.contains 39 = false := by decide
  rw [hq, hr]
  cases hpos : findFirstNotOf Generated.Shell.whitelist p with
  | none =>
    have hall : ∀ c ∈ p, Sh.plain c = true := by
      intro c hc
      have := List.findIdx?_eq_none_iff.1 hpos c hc
      exact hwl c (by simpa using this)
    have : shellEscapedWith Generated.Shell.whitelist 39 [39, 92, 39, 39] p = p := by
      unfold shellEscapedWith; rw [hpos]
    rw [this]
    unfold Sh.words
    rw [Sh.go_plain p none hall (Or.inr hne)]
    simp
  | some pos =>
    rw [shellEscapedWith_quoted _ 39 _ hqwl p pos hpos]
    unfold Sh.words
    have h39 : ((39 : UInt8) = 39) = True := by simp
    simp only [List.cons_append, List.nil_append, Sh.go, if_true, Option.getD_none]
    rw [Sh.go_sq_escape p [] [] hnul]
    simp [Sh.go]

theorem C17_sh_roundtrip' (p : Bytes) (hne : p ≠ []) (hnul : ∀ c ∈ p, c ≠ 0) : Sh.words (shellEscaped p) = some [p] :=
  C17_sh_roundtrip p hne hnul

/-- F4: with `#` whitelisted, `shellEscaped "#x" = "#x"`, which the shell reads as a comment: no word at all. -/
theorem legacy_hash_is_comment : ¬ C17_sh_roundtrip_full legacyWhitelist := by
  intro h
  have := h [35, 120] (by decide) (by decide)
  exact absurd this (by decide)

/-! ### Non-vacuity -/
-- "#x" is now quoted; "it's" ; "a b" ; a path of whitelisted characters stays as it is
example : shellEscaped [35, 120] = [39, 35, 120, 39] := by decide
example : Sh.words (shellEscaped [35, 120]) = some [[35, 120]] := by decide
example : shellEscaped [105, 116, 39, 115] = [39, 105, 116, 39, 92, 39, 39, 115, 39] := by decide
example : Sh.words (shellEscaped [105, 116, 39, 115]) = some [[105, 116, 39, 115]] := by decide
example : shellEscaped [47, 97, 46, 111] = [47, 97, 46, 111] := by decide
-- Sh.words splits at blanks, honours comments at word starts only
example : Sh.words [97, 32, 39, 98, 32, 99, 39, 32, 35, 100] = some [[97], [98, 32, 99]] := by decide
example : Sh.words [97, 35, 98] = some [[97, 35, 98]] := by decide

end LLBuild.ShellEscape
