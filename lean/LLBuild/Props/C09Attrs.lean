/-
C09 — "a command re-runs exactly when its definition changed", from the DEFINITION (the ordered keys of the command's
mapping in the build file) to the pre-hash signature term: the configure interpreter (`BSAttrs.run` on the generated
tables, Props/C09AttrTables.lean) composed with the recipe theorems of Props/C09Classes.lean.

* `C09_definition_change_changes_signature`  loaded definitions whose members differ in the signature-relevant part have different terms
* `C09_definition_equal_signature_equal`     reordering independent keys, adding / removing / editing deliberately unsigned keys and
                                             replacing a value by one with the same conversion do not move the signature term
* `C09_distinct_keys_independent`, `C09_hashed_members_independent_of_unsigned`, `C09_scalar_args_same_command`,
  `C09_split_scalars_same_command`, `C09_working_directory_same_command`, `C09_boolean_values_that_load`
-/
import LLBuild.Props.C09AttrTables
import LLBuild.Props.C09Classes

namespace LLBuild.BSAttrs
open LLBuild LLBuild.Signature

/-! ## From the definition to the signature term -/

/-- the signature term of a configured command of class `c` -/
def sigOfMembers (c : Cls) (name : Bytes) (m : Mem) : Option HashTerm := sigOf c (toDef name m)

/-- **C09_definition_change_changes_signature** — two definitions (of the same tool; same or different command names)
that the loader accepts (`run … = loaded`, with or without non-fatal diagnostics): if the members `configure` leaves
differ in the signature-relevant part of the tool's class — the converted values of the hashed members, `relevantOf c` —
then their pre-hash signature terms differ: the edited command re-runs.  (`C09_sig_iff_all_classes` composed with the
configure interpreter; `Loadable`: a symlink command has its one output.) -/
theorem C09_definition_change_changes_signature (tool cname : String) (c : Cls) (_h : (tool, cname, c) ∈ sigTools)
    (cwd : Bytes) (d₁ d₂ : Definition) (_ht₁ : d₁.tool = tool) (_ht₂ : d₂.tool = tool)
    (m₁ m₂ : Mem) (g₁ g₂ : List Bytes)
    (_h₁ : run tables cwd d₁ = .loaded m₁ g₁) (_h₂ : run tables cwd d₂ = .loaded m₂ g₂)
    (w₁ : Loadable c (toDef d₁.name m₁)) (w₂ : Loadable c (toDef d₂.name m₂))
    (hne : relevantOf c (toDef d₁.name m₁) ≠ relevantOf c (toDef d₂.name m₂)) :
    sigOfMembers c d₁.name m₁ ≠ sigOfMembers c d₂.name m₂ := fun heq =>
  hne ((C09_sig_iff_all_classes c _ _ w₁ w₂).1 heq)

/-- the same for cleanly loaded definitions, through `configure` -/
theorem C09_configure_change_changes_signature (tool cname : String) (c : Cls) (_h : (tool, cname, c) ∈ sigTools)
    (cwd : Bytes) (d₁ d₂ : Definition) (M₁ M₂ : Members)
    (_h₁ : configure tables cwd d₁ = .ok M₁) (_h₂ : configure tables cwd d₂ = .ok M₂)
    (w₁ : Loadable c M₁.sig) (w₂ : Loadable c M₂.sig) (hne : relevantOf c M₁.sig ≠ relevantOf c M₂.sig) :
    sigOf c M₁.sig ≠ sigOf c M₂.sig := fun heq =>
  hne ((C09_sig_iff_all_classes c _ _ w₁ w₂).1 heq)

/-! ### what `configure` ignores -/

/-- no assignment into a hashed member reads a member that is not hashed: what a key leaves in the hashed members does
not depend on the unsigned ones (whole generated table) -/
theorem flowSafe_tables :
    (tables.all fun t => match sigTools.lookup t.tool with
      | some (_, c) => (allRows t).all fun r => r.2.all fun a => decide (FlowSafe (signed c) a)
      | none => false) = true := by decide

theorem flowSafe_entry (t : ToolTable) (ht : t ∈ tables) (cname : String) (c : Cls)
    (hc : sigTools.lookup t.tool = some (cname, c)) (e : Entry) : ∀ a ∈ entryAssigns t e, FlowSafe (signed c) a := by
  intro a ha
  have hall := flowSafe_tables
  rw [List.all_eq_true] at hall
  have h1 := hall t ht
  rw [hc] at h1
  simp only [List.all_eq_true, decide_eq_true_eq] at h1
  rcases entryAssigns_mem t e with h0 | hmem
  · rw [h0] at ha; cases ha
  · exact h1 _ hmem a ha

/-- keys with different names touch different members, in every tool (whole generated table) -/
theorem distinctKeys_tables :
    (tables.all fun t => (allRows t).all fun r₁ => (allRows t).all fun r₂ =>
      r₁.1 == r₂.1 || ((targets r₁.2).all fun k => !(footprint r₂.2).contains k)) = true := by decide

/-- **entries with different keys are independent**, whatever their values and value kinds -/
theorem independent_of_distinct_keys (t : ToolTable) (ht : t ∈ tables) (e₁ e₂ : Entry) (hk : Entry.key e₁ ≠ Entry.key e₂) :
    Independent t e₁ e₂ := by
  have hall := distinctKeys_tables
  rw [List.all_eq_true] at hall
  have h1 := hall t ht
  simp only [List.all_eq_true, Bool.or_eq_true, beq_iff_eq, Bool.not_eq_true', List.contains_eq_mem,
    decide_eq_false_iff_not] at h1
  have half : ∀ a b : Entry, Entry.key a ≠ Entry.key b → ∀ k ∈ targets (entryAssigns t a), k ∉ footprint (entryAssigns t b) := by
    intro a b hab k hka
    rcases entryAssigns_mem t a with ha0 | ham
    · rw [ha0] at hka; cases hka
    · rcases entryAssigns_mem t b with hb0 | hbm
      · rw [hb0]; simp [footprint]
      · rcases h1 _ ham _ hbm with heq | hd
        · exact absurd heq hab
        · exact hd k hka
  exact ⟨half e₁ e₂ hk, half e₂ e₁ (Ne.symm hk)⟩

/-- **C09_distinct_keys_independent** — in every tool, two keys with different names assign and read disjoint sets of members,
whatever their values: the order of distinct attributes in a definition is irrelevant (`Edit.swap` applies to any such pair). -/
theorem C09_distinct_keys_independent (t : ToolTable) (ht : t ∈ tables) (e₁ e₂ : Entry) (hk : Entry.key e₁ ≠ Entry.key e₂) :
    Independent t e₁ e₂ := independent_of_distinct_keys t ht e₁ e₂ hk

/-- **C09_hashed_members_independent_of_unsigned** — in every tool, whatever the key: an assignment into a hashed member reads
hashed members only.  (So an unsigned member — a description, a repair flag — can never leak into a hashed one.) -/
theorem C09_hashed_members_independent_of_unsigned (t : ToolTable) (ht : t ∈ tables) (cname : String) (c : Cls)
    (hc : sigTools.lookup t.tool = some (cname, c)) (e : Entry) : ∀ a ∈ entryAssigns t e, FlowSafe (signed c) a :=
  flowSafe_entry t ht cname c hc e

/-- replacing `e` by `e'` leaves the same members: the two values have the same conversion -/
def SameConversion (t : ToolTable) (cwd cmd : Bytes) (e e' : Entry) : Prop :=
  ∀ m m₁ m₂ d₁ d₂, stepEntry t cwd cmd e m = .next m₁ d₁ → stepEntry t cwd cmd e' m = .next m₂ d₂ → m₁ = m₂

/-- one elementary edit of the ordered key list that does not change what the command is -/
inductive Edit (t : ToolTable) (S : List String) (cwd cmd : Bytes) : List Entry → List Entry → Prop
  /-- two adjacent keys that touch different members change places -/
  | swap (pre post : List Entry) (e₁ e₂ : Entry) : Independent t e₁ e₂ →
      Edit t S cwd cmd (pre ++ e₁ :: e₂ :: post) (pre ++ e₂ :: e₁ :: post)
  /-- a key that assigns only unsigned members is removed … -/
  | drop (pre post : List Entry) (e : Entry) : (∀ k ∈ targets (entryAssigns t e), k ∉ S) →
      Edit t S cwd cmd (pre ++ e :: post) (pre ++ post)
  /-- … or added (with any value) -/
  | add (pre post : List Entry) (e : Entry) : (∀ k ∈ targets (entryAssigns t e), k ∉ S) →
      Edit t S cwd cmd (pre ++ post) (pre ++ e :: post)
  /-- a key's value is replaced by one with the same converted value -/
  | replace (pre post : List Entry) (e e' : Entry) : SameConversion t cwd cmd e e' →
      Edit t S cwd cmd (pre ++ e :: post) (pre ++ e' :: post)

/-- a chain of edits through definitions that load -/
inductive SameCommand (t : ToolTable) (S : List String) (cwd cmd : Bytes) (m₀ : Mem) : List Entry → List Entry → Prop
  | refl (l : List Entry) : SameCommand t S cwd cmd m₀ l l
  | step {l l' l'' : List Entry} : Edit t S cwd cmd l l' → (∃ m d, runEntries t cwd cmd l' m₀ = .loaded m d) →
      SameCommand t S cwd cmd m₀ l' l'' → SameCommand t S cwd cmd m₀ l l''

theorem edit_agree {t : ToolTable} {S : List String} {cwd cmd : Bytes}
    (fs : ∀ e : Entry, ∀ a ∈ entryAssigns t e, FlowSafe S a) {l l' : List Entry} (ed : Edit t S cwd cmd l l')
    {m m₁ m₂ : Mem} {d₁ d₂ : List Bytes} (h₁ : runEntries t cwd cmd l m = .loaded m₁ d₁)
    (h₂ : runEntries t cwd cmd l' m = .loaded m₂ d₂) : Agree S m₁ m₂ := by
  cases ed with
  | swap pre post e₁ e₂ ind =>
    obtain ⟨a, _, _, hpa, hra⟩ := runEntries_append_loaded h₁
    obtain ⟨b, _, _, hpb, hrb⟩ := runEntries_append_loaded h₂
    have hab : a = b := runEntries_det hpa hpb
    subst hab
    obtain ⟨a₁, _, _, s₁, r₁⟩ := runEntries_cons_loaded hra
    obtain ⟨a₁₂, _, _, s₁₂, r₁₂⟩ := runEntries_cons_loaded r₁
    obtain ⟨a₂, _, _, s₂, r₂⟩ := runEntries_cons_loaded hrb
    obtain ⟨a₂₁, _, _, s₂₁, r₂₁⟩ := runEntries_cons_loaded r₂
    have : a₁₂ = a₂₁ := stepEntry_swap ind s₁ s₁₂ s₂ s₂₁
    subst this
    rw [runEntries_det r₁₂ r₂₁]; exact Agree.refl _ _
  | drop pre post e hu =>
    obtain ⟨a, _, _, hpa, hra⟩ := runEntries_append_loaded h₁
    obtain ⟨b, _, _, hpb, hrb⟩ := runEntries_append_loaded h₂
    have hab : a = b := runEntries_det hpa hpb
    subst hab
    obtain ⟨a₁, _, _, s₁, r₁⟩ := runEntries_cons_loaded hra
    have ag : Agree S a₁ a := fun k hk => stepEntry_frame s₁ (fun hk' => hu k hk' hk)
    exact runEntries_sim (fun e' _ => fs e') ag r₁ hrb
  | add pre post e hu =>
    obtain ⟨a, _, _, hpa, hra⟩ := runEntries_append_loaded h₁
    obtain ⟨b, _, _, hpb, hrb⟩ := runEntries_append_loaded h₂
    have hab : a = b := runEntries_det hpa hpb
    subst hab
    obtain ⟨b₁, _, _, s₁, r₁⟩ := runEntries_cons_loaded hrb
    have ag : Agree S a b₁ := fun k hk => (stepEntry_frame s₁ (fun hk' => hu k hk' hk)).symm
    exact runEntries_sim (fun e' _ => fs e') ag hra r₁
  | replace pre post e e' sc =>
    obtain ⟨a, _, _, hpa, hra⟩ := runEntries_append_loaded h₁
    obtain ⟨b, _, _, hpb, hrb⟩ := runEntries_append_loaded h₂
    have hab : a = b := runEntries_det hpa hpb
    subst hab
    obtain ⟨a₁, _, _, s₁, r₁⟩ := runEntries_cons_loaded hra
    obtain ⟨b₁, _, _, s₂, r₂⟩ := runEntries_cons_loaded hrb
    have : a₁ = b₁ := sc _ _ _ _ _ s₁ s₂
    subst this
    rw [runEntries_det r₁ r₂]; exact Agree.refl _ _

theorem sameCommand_agree {t : ToolTable} {S : List String} {cwd cmd : Bytes} {m₀ : Mem}
    (fs : ∀ e : Entry, ∀ a ∈ entryAssigns t e, FlowSafe S a) {l l' : List Entry} (sc : SameCommand t S cwd cmd m₀ l l') :
    ∀ {m₁ m₂ : Mem} {d₁ d₂ : List Bytes}, runEntries t cwd cmd l m₀ = .loaded m₁ d₁ →
      runEntries t cwd cmd l' m₀ = .loaded m₂ d₂ → Agree S m₁ m₂ := by
  induction sc with
  | refl l => intro m₁ m₂ d₁ d₂ h₁ h₂; rw [runEntries_det h₁ h₂]; exact Agree.refl _ _
  | step ed ld _ ih =>
    intro m₁ m₂ d₁ d₂ h₁ h₂
    obtain ⟨m', d', hl'⟩ := ld
    exact Agree.trans (edit_agree fs ed h₁ hl') (ih hl' h₂)

/-- members that agree on what the recipe of class `c` mentions give the same signature-relevant part -/
theorem relevant_of_agree (c : Cls) (name : Bytes) (m₁ m₂ : Mem) (ag : Agree (signed c) m₁ m₂) :
    relevantOf c (toDef name m₁) = relevantOf c (toDef name m₂) := by
  cases c
  · simp [relevantOf, relevantCommand, toDef]
  · have a1 := ag "inputs" (by decide); have a2 := ag "outputs" (by decide)
    have a3 := ag "allowMissingInputs" (by decide); have a4 := ag "allowModifiedOutputs" (by decide)
    have a5 := ag "alwaysOutOfDate" (by decide)
    simp [relevantOf, relevantExternal, toDef, a1, a2, a3, a4, a5]
  · have a1 := ag "inputs" (by decide); have a2 := ag "outputs" (by decide)
    have a3 := ag "allowMissingInputs" (by decide); have a4 := ag "allowModifiedOutputs" (by decide)
    have a5 := ag "alwaysOutOfDate" (by decide); have a6 := ag "signatureData" (by decide)
    have a7 := ag "args" (by decide); have a8 := ag "env" (by decide); have a9 := ag "depsPaths" (by decide)
    have a10 := ag "depsStyle" (by decide); have a11 := ag "inheritEnv" (by decide)
    have a12 := ag "canSafelyInterrupt" (by decide); have a13 := ag "workingDirectory" (by decide)
    have a14 := ag "controlEnabled" (by decide)
    simp [relevantOf, relevant, toDef, a1, a2, a3, a4, a5, a6, a7, a8, a9, a10, a11, a12, a13, a14]
  · simp [relevantOf, relevantNode, toDef]
  · have a1 := ag "inputs" (by decide); have a2 := ag "outputs" (by decide)
    have a3 := ag "allowMissingInputs" (by decide); have a4 := ag "allowModifiedOutputs" (by decide)
    have a5 := ag "alwaysOutOfDate" (by decide); have a6 := ag "args" (by decide); have a7 := ag "depsPath" (by decide)
    simp [relevantOf, relevantClang, relevantExternal, toDef, a1, a2, a3, a4, a5, a6, a7]
  · have a1 := ag "inputs" (by decide); have a2 := ag "outputs" (by decide)
    have a3 := ag "allowMissingInputs" (by decide); have a4 := ag "allowModifiedOutputs" (by decide)
    have a5 := ag "alwaysOutOfDate" (by decide); have b1 := ag "executable" (by decide)
    have b2 := ag "moduleName" (by decide); have b3 := ag "moduleAliases" (by decide)
    have b4 := ag "moduleOutputPath" (by decide); have b5 := ag "sourcesList" (by decide)
    have b6 := ag "objectsList" (by decide); have b7 := ag "importPaths" (by decide); have b8 := ag "tempsPath" (by decide)
    have b9 := ag "otherArgs" (by decide); have b10 := ag "isLibrary" (by decide)
    have b11 := ag "enableWholeModuleOptimization" (by decide); have b12 := ag "numThreads" (by decide)
    simp [relevantOf, relevantSwift, relevantExternal, toDef, a1, a2, a3, a4, a5, b1, b2, b3, b4, b5, b6, b7, b8, b9, b10, b11, b12]
  · have a1 := ag "inputs" (by decide); have a2 := ag "outputs" (by decide); have a3 := ag "contents" (by decide)
    simp [relevantOf, relevantSymlink, toDef, a1, a2, a3]
  · have a1 := ag "inputs" (by decide); have a2 := ag "outputs" (by decide)
    have a3 := ag "allowMissingInputs" (by decide); have a4 := ag "allowModifiedOutputs" (by decide)
    have a5 := ag "alwaysOutOfDate" (by decide); have b1 := ag "executable" (by decide)
    have b2 := ag "compilerStyle" (by decide); have b3 := ag "otherArgs" (by decide)
    simp [relevantOf, relevantSharedLib, relevantExternal, toDef, a1, a2, a3, a4, a5, b1, b2, b3]

/-- **C09_definition_equal_signature_equal** — two definitions of the same command (same tool, same name) whose ordered key
lists are related by a chain of edits that `configure` ignores —

* `swap`: two adjacent keys that touch different members change places (`independent_of_distinct_keys`: ANY two keys with
  different names, so the order of distinct attributes never matters; two `inputs:` keys, or a scalar and a list form of the
  same attribute, do not commute: the later one wins or appends);
* `drop` / `add`: a key all of whose assigned members are outside the signature (`deliberatelyUnsigned`: `description`,
  `repair-via-ownership-analysis`, symlink `link-output-path`, stale-file-removal `expectedOutputs` / `roots`) comes or goes;
* `replace`: a value is replaced by one with the same converted value (`SameConversion`; e.g. `args: "s"` and
  `args: ["/bin/sh", "-c", "s"]`, `sources: "a  b"` and `sources: [a, b]`) —

each intermediate definition loading, have the same signature-relevant part and the same pre-hash signature term: the
command does not re-run. -/
theorem C09_definition_equal_signature_equal (t : ToolTable) (ht : t ∈ tables) (cname : String) (c : Cls)
    (hc : sigTools.lookup t.tool = some (cname, c)) (hf : findTable tables t.tool = some t)
    (cwd name : Bytes) (es₁ es₂ : List Entry)
    (sc : SameCommand t (signed c) cwd name (initMem t.fields) es₁ es₂)
    (m₁ m₂ : Mem) (g₁ g₂ : List Bytes)
    (h₁ : run tables cwd { tool := t.tool, name := name, entries := es₁ } = .loaded m₁ g₁)
    (h₂ : run tables cwd { tool := t.tool, name := name, entries := es₂ } = .loaded m₂ g₂)
    (w₁ : Loadable c (toDef name m₁)) (w₂ : Loadable c (toDef name m₂)) :
    relevantOf c (toDef name m₁) = relevantOf c (toDef name m₂) ∧
    sigOfMembers c name m₁ = sigOfMembers c name m₂ := by
  unfold run at h₁ h₂
  simp only [hf] at h₁ h₂
  have ag := sameCommand_agree (fun e => flowSafe_entry t ht cname c hc e) sc h₁ h₂
  have hr := relevant_of_agree c name m₁ m₂ ag
  exact ⟨hr, (C09_sig_iff_all_classes c _ _ w₁ w₂).2 hr⟩

/-- what `configure` returns: the members of a load without any diagnostic, as the recipe model's `CommandDef` -/
theorem configure_ok (ts : List ToolTable) (cwd : Bytes) (d : Definition) (M : Members) (h : configure ts cwd d = .ok M) :
    run ts cwd d = .loaded M.all [] ∧ M.sig = toDef d.name M.all := by
  unfold configure at h
  split at h
  · rename_i m hr
    injection h with h
    rw [← h]; exact ⟨hr, rfl⟩
  · cases h
  · cases h
  · cases h

/-! ### the conversions that identify different spellings of the same command -/

def kArgs : Bytes := [97, 114, 103, 115]                                     -- "args"
def kDeps : Bytes := [100, 101, 112, 115]                                    -- "deps"
def kSources : Bytes := [115, 111, 117, 114, 99, 101, 115]                   -- "sources"
def kOtherArgs : Bytes := [111, 116, 104, 101, 114, 45, 97, 114, 103, 115]   -- "other-args"
def kWorkingDirectory : Bytes := [119, 111, 114, 107, 105, 110, 103, 45, 100, 105, 114, 101, 99, 116, 111, 114, 121]
def binSh : Bytes := [47, 98, 105, 110, 47, 115, 104]                        -- "/bin/sh"
def dashC : Bytes := [45, 99]                                                -- "-c"

open Generated.BSAttrs in
/-- **a scalar `args` IS the shell command**: `args: "s"` and `args: ["/bin/sh", "-c", "s"]` leave the same members
(shell and clang tools) — "If a single string is provided, it will be executed using ``/bin/sh -c``." -/
theorem C09_scalar_args_same_command (cwd cmd v : Bytes) :
    SameConversion tbl_shell cwd cmd (.attr kArgs (.scalar v)) (.attr kArgs (.list [binSh, dashC, v])) ∧
    SameConversion tbl_clang cwd cmd (.attr kArgs (.scalar v)) (.attr kArgs (.list [binSh, dashC, v])) := by
  constructor
  · intro m m₁ m₂ d₁ d₂ h₁ h₂
    have e₁ : stepEntry tbl_shell cwd cmd (.attr kArgs (.scalar v)) m = .next (m.set "args" (.strs [binSh, dashC, v])) [] := rfl
    have e₂ : stepEntry tbl_shell cwd cmd (.attr kArgs (.list [binSh, dashC, v])) m = .next (m.set "args" (.strs [binSh, dashC, v])) [] := rfl
    rw [e₁] at h₁; rw [e₂] at h₂
    injection h₁ with h₁ _; injection h₂ with h₂ _
    rw [← h₁, ← h₂]
  · intro m m₁ m₂ d₁ d₂ h₁ h₂
    have e₁ : stepEntry tbl_clang cwd cmd (.attr kArgs (.scalar v)) m = .next (m.set "args" (.strs [binSh, dashC, v])) [] := rfl
    have e₂ : stepEntry tbl_clang cwd cmd (.attr kArgs (.list [binSh, dashC, v])) m = .next (m.set "args" (.strs [binSh, dashC, v])) [] := rfl
    rw [e₁] at h₁; rw [e₂] at h₂
    injection h₁ with h₁ _; injection h₂ with h₂ _
    rw [← h₁, ← h₂]

open Generated.BSAttrs in
/-- **a space-separated scalar is the list of its non-empty pieces** (swift-compiler `sources`, `other-args`, …): two scalars
with equal splits, and the YAML list of the pieces, are the same command; a scalar `deps` of the shell tool is the
one-element list. -/
theorem C09_split_scalars_same_command (cwd cmd s s' : Bytes) (h : splitDropEmpty 32 s = splitDropEmpty 32 s') (p : Bytes) :
    SameConversion tbl_swift_compiler cwd cmd (.attr kSources (.scalar s)) (.attr kSources (.scalar s')) ∧
    SameConversion tbl_swift_compiler cwd cmd (.attr kSources (.scalar s)) (.attr kSources (.list (splitDropEmpty 32 s))) ∧
    SameConversion tbl_shared_library cwd cmd (.attr kOtherArgs (.scalar s)) (.attr kOtherArgs (.list (splitDropEmpty 32 s))) ∧
    SameConversion tbl_shell cwd cmd (.attr kDeps (.scalar p)) (.attr kDeps (.list [p])) := by
  refine ⟨?_, ?_, ?_, ?_⟩
  · intro m m₁ m₂ d₁ d₂ h₁ h₂
    have e₁ : stepEntry tbl_swift_compiler cwd cmd (.attr kSources (.scalar s)) m = .next (m.set "sourcesList" (.strs (splitDropEmpty 32 s))) [] := rfl
    have e₂ : stepEntry tbl_swift_compiler cwd cmd (.attr kSources (.scalar s')) m = .next (m.set "sourcesList" (.strs (splitDropEmpty 32 s'))) [] := rfl
    rw [e₁] at h₁; rw [e₂, ← h] at h₂
    injection h₁ with h₁ _; injection h₂ with h₂ _
    rw [← h₁, ← h₂]
  · intro m m₁ m₂ d₁ d₂ h₁ h₂
    have e₁ : stepEntry tbl_swift_compiler cwd cmd (.attr kSources (.scalar s)) m = .next (m.set "sourcesList" (.strs (splitDropEmpty 32 s))) [] := rfl
    have e₂ : stepEntry tbl_swift_compiler cwd cmd (.attr kSources (.list (splitDropEmpty 32 s))) m = .next (m.set "sourcesList" (.strs (splitDropEmpty 32 s))) [] := rfl
    rw [e₁] at h₁; rw [e₂] at h₂
    injection h₁ with h₁ _; injection h₂ with h₂ _
    rw [← h₁, ← h₂]
  · intro m m₁ m₂ d₁ d₂ h₁ h₂
    have e₁ : stepEntry tbl_shared_library cwd cmd (.attr kOtherArgs (.scalar s)) m = .next (m.set "otherArgs" (.strs (splitDropEmpty 32 s))) [] := rfl
    have e₂ : stepEntry tbl_shared_library cwd cmd (.attr kOtherArgs (.list (splitDropEmpty 32 s))) m = .next (m.set "otherArgs" (.strs (splitDropEmpty 32 s))) [] := rfl
    rw [e₁] at h₁; rw [e₂] at h₂
    injection h₁ with h₁ _; injection h₂ with h₂ _
    rw [← h₁, ← h₂]
  · intro m m₁ m₂ d₁ d₂ h₁ h₂
    have e₁ : stepEntry tbl_shell cwd cmd (.attr kDeps (.scalar p)) m = .next (m.set "depsPaths" (.strs [p])) [] := rfl
    have e₂ : stepEntry tbl_shell cwd cmd (.attr kDeps (.list [p])) m = .next (m.set "depsPaths" (.strs [p])) [] := rfl
    rw [e₁] at h₁; rw [e₂] at h₂
    injection h₁ with h₁ _; injection h₂ with h₂ _
    rw [← h₁, ← h₂]

open Generated.BSAttrs in
/-- **a relative working directory is the absolute one it resolves to**: two values with the same `makeAbsolute` are the
same command (in a process with that current directory). -/
theorem C09_working_directory_same_command (cwd cmd p p' : Bytes) (h : makeAbsolute cwd p = makeAbsolute cwd p') :
    SameConversion tbl_shell cwd cmd (.attr kWorkingDirectory (.scalar p)) (.attr kWorkingDirectory (.scalar p')) := by
  intro m m₁ m₂ d₁ d₂ h₁ h₂
  have e₁ : stepEntry tbl_shell cwd cmd (.attr kWorkingDirectory (.scalar p)) m = .next (m.set "workingDirectory" (.str (makeAbsolute cwd p))) [] := rfl
  have e₂ : stepEntry tbl_shell cwd cmd (.attr kWorkingDirectory (.scalar p')) m = .next (m.set "workingDirectory" (.str (makeAbsolute cwd p'))) [] := rfl
  rw [e₁] at h₁; rw [e₂, ← h] at h₂
  injection h₁ with h₁ _; injection h₂ with h₂ _
  rw [← h₁, ← h₂]

/-- **boolean attributes**: the only values that load are the two literals of the check, `t` giving true and `f` false —
there are no two spellings of the same boolean, and nothing else is silently taken as false. -/
theorem C09_boolean_values_that_load (c : Ctx) (t f : Lit) (err : Msg) (old src : MVal) (v : Bytes) (x : MVal) (ds : List Bytes)
    (h : applyConv c (.boolStrict t f err) old src (.scalar v) = .set x ds) :
    (v = t.b ∧ x = .bool true) ∨ (v = f.b ∧ x = .bool false) := by
  simp only [applyConv] at h
  split at h
  · rename_i ht; injection h with h _; exact Or.inl ⟨by simpa using ht, h.symm⟩
  · split at h
    · rename_i hf; injection h with h _; exact Or.inr ⟨by simpa using hf, h.symm⟩
    · cases h

/-! ## Non-vacuity: concrete definitions through the generated tables -/
section Examples
open Generated.BSAttrs

private def cwd0 : Bytes := [47, 119]     -- "/w"
private def kInheritEnv : Bytes := [105, 110, 104, 101, 114, 105, 116, 45, 101, 110, 118]
private def kRepair : Bytes := [114, 101, 112, 97, 105, 114, 45, 118, 105, 97, 45, 111, 119, 110, 101, 114, 115, 104, 105, 112, 45, 97, 110, 97, 108, 121, 115, 105, 115]
private def vFalse : Bytes := [102, 97, 108, 115, 101]
private def vTrue : Bytes := [116, 114, 117, 101]

/-- `C1: {tool: shell, inputs: [a], outputs: [o], args: "echo", inherit-env: false}` -/
private def dA : Definition :=
  { tool := "shell", name := [67, 49],
    entries := [.inputs [[97]], .outputs [[111]], .attr kArgs (.scalar [101, 99, 104, 111]), .attr kInheritEnv (.scalar vFalse)] }
/-- the same with `args: "echo2"` -/
private def dB : Definition :=
  { dA with entries := [.inputs [[97]], .outputs [[111]], .attr kArgs (.scalar [101, 99, 104, 111, 50]), .attr kInheritEnv (.scalar vFalse)] }
/-- `dA` with the last two keys in the other order, a description and `repair-via-ownership-analysis` -/
private def dC : Definition :=
  { dA with entries := [.inputs [[97]], .outputs [[111]], .attr kInheritEnv (.scalar vFalse), .attr kArgs (.scalar [101, 99, 104, 111])] }
private def dD : Definition :=
  { dA with entries := [.description [100], .inputs [[97]], .outputs [[111]], .attr kArgs (.scalar [101, 99, 104, 111]),
                        .attr kInheritEnv (.scalar vFalse)] }

-- the members `configure` computes for dA
example : (match configure tables cwd0 dA with | .ok M => some (M.sig.args, M.sig.inheritEnv, M.sig.inputs, M.sig.outputs) | .error _ => none) =
    some ([binSh, dashC, [101, 99, 104, 111]], false, [[97]], [[111]]) := by decide
-- an invalid boolean abandons the load with the message of the source
example : (match configure tables cwd0 { dA with entries := [.attr kInheritEnv (.scalar [110, 111])] } with
    | .error (.aborted ds) => ds.length | _ => 0) = 1 := by decide
-- a changed `args` changes the signature term (`C09_definition_change_changes_signature` applied)
example : ∃ m₁ g₁ m₂ g₂, run tables cwd0 dA = .loaded m₁ g₁ ∧ run tables cwd0 dB = .loaded m₂ g₂ ∧
    sigOfMembers .shellCommand dA.name m₁ ≠ sigOfMembers .shellCommand dB.name m₂ :=
  ⟨_, _, _, _, rfl, rfl,
   C09_definition_change_changes_signature "shell" "ShellCommand" .shellCommand (by decide) cwd0 dA dB rfl rfl _ _ _ _ rfl rfl
     (by decide) (by decide) (by decide)⟩
-- the order of distinct keys does not (`C09_definition_equal_signature_equal` with one `swap`)
example : ∃ m₁ g₁ m₂ g₂, run tables cwd0 dA = .loaded m₁ g₁ ∧ run tables cwd0 dC = .loaded m₂ g₂ ∧
    sigOfMembers .shellCommand dA.name m₁ = sigOfMembers .shellCommand dC.name m₂ :=
  ⟨_, _, _, _, rfl, rfl,
   (C09_definition_equal_signature_equal tbl_shell (by decide) "ShellCommand" .shellCommand (by decide) (by decide) cwd0 dA.name
      dA.entries dC.entries
      (.step (.swap [.inputs [[97]], .outputs [[111]]] [] _ _
                (independent_of_distinct_keys tbl_shell (by decide) _ _ (by decide))) ⟨_, _, rfl⟩ (.refl _))
      _ _ _ _ rfl rfl (by decide) (by decide)).2⟩
-- nor does a description (`add` of a key that assigns only an unsigned member)
example : ∃ m₁ g₁ m₂ g₂, run tables cwd0 dA = .loaded m₁ g₁ ∧ run tables cwd0 dD = .loaded m₂ g₂ ∧
    sigOfMembers .shellCommand dA.name m₁ = sigOfMembers .shellCommand dD.name m₂ :=
  ⟨_, _, _, _, rfl, rfl,
   (C09_definition_equal_signature_equal tbl_shell (by decide) "ShellCommand" .shellCommand (by decide) (by decide) cwd0 dA.name
      dA.entries dD.entries
      (.step (.add [] dA.entries (.description [100]) (by decide)) ⟨_, _, rfl⟩ (.refl _))
      _ _ _ _ rfl rfl (by decide) (by decide)).2⟩
-- `splitDropEmpty` is not injective: "a  b " and "a b" are the same two sources
example : splitDropEmpty 32 [97, 32, 32, 98, 32] = splitDropEmpty 32 [97, 32, 98] := by decide
-- `make_absolute`: "" is the current directory with a trailing slash; a relative path is appended; `//net` keeps its root name
example : makeAbsolute cwd0 [] = [47, 119, 47] ∧ makeAbsolute cwd0 [114] = [47, 119, 47, 114] ∧
          makeAbsolute cwd0 [47, 120] = [47, 120] ∧ makeAbsolute cwd0 [47, 47, 110] = [47, 47, 110, 47, 119, 47] := by decide
-- `getAsInteger(10, int)`: "-0" is 0, "+4" and "4x" are not integers, 2^31 does not fit
example : parseInt10 [45, 48] = some 0 ∧ parseInt10 [43, 52] = none ∧ parseInt10 [52, 120] = none ∧
          parseInt10 [50, 49, 52, 55, 52, 56, 51, 54, 52, 56] = none ∧ parseInt10 [50, 49, 52, 55, 52, 56, 51, 54, 52, 55] = some 2147483647 := by
  decide
-- every tool has a table and a recipe class
example : tables.map (fun t => (sigTools.lookup t.tool).isSome) = List.replicate 9 true := by decide

end Examples

end LLBuild.BSAttrs
