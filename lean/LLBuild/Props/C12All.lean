/- C12: signature model (Props/C12.lean) + the directory tasks as an engine client, rerun-iff over accepted
engine traces (Props/C12Engine.lean). -/
import LLBuild.Props.C12
import LLBuild.Props.C12Engine
