/- C12: signature model (Props/C12.lean) + the directory tasks as an engine client, rerun-iff over accepted
engine traces (Props/C12Engine.lean) + the listing's validity made explicit: re-listing check versus trusting the
directory's stat record (Props/C12Stat.lean). -/
import LLBuild.Props.C12
import LLBuild.Props.C12Engine
import LLBuild.Props.C12Stat
