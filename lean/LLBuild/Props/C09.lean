/-
C09 — Null builds run nothing; a command re-runs exactly when its definition changed.
SIGNATURE HALF:

"Definitions differing in any of those parts [a signature-relevant part of the definition - name,
arguments, environment, declared inputs or outputs, dependency-file settings, flags, or explicit
signature] have different signatures, and an unchanged definition has the same signature in every
process."

Property theorems only.  The recipes are GENERATED from the clang AST of the `getSignature` bodies
(LLBuild/Generated/SignatureRecipe.lean, extract/x_signature.py); the interpreter `sigTerm` and the
bit-exact evaluator are in LLBuild/Model/Signature.lean.

Scope: injectivity is a statement about the PRE-HASH TERM (`HashTerm`): what is fed to
`llvm::hash_combine`.  Collisions of the final 64-bit mixing function are out of scope (trusted-base
clause on hashing); the correspondence check still compares the 64-bit values, so a collision met there is
reported as a mismatch.  Integers in terms are unbounded (`Nat`): list lengths ≥ 2^64 are excluded.

The explicit `signature` attribute REPLACES the built-in strategy: args / env / deps / deps-style / inherit-env /
can-safely-interrupt / working-directory / control-enabled (docs/buildsystem.rst, "Shell Tool"), which is what
`relevant` says.
-/
import LLBuild.Lemmas.Signature

namespace LLBuild.Signature
open LLBuild.Generated.Signature

/-- the attributes the built-in strategy hashes when no explicit signature is given -/
structure ShellBody where
  args : List Bytes
  env : List (Bytes × Bytes)
  depsPaths : List Bytes
  depsStyle : Nat
  inheritEnv : Bool
  canSafelyInterrupt : Bool
  /-- as stored (absolute) -/
  workingDirectory : Bytes
  controlEnabled : Bool
  deriving DecidableEq, Repr

/-- The signature-relevant part of a shell command definition. -/
structure Relevant where
  name : Bytes
  inputs : List Bytes
  outputs : List Bytes
  allowMissingInputs : Bool
  allowModifiedOutputs : Bool
  alwaysOutOfDate : Bool
  /-- explicit signature if one is given, else arguments, environment, dependency-file settings and flags -/
  body : Sum Bytes ShellBody
  deriving DecidableEq, Repr

def relevant (d : CommandDef) : Relevant :=
  { name := d.name, inputs := d.inputs, outputs := d.outputs,
    allowMissingInputs := d.allowMissingInputs, allowModifiedOutputs := d.allowModifiedOutputs,
    alwaysOutOfDate := d.alwaysOutOfDate,
    body := if d.signatureData.isEmpty then
        .inr { args := d.args, env := d.env, depsPaths := d.depsPaths, depsStyle := d.depsStyle,
               inheritEnv := d.inheritEnv, canSafelyInterrupt := d.canSafelyInterrupt,
               workingDirectory := d.workingDirectory, controlEnabled := d.controlEnabled }
      else .inl d.signatureData }

/-- The signature-relevant part for tools that use `ExternalCommand::getSignature` unchanged (phony, mkdir, …). -/
def relevantExternal (d : CommandDef) : Bytes × List Bytes × List Bytes × Bool × Bool × Bool :=
  (d.name, d.inputs, d.outputs, d.allowMissingInputs, d.allowModifiedOutputs, d.alwaysOutOfDate)

/-- delegation depth available to `Base::getSignature()` calls (2 suffices; any larger value gives the same term) -/
def fuel : Nat := 4

/-- `ShellCommand::getSignature()` as a term, through the recipes `rs` -/
def shellSig (rs : Cls → Option Recipe) (d : CommandDef) : Option HashTerm := sigTerm rs d fuel .shellCommand
def externalSig (rs : Cls → Option Recipe) (d : CommandDef) : Option HashTerm := sigTerm rs d fuel .externalCommand

/-- FULL STATEMENT of the clause "definitions differing in any signature-relevant part have different
signatures", for a given set of recipes. -/
def C09_sig_injective_full (rs : Cls → Option Recipe) : Prop :=
  ∀ d₁ d₂ : CommandDef, shellSig rs d₁ = shellSig rs d₂ → relevant d₁ = relevant d₂

def C09_sig_injective_external_full (rs : Cls → Option Recipe) : Prop :=
  ∀ d₁ d₂ : CommandDef, externalSig rs d₁ = externalSig rs d₂ → relevantExternal d₁ = relevantExternal d₂

/-! ## The recipes before the repairs (commit 1f9749b) are NOT injective: three witnesses -/

private def base : CommandDef :=
  { name := [67], inputs := [[97]], outputs := [[99]], allowMissingInputs := false,
    allowModifiedOutputs := false, alwaysOutOfDate := false, args := [[120]], env := [], depsPaths := [],
    depsStyle := 0, inheritEnv := true, canSafelyInterrupt := true, signatureData := [] }

/-- (i) inputs [a,b] outputs [c]  vs  inputs [a] outputs [b,c] -/
def w1a : CommandDef := { base with inputs := [[97],[98]], outputs := [[99]] }
def w1b : CommandDef := { base with inputs := [[97]], outputs := [[98],[99]] }
/-- (ii) args [x,k,v] env []  vs  args [x] env [(k,v)] -/
def w2a : CommandDef := { base with args := [[120],[107],[118]], env := [] }
def w2b : CommandDef := { base with args := [[120]], env := [([107],[118])] }
/-- (iii) deps-style makefile vs dependency-info -/
def w3a : CommandDef := { base with depsPaths := [[100]], depsStyle := 1 }
def w3b : CommandDef := { base with depsPaths := [[100]], depsStyle := 2 }

/-- F10: no list delimiters — moving a node from the end of `inputs` to the front of `outputs` keeps the term. -/
theorem C09_prefix_collision_inputs_outputs :
    shellSig Prefix.recipeOf w1a = shellSig Prefix.recipeOf w1b ∧ relevant w1a ≠ relevant w1b := by decide

/-- F10: trailing arguments and an environment pair are indistinguishable. -/
theorem C09_prefix_collision_args_env :
    shellSig Prefix.recipeOf w2a = shellSig Prefix.recipeOf w2b ∧ relevant w2a ≠ relevant w2b := by decide

/-- F7: `combine(int(depsStyle))` resolves to `combine(bool)`: all used styles collapse. -/
theorem C09_prefix_collision_deps_style :
    shellSig Prefix.recipeOf w3a = shellSig Prefix.recipeOf w3b ∧ relevant w3a ≠ relevant w3b := by decide

/-- The full statement is FALSE of the pre-repair recipes. -/
theorem C09_prefix_not_injective : ¬ C09_sig_injective_full Prefix.recipeOf := by
  intro h
  exact C09_prefix_collision_inputs_outputs.2 (h w1a w1b C09_prefix_collision_inputs_outputs.1)

theorem C09_prefix_external_not_injective : ¬ C09_sig_injective_external_full Prefix.recipeOf := by
  intro h
  have := h w1a w1b (by decide)
  revert this
  decide

/-! ## The generated recipes (repaired tree) -/

/-- Every definition has a signature term (the interpreter never fails on the generated recipes). -/
theorem C09_sig_defined (d : CommandDef) :
    shellSig recipeOf d = some (chain (.str d.name) (extLeaves d ++ shellLeaves d)) ∧
    externalSig recipeOf d = some (chain (.str d.name) (extLeaves d)) :=
  ⟨shell_closed d 2, external_closed d 3⟩

/-- **C09_sig_injective** — "Definitions differing in any of those parts have different signatures":
equal signature terms force equal name, inputs, outputs, flags and (explicit signature | args, env,
deps paths, deps style, inherit-env, can-safely-interrupt, working-directory, control-enabled).  Proved over the GENERATED recipe. -/
theorem C09_sig_injective : C09_sig_injective_full recipeOf := by
  intro d₁ d₂ h
  rw [(C09_sig_defined d₁).1, (C09_sig_defined d₂).1, Option.some.injEq] at h
  obtain ⟨hname, hl⟩ := chain_str_inj h
  simp only [extLeaves, List.cons_append, List.append_assoc] at hl
  obtain ⟨hin, hl⟩ := prefixed_inj hl
  obtain ⟨hout, hl⟩ := prefixed_inj hl
  simp only [List.nil_append, List.cons.injEq, HashTerm.bool.injEq] at hl
  obtain ⟨h1, h2, h3, hl⟩ := hl
  have hbody : (relevant d₁).body = (relevant d₂).body := by
    simp only [relevant, shellLeaves] at hl ⊢
    cases e₁ : d₁.signatureData.isEmpty <;> cases e₂ : d₂.signatureData.isEmpty <;>
      simp only [e₁, e₂, if_true, if_false, Bool.false_eq_true] at hl ⊢
    · simpa using hl
    · simp at hl
    · simp at hl
    · obtain ⟨ha, hl⟩ := prefixed_inj hl
      obtain ⟨he, hl⟩ := prefixed_pairs_inj hl
      obtain ⟨hd, hl⟩ := prefixed_inj hl
      simp only [List.cons.injEq, HashTerm.int.injEq, HashTerm.str.injEq, and_true] at hl
      obtain ⟨hs, hi, hc, hw, hce⟩ := hl
      simp [ha, he, hd, hs, boolInt_inj hi, boolInt_inj hc, hw, boolInt_inj hce]
  cases d₁; cases d₂
  simp only [relevant] at hbody ⊢
  simp_all

/-- The same for tools whose signature is `ExternalCommand::getSignature` itself (phony, mkdir, …). -/
theorem C09_sig_injective_external : C09_sig_injective_external_full recipeOf := by
  intro d₁ d₂ h
  rw [(C09_sig_defined d₁).2, (C09_sig_defined d₂).2, Option.some.injEq] at h
  obtain ⟨hname, hl⟩ := chain_str_inj h
  simp only [extLeaves] at hl
  obtain ⟨hin, hl⟩ := prefixed_inj hl
  obtain ⟨hout, hl⟩ := prefixed_inj hl
  simp only [List.cons.injEq, HashTerm.bool.injEq, and_true] at hl
  obtain ⟨h1, h2, h3⟩ := hl
  simp [relevantExternal, hname, hin, hout, h1, h2, h3]

/-- **C09_sig_pure** — "an unchanged definition has the same signature in every process": the term, and
therefore the 64-bit value `evalSig` computes from it with the fixed seed, is a function of `relevant d`
alone (no address, time, process id or environment enters). -/
theorem C09_sig_pure (d₁ d₂ : CommandDef) (h : relevant d₁ = relevant d₂) :
    shellSig recipeOf d₁ = shellSig recipeOf d₂ ∧
    (shellSig recipeOf d₁).map (evalSig shellCommand) = (shellSig recipeOf d₂).map (evalSig shellCommand) := by
  have key : shellSig recipeOf d₁ = shellSig recipeOf d₂ := by
    rw [(C09_sig_defined d₁).1, (C09_sig_defined d₂).1]
    simp only [relevant, Relevant.mk.injEq] at h
    obtain ⟨h1, h2, h3, h4, h5, h6, hb⟩ := h
    have he : extLeaves d₁ = extLeaves d₂ := by simp only [extLeaves, h2, h3, h4, h5, h6]
    have hs : shellLeaves d₁ = shellLeaves d₂ := by
      simp only [shellLeaves]
      cases e₁ : d₁.signatureData.isEmpty <;> cases e₂ : d₂.signatureData.isEmpty <;>
        simp only [e₁, e₂, if_true, if_false, Bool.false_eq_true] at hb ⊢
      · simp at hb; simp [hb]
      · simp at hb
      · simp at hb
      · simp at hb; obtain ⟨a, b, c, dd, e, f, g, h⟩ := hb; simp [a, b, c, dd, e, f, g, h]
    rw [h1, he, hs]
  exact ⟨key, by rw [key]⟩

/-- The seed the model hashes with is the constant extracted from include/llvm/ADT/Hashing.h. -/
theorem C09_seed_fixed : LLBuild.Generated.Signature.seed = Hash.seed := by decide

/-! ## Non-vacuity: the three former collisions are separated by the generated recipes -/

example : shellSig recipeOf w1a ≠ shellSig recipeOf w1b := by decide
example : shellSig recipeOf w2a ≠ shellSig recipeOf w2b := by decide
example : shellSig recipeOf w3a ≠ shellSig recipeOf w3b := by decide
example : relevant w1a ≠ relevant w1b ∧ relevant w2a ≠ relevant w2b ∧ relevant w3a ≠ relevant w3b := by decide
-- explicit signature: args no longer matter (pure), the signature string does (injective)
example : relevant { base with signatureData := [115], args := [[120]] } = relevant { base with signatureData := [115], args := [[121]] } := by decide
example : shellSig recipeOf { base with signatureData := [115] } ≠ shellSig recipeOf { base with signatureData := [116] } := by decide
example : (shellSig recipeOf base).isSome = true := by decide

end LLBuild.Signature
