/-
C20 — The C API is a faithful binding of the engine  (forwarding-table half)

"... Every parameter of every call has its documented effect - force-change on completion, must-follow,
discovered dependency, database attachment with a schema version."   and   "for keys and values containing
arbitrary bytes including NUL".

Property theorems only.  `calls`, `unusedParams`, `dataParams`, `outBlobsSizeData` are GENERATED from
products/libllbuild/Core-C-API.cpp (clang-14 JSON AST, extract/x_capi.py) on every run; `documented` is written by
hand from the comments of core.h (LLBuild/Model/CApi.lean).  The event-by-event comparison of a C client with a C++
client is a separate check; here the forwarding layer itself is decided.
-/
import LLBuild.Model.CApi
import LLBuild.Model.CApiCallbacks

namespace LLBuild.CApi
open LLBuild.Generated.CApiForward

theorem CFn.mem_all (f : CFn) : f ∈ CFn.all := by cases f <;> decide

private theorem forwarding_table :
    ∀ f ∈ CFn.all, calls f = documented f ∧ unusedParams f = [] := by decide

/-- **C20_forwarding_faithful.**  Every exported `llb_buildengine_*` function makes exactly the documented engine
calls, each C parameter landing in the documented argument slot, and no parameter is ignored.
(False before fix F09: `llb_buildengine_task_is_complete` called `complete(value)` and never referenced
`force_change`.) -/
theorem C20_forwarding_faithful (f : CFn) : calls f = documented f ∧ unusedParams f = [] :=
  forwarding_table f (CFn.mem_all f)

example : calls .task_is_complete = [⟨.complete, .ofParam 0, [.bytesCopyOf 1, .param 2]⟩] := by decide
example : (calls .attach_db).map (·.callee) = [.createSQLiteBuildDB, .attachDB] := by decide

private theorem blobs_table :
    (∀ f ∈ CFn.all, ∀ c ∈ calls f, ∀ a ∈ c.args, (Arg.blobSource a).isSome = true → Arg.lengthPreserving a = true) ∧
    (∀ f ∈ CFn.all, ∀ i ∈ dataParams f, ∃ c ∈ calls f, ∃ a ∈ c.args,
        Arg.blobSource a = some i ∧ Arg.lengthPreserving a = true) ∧
    (∀ b ∈ outBlobsSizeData, b = true) := by decide

private theorem cross_of_preserving (a : Arg) (i : Nat) (env : Nat → Bytes)
    (h : Arg.lengthPreserving a = true) (hs : Arg.blobSource a = some i) : Arg.cross env a = some (env i) := by
  cases a <;> simp_all [Arg.lengthPreserving, Arg.blobSource, Arg.cross]

/-- **C20_bytes_preserved.**  Keys, values and the database path cross the API as (pointer, length) pairs and are
copied with their length: for every function, every byte-blob parameter reaches an engine argument, and every
blob-shaped engine argument carries exactly the `length` bytes at `data` of its parameter — whatever those bytes are
(NUL included; no `strlen`, no length taken from another parameter).  In the other direction every `llb_data_t` the
library hands to the client is `{X.size(), X.data()}` of a single object. -/
theorem C20_bytes_preserved (f : CFn) (env : Nat → Bytes) :
    (∀ c ∈ calls f, ∀ a ∈ c.args, ∀ i, Arg.blobSource a = some i → Arg.cross env a = some (env i)) ∧
    (∀ i ∈ dataParams f, ∃ c ∈ calls f, ∃ a ∈ c.args, Arg.cross env a = some (env i)) ∧
    (∀ b ∈ outBlobsSizeData, b = true) := by
  obtain ⟨h1, h2, h3⟩ := blobs_table
  refine ⟨?_, ?_, h3⟩
  · intro c hc a ha i hs
    exact cross_of_preserving a i env (h1 f (CFn.mem_all f) c hc a ha (by simp [hs])) hs
  · intro i hi
    obtain ⟨c, hc, a, ha, hs, hp⟩ := h2 f (CFn.mem_all f) i hi
    exact ⟨c, hc, a, ha, cross_of_preserving a i env hp hs⟩

/-- what a `strlen`-based binding would do to a key containing NUL (why the shape matters) -/
example : Arg.cross (fun _ => [97, 0, 98]) (.cstrOf 1) = some [97] := by decide
example : Arg.cross (fun _ => [97, 0, 98]) (.keyOf 1) = some [97, 0, 98] := by decide

/-! ## Callback direction (engine → client)

"... a client driving the engine through `llb_buildengine_*` / the task and rule callbacks of core.h observes the same
task callbacks, executions, results ... as one using the C++ interface; every byte blob crosses unchanged."

The C++ virtuals `Rule::createTask / isResultValid / updateStatus`, `BuildEngineDelegate::lookupRule / cycleDetected /
error`, `Task::start / provideValue / inputsAvailable` and the two destructors are what a C++ client observes; the
binding's overrides turn each into a call of a client function pointer.  `sitesOf`, `unusedMethodParams`, `statusMap`,
`cycleArray`, `outBlobsIn` are GENERATED from the clang AST of Core-C-API.cpp on every run (extract/x_capi.py);
`documentedCallback`, `documentedOptional`, `documentedStatus`, `documentedCycleArray` are written by hand from core.h
(LLBuild/Model/CApiCallbacks.lean).  Every `decide` below evaluates the WHOLE generated table. -/
section Callbacks
open LLBuild.Generated.CApiCallbacks

theorem Method.mem_all (m : Method) : m ∈ Method.all := by cases m <;> decide
theorem Callback.mem_all (cb : Callback) : cb ∈ Callback.all := by cases cb <;> decide
theorem EngineStatus.mem_all (e : EngineStatus) : e ∈ EngineStatus.all := by cases e <;> decide
theorem CStatus.mem_all (c : CStatus) : c ∈ CStatus.all := by cases c <;> decide

/-- **C20_callbacks_faithful.**  For every method of the binding's classes and every client call it makes (`∀ site`):
the generated call equals the documented one — the right callback, the struct's own context first, the remaining
arguments in the documented order, the client's return value handed to the engine unchanged (`is_result_valid`: for
every answer `b` the engine receives `b`; `create_task`: the returned handle is the task); no argument is dropped (the
argument count is the callback's arity, no argument has an unknown shape, the only unused C++ parameters are the
documented ones); methods documented as silent make no call; and every callback field of core.h is called somewhere. -/
theorem C20_callbacks_faithful :
    (∀ m : Method, (sitesOf m).map Site.toDoc = documentedCallback m) ∧
    (∀ m : Method, ∀ s ∈ sitesOf m,
        s.args.head? = some .ownContext ∧ s.args.length = s.callback.arity ∧ CbArg.other ∉ s.args ∧
        s.ret = documentedRet s.callback ∧ unusedMethodParams m = documentedUnused m) ∧
    (∀ cb : Callback, ∃ m, ∃ s ∈ sitesOf m, s.callback = cb) ∧
    (∀ m : Method, ∀ s ∈ sitesOf m, s.callback = .rule_is_result_valid → ∀ b : Bool, Ret.verdict s.ret b = some b) := by
  have table :
      (∀ m ∈ Method.all, (sitesOf m).map Site.toDoc = documentedCallback m) ∧
      (∀ m ∈ Method.all, ∀ s ∈ sitesOf m,
          s.args.head? = some .ownContext ∧ s.args.length = s.callback.arity ∧ CbArg.other ∉ s.args ∧
          s.ret = documentedRet s.callback ∧ unusedMethodParams m = documentedUnused m) ∧
      (∀ cb ∈ Callback.all, ∃ m ∈ Method.all, ∃ s ∈ sitesOf m, s.callback = cb) ∧
      (∀ m ∈ Method.all, ∀ s ∈ sitesOf m, s.callback = .rule_is_result_valid → s.ret = .passThrough) := by decide
  obtain ⟨h1, h2, h3, h4⟩ := table
  refine ⟨fun m => h1 m (Method.mem_all m), fun m => h2 m (Method.mem_all m), fun cb => ?_, fun m s hs hc b => ?_⟩
  · obtain ⟨m, _, s, hs, hc⟩ := h3 cb (Callback.mem_all cb)
    exact ⟨m, s, hs, hc⟩
  · rw [h4 m (Method.mem_all m) s hs hc]; rfl

example : (sitesOf .CAPITask_provideValue).map Site.toDoc =
    [⟨.task_provide_value, [.ownContext, .engineContext, .taskInterface 0, .param 1, .blobOf 3], .void⟩] := by decide
example : (sitesOf .CAPIRule_isResultValid).map (·.ret) = [.passThrough] := by decide
/-- what `return cb(...) || value.empty()` / `return !cb(...)` would do to the client's answer -/
example : Ret.verdict .combined false = none ∧ Ret.verdict .negated false = some true := by decide

/-- **C20_status_kinds_bijective.**  `Rule::StatusKind → llb_rule_status_kind_t` as executed by the binding (the method
is interpreted once per enumerator) is the documented name-for-name mapping, keeps the numeric value, is injective and
reaches every C enumerator: the C client is told exactly the status the C++ client is told. -/
theorem C20_status_kinds_bijective :
    (∀ e : EngineStatus, statusMap e = some (documentedStatus e)) ∧
    (∀ e : EngineStatus, (documentedStatus e).value = e.value) ∧
    (∀ e₁ e₂ : EngineStatus, statusMap e₁ = statusMap e₂ → e₁ = e₂) ∧
    (∀ c : CStatus, ∃ e, statusMap e = some c) := by
  have table :
      (∀ e ∈ EngineStatus.all, statusMap e = some (documentedStatus e)) ∧
      (∀ e ∈ EngineStatus.all, (documentedStatus e).value = e.value) ∧
      (∀ e₁ ∈ EngineStatus.all, ∀ e₂ ∈ EngineStatus.all, statusMap e₁ = statusMap e₂ → e₁ = e₂) ∧
      (∀ c ∈ CStatus.all, ∃ e ∈ EngineStatus.all, statusMap e = some c) := by decide
  obtain ⟨h1, h2, h3, h4⟩ := table
  refine ⟨fun e => h1 e (EngineStatus.mem_all e), fun e => h2 e (EngineStatus.mem_all e),
    fun e₁ e₂ => h3 e₁ (EngineStatus.mem_all e₁) e₂ (EngineStatus.mem_all e₂), fun c => ?_⟩
  obtain ⟨e, _, he⟩ := h4 c (CStatus.mem_all c)
  exact ⟨e, he⟩

example : statusMap .IsUpToDate = some .llb_rule_is_up_to_date := by decide

/-- **C20_cycle_order_preserved.**  The key array handed to `cycle_detected` is built as documented — one
`{key.size(), key.data()}` per item of the engine's list (parameter 0), appended by a single forward loop, the vector
touched by nothing else — hence for EVERY cycle `keys` the client receives exactly `keys`, in the engine's order; the
callback gets (context, that array's data, that array's size) and no other callback uses the array. -/
theorem C20_cycle_order_preserved (keys : List Bytes) :
    cycleArray = documentedCycleArray ∧
    ArrayShape.deliver cycleArray keys = some keys ∧
    (∀ m : Method, ∀ s ∈ sitesOf m, s.callback = .engine_cycle_detected →
        cycleArray.method = some m ∧ s.args = [.ownContext, .arrayData, .arrayCount]) ∧
    (∀ m : Method, ∀ s ∈ sitesOf m, (CbArg.arrayData ∈ s.args ∨ CbArg.arrayCount ∈ s.args) → s.callback = .engine_cycle_detected) := by
  have table :
      cycleArray = documentedCycleArray ∧
      (∀ m ∈ Method.all, ∀ s ∈ sitesOf m, s.callback = .engine_cycle_detected →
          cycleArray.method = some m ∧ s.args = [.ownContext, .arrayData, .arrayCount]) ∧
      (∀ m ∈ Method.all, ∀ s ∈ sitesOf m, (CbArg.arrayData ∈ s.args ∨ CbArg.arrayCount ∈ s.args) → s.callback = .engine_cycle_detected) := by
    decide
  obtain ⟨h1, h2, h3⟩ := table
  refine ⟨h1, ?_, fun m => h2 m (Method.mem_all m), fun m => h3 m (Method.mem_all m)⟩
  rw [h1]; rfl

example : ArrayShape.deliver cycleArray [[1, 0, 2], [], [3]] = some [[1, 0, 2], [], [3]] := by decide
/-- what a reversed loop would hand to the client -/
example : ArrayShape.deliver ⟨none, some 0, .reversed, true⟩ [[1], [2], [3]] = some [[3], [2], [1]] := by decide

/-- **C20_callback_bytes_preserved.**  Every blob handed to the client through a callback is `{X.size(), X.data()}` of
one C++ parameter X: for ALL byte contents the client finds exactly X's bytes (NUL included; no `strlen`, no length of
another object).  Every `llb_data_t{…}` initialiser of every method is accounted for by a blob argument of that method's
sites (or is the element of the cycle array, a `{key.size(), key.data()}` too), and together with the exported functions'
these are exactly the initialisers `C20_bytes_preserved` speaks about (`outBlobsSizeData`), all of the `{size, data}` shape. -/
theorem C20_callback_bytes_preserved (env : Nat → Bytes) :
    (∀ m : Method, ∀ s ∈ sitesOf m, ∀ a ∈ s.args, CbArg.isBlob a = true →
        ∃ i, CbArg.blobSource a = some i ∧ CbArg.deliver env a = some (env i)) ∧
    (∀ m : Method, outBlobsIn m = blobArgs (sitesOf m) + (if cycleArray.method = some m then 1 else 0)) ∧
    cycleArray.elemIsKeyBlob = true ∧
    (Method.all.map outBlobsIn).sum + outBlobsInExported = outBlobsSizeData.length ∧
    (∀ b ∈ outBlobsSizeData, b = true) := by
  have table :
      (∀ m ∈ Method.all, ∀ s ∈ sitesOf m, ∀ a ∈ s.args, CbArg.isBlob a = true → (CbArg.blobSource a).isSome = true) ∧
      (∀ m ∈ Method.all, outBlobsIn m = blobArgs (sitesOf m) + (if cycleArray.method = some m then 1 else 0)) ∧
      cycleArray.elemIsKeyBlob = true ∧
      (Method.all.map outBlobsIn).sum + outBlobsInExported = outBlobsSizeData.length ∧
      (∀ b ∈ outBlobsSizeData, b = true) := by decide
  obtain ⟨h1, h2, h3, h4, h5⟩ := table
  refine ⟨fun m s hs a ha hb => ?_, fun m => h2 m (Method.mem_all m), h3, h4, h5⟩
  have := h1 m (Method.mem_all m) s hs a ha hb
  cases a <;> simp_all [CbArg.blobSource, CbArg.deliver]

example : CbArg.deliver (fun _ => [118, 0, 0, 255]) (.blobOf 3) = some [118, 0, 0, 255] := by decide
example : CbArg.deliver (fun _ => [118, 0, 0, 255]) .blobBad = none := by decide

/-- **C20_optional_callbacks_guarded.**  Every call site is guarded exactly as documented: a required callback is
reached on every execution of its method (no event a C++ client sees is withheld from the C client), an optional one
(`is_result_valid`, `update_status`, the two `destroy_context`) is called iff it is set, behind a null check of that very
field and nothing else, and when it is null the method does the documented default (`return true` = result valid;
return; nothing). -/
theorem C20_optional_callbacks_guarded :
    (∀ m : Method, ∀ s ∈ sitesOf m, s.guard = documentedGuard s.callback) ∧
    (∀ m : Method, ∀ s ∈ sitesOf m, ∀ isSet : Bool,
        Guard.calls s.guard isSet = some (isSet || (documentedOptional s.callback).isNone)) := by
  have table : ∀ m ∈ Method.all, ∀ s ∈ sitesOf m, s.guard = documentedGuard s.callback := by decide
  refine ⟨fun m => table m (Method.mem_all m), fun m s hs isSet => ?_⟩
  rw [table m (Method.mem_all m) s hs]
  unfold documentedGuard
  cases h : documentedOptional s.callback <;> cases isSet <;> simp [Guard.calls]

example : (sitesOf .CAPIRule_isResultValid).map (·.guard) = [.ifNull .rule_is_result_valid .returnTrue] := by decide
example : (sitesOf .CAPITask_start).map (·.guard) = [.unguarded] := by decide

end Callbacks

end LLBuild.CApi
