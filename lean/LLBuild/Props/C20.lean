/-
C20 — The C API is a faithful binding of the engine  (forwarding-table half)

"... Every parameter of every call has its documented effect - force-change on completion, must-follow,
discovered dependency, database attachment with a schema version."   and   "for keys and values containing
arbitrary bytes including NUL".

Property theorems only.  `calls`, `unusedParams`, `dataParams`, `outBlobsSizeData` are GENERATED from
products/libllbuild/Core-C-API.cpp (clang-14 JSON AST, extract/x_capi.py) on every run; `documented` is written by
hand from the comments of core.h (LLBuild/Model/CApi.lean).  The event-by-event comparison of a C client with a C++
client is a separate check; here the forwarding layer itself is decided.
-/
import LLBuild.Model.CApi

namespace LLBuild.CApi
open LLBuild.Generated.CApiForward

theorem CFn.mem_all (f : CFn) : f ∈ CFn.all := by cases f <;> decide

private theorem forwarding_table :
    ∀ f ∈ CFn.all, calls f = documented f ∧ unusedParams f = [] := by decide

/-- **C20_forwarding_faithful.**  Every exported `llb_buildengine_*` function makes exactly the documented engine
calls, each C parameter landing in the documented argument slot, and no parameter is ignored.
(False before fix F09: `llb_buildengine_task_is_complete` called `complete(value)` and never referenced
`force_change`.) -/
theorem C20_forwarding_faithful (f : CFn) : calls f = documented f ∧ unusedParams f = [] :=
  forwarding_table f (CFn.mem_all f)

example : calls .task_is_complete = [⟨.complete, .ofParam 0, [.bytesCopyOf 1, .param 2]⟩] := by decide
example : (calls .attach_db).map (·.callee) = [.createSQLiteBuildDB, .attachDB] := by decide

private theorem blobs_table :
    (∀ f ∈ CFn.all, ∀ c ∈ calls f, ∀ a ∈ c.args, (Arg.blobSource a).isSome = true → Arg.lengthPreserving a = true) ∧
    (∀ f ∈ CFn.all, ∀ i ∈ dataParams f, ∃ c ∈ calls f, ∃ a ∈ c.args,
        Arg.blobSource a = some i ∧ Arg.lengthPreserving a = true) ∧
    (∀ b ∈ outBlobsSizeData, b = true) := by decide

private theorem cross_of_preserving (a : Arg) (i : Nat) (env : Nat → Bytes)
    (h : Arg.lengthPreserving a = true) (hs : Arg.blobSource a = some i) : Arg.cross env a = some (env i) := by
  cases a <;> simp_all [Arg.lengthPreserving, Arg.blobSource, Arg.cross]

/-- **C20_bytes_preserved.**  Keys, values and the database path cross the API as (pointer, length) pairs and are
copied with their length: for every function, every byte-blob parameter reaches an engine argument, and every
blob-shaped engine argument carries exactly the `length` bytes at `data` of its parameter — whatever those bytes are
(NUL included; no `strlen`, no length taken from another parameter).  In the other direction every `llb_data_t` the
library hands to the client is `{X.size(), X.data()}` of a single object. -/
theorem C20_bytes_preserved (f : CFn) (env : Nat → Bytes) :
    (∀ c ∈ calls f, ∀ a ∈ c.args, ∀ i, Arg.blobSource a = some i → Arg.cross env a = some (env i)) ∧
    (∀ i ∈ dataParams f, ∃ c ∈ calls f, ∃ a ∈ c.args, Arg.cross env a = some (env i)) ∧
    (∀ b ∈ outBlobsSizeData, b = true) := by
  obtain ⟨h1, h2, h3⟩ := blobs_table
  refine ⟨?_, ?_, h3⟩
  · intro c hc a ha i hs
    exact cross_of_preserving a i env (h1 f (CFn.mem_all f) c hc a ha (by simp [hs])) hs
  · intro i hi
    obtain ⟨c, hc, a, ha, hs, hp⟩ := h2 f (CFn.mem_all f) i hi
    exact ⟨c, hc, a, ha, cross_of_preserving a i env hp hs⟩

/-- what a `strlen`-based binding would do to a key containing NUL (why the shape matters) -/
example : Arg.cross (fun _ => [97, 0, 98]) (.cstrOf 1) = some [97] := by decide
example : Arg.cross (fun _ => [97, 0, 98]) (.keyOf 1) = some [97, 0, 98] := by decide

end LLBuild.CApi
