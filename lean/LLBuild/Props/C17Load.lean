/-
C17 (semantic half) — "Ninja manifests mean what Ninja says they mean", and the loader part of C19.

"For any manifest in the Ninja language, the loaded build statements - outputs, explicit, implicit
and order-only inputs, and the fully expanded command, description, depfile and response-file
strings - equal those given by Ninja's evaluation rules: build-level over rule-level over file-level
scoping, lazily evaluated rule variables, shell-quoted $in and $out, $-escapes [...], include sharing
and subninja nesting scopes [...]"     (quantifier: all manifests in which no file-level variable is
re-bound after a build statement that reads it through a rule variable)

C19: "... loading terminates ..." — mechanism "rule-variable expansion recursion".

Property theorems only.  Loader model: LLBuild/Model/NinjaLoader.lean (hand transliteration of
ManifestLoader.cpp / Manifest.cpp at the level of the parser's declaration stream, tied by
correspondence; tables extracted into Generated/NinjaLoaderTables.lean).  Reference semantics:
LLBuild/Model/NinjaSpec.lean (written from the Ninja manual, validated against the installed ninja).
`Cfg.fixed` = the tree with fixes/F14, F15, F21, F22 applied; `Cfg.asFound` = the code as found.
-/
import LLBuild.Lemmas.NinjaLoader

namespace LLBuild.NinjaLoader
open LLBuild.Generated.NinjaLoaderTables

/-! ## The main theorem -/

/-- **C17, all listed fields, every declaration stream, every include tree.**
Whenever the reference semantics gives a manifest a meaning (`Spec.load … = some m`: the manifest is
valid Ninja and inside the modelled fragment, see `Spec` header), the (repaired) loader reports no
error and loads exactly that: per build statement the outputs, explicit / implicit / order-only
inputs, rule, command, description, depfile, deps style, response file and its content, generator /
restat flags and pool; plus pools and default targets.  `P` (path normalisation, shell quoting,
`make_absolute`), the file table and the include-nesting bound are arbitrary.
The carve-out of the property is built into `Spec` (file-level variables are read at the build
statement), so no hypothesis about re-binding is needed: the theorem holds a fortiori inside it. -/
theorem C17_eval_agrees (P : Params) (files : Files) (fuel : Nat) (main : List Decl) (m : Spec.Manifest)
    (h : Spec.load P files fuel main = some m) :
    (load Cfg.fixed P files fuel main).manifest = m ∧ (load Cfg.fixed P files fuel main).errs = [] := by
  unfold Spec.load at h
  simp only [Option.map_eq_some_iff] at h
  obtain ⟨S, hS, rfl⟩ := h
  have hR := loadDecls_sim Cfg.fixed rfl P files fuel main St.init Spec.SSt.init S (rel_init P.norm) hS
  unfold load
  exact ⟨by simp [St.manifest, hR.cmds, hR.pools, hR.defaults], hR.errs⟩

/-- The fragment on which `C17_eval_agrees` speaks, as a decidable predicate on declaration streams. -/
def inFragment (P : Params) (files : Files) (fuel : Nat) (main : List Decl) : Bool :=
  (Spec.load P files fuel main).isSome

theorem C17_eval_agrees_on_fragment (P : Params) (files : Files) (fuel : Nat) (main : List Decl)
    (h : inFragment P files fuel main = true) :
    some (load Cfg.fixed P files fuel main).manifest = Spec.load P files fuel main := by
  unfold inFragment at h
  obtain ⟨m, hm⟩ := Option.isSome_iff_exists.1 h
  rw [hm, (C17_eval_agrees P files fuel main m hm).1]

/-! ## `$`-escapes and variable references (`evalString`) -/

/-- string evaluation: wherever the manual's expansion is defined the loader computes it, silently -/
theorem C17_evalString_agrees (vars : Bytes → Bytes) (s v : Bytes)
    (h : Spec.eval (fun n => some (vars n)) s = some v) :
    evalString (fun n => (vars n, [])) s = (v, []) :=
  evalString_agrees _ _ (fun n w hw => by simp only [Option.some.injEq] at hw; simp [hw]) s v h

/-- `$$` is `$`, `$ ` is a space, `$:` is a colon -/
theorem C17_escape_char (lk : Bytes → Out) (c : UInt8) (hc : c = 36 ∨ c = 32 ∨ c = 58) (s : Bytes) :
    evalString lk (36 :: c :: s) = Out.emit ([c], []) (evalString lk s) := by
  rcases hc with rfl | rfl | rfl <;>
    simp [evalString, evalGo, isDollarEscape, dollarEscapes]

/-- `$` + newline continues the value on the next line; the indentation is dropped -/
theorem C17_escape_newline (lk : Bytes → Out) (s : Bytes) :
    evalString lk (36 :: 10 :: s) = evalString lk (s.dropWhile isSpace) := by
  simp [evalString, evalGo, evalGo_skipws]

/-- text without `$` is copied -/
theorem C17_literal (lk : Bytes → Out) (c : UInt8) (hc : c ≠ 36) (s : Bytes) :
    evalString lk (c :: s) = Out.emit ([c], []) (evalString lk s) := by
  simp [evalString, evalGo, hc]

/-- `${x}` expands to the value of `x` (any identifier, dots included) -/
theorem C17_braced_ref (lk : Bytes → Out) (x rest : Bytes) (hx : x.all isIdentChar = true) :
    evalString lk ([36, 123] ++ x ++ [125] ++ rest) = Out.emit (lk x) (evalString lk rest) := by
  have h125 : ∀ a ∈ x, (decide (a ≠ 125)) = true := by
    intro a ha
    have := List.all_eq_true.1 hx a ha
    have h : isIdentChar 125 = false := by decide
    simp only [ne_eq, decide_not, Bool.not_eq_eq_eq_not, Bool.not_true, decide_eq_false_iff_not]
    intro e; subst e; simp [h] at this
  have hd : List.dropWhile (fun a => decide (a ≠ 125)) (x ++ 125 :: rest) = 125 :: rest := by
    rw [List.dropWhile_append_of_pos h125]; simp
  have ht : List.takeWhile (fun a => decide (a ≠ 125)) (x ++ 125 :: rest) = x := by
    rw [List.takeWhile_append_of_pos h125]; simp
  have he : isDollarEscape 123 = false := by decide
  simp only [evalString, List.cons_append, List.nil_append, List.append_assoc, evalGo]
  simp only [show (36 : UInt8) = 36 from rfl, if_true, he, Bool.false_eq_true, if_false]
  have h10 : ¬ ((123 : UInt8) = 10) := by decide
  simp only [h10, if_false, if_true]
  rw [evalGo_brace, hd, ht]
  simp [hx]

/-- `$x` is `${x}` where the name is delimited: `x` a non-empty run of letters, digits, `_`, `-`
followed by the end of the text or by a character that cannot continue the name. -/
theorem C17_simple_ref_eq_braced (lk : Bytes → Out) (c : UInt8) (x rest : Bytes)
    (hc : isSimpleIdentChar c = true) (hx : x.all isSimpleIdentChar = true)
    (hrest : rest = [] ∨ ∃ d r, rest = d :: r ∧ isSimpleIdentChar d = false) :
    evalString lk (36 :: c :: x ++ rest) = evalString lk ([36, 123] ++ (c :: x) ++ [125] ++ rest) := by
  have hsub : ∀ a, isSimpleIdentChar a = true → isIdentChar a = true := by
    intro a; rw [isSimpleIdentChar_eq, isIdentChar_eq]
    simp only [Spec.isSimpleCharS, Spec.isIdentCharS, Bool.or_eq_true]
    intro h; rcases h with h | h
    · rcases h with h | h
      · exact Or.inl (Or.inl (Or.inl h))
      · exact Or.inl (Or.inl (Or.inr h))
    · exact Or.inr h
  have hall : (c :: x).all isIdentChar = true := by
    simp only [List.all_cons, Bool.and_eq_true, List.all_eq_true]
    exact ⟨hsub c hc, fun a ha => hsub a (List.all_eq_true.1 hx a ha)⟩
  rw [C17_braced_ref lk (c :: x) rest hall]
  have hxs : ∀ a ∈ x, isSimpleIdentChar a = true := List.all_eq_true.1 hx
  have hc10 : c ≠ 10 := by intro e; subst e; simp [show isSimpleIdentChar 10 = false by decide] at hc
  have hc123 : c ≠ 123 := by intro e; subst e; simp [show isSimpleIdentChar 123 = false by decide] at hc
  have hce : isDollarEscape c = false := by
    cases h : isDollarEscape c
    · rfl
    · rcases (isDollarEscape_iff c).1 h with rfl | rfl | rfl <;> revert hc <;> decide
  have ht : List.takeWhile isSimpleIdentChar (x ++ rest) = x ∧
      evalGo lk .text (List.dropWhile isSimpleIdentChar (x ++ rest)) = evalGo lk .text rest := by
    rw [List.takeWhile_append_of_pos hxs, List.dropWhile_append_of_pos hxs]
    rcases hrest with rfl | ⟨d, r, rfl, hd⟩
    · simp
    · simp [hd]
  simp only [evalString, evalGo, List.cons_append]
  simp only [if_true, hc10, hce, hc123, hc, if_false, Bool.false_eq_true]
  rw [evalGo_simple, ht.1, ht.2]
  simp

/-! ## Scoping inside a build statement (`lookupBuildParameterImpl`) -/

def isBuiltin (n : Bytes) : Bool := n == nameIn || n == nameInNewline || n == nameOut

/-- `$in` is the explicit inputs separated by spaces, shell-quoted unless in depfile / rspfile -/
theorem C17_in_is_explicit_inputs (cfg : Cfg) (esc : Bytes → Bytes) (ctx : BuildCtx) (q : Bool) (fuel : Nat) (act : List Bytes) :
    lookupParam cfg esc ctx q (fuel + 1) act [105, 110] =
      (joinWith [32] (ctx.ins.map fun p => if q then esc p else p), []) := by
  simp [lookupParam, nameIn, sepIn]

theorem C17_out_is_outputs (cfg : Cfg) (esc : Bytes → Bytes) (ctx : BuildCtx) (q : Bool) (fuel : Nat) (act : List Bytes) :
    lookupParam cfg esc ctx q (fuel + 1) act [111, 117, 116] =
      (joinWith [32] (ctx.outs.map fun p => if q then esc p else p), []) := by
  simp [lookupParam, nameIn, nameInNewline, nameOut]

/-- quoting applies to `command`, `description`, `rspfile_content`, …; not to `depfile`, `rspfile` -/
theorem C17_quoting_policy (n : Bytes) : shouldEscape n = !(n == strDepfile || n == strRspfile) :=
  shouldEscape_eq n

/-- build-level bindings win over the rule's and the file's -/
theorem C17_build_over_rule (cfg : Cfg) (esc : Bytes → Bytes) (ctx : BuildCtx) (q : Bool) (fuel : Nat)
    (act : List Bytes) (n v : Bytes) (hb : isBuiltin n = false) (h : ctx.params.lookup n = some v) :
    lookupParam cfg esc ctx q (fuel + 1) act n = (v, []) := by
  simp only [isBuiltin, Bool.or_eq_false_iff, beq_eq_false_iff_ne, ne_eq] at hb
  simp [lookupParam, hb.1.1, hb.1.2, hb.2, h]

/-- rule-level bindings win over the file's, and are expanded *at the build statement*, in the build
statement's own context (late binding): nothing is evaluated when the rule is declared
(`step … (.rule …)` stores `b.value` untouched, see `C17_rule_text_stored_raw`). -/
theorem C17_rule_over_file_lazy (cfg : Cfg) (esc : Bytes → Bytes) (ctx : BuildCtx) (q : Bool) (fuel : Nat)
    (n text : Bytes) (hb : isBuiltin n = false) (hp : ctx.params.lookup n = none)
    (hr : ctx.rule.lookup n = some text) :
    lookupParam cfg esc ctx q (fuel + 1) [] n =
      evalString (fun m => lookupParam cfg esc ctx q fuel [n] m) text := by
  simp only [isBuiltin, Bool.or_eq_false_iff, beq_eq_false_iff_ne, ne_eq] at hb
  simp [lookupParam, hb.1.1, hb.1.2, hb.2, hp, hr]

theorem C17_rule_text_stored_raw (cfg : Cfg) (P : Params) (files : Files) (recur : List Decl → St → St)
    (name : Bytes) (b : Binding) (st : St) (hv : isValidParameterName b.name = true) :
    (step cfg P files recur (.rule name [b]) st).cur.rules.lookup name = some ⟨name, [(b.name, b.value)]⟩ := by
  simp [step, ruleParams, hv, addErrs, lookup_cons_self]

/-- otherwise the file's variables and those of the enclosing scopes are used -/
theorem C17_file_level_last (cfg : Cfg) (esc : Bytes → Bytes) (ctx : BuildCtx) (q : Bool) (fuel : Nat)
    (act : List Bytes) (n : Bytes) (hb : isBuiltin n = false) (hp : ctx.params.lookup n = none)
    (hr : ctx.rule.lookup n = none) :
    lookupParam cfg esc ctx q (fuel + 1) act n = (ctx.scope n, []) := by
  simp only [isBuiltin, Bool.or_eq_false_iff, beq_eq_false_iff_ne, ne_eq] at hb
  simp [lookupParam, hb.1.1, hb.1.2, hb.2, hp, hr]

/-! ## include shares the scope, subninja nests it -/

/-- `include`: the file's declarations are processed in the very same state (scope included) -/
theorem C17_include_shares_scope (cfg : Cfg) (P : Params) (files : Files) (recur : List Decl → St → St)
    (path p : Bytes) (ds : List Decl) (st : St) (hp : evalInScope st path = (p, []))
    (hf : files.lookup (P.absPath p) = some ds) :
    step cfg P files recur (.include path) st = recur ds st := by
  simp [step, hp, hf, addErrs_nil]

/-- `subninja`: whatever the child file does, the parent's own bindings and rules are as before -/
theorem C17_subninja_restores_scope (cfg : Cfg) (P : Params) (files : Files) (recur : List Decl → St → St)
    (path : Bytes) (st : St) :
    (step cfg P files recur (.subninja path) st).cur = st.cur ∧
    (step cfg P files recur (.subninja path) st).parents = st.parents := by
  simp only [step]
  split <;> simp [addErrs]

/-- … and the child starts in a fresh scope that sees every variable and (after fixes/F15) every
rule of the enclosing scopes. -/
theorem C17_subninja_child_sees_parent (cur : Frame) (parents : List Frame) (n : Bytes) :
    lookupVar ({} :: cur :: parents) n = lookupVar (cur :: parents) n ∧
    lookupRule Cfg.fixed {} (cur :: parents) n = lookupRule Cfg.fixed cur parents n := by
  simp [lookupVar, lookupRule, lookupRuleChain, Cfg.fixed]

/-! ## F15: as found, a `subninja` file cannot use the rules of the enclosing file -/

/-- the full statement for the code as found -/
def C17_eval_agrees_asFound_full : Prop :=
  ∀ (P : Params) (files : Files) (fuel : Nat) (main : List Decl) (m : Spec.Manifest),
    Spec.load P files fuel main = some m →
      (load Cfg.asFound P files fuel main).manifest = m ∧ (load Cfg.asFound P files fuel main).errs = []

/-- as found, *no* rule of an enclosing scope is visible in a subninja scope, not even `phony` -/
theorem F15_asFound_rules_not_inherited (cur : Frame) (parents : List Frame) (n : Bytes) :
    lookupRule Cfg.asFound {} (cur :: parents) n = none := by
  simp [lookupRule, Cfg.asFound]

def idParams : Params := ⟨id, id, id⟩

/-- `build.ninja`: `rule cc / command = c`, `subninja s`;   `s`: `build o: cc i` -/
def f15Main : List Decl := [.rule [99, 99] [⟨strCommand, [99]⟩], .subninja [115]]
def f15Files : Files := [([115], [.build [99, 99] [[111]] [[105]] 1 0 []])]

theorem eval_literal (lk : Bytes → Option Bytes) : ∀ s : Bytes, (∀ c ∈ s, c ≠ 36) → Spec.eval lk s = some s := by
  intro s
  induction s with
  | nil => intro _; simp [Spec.eval]
  | cons c r ih =>
    intro h
    have hc : c ≠ 36 := h c (by simp)
    unfold Spec.eval
    simp [hc, ih (fun d hd => h d (by simp [hd]))]

/-- the witness is valid Ninja (the installed `ninja` agrees: the check replays it) -/
theorem F15_witness_in_fragment : inFragment idParams f15Files 2 f15Main = true := by
  have e1 : ∀ lk, Spec.eval lk [115] = some [115] := fun lk => eval_literal lk _ (by decide)
  have e2 : ∀ lk, Spec.eval lk [111] = some [111] := fun lk => eval_literal lk _ (by decide)
  have e3 : ∀ lk, Spec.eval lk [105] = some [105] := fun lk => eval_literal lk _ (by decide)
  have e4 : ∀ lk, Spec.eval lk [99] = some [99] := fun lk => eval_literal lk _ (by decide)
  simp [inFragment, Spec.load, Spec.loadDeclsS, Spec.foldS, Spec.stepS, f15Main, f15Files, idParams, e1, e2, e3, e4,
    Spec.SSt.init, Spec.Env.init, Spec.upd, Spec.ruleParamsS, Spec.isRuleVariable, strCommand, strPhony,
    List.lookup, Spec.evalPathsS, Spec.addPath, Spec.evalBindingsS, Spec.lookAllS, Spec.expandNamed, Spec.expand,
    Spec.assembleS, Spec.depsStyleS, Spec.poolS, strDescription, strDeps, strDepfile, strPool, strGenerator, strRestat,
    strRspfile, strRspfileContent, Spec.quoted]

theorem F15_witness :
    (load Cfg.asFound idParams f15Files 2 f15Main).errs = [.unknownRule] ∧
    ((load Cfg.asFound idParams f15Files 2 f15Main).cmds.map (·.command)) = [[]] ∧
    (load Cfg.fixed idParams f15Files 2 f15Main).errs = [] ∧
    ((load Cfg.fixed idParams f15Files 2 f15Main).cmds.map (·.command)) = [[99]] := by
  decide

theorem C17_eval_agrees_asFound_false : ¬ C17_eval_agrees_asFound_full := by
  intro h
  have hs : (Spec.load idParams f15Files 2 f15Main).isSome = true := F15_witness_in_fragment
  obtain ⟨m, hm⟩ := Option.isSome_iff_exists.1 hs
  have := (h idParams f15Files 2 f15Main m hm).2
  rw [F15_witness.1] at this
  cases this

/-! ## C19 (loader part): rule-variable expansion terminates -/

/-- After fixes/F14 the expansion of any parameter of any build statement stays within the bound
`#rule parameters + 1` on the nesting depth, for every rule text, binding set and scope: the model
never runs out of fuel, i.e. the recursion of `lookupBuildParameterImpl` is bounded (a repeated
name is reported as `cycle`). -/
theorem C19_loader_total (esc : Bytes → Bytes) (ctx : BuildCtx) (name : Bytes) :
    Err.outOfFuel ∉ (lookupNamed Cfg.fixed esc ctx name).2 := by
  unfold lookupNamed paramFuel
  apply lookupParam_noFuel Cfg.fixed rfl
  · exact List.nodup_nil
  · intro a ha; cases ha
  · simp

/-- the full statement for the code as found -/
def C19_loader_total_asFound_full : Prop :=
  ∀ (esc : Bytes → Bytes) (ctx : BuildCtx) (name : Bytes),
    ∃ fuel, Err.outOfFuel ∉ (lookupParam Cfg.asFound esc ctx (shouldEscape name) fuel [] name).2

/-- F14: as found, `command = $command` exhausts *every* bound — the C++ recursion never returns
(stack overflow, SIGSEGV; replayed on the real loader by the check). -/
theorem F14_witness (esc : Bytes → Bytes) (fuel : Nat) :
    lookupParam Cfg.asFound esc f14ctx (shouldEscape strCommand) fuel [] strCommand = ([], [.outOfFuel]) :=
  f14_unguarded_diverges Cfg.asFound rfl esc _ fuel []

theorem C19_loader_total_asFound_false : ¬ C19_loader_total_asFound_full := by
  intro h
  obtain ⟨fuel, hf⟩ := h id f14ctx strCommand
  rw [F14_witness] at hf
  simp at hf

/-- with the guard the same rule is reported as a cycle -/
example : lookupNamed Cfg.fixed id f14ctx strCommand = ([], [.cycle]) := by decide

/-! ## Non-vacuity -/

-- `rule r / command = a $x ${y.z} $$ $in > $out`, `x = 1`, `y.z = 2`, `build o$ p: r i j | k || l`, `x = 9`(after: not seen)
def exMain : List Decl :=
  [ .rule [114] [⟨strCommand, [97, 32, 36, 120, 32, 36, 123, 121, 46, 122, 125, 32, 36, 36, 32, 36, 105, 110, 32, 62, 32, 36, 111, 117, 116]⟩],
    .binding ⟨[120], [49]⟩, .binding ⟨[121, 46, 122], [50]⟩,
    .build [114] [[111, 36, 32, 112]] [[105], [106], [107], [108]] 2 1 [] ]

/-- a manifest exercising escapes, both reference forms, lazy rule text, `$in`/`$out` and all input
classes; the command is `a 1 2 $ <i> <j> > <o p>` with paths quoted by `esc` (here: brackets) -/
example :
    ((load Cfg.fixed ⟨id, fun p => [60] ++ p ++ [62], id⟩ [] 1 exMain).cmds.map (·.command)) =
      [[97, 32, 49, 32, 50, 32, 36, 32, 60, 105, 62, 32, 60, 106, 62, 32, 62, 32, 60, 111, 32, 112, 62]] := by
  decide

/-- the hypothesis of `C17_eval_agrees` is satisfiable (rule, subninja tree, inherited rule) -/
example : ∃ m, Spec.load idParams f15Files 2 f15Main = some m :=
  Option.isSome_iff_exists.1 F15_witness_in_fragment

-- laziness: the rule is declared before `x` is bound and still sees it
example : ((load Cfg.fixed idParams [] 1
    [.rule [114] [⟨strCommand, [36, 120]⟩], .binding ⟨[120], [49]⟩, .build [114] [[111]] [] 0 0 []]).cmds.map (·.command)) = [[49]] := by
  decide

-- build-level over rule-level over file-level
example : ((load Cfg.fixed idParams [] 1
    [.binding ⟨strDescription, [102]⟩, .rule [114] [⟨strCommand, [99]⟩, ⟨strDescription, [114]⟩],
     .build [114] [[111]] [] 0 0 [⟨strDescription, [98]⟩], .build [114] [[112]] [] 0 0 []]).cmds.map (·.description)) = [[98], [114]] := by
  decide

-- include shares, subninja nests: `x` bound in the included file is visible afterwards, `y` bound in the subninja file is not
example : ((load Cfg.fixed idParams [([105], [.binding ⟨[120], [49]⟩]), ([115], [.binding ⟨[121], [50]⟩])] 2
    [.include [105], .subninja [115], .rule [114] [⟨strCommand, [36, 120, 36, 121]⟩], .build [114] [[111]] [] 0 0 []]).cmds.map (·.command)) = [[49]] := by
  decide

end LLBuild.NinjaLoader
