/-
C09 — "a command re-runs exactly when its definition changed", SIGNATURE HALF, for EVERY class whose
`getSignature` recipe the extractor regenerates (LLBuild/Generated/SignatureRecipe.lean):

    Command (inherited by StaleFileRemovalCommand, SwiftGetVersionCommand)
    ExternalCommand (inherited unchanged by PhonyCommand, MkdirCommand, ArchiveShellCommand —
                     `Generated.tools` says which tool uses which recipe)
    ShellCommand, ClangShellCommand, SwiftCompilerShellCommand, SharedLibraryShellCommand, SymlinkCommand, BuildNode

For each class: the pre-hash signature terms of two definitions are equal IF AND ONLY IF their
signature-relevant parts are equal; the signature-relevant part of a class is, by definition, the members
its recipe mentions (`relevant*` below say which).  Every list-valued member is either hashed behind its
length (F10 repair: `prefixed_inj`) or is the LAST thing hashed (`strs_inj`), so no element can move across a
list boundary.  Property theorems only; the closed forms are in Lemmas/SignatureClasses.lean.

Which configurable attributes are NOT signature-relevant is stated per tool by `C09_unsigned_attributes`
(against the attribute names the extractor reads out of the `configureAttribute` bodies).
-/
import LLBuild.Lemmas.SignatureClasses
import LLBuild.Props.C09

namespace LLBuild.Signature
open LLBuild.Generated.Signature

/-- `C::getSignature()` as a term, through the generated recipes -/
def sigOf (c : Cls) (d : CommandDef) : Option HashTerm := sigTerm recipeOf d fuel c

/-! ## ShellCommand, ExternalCommand: the two directions of Props/C09.lean as one equivalence -/

/-- **shell tool** — equal signature terms ⇔ equal (name, inputs, outputs, allow-missing-inputs,
allow-modified-outputs, always-out-of-date, explicit signature | args, env, deps, deps-style, inherit-env,
can-safely-interrupt, working-directory, control-enabled). -/
theorem C09_sig_iff_shell (d₁ d₂ : CommandDef) :
    sigOf .shellCommand d₁ = sigOf .shellCommand d₂ ↔ relevant d₁ = relevant d₂ :=
  ⟨C09_sig_injective d₁ d₂, fun h => (C09_sig_pure d₁ d₂ h).1⟩

/-- **phony, mkdir, archive tools** (`ExternalCommand::getSignature` unchanged) — equal
signature terms ⇔ equal (name, inputs, outputs, allow-missing-inputs, allow-modified-outputs, always-out-of-date). -/
theorem C09_sig_iff_external (d₁ d₂ : CommandDef) :
    sigOf .externalCommand d₁ = sigOf .externalCommand d₂ ↔ relevantExternal d₁ = relevantExternal d₂ := by
  refine ⟨C09_sig_injective_external d₁ d₂, fun h => ?_⟩
  simp only [sigOf, fuel, external_closed]
  simp only [relevantExternal, Prod.mk.injEq] at h
  obtain ⟨h1, h2, h3, h4, h5, h6⟩ := h
  simp only [extLeaves, h1, h2, h3, h4, h5, h6]

/-! ## Command (stale-file-removal tool, swift-get-version custom task) -/

/-- `Command::getSignature()` hashes the command name and nothing else. -/
def relevantCommand (d : CommandDef) : Bytes := d.name

/-- **stale-file-removal** — equal signature terms ⇔ equal names.  (`expectedOutputs` and `roots` are not
hashed; the command declares every prior result invalid, so it runs in every build anyway.) -/
theorem C09_sig_iff_command (d₁ d₂ : CommandDef) :
    sigOf .command d₁ = sigOf .command d₂ ↔ relevantCommand d₁ = relevantCommand d₂ := by
  simp only [sigOf, fuel, command_closed, Option.some.injEq, relevantCommand]
  constructor
  · intro h
    have := chain_seed_inj h
    simpa using this
  · intro h; rw [h]

/-! ## ClangShellCommand (clang tool) -/

structure RelevantClang where
  /-- name, inputs, outputs, allow-missing-inputs, allow-modified-outputs, always-out-of-date -/
  ext : Bytes × List Bytes × List Bytes × Bool × Bool × Bool
  args : List Bytes
  /-- path of the dependency file (`deps`) -/
  deps : Bytes
  deriving DecidableEq, Repr

def relevantClang (d : CommandDef) : RelevantClang := { ext := relevantExternal d, args := d.args, deps := d.depsPath }

theorem ext_of_relevant {d₁ d₂ : CommandDef} (h : relevantExternal d₁ = relevantExternal d₂) :
    d₁.name = d₂.name ∧ extLeaves d₁ = extLeaves d₂ := by
  simp only [relevantExternal, Prod.mk.injEq] at h
  obtain ⟨h1, h2, h3, h4, h5, h6⟩ := h
  exact ⟨h1, by simp only [extLeaves, h2, h3, h4, h5, h6]⟩

/-- the ExternalCommand prefix of a chain can be split off: it determines the ExternalCommand part and
leaves the class-specific operands -/
theorem ext_split {d₁ d₂ : CommandDef} {r₁ r₂ : List HashTerm}
    (h : chain (.str d₁.name) (extLeaves d₁ ++ r₁) = chain (.str d₂.name) (extLeaves d₂ ++ r₂)) :
    relevantExternal d₁ = relevantExternal d₂ ∧ r₁ = r₂ := by
  obtain ⟨hname, hl⟩ := chain_str_inj h
  simp only [extLeaves, List.cons_append, List.append_assoc] at hl
  obtain ⟨hin, hl⟩ := prefixed_inj hl
  obtain ⟨hout, hl⟩ := prefixed_inj hl
  simp only [List.nil_append, List.cons.injEq, HashTerm.bool.injEq] at hl
  obtain ⟨h1, h2, h3, hl⟩ := hl
  exact ⟨by simp [relevantExternal, hname, hin, hout, h1, h2, h3], hl⟩

/-- **clang tool** — equal signature terms ⇔ equal (name, inputs, outputs, three flags, args, deps path). -/
theorem C09_sig_iff_clang (d₁ d₂ : CommandDef) :
    sigOf .clangShellCommand d₁ = sigOf .clangShellCommand d₂ ↔ relevantClang d₁ = relevantClang d₂ := by
  simp only [sigOf, fuel, clang_closed, Option.some.injEq]
  constructor
  · intro h
    obtain ⟨he, hl⟩ := ext_split h
    simp only [clangLeaves] at hl
    obtain ⟨ha, hl⟩ := prefixed_inj hl
    obtain ⟨hd, _⟩ := str_cons_inj hl
    simp [relevantClang, he, ha, hd]
  · intro h
    simp only [relevantClang, RelevantClang.mk.injEq] at h
    obtain ⟨hn, he⟩ := ext_of_relevant h.1
    rw [hn, he, clangLeaves, clangLeaves, h.2.1, h.2.2]

/-! ## SwiftCompilerShellCommand (swift-compiler tool) -/

structure RelevantSwift where
  ext : Bytes × List Bytes × List Bytes × Bool × Bool × Bool
  executable : Bytes
  moduleName : Bytes
  moduleAliases : List Bytes
  moduleOutputPath : Bytes
  sources : List Bytes
  objects : List Bytes
  importPaths : List Bytes
  tempsPath : Bytes
  otherArgs : List Bytes
  isLibrary : Bool
  enableWholeModuleOptimization : Bool
  numThreads : Bytes
  deriving DecidableEq, Repr

def relevantSwift (d : CommandDef) : RelevantSwift :=
  { ext := relevantExternal d, executable := d.executable, moduleName := d.moduleName,
    moduleAliases := d.moduleAliases, moduleOutputPath := d.moduleOutputPath, sources := d.sourcesList,
    objects := d.objectsList, importPaths := d.importPaths, tempsPath := d.tempsPath,
    otherArgs := d.otherArgs, isLibrary := d.isLibrary,
    enableWholeModuleOptimization := d.enableWholeModuleOptimization, numThreads := d.numThreads }

/-- **swift-compiler tool** — equal signature terms ⇔ equal (name, inputs, outputs, three flags, executable,
module-name, module-aliases, module-output-path, sources, objects, import-paths, temps-path, other-args,
is-library, enable-whole-module-optimization, num-threads). -/
theorem C09_sig_iff_swift (d₁ d₂ : CommandDef) :
    sigOf .swiftCompilerShellCommand d₁ = sigOf .swiftCompilerShellCommand d₂ ↔ relevantSwift d₁ = relevantSwift d₂ := by
  simp only [sigOf, fuel, swift_closed, Option.some.injEq]
  constructor
  · intro h
    obtain ⟨he, hl⟩ := ext_split h
    simp only [swiftLeaves] at hl
    obtain ⟨hexe, hl⟩ := str_cons_inj hl
    obtain ⟨hmod, hl⟩ := str_cons_inj hl
    obtain ⟨hali, hl⟩ := prefixed_inj hl
    obtain ⟨hmop, hl⟩ := str_cons_inj hl
    obtain ⟨hsrc, hl⟩ := prefixed_inj hl
    obtain ⟨hobj, hl⟩ := prefixed_inj hl
    obtain ⟨himp, hl⟩ := prefixed_inj hl
    obtain ⟨htmp, hl⟩ := str_cons_inj hl
    obtain ⟨hoth, hl⟩ := prefixed_inj hl
    simp only [List.cons.injEq, HashTerm.bool.injEq, HashTerm.str.injEq, and_true] at hl
    obtain ⟨hlib, hwmo, hnt⟩ := hl
    simp [relevantSwift, he, hexe, hmod, hali, hmop, hsrc, hobj, himp, htmp, hoth, hlib, hwmo, hnt]
  · intro h
    simp only [relevantSwift, RelevantSwift.mk.injEq] at h
    obtain ⟨he, h1, h2, h3, h4, h5, h6, h7, h8, h9, h10, h11, h12⟩ := h
    obtain ⟨hn, he⟩ := ext_of_relevant he
    rw [hn, he]
    simp only [swiftLeaves, h1, h2, h3, h4, h5, h6, h7, h8, h9, h10, h11, h12]

/-! ## SharedLibraryShellCommand (shared-library tool) -/

structure RelevantSharedLib where
  ext : Bytes × List Bytes × List Bytes × Bool × Bool × Bool
  executable : Bytes
  compilerStyle : Bytes
  otherArgs : List Bytes
  deriving DecidableEq, Repr

def relevantSharedLib (d : CommandDef) : RelevantSharedLib :=
  { ext := relevantExternal d, executable := d.executable, compilerStyle := d.compilerStyle, otherArgs := d.otherArgs }

/-- **shared-library tool** — equal signature terms ⇔ equal (name, inputs, outputs, three flags, executable,
compiler-style, other-args).  (The three flags cannot be configured for this tool — `C09_signed_attributes_configurable`
— so they are always hashed at their defaults.) -/
theorem C09_sig_iff_sharedLibrary (d₁ d₂ : CommandDef) :
    sigOf .sharedLibraryShellCommand d₁ = sigOf .sharedLibraryShellCommand d₂ ↔ relevantSharedLib d₁ = relevantSharedLib d₂ := by
  simp only [sigOf, fuel, sharedLib_closed, Option.some.injEq]
  constructor
  · intro h
    obtain ⟨he, hl⟩ := ext_split h
    simp only [sharedLibLeaves] at hl
    obtain ⟨hexe, hl⟩ := str_cons_inj hl
    obtain ⟨hcs, hl⟩ := str_cons_inj hl
    have := prefixed_inj (r₁ := []) (r₂ := []) (by simpa using hl)
    simp [relevantSharedLib, he, hexe, hcs, this.1]
  · intro h
    simp only [relevantSharedLib, RelevantSharedLib.mk.injEq] at h
    obtain ⟨he, h1, h2, h3⟩ := h
    obtain ⟨hn, he⟩ := ext_of_relevant he
    rw [hn, he]
    simp only [sharedLibLeaves, h1, h2, h3]

/-! ## SymlinkCommand (symlink tool) -/

structure RelevantSymlink where
  /-- the loader accepts exactly one declared output (`configureOutputs`) -/
  outputs : List Bytes
  contents : Bytes
  inputs : List Bytes
  deriving DecidableEq, Repr

def relevantSymlink (d : CommandDef) : RelevantSymlink :=
  { outputs := d.outputs, contents := d.contents, inputs := d.inputs }

/-- **symlink tool** — for definitions with exactly one declared output (what `configureOutputs` accepts):
equal signature terms ⇔ equal (output, contents, inputs).  The command NAME is not hashed (the output path
stands in for it), nor are `link-output-path` and `repair-via-ownership-analysis`.  `inputs` is the last
list and needs no length. -/
theorem C09_sig_iff_symlink (d₁ d₂ : CommandDef) (w₁ : d₁.outputs.length = 1) (w₂ : d₂.outputs.length = 1) :
    sigOf .symlinkCommand d₁ = sigOf .symlinkCommand d₂ ↔ relevantSymlink d₁ = relevantSymlink d₂ := by
  obtain ⟨o₁, e₁⟩ := List.length_eq_one_iff.1 w₁
  obtain ⟨o₂, e₂⟩ := List.length_eq_one_iff.1 w₂
  simp only [sigOf, fuel, symlink_closed _ _ _ _ e₁, symlink_closed _ _ _ _ e₂, Option.some.injEq]
  constructor
  · intro h
    obtain ⟨ho, hl⟩ := chain_str_inj h
    obtain ⟨hc, hl⟩ := str_cons_inj hl
    simp [relevantSymlink, e₁, e₂, ho, hc, strs_inj hl]
  · intro h
    simp only [relevantSymlink, RelevantSymlink.mk.injEq, e₁, e₂, List.cons.injEq, and_true] at h
    obtain ⟨ho, hc, hi⟩ := h
    rw [ho, hc, hi]

/-- A symlink command WITHOUT a declared output has no signature in the model: `outputs[0]` is read out of
bounds (undefined behaviour in the code).  The loader reports "missing declared output" only when an
`outputs:` key is present and empty; without the key `configureOutputs` is never called. -/
theorem C09_symlink_without_output_undefined (d : CommandDef) (h : d.outputs = []) :
    sigOf .symlinkCommand d = none :=
  symlink_undefined d fuel h

/-! ## BuildNode (node rules) -/

structure RelevantNode where
  /-- ordinal of `BuildNode::NodeType` -/
  type : Nat
  /-- names of the producing commands, in `getProducers()` order -/
  producers : List Bytes
  deriving DecidableEq, Repr

def relevantNode (d : CommandDef) : RelevantNode := { type := d.type, producers := d.producers }

/-- **node rules** — equal signature terms ⇔ equal (node type, producer names).  The node's own name is
not hashed (it is the rule key); `is-command-timestamp`, `is-mutated`, `content-exclusion-patterns`
and `must-scan-after-paths` are NOT hashed.  The producer list is the last thing hashed. -/
theorem C09_sig_iff_buildNode (d₁ d₂ : CommandDef) :
    sigOf .buildNode d₁ = sigOf .buildNode d₂ ↔ relevantNode d₁ = relevantNode d₂ := by
  simp only [sigOf, fuel, buildNode_closed, Option.some.injEq]
  constructor
  · intro h
    have hl := chain_seed_inj h
    simp only [List.cons.injEq, HashTerm.int.injEq] at hl
    simp [relevantNode, hl.1, strs_inj hl.2]
  · intro h
    simp only [relevantNode, RelevantNode.mk.injEq] at h
    rw [h.1, h.2]

/-! ## All classes at once -/

/-- The signature-relevant part of a definition, per class. -/
inductive RelevantAny
  | command (name : Bytes)
  | external (r : Bytes × List Bytes × List Bytes × Bool × Bool × Bool)
  | shell (r : Relevant)
  | node (r : RelevantNode)
  | clang (r : RelevantClang)
  | swift (r : RelevantSwift)
  | symlink (r : RelevantSymlink)
  | sharedLib (r : RelevantSharedLib)
  deriving DecidableEq, Repr

def relevantOf : Cls → CommandDef → RelevantAny
  | .command, d => .command (relevantCommand d)
  | .externalCommand, d => .external (relevantExternal d)
  | .shellCommand, d => .shell (relevant d)
  | .buildNode, d => .node (relevantNode d)
  | .clangShellCommand, d => .clang (relevantClang d)
  | .swiftCompilerShellCommand, d => .swift (relevantSwift d)
  | .symlinkCommand, d => .symlink (relevantSymlink d)
  | .sharedLibraryShellCommand, d => .sharedLib (relevantSharedLib d)

/-- what the loader guarantees about a definition of class `c` (only SymlinkCommand has a constraint the
recipe depends on) -/
def Loadable : Cls → CommandDef → Prop
  | .symlinkCommand, d => d.outputs.length = 1
  | _, _ => True

instance (c : Cls) (d : CommandDef) : Decidable (Loadable c d) := by
  cases c <;> simp only [Loadable] <;> infer_instance

/-- **C09_sig_iff_all_classes** — "a command re-runs exactly when its definition changed", signature half,
for EVERY class with a regenerated recipe: two loadable definitions of the same class have equal pre-hash
signature terms if and only if their signature-relevant parts are equal. -/
theorem C09_sig_iff_all_classes (c : Cls) (d₁ d₂ : CommandDef) (w₁ : Loadable c d₁) (w₂ : Loadable c d₂) :
    sigOf c d₁ = sigOf c d₂ ↔ relevantOf c d₁ = relevantOf c d₂ := by
  cases c <;> simp only [relevantOf, RelevantAny.command.injEq, RelevantAny.external.injEq,
    RelevantAny.shell.injEq, RelevantAny.node.injEq, RelevantAny.clang.injEq, RelevantAny.swift.injEq,
    RelevantAny.symlink.injEq, RelevantAny.sharedLib.injEq]
  · exact C09_sig_iff_command d₁ d₂
  · exact C09_sig_iff_external d₁ d₂
  · exact C09_sig_iff_shell d₁ d₂
  · exact C09_sig_iff_buildNode d₁ d₂
  · exact C09_sig_iff_clang d₁ d₂
  · exact C09_sig_iff_swift d₁ d₂
  · exact C09_sig_iff_symlink d₁ d₂ w₁ w₂
  · exact C09_sig_iff_sharedLibrary d₁ d₂

/-- Every class has a recipe, and every loadable definition has a signature term (the interpreter never
fails on the generated recipes): the equivalence above is never about `none = none`. -/
theorem C09_sig_defined_all_classes (c : Cls) (d : CommandDef) (w : Loadable c d) :
    (recipeOf c).isSome = true ∧ (sigOf c d).isSome = true := by
  cases c
  · simp [sigOf, fuel, command_closed, recipeOf]
  · simp [sigOf, fuel, external_closed, recipeOf]
  · simp [sigOf, fuel, shell_closed, recipeOf]
  · simp [sigOf, fuel, buildNode_closed, recipeOf]
  · simp [sigOf, fuel, clang_closed, recipeOf]
  · simp [sigOf, fuel, swift_closed, recipeOf]
  · obtain ⟨o, e⟩ := List.length_eq_one_iff.1 w
    simp [sigOf, fuel, symlink_closed _ _ _ _ e, recipeOf]
  · simp [sigOf, fuel, sharedLib_closed, recipeOf]

/-- "an unchanged definition has the same signature in every process", every class: the 64-bit value the
model computes (fixed seed, 0 ↦ 1 where the recipe says so) is a function of the relevant part alone. -/
theorem C09_sig_pure_all_classes (c : Cls) (d₁ d₂ : CommandDef) (w₁ : Loadable c d₁) (w₂ : Loadable c d₂)
    (h : relevantOf c d₁ = relevantOf c d₂) (r : Recipe) :
    (sigOf c d₁).map (evalSig r) = (sigOf c d₂).map (evalSig r) := by
  rw [(C09_sig_iff_all_classes c d₁ d₂ w₁ w₂).2 h]

/-! ## Every hashed list is delimited (F10, recipe-generic form) -/

/-- **C09_lists_delimited** — in EVERY generated recipe each range-for over a list-valued member (inputs,
outputs, args, env, deps, module-aliases, sources, objects, import-paths, other-args, producers) is either
immediately preceded by a `combine` of that list's size or is the last thing the function hashes. -/
theorem C09_lists_delimited (c : Cls) : ((recipeOf c).map (delimitedSteps none)) = some true := by
  cases c <;> decide

/-- … which is exactly what the recipes of the unrepaired tree fail (F10). -/
theorem C09_prefix_lists_not_delimited :
    (Prefix.recipeOf .externalCommand).map (delimitedSteps none) = some false ∧
    (Prefix.recipeOf .shellCommand).map (delimitedSteps none) = some false := by decide

/-! ## Tools: which recipe each built-in tool uses, and which of its attributes are NOT hashed -/

/-- Every built-in tool of `lookupTool` creates commands whose `getSignature()` is one of the regenerated
recipes (the extractor follows `createCommand` and the inheritance chain to the nearest override). -/
theorem C09_tool_classes :
    tools.map (fun t => (t.1, t.2.2)) =
      [("shell", .shellCommand), ("phony", .externalCommand), ("clang", .clangShellCommand),
       ("mkdir", .externalCommand), ("symlink", .symlinkCommand), ("archive", .externalCommand),
       ("shared-library", .sharedLibraryShellCommand), ("stale-file-removal", .command),
       ("swift-compiler", .swiftCompilerShellCommand)] := by decide

/-- **C09_sig_iff_every_tool** — for every built-in tool: two loadable definitions of one of its commands
have equal signature terms iff their signature-relevant parts (`relevantOf` the tool's recipe class) are equal. -/
theorem C09_sig_iff_every_tool (tool cname : String) (c : Cls) (_h : (tool, cname, c) ∈ tools)
    (d₁ d₂ : CommandDef) (w₁ : Loadable c d₁) (w₂ : Loadable c d₂) :
    (recipeOf c).isSome = true ∧ (sigOf c d₁).isSome = true ∧
    (sigOf c d₁ = sigOf c d₂ ↔ relevantOf c d₁ = relevantOf c d₂) :=
  ⟨(C09_sig_defined_all_classes c d₁ w₁).1, (C09_sig_defined_all_classes c d₁ w₁).2,
   C09_sig_iff_all_classes c d₁ d₂ w₁ w₂⟩

/-- the three ExternalCommand flags -/
def externalSigned : List String := ["allow-missing-inputs", "allow-modified-outputs", "always-out-of-date"]

/-- Build-file attribute names whose value is stored in a member that the class's recipe hashes (besides the
command name and the `inputs` / `outputs` keys).  The attribute-to-member step is the `configureAttribute`
code itself; it is exercised by the correspondence (every definition goes through the real loader). -/
def signedAttributes : Cls → List String
  | .command => []
  | .externalCommand => externalSigned
  | .shellCommand => externalSigned ++ ["args", "env", "deps", "deps-style", "inherit-env", "can-safely-interrupt", "signature",
      "working-directory", "control-enabled"]
  | .clangShellCommand => externalSigned ++ ["args", "deps"]
  | .swiftCompilerShellCommand => externalSigned ++ ["executable", "module-name", "module-aliases", "module-output-path",
      "sources", "objects", "import-paths", "temps-path", "other-args", "is-library", "enable-whole-module-optimization",
      "num-threads"]
  | .sharedLibraryShellCommand => externalSigned ++ ["executable", "compiler-style", "other-args"]
  | .symlinkCommand => ["contents"]
  | .buildNode => ["type", "is-directory", "is-directory-structure", "is-virtual", "is-command-timestamp"]

/-- attributes a tool's command class accepts that are not hashed by its recipe -/
def unsignedAttributes : List (String × List String) :=
  tools.map fun t => (t.1, ((commandAttributes.lookup t.1).getD []).filter fun a => !(signedAttributes t.2.2).contains a)

/-- **C09_unsigned_attributes** — the configurable attributes of each tool that do NOT enter its signature,
computed from the attribute names the extractor reads out of the `configureAttribute` bodies: exactly these.
(A new attribute in the source, or one that starts/stops being hashed, changes this list and fails the proof.)
None of them changes what the command does: `link-output-path` is covered by `isResultValid` (which stats
the actual link path); stale-file-removal declares every prior result invalid and runs in every build;
`repair-via-ownership-analysis` only changes graph analysis at load time.  (Before fixes F49–F52 the list also
held shell `working-directory` / `control-enabled`, clang `deps`, shared-library `executable` / `other-args` /
`compiler-style` and swift-compiler `enable-whole-module-optimization` / `num-threads`.) -/
theorem C09_unsigned_attributes :
    unsignedAttributes =
      [("shell", ["repair-via-ownership-analysis"]),
       ("phony", ["repair-via-ownership-analysis"]),
       ("clang", ["repair-via-ownership-analysis"]),
       ("mkdir", ["repair-via-ownership-analysis"]),
       ("symlink", ["link-output-path", "repair-via-ownership-analysis"]),
       ("archive", ["repair-via-ownership-analysis"]),
       ("shared-library", []),
       ("stale-file-removal", ["expectedOutputs", "roots"]),
       ("swift-compiler", ["repair-via-ownership-analysis"])] := by
  decide

/-- Conversely: every hashed attribute is configurable, except that shared-library's scalar overload does not
delegate to ExternalCommand — it accepts the three flags and IGNORES them (they are hashed at their defaults). -/
theorem C09_signed_attributes_configurable :
    (tools.map fun t => (t.1, (signedAttributes t.2.2).filter fun a => !((commandAttributes.lookup t.1).getD []).contains a)).filter
        (fun p => !p.2.isEmpty) = [("shared-library", externalSigned)] ∧
    acceptsAnyScalarAttribute = ["shared-library"] := by decide

/-! ## Non-vacuity and list boundaries (F10 carried over to every list-valued member) -/

private def cbase : CommandDef :=
  { name := [67], inputs := [[97]], outputs := [[111]], allowMissingInputs := false,
    allowModifiedOutputs := false, alwaysOutOfDate := false, args := [[99], [45, 99]], env := [], depsPaths := [],
    depsStyle := 0, inheritEnv := true, canSafelyInterrupt := true, signatureData := [],
    executable := [115], moduleName := [77], sourcesList := [[97], [98]], objectsList := [[120], [121]],
    importPaths := [[105]], tempsPath := [116], otherArgs := [[45, 79]], contents := [116, 103],
    type := 3, producers := [[67], [68]] }

example : ∀ c, Loadable c cbase := by intro c; cases c <;> decide
example : ∀ c, (sigOf c cbase).isSome = true := by intro c; cases c <;> decide
-- clang: the last input cannot become the first argument
example : sigOf .clangShellCommand { cbase with inputs := [[97], [98]], args := [[99]] } ≠
          sigOf .clangShellCommand { cbase with inputs := [[97]], args := [[98], [99]] } := by decide
-- swift: a source cannot move into objects / an import path into other-args / an alias into the module output path
example : sigOf .swiftCompilerShellCommand { cbase with sourcesList := [[97], [98]], objectsList := [[120]] } ≠
          sigOf .swiftCompilerShellCommand { cbase with sourcesList := [[97]], objectsList := [[98], [120]] } := by decide
example : sigOf .swiftCompilerShellCommand { cbase with importPaths := [[105], [116]], tempsPath := [], otherArgs := [] } ≠
          sigOf .swiftCompilerShellCommand { cbase with importPaths := [[105]], tempsPath := [116], otherArgs := [] } := by decide
-- symlink: contents vs first input; output vs contents
example : sigOf .symlinkCommand { cbase with contents := [116], inputs := [[97]] } ≠
          sigOf .symlinkCommand { cbase with contents := [], inputs := [[116], [97]] } := by decide
-- node: type and producers
example : sigOf .buildNode { cbase with type := 0 } ≠ sigOf .buildNode { cbase with type := 1 } := by decide
example : sigOf .buildNode { cbase with producers := [[67]] } ≠ sigOf .buildNode { cbase with producers := [[67], [68]] } := by decide
-- attributes outside the relevant part do not move the term (e.g. the shell-only members for clang)
example : relevantOf .clangShellCommand cbase = relevantOf .clangShellCommand { cbase with env := [([1], [2])], contents := [] } := by decide
example : sigOf .symlinkCommand cbase = sigOf .symlinkCommand { cbase with name := [1, 2, 3], alwaysOutOfDate := true } := by decide
example : sigOf .symlinkCommand { cbase with outputs := [] } = none := by decide
-- F49–F52: the formerly unhashed attributes now separate the terms
example : sigOf .shellCommand { cbase with workingDirectory := [47, 97] } ≠ sigOf .shellCommand { cbase with workingDirectory := [47, 98] } := by decide
example : sigOf .shellCommand { cbase with controlEnabled := true } ≠ sigOf .shellCommand { cbase with controlEnabled := false } := by decide
-- … but not under an explicit signature, which replaces the built-in strategy
example : sigOf .shellCommand { cbase with signatureData := [115], workingDirectory := [47, 97] } =
          sigOf .shellCommand { cbase with signatureData := [115], workingDirectory := [47, 98] } := by decide
example : sigOf .clangShellCommand { cbase with depsPath := [97] } ≠ sigOf .clangShellCommand { cbase with depsPath := [98] } := by decide
example : sigOf .clangShellCommand { cbase with args := [[99], [100]], depsPath := [] } ≠
          sigOf .clangShellCommand { cbase with args := [[99]], depsPath := [100] } := by decide
example : sigOf .sharedLibraryShellCommand { cbase with compilerStyle := [99, 108] } ≠
          sigOf .sharedLibraryShellCommand { cbase with compilerStyle := [99, 108, 97, 110, 103] } := by decide
example : sigOf .sharedLibraryShellCommand { cbase with compilerStyle := [], otherArgs := [[120]] } ≠
          sigOf .sharedLibraryShellCommand { cbase with compilerStyle := [120], otherArgs := [] } := by decide
example : sigOf .swiftCompilerShellCommand { cbase with enableWholeModuleOptimization := true } ≠ sigOf .swiftCompilerShellCommand cbase := by decide
example : sigOf .swiftCompilerShellCommand { cbase with numThreads := [52] } ≠ sigOf .swiftCompilerShellCommand cbase := by decide

end LLBuild.Signature
