/-
C19 (Ninja-lexer part) — No input file can crash, hang or over-read a parser.

"For every byte string given as a Ninja manifest [...] loading terminates, reads no memory outside the
supplied buffer [...].  Tokens produced by the Ninja lexer tile the input without gaps or overlap, and
end-of-file is reported only at the true end of the buffer."

Property theorems only.  Model: LLBuild/Model/NinjaLexer.lean (hand-written index-level model of
lib/Ninja/Lexer.cpp in which every buffer read is bounds-checked with an explicit `oob` outcome and every
loop carries fuel with an explicit `fuel` outcome; corresponded against the real lexer under ASan/UBSan).
Tables and flags: LLBuild/Generated/NinjaLexerTables.lean (extracted on every run).

The theorems are about `genCfg`, the configuration read off the source tree NOW.  `genCfg_ok` is where the
extracted facts enter: it fails to check when `peekNextChar` widens a signed `char` (F6), when the
`$` look-ahead guards are pointer inequalities (F13), or when a keyword's memcmp length differs from its
literal's length (F5).  `legacyCfg` is the code before those repairs; the `legacy_*` theorems are the
kernel-checked witnesses that the full statements are false of it.
-/
import LLBuild.Lemmas.NinjaLexer

namespace LLBuild.NinjaLexer
open LLBuild.Generated.NinjaLexer (Kind KwEntry Guard)

/-- The side conditions on the extracted tables/flags, decided on what the extractor produced. -/
theorem genCfg_ok : CfgOK genCfg where
  peek := by decide
  gLF := by decide
  gCRLF := by decide
  identEOF := by decide
  kwLens := by unfold KwLensOK; decide
  kwKinds := by decide
  fallbackKind := by decide
  kwLitUnique := by decide
  kwKindUnique := by decide
  kwNotFallback := by decide

/-! ### Full statements (as predicates of the configuration, so that they can be refuted for `legacyCfg`) -/

/-- "reads no memory outside the supplied buffer": lexing any byte string in any sequence of modes never
performs a read outside `[0, size)`. -/
def C19_no_oob_full (cfg : Cfg) : Prop :=
  ∀ (buf : Bytes) (modeAt : Nat → LexMode) (i : Nat), lexAll cfg buf modeAt ≠ .oob i

/-- "tokens tile the input without gaps or overlap, end-of-file only at the true end" -/
def C19_tokens_tile_full (cfg : Cfg) : Prop :=
  ∀ (buf : Bytes) (modeAt : Nat → LexMode), ∃ toks, lexAll cfg buf modeAt = .ok toks ∧ Tiles buf.length 0 toks

/-- One `lex` call from ANY in-bounds cursor, in any mode: it returns (no over-read, every loop finishes
within `size + 1` iterations), the token starts at or after the cursor, ends where the new cursor is, and
the new cursor is in bounds again (so the statement applies to the next call, whatever mode the parser
selects then). -/
theorem C19_ninja_lex_call_total (buf : Bytes) (m : LexMode) (s : St) (hs : s.pos ≤ buf.length) :
    ∃ tok s', lex genCfg buf m s = .ok (tok, s') ∧
      s.pos ≤ tok.start ∧ tok.start + tok.len = s'.pos ∧ s'.pos ≤ buf.length := by
  obtain ⟨r, hr, hge, hp⟩ := Res.sat_elim (lex_sat genCfg_ok buf m s hs)
  exact ⟨r.1, r.2, hr, hge, hp.end_eq, hp.end_le⟩

/-- Tokens returned by successive `lex` calls — each together with the whitespace / `$`-newline
continuations skipped in front of it — partition `[0, size)` in order without gaps or overlap; every
token before the last is non-empty and not `EndOfFile`; the last is the `EndOfFile` token, at `size`. -/
theorem C19_tokens_tile : C19_tokens_tile_full genCfg := by
  intro buf modeAt
  exact Res.sat_elim (lexAll_sat genCfg_ok buf modeAt)

/-- For every byte string and every sequence of lexing modes, no read leaves the buffer. -/
theorem C19_ninja_lex_no_oob : C19_no_oob_full genCfg := by
  intro buf modeAt i h
  obtain ⟨toks, ht, _⟩ := C19_tokens_tile buf modeAt
  rw [h] at ht
  cases ht

/-- Termination: no loop of the lexer runs more than `size + 1` times and at most `size + 1` tokens are
produced (the fuel every loop is given is never exhausted). -/
theorem C19_ninja_lex_terminates (buf : Bytes) (modeAt : Nat → LexMode) : lexAll genCfg buf modeAt ≠ .fuel := by
  intro h
  obtain ⟨toks, ht, _⟩ := C19_tokens_tile buf modeAt
  rw [h] at ht
  cases ht

/-- "end-of-file is reported only at the true end of the buffer": whenever a `lex` call (any mode, any
in-bounds cursor) returns `EndOfFile`, the token sits at `size` and is empty; and every other token is
non-empty. -/
theorem C19_eof_only_at_end (buf : Bytes) (m : LexMode) (s s' : St) (tok : Token) (hs : s.pos ≤ buf.length)
    (h : lex genCfg buf m s = .ok (tok, s')) :
    (tok.kind = .EndOfFile → tok.start = buf.length ∧ tok.len = 0) ∧ (tok.kind ≠ .EndOfFile → 0 < tok.len) := by
  have hp := (Res.sat_of_eq (lex_sat genCfg_ok buf m s hs) h).2
  exact ⟨hp.eof, hp.progress⟩

/-! ### The statements are false of the code before the repairs (witnesses, kernel-evaluated) -/

/-- F13: `x $` — with the guard `bufferPos + 2 != buffer.end()` the look-ahead reads index 3 of a 3-byte buffer. -/
theorem legacy_over_read : ¬ C19_no_oob_full legacyCfg :=
  fun h => h [120, 32, 36] (fun _ => .none) 3 (by decide)

/-- F6: `a\xFFb` — with a sign-extending `peekNextChar`, byte 0xFF is the EOF sentinel: `EndOfFile` at offset 1 of 3. -/
theorem legacy_eof_inside : lexAll legacyCfg [97, 255, 98] (fun _ => .none) =
    .ok [⟨.Identifier, 0, 1, 1, 0⟩, ⟨.EndOfFile, 1, 0, 1, 1⟩] := by decide

theorem legacy_not_tiling : ¬ C19_tokens_tile_full legacyCfg := by
  intro h
  obtain ⟨toks, ht, hT⟩ := h [97, 255, 98] (fun _ => .none)
  rw [legacy_eof_inside] at ht
  cases ht
  simp [Tiles] at hT

/-! ### Non-vacuity: the same inputs on the current code, and a manifest fragment through all four modes -/

-- `x $` : Identifier, then `$` (not followed by a newline) is lexed normally: Unknown
example : lexAll genCfg [120, 32, 36] (fun _ => .none) =
    .ok [⟨.Identifier, 0, 1, 1, 0⟩, ⟨.Unknown, 2, 1, 1, 2⟩, ⟨.EndOfFile, 3, 0, 1, 3⟩] := by decide
-- `a\xFFb` : the high byte is an ordinary (Unknown) one-byte token, EndOfFile at 3
example : lexAll genCfg [97, 255, 98] (fun _ => .none) =
    .ok [⟨.Identifier, 0, 1, 1, 0⟩, ⟨.Unknown, 1, 1, 1, 1⟩, ⟨.Identifier, 2, 1, 1, 2⟩, ⟨.EndOfFile, 3, 0, 1, 3⟩] := by decide
example : Tiles 3 0 [⟨.Identifier, 0, 1, 1, 0⟩, ⟨.Unknown, 1, 1, 1, 1⟩, ⟨.Identifier, 2, 1, 1, 2⟩, ⟨.EndOfFile, 3, 0, 1, 3⟩] := by
  simp [Tiles]
-- `a $\r\n b` in mode None: the CRLF continuation and the blanks are trivia of the second identifier
example : lexAll genCfg [97, 32, 36, 13, 10, 32, 98] (fun _ => .none) =
    .ok [⟨.Identifier, 0, 1, 1, 0⟩, ⟨.Identifier, 6, 1, 2, 1⟩, ⟨.EndOfFile, 7, 0, 2, 2⟩] := by decide
-- `o$ p: r` with modes None, PathString, PathString, ... : `$ ` is an escape inside the path string
example : lexAll genCfg [111, 36, 32, 112, 58, 32, 114] (cycle [.pathString]) =
    .ok [⟨.String, 0, 4, 1, 0⟩, ⟨.Colon, 4, 1, 1, 4⟩, ⟨.String, 6, 1, 1, 6⟩, ⟨.EndOfFile, 7, 0, 1, 7⟩] := by decide
-- `v = a$\n b\n` second token on in VariableString mode: the escaped newline does not end the string
example : lexAll genCfg [118, 61, 97, 36, 10, 32, 98, 10] (cycle [.none, .none, .variableString]) =
    .ok [⟨.Identifier, 0, 1, 1, 0⟩, ⟨.Equals, 1, 1, 1, 1⟩, ⟨.String, 2, 5, 1, 2⟩, ⟨.Newline, 7, 1, 2, 2⟩,
         ⟨.EndOfFile, 8, 0, 3, 0⟩] := by decide

end LLBuild.NinjaLexer
