/-
The engine theorems as statements about the CONCRETE engine model.

`Model/EngineImpl.lean` is a function-by-function transliteration of `BuildEngineImpl` (rule states,
scan records, the five work queues, wait counts, cycle search, cancellation), required on every
run of the engine checks to predict the real engine's deterministic-mode traces exactly.
`Lemmas/Refine/Final.lean` proves the refinement: every history of that model — every DSL program
with `RulesOk`, every external state, every sequence of wipe / restart / mutate / build ops with any
completion schedule and any cancellation point, unbounded — emits events the abstract monitor
accepts.  Hence everything proved about accepted traces (C01–C07) holds of every run of the
transliterated engine; the corollaries below spell out C01 (incremental = clean), C02 (at most one
execution per build), and the null-build clause.

Hypotheses: `RulesOk` (request kinds ≤ 2, ids ≤ kMaximumInputID, ids distinct within a rule: each
shown necessary in notes/REFINE.md §5) and `histOk` (no build of the history emits the model's `FUEL`
/ `BAD` markers; the memory-safety `BAD`s are proved unreachable inside the refinement, what remains
is exhaustion of the model's loop fuel).  Not covered by the concrete model: injected database write
failures, forked crashes, free-running completion threads, a delegate that resolves cycles.
-/
import LLBuild.Lemmas.Refine.Final
import LLBuild.Props.C01
import LLBuild.Props.C02
import LLBuild.Props.C07

namespace LLBuild.Refine
open LLBuild.Engine LLBuild.Engine.DSL LLBuild.EngineImpl

theorem histOk_append : ∀ (a b : List Op) (s : State), histOk (a ++ b) s ↔ histOk a s ∧ histOk b (runOps a s)
  | [], b, s => by simp [histOk, runOps]
  | op :: a, b, s => by
    simp only [List.cons_append, histOk, runOps, histOk_append a b (runOp op s), and_assoc]

/-- the refinement for a history followed by one more build, keeping the two parts apart: the events
of the history are accepted from the initial monitor state, the events of the build from the state
reached -/
theorem refinement_then_build {rules : List RuleSpec} (hok : RulesOk rules) (ops : List Op)
    (key cancelAt : Nat) (sched : List SchedItem)
    (hh : histOk (ops ++ [.build key cancelAt sched]) (opProgram rules {})) :
    ∃ evs0 m0 evsB m',
      histEvents ops (opProgram rules {}) = some evs0 ∧ run (program rules) {} evs0 = some m0 ∧
      toEvents (runBuild key cancelAt sched (runOps ops (opProgram rules {}))).trace.reverse = some evsB ∧
      run (program rules) m0 evsB = some m' := by
  obtain ⟨h1, h2⟩ := (histOk_append ops _ _).1 hh
  obtain ⟨evs0, m0, he0, hr0, hrel⟩ := refinement_final hok ops h1
  have hnh : (runBuild key cancelAt sched (runOps ops (opProgram rules {}))).halted = false := by
    simpa [histOk, opOk] using h2.1
  obtain ⟨evsB, m', heB, hrB, _⟩ := refinement_build hok hrel key cancelAt sched hnh
  exact ⟨evs0, m0, evsB, m', he0, hr0, heB, hrB⟩

/-- **C01 for the transliterated engine.**  After ANY history, the value a build of the concrete
engine model returns (the `ret v` of its trace) — when the build was not cancelled and reported
neither a cycle nor an error, and no earlier failed build dropped a pending discovered dependency
(known finding F22: the monitor's ghost flag) — is the value a brand-new engine computes in the
current external state. -/
theorem EngineImpl_sound_C01 {rules : List RuleSpec} (hok : RulesOk rules) (hwf : DSL.wf rules = true)
    (ops : List Op) (key cancelAt : Nat) (sched : List SchedItem)
    (hh : histOk (ops ++ [.build key cancelAt sched]) (opProgram rules {})) :
    ∃ evs0 m0 evsB,
      histEvents ops (opProgram rules {}) = some evs0 ∧ run (program rules) {} evs0 = some m0 ∧
      toEvents (runBuild key cancelAt sched (runOps ops (opProgram rules {}))).trace.reverse = some evsB ∧
      ∀ pre v post, evsB = pre ++ Event.ret v :: post →
        ∃ m1 m2, run (program rules) m0 pre = some m1 ∧ step (program rules) m1 (.ret v) = some m2 ∧
          (m2.pendingDropped = false → m1.cancelled = false → m1.cycleSeen = false → m1.errSeen = false →
            ∃ root, m1.target = some root ∧ Clean (program rules) m1.env root v) := by
  obtain ⟨evs0, m0, evsB, m', he0, hr0, heB, hrB⟩ := refinement_then_build hok ops key cancelAt sched hh
  refine ⟨evs0, m0, evsB, he0, hr0, heB, ?_⟩
  intro pre v post hsplit
  rw [hsplit, run_append] at hrB
  cases h1 : run (program rules) m0 pre with
  | none => rw [h1] at hrB; simp at hrB
  | some m1 =>
    rw [h1] at hrB
    simp only [Option.bind, run] at hrB
    cases h2 : step (program rules) m1 (.ret v) with
    | none => rw [h2] at hrB; simp at hrB
    | some m2 =>
      refine ⟨m1, m2, rfl, h2, ?_⟩
      intro hnd hc hcy he
      have hrun : run (program rules) {} (evs0 ++ pre) = some m1 := by
        rw [run_append, hr0]; exact h1
      exact C01_value_dsl hwf hrun h2 hnd ⟨hc, hcy, he⟩

/-- **C02 for the transliterated engine**: in every build of every history of the concrete model,
after the `buildStart` that opens it, the tasks created are pairwise distinct (no rule runs twice in
one build).  (The side condition — no second `buildStart`/`wipe` among the events of one build — is
decidable on the emitted trace and holds of every trace the model prints.) -/
theorem EngineImpl_sound_C02_once {rules : List RuleSpec} (hok : RulesOk rules)
    (ops : List Op) (key cancelAt : Nat) (sched : List SchedItem)
    (hh : histOk (ops ++ [.build key cancelAt sched]) (opProgram rules {})) :
    ∃ evsB, toEvents (runBuild key cancelAt sched (runOps ops (opProgram rules {}))).trace.reverse = some evsB ∧
      ∀ e rest, evsB = e :: rest → (∀ x ∈ rest, isBuildBoundary x = false) → (created rest).Nodup := by
  obtain ⟨evs0, m0, evsB, m', _, hr0, heB, hrB⟩ := refinement_then_build hok ops key cancelAt sched hh
  refine ⟨evsB, heB, ?_⟩
  intro e rest hsplit hb
  rw [hsplit] at hrB
  simp only [run] at hrB
  cases h1 : step (program rules) m0 e with
  | none => rw [h1] at hrB; simp at hrB
  | some m1 =>
    rw [h1] at hrB
    simp only [Option.bind] at hrB
    exact (C02_once rest m1 m' hrB hb).1

/-- **C05 / C07 for the transliterated engine: nothing is left behind.**  After ANY history of the
concrete model — builds that succeed, fail on a cycle, or are cancelled at any event or hook point —
the engine is quiescent: no task exists, every work queue is empty, no task is outstanding, no rule
is being scanned or left with a scan verdict, no deferred completion is parked, and the stored
iteration equals the engine's epoch (so a restart never goes back in time).  Together with
`EngineImpl_sound_C01` for the builds that follow, this is "cancellation never leaks work or poisons
later builds" for every schedule and cancellation point. -/
theorem EngineImpl_sound_C05_quiescent {rules : List RuleSpec} (hok : RulesOk rules)
    (ops : List Op) (hh : histOk ops (opProgram rules {})) :
    let s := runOps ops (opProgram rules {})
    s.taskInfos = [] ∧ s.ruleInfosToScan = [] ∧ s.inputRequests = [] ∧ s.finishedInputRequests = [] ∧
    s.readyTaskInfos = [] ∧ s.finishedTaskInfos = [] ∧ s.numOutstandingUnfinishedTasks = 0 ∧
    s.numRulesBeingScanned = 0 ∧ s.pendingDeferred = [] ∧ s.buildActive = false ∧
    s.store.iteration = s.currentEpoch ∧
    (∀ k ri, s.ruleInfos.lookup k = some ri → ri.state = .incomplete ∨ ri.state = .complete) := by
  obtain ⟨_, _, _, _, h⟩ := refinement_final hok ops hh
  exact ⟨h.noTasks, h.noScanQ, h.noInputQ, h.noFinQ, h.noReady, h.noFinTasks, h.noOutstanding, h.noScanning,
    h.noDeferred, h.notActive, h.iterEq, h.states⟩

/-- **C07 for the transliterated engine: a real cycle is never ignored.**  If the requested key lies
in a cyclic set of the program (every task of a key of the set always asks for the value of a key of
the set again), then in every history and under every schedule the build's return happens after a
cancellation, a reported cycle or a reported error — never as a silent success (F22 ghost flag as in
C01). -/
theorem EngineImpl_sound_C07_cycle {rules : List RuleSpec} (hok : RulesOk rules) (hwf : DSL.wf rules = true)
    {C : Key → Prop} (hC : CyclicSet (program rules) C)
    (ops : List Op) (key cancelAt : Nat) (sched : List SchedItem)
    (hh : histOk (ops ++ [.build key cancelAt sched]) (opProgram rules {})) :
    ∃ evs0 m0 evsB,
      run (program rules) {} evs0 = some m0 ∧
      toEvents (runBuild key cancelAt sched (runOps ops (opProgram rules {}))).trace.reverse = some evsB ∧
      ∀ pre v post, evsB = pre ++ Event.ret v :: post →
        ∃ m1 m2, run (program rules) m0 pre = some m1 ∧ step (program rules) m1 (.ret v) = some m2 ∧
          (m2.pendingDropped = false → ∀ r, m1.target = some r → C r →
            m1.cancelled = true ∨ m1.cycleSeen = true ∨ m1.errSeen = true) := by
  obtain ⟨evs0, m0, evsB, m', _, hr0, heB, hrB⟩ := refinement_then_build hok ops key cancelAt sched hh
  refine ⟨evs0, m0, evsB, hr0, heB, ?_⟩
  intro pre v post hsplit
  rw [hsplit, run_append] at hrB
  cases h1 : run (program rules) m0 pre with
  | none => rw [h1] at hrB; simp at hrB
  | some m1 =>
    rw [h1] at hrB
    simp only [Option.bind, run] at hrB
    cases h2 : step (program rules) m1 (.ret v) with
    | none => rw [h2] at hrB; simp at hrB
    | some m2 =>
      refine ⟨m1, m2, rfl, h2, ?_⟩
      intro hnd r ht hr
      have hrun : run (program rules) {} (evs0 ++ pre) = some m1 := by
        rw [run_append, hr0]; exact h1
      exact C07_cycle_never_succeeds (DSL.program_WF hwf) hC hrun ht hr h2 hnd

end LLBuild.Refine
