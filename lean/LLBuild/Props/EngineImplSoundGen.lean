/-
C01 for the CONCRETE engine model over histories in which the BUILD DESCRIPTION IS EDITED.

`Props/EngineImplSound.lean` states C01–C07 about every run of the transliterated engine
(`Model/EngineImpl.lean`) for a FIXED DSL program.  `Props/C01Gen.lean` proves C01 for the abstract monitor
over program GENERATIONS (`runG`, `reprogram`).  `Lemmas/Refine/Gen.lean` extends the refinement to the harness
op `P` in the middle of a history (a new rule list and a new engine on the same database):
`refinement_history_gen`.  Here the three are combined: after ANY history of wipe / restart / mutate / build
/ PROGRAM ops, under any completion schedule and any cancellation point, the value a non-failed build of the
concrete engine model returns is the value a brand-new engine computes for the CURRENT description in the
current external state.

Client obligations (`Lemmas/Engine/Generations.lean`):
* `SelfStable` holds of EVERY list of DSL programs (`PPof_SelfStable`): a DSL input rule always reads the
  external state at its own key.  No hypothesis.
* `SigCovers` (equal signatures ⇒ equal task) is a genuine obligation.  The DSL signature of rule `k` is
  `sigBase + env (SIG_OFFSET + k)`, the second summand an ARBITRARY natural number, so over ALL external
  states two different `sigBase`s can always be compensated: `SigCovers (PPof rs)` holds iff no key ever
  changes its task (`tasksFixed`, decidable; `PPof_SigCovers_fixed`) — edits may then only change `sigBase`,
  `validMode/validArg`, `force`, `deferred`.  `EngineImpl_sound_C01_gen` therefore takes `SigCovers` itself as
  hypothesis, and `EngineImpl_sound_C01_gen_bounded` gives the version with DECIDABLE hypotheses for real
  edits: if the history keeps every external slot `≥ SIG_OFFSET` at a value `≤ B` (`mutBounded B`: a
  condition on the `M` ops) and whenever two installed rule lists give a key different tasks their signature
  ranges `[sigBase, sigBase + B]` are disjoint (`sigSeparated B`), then the conclusion holds.  It goes
  through `C01_value_gen_clamp`: `SigCovers` is only needed at the external states a history visits.

Other hypotheses, as in `EngineImpl_sound_C01`: `RulesOk` and `DSL.wf` of every installed rule list, `ghistOk`
(no build emits `FUEL`/`BAD`), `pendingDropped = false` (F22 ghost flag) and no cancellation / cycle / error
in the build whose value is judged.
-/
import LLBuild.Lemmas.Refine.Gen
import LLBuild.Props.C01Gen

set_option linter.unusedVariables false

namespace LLBuild.Engine

/-- **C01_value_gen_clamp.**  `C01_value_gen` with the client obligation `SigCovers` restricted to the
external states the history can visit: `c` is a clamp that fixes the initial external state and every
state a `mutate` of the history leads to (`MutOk`); signatures then need to cover the task definitions
only at clamped external states, and only for rules that can accept a stored value
(`SigCoversValid (clampPP c PP)`; `SigCovers (clampPP c PP)` implies it, `SigCovers.toWeak`). -/
theorem C01_value_gen_clamp {c : Env → Env} (h0 : c (fun _ => 0) = fun _ => 0) {PP : Nat → Program}
    (hC : SigCoversValid (clampPP c PP)) (hS : SelfStable PP) {evs : List GEvent} {g0 : Nat}
    {s s' : St} {g : Nat} {v : Val}
    (hrun : runG PP ({}, g0) evs = some (s, g)) (hmut : ∀ e ∈ evs, MutOk c e)
    (hret : step (PP g) s (.ret v) = some s') (hnd : s'.pendingDropped = false)
    (hok : s.cancelled = false ∧ s.cycleSeen = false ∧ s.errSeen = false) :
    ∃ root, s.target = some root ∧ Clean (PP g) s.env root v := by
  obtain ⟨h1, h2⟩ := runG_clamp h0 evs _ _ hrun h0 hmut
  have hret' : step (clampPP c PP g) s (.ret v) = some s' := by rw [step_clampPP h2]; exact hret
  have hS' : SelfStable (clampPP c PP) := fun g g' d env a b => hS g g' d env a b
  obtain ⟨root, ht, hcl⟩ := C01_value_gen hC hS' h1 hret' hnd hok
  exact ⟨root, ht, hcl.withSig⟩

end LLBuild.Engine

/-! ## The client obligations for lists of DSL programs -/

namespace LLBuild.Engine.DSL
open LLBuild.Refine

deriving instance DecidableEq for Cond

/-- the two rules define the same task: everything `next`, `disc` and `out` of `DSL.program` read besides the key -/
def SameTask (a b : RuleSpec) : Prop :=
  a.kind = b.kind ∧ a.vmod = b.vmod ∧ a.statics = b.statics ∧ a.whens = b.whens ∧ a.discs = b.discs

instance (a b : RuleSpec) : Decidable (SameTask a b) := by unfold SameTask; infer_instance

theorem SameTask.program {r r' : List RuleSpec} {k : Key} (h : SameTask (specOf r k) (specOf r' k)) :
    (program r).next k = (program r').next k ∧ (program r).disc k = (program r').disc k ∧
    ∀ e rc, (program r).out k e rc = (program r').out k e rc := by
  obtain ⟨h1, h2, h3, h4, h5⟩ := h
  have hk : (specOf r k).key = (specOf r' k).key := by rw [specOf_key, specOf_key]
  refine ⟨?_, ?_, ?_⟩
  · funext rc; show nextReqs _ rc = nextReqs _ rc; simp only [nextReqs, h3, h4]
  · funext rc; show discKeys _ rc = discKeys _ rc; simp only [discKeys, h5]
  · intro e rc; show outValue _ e rc = outValue _ e rc; unfold outValue discKeys; rw [h1, h2, h5, hk]

/-- **`SelfStable` holds of every list of DSL programs**: an input rule reads `env key` in every generation -/
theorem PPof_SelfStable (rs : List (List RuleSpec)) : SelfStable (PPof rs) := by
  intro g g' d env hs hs'
  have a : ((specOf (genRules rs g) d).kind == 0) = true := hs
  have b : ((specOf (genRules rs g') d).kind == 0) = true := hs'
  show outValue (specOf (genRules rs g) d) env [] = outValue (specOf (genRules rs g') d) env []
  simp only [outValue, a, b, if_true, specOf_key]

/-- the keys some installed rule list defines -/
def keysOf (rs : List (List RuleSpec)) : List Key := rs.flatMap (fun r => r.map (fun s => s.key))

theorem specOf_default {rules : List RuleSpec} {k : Key} (h : ∀ s ∈ rules, s.key ≠ k) :
    specOf rules k = { key := k, kind := 0 } := by
  unfold specOf
  rw [List.find?_eq_none.2 (by intro s hs; simpa using h s hs)]

theorem specOf_default_of_not_keysOf {rs : List (List RuleSpec)} {k : Key} (hk : k ∉ keysOf rs)
    {r : List RuleSpec} (hr : r ∈ rs) : specOf r k = { key := k, kind := 0 } :=
  specOf_default (fun s hs e => hk (List.mem_flatMap.2 ⟨r, hr, List.mem_map.2 ⟨s, hs, e⟩⟩))

/-- DECIDABLE: no key changes its task between two installed rule lists (edits change `sigBase`,
`validMode`, `validArg`, `force`, `deferred` only) -/
def tasksFixed (rs : List (List RuleSpec)) : Bool :=
  rs.all fun r => rs.all fun r' => (keysOf rs).all fun k => decide (SameTask (specOf r k) (specOf r' k))

theorem tasksFixed_at {rs : List (List RuleSpec)} (h : tasksFixed rs = true) {r r' : List RuleSpec}
    (hr : r ∈ rs) (hr' : r' ∈ rs) (k : Key) : SameTask (specOf r k) (specOf r' k) := by
  by_cases hk : k ∈ keysOf rs
  · simp only [tasksFixed, List.all_eq_true, decide_eq_true_eq] at h
    exact h r hr r' hr' k hk
  · rw [specOf_default_of_not_keysOf hk hr, specOf_default_of_not_keysOf hk hr']
    exact ⟨rfl, rfl, rfl, rfl, rfl⟩

/-- `SigCovers` over ALL external states: sufficient (and, the signature slot being an arbitrary number,
also necessary up to `next/disc/out`-equivalence) is that no key changes its task -/
theorem PPof_SigCovers_fixed {rs : List (List RuleSpec)} (hne : rs ≠ []) (hwf : ∀ r ∈ rs, wf r = true)
    (hfix : tasksFixed rs = true) : SigCovers (PPof rs) :=
  ⟨fun g => program_WF (hwf _ (genRules_mem hne g)),
   fun g g' k _ _ _ => (tasksFixed_at hfix (genRules_mem hne g) (genRules_mem hne g') k).program⟩

/-- … and conversely: over ALL external states `SigCovers` of DSL programs FORCES every key to have the same
`next`/`disc`/`out` in all generations, whatever the signature bases — the signature slot `env (SIG_OFFSET + k)`
can compensate any difference of `sigBase`.  (This is why `EngineImpl_sound_C01_gen_bounded` bounds the slots.) -/
theorem PPof_SigCovers_forces {rs : List (List RuleSpec)} (h : SigCovers (PPof rs)) (g g' : Nat) (k : Key) :
    (PPof rs g).next k = (PPof rs g').next k ∧ (PPof rs g).disc k = (PPof rs g').disc k ∧
    ∀ e rc, (PPof rs g).out k e rc = (PPof rs g').out k e rc := by
  refine h.covers g g' k (fun _ => (specOf (genRules rs g') k).sigBase) (fun _ => (specOf (genRules rs g) k).sigBase) ?_
  simp only [PPof, program, sigOf]; omega

/-- the two rules have the same task or signature bases more than `B` apart -/
def SepAt (B : Nat) (a b : RuleSpec) : Prop :=
  SameTask a b ∨ a.sigBase + B < b.sigBase ∨ b.sigBase + B < a.sigBase

instance (B : Nat) (a b : RuleSpec) : Decidable (SepAt B a b) := by unfold SepAt; infer_instance

/-- DECIDABLE: whenever two installed rule lists give a key different tasks, the signature ranges
`[sigBase, sigBase + B]` of the key in the two lists are disjoint -/
def sigSeparated (B : Nat) (rs : List (List RuleSpec)) : Bool :=
  rs.all fun r => rs.all fun r' => (keysOf rs).all fun k => decide (SepAt B (specOf r k) (specOf r' k))

theorem sigSeparated_at {B : Nat} {rs : List (List RuleSpec)} (h : sigSeparated B rs = true) {r r' : List RuleSpec}
    (hr : r ∈ rs) (hr' : r' ∈ rs) (k : Key) : SepAt B (specOf r k) (specOf r' k) := by
  by_cases hk : k ∈ keysOf rs
  · simp only [sigSeparated, List.all_eq_true, decide_eq_true_eq] at h
    exact h r hr r' hr' k hk
  · rw [specOf_default_of_not_keysOf hk hr, specOf_default_of_not_keysOf hk hr']
    exact Or.inl ⟨rfl, rfl, rfl, rfl, rfl⟩

/-- the external state with every slot from `SIG_OFFSET` on cut off at `B` -/
def clampSig (B : Nat) (env : Env) : Env := fun i => if SIG_OFFSET ≤ i then min (env i) B else env i

theorem clampSig_zero (B : Nat) : clampSig B (fun _ => 0) = fun _ => 0 := by
  funext i; simp [clampSig]

theorem clampSig_le (B : Nat) (env : Env) (k : Key) : clampSig B env (SIG_OFFSET + k) ≤ B := by
  simp only [clampSig, Nat.le_add_right, if_true]; exact Nat.min_le_right _ _

theorem clampSig_upd {B a b : Nat} (h : a < SIG_OFFSET ∨ b ≤ B) {env : Env} (hc : clampSig B env = env) :
    clampSig B (upd env a b) = upd env a b := by
  funext i
  have hi := congrFun hc i
  simp only [clampSig, upd] at hi ⊢
  by_cases e : i = a
  · subst e
    simp only [if_true]
    split
    · rcases h with h | h
      · omega
      · exact Nat.min_eq_left h
    · rfl
  · simp only [e, if_false]; exact hi

/-- **`SigCovers` at bounded signature slots** from the decidable separation condition -/
theorem PPof_SigCovers_clamp {B : Nat} {rs : List (List RuleSpec)} (hne : rs ≠ []) (hwf : ∀ r ∈ rs, wf r = true)
    (hsep : sigSeparated B rs = true) : SigCovers (clampPP (clampSig B) (PPof rs)) := by
  refine ⟨fun g => (program_WF (hwf _ (genRules_mem hne g))).withSig _, ?_⟩
  intro g g' k env env' h
  have h' : (specOf (genRules rs g) k).sigBase + clampSig B env (SIG_OFFSET + k) =
      (specOf (genRules rs g') k).sigBase + clampSig B env' (SIG_OFFSET + k) := by
    have h2 : sigOf (specOf (genRules rs g) k) (clampSig B env) = sigOf (specOf (genRules rs g') k) (clampSig B env') := h
    simpa only [sigOf, specOf_key] using h2
  have b1 := clampSig_le B env k
  have b2 := clampSig_le B env' k
  rcases sigSeparated_at hsep (genRules_mem hne g) (genRules_mem hne g') k with hs | hlt | hlt
  · exact hs.program
  · omega
  · omega

end LLBuild.Engine.DSL

namespace LLBuild.Refine
open LLBuild.Engine LLBuild.Engine.DSL LLBuild.EngineImpl

/-- DECIDABLE: an `M slot val` op with `slot ≥ SIG_OFFSET` writes a value `≤ B` -/
def GOp.mutBounded (B : Nat) : GOp → Bool
  | .op (.mutate a b) => decide (a < SIG_OFFSET) || decide (b ≤ B)
  | _ => true

theorem GOp.mutOk_of_mutBounded {B : Nat} {o : GOp} (h : o.mutBounded B = true) : o.mutOk (clampSig B) := by
  cases o with
  | program rules => trivial
  | op o =>
    cases o with
    | mutate a b =>
      intro env hc
      simp only [GOp.mutBounded, Bool.or_eq_true, decide_eq_true_eq] at h
      exact clampSig_upd h hc
    | wipe => trivial
    | restart => trivial
    | build key cancelAt sched => trivial

/-- the refinement for a history with program changes followed by one more build, keeping the two parts
apart: the events of the history are accepted by the generation monitor from its initial state, the
events of the build by the monitor of the CURRENT rule list from the state reached -/
theorem refinement_gen_then_build (rs0 : List RuleSpec) (gops : List GOp) (key cancelAt : Nat) (sched : List SchedItem)
    (hok : ∀ r ∈ installed rs0 gops, RulesOk r)
    (hh : ghistOk (gops ++ [.op (.build key cancelAt sched)]) (opProgram rs0 {})) :
    ∃ gevs0 m0 evsB m',
      ghistEvents 0 gops (opProgram rs0 {}) = some gevs0 ∧
      runG (PPof (installed rs0 gops)) ({}, 0) gevs0 = some (m0, lastGen 0 gops) ∧
      (runGOps gops (opProgram rs0 {})).rules = currentRules rs0 gops ∧
      toEvents (runBuild key cancelAt sched (runGOps gops (opProgram rs0 {}))).trace.reverse = some evsB ∧
      run (program (currentRules rs0 gops)) m0 evsB = some m' := by
  obtain ⟨h1, h2⟩ := (ghistOk_append gops _ _).1 hh
  obtain ⟨gevs0, m0, he0, hr0, hrel⟩ := refinement_history_gen rs0 gops hok h1
  have hnh : (runBuild key cancelAt sched (runGOps gops (opProgram rs0 {}))).halted = false := h2.1
  obtain ⟨evsB, m', heB, hrB, _⟩ :=
    refinement_build (RulesOk.genRules hok (lastGen 0 gops)) hrel key cancelAt sched hnh
  exact ⟨gevs0, m0, evsB, m', he0, hr0, hrel.rules_eq, heB, hrB⟩

/-- the history up to the `ret` of the last build, as one run of the generation monitor -/
theorem runG_upto_ret {rs0 : List RuleSpec} {gops : List GOp} {gevs0 : List GEvent} {m0 m' : Engine.St}
    {evsB pre post : List Event} {v : Val}
    (hr0 : runG (PPof (installed rs0 gops)) ({}, 0) gevs0 = some (m0, lastGen 0 gops))
    (hrB : run (program (currentRules rs0 gops)) m0 evsB = some m') (hsplit : evsB = pre ++ Event.ret v :: post) :
    ∃ m1 m2, run (program (currentRules rs0 gops)) m0 pre = some m1 ∧
      step (program (currentRules rs0 gops)) m1 (.ret v) = some m2 ∧
      runG (PPof (installed rs0 gops)) ({}, 0) (gevs0 ++ pre.map .ev) = some (m1, lastGen 0 gops) := by
  rw [hsplit, run_append] at hrB
  cases h1 : run (program (currentRules rs0 gops)) m0 pre with
  | none => rw [h1] at hrB; simp at hrB
  | some m1 =>
    rw [h1] at hrB
    simp only [Option.bind, run] at hrB
    cases h2 : step (program (currentRules rs0 gops)) m1 (.ret v) with
    | none => rw [h2] at hrB; simp at hrB
    | some m2 =>
      refine ⟨m1, m2, rfl, h2, ?_⟩
      rw [runG_append, hr0]
      show runG (PPof (installed rs0 gops)) (m0, lastGen 0 gops) (pre.map .ev) = _
      rw [runG_ev]
      show (run (program (currentRules rs0 gops)) m0 pre).map _ = _
      rw [h1]; rfl

/-- **C01 for the transliterated engine across description edits** (client obligation `SigCovers` as
hypothesis).  After ANY history of wipe / restart / mutate / build / program ops — every build under any
completion schedule and cancellation point — the value a build of the concrete engine model returns (the
`ret v` of its trace), when the build was not cancelled and reported neither a cycle nor an error and no
earlier failed build dropped a pending discovered dependency (F22 ghost flag), is the value a brand-new
engine computes for the CURRENT rule list (the last one installed; it is the engine's `rules`) in the
current external state.  `SelfStable` needs no hypothesis for DSL programs (`PPof_SelfStable`); `DSL.wf` of
every installed rule list is part of `SigCovers` (`Program.WF` of every generation). -/
theorem EngineImpl_sound_C01_gen (rs0 : List RuleSpec) (gops : List GOp) (key cancelAt : Nat) (sched : List SchedItem)
    (hok : ∀ r ∈ installed rs0 gops, RulesOk r)
    (hC : SigCovers (PPof (installed rs0 gops)))
    (hh : ghistOk (gops ++ [.op (.build key cancelAt sched)]) (opProgram rs0 {})) :
    ∃ gevs0 m0 evsB,
      ghistEvents 0 gops (opProgram rs0 {}) = some gevs0 ∧
      runG (PPof (installed rs0 gops)) ({}, 0) gevs0 = some (m0, lastGen 0 gops) ∧
      (runGOps gops (opProgram rs0 {})).rules = currentRules rs0 gops ∧
      toEvents (runBuild key cancelAt sched (runGOps gops (opProgram rs0 {}))).trace.reverse = some evsB ∧
      ∀ pre v post, evsB = pre ++ Event.ret v :: post →
        ∃ m1 m2, run (program (currentRules rs0 gops)) m0 pre = some m1 ∧
          step (program (currentRules rs0 gops)) m1 (.ret v) = some m2 ∧
          (m2.pendingDropped = false → m1.cancelled = false → m1.cycleSeen = false → m1.errSeen = false →
            ∃ root, m1.target = some root ∧ Clean (program (currentRules rs0 gops)) m1.env root v) := by
  obtain ⟨gevs0, m0, evsB, m', he0, hr0, hrules, heB, hrB⟩ :=
    refinement_gen_then_build rs0 gops key cancelAt sched hok hh
  refine ⟨gevs0, m0, evsB, he0, hr0, hrules, heB, ?_⟩
  intro pre v post hsplit
  obtain ⟨m1, m2, h1, h2, hrun⟩ := runG_upto_ret hr0 hrB hsplit
  refine ⟨m1, m2, h1, h2, ?_⟩
  intro hnd hc hcy he
  exact C01_value_gen hC.toWeak (PPof_SelfStable _) hrun h2 hnd ⟨hc, hcy, he⟩

/-- … with the DECIDABLE sufficient condition for `SigCovers` over all external states: no key changes its task. -/
theorem EngineImpl_sound_C01_gen_fixed (rs0 : List RuleSpec) (gops : List GOp) (key cancelAt : Nat) (sched : List SchedItem)
    (hok : ∀ r ∈ installed rs0 gops, RulesOk r) (hwf : ∀ r ∈ installed rs0 gops, DSL.wf r = true)
    (hfix : tasksFixed (installed rs0 gops) = true)
    (hh : ghistOk (gops ++ [.op (.build key cancelAt sched)]) (opProgram rs0 {})) :
    ∃ gevs0 m0 evsB,
      ghistEvents 0 gops (opProgram rs0 {}) = some gevs0 ∧
      runG (PPof (installed rs0 gops)) ({}, 0) gevs0 = some (m0, lastGen 0 gops) ∧
      (runGOps gops (opProgram rs0 {})).rules = currentRules rs0 gops ∧
      toEvents (runBuild key cancelAt sched (runGOps gops (opProgram rs0 {}))).trace.reverse = some evsB ∧
      ∀ pre v post, evsB = pre ++ Event.ret v :: post →
        ∃ m1 m2, run (program (currentRules rs0 gops)) m0 pre = some m1 ∧
          step (program (currentRules rs0 gops)) m1 (.ret v) = some m2 ∧
          (m2.pendingDropped = false → m1.cancelled = false → m1.cycleSeen = false → m1.errSeen = false →
            ∃ root, m1.target = some root ∧ Clean (program (currentRules rs0 gops)) m1.env root v) :=
  EngineImpl_sound_C01_gen rs0 gops key cancelAt sched hok
    (PPof_SigCovers_fixed (List.cons_ne_nil _ _) hwf hfix) hh

/-- **C01 for the transliterated engine across description edits that CHANGE TASKS, all hypotheses
decidable.**  `B` bounds the signature slots: every `M slot val` op of the history with `slot ≥ SIG_OFFSET`
has `val ≤ B` (`mutBounded`), and whenever two installed rule lists give a key different tasks (kind,
requests, conditional requests, discovered dependencies, value modulus) the key's signature ranges
`[sigBase, sigBase + B]` in the two lists are disjoint (`sigSeparated`) — the description edit moves the
signature by a step no external state of the history can compensate.  Then the conclusion of
`EngineImpl_sound_C01_gen` holds. -/
theorem EngineImpl_sound_C01_gen_bounded (B : Nat) (rs0 : List RuleSpec) (gops : List GOp) (key cancelAt : Nat)
    (sched : List SchedItem)
    (hok : ∀ r ∈ installed rs0 gops, RulesOk r) (hwf : ∀ r ∈ installed rs0 gops, DSL.wf r = true)
    (hsep : sigSeparated B (installed rs0 gops) = true) (hmut : ∀ o ∈ gops, o.mutBounded B = true)
    (hh : ghistOk (gops ++ [.op (.build key cancelAt sched)]) (opProgram rs0 {})) :
    ∃ gevs0 m0 evsB,
      ghistEvents 0 gops (opProgram rs0 {}) = some gevs0 ∧
      runG (PPof (installed rs0 gops)) ({}, 0) gevs0 = some (m0, lastGen 0 gops) ∧
      (runGOps gops (opProgram rs0 {})).rules = currentRules rs0 gops ∧
      toEvents (runBuild key cancelAt sched (runGOps gops (opProgram rs0 {}))).trace.reverse = some evsB ∧
      ∀ pre v post, evsB = pre ++ Event.ret v :: post →
        ∃ m1 m2, run (program (currentRules rs0 gops)) m0 pre = some m1 ∧
          step (program (currentRules rs0 gops)) m1 (.ret v) = some m2 ∧
          (m2.pendingDropped = false → m1.cancelled = false → m1.cycleSeen = false → m1.errSeen = false →
            ∃ root, m1.target = some root ∧ Clean (program (currentRules rs0 gops)) m1.env root v) := by
  obtain ⟨gevs0, m0, evsB, m', he0, hr0, hrules, heB, hrB⟩ :=
    refinement_gen_then_build rs0 gops key cancelAt sched hok hh
  refine ⟨gevs0, m0, evsB, he0, hr0, hrules, heB, ?_⟩
  intro pre v post hsplit
  obtain ⟨m1, m2, h1, h2, hrun⟩ := runG_upto_ret hr0 hrB hsplit
  refine ⟨m1, m2, h1, h2, ?_⟩
  intro hnd hc hcy he
  have hm : ∀ e ∈ gevs0 ++ pre.map GEvent.ev, MutOk (clampSig B) e := by
    intro e hmem
    rcases List.mem_append.1 hmem with hmem | hmem
    · exact ghistEvents_mutOk gops 0 _ gevs0 he0 (fun o ho => GOp.mutOk_of_mutBounded (hmut o ho)) e hmem
    · obtain ⟨x, hx, rfl⟩ := List.mem_map.1 hmem
      exact MutOk.of_noMutate _ (toEvents_noMutate heB x (by rw [hsplit]; exact List.mem_append_left _ hx))
  exact C01_value_gen_clamp (clampSig_zero B) (PPof_SigCovers_clamp (List.cons_ne_nil _ _) hwf hsep).toWeak
    (PPof_SelfStable _) hrun hm h2 hnd ⟨hc, hcy, he⟩

/-! ## Non-vacuity: two generations of a small description, a concrete history -/

namespace ImplGenExample

/-- generation 0: input rule 1; rule 3 requests it (id 7); signature base 10 -/
def rules0 : List RuleSpec :=
  [{ key := 1 }, { key := 3, kind := 1, sigBase := 10, statics := [⟨1, 7, 0⟩] }]

/-- generation 1: rule 3's result function changes (`vmod := 5`) and its signature base moves to 20 -/
def rules1 : List RuleSpec :=
  [{ key := 1 }, { key := 3, kind := 1, sigBase := 20, vmod := 5, statics := [⟨1, 7, 0⟩] }]

/-- set the input and rule 3's signature slot, build, EDIT THE DESCRIPTION, move the signature slot -/
def ops : List GOp :=
  [.op (.mutate 1 55), .op (.mutate 1003 2), .op (.build 3 0 []), .program rules1, .op (.mutate 1003 1)]

theorem rules_ok : ∀ r ∈ installed rules0 ops, RulesOk r := by
  intro r hr
  simp only [installed, ops, programsOf, List.mem_cons, List.not_mem_nil, or_false] at hr
  rcases hr with rfl | rfl <;> exact RulesOk.of_check (by decide)

theorem rules_wf : ∀ r ∈ installed rules0 ops, DSL.wf r = true := by decide

theorem rules_sep : sigSeparated 2 (installed rules0 ops) = true := by decide

theorem ops_bounded : ∀ o ∈ ops, o.mutBounded 2 = true := by decide

theorem ops_ok : ghistOk (ops ++ [.op (.build 3 0 [])]) (opProgram rules0 {}) := by
  simp only [ops, List.cons_append, List.nil_append, ghistOk, gopOk, opOk, runGOp, runOp, and_true, true_and]
  refine ⟨by decide, by decide⟩

def isRet : Event → Bool
  | .ret _ => true
  | _ => false

def retIs (v : Val) : List Event → Bool
  | .ret w :: _ => w == v
  | _ => false

theorem retIs_split {v : Val} {evs : List Event} (h : retIs v (evs.dropWhile (fun e => !isRet e)) = true) :
    ∃ post, evs = evs.takeWhile (fun e => !isRet e) ++ Event.ret v :: post := by
  cases hd : evs.dropWhile (fun e => !isRet e) with
  | nil => rw [hd] at h; cases h
  | cons x post =>
    rw [hd] at h
    cases x <;> first | cases h | skip
    rename_i w
    have : w = v := by simpa [retIs] using h
    subst this
    exact ⟨post, by rw [← hd, List.takeWhile_append_dropWhile]⟩

set_option maxRecDepth 100000 in
/-- the whole chain on the concrete history, evaluated by the kernel: the events of the history are accepted by
the generation monitor, the last build's events up to its `ret 3` by the monitor of the current rule list, and
the side conditions of the conclusion hold -/
theorem chain :
    (do let gevs0 ← ghistEvents 0 ops (opProgram rules0 {})
        let evsB ← toEvents (runBuild 3 0 [] (runGOps ops (opProgram rules0 {}))).trace.reverse
        let mg ← runG (PPof (installed rules0 ops)) ({}, 0) gevs0
        let m1 ← run (program (currentRules rules0 ops)) mg.1 (evsB.takeWhile (fun e => !isRet e))
        let m2 ← step (program (currentRules rules0 ops)) m1 (.ret 3)
        some (retIs 3 (evsB.dropWhile (fun e => !isRet e)) && !m2.pendingDropped && !m1.cancelled &&
          !m1.cycleSeen && !m1.errSeen && m1.target == some 3 && m1.env 1 == 55 && m1.env 1003 == 1)) = some true := by
  decide

/-- **non-vacuity of `EngineImpl_sound_C01_gen_bounded`**: every hypothesis holds of the concrete history
(two generations, rule 3's task and signature base change, signature slots ≤ 2), the last build returns 3
through the success branch of the monitor's `ret`, and the theorem yields: 3 is the clean value of key 3 for
the SECOND description in the final external state. -/
example : ∃ env, env 1 = 55 ∧ env 1003 = 1 ∧ Clean (program rules1) env 3 3 := by
  obtain ⟨gevs0, m0, evsB, he0, hr0, _, heB, H⟩ :=
    EngineImpl_sound_C01_gen_bounded 2 rules0 ops 3 0 [] rules_ok rules_wf rules_sep ops_bounded ops_ok
  have hc := chain
  rw [he0, heB] at hc
  simp only [Option.bind_eq_bind, Option.bind_some] at hc
  rw [hr0] at hc
  simp only [Option.bind_some] at hc
  cases h1 : run (program (currentRules rules0 ops)) m0 (evsB.takeWhile (fun e => !isRet e)) with
  | none => rw [h1] at hc; cases hc
  | some m1 =>
    rw [h1] at hc
    simp only [Option.bind_some] at hc
    cases h2 : step (program (currentRules rules0 ops)) m1 (.ret 3) with
    | none => rw [h2] at hc; cases hc
    | some m2 =>
      rw [h2] at hc
      simp only [Option.bind_some, Option.some.injEq, Bool.and_eq_true, beq_iff_eq, Bool.not_eq_eq_eq_not, Bool.not_true] at hc
      obtain ⟨⟨⟨⟨⟨⟨⟨a, b⟩, c⟩, d⟩, e⟩, f⟩, i⟩, j⟩ := hc
      obtain ⟨post, hsplit⟩ := retIs_split a
      obtain ⟨m1', m2', k1, k2, hcl⟩ := H _ 3 post hsplit
      rw [h1] at k1; cases k1
      rw [h2] at k2; cases k2
      obtain ⟨root, ht, hclean⟩ := hcl b c d e
      rw [f] at ht; cases ht
      exact ⟨m1.env, i, j, hclean⟩

/-- generation 1': only the signature base of rule 3 moves (no task changes) -/
def rules1' : List RuleSpec :=
  [{ key := 1 }, { key := 3, kind := 1, sigBase := 20, statics := [⟨1, 7, 0⟩] }]

def ops' : List GOp :=
  [.op (.mutate 1 55), .op (.mutate 1003 7), .op (.build 3 0 []), .program rules1', .op (.mutate 1003 100)]

/-- **non-vacuity of `EngineImpl_sound_C01_gen` / `_fixed`**: the hypotheses (among them `SigCovers` over ALL
external states, through `tasksFixed`) hold of a concrete history with unbounded signature slots -/
example : SigCovers (PPof (installed rules0 ops')) ∧ (∀ r ∈ installed rules0 ops', RulesOk r) ∧
    ghistOk (ops' ++ [.op (.build 3 0 [])]) (opProgram rules0 {}) := by
  refine ⟨PPof_SigCovers_fixed (List.cons_ne_nil _ _) (by decide) (by decide), ?_, ?_⟩
  · intro r hr
    simp only [installed, ops', programsOf, List.mem_cons, List.not_mem_nil, or_false] at hr
    rcases hr with rfl | rfl <;> exact RulesOk.of_check (by decide)
  · simp only [ops', List.cons_append, List.nil_append, ghistOk, gopOk, opOk, runGOp, runOp, and_true, true_and]
    refine ⟨by decide, by decide⟩

end ImplGenExample

end LLBuild.Refine
