/-
C15 — Keys and values encode canonically and decode losslessly.

"Every build key of every kind (with arbitrary byte-string names, paths and filter lists) and every build value
of every kind (any number of outputs, file infos, signatures, string lists) survives encode-then-decode
unchanged; equal values always encode to identical bytes and values differing in any field encode differently.
Kind tags of distinct kinds never collide, so a stored result can never be mistaken for one of another kind."

Property theorems only.  Model: LLBuild/Model/Codec.lean (hand-written interpreter of the wire format,
corresponded against the real BuildValue / BuildKey / StringList / FileInfo classes by harness/vc15.cpp);
tables, orders and widths: LLBuild/Generated/Codec.lean (extracted from the source on every run).

Well-formedness (`Value.WF`, `Key.WF`) is exactly what the C++ constructors guarantee or `assert`:
fields a kind does not carry keep their defaults; >= 1 and < 2^32 output infos where the kind has them;
32-byte checksums; NUL-free strings in string lists; sizes that fit their length fields.
"Canonical" (equal values => identical bytes) is functionality of `Value.encode` / `Key.encode`: they are
functions of the value alone (no padding, pointer or allocation state enters the model, and the correspondence
run compares the real bytes with the model's for every generated value).
-/
import LLBuild.Lemmas.Codec

namespace LLBuild.Codec
open LLBuild.Generated.Codec

/-! ### values -/

/-- "every build value of every kind ... survives encode-then-decode unchanged": decoding the bytes of a
well-formed value yields that value, and the decoder has consumed every byte (the `finish()` assertion holds). -/
theorem C15_value_roundtrip (v : Value) (h : v.WF = true) :
    Value.decode v.encode = .ok v ∧ Value.decodeRest v.encode = .ok (v, []) := by
  have := Value.decodeRest_encode_append v h []
  simp only [List.append_nil] at this
  exact ⟨by simp [Value.decode, this], this⟩

/-- "values differing in any field encode differently" -/
theorem C15_value_injective (v w : Value) (hv : v.WF = true) (hw : w.WF = true)
    (h : v.encode = w.encode) : v = w := by
  have a := (C15_value_roundtrip v hv).1
  have b := (C15_value_roundtrip w hw).1
  rw [h, b] at a
  exact (Except.ok.inj a).symm

/-- "Kind tags of distinct kinds never collide": the extracted ordinal map is injective, every ordinal fits the
one-byte wire tag, the tag is written and read with the same width, and the written tags of distinct kinds differ. -/
theorem C15_kind_tags_distinct :
    (∀ a b : VKind, a.ord = b.ord → a = b) ∧ (∀ a : VKind, a.ord < 2 ^ (8 * kindTagWriteWidth)) ∧
    kindTagWriteWidth = kindTagReadWidth ∧
    (∀ a b : VKind, wLE kindTagWriteWidth a.ord = wLE kindTagWriteWidth b.ord → a = b) := by
  have inj : ∀ a b : VKind, a.ord = b.ord → a = b := by
    intro a b h
    have := VKind.ofOrd_ord a
    rw [h, VKind.ofOrd_ord b] at this
    exact (Option.some.inj this).symm
  refine ⟨inj, fun a => by simpa [kindTagWriteWidth] using VKind.ord_lt a, rfl, ?_⟩
  intro a b h
  apply inj
  have ha := rLE_wLE1 a.ord []
  have hb := rLE_wLE1 b.ord []
  simp only [kindTagWriteWidth] at h
  rw [h, hb] at ha
  have := (Prod.mk.inj (Except.ok.inj ha)).1
  rw [Nat.mod_eq_of_lt (VKind.ord_lt a), Nat.mod_eq_of_lt (VKind.ord_lt b)] at this
  exact this.symm

/-- `Value.WF` is phrased with the predicates the codec consults (`kindHas*`).  This theorem ties those predicates to
the public constructor functions: the parts `BuildValue::make<Kind>` accepts are exactly the parts the codec writes
and reads for that kind - so no constructor argument is silently dropped, and no coded field is left unset. -/
theorem C15_constructors_match_codec (k : VKind) :
    (makeShape k).sig = hasSignature k ∧ (makeShape k).infos = hasOutputInfo k ∧ (makeShape k).strs = hasStringList k := by
  cases k <;> decide

/-- a value's first byte is its kind tag, so values of different kinds differ already in the first byte -/
theorem C15_value_first_byte_is_tag (v : Value) : v.encode.head? = some (UInt8.ofNat v.kind.ord) := by
  simp [Value.encode, toDataSteps, guardHolds, Value.writeAction, kindTagWriteWidth, wLE, writeShifts]

/-- "the engine's `value == result.value` test is equality of BuildValues": byte equality of the encodings of
two well-formed values holds exactly when the values are equal (what `taskIsComplete` relies on). -/
theorem C15_unchanged_is_byte_equal (v w : Value) (hv : v.WF = true) (hw : w.WF = true) :
    v.encode = w.encode ↔ v = w :=
  ⟨C15_value_injective v w hv hw, fun h => by rw [h]⟩

/-- components: file infos and string lists round-trip inside any context -/
theorem C15_fileinfo_roundtrip (fi : FileInfo) (h : fi.WF = true) (rest : Bytes) :
    FileInfo.decode (fi.encode ++ rest) = .ok (fi, rest) :=
  FileInfo.decode_encode fi h rest

theorem C15_stringlist_roundtrip (vs : List Bytes) (h : vs.all nulFree = true)
    (hl : (packStrings vs).length < 2 ^ 64) (rest : Bytes) :
    decodeStringList (encodeStringList vs ++ rest) = .ok (vs, rest) :=
  decodeStringList_encode vs (by simpa using h) hl rest

/-- Every field `FileInfo::operator==` compares is an encoded field, so byte-equal encodings imply `==`;
the converse fails (`mode` is encoded but not compared), i.e. the byte comparison is the finer one. -/
theorem C15_fileinfo_eq_coarser_than_bytes :
    (∀ a b : FileInfo, a.WF = true → b.WF = true → a.encode = b.encode → a.cppEq b = true) ∧
    (∃ a b : FileInfo, a.WF = true ∧ b.WF = true ∧ a.cppEq b = true ∧ a.encode ≠ b.encode) := by
  constructor
  · intro a b ha hb h
    have x := FileInfo.decode_encode a ha []
    have y := FileInfo.decode_encode b hb []
    rw [h, y] at x
    have : b = a := (Prod.mk.inj (Except.ok.inj x)).1
    subst this
    simp [FileInfo.cppEq]
  · exact ⟨⟨1, 2, 3, 4, 5, 6, List.replicate 32 7⟩, ⟨1, 2, 9, 4, 5, 6, List.replicate 32 7⟩, by decide, by decide, by decide, by decide⟩

/-- The NUL-free clause of `Value.WF` cannot be dropped: string lists are packed as C strings, so a value
containing NUL is split on decode and collides with the already-split list.  (The packing constructors
`assert` NUL-freedom; with asserts compiled out nothing rejects such a value.) -/
def C15_value_roundtrip_without_nul_clause : Prop :=
  ∀ v : Value, (hasStringList v.kind = true ∧ v.signature = 0 ∧ v.outputs = []) → (Value.decode v.encode).toOption = some v

theorem C15_nul_in_string_list_not_carried :
    ¬ C15_value_roundtrip_without_nul_clause ∧
    Value.encode ⟨.StaleFileRemoval, 0, [], [[97, 0, 98]]⟩ = Value.encode ⟨.StaleFileRemoval, 0, [], [[97], [98]]⟩ := by
  constructor
  · intro h
    exact absurd (h ⟨.StaleFileRemoval, 0, [], [[97, 0, 98]]⟩ (by decide)) (by decide)
  · decide

/-! ### keys -/

/-- "the two switch tables are mutually inverse on non-Unknown kinds" -/
theorem C15_key_codes_bijective :
    (∀ k : KKind, k ≠ .Unknown → kindForIdentifier (identifierForKind k) = k) ∧
    (∀ c : UInt8, kindForIdentifier c ≠ .Unknown → identifierForKind (kindForIdentifier c) = c) :=
  ⟨kindFor_identifierFor, identifierFor_kindFor⟩

/-- "every build key of every kind (with arbitrary byte-string names, paths and filter lists) survives":
`getKind()` and the accessors of that kind, applied to the constructed key, return the kind and the original
parts.  Names/paths may contain any byte including NUL in both layouts (the key is a length-carrying
`std::string`), raw custom-task data may contain any byte; only the *filter strings* of the StringList payload
must be NUL-free (`Key.WF`). -/
theorem C15_key_roundtrip (k : Key) (h : k.WF = true) :
    Key.decode k.encode = .ok k ∧ keyKind k.encode = k.kind := by
  have hd := Key.decode_encode k h
  exact ⟨hd, (Key.decode_kind _ _ hd).symm⟩

/-- "keys of different kinds or different parts have different bytes" -/
theorem C15_key_injective (k l : Key) (hk : k.WF = true) (hl : l.WF = true) (h : k.encode = l.encode) : k = l := by
  have a := (C15_key_roundtrip k hk).1
  have b := (C15_key_roundtrip l hl).1
  rw [h, b] at a
  exact (Except.ok.inj a).symm

/-! ### non-vacuity: concrete well-formed instances of every shape -/

def exInfo : FileInfo := ⟨0xFFFFFFFFFFFFFFFF, 1, 0o100644, 0, 0x8000000000000000, 999999999, List.replicate 32 0xAB⟩

example : (⟨.SuccessfulCommandWithOutputSignature, 0xDEADBEEF, [exInfo, exInfo], []⟩ : Value).WF = true := by decide
example : (⟨.DirectoryContents, 0, [exInfo], [[], [97], []]⟩ : Value).WF = true := by decide
example : (⟨.StaleFileRemoval, 0, [], []⟩ : Value).WF = true := by decide
example : (⟨.Invalid, 0, [], []⟩ : Value).WF = true := by decide
-- the hypotheses of C15_value_injective / C15_unchanged_is_byte_equal hold of two distinct values
example : (⟨.SuccessfulCommand, 0, [exInfo], []⟩ : Value).WF = true ∧ (⟨.SuccessfulCommand, 0, [{ exInfo with mode := 0 }], []⟩ : Value).WF = true ∧
    (⟨.SuccessfulCommand, 0, [exInfo], []⟩ : Value) ≠ ⟨.SuccessfulCommand, 0, [{ exInfo with mode := 0 }], []⟩ := by decide
-- a round trip evaluated by the kernel
example : (Value.decode (Value.encode ⟨.DirectoryContents, 0, [exInfo], [[], [97], []]⟩)).toOption =
    some ⟨.DirectoryContents, 0, [exInfo], [[], [97], []]⟩ := by decide
example : exInfo.WF = true ∧ exInfo.encode.length = 80 := by decide
example : ([[], [1, 2], []] : List Bytes).all nulFree = true ∧ packStrings [[], [1, 2], []] = [0, 1, 2, 0, 0] := by decide
-- keys: names with NUL in both layouts, raw data with NUL, filters with empty strings
example : (⟨.Command, [0, 255, 0], .none⟩ : Key).WF = true := by decide
example : (⟨.CustomTask, [0, 1], .raw [0, 0, 7]⟩ : Key).WF = true := by decide
example : (⟨.DirectoryTreeSignature, [47, 0, 97], .strings [[], [42]]⟩ : Key).WF = true := by decide
example : (Key.decode (Key.encode ⟨.FilteredDirectoryContents, [47, 0, 97], .strings [[], [42]]⟩)).toOption =
    some ⟨.FilteredDirectoryContents, [47, 0, 97], .strings [[], [42]]⟩ := by decide
example : Key.encode ⟨.CustomTask, [97], .raw [98]⟩ = [88, 1, 0, 0, 0, 97, 98] := by decide
example : (⟨.Command, [1], .none⟩ : Key).WF = true ∧ (⟨.Node, [1], .none⟩ : Key).WF = true ∧
    (⟨.Command, [1], .none⟩ : Key) ≠ ⟨.Node, [1], .none⟩ := by decide
-- key codes: a non-Unknown kind and a character that maps to a non-Unknown kind
example : KKind.CustomTask ≠ .Unknown ∧ kindForIdentifier 115 ≠ .Unknown := by decide

end LLBuild.Codec
