/-
C03 — Build state survives restarts exactly (database transparency): the DATABASE LAYER.

"Everything a build records - each rule's value, signature, epochs, and its dependency list in request order
with the order-only and single-use flags, for keys and values that are arbitrary byte strings - is read back
identically by a later process [...].  A database written under a different schema or client version is never
interpreted: it is recreated empty or rejected with an error, and a second engine cannot write to a database
while another build holds it."

Property theorems only.  Model: LLBuild/Model/BuildDB.lean (hand-written; corresponded op-by-op against the
real core::BuildDB, and its affinity function against the real sqlite3).  Constants, DDL, SQL text, bind and
column wiring: LLBuild/Generated/SQLiteDB.lean (extracted on every run).  The engine-level clause (restart-
split execution = single-engine execution) is decided on the engine model, not here.
-/
import LLBuild.Lemmas.BuildDBSpec

namespace LLBuild.BuildDB
open LLBuild.Generated

/-- The extracted SQL, bind list, column reads, brackets and gate are the ones the model was written against:
parameter i of the INSERT carries the field of the i-th declared column with that column's storage class; every
reader takes each Result field from the select-list column of the same name; keys are bound as text; the build
bracket is `BEGIN EXCLUSIVE` / `END` + close; no PRAGMA weakens the journal. -/
theorem C03_wiring : insertWiringOK = true ∧ readWiringOK = true ∧ fingerprintOK = true := by
  refine ⟨by decide, by decide, by decide +kernel⟩

/-- "dependency list [...] with the order-only and single-use flags": one entry survives encode/decode
(`lookupRuleResult`'s decoder; shift and mask constants from the extractor). -/
theorem C03_dep_codec (id : Nat) (su oo : Bool) (h : id < 2 ^ 62) :
    decodeDep SQLiteDB.depDecLookup (encodeDep SQLiteDB.depEnc id su oo) = (id, su, oo) := by
  simp only [decodeDep, encodeDep, SQLiteDB.depDecLookup, SQLiteDB.depEnc, two64, b2n, Nat.shiftLeft_eq,
    Nat.shiftRight_eq_div_pow, Nat.and_one_is_mod]
  cases su <;> cases oo <;> simp <;> omega

/-- the same for `getKeysWithResult`'s decoder -/
theorem C03_dep_codec_keys (id : Nat) (su oo : Bool) (h : id < 2 ^ 62) :
    decodeDep SQLiteDB.depDecKeys (encodeDep SQLiteDB.depEnc id su oo) = (id, su, oo) := by
  simp only [decodeDep, encodeDep, SQLiteDB.depDecKeys, SQLiteDB.depEnc, two64, b2n, Nat.shiftLeft_eq,
    Nat.shiftRight_eq_div_pow, Nat.and_one_is_mod]
  cases su <;> cases oo <;> simp <;> omega

/-- "in request order": a whole list of (id, singleUse, orderOnly) survives the blob, order preserved. -/
theorem C03_dep_blob_codec (l : List (Nat × Bool × Bool)) (h : ∀ e ∈ l, e.1 < 2 ^ 62) :
    (decodeBlob (encodeBlob (l.map fun e => encodeDep SQLiteDB.depEnc e.1 e.2.1 e.2.2))).map
      (·.map (decodeDep SQLiteDB.depDecLookup)) = some l := by
  rw [decodeBlob_encodeBlob]
  · simp only [Option.map_some, List.map_map]
    congr 1
    induction l with
    | nil => rfl
    | cons e t ih =>
      simp only [List.map_cons, Function.comp]
      rw [C03_dep_codec e.1 e.2.1 e.2.2 (h e List.mem_cons_self), ih (fun x hx => h x (List.mem_cons_of_mem _ hx))]
  · intro x hx
    obtain ⟨e, _, rfl⟩ := List.mem_map.1 hx
    exact encodeDep_lt _ _ _ _

/-- A column whose declared type gives TEXT or BLOB affinity stores every text key unchanged. -/
theorem faithful_of_text_or_blob (h : keyAffinity = .text ∨ keyAffinity = .blob)
    (hb : SQLiteDB.keyBinds = [("findKeyIDForKeyStmt", "text"), ("findRuleResultStmt", "text"), ("insertIntoKeysStmt", "text")]) :
    StoredKeyFaithful := by
  intro k
  have b1 : bindKind "insertIntoKeysStmt" = "text" := by unfold bindKind; rw [hb]; decide
  have b2 : bindKind "findKeyIDForKeyStmt" = "text" := by unfold bindKind; rw [hb]; decide
  have b3 : bindKind "findRuleResultStmt" = "text" := by unfold bindKind; rw [hb]; decide
  have t : ∀ k, bindAs "text" k = .text k := by intro k; unfold bindAs; simp
  unfold storeKey probeKey probeKeyJoin
  rw [b1, b2, b3, t]
  rcases h with h | h <;> rw [h] <;> simp [applyAffinity, applyCompareAffinity]

/-- "for keys [...] that are arbitrary byte strings": with the column as declared in the (repaired) tree the
affinity leaves every key's bytes unchanged and distinct keys distinct.  Decided from the EXTRACTED declared
type: re-declaring the column `STRING` makes this theorem fail. -/
theorem C03_stored_key_faithful : StoredKeyFaithful :=
  faithful_of_text_or_blob (by decide) (by decide)

/-- The full-strength statement for an arbitrary declared type, kept visible. -/
def StoredKeyFaithfulFor (decl : Bytes) : Prop :=
  ∀ k : Bytes, applyAffinity (affinityOf decl) (.text k) = .text k

/-- F8: under the former declaration `key STRING` (NUMERIC affinity) the statement is false: `0123` and `123`
share one stored value, `1e3` is stored as the integer 1000, `.5` reads back as `0.5`, ` 12 ` as `12`. -/
theorem C03_affinity_witness :
    ¬ StoredKeyFaithfulFor [83, 84, 82, 73, 78, 71] ∧
    applyAffinity (affinityOf [83, 84, 82, 73, 78, 71]) (.text [48, 49, 50, 51]) =
      applyAffinity (affinityOf [83, 84, 82, 73, 78, 71]) (.text [49, 50, 51]) ∧
    applyAffinity (affinityOf [83, 84, 82, 73, 78, 71]) (.text [49, 101, 51]) = .int 1000 ∧
    (applyAffinity (affinityOf [83, 84, 82, 73, 78, 71]) (.text [46, 53])).toText = [48, 46, 53] ∧
    (applyAffinity (affinityOf [83, 84, 82, 73, 78, 71]) (.text [32, 49, 50, 32])).toText = [49, 50] := by
  refine ⟨?_, by decide, by decide, by decide, by decide⟩
  intro h
  have := h [48, 49, 50, 51]
  revert this
  decide

/-- "is read back identically": after `setRuleResult k r` on a connection's view, `lookupRuleResult k` — on the
same connection, or on ANY connection whose caches agree with the table, in particular a fresh one in a later
process once the view is committed — returns exactly `r`: value, signature, both epochs, and the dependency list
with both flags in request order.  (`hsmall`: ids stay below 2^62, the range of the blob's id field.) -/
theorem C03_read_your_writes (hf : StoredKeyFaithful) (cn : Conn) (s : Snapshot) (k : Bytes) (r : Result)
    (ok : KNOK s.keyNames) (c : CacheOK cn s.keyNames) (hsmall : maxId s.keyNames + r.deps.length + 1 < 2 ^ 62)
    (cn' : Conn) (c' : CacheOK cn' (applySet cn s k r).2.keyNames) :
    (applyLookup cn' (applySet cn s k r).2 k).2 = .result r := by
  obtain ⟨cn1, kn1, id, h1, ok1, c1, sub1, hm1, mx1⟩ := getKeyID_spec hf k ok c
  obtain ⟨cn2, kn2, raws, h2, ok2, c2, sub2, hall, mx2⟩ := encodeDeps_spec hf r.deps cn1 kn1 ok1 c1
  have hs : applySet cn s k r = (cn2, { s with keyNames := kn2, rows := putRow s.rows id ⟨r.value, r.signature, r.builtAt, r.computedAt, encodeBlob raws⟩ }) := by
    simp only [applySet, h1, h2]
  rw [hs] at c' ⊢
  simp only at c' ⊢
  have hm2 : (id, SqlValue.text k) ∈ kn2 := sub2 _ hm1
  have hmax : maxId kn2 < 2 ^ 62 := by omega
  -- both paths of findRow reach the row just written
  have hrow : ∃ cn3, findRow cn' { s with keyNames := kn2, rows := putRow s.rows id ⟨r.value, r.signature, r.builtAt, r.computedAt, encodeBlob raws⟩ } k
      = some (id, ⟨r.value, r.signature, r.builtAt, r.computedAt, encodeBlob raws⟩, cn3) ∧ CacheOK cn3 kn2 := by
    unfold findRow
    cases hl : cn'.dbKeyIDs.lookup k with
    | some id' =>
      have := ok2.uniqKey _ _ _ (c'.dbc k id' hl) hm2
      subst this
      exact ⟨cn', by simp [lookup_putRow_self], c'⟩
    | none =>
      simp only [(hf k).2.2, findKeyIdWith_text_of_mem ok2 hm2, lookup_putRow_self, Option.map_some]
      exact ⟨_, rfl, CacheOK_cache c' hm2⟩
  obtain ⟨cn3, hfr, c3⟩ := hrow
  obtain ⟨cn4, hres, _⟩ := resolveDeps_spec SQLiteDB.depDecLookup C03_dep_codec ok2 hmax r.deps raws cn3 c3 hall
  simp only [applyLookup, hfr, decodeRow, decodeBlob_encodeBlob raws (DepsEncoded_raw_lt hall), hres]

/-- "by a later process": `buildComplete` publishes exactly the transaction's view, and a connection that is
not in a transaction reads the published snapshot. -/
theorem C03_commit_visible (w : World) (c : Nat) (cn : Conn) (h : w.conns c = some cn) (ht : cn.state = .inTxn) :
    (step w (.complete c)).1.committed = cn.pending ∧
    ∀ cn' : Conn, cn'.state ≠ .inTxn → view (step w (.complete c)).1 cn' = cn.pending := by
  have : (step w (.complete c)).1.committed = cn.pending := by simp [step, h, ht, setConn]
  refine ⟨this, fun cn' hn => ?_⟩
  simp [view, hn, this]

/-- "A database written under a different schema or client version is never interpreted: it is recreated empty
or rejected with an error": opening a closed connection either fails (lock, or refusal when recreate is off),
or leaves the file untouched BECAUSE both stored versions match, or replaces it by an empty database. -/
theorem C03_version_gate (w : World) (c : Nat) (cn : Conn) (hcl : cn.state = .closed) :
    match ensureOpen w c cn with
    | .ok (w', _) =>
        (w'.committed = w.committed ∧ w.committed.schema = true ∧ w.committed.version = SQLiteDB.currentSchemaVersion ∧
          w.committed.client = cn.client) ∨
        (cn.recreate = true ∧ w'.committed.keyNames = [] ∧ w'.committed.rows = [] ∧ w'.committed.iteration = 0 ∧
          w'.committed.version = SQLiteDB.currentSchemaVersion ∧ w'.committed.client = cn.client)
    | .error e => e = .busy ∨ (e = .version ∧ cn.recreate = false ∧ gateOK w.committed cn.client = false) := by
  unfold ensureOpen
  by_cases hb : blocked w c = true
  · simp [hb]
  · simp only [hb, hcl]
    by_cases hg : gateOK w.committed cn.client = true
    · simp only [hg, ↓reduceIte]
      left
      simp only [gateOK, Bool.and_eq_true, beq_iff_eq] at hg
      exact ⟨rfl, hg.1.1, hg.1.2, hg.2⟩
    · simp only [hg]
      by_cases hr : cn.recreate = true
      · simp [hr, Snapshot.fresh]
      · simp at hr hg
        simp [hr]

/-- one lock bit: a connection in a transaction is the lock holder -/
def LockOK (w : World) : Prop := ∀ c cn, w.conns c = some cn → cn.state = .inTxn → w.lock = some c

/-- "a second engine cannot write to a database while another build holds it": whoever else holds the lock,
every operation of this connection that touches the file fails with `busy` and changes nothing. -/
theorem C03_writes_need_lock (w : World) (c : Nat) (hb : blocked w c = true) (k : Bytes) (r : Result) (n : Nat) :
    (step w (.set c k r) = (w, .err .busy) ∨ step w (.set c k r) = (w, .noConn)) ∧
    (step w (.setiter c n) = (w, .err .busy) ∨ step w (.setiter c n) = (w, .noConn)) ∧
    (step w (.start c) = (w, .err .busy) ∨ step w (.start c) = (w, .noConn)) := by
  cases hc : w.conns c with
  | none => simp [step, withOpen, hc]
  | some cn => simp [step, withOpen, hc, ensureOpen, hb]

/-- BuildSystem's merged client version is injective on client versions below 2^16 ... -/
theorem C03_merged_injective_partial (a b : Nat) (ha : a < 2 ^ 16) (hb : b < 2 ^ 16) (h : mergedVersion a = mergedVersion b) : a = b := by
  simp only [mergedVersion, SQLiteDB.bsInternalSchemaVersion, SQLiteDB.mergedShift, SQLiteDB.mergedWidth, Nat.shiftLeft_eq] at h
  omega

/-- The full statement (all 32-bit client versions), kept visible; F17: it is false. -/
def C03_merged_full : Prop := ∀ a b : Nat, a < 2 ^ 32 → b < 2 ^ 32 → mergedVersion a = mergedVersion b → a = b

/-- ... F17: client version 65536 (which the assert `<= (1 << 16)` admits) merges to the same value as 0. -/
theorem C03_merged_wraps : mergedVersion 65536 = mergedVersion 0 ∧ ¬ C03_merged_full := by
  refine ⟨by decide, fun h => ?_⟩
  have := h 65536 0 (by decide) (by decide) (by decide)
  omega

/-! Non-vacuity -/

-- a table with two keys, a connection with one cached id: the hypotheses of read-your-writes hold
example : KNOK [(1, .text [97]), (2, .text [0, 255])] := by
  refine ⟨?_, ?_, ?_⟩
  · intro id v h; simp at h; rcases h with ⟨_, rfl⟩ | ⟨_, rfl⟩ <;> exact ⟨_, rfl⟩
  · intro id v v' h h'; simp at h h'
    rcases h with ⟨rfl, rfl⟩ | ⟨rfl, rfl⟩ <;> rcases h' with ⟨h1, rfl⟩ | ⟨h1, rfl⟩ <;> simp_all
  · intro id id' v h h'; simp at h h'
    rcases h with ⟨rfl, rfl⟩ | ⟨rfl, rfl⟩ <;> rcases h' with ⟨rfl, h2⟩ | ⟨rfl, h2⟩ <;> simp_all
example : CacheOK ⟨1, true, .opened, .none, [(2, [0, 255])], [([0, 255], 2)]⟩ [(1, .text [97]), (2, .text [0, 255])] := by
  constructor <;> intro a b h <;> simp [List.lookup] at h <;> split at h <;> simp_all
-- the model really stores and returns a result with flags in order (keys "0123", "123", NUL, 0xff)
example : (applyLookup (Conn.fresh 1 true) (applySet (Conn.fresh 1 true) (Snapshot.fresh 1) [48,49,50,51]
      ⟨[0, 255], 7, 3, 2, [⟨[49,50,51], true, false⟩, ⟨[0], false, true⟩, ⟨[49,50,51], true, true⟩]⟩).2 [48,49,50,51]).2
    = .result ⟨[0, 255], 7, 3, 2, [⟨[49,50,51], true, false⟩, ⟨[0], false, true⟩, ⟨[49,50,51], true, true⟩]⟩ := by decide
-- the gate: same versions accept, another client recreates empty, the read-only opener refuses
example : (match ensureOpen ⟨Snapshot.fresh 2, none, fun _ => none⟩ 0 (Conn.fresh 1 false) with | .error .version => true | _ => false) = true := by rfl
example : mergedVersion 1 = 65545 := by decide

/-! ## Follow-up: op sequences, any number of connections (Lemmas/BuildDBLock, BuildDBMap, BuildDBInv, BuildDBSpec) -/

/-- the repaired `close()` drops the id caches (F21); read off the extracted flag -/
theorem closeClears : SQLiteDB.closeClearsCaches = true := by decide

/-- Every world reachable from the initial one by ANY op sequence (any connection slots, reads, crashes, resets)
satisfies the global invariant `InvG`: lock bit = "some connection is inside a write transaction"; committed snapshot
consistent; caches of every connection agree with the key_names of the snapshot it works on; ids bounded by the
number of keys ever mentioned. -/
theorem C03_reachable_inv (ops : List Op) : InvG (opsWeight ops) (run World.init ops) := by
  have := InvG_run C03_stored_key_faithful closeClears ops 0 World.init InvG_init
  simpa using this

/-- "Everything a build records [...] is read back identically": REFINEMENT.  For every op sequence over any number of
connections, the model (key_names, ids, blobs, caches, two lookup paths) and the durable-map specification
(`Key → Option Result`, `set k r` = `map[k] := r`; `sstep`) end in the same abstract state and give the same answer
to EVERY op on the way: each `lookup` answers exactly `map[k]` (value, signature, epochs, dependency list with both
flags in order; never `corrupt` / `dangling`), each `keys` lists exactly the graph of the map, each key once.
Hypothesis: fewer than 2^62 keys are mentioned (the id field of the dependency blob has 62 bits). -/
theorem C03_refines_map (ops : List Op) (hsmall : opsWeight ops < 2 ^ 62) :
    absWorld (run World.init ops) = srun SWorld.init ops ∧
    TraceMatch (trace World.init ops) (strace SWorld.init ops) := by
  have := run_refines C03_stored_key_faithful closeClears ops 0 World.init InvG_init (by omega)
  rw [absWorld_init] at this
  exact this

/-- FRAME, in every reachable world: `setRuleResult k r` on connection `c` leaves the answer of `lookupRuleResult k'`
for every other key `k'` exactly as it was — although it may append to key_names, rewrite the row list, fill both id
caches, reopen or even recreate the file. -/
theorem C03_frame (ops : List Op) (c : Nat) (k k' : Bytes) (r : Result) (hk : k' ≠ k)
    (hsmall : opsWeight ops + (r.deps.length + 1) < 2 ^ 62) :
    (step (step (run World.init ops) (.set c k r)).1 (.lookup c k')).2 = (step (run World.init ops) (.lookup c k')).2 :=
  frame_of_inv C03_stored_key_faithful closeClears (C03_reachable_inv ops) c k k' r hk hsmall

/-- read-your-writes in every reachable world: a `setRuleResult k r` that answered `ok` is followed by `lookup k = r` -/
theorem C03_read_your_writes_seq (ops : List Op) (c : Nat) (k : Bytes) (r : Result)
    (hok : (step (run World.init ops) (.set c k r)).2 = .ok) (hsmall : opsWeight ops + (r.deps.length + 1) < 2 ^ 62) :
    (step (step (run World.init ops) (.set c k r)).1 (.lookup c k)).2 = .result r :=
  ryw_of_inv C03_stored_key_faithful closeClears (C03_reachable_inv ops) c k r hok hsmall

/-- "a second engine cannot write to a database while another build holds it", as an INVARIANT: one step of any op
of any connection preserves `LockOK` together with its converse (the lock holder is inside a transaction). -/
theorem C03_lock_step (w : World) (h : LockOK w) (h' : ∀ c, w.lock = some c → ∃ cn, w.conns c = some cn ∧ cn.state = .inTxn)
    (op : Op) : LockOK (step w op).1 ∧ ∀ c, (step w op).1.lock = some c → ∃ cn, (step w op).1.conns c = some cn ∧ cn.state = .inTxn :=
  let r := LockInv_step ⟨h, h'⟩ op
  ⟨r.holder, r.held⟩

/-- SINGLE WRITER: after any op sequence over any number of connections, (1) every connection inside a write
transaction is the lock holder, (2) at most one connection is inside a write transaction, (3) the lock is held only by a
connection that is inside one (no stale lock after drop / new / complete / crash). -/
theorem C03_single_writer (ops : List Op) :
    LockOK (run World.init ops) ∧
    (∀ c c' cn cn', (run World.init ops).conns c = some cn → cn.state = .inTxn →
      (run World.init ops).conns c' = some cn' → cn'.state = .inTxn → c = c') ∧
    (∀ c, (run World.init ops).lock = some c → ∃ cn, (run World.init ops).conns c = some cn ∧ cn.state = .inTxn) := by
  have h := LockInv_run ops World.init LockInv_init
  refine ⟨h.holder, ?_, h.held⟩
  intro c c' cn cn' hc hs hc' hs'
  have h1 := h.holder c cn hc hs
  have h2 := h.holder c' cn' hc' hs'
  rw [h1] at h2
  injection h2

/-- consequently, in every reachable world, while connection `o` is inside its transaction every write of every
other connection is refused with `busy` and changes nothing (the hypothesis of `C03_writes_need_lock` is met). -/
theorem C03_other_writers_refused (ops : List Op) (o c : Nat) (cn : Conn) (ho : (run World.init ops).conns o = some cn)
    (hs : cn.state = .inTxn) (hne : c ≠ o) : blocked (run World.init ops) c = true := by
  have := (C03_single_writer ops).1 o cn ho hs
  unfold blocked
  rw [this]
  simpa using fun h : o = c => hne h.symm

/-! Non-vacuity: two connections, interleaved; client 2 takes the file over (recreate); the budget hypothesis holds,
the model's answers are the ones the map specification gives. -/
def exampleSeq : List Op :=
  [.new 0 1 true, .new 1 1 true, .start 0, .set 0 [97] ⟨[1], 5, 1, 1, [⟨[98], true, false⟩, ⟨[99], false, true⟩]⟩,
   .set 1 [100] ⟨[9], 9, 1, 1, []⟩, .lookup 0 [97], .lookup 0 [98], .setiter 0 1, .complete 0, .lookup 1 [97],
   .set 1 [98] ⟨[2], 6, 2, 2, []⟩, .lookup 1 [97], .new 2 2 true, .lookup 2 [97]]

example : opsWeight exampleSeq < 2 ^ 62 := by decide
example : trace World.init exampleSeq =
    [.ok, .ok, .ok, .ok, .err .busy,
     .result ⟨[1], 5, 1, 1, [⟨[98], true, false⟩, ⟨[99], false, true⟩]⟩, .absent, .ok, .ok,
     .result ⟨[1], 5, 1, 1, [⟨[98], true, false⟩, ⟨[99], false, true⟩]⟩, .ok,
     .result ⟨[1], 5, 1, 1, [⟨[98], true, false⟩, ⟨[99], false, true⟩]⟩, .ok, .absent] := by decide
-- the blocked writer of `C03_other_writers_refused` exists: after `start 0`, connection 0 is inside its transaction
example : ((run World.init (exampleSeq.take 3)).conns 0).map (·.state) = some .inTxn := by decide

end LLBuild.BuildDB
