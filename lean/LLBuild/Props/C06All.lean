/-
C06 aggregate: the protocol / schedule-independence theorems on the abstract monitor (Props/C06.lean,
Props/C06Handshake.lean) together with the refinement of the monitor by the concrete engine model
and its corollaries (Props/EngineImplSound.lean): every completion schedule and cancellation point of
the transliterated engine, not only the sampled ones, yields an accepted trace.
-/
import LLBuild.Props.C06
import LLBuild.Props.EngineImplSound
import LLBuild.Props.EngineImplTerm
import LLBuild.Props.EngineImplAsync
import LLBuild.Props.EngineImplSched
import LLBuild.Props.EngineImplSched2
import LLBuild.Props.EngineImplSched5
