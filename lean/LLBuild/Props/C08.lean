/-
C08 — On-disk outputs after any incremental build equal a clean build's.

"For a build description whose commands are deterministic functions of their declared and discovered inputs, after
any sequence of observable edits to source files, deletion or tampering of outputs, and edits to the description
itself (commands added, removed, rewired, or changed; inputs becoming produced nodes and vice versa), a successful
build leaves every output reachable from the built target with exactly the contents the current description's
commands compute from the current contents of the files no command produces - the result of a clean build with no
database and no earlier outputs."

Model: LLBuild/Model/BuildSystemClient.lean — the rule set `lookupRule` creates for a description, as an engine
`Program` (`client H d`); table-like parts from Generated/BuildSystemRules.lean (regenerated on every run).
What is proved: the client satisfies the hypotheses of the engine theorem (`C08_client_WF`, for EVERY description),
hence (`C08_outputs_clean`, `C08_inputs_current` = C01 instantiated) every successful build accepted by the abstract
engine — after any history of `mutate` (source edits, output deletion/tampering: any change of the file-system
state between builds), builds of any target or node, restarts — returns, and hands to every task, the `Clean` value;
and what `Clean` means here (`C08_clean_*`, `C08_clean_is_eval`): a source file's clean value is its current
record/content, a produced node's is what its producer computes from the clean values of its declared inputs.
Assumed, not proved (see notes/C08.md): real commands are deterministic functions of the declared inputs they read;
a changed file has a changed stat record; the effects of commands on the file system during a build are
abstracted as values (frame: `Desc.wf` — one producer per path); discovered dependencies are not in this model;
the description is fixed within one instance — a changed definition is detected through the signature
(`C08_node_sig_tracks_producers` here; command signatures: `C09_sig_injective`) and covered end to end by the history oracle.
-/
import LLBuild.Props.C01
import LLBuild.Lemmas.BuildSystemClient

namespace LLBuild.BuildSystemClient
open LLBuild.Engine
open LLBuild.Generated.BuildSystemRules

theorem fileValue_inj {a b : Nat} (h : fileValue a = fileValue b) : a = b := by
  have h' : (if a = 0 then 1 else 8 * (a - 1) + 2) = (if b = 0 then 1 else 8 * (b - 1) + 2) := h
  split at h' <;> split at h' <;> omega

theorem nodeKey_md (i : Nat) : nodeKey i % 3 = 0 ∧ nodeKey i / 3 = i := by
  show (3 * i) % 3 = 0 ∧ (3 * i) / 3 = i
  omega
theorem cmdKey_md (i : Nat) : cmdKey i % 3 = 1 ∧ cmdKey i / 3 = i := by
  show (3 * i + 1) % 3 = 1 ∧ (3 * i + 1) / 3 = i
  omega
theorem tgtKey_md (i : Nat) : tgtKey i % 3 = 2 ∧ tgtKey i / 3 = i := by
  show (3 * i + 2) % 3 = 2 ∧ (3 * i + 2) / 3 = i
  omega

/-- The BuildSystem's rule set satisfies the hypotheses of the engine theorem, for every description and hash:
tasks are functions of what they receive (commands read declared inputs only), only file-input nodes read the
external state, at their own path, their validity pins their value and their value determines that state. -/
theorem C08_client_WF (H : List Nat → Nat) (d : Desc) : (client H d).WF := by
  constructor
  · intro k env env' recv _ hs
    show outOf d k env recv = outOf d k env' recv
    have hs' : (ruleOf d k == .fileInputNodeTask) = true → env k = env' k := hs
    unfold outOf
    cases hr : ruleOf d k <;> simp only []
    rw [hs' (by simp [hr])]
  · intro k env v hs hv
    have hs' : (ruleOf d k == .fileInputNodeTask) = true := hs
    have hr : ruleOf d k = .fileInputNodeTask := by simpa using hs'
    have hv' : validOf d env k v = true := hv
    show v = outOf d k env []
    unfold validOf at hv'
    unfold outOf
    simp only [hr] at hv' ⊢
    unfold fileInputValid at hv'
    by_cases h0 : env k = 0
    · simp [h0] at hv'
      simp [fileValue, h0, hv']
    · simp [h0] at hv'
      exact hv'.2
  · intro k recv hs
    have hs' : (ruleOf d k == .fileInputNodeTask) = true := hs
    have hr : ruleOf d k = .fileInputNodeTask := by simpa using hs'
    show nextOf d k = []
    simp [nextOf, hr]
  · intro k recv _; rfl
  · intro k recv x hx; cases hx
  · intro k env env' _ ho
    have ho' : outOf d k env [] = outOf d k env' [] := ho
    rename_i hs
    have hs' : (ruleOf d k == .fileInputNodeTask) = true := hs
    have hr : ruleOf d k = .fileInputNodeTask := by simpa using hs'
    unfold outOf at ho'
    simp only [hr] at ho'
    exact fileValue_inj ho'

/-- C08 on the model: a successful build of a target or node key returns the value a clean build computes in the
current file-system state (instance of `C01_value`; hypotheses as there). -/
theorem C08_outputs_clean (H : List Nat → Nat) (d : Desc) {evs : List Event} {s s' : St} {v : Val}
    (hrun : run (client H d) {} evs = some s) (hret : step (client H d) s (.ret v) = some s')
    (hnd : s'.pendingDropped = false)
    (hok : s.cancelled = false ∧ s.cycleSeen = false ∧ s.errSeen = false) :
    ∃ root, s.target = some root ∧ Clean (client H d) s.env root v :=
  C01_value (C08_client_WF H d) hrun hret hnd hok

/-- Every value handed to a task during any build (a target's nodes, a command's inputs, a node's producer) is the
clean value in the current state — in particular every node of a built target (instance of `C01_inputs`). -/
theorem C08_inputs_current (H : List Nat → Nat) (d : Desc) {evs : List Event} {s s' : St}
    {k : Key} {id : Nat} {key : Key} {v : Val} {reqs : List Req}
    (hrun : run (client H d) {} evs = some s) (hnd : s.pendingDropped = false)
    (hprov : step (client H d) s (.provide k id key v reqs) = some s') :
    Clean (client H d) s.env key v :=
  C01_inputs (C08_client_WF H d) hrun hnd hprov

/-! ### what `Clean` means for this client -/

/-- a source file's clean value is its current record (content), or MissingInput -/
theorem C08_clean_source (H : List Nat → Nat) (d : Desc) (env : Env) (k : Key) (v : Val)
    (hr : ruleOf d k = .fileInputNodeTask) : Clean (client H d) env k v ↔ v = fileValue (env k) := by
  constructor
  · intro h
    cases h with
    | mk _ seq _ _ _ =>
      show outOf d k env (recvOf seq) = _
      simp [outOf, hr]
  · intro h
    have hn : (client H d).next k [] = [] := by show nextOf d k = []; simp [nextOf, hr]
    have := Clean.mk (P := client H d) (env := env) k [] (by simp [validSeq])
      (by simp [completeSeq, issuedAfter, hn]) (by intro q v hm; cases hm)
    have ho : (client H d).out k env (recvOf []) = fileValue (env k) := by
      rw [client_out]
      simp [outOf, hr]
    rw [ho] at this
    rw [h]; exact this

/-- a produced node's clean value is what `getResultForOutput` extracts from the clean value of its producer -/
theorem C08_clean_produced (H : List Nat → Nat) (d : Desc) (env : Env) (k : Key) (c : Nat) (v : Val)
    (hr : ruleOf d k = .producedNodeTask) (hp : d.producers (k / 3) = [c]) (h : Clean (client H d) env k v) :
    ∃ cv, Clean (client H d) env (cmdKey c) cv ∧ v = resultForOutput d (d.cmd c) (k / 3) cv := by
  cases h with
  | mk _ seq hv hcm hin =>
    have hs' : ∀ recv, (client H d).next k recv = [⟨cmdKey c, 0, 0⟩] := fun r => by
      show nextOf d k = _; simp [nextOf, hr, hp]
    obtain ⟨cv, hmem, hget⟩ := static_recv hs' hv hcm (q := ⟨cmdKey c, 0, 0⟩) (by simp) rfl
      (by intro q' hq' _; simpa using hq')
    refine ⟨cv, hin _ _ hmem rfl, ?_⟩
    show outOf d k env (recvOf seq) = _
    simp only [] at hget
    simp [outOf, hr, hp, hget]

/-- a command's clean value is its function (`cmdOut`: skip on a missing/failed input, otherwise the mix of the
contents it reads) applied to the clean values of its declared inputs, by position -/
theorem C08_clean_command (H : List Nat → Nat) (d : Desc) (env : Env) (k : Key) (v : Val)
    (hr : ruleOf d k = .commandTask) (hsym : (d.cmd (k / 3)).tool ≠ .symlink) (h : Clean (client H d) env k v) :
    ∃ g : Nat → Option Val,
      (∀ j (hj : j < (d.cmd (k / 3)).inputs.length),
        ∃ vj, g j = some vj ∧ Clean (client H d) env (nodeKey ((d.cmd (k / 3)).inputs[j])) vj) ∧
      v = cmdOut (d.cmd (k / 3)) g := by
  cases h with
  | mk _ seq hv hcm hin =>
    refine ⟨getRecv (recvOf seq), ?_, ?_⟩
    · intro j hj
      have hs' : ∀ recv, (client H d).next k recv = reqsFrom 0 0 (d.cmd (k / 3)).inputs := fun r => by
        show nextOf d k = _; simp [nextOf, hr, hsym]
      have hn : (d.cmd (k / 3)).inputs[j]? = some ((d.cmd (k / 3)).inputs[j]) := List.getElem?_eq_getElem hj
      have hq : (⟨nodeKey ((d.cmd (k / 3)).inputs[j]), j, 0⟩ : Req) ∈ reqsFrom 0 0 (d.cmd (k / 3)).inputs :=
        mem_reqsFrom.2 ⟨j, _, hn, by simp⟩
      obtain ⟨vj, hmem, hget⟩ := static_recv hs' hv hcm hq rfl (fun q' hq' hid => reqsFrom_id_inj hq hq' hid)
      exact ⟨vj, hget, hin _ _ hmem rfl⟩
    · show outOf d k env (recvOf seq) = _
      simp [outOf, hr]

/-- `Clean` is functional and `cleanEval` (the evaluator the driver runs against the real tool's output files)
computes it: any value a clean build can produce for a key is the evaluator's value. -/
theorem C08_clean_is_eval (H : List Nat → Nat) (d : Desc) (env : Env) (f : Nat) (k : Key) (v w : Val)
    (h : Clean (client H d) env k v) (he : cleanEval d env f k = some w) : v = w :=
  clean_is_eval H d env f k v w h he

theorem C08_clean_unique (H : List Nat → Nat) (d : Desc) (env : Env) (f : Nat) (k : Key) (v v' w : Val)
    (h : Clean (client H d) env k v) (h' : Clean (client H d) env k v') (he : cleanEval d env f k = some w) : v = v' :=
  (clean_is_eval H d env f k v w h he).trans (clean_is_eval H d env f k v' w h' he).symm

/-! ### the rule constructors (extracted tables instantiated) -/

/-- which key maps to which rule class (`lookupRule`, cases Node / Command / Target) -/
theorem C08_rule_dispatch (d : Desc) (i : Nat) :
    (d.producers i = [] → d.isVirtual i = false → ruleOf d (nodeKey i) = .fileInputNodeTask) ∧
    (d.producers i = [] → d.isVirtual i = true → ruleOf d (nodeKey i) = .virtualInputNodeTask) ∧
    (d.producers i ≠ [] → ruleOf d (nodeKey i) = .producedNodeTask) ∧
    (i < d.cmds.length → ruleOf d (cmdKey i) = .commandTask) ∧
    (¬ i < d.cmds.length → ruleOf d (cmdKey i) = .missingCommandTask) ∧
    (i < d.targets.length → ruleOf d (tgtKey i) = .targetTask) := by
  have h0 := nodeKey_md i
  have h1 := cmdKey_md i
  have h2 := tgtKey_md i
  refine ⟨?_, ?_, ?_, ?_, ?_, ?_⟩
  · intro hp hv; simp [ruleOf, h0, hp, hv, nodeRule]
  · intro hp hv; simp [ruleOf, h0, hp, hv, nodeRule]
  · intro hp
    have : (d.producers i).isEmpty = false := by cases hq : d.producers i <;> simp_all
    simp [ruleOf, h0, this, nodeRule]
  · intro hc; simp [ruleOf, h1, hc, commandRule]
  · intro hc; simp [ruleOf, h1, hc, commandRule]
  · intro ht; simp [ruleOf, h2, ht, targetRule]

/-- every node rule takes its signature from the node (type + producers), the command rule from the command's definition;
file-input, produced-node, command and target validity are delegated to the task classes modelled here -/
theorem C08_rule_signature_sources :
    RuleClass.sigSource .commandTask = .command ∧ RuleClass.sigSource .fileInputNodeTask = .node ∧
    RuleClass.sigSource .virtualInputNodeTask = .node ∧ RuleClass.sigSource .producedNodeTask = .node ∧
    RuleClass.validity .commandTask = .delegated ∧ RuleClass.validity .fileInputNodeTask = .delegated ∧
    RuleClass.validity .producedNodeTask = .delegated ∧ RuleClass.validity .targetTask = .delegated ∧
    RuleClass.validity .missingCommandTask = .neverValid := by decide

/-- a file-input node's stored value is valid iff it is what the file's current stat record gives
(`FileInputNodeTask::isResultValid`) -/
theorem C08_file_input_valid_iff (d : Desc) (env : Env) (k : Key) (v : Val) (hr : ruleOf d k = .fileInputNodeTask) :
    validOf d env k v = true ↔ v = fileValue (env k) := by
  unfold validOf
  simp only [hr]
  unfold fileInputValid
  by_cases h0 : env k = 0
  · simp [h0, fileValue]
  · simp [h0]
    intro hv
    rw [hv]; simp [fileValue, h0, isExisting, vExisting]

/-- a shell/phony command's stored value is valid only if the command is not always-out-of-date, the value is a
successful one, and EVERY non-virtual output still has the record the command left (`ExternalCommand::isResultValid`) -/
theorem C08_command_valid_sound (d : Desc) (env : Env) (k : Key) (v : Val) (hr : ruleOf d k = .commandTask)
    (ht : (d.cmd (k / 3)).tool = .shell ∨ (d.cmd (k / 3)).tool = .phony) (hv : validOf d env k v = true) :
    (d.cmd (k / 3)).alwaysOutOfDate = false ∧ isSuccess v = true ∧
    ∀ j, j < (d.cmd (k / 3)).outputs.length → d.isVirtual ((d.cmd (k / 3)).outputs.getD j 0) = false →
      env (nodeKey ((d.cmd (k / 3)).outputs.getD j 0)) = mix (v / 8) j + 1 := by
  unfold validOf at hv
  simp only [hr] at hv
  have hv' : externalCommandValid (d.cmd (k / 3)).alwaysOutOfDate (isSuccess v)
      ((List.range (d.cmd (k / 3)).outputs.length).map (outputFacts d env (d.cmd (k / 3)) v)) = true := by
    rcases ht with ht | ht <;> simpa [ht] using hv
  unfold externalCommandValid externalCommandGuards at hv'
  cases ha : (d.cmd (k / 3)).alwaysOutOfDate <;> simp [ha] at hv'
  cases hs : isSuccess v <;> simp [hs] at hv'
  refine ⟨rfl, rfl, ?_⟩
  intro j hj hvirt
  have := hv'.1 j hj
  simp only [outputFacts, externalCommandOutputOk, hvirt] at this
  simpa using this

/-- results that are never up to date: targets, missing commands, failed or missing produced nodes -/
theorem C08_never_valid (d : Desc) (env : Env) (k : Key) (v : Val) :
    (ruleOf d k = .targetTask → validOf d env k v = false) ∧
    (ruleOf d k = .missingCommandTask → validOf d env k v = false) ∧
    (ruleOf d k = .producedNodeTask → v = vFailedInput ∨ v = vMissingInput → validOf d env k v = false) := by
  refine ⟨?_, ?_, ?_⟩
  · intro hr; simp [validOf, hr, targetValid]
  · intro hr; simp [validOf, hr]
  · intro hr hv
    rcases hv with rfl | rfl <;> simp [validOf, hr, producedNodeValid, vFailedInput, vMissingInput]

/-- a command that is no longer in the description completes with Invalid and forces its dependents to re-run -/
theorem C08_missing_command_forces (H : List Nat → Nat) (d : Desc) (k : Key) (env : Env) (recv : Recv)
    (hr : ruleOf d k = .missingCommandTask) :
    (client H d).force k = true ∧ (client H d).out k env recv = vInvalid ∧ missingCommandValueKind = "Invalid" := by
  refine ⟨?_, ?_, by decide⟩
  · show (ruleOf d k == .missingCommandTask && missingCommandForceChange) = true
    simp [hr, missingCommandForceChange]
  · show outOf d k env recv = vInvalid
    simp [outOf, hr]

/-- the node signature changes whenever the node's type or its set of producers changes (a source that becomes a
produced node, a node whose producer is replaced): equal signature terms ⇒ same type and same producers -/
theorem C08_node_sig_tracks_producers (d d' : Desc) (i : Nat)
    (h : sigTerm d (nodeKey i) = sigTerm d' (nodeKey i)) :
    d.isVirtual i = d'.isVirtual i ∧ d.producers i = d'.producers i := by
  have h0 := nodeKey_md i
  have hs : ∀ e : Desc, (ruleOf e (nodeKey i)).sigSource = .node := by
    intro e
    simp only [ruleOf, h0, if_true, nodeRule]
    cases (e.producers i).isEmpty <;> cases e.isVirtual i <;> rfl
  unfold sigTerm at h
  simp only [hs, nodeSignatureFields, List.foldl_cons, List.foldl_nil, h0] at h
  simp only [List.cons_append, List.nil_append, List.cons.injEq, true_and] at h
  obtain ⟨hty, hlen, hp⟩ := h
  refine ⟨?_, hp⟩
  cases hv : d.isVirtual i <;> cases hv' : d'.isVirtual i <;> simp [hv, hv'] at hty ⊢

/-- hashed signatures: with a hash that does not collide on the two terms, a changed node type or producer set
changes the rule signature the engine compares -/
theorem C08_node_sig_changes (H : List Nat → Nat) (hH : ∀ a b, H a = H b → a = b) (d d' : Desc) (i : Nat) (env env' : Env)
    (h : (client H d).sig env (nodeKey i) = (client H d').sig env' (nodeKey i)) :
    d.isVirtual i = d'.isVirtual i ∧ d.producers i = d'.producers i :=
  C08_node_sig_tracks_producers d d' i (hH _ _ h)

/-- the `type:` node attribute names the node type it selects (F19: "directory" selected Plain) -/
theorem C08_directory_attribute : nodeTypeAttribute.lookup "directory" = some "Directory" := by decide

/-! ### non-vacuity -/

/-- two sources (nodes 0, 1), `C0: 0,1 -> 2,3`, `C1: 2 -> 4`, a virtual node 5 produced by phony `C2: 4 -> 5` -/
def exDesc : Desc :=
  { virt := [false, false, false, false, false, true],
    cmds := [{ tool := .shell, inputs := [0, 1], outputs := [2, 3], salt := 5 },
             { tool := .shell, inputs := [2], outputs := [4], salt := 9 },
             { tool := .phony, inputs := [4], outputs := [5] }],
    targets := [[4, 5]] }

def exEnv : Env := fun k => if k = 0 then 11 else if k = 3 then 21 else 0

example : exDesc.wf = true := by decide
example : ruleOf exDesc (nodeKey 0) = .fileInputNodeTask ∧ ruleOf exDesc (nodeKey 4) = .producedNodeTask ∧
    ruleOf exDesc (cmdKey 1) = .commandTask ∧ ruleOf exDesc (cmdKey 7) = .missingCommandTask := by decide
example : cleanEval exDesc exEnv 8 (nodeKey 4) = some (vExisting (mix (mix 9 (mix (mix (mix 5 10) 20) 0)) 0)) := by decide
example : cleanEval exDesc exEnv 8 (nodeKey 5) = some vVirtual := by decide
-- a missing source makes the consumer fail and the failure travels along data edges
example : cleanEval exDesc (fun _ => 0) 8 (nodeKey 4) = some vFailedInput := by decide
-- the clean value of a source is a Clean value (the hypothesis of C08_clean_is_eval is satisfiable)
example : Clean (client (fun _ => 0) exDesc) exEnv (nodeKey 0) (vExisting 10) :=
  (C08_clean_source (fun _ => 0) exDesc exEnv (nodeKey 0) _ (by decide)).2 (by decide)

end LLBuild.BuildSystemClient
