/-
C05 ("Cancellation never hangs, leaks work, or poisons later builds") and three C02 clauses, on the PRINTED TRACES and the
STATE of the transliterated engine (`Model/EngineImpl.lean` + the asynchronous schedules of `Lemmas/Refine/Async0.lean`), for
all histories `List OpC` and all schedules.  Details, and what is NOT true as first stated: notes/REFINESCHED.md §14.

C05
* `EngineImpl_sound_C05_cancel_fails` — a cancellation followed by ANY further engine work (a token other than `X`, `DI`, `DE`,
  `R`, `Z` after `X`) ends in the failed result `R 0`;
* `EngineImpl_sound_C05_returned_value_is_clean` — whatever was cancelled or reported: a build that prints `R v` with `v ≠ 0`
  printed no `CY`/`ER` and `v` is THE clean value (so a cancellation racing with the end of the build can at worst let the
  correct value through); `EngineImpl_sound_C05_failure_returns_zero`: `CY`/`ER` ⇒ `R 0`;
* `C05_no_token_characterisation` (by `decide`): NO condition on the tokens up to and including `X` decides whether the build
  fails: two runs print the same tokens up to `DE`, one ends `R 0`, the other returns the value;
* `EngineImpl_sound_C05_persisted_only_completed` — store rows change only at `DS k row`, to `row`, and every `DS k` is preceded
  by `C k v f`;
* `EngineImpl_sound_C05_later_builds_clean` (+ `_after_restart`) — a `Succeeded` build right after a cancelled one returns
  the clean value;
* `EngineImpl_sound_C05_no_callback_after_return` — every trace ends `R v ; Z 0 0`, no other `R`/`Z` anywhere.

C02 (corollaries of the reference `MustRun` read off the CONCRETE state, `snapC`)
* `EngineImpl_sound_C02_executed_reference_concrete`, `EngineImpl_sound_C02_identical_value_no_rerun`,
  `EngineImpl_sound_C02_order_only_never_triggers`, `EngineImpl_sound_C02_null_build`.
-/
import LLBuild.Props.EngineImplSched2
import LLBuild.Props.C02
import LLBuild.Props.EngineImplCrash
import LLBuild.Lemmas.Refine.Sched5Snap
import LLBuild.Lemmas.Refine.Sched5CancelFinal

set_option linter.unusedVariables false

namespace LLBuild.Refine
open LLBuild.Engine LLBuild.Engine.DSL LLBuild.EngineImpl

deriving instance DecidableEq for LLBuild.EngineImpl.Tok

/-! ## C05 (1): when does a cancelled build fail -/

/-- **C05 (a cancellation followed by any further work fails).**  If, after `X`, the trace contains any token other than
`X`, `DI _`, `DE`, `R _`, `Z _ _` — the engine scanned, started, fed, completed or persisted anything after the cancellation
was recorded — the build prints `R 0`. -/
theorem EngineImpl_sound_C05_cancel_fails {rules : List RuleSpec} (hok : RulesOk rules) (ops : List OpC) (key : Nat)
    (hs : histSizedC rules ops (opProgram rules {}))
    (hk : workBound rules (runOpsC ops (opProgram rules {})) key + 2 < scanFuel)
    (c : Nat) (sched : List SchedItem) (a : Async) (pre post : List Tok) (t : Tok) :
    let s := runOpsC ops (opProgram rules {})
    (runBuildA key c sched a s).trace.reverse = pre ++ Tok.X :: post → t ∈ post → Tok.isLate t = false →
    ∃ q, (runBuildA key c sched a s).trace.reverse = q ++ [Tok.R 0, Tok.Z 0 0] := by
  intro s htr ht hw
  obtain ⟨_, m0, _, _, hrel, _⟩ := refinement_final_crash_committed hok ops hs
  have hnh := build_terminates_async hok hrel key c sched a hk
  obtain ⟨q, n, hq⟩ := runBuildA_cancel_then_work hok hrel key c sched a hnh htr ht hw
  obtain ⟨rest, v, x, h0, _, _⟩ := runBuildA_trace_shape0 (workLoopA_final rules hok) hrel key c sched a hnh
  -- the counters of `Z` are `0 0`
  have : n = 0 := by
    have h1 : (runBuildA key c sched a s).trace.reverse.getLast? = some (Tok.Z n 0) := by
      rw [hq, show q ++ [Tok.R 0, Tok.Z n 0] = (q ++ [Tok.R 0]) ++ [Tok.Z n 0] by simp, List.getLast?_concat]
    have h2 : (runBuildA key c sched a s).trace.reverse.getLast? = some (Tok.Z 0 0) := by
      rw [h0, show (Tok.B key :: rest) ++ Tok.DE :: (x ++ [Tok.R v, Tok.Z 0 0]) =
        ((Tok.B key :: rest) ++ Tok.DE :: (x ++ [Tok.R v])) ++ [Tok.Z 0 0] by simp, List.getLast?_concat]
    rw [h1] at h2; cases h2; rfl
  subst this
  exact ⟨q, hq⟩

/-- the only `R` token of a trace of the shape `B key :: rest ++ DE :: x ++ [R v, Z 0 0]` -/
theorem shape_ret_unique {key : Key} {rest x : List Tok} {v w : Val} (hx : x = [] ∨ x = [Tok.X])
    (hc : ∀ t ∈ rest, Tok.isClose t = false)
    (h : Tok.R w ∈ (Tok.B key :: rest) ++ Tok.DE :: (x ++ [Tok.R v, Tok.Z 0 0])) : w = v := by
  rcases List.mem_append.1 h with e | e
  · rcases List.mem_cons.1 e with e | e
    · cases e
    · have := hc _ e; cases this
  · rcases List.mem_cons.1 e with e | e
    · cases e
    · rcases List.mem_append.1 e with e | e
      · rcases hx with hx | hx <;> subst hx
        · cases e
        · simp only [List.mem_cons, List.not_mem_nil, or_false] at e; cases e
      · simp only [List.mem_cons, List.not_mem_nil, or_false] at e
        rcases e with e | e
        · cases e; rfl
        · cases e

/-- **C05 (a failure is reported as the empty value).**  A trace that contains `CY _` or `ER _` prints `R 0`. -/
theorem EngineImpl_sound_C05_failure_returns_zero {rules : List RuleSpec} (hok : RulesOk rules) (ops : List OpC) (key : Nat)
    (hs : histSizedC rules ops (opProgram rules {}))
    (hk : workBound rules (runOpsC ops (opProgram rules {})) key + 2 < scanFuel)
    (c : Nat) (sched : List SchedItem) (a : Async) (t : Tok) (v : Val) :
    let s := runOpsC ops (opProgram rules {})
    t ∈ (runBuildA key c sched a s).trace.reverse → (Tok.isCY t = true ∨ Tok.isER t = true) →
    Tok.R v ∈ (runBuildA key c sched a s).trace.reverse → v = 0 := by
  intro s ht hcyer hR
  obtain ⟨_, m0, _, _, hrel, _⟩ := refinement_final_crash_committed hok ops hs
  obtain ⟨rest, v', x, pre, m1, m2, m', htr, hx, hnc, hpre, hret, _, _, _, hfl, _, _, _, _⟩ :=
    build_general hok hrel key c sched a hk
  rw [htr] at ht hR
  have hv : v = v' := shape_ret_unique hx hnc hR
  subst hv
  by_cases hne : v = 0
  · exact hne
  exfalso
  obtain ⟨hcy, her, _, _⟩ := step_ret_nonzero hret hne
  -- the token lies in `rest`
  have htr' : t ∈ rest := by
    simp only [List.cons_append, List.mem_cons, List.mem_append, List.not_mem_nil, or_false] at ht
    rcases ht with e | e | e | e | e | e
    · subst e; rcases hcyer with h | h <;> cases h
    · exact e
    · subst e; rcases hcyer with h | h <;> cases h
    · rcases hx with hx | hx <;> subst hx
      · cases e
      · simp only [List.mem_cons, List.not_mem_nil, or_false] at e; subst e; rcases hcyer with h | h <;> cases h
    · subst e; rcases hcyer with h | h <;> cases h
    · subst e; rcases hcyer with h | h <;> cases h
  rcases hcyer with h | h
  · have := hfl.cy (List.any_eq_true.2 ⟨t, htr', h⟩); rw [hcy] at this; cases this
  · have := hfl.er (List.any_eq_true.2 ⟨t, htr', h⟩); rw [her] at this; cases this

/-- **C05 (whatever was cancelled, a returned value is the clean value).**  After a history in which nothing was dropped,
ANY run of a build — cancelled at any point by any thread or not — that prints `R v` with `v ≠ 0` printed neither `CY` nor
`ER`, and `v` is the value a brand-new engine computes for `key` in the current external state.  (A `cancelBuild()` that
arrives after the last loop-top check lets `build()` return: what it returns is then the correct value.) -/
theorem EngineImpl_sound_C05_returned_value_is_clean {rules : List RuleSpec} (hok : RulesOk rules)
    (hwf : DSL.wf rules = true) (ops : List OpC) (key : Nat)
    (hs : histSizedC rules ops (opProgram rules {}))
    (hk : workBound rules (runOpsC ops (opProgram rules {})) key + 2 < scanFuel)
    (hnd : histDropped ops (opProgram rules {}) false = false)
    (c : Nat) (sched : List SchedItem) (a : Async) (v : Val) :
    let s := runOpsC ops (opProgram rules {})
    Tok.R v ∈ (runBuildA key c sched a s).trace.reverse → v ≠ 0 →
    Clean (program rules) s.env key v ∧
      ∀ t ∈ (runBuildA key c sched a s).trace.reverse, Tok.isCY t = false ∧ Tok.isER t = false := by
  intro s hR hne
  obtain ⟨evs0, m0, _, hr0, hrel, _, hd, _⟩ := sched_history hok ops _ _ (RelIdle.init rules) Committed.init hs
  have hd0 : m0.pendingDropped = false := hd.trans hnd
  obtain ⟨rest, v', x, pre, m1, m2, m', htr, hx, hnc, hpre, hret, htgt, henv, hpd, _, _, _, _, _⟩ :=
    build_general hok hrel key c sched a hk
  have hv : v = v' := by rw [htr] at hR; exact shape_ret_unique hx hnc hR
  subst hv
  obtain ⟨_, _, _, root, hroot, hdone, hval, hpend⟩ := step_ret_nonzero hret hne
  rw [htgt] at hroot; cases hroot
  have hpd1 : m1.pendingDropped = false := by rw [hpd, hd0, hpend]; rfl
  have hrun : run (program rules) {} (evs0 ++ pre) = some m1 := by rw [run_append, hr0]; exact hpre
  have hi := reach_inv (program_WF hwf) hrun hpd1
  refine ⟨?_, ?_⟩
  · have := hi.clean key hdone
    rw [← hval, henv] at this; exact this
  · intro t ht
    constructor
    · cases h : Tok.isCY t with
      | false => rfl
      | true => exact absurd (EngineImpl_sound_C05_failure_returns_zero hok ops key hs hk c sched a t v ht (Or.inl h) hR) hne
    · cases h : Tok.isER t with
      | false => rfl
      | true => exact absurd (EngineImpl_sound_C05_failure_returns_zero hok ops key hs hk c sched a t v ht (Or.inr h) hR) hne

/-! ## C05 (2): what a build leaves in the store -/

/-- **C05 (only completed work is persisted).**  For ANY build (cancelled, failed or not): every row of the store afterwards
is the row it had before or the `row` of a `DS k row` token of this build's trace; and every `DS k row` of the trace is
preceded by a `C k v f`: the task of `k` really completed. -/
theorem EngineImpl_sound_C05_persisted_only_completed {rules : List RuleSpec} (hok : RulesOk rules) (ops : List OpC) (key : Nat)
    (hs : histSizedC rules ops (opProgram rules {}))
    (hk : workBound rules (runOpsC ops (opProgram rules {})) key + 2 < scanFuel)
    (c : Nat) (sched : List SchedItem) (a : Async) :
    let s := runOpsC ops (opProgram rules {})
    (∀ k row, (runBuildA key c sched a s).store.rows.lookup k = some row →
      s.store.rows.lookup k = some row ∨ Tok.DS k row ∈ (runBuildA key c sched a s).trace.reverse) ∧
    (∀ pre k row post, (runBuildA key c sched a s).trace.reverse = pre ++ Tok.DS k row :: post →
      ∃ v f, Tok.C k v f ∈ pre) := by
  intro s
  obtain ⟨_, m0, _, _, hrel, _⟩ := refinement_final_crash_committed hok ops hs
  exact ⟨fun k row h => build_store_rows hok hrel key c sched a hk k row h,
    fun pre k row post h => build_DS_after_C hok hrel key c sched a hk h⟩

/-! ## C05 (3): later builds -/

/-- **C05 (a cancelled build does not poison the next one), same engine.**  The last op of the history is a build whose
trace contains `X`; nothing was dropped (`histDropped`, decidable on the traces — it is what can go wrong: F22); then a
`Succeeded` build of any key returns the clean value. -/
theorem EngineImpl_sound_C05_later_builds_clean {rules : List RuleSpec} (hok : RulesOk rules) (hwf : DSL.wf rules = true)
    (ops : List OpC) (k0 c0 : Nat) (sched0 : List SchedItem) (a0 : Async) (key : Nat)
    (hs : histSizedC rules (ops ++ [.build k0 c0 sched0 a0]) (opProgram rules {}))
    (hX : Tok.X ∈ (runBuildA k0 c0 sched0 a0 (runOpsC ops (opProgram rules {}))).trace.reverse)
    (hk : workBound rules (runOpsC (ops ++ [.build k0 c0 sched0 a0]) (opProgram rules {})) key + 2 < scanFuel)
    (hnd : histDropped (ops ++ [.build k0 c0 sched0 a0]) (opProgram rules {}) false = false)
    (c : Nat) (sched : List SchedItem) (a : Async) (v : Val) :
    let s := runOpsC (ops ++ [.build k0 c0 sched0 a0]) (opProgram rules {})
    Succeeded (runBuildA key c sched a s).trace.reverse v → Clean (program rules) s.env key v :=
  EngineImpl_sound_C06_clean_value hok hwf _ key hs hk hnd c sched a v

/-- … and through the database: a NEW engine attached to the store the cancelled build left -/
theorem EngineImpl_sound_C05_later_builds_clean_after_restart {rules : List RuleSpec} (hok : RulesOk rules)
    (hwf : DSL.wf rules = true)
    (ops : List OpC) (k0 c0 : Nat) (sched0 : List SchedItem) (a0 : Async) (key : Nat)
    (hs : histSizedC rules (ops ++ [.build k0 c0 sched0 a0, .restart]) (opProgram rules {}))
    (hX : Tok.X ∈ (runBuildA k0 c0 sched0 a0 (runOpsC ops (opProgram rules {}))).trace.reverse)
    (hk : workBound rules (runOpsC (ops ++ [.build k0 c0 sched0 a0, .restart]) (opProgram rules {})) key + 2 < scanFuel)
    (hnd : histDropped (ops ++ [.build k0 c0 sched0 a0, .restart]) (opProgram rules {}) false = false)
    (c : Nat) (sched : List SchedItem) (a : Async) (v : Val) :
    let s := runOpsC (ops ++ [.build k0 c0 sched0 a0, .restart]) (opProgram rules {})
    Succeeded (runBuildA key c sched a s).trace.reverse v → Clean (program rules) s.env key v :=
  EngineImpl_sound_C06_clean_value hok hwf _ key hs hk hnd c sched a v

/-! ## C05 (4): nothing after the return -/

/-- **C05 (no callback after `build()` returned).**  Every trace is `pre ++ [R v, Z 0 0]` with no `R` and no `Z` in `pre`:
after `R` only the harness's post-return counters follow, and they are `Z 0 0` — no task alive, no callback after the
return. -/
theorem EngineImpl_sound_C05_no_callback_after_return {rules : List RuleSpec} (hok : RulesOk rules) (ops : List OpC) (key : Nat)
    (hs : histSizedC rules ops (opProgram rules {}))
    (hk : workBound rules (runOpsC ops (opProgram rules {})) key + 2 < scanFuel)
    (c : Nat) (sched : List SchedItem) (a : Async) :
    let s := runOpsC ops (opProgram rules {})
    ∃ pre v, (runBuildA key c sched a s).trace.reverse = pre ++ [Tok.R v, Tok.Z 0 0] ∧
      ∀ t ∈ pre, Tok.isZ t = false ∧ ∀ w, t ≠ Tok.R w := by
  intro s
  obtain ⟨_, m0, _, _, hrel, _⟩ := refinement_final_crash_committed hok ops hs
  have hnh := build_terminates_async hok hrel key c sched a hk
  obtain ⟨rest, v, x, h, hx, hnc⟩ := runBuildA_trace_shape0 (workLoopA_final rules hok) hrel key c sched a hnh
  refine ⟨(Tok.B key :: rest) ++ Tok.DE :: x, v, by rw [h]; simp, ?_⟩
  intro t ht
  rcases List.mem_append.1 ht with e | e
  · have := hnc t e
    constructor
    · exact (isClose_false this).2
    · intro w hw; subst hw; cases this
  · rcases List.mem_cons.1 e with e | e
    · subst e; exact ⟨rfl, fun w hw => by cases hw⟩
    · rcases hx with hx | hx <;> subst hx
      · cases e
      · simp only [List.mem_cons, List.not_mem_nil, or_false] at e; subst e
        exact ⟨rfl, fun w hw => by cases hw⟩

/-! ## C02: clauses of the reference, on the concrete state -/

/-- **C02/C06 (the executed set, from the concrete state).**  For every run without `X`/`CY`/`ER` of the next build:
`T k` is printed iff `MustRun (program rules) (snapC rules s) key k`, where `snapC rules s` reads the CONCRETE engine state
`s` (external state, epoch, for every rule the result the engine holds — in memory, else the database row — and its
signature). -/
theorem EngineImpl_sound_C02_executed_reference_concrete {rules : List RuleSpec} (hok : RulesOk rules)
    (hdet : DSL.det rules = true) (ops : List OpC) (key : Nat)
    (hs : histSizedC rules ops (opProgram rules {}))
    (hk : workBound rules (runOpsC ops (opProgram rules {})) key + 2 < scanFuel)
    (c : Nat) (sched : List SchedItem) (a : Async) (k : Key) :
    let s := runOpsC ops (opProgram rules {})
    NoFail (runBuildA key c sched a s).trace.reverse →
    (Tok.T k ∈ (runBuildA key c sched a s).trace.reverse ↔ MustRun (program rules) (snapC rules s) key k) := by
  intro s hnf
  obtain ⟨evs0, m0, _, hr0, hrel, _⟩ := refinement_final_crash_committed hok ops hs
  exact build_executed_iff_concrete hok hdet hrel (reach_inv2 hr0) key c sched a hk hnf k

/-- **C02 (order-only dependencies never trigger a re-run).**  If the result the engine holds for `k` is reusable (built,
signature current, accepted by the rule) and every recorded dependency of `k` that is NOT order-only comes out of the
build no newer than `k`'s `builtAt`, then no run of the build without `X`/`CY`/`ER` executes `k` — however the keys it
records as order-only (must-follow) dependencies changed. -/
theorem EngineImpl_sound_C02_order_only_never_triggers {rules : List RuleSpec} (hok : RulesOk rules)
    (hdet : DSL.det rules = true) (ops : List OpC) (key : Nat)
    (hs : histSizedC rules ops (opProgram rules {}))
    (hk : workBound rules (runOpsC ops (opProgram rules {})) key + 2 < scanFuel) (k : Key)
    (hre : (snapC rules (runOpsC ops (opProgram rules {}))).reusable (program rules) k)
    (hdeps : ∀ d ∈ (snapC rules (runOpsC ops (opProgram rules {}))).deps k, d.orderOnly = false →
      ∀ b v c, Ref (program rules) (snapC rules (runOpsC ops (opProgram rules {}))) d.key b v c →
        c ≤ ((snapC rules (runOpsC ops (opProgram rules {}))).res k).builtAt)
    (c : Nat) (sched : List SchedItem) (a : Async) :
    let s := runOpsC ops (opProgram rules {})
    NoFail (runBuildA key c sched a s).trace.reverse → Tok.T k ∉ (runBuildA key c sched a s).trace.reverse := by
  intro s hnf hT
  exact C02_order_only_never_triggers hre hdeps
    ((EngineImpl_sound_C02_executed_reference_concrete hok hdet ops key hs hk c sched a k hnf).1 hT)

/-- **C02 (a dependency that re-runs but produces the stored value does not make its dependents run).**  `k` reusable;
every non-order-only recorded dependency `d` was computed no later than `k` was built, is not forced, and comes out of the
build with the value the engine holds for it (found up to date, or RE-RUN with the same output): then `k` is not executed. -/
theorem EngineImpl_sound_C02_identical_value_no_rerun {rules : List RuleSpec} (hok : RulesOk rules)
    (hdet : DSL.det rules = true) (ops : List OpC) (key : Nat)
    (hs : histSizedC rules ops (opProgram rules {}))
    (hk : workBound rules (runOpsC ops (opProgram rules {})) key + 2 < scanFuel) (k : Key)
    (hre : (snapC rules (runOpsC ops (opProgram rules {}))).reusable (program rules) k)
    (hdeps : ∀ d ∈ (snapC rules (runOpsC ops (opProgram rules {}))).deps k, d.orderOnly = false →
      ((snapC rules (runOpsC ops (opProgram rules {}))).res d.key).computedAt ≤
        ((snapC rules (runOpsC ops (opProgram rules {}))).res k).builtAt ∧
      (program rules).force d.key = false ∧
      ∀ b v c, Ref (program rules) (snapC rules (runOpsC ops (opProgram rules {}))) d.key b v c →
        v = ((snapC rules (runOpsC ops (opProgram rules {}))).res d.key).value)
    (c : Nat) (sched : List SchedItem) (a : Async) :
    let s := runOpsC ops (opProgram rules {})
    NoFail (runBuildA key c sched a s).trace.reverse → Tok.T k ∉ (runBuildA key c sched a s).trace.reverse := by
  intro s hnf hT
  exact C02_identical_value_no_rerun hre hdeps
    ((EngineImpl_sound_C02_executed_reference_concrete hok hdet ops key hs hk c sched a k hnf).1 hT)

/-! ### the null build -/

theorem runOpsC_append : ∀ (a b : List OpC) (s : State), runOpsC (a ++ b) s = runOpsC b (runOpsC a s)
  | [], _, _ => rfl
  | op :: a, b, s => by simp only [List.cons_append, runOpsC]; exact runOpsC_append a b _

theorem step_ret_facts {P : Program} {m m' : Engine.St} {v : Val} (h : step P m (.ret v) = some m') :
    m.returned = false ∧ m'.registered = m.registered ∧ m'.env = m.env := by
  simp only [step] at h
  split at h
  · cases h
  · split at h
    · cases h
    · rename_i hr
      split at h
      · cases h; exact ⟨by simpa using hr, rfl, rfl⟩
      · split at h
        · cases h; exact ⟨by simpa using hr, rfl, rfl⟩
        · cases h

theorem step_tail_facts {P : Program} {m m' : Engine.St} {a b : Nat} (h : step P m (.tail a b) = some m') :
    m'.registered = m.registered ∧ m'.env = m.env := by
  simp only [step] at h
  split at h
  · cases h; exact ⟨rfl, rfl⟩
  · cases h

/-- **C02 (a null build runs nothing), on the concrete engine.**  The last op of the history is a build of `key` whose
trace contains no `X`/`CY`/`ER` (it succeeded); nothing was dropped before it; the rules accept the values the engine holds
afterwards (`hvalid`: a client fact — e.g. a command's outputs are as it left them; for the DSL: no rule with `validMode = 1`,
flags of `validMode = 2` rules down).  Then building `key` again right away — same engine, nothing external changed — executes
NOTHING: no `T` token, in the trace of ANY schedule, cancelled or not. -/
theorem EngineImpl_sound_C02_null_build {rules : List RuleSpec} (hok : RulesOk rules) (hwf : DSL.wf rules = true)
    (ops : List OpC) (key c0 : Nat) (sched0 : List SchedItem) (a0 : Async)
    (hs : histSizedC rules (ops ++ [.build key c0 sched0 a0]) (opProgram rules {}))
    (hnd : histDropped ops (opProgram rules {}) false = false)
    (hsucc : NoFail (runBuildA key c0 sched0 a0 (runOpsC ops (opProgram rules {}))).trace.reverse)
    (hvalid : ∀ k ri, (runOpsC (ops ++ [.build key c0 sched0 a0]) (opProgram rules {})).ruleInfos.lookup k = some ri →
      validOf (specOf rules k) (runOpsC (ops ++ [.build key c0 sched0 a0]) (opProgram rules {})).env ri.result.value = true)
    (hk2 : workBound rules (runOpsC (ops ++ [.build key c0 sched0 a0]) (opProgram rules {})) key + 2 < scanFuel)
    (c : Nat) (sched : List SchedItem) (a : Async) (k : Key) :
    Tok.T k ∉ (runBuildA key c sched a (runOpsC (ops ++ [.build key c0 sched0 a0]) (opProgram rules {}))).trace.reverse := by
  have hP : (program rules).WF := program_WF hwf
  obtain ⟨hs1, hs2⟩ := (histSizedC_append rules ops _ _).1 hs
  have hk1 : workBound rules (runOpsC ops (opProgram rules {})) key + 2 < scanFuel := by simpa [histSizedC] using hs2.1
  have hs1eq : runOpsC (ops ++ [.build key c0 sched0 a0]) (opProgram rules {}) =
      runBuildA key c0 sched0 a0 (runOpsC ops (opProgram rules {})) := by
    rw [runOpsC_append]; rfl
  rw [hs1eq] at hvalid hk2 ⊢
  obtain ⟨evs0, m0, _, hr0, hrel0, _, hd, _⟩ := sched_history hok ops _ _ (RelIdle.init rules) Committed.init hs1
  have hd0 : m0.pendingDropped = false := hd.trans hnd
  -- the first build
  obtain ⟨rest, v, x, pre, m1, m2, m', htr, hx, hnc, hpre, hret, htgt, henv, hpd, _, _, hrel1, hZ, hnfl⟩ :=
    build_general hok hrel0 key c0 sched0 a0 hk1
  have hnf1 : NoFail (rest ++ x) := by
    rw [htr] at hsucc
    apply NoFail.of_mem
    intro t ht
    apply hsucc.mem
    rcases List.mem_append.1 ht with e | e
    · exact List.mem_append_left _ (List.mem_cons_of_mem _ e)
    · exact List.mem_append_right _ (List.mem_cons_of_mem _ (List.mem_append_left _ e))
  have hfl := hnfl hnf1
  obtain ⟨root, hroot, hdone, hpend, _⟩ := step_ret_dry hret hfl
  rw [htgt] at hroot; cases hroot
  obtain ⟨hnret, hreg2, henv2⟩ := step_ret_facts hret
  obtain ⟨hreg3, henv3⟩ := step_tail_facts hZ
  have hpd1 : m1.pendingDropped = false := by rw [hpd, hd0, hpend]; rfl
  have hrunA : run (program rules) {} (evs0 ++ pre) = some m1 := by rw [run_append, hr0]; exact hpre
  have h1 : run (program rules) m1 [.ret v, .tail 0 0] = some m' := by simp [run, hret, hZ]
  have hkeep : ∀ e ∈ [Event.ret v, Event.tail 0 0], e.keepsRecords = true := by
    intro e he
    simp only [List.mem_cons, List.not_mem_nil, or_false] at he
    rcases he with e1 | e1 <;> subst e1 <;> rfl
  have hi2 : Inv2 m1 := reach_inv2 hrunA
  have hv : ∀ k', m1.status k' = .done →
      (program rules).valid m1.env k' (m1.mem.res k').value = true := by
    intro k' hk'
    have hreg : m'.registered k' = true := by
      rw [hreg3, hreg2]; exact hi2.reg k' (by rw [hk']; exact fun e => by cases e)
    rw [hrel1.reg k'] at hreg
    cases hl : (runBuildA key c0 sched0 a0 (runOpsC ops (opProgram rules {}))).ruleInfos.lookup k' with
    | none => rw [hl] at hreg; cases hreg
    | some ri =>
      have hval := hvalid k' ri hl
      have e1 : (m'.mem.res k').value = ri.result.value := (hrel1.res k' ri hl).1
      have e2 := keepsRecords_values [.ret v, .tail 0 0] m1 m' h1 hkeep k'
      have e3 : m1.env = (runBuildA key c0 sched0 a0 (runOpsC ops (opProgram rules {}))).env := by
        rw [← hrel1.env, henv3, henv2]
      show validOf (specOf rules k') m1.env (m1.mem.res k').value = true
      rw [← e2, e1, e3]; exact hval
  -- the second build
  have hloop := workLoopA_final rules hok
  have hnh := build_terminates_async hok hrel1 key c sched a hk2
  obtain ⟨m'', hrun2, _⟩ := runBuildA_sim hloop hrel1 key c sched a hnh
  obtain ⟨rest2, v2, x2, htr2, hx2, hnc2⟩ := runBuildA_trace_shape0 hloop hrel1 key c sched a hnh
  have hL : (Tok.B key :: rest2) ++ Tok.DE :: (x2 ++ [Tok.R v2, Tok.Z 0 0]) =
      (Tok.B key :: (rest2 ++ Tok.DE :: x2)) ++ [Tok.R v2, Tok.Z 0 0] := by simp
  rw [htr2, hL] at hrun2
  obtain ⟨msL, hrunL, _⟩ := trun_prefix hrun2
  have hall : ∀ t ∈ rest2 ++ Tok.DE :: x2, Tok.isClose t = false ∨ t = .DE := by
    intro t ht
    rcases List.mem_append.1 ht with e | e
    · exact Or.inl (hnc2 t (List.mem_cons_of_mem _ e))
    · rcases List.mem_cons.1 e with e | e
      · exact Or.inr e
      · rcases hx2 with e' | e' <;> rw [e'] at e
        · cases e
        · simp only [List.mem_cons, List.not_mem_nil, or_false] at e; subst e; exact Or.inl rfl
  -- events of the second build up to (not including) `R`
  obtain ⟨evs, hevs, hrunE⟩ := trun_evOfToks _ _ _ hrunL
  have hevs' : evOfToks none (Tok.B key :: (rest2 ++ Tok.DE :: x2)) =
      (evOfToks none (rest2 ++ Tok.DE :: x2)).map (fun b => Event.buildStart key :: b) := by
    simp [evOfToks, Tok.isS2, Tok.toEvent?]
  rw [hevs'] at hevs
  cases hev2 : evOfToks none (rest2 ++ Tok.DE :: x2) with
  | none => rw [hev2] at hevs; cases hevs
  | some evs2 =>
    rw [hev2] at hevs
    simp only [Option.map_some, Option.some.injEq] at hevs
    subst hevs
    have hone : ∀ e ∈ evs2, e.endsBuild = false := by
      apply evOfToks_noEnd hev2
      intro t ht
      rcases hall t ht with e | e
      · exact (isClose_false e).2
      · subst e; rfl
    have hnull := C02_null_build_after_build hP hrunA hpd1 hnret hpend hv h1 hkeep hdone hrunE hone
    -- `ran` of the monitor = the `T` tokens
    simp only [trun] at hrunL
    cases hB : tstep (program rules) ⟨m', none⟩ (.B key) with
    | none => rw [hB] at hrunL; simp at hrunL
    | some ms1 =>
      rw [hB] at hrunL; simp only [Option.bind_some] at hrunL
      obtain ⟨_, ht1, _, _⟩ := tstep_B hB
      have hran1 : ms1.m.ran = [] := by
        have hst := tstep_ev_inv hB (e := .buildStart key) rfl
        simp only [step] at hst
        split at hst
        · cases ms1; simp only [Option.some.injEq] at hst; subst hst; rfl
        · cases hst
      have hran := trun_ran _ ms1 msL hrunL hall (by rw [ht1]; rfl)
      rw [hran1, List.append_nil, hnull.2.1] at hran
      have hnil : (rest2 ++ Tok.DE :: x2).filterMap Tok.tKey = [] := by
        have := congrArg List.reverse hran
        simpa using this.symm
      intro hT
      rw [htr2, hL] at hT
      have hT' : Tok.T k ∈ rest2 ++ Tok.DE :: x2 := by
        rcases List.mem_append.1 hT with e | e
        · rcases List.mem_cons.1 e with e | e
          · cases e
          · exact e
        · simp only [List.mem_cons, List.not_mem_nil, or_false] at e
          rcases e with e | e <;> cases e
      have := mem_tKeys.2 hT'
      rw [hnil] at this; cases this

/-! ## examples (all by `decide`) -/

/-- another thread calls `cancelBuild()` at the `(j+1)`-th item boundary -/
def cancelAtBoundary (j : Nat) : Async := List.replicate j ({} : SchedItem) ++ [{ cancel := true }]

/-- the state of the `oooRules` engine (Props/EngineImplSched2.lean) with its inputs set, nothing built yet -/
def lateS : State := runOpsC [.mutate 1 55, .mutate 4 77] (opProgram oooRules {})

/-- `cancelBuild()` at the boundary BEFORE the last loop-top check … -/
def lateT31 : List Tok := (runBuildA 3 0 [] (cancelAtBoundary 31) lateS).trace.reverse
/-- … and at the first boundary AFTER it -/
def lateT32 : List Tok := (runBuildA 3 0 [] (cancelAtBoundary 32) lateS).trace.reverse

set_option maxRecDepth 16000 in
/-- **No condition on the tokens up to `X` (or up to `DE`) characterises failure.**  The two runs print THE SAME 37
tokens `B 3 ; … ; DS 4 … ; X ; DI 1 ; DE` — all the work of the build, then `X`, then the epilogue —; the first ends `R 0`
(the cancellation arrived before the last loop-top check of `executeTasks`), the second returns the value (it arrived
after it): the late-cancel edge.  In both, only `DI`, `DE`, `R`, `Z` follow `X`, so `EngineImpl_sound_C05_cancel_fails` says
nothing, and `EngineImpl_sound_C05_returned_value_is_clean` says the returned value is the clean one. -/
theorem C05_no_token_characterisation :
    lateT31.length = 39 ∧ lateT32.length = 39 ∧ lateT31.take 37 = lateT32.take 37 ∧
    lateT31.drop 34 = [.X, .DI 1, .DE, .R 0, .Z 0 0] ∧
    lateT32.drop 34 = [.X, .DI 1, .DE, .R 9370279077420899936, .Z 0 0] := by
  decide +kernel

set_option maxRecDepth 16000 in
/-- a cancellation in the middle: work follows `X`, the build fails, and the rows `1`, `3` written before the end are
exactly the `DS` tokens of the trace (each after its `C`) -/
example :
    (runBuildA 3 0 [] (cancelAtBoundary 12) lateS).trace.reverse.drop 19 =
      [.X, .PV 3 7 1 55 [], .IA 3 [4], .C 3 9370279077420899936 0, .S 3 2, .L 4, .G 4 false,
       .DS 3 { value := 9370279077420899936, sig := 0, computedAt := 1, builtAt := 1,
               deps := [⟨1, false, false⟩, ⟨4, false, false⟩] }, .DI 1, .DE, .R 0, .Z 0 0] ∧
    ((runBuildA 3 0 [] (cancelAtBoundary 12) lateS).store.rows.map (fun p => p.1)) = [1, 3] := by
  decide +kernel

/-- the history of `Props/EngineImplSched.lean` cut after its cancelled build: the LAST op is a build that printed `X` -/
def lastCancelledOps : List OpC := [.mutate 1 55, .mutate 2 66, .mutate 4 77, .build 3 10 [] []]

set_option maxRecDepth 16000 in
/-- later builds after a cancelled one, on the same engine and through the database: nothing was dropped, the next build
`Succeeded` with the same (clean) value both ways; the cancelled build had persisted nothing (it was cancelled before any
task finished) -/
example :
    Tok.X ∈ (runBuildA 3 10 [] [] (runOpsC [.mutate 1 55, .mutate 2 66, .mutate 4 77] (opProgram schRules {}))).trace.reverse ∧
    histDropped lastCancelledOps (opProgram schRules {}) false = false ∧
    histDropped (lastCancelledOps ++ [.restart]) (opProgram schRules {}) false = false ∧
    Succeeded (runBuildA 3 0 [] [] (runOpsC lastCancelledOps (opProgram schRules {}))).trace.reverse 4378820161699468922 ∧
    Succeeded (runBuildA 3 0 [] [] (runOpsC (lastCancelledOps ++ [.restart]) (opProgram schRules {}))).trace.reverse
      4378820161699468922 := by
  decide

/-- inputs `1`; `2` derived from `1` with a CONSTANT output (`vmod = 1`); `3` derived from `2` -/
def idRules : List RuleSpec :=
  [{ key := 1 }, { key := 2, kind := 1, statics := [⟨1, 7, 0⟩], vmod := 1 }, { key := 3, kind := 1, statics := [⟨2, 7, 0⟩] }]

set_option maxRecDepth 16000 in
/-- **identical value, no re-run**: after input `1` changed, `1` and `2` are executed; `2` produces the stored value again
(`C 2 1 0`, its row keeps `computedAt = 1`), and `3` is found up to date (`S 3 1`), not executed -/
example :
    (runBuildA 3 0 [] [] (runOpsC [.mutate 1 5, .build 3 0 [] [], .mutate 1 6] (opProgram idRules {}))).trace.reverse.filterMap
      Tok.tKey = [1, 2] ∧
    NoFail (runBuildA 3 0 [] [] (runOpsC [.mutate 1 5, .build 3 0 [] [], .mutate 1 6] (opProgram idRules {}))).trace.reverse := by
  decide

/-- inputs `1`, `5`; `3` requests the value of `1` and must FOLLOW `5` (kind 2: an order-only dependency) -/
def ooRules : List RuleSpec :=
  [{ key := 1 }, { key := 5 }, { key := 3, kind := 1, statics := [⟨1, 7, 0⟩, ⟨5, 8, 2⟩] }]

set_option maxRecDepth 16000 in
/-- **order-only dependencies never trigger**: only `5` changed; `5` is executed, `3` is not -/
example :
    (runBuildA 3 0 [] [] (runOpsC [.mutate 1 5, .mutate 5 9, .build 3 0 [] [], .mutate 5 10] (opProgram ooRules {}))).trace.reverse.filterMap
      Tok.tKey = [5] ∧
    NoFail (runBuildA 3 0 [] [] (runOpsC [.mutate 1 5, .mutate 5 9, .build 3 0 [] [], .mutate 5 10] (opProgram ooRules {}))).trace.reverse := by
  decide

set_option maxRecDepth 16000 in
/-- **null build**: right after the successful build of `3` (history `schOps ++ [build 3]`), building `3` again executes
nothing — synchronously, and with a cancellation at event 7 and completions requested by another thread -/
example :
    NoFail (runBuildA 3 0 [] [] (runOpsC schOps (opProgram schRules {}))).trace.reverse ∧
    (runBuildA 3 0 [] [] (runOpsC (schOps ++ [.build 3 0 [] []]) (opProgram schRules {}))).trace.reverse.filterMap Tok.tKey = [] ∧
    (runBuildA 3 7 [] (List.replicate 5 { keys := [2] }) (runOpsC (schOps ++ [.build 3 0 [] []]) (opProgram schRules {}))).trace.reverse.filterMap
      Tok.tKey = [] ∧
    Tok.X ∈ (runBuildA 3 7 [] (List.replicate 5 { keys := [2] }) (runOpsC (schOps ++ [.build 3 0 [] []]) (opProgram schRules {}))).trace.reverse := by
  decide

/-
#print axioms EngineImpl_sound_C05_cancel_fails                  -- [propext, Classical.choice, Quot.sound]
#print axioms EngineImpl_sound_C05_returned_value_is_clean       -- [propext, Classical.choice, Quot.sound]
#print axioms EngineImpl_sound_C05_failure_returns_zero          -- [propext, Classical.choice, Quot.sound]
#print axioms EngineImpl_sound_C05_persisted_only_completed      -- [propext, Classical.choice, Quot.sound]
#print axioms EngineImpl_sound_C05_later_builds_clean            -- [propext, Classical.choice, Quot.sound]
#print axioms EngineImpl_sound_C05_no_callback_after_return      -- [propext, Classical.choice, Quot.sound]
#print axioms EngineImpl_sound_C02_executed_reference_concrete   -- [propext, Classical.choice, Quot.sound]
#print axioms EngineImpl_sound_C02_identical_value_no_rerun      -- [propext, Classical.choice, Quot.sound]
#print axioms EngineImpl_sound_C02_order_only_never_triggers     -- [propext, Classical.choice, Quot.sound]
#print axioms EngineImpl_sound_C02_null_build                    -- [propext, Classical.choice, Quot.sound]
-/
end LLBuild.Refine
