/-
C16 — Every job runs exactly once within the lane limit; every process accounted for.

"Every job submitted to an execution queue is executed exactly once before the queue is
destroyed, with never more jobs in flight than the configured number of lanes, and for every
process launch the completion callback fires exactly once with a status that reflects the
child's real fate (success for exit 0, failure for a non-zero exit, a fatal signal or a spawn
error, cancelled for an interrupt or kill signal), after all of the child's output has been
delivered in order and with the documented environment precedence.  After cancellation no new
process is started and children already running are signalled and reaped."

Property theorems only.  Models: LLBuild/Model/LaneQueue.lean, LLBuild/Model/ProcStatus.lean;
extracted tables: LLBuild/Generated/LaneQueue.lean, LLBuild/Generated/ProcStatus.lean.

Hypotheses, stated where used:
  * `0 < n`            — the queue has at least one lane (`createLaneBasedExecutionQueue(.., 0, ..)` builds a
                         queue without lanes that never runs anything; in-tree callers never pass 0)
  * no null descriptor — `QueueJob{}` makes the lane that pops it leave its loop (sentinel by design)
  * external `addJob` only before the destructor (encoded in `step`: `extAdd` needs `shutdown = false`)
NOT expressible in these models (runtime / kernel; exercised by harness/vc16.cpp only): pipes deliver all
output in order before EOF, wait4 reaps, signal delivery, SIGKILL escalation timing, thread memory model.
-/
import LLBuild.Lemmas.LaneQueue
import LLBuild.Lemmas.ProcStatus

namespace LLBuild.LaneQueue
open List

/-! ## (a) the lane queue: all interleavings, by inductive invariant -/

theorem dropped_nil_of_nonnull {n : Nat} {s : State} (h : Inv n s) (hnn : ∀ j ∈ s.added, j.null = false) :
    s.dropped = [] := by
  cases hd : s.dropped with
  | nil => rfl
  | cons j r =>
    have hj : j ∈ s.dropped := by simp [hd]
    have hmem : j ∈ s.added := h.perm.subset (by simp [hj])
    have := h.droppedNull j hj
    rw [hnn j hmem] at this; cases this

/-- **Every job is executed exactly once before the queue is destroyed.**
In every reachable state the executed, ready and running jobs are, as a multiset, exactly the
added jobs; if job identities are distinct no job is in two places (not running on two lanes, not
executed twice, not executed and still queued); and once every lane has exited — which is when
the destructor returns — nothing is queued or running, so *executed = added*. -/
theorem C16_exactly_once {n : Nat} {fifo : Bool} {s : State} (hn : 0 < n) (hr : Reachable n fifo s)
    (hnn : ∀ j ∈ s.added, j.null = false) :
    (s.executed ++ s.prio ++ s.normal ++ runningJobs s.lanes).Perm s.added ∧
    (s.added.Nodup → (s.executed ++ s.prio ++ s.normal ++ runningJobs s.lanes).Nodup) ∧
    (allExited s → s.prio = [] ∧ s.normal = [] ∧ runningJobs s.lanes = [] ∧ s.executed.Perm s.added) := by
  have h := inv_reachable hn hr
  have hd := dropped_nil_of_nonnull h hnn
  have hp : (s.executed ++ s.prio ++ s.normal ++ runningJobs s.lanes).Perm s.added := by
    have := h.perm; simpa [hd] using this
  refine ⟨hp, fun hnd => hp.nodup_iff.2 hnd, fun hall => ?_⟩
  have hrun : runningJobs s.lanes = [] := by
    unfold runningJobs
    rw [flatMap_eq_nil_iff]
    intro x hx; rw [hall x hx]; rfl
  have hq : s.prio = [] ∧ s.normal = [] := by
    refine Classical.byContradiction fun hne => ?_
    have hne' : s.prio ≠ [] ∨ s.normal ≠ [] := by
      by_cases h1 : s.prio = []
      · by_cases h2 : s.normal = []
        · exact absurd ⟨h1, h2⟩ hne
        · exact Or.inr h2
      · exact Or.inl h1
    obtain ⟨x, hx, ha⟩ := h.noStranding hd hne'
    rw [hall x hx] at ha; simp [Lane.awake] at ha
  refine ⟨hq.1, hq.2, hrun, ?_⟩
  simpa [hq.1, hq.2, hrun] using hp

/-- **Never more jobs in flight than lanes.**  The in-flight counter (incremented when a lane
starts a job, decremented when it finishes) equals the number of running lanes, and its
all-time maximum never exceeds `n`. -/
theorem C16_lane_bound {n : Nat} {fifo : Bool} {s : State} (hn : 0 < n) (hr : Reachable n fifo s) :
    (runningJobs s.lanes).length ≤ n ∧ s.inflight = (runningJobs s.lanes).length ∧ s.peak ≤ n := by
  have h := inv_reachable hn hr
  refine ⟨?_, h.inflightEq, h.peakOk.2⟩
  have := runningJobs_length_le s.lanes
  rw [h.len] at this; exact this

/-- **When a lane may exit** (the precise condition): a lane has left its loop only if the
destructor's critical section has run; `C16_exactly_once` shows no job is stranded by it.
(Stepwise: `enter` moves a lane to `exited` only under the extracted condition
`shutdown ∧ readyJobs.empty ∧ readyPriorityJobs.empty`, or on a null descriptor.) -/
theorem C16_lane_exits_only_after_shutdown {n : Nat} {fifo : Bool} {s : State} (hn : 0 < n) (hr : Reachable n fifo s)
    (hnn : ∀ j ∈ s.added, j.null = false) (hex : Lane.exited ∈ s.lanes) : s.shutdown = true := by
  have h := inv_reachable hn hr
  rcases h.exitedWhy hex with h1 | h1
  · exact h1
  · exact absurd (dropped_nil_of_nonnull h hnn) h1

/-- **No lost wake-up, no stranded job**: whenever a job is queued some lane is awake (running, or
about to re-check the queues) — `notify_one` in `addJob` suffices; and after `shutdown` no lane
is blocked in `wait` any more, so the destructor's `join` is not waiting on a sleeping lane. -/
theorem C16_no_lost_wakeup {n : Nat} {fifo : Bool} {s : State} (hn : 0 < n) (hr : Reachable n fifo s)
    (hnn : ∀ j ∈ s.added, j.null = false) :
    ((s.prio ≠ [] ∨ s.normal ≠ []) → ∃ x ∈ s.lanes, x.awake = true) ∧
    (s.shutdown = true → Lane.waiting ∉ s.lanes) := by
  have h := inv_reachable hn hr
  exact ⟨h.noStranding (dropped_nil_of_nonnull h hnn), h.noWaitAfterShutdown⟩

/-- `getNextJob()` is never called on an empty container (no `front()`/`top()` of an empty queue). -/
theorem C16_no_empty_pop {n : Nat} {fifo : Bool} {s : State} (hn : 0 < n) (hr : Reachable n fifo s) : s.ub = false :=
  (inv_reachable hn hr).noUB

/-- the scheduler's pop order: FIFO takes the front, NamePriority a job with the greatest name -/
theorem C16_pop_order {fifo : Bool} {q r : List Job} {i : Nat} {j : Job} (h : popNormal fifo q i = some (j, r)) :
    (fifo = true → q = j :: r) ∧ (fifo = false → ∀ k ∈ q, k.key ≤ j.key) := popNormal_spec h

/-! ### the hypotheses are necessary: stranding schedules the code allows -/

def j1 : Job := ⟨1, 0, false⟩
def jNull : Job := ⟨0, 0, true⟩

/-- a null descriptor strands what is queued behind it: one lane pops `QueueJob{}` and leaves;
job 1 is never run although the destructor returns (replayed on the real queue by the harness) -/
theorem C16_null_descriptor_strands :
    (run (init 1 true) [.extAdd jNull false none, .extAdd j1 false none, .enter 0 0, .destroy none]).map
      (fun s => allExitedB s && s.normal == [j1] && s.executed.isEmpty) = some true := by decide

/-- a queue created with zero lanes never runs anything -/
theorem C16_zero_lanes_strand :
    (run (init 0 true) [.extAdd j1 false none, .destroy none]).map
      (fun s => allExitedB s && s.normal == [j1] && s.executed.isEmpty) = some true := by decide

/-! ### the serial queue (SerialQueueImpl / SerialExecutionQueue) -/

/-- every operation is executed exactly once before `~SerialQueueImpl` returns, including the
operations a running operation enqueues while the destructor is already waiting (after fix F162) -/
theorem C16_serial_exactly_once {s : Serial.State} (hr : Serial.Reachable s) :
    (s.executed ++ Serial.pendingJobs s ++ Serial.workerJobs s.worker).Perm s.added ∧
    (s.worker = .exited → s.ops = [] ∧ s.executed.Perm s.added) := by
  have h := Serial.inv_reachable hr
  refine ⟨h.perm, fun hw => ?_⟩
  have ho := h.exitedDone hw
  refine ⟨ho, ?_⟩
  have := h.perm
  simpa [Serial.pendingJobs, ho, hw, Serial.workerJobs] using this

/-- the full statement was FALSE of the code before F162 (`if (!fn) break;`): -/
def C16_serial_full_before_fix : Prop :=
  ∀ acts s, Serial.runWith false Serial.init acts = some s → s.worker = .exited → s.ops = []

theorem C16_serial_full_before_fix_false : ¬ C16_serial_full_before_fix := by
  intro h
  have := h [.extAdd 1, .take, .destroy, .jobAdd 2, .finish, .take]
    { ops := [.job 2], worker := .exited, destroyed := true, executed := [1], added := [2, 1] } (by decide) rfl
  cases this

/-! non-vacuity: a two-lane run with a job that adds a job, a priority job and cancellation -/
example : (run (init 2 false)
    [.extAdd ⟨1, 5, false⟩ false none, .enter 0 0, .enter 1 0, .jobAdd 0 ⟨2, 9, false⟩ true (some 1),
     .enter 1 0, .cancel none, .finish 0, .finish 1, .destroy none, .enter 0 0, .enter 1 0]).map
    (fun s => allExitedB s && s.executed == [⟨2, 9, false⟩, ⟨1, 5, false⟩] && s.peak == 2) = some true := by decide

end LLBuild.LaneQueue

namespace LLBuild.ProcStatus
open List
open LLBuild.Generated.ProcStatus (Status)

/-! ## (b) process accounting -/

/-- the tie of the hand-derived control-flow model to the source: the token sequences of
`spawnProcess` / `cleanUpExecutedProcess` extracted from the preprocessed source are the ones the
model was derived from (a changed call, return or lock breaks this `decide`). -/
theorem C16_spawn_shape :
    Generated.ProcStatus.spawnShape = expectedSpawnShape ∧ Generated.ProcStatus.cleanupShape = expectedCleanupShape := by
  decide

/-- **The status reflects the child's real fate**: Succeeded iff it exited 0; Cancelled iff it
was killed by the interrupt or the kill signal (the two signals the queue itself sends);
Failed otherwise (non-zero exit, any other signal). -/
theorem C16_status (f : Fate) (hv : f.valid) :
    (classify (encode f) = .succeeded ↔ f = .exited 0) ∧
    (classify (encode f) = .cancelled ↔
      ∃ core, f = .signaled Generated.ProcStatus.interruptSignal core ∨ f = .signaled Generated.ProcStatus.killSignal core) ∧
    (classify (encode f) = .failed ↔
      f ≠ .exited 0 ∧ ¬ ∃ core, f = .signaled Generated.ProcStatus.interruptSignal core ∨
                                 f = .signaled Generated.ProcStatus.killSignal core) := by
  cases f with
  | exited c =>
    simp only [Fate.valid] at hv
    have h128 : c * 256 % 128 = 0 := by omega
    simp only [classify, encode, wIfSignaled, wTermSig, h128, Generated.ProcStatus.cancelRequiresSignaled,
      Generated.ProcStatus.cancelSignals, Generated.ProcStatus.statusIfCancelled, Generated.ProcStatus.successRawStatus,
      Generated.ProcStatus.statusIfSuccessTest, Generated.ProcStatus.statusOtherwise]
    by_cases hc : c = 0
    · subst hc; simp
    · have : (c * 256 == 0) = false := by simp; omega
      simp [this, hc]
  | signaled sg core =>
    simp only [Fate.valid] at hv
    have hm : (sg + if core = true then 128 else 0) % 128 = sg := by cases core <;> simp <;> omega
    have hne : ((sg + if core = true then 128 else 0) == 0) = false := by cases core <;> simp <;> omega
    simp only [classify, encode, wIfSignaled, wTermSig, hm, hne, Generated.ProcStatus.cancelRequiresSignaled,
      Generated.ProcStatus.cancelSignals, Generated.ProcStatus.statusIfCancelled, Generated.ProcStatus.successRawStatus,
      Generated.ProcStatus.statusIfSuccessTest, Generated.ProcStatus.statusOtherwise,
      Generated.ProcStatus.interruptSignal, Generated.ProcStatus.killSignal]
    have h0 : (sg != 0) = true := by simp; omega
    have h127 : (sg != 127) = true := by simp; omega
    by_cases h2 : sg = 2
    · subst h2; simp
    · by_cases h9 : sg = 9
      · subst h9; simp
      · simp [h0, h127, h2, h9]

/-- **The completion callback fires exactly once per launch**, on every control-flow path of
`spawnProcess` (no arguments, group already closed, pipe failure, spawn failure, normal exit,
poll failure, released lane, wait failure) and of `executeProcess` (cancelled before spawn);
it is the LAST event of the launch — after every output notification and after
`processFinished` — and every `processStarted` is paired with exactly one `processFinished`. -/
theorem C16_completion_once (c : Bool) (w : World) :
    (completions (executeProcess c w)).length = 1 ∧
    (executeProcess c w).getLast? = (completions (executeProcess c w)).head?.map Ev.completion ∧
    startedCount (executeProcess c w) = finishedCount (executeProcess c w) := by
  unfold executeProcess spawnTrace spawnTraceWith cleanUp
  simp only [Generated.ProcStatus.pollFailureAborts]
  cases c
  · simp only [Bool.false_eq_true, if_false]
    repeat' split
    all_goals simp [completions, startedCount, finishedCount, filterMap_append, filter_append, getLast?_append, getLast?_cons]
  · simp [completions, startedCount, finishedCount]

/-- which status each path reports: spawn errors are Failed, a closed group is Cancelled, a reaped
child is classified by its wait status -/
theorem C16_completion_status (w : World) (hargs : w.noArgs = false) :
    (w.closed = true → completions (spawnTrace w) = [.cancelled]) ∧
    (w.closed = false → (w.pipeFail = true ∨ w.chdirUnsupported = true ∨ w.spawnFail = true) →
      completions (spawnTrace w) = [.failed] ∧ spawned (spawnTrace w) = false) ∧
    (w.closed = false → w.pipeFail = false → w.chdirUnsupported = false → w.spawnFail = false → w.waitFail = false →
      completions (spawnTrace w) = [classify w.status]) := by
  unfold spawnTrace spawnTraceWith cleanUp
  simp only [Generated.ProcStatus.pollFailureAborts, hargs]
  refine ⟨fun h => by simp [h, completions], fun h1 h2 => ?_, fun h1 h2 h3 h4 h5 => ?_⟩
  · cases hp : w.pipeFail <;> cases hc : w.chdirUnsupported <;> cases hs : w.spawnFail <;>
      simp [h1, hp, hc, hs, completions, spawned] at h2 ⊢
  · cases w.pollFail <;> cases w.release <;>
      simp [h1, h2, h3, h4, h5, completions, filterMap_append]

/-- the full statement was FALSE of the code before F161 (a poll failure `return`ed): -/
def C16_completion_once_before_fix : Prop := ∀ w, (completions (spawnTraceWith true w)).length = 1

theorem C16_completion_once_before_fix_false : ¬ C16_completion_once_before_fix := by
  intro h
  have := h { noArgs := false, closed := false, pipeFail := false, chdirUnsupported := false, spawnFail := false,
              chunks := 0, pollFail := true, release := false, chunksAfterRelease := 0, waitFail := false, status := 0 }
  simp [spawnTraceWith, completions] at this

/-- **Documented environment precedence**: the value a key gets is the FIRST one offered in the
(extracted) order build id, lane id, requested entries, inherited base environment (when
inheriting), task id, control descriptor; no key appears twice.  In particular the build and lane
ids cannot be overridden and a requested entry beats an inherited one. -/
theorem C16_env_precedence (i : EnvIn) :
    (∀ k, (assemble i).lookup k = (offered i).lookup k) ∧ ((assemble i).map (·.1)).Nodup ∧
    (assemble i).lookup (strBytes "LLBUILD_BUILD_ID") = some i.buildId ∧
    (∀ k v, k ≠ strBytes "LLBUILD_BUILD_ID" → k ≠ strBytes "LLBUILD_LANE_ID" → i.requested.lookup k = some v →
      (assemble i).lookup k = some v) := by
  have hl : ∀ k, (assemble i).lookup k = (offered i).lookup k := by
    intro k; simp [assemble, assembleFrom, lookup_foldl]
  refine ⟨hl, keys_foldl_nodup _ _ (by simp), ?_, ?_⟩
  · rw [hl]; simp [offered, Generated.LaneQueue.envOrder, sourceEntries]
  · intro k v h1 h2 hreq
    rw [hl]
    have e1 : (k == strBytes "LLBUILD_BUILD_ID") = false := by simpa using h1
    have e2 : (k == strBytes "LLBUILD_LANE_ID") = false := by simpa using h2
    simp [offered, Generated.LaneQueue.envOrder, sourceEntries, lookup_cons, e1, e2, lookup_append', hreq]

/-- **After cancellation no new process is started.**
(1) once the queue's `cancelled` flag is set, `executeProcess` completes with Cancelled without spawning;
(2) a `spawnProcess` that finds the group closed is refused the same way;
(3) over all interleavings of launches with `cancelAllJobs` (two mutex-protected steps each): no
    posix_spawn ever happens while the group is closed; `closed` and `cancelled` agree; after the
    interrupt round every registered interruptible child has been signalled, after the kill round
    every registered child — and since nothing is registered once closed, nobody escapes. -/
theorem C16_no_spawn_after_cancel :
    (∀ w, executeProcess true w = [.completion .cancelled]) ∧
    (∀ w, w.noArgs = false → w.closed = true → spawnTrace w = [.completion .cancelled]) ∧
    (∀ n s, Group.Reachable n s →
      s.closed = s.cancelled ∧ (∀ e ∈ s.spawnLog, e.2 = false) ∧
      (s.intDone = true → ∀ p ∈ s.procs, p.2 = true → p.1 ∈ s.intSent) ∧
      (s.killDone = true → ∀ p ∈ s.procs, p.1 ∈ s.killSent) ∧
      (∀ a s', s.closed = true → Group.step s a = some s' → ∀ p ∈ s'.procs, p ∈ s.procs)) := by
  refine ⟨fun w => by simp [executeProcess], fun w h1 h2 => by simp [spawnTrace, spawnTraceWith, h1, h2], ?_⟩
  intro n s hr
  have h := Group.inv_reachable hr
  refine ⟨h.closedIff, h.neverSpawnClosed, fun hi => (h.intAll hi).2, fun hi => (h.killAll hi).2, ?_⟩
  intro a s' hc hs p hp
  cases a with
  | newLaunch => simp [Group.step] at hs; subst hs; exact hp
  | check t =>
    simp only [Group.step] at hs
    split at hs
    · split at hs <;> (simp at hs; subst hs; exact hp)
    · simp at hs
  | spawnCS t safe ok =>
    simp only [Group.step, hc] at hs
    split at hs
    · simp at hs; subst hs; exact hp
    · simp at hs
  | reap t st =>
    simp only [Group.step] at hs
    split at hs
    · simp at hs; subst hs; exact (mem_filter.1 hp).1
    · simp at hs
  | cancelCS =>
    simp only [Group.step] at hs
    split at hs <;> (simp at hs; subst hs; exact hp)
  | signalInt =>
    simp only [Group.step] at hs
    split at hs
    · simp at hs; subst hs; exact hp
    · simp at hs
  | signalKill =>
    simp only [Group.step] at hs
    split at hs
    · simp at hs; subst hs; exact hp
    · simp at hs

/-- **Children already running are signalled and reaped (the escalation to SIGKILL happens).**
Model `Esc`: lanes released over the control channel, the escalation thread started by `cancelAllJobs`
(`killAfterTimeout`) and the destructor's hand-over (`queueComplete`), over all interleavings.  The statement at full
strength: whenever the destructor has joined the escalation thread, every process that is still registered — so every
process `~ProcessGroup` is about to wait for, e.g. one that released its lane — has been sent the kill signal. -/
def C16_escalation_full (fix : Bool) : Prop :=
  ∀ s, Esc.Reachable fix s → s.escJoined = true → ∀ p ∈ s.procs, p.1 ∈ s.killSent

/-- for the code in the tree (`escalatesWhenComplete` is extracted): full if the kill round is also run when the thread
finds `queueComplete` already set (F53); otherwise under the hypothesis that the escalation thread entered its wait
before the destructor stored `queueComplete` -/
theorem C16_escalation :
    ∀ s, Esc.Reachable Generated.LaneQueue.escalatesWhenComplete s → s.escJoined = true →
      (Generated.LaneQueue.escalatesWhenComplete = true ∨ s.waited = true) →
      ∀ p ∈ s.procs, p.1 ∈ s.killSent :=
  fun _ h hj hw => Esc.escalated h hj hw

/-- with F53 the full statement holds -/
theorem C16_escalation_full_after_fix : C16_escalation_full true :=
  fun _ h hj => Esc.escalated h hj (Or.inl rfl)

/-- without F53 it is false: a child releases its lane, the build is cancelled, the destructor joins the (free) lanes
and stores `queueComplete` before the escalation thread takes the mutex; the thread returns without signalling and
`~ProcessGroup` waits for a child nobody killed (replayed on the real queue: `vc16 cancelphase`, destroy field `r0`) -/
theorem C16_escalation_full_before_fix_false : ¬ C16_escalation_full false := by
  intro h
  have hr : Esc.run false Esc.init [.spawn, .release 1, .cancel, .joinLanes, .complete, .escEnter, .joinEsc] =
      some { procs := [(1, false)], nextPid := 2, closed := true, thread := .finished false, lanesJoined := true,
             queueComplete := true, escJoined := true, killSent := [], waited := false } := by decide
  have := h _ (Esc.reachable_run .init _ hr) rfl (1, false) (by simp)
  simp at this

/-! non-vacuity -/
-- the same history with the thread parked first: the destructor's notify makes it kill the released child at once
example : (Esc.run false Esc.init [.spawn, .release 1, .cancel, .escEnter, .joinLanes, .complete, .escWake, .joinEsc]).map
    (fun s => (s.escJoined, s.waited, s.procs, s.killSent)) = some (true, true, [(1, false)], [1]) := by decide
-- a child that holds its lane blocks the join of the lanes until it is reaped (deadline: escWake, then reap)
example : (Esc.run false Esc.init [.spawn, .cancel, .escEnter, .joinLanes]) = none ∧
    ((Esc.run false Esc.init [.spawn, .cancel, .escEnter, .escWake, .reap 1, .joinLanes, .complete, .joinEsc]).map
      (fun s => (s.escJoined, s.procs, s.killSent))) = some (true, [], [1]) := by decide
example : classify (encode (.exited 0)) = .succeeded ∧ classify (encode (.exited 3)) = .failed ∧
    classify (encode (.signaled 2 false)) = .cancelled ∧ classify (encode (.signaled 9 false)) = .cancelled ∧
    classify (encode (.signaled 15 false)) = .failed ∧ classify (encode (.signaled 11 true)) = .failed := by decide

-- requested A=1, LLBUILD_LANE_ID=9 (ignored), A=2 (ignored); inherited A=9 (ignored), B=5
example : assemble { buildId := [55], laneId := [48], taskId := [49], controlFd := none,
                     requested := [([65], [49]), (strBytes "LLBUILD_LANE_ID", [57]), ([65], [50])],
                     inherited := [([65], [57]), ([66], [53])], inherit := true }
    = [(strBytes "LLBUILD_BUILD_ID", [55]), (strBytes "LLBUILD_LANE_ID", [48]), ([65], [49]), ([66], [53]),
       (strBytes "LLBUILD_TASK_ID", [49])] := by decide

-- a launch racing cancelAllJobs: launch 0 spawns before the close and is signalled; launch 1 checked the flag
-- before the close but reaches the spawn section after it and is refused; launch 2 starts after and never spawns
example : (do
    let s ← Group.step (Group.init 3) (.check 0)
    let s ← Group.step s (.check 1)
    let s ← Group.step s (.spawnCS 0 true true)
    let s ← Group.step s .cancelCS
    let s ← Group.step s (.spawnCS 1 true true)
    let s ← Group.step s (.check 2)
    let s ← Group.step s .signalInt
    pure (s.launches, s.intSent, s.spawnLog)) =
    some ([.running 1, .done .cancelled false, .done .cancelled false], [1], [(1, false)]) := by decide

end LLBuild.ProcStatus
