/-
C11, engine level — "If a command reports … that it read path P, then any later observable change
to P … re-executes the command."

On the abstract engine: the last completed execution of rule `k` reported the discovered dependency
`d` while `d`'s rule gave the value `v` (the ghost record `s.mem.disc k`).  If the external state now
gives `d` another value, NO accepted trace declares `k` up to date: `upToDate k` is refused in that
state, so a scan of `k` can only end in `needs` (the rule is re-executed; by C02 the reported reason
is true).  The statement is a safety statement (the engine model has no liveness); that the deps-file
parsers hand the engine exactly the written paths is C11's other half (Props/C11.lean).
-/
import LLBuild.Lemmas.Engine.Run
import LLBuild.Lemmas.Engine.UpToDate

set_option linter.unusedVariables false

namespace LLBuild.Engine

/-- **A changed discovered dependency is honoured.** -/
theorem C11_discovered_change_not_up_to_date {P : Program} (hP : P.WF) {evs : List Event} {s : St}
    (hrun : run P {} evs = some s) (hnd : s.pendingDropped = false)
    {k d : Key} {v : Val} (hd : (d, v) ∈ s.mem.disc k) (hchg : P.out d s.env [] ≠ v) :
    step P s (.upToDate k) = none := by
  have hi := reach_inv hP hrun hnd
  cases hs : step P s (.upToDate k) with
  | none => rfl
  | some s' =>
    exfalso
    simp only [step] at hs
    split at hs
    · rename_i hc
      simp only [Bool.and_eq_true, beq_iff_eq, List.all_eq_true] at hc
      obtain ⟨⟨hst, hv⟩, hall⟩ := hc
      obtain ⟨hvalid, hb, hsig⟩ := hi.validOk k hst hv
      have hnf : inflight s k = false := by simp [inflight, hst]
      have hso : Reusable P k (s.mem.res k).sig := by
        refine ⟨?_, s.env, _, hvalid⟩
        rw [hsig]; exact hi.sigAtOk k (hi.scanReg k hst)
      obtain ⟨hg, hf⟩ := hi.good k hb hnf
      have hgood := hg hso
      -- the dependency is recorded, so the scan compared it
      have hdep := hall _ (hgood.depsDisc d v hd)
      simp only [depFresh, Bool.and_eq_true, isDone, beq_iff_eq, Bool.or_eq_true, Bool.false_eq_true, false_or,
        Bool.not_eq_eq_eq_not, Bool.not_true, decide_eq_false_iff_not] at hdep
      obtain ⟨hdone, hnlt⟩ := hdep
      -- `d` is an input rule, complete in this build: its stored value is what the external state gives now
      have hself : P.self d = true := by
        have := hgood.disc
        rw [this] at hd
        obtain ⟨x, hx, hxe⟩ := List.mem_map.1 hd
        cases hxe
        exact hP.disc_self k _ _ hx
      have hval := clean_self hP hself (hi.clean d hdone)
      rcases hf.disc d v hd with h1 | h1 | h1
      · exact hchg (by rw [← hval, h1])
      · exact hnlt h1
      · exact hchg (hi.pendOk d v h1).1.symm
    · cases hs

namespace DiscExample

/-- rule 1 reads external state; rule 2 requests nothing, reports 1 as a discovered dependency and
computes from the external state at 1 -/
def P : Program where
  sig := fun _ _ => 7
  valid := fun env k v => if k = 1 then v == env 1 else true
  next := fun _ _ => []
  disc := fun k _ => if k = 2 then [1] else []
  out := fun k env _ => if k = 1 then env 1 else if k = 2 then env 1 + 100 else 0
  force := fun _ => false
  self := fun k => k == 1

theorem P_WF : P.WF := by
  refine ⟨?_, ?_, ?_, ?_, ?_, ?_⟩
  · intro k env env' recv hd hs
    by_cases e : k = 1
    · subst e; simp only [P, if_true]; exact hs (by simp [P])
    · by_cases e2 : k = 2
      · subst e2; have := hd 1 (by simp [P]); simp [P, this]
      · simp [P, e, e2]
  · intro k env v hs hv
    have e : k = 1 := by simpa [P] using hs
    subst e; simpa [P] using hv
  · intro k recv _; rfl
  · intro k recv hs
    have e : k = 1 := by simpa [P] using hs
    subst e; simp [P]
  · intro k recv d hd
    by_cases e2 : k = 2
    · subst e2; simp [P] at hd; subst hd; simp [P]
    · simp [P, e2] at hd
  · intro d env env' hs h
    have e : d = 1 := by simpa [P] using hs
    subst e; simpa [P] using h

/-- a first build of 2 with external state 1 ↦ 3 (the discovered dependency is brought up to date
after the task finished), the end of that build, an edit of 1, and the start of the next build up to
the scan of rule 2 -/
def evs : List Event :=
  [.mutate 1 3, .buildStart 2, .queueCreated, .dbIter 1, .lookup 2, .scanning 2, .needs 2 0 none, .create 2,
   .start 2 [], .inputsAvail 2 [1], .complete 2 103 false, .lookup 1,
   .finished 2 { value := 103, sig := 7, computedAt := 1, builtAt := 1, deps := [⟨1, false, false⟩] },
   .scanning 1, .needs 1 0 none, .create 1, .start 1 [], .inputsAvail 1 [], .complete 1 3 false,
   .finished 1 { value := 3, sig := 7, computedAt := 1, builtAt := 1, deps := [] },
   .ret 103, .dbEnd, .tail 0 0,
   .mutate 1 4,
   .buildStart 2, .queueCreated, .dbIter 2, .scanning 2, .valid 2 103 true]

/-- non-vacuity: the hypotheses of `C11_discovered_change_not_up_to_date` hold of a concrete
accepted history (and the rule is indeed being scanned with a positive validity verdict) -/
example : ((run P {} evs).map (fun s => !s.pendingDropped && s.mem.disc 2 == [(1, 3)] && (P.out 1 s.env [] != 3) &&
    (s.status 2 == .scanning) && (s.validSeen 2 == some true))) = some true := by decide

end DiscExample

end LLBuild.Engine
