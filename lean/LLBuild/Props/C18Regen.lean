/- C18, self-regenerating manifests: "Ninja builds converge to the clean-build state" presupposes that the main build
   runs with the manifest that is ON DISK when it starts - also when the first iteration has just regenerated it, and
   also when the regeneration rewrote only an `include`d / `subninja`'d file.  Theorems about the driver loop of
   Model/NinjaRegen.lean, whose loop bound and reload decision are regenerated from NinjaBuildCommand.cpp. -/
import LLBuild.Model.NinjaRegen

namespace LLBuild.NinjaRegen
open LLBuild.NinjaBuild

variable {Disk Graph : Type}

/-- The main build always happens (the reload `continue` never falls off the end of the loop). -/
theorem C18_regen_main_build_happens (S : Sys Disk Graph) (auto : Bool) (d : Disk) :
    ∃ r, driver S auto d = some r := by
  unfold driver
  simp only [Gen.maxIterations, iter]
  cases auto <;> simp only [Bool.false_and, Bool.true_and, beq_self_eq_true, if_true]
  · exact ⟨_, rfl⟩
  · split
    · exact ⟨_, rfl⟩
    · exact ⟨_, rfl⟩

/-- **The graph of the main build is the manifest on disk at that moment**, for every file system, loader and engine
    behaviour, with and without automatic regeneration, whatever files the regeneration rewrote. -/
theorem C18_regen_main_build_uses_manifest_on_disk (S : Sys Disk Graph) (hq : Quiet S) (auto : Bool) (d : Disk)
    (g : Graph) (d' : Disk) (h : driver S auto d = some (g, d')) : g = S.load d' := by
  unfold driver at h
  simp only [Gen.maxIterations, iter] at h
  cases auto
  · simp only [Bool.false_and] at h
    cases h; rfl
  · simp only [Bool.true_and, beq_self_eq_true, if_true] at h
    by_cases hr : codedReload d (S.regen (S.load d) d).1 (S.regen (S.load d) d).2 = true
    · rw [if_pos hr] at h
      simp at h
      obtain ⟨h1, h2⟩ := h
      rw [← h1, ← h2]
    · rw [if_neg hr] at h
      simp only [Option.some.injEq, Prod.mk.injEq] at h
      obtain ⟨h1, h2⟩ := h
      have h0 : (S.regen (S.load d) d).2 = 0 := by
        simp only [codedReload, Gen.reloadIfAnyCommandRan, Gen.builtCounterCountsEveryRun, Bool.true_and] at hr
        simpa using hr
      rw [← h1, ← h2]
      exact (hq _ _ h0).symm

/-- Without automatic regeneration the manifest is loaded once and used as it is. -/
theorem C18_regen_disabled (S : Sys Disk Graph) (d : Disk) : driver S false d = some (S.load d, d) := by
  unfold driver
  simp [Gen.maxIterations, iter]

/-- When the regeneration ran a command the manifest is loaded a second time, from the disk the regeneration left. -/
theorem C18_regen_reloads_after_any_command (S : Sys Disk Graph) (d : Disk) (h : (S.regen (S.load d) d).2 ≠ 0) :
    driver S true d = some (S.load (S.regen (S.load d) d).1, (S.regen (S.load d) d).1) := by
  unfold driver
  have hr : codedReload d (S.regen (S.load d) d).1 (S.regen (S.load d) d).2 = true := by
    simp [codedReload, Gen.reloadIfAnyCommandRan, Gen.builtCounterCountsEveryRun, h]
  simp [Gen.maxIterations, iter, hr]

/-! ### A cheaper reload decision is wrong: "reload iff the main file changed"

Disk = (main file, included file); the graph is both texts; the regeneration rewrites only the included file
(copy-if-different leaves the main file alone) and runs one command. -/

/-- the split manifest of the seeded change C18-8 -/
def splitSys : Sys (Nat × Nat) (Nat × Nat) where
  load := fun d => d
  regen := fun _ d => ((d.1, d.2 + 1), 1)

theorem splitSys_quiet : Quiet splitSys := by
  intro g d h; simp [splitSys] at h

/-- With "reload iff build.ninja itself changed" the main build runs with a graph that is NOT the manifest on disk. -/
theorem C18_regen_reload_on_main_file_change_is_wrong :
    iter splitSys (fun before after _ => before.1 != after.1) true 2 0 (7, 1) = some ((7, 1), (7, 2)) ∧
    splitSys.load (7, 2) ≠ (7, 1) := by
  decide

/-- non-vacuity: the coded driver on the same system reloads and sees the regenerated included file -/
example : driver splitSys true (7, 1) = some ((7, 2), (7, 2)) := by decide

/-- non-vacuity of `Quiet` with a regeneration that runs nothing -/
example : Quiet ({ load := fun d => d, regen := fun _ d => (d, 0) } : Sys Nat Nat) := by
  intro g d _; rfl

end LLBuild.NinjaRegen
